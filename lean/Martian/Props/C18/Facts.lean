import Martian.Generated.Shape
import Martian.Generated.Proxy
import Martian.Model.Shape
/-!
C18 — structural facts of `trafficshape/*.go` and of `Proxy.handle`, regenerated from the source on
every check (`go/cmd/vextract/facts_c18.go` → `Generated/Shape.lean`), that `Model/Shape.lean`
transcribes.  Receiver and variable qualifiers are stripped; logging and temporaries are dropped.
-/
namespace Martian.Props.C18
open Martian
open Martian.Generated.Shape

def kinds (l : List (String × String)) : List String := l.map (·.1)

def firstIdx (x : String) (l : List String) : Nat := l.findIdx (· == x)

/-- The events strictly between the first `lock` and the first `unlock` after it. -/
def critical (l : List (String × String)) : List (String × String) :=
  let rest := l.drop (firstIdx "lock" (kinds l) + 1)
  rest.take (firstIdx "unlock" (kinds rest))

/-- The events before the first `lock`. -/
def beforeLock (l : List (String × String)) : List (String × String) := l.take (firstIdx "lock" (kinds l))

/-- `DefaultBitrate / 8` is the model's default bandwidth. -/
theorem facts_default_bandwidth : defaultBitrate / 8 = Shape.defaultBw := by decide

/-- `ServeHTTP` validates completely before it touches the listener: up to `Shapes.Lock()` there are
only the body read, the JSON decoding, `parseShapes` and rejections (in this order), every
rejection is a 400 and none comes after the lock.  (`configure` returns `.error` with the state
untouched.) -/
theorem facts_serveHTTP_validates_before_lock :
    (kinds (beforeLock serveHTTP)).all
      (fun e => e == "read-body" || e == "decode" || e == "parse" || e == "return" || e == "reject") = true ∧
    firstIdx "read-body" (kinds (beforeLock serveHTTP)) < firstIdx "decode" (kinds (beforeLock serveHTTP)) ∧
    firstIdx "decode" (kinds (beforeLock serveHTTP)) < firstIdx "parse" (kinds (beforeLock serveHTTP)) ∧
    firstIdx "parse" (kinds (beforeLock serveHTTP)) < (beforeLock serveHTTP).length ∧
    (serveHTTP.filter (·.1 == "reject")).all (·.2 == "400") = true ∧
    (kinds (serveHTTP.drop (firstIdx "lock" (kinds serveHTTP)))).contains "reject" = false := by decide

/-- Everything the request changes is changed inside one critical section of the shape map — the
defaults, the swap of the map, its entries — and after `Unlock` only the 200 follows.
(`configure` is one atomic step.) -/
theorem facts_serveHTTP_swap_under_lock :
    firstIdx "lock" (kinds serveHTTP) < firstIdx "unlock" (kinds serveHTTP) ∧
    (kinds (critical serveHTTP)).contains "swap" = true ∧
    (kinds (critical serveHTTP)).contains "fill" = true ∧
    serveHTTP.drop (firstIdx "unlock" (kinds serveHTTP) + 1) = [("respond", "http.StatusOK")] ∧
    ((serveHTTP.filter (fun e => e.1 == "write" || e.1 == "swap" || e.1 == "fill" || e.1 == "stamp")).length =
      ((critical serveHTTP).filter (fun e => e.1 == "write" || e.1 == "swap" || e.1 == "fill" || e.1 == "stamp")).length) := by
  decide

/-- **The time stamp is the moment of the swap**: every assignment of `LastModifiedTime` happens
inside the critical section (previous fact) and is a fresh `time.Now()`, and one of them follows
the swap and the filling of the map.  (`configure` sets `lastMod := clock` in the step that swaps
the shapes; a connection accepted while the request body was still being uploaded is older.) -/
theorem facts_serveHTTP_stamp_in_swap :
    (serveHTTP.filter (·.1 == "stamp")).all (·.2 == "time.Now()") = true ∧
    firstIdx "swap" (kinds (critical serveHTTP)) < firstIdx "fill" (kinds (critical serveHTTP)) ∧
    (kinds ((critical serveHTTP).drop (firstIdx "fill" (kinds (critical serveHTTP))))).contains "stamp" = true := by
  decide

/-- `parseShapes` in the order `Shape.parseShape` transcribes: per shape — null, empty pattern,
pattern that does not compile, negative bandwidth; per throttle — null, bandwidth `<= 0`, split on
"-" into exactly two, both halves `ParseInt(_, 10, 64)`, `end < start`, `start == end`; per halt —
null, negative duration or offset, zero count; per close action — null, negative offset, zero
count; stable sort of the throttles, `getActionsFromThrottles` (overlap), stable sort of the
actions; the global buckets are started only after every shape has been validated. -/
theorem facts_parseShapes_order :
    parseShapes =
      ["for Shapes {",
       "fail nilshape if shape == nil",
       "fail noregex if URLRegex == \"\"",
       "fail badregex if _, err = Compile(URLRegex); err != nil",
       "fail negmax if MaxBandwidth < 0",
       "for Throttles {",
       "fail nilthrottle if throttle == nil",
       "fail badbw if Bandwidth <= 0",
       "split \"-\"",
       "fail badbytes if len(sl) != 2",
       "parse-int 10 64",
       "fail badbytes if err != nil",
       "parse-int 10 64",
       "fail badbytes if err != nil",
       "fail badbytes if ByteEnd < ByteStart",
       "fail badbytes if ByteStart == ByteEnd",
       "}",
       "for Halts {",
       "fail nilhalt if value == nil",
       "fail badhalt if Duration < 0 || Byte < 0",
       "fail zerohalt if Count == 0",
       "}",
       "for CloseConnections {",
       "fail nilclose if value == nil",
       "fail badclose if Byte < 0",
       "fail zeroclose if Count == 0",
       "}",
       "stable-sort Throttles",
       "actions-from-throttles",
       "fail overlap if err != nil",
       "stable-sort Actions",
       "}",
       "for Shapes {",
       "new-bucket",
       "}"] := by decide

/-- The overlap rule of `getActionsFromThrottles` (`Shape.actionsFromThrottles`): the last throttle
may be open-ended; any other must end at or before the start of its successor and may not be
open-ended; adjacent throttles share one bandwidth change. -/
theorem facts_actionsFromThrottles_rule :
    actionsFromThrottles =
      ["if index == lenThr-1", "if end == -1", "break",
       "if end > throttles[index+1].ByteStart || end == -1", "fail",
       "if end == throttles[index+1].ByteStart"] := by decide

/-- One round of the loop of `Conn.Write` (`Shape.stepLoop`): amount up to the next action, write
through both buckets, account the bytes, **advance the buffer**, and only then look at the
pending action. -/
theorem facts_write_round_order :
    writeRound =
      ["amount = int64(len(b))", "amount-till-next-action", "write-through-buckets", "return-on-error",
       "offset += n", "total += n", "b = b[max:]", "action-check ActionNext && ByteOffset >= ByteOffset"] := by decide

/-- Inside the closures of the two buckets (the connection's own and the one shared by the shape)
exactly one slice of the buffer is handed to the wrapped connection, and the loop advances the
buffer by that same bound: what is skipped is what was written.  (`Shape.stepLoop` delivers
`b.take m` and continues with `b.drop m` for one `m = min (cap + 1) amount`, where the adversary's
`cap + 1` stands for the smaller of the two buckets' remaining capacities — any value ≥ 1, so both
capacities are quantified independently.) -/
theorem facts_write_chunk_is_what_is_skipped :
    writeChunk = ["write b[:max]", "advance b[max:]"] := by decide

/-- The action block: validity is re-checked first; if the shapes were replaced, shaping is switched
off and the (already advanced) rest goes through the default buckets; otherwise count check,
decrement, the action itself, and the next action is the next *index* with a non-zero count. -/
theorem facts_write_action_block :
    writeAction =
      ["CheckExistenceAndValidity", "Shaping = false", "WriteDefaultBuckets b", "getCount", "decrementCount",
       "Sleep", "force-close", "SetCapacity", "GetNextActionFromIndex ind + 1"] := by decide

/-- A shaped response that reaches `Conn.ReadFrom` (the body of a response larger than the proxy's
write buffer does) is routed through `Write`. -/
theorem facts_readFrom_shaped_goes_through_write :
    readFrom = ["if Context != nil && Shaping", "call io.Copy", "return"] := by decide

/-- `Proxy.handle` resets the shaping context for every response before it matches the URL
(`Shape.setContext` returns the empty context unless a pattern matches and the range start is
usable), and a matching response starts at its range start with the length of the dumped head. -/
theorem facts_handle_context_per_response :
    handleContext =
      ["Context = &Context{}", "for LocalBuckets {", "if match, _ := MatchString(urlregex, String()); match",
       "if rangeStart := GetRangeStart(res); rangeStart > -1", "if ThrottleNow", "break", "}"] ∧
    (["Shaping: true", "ByteOffset: rangeStart", "RangeStart: rangeStart", "HeaderLen: int64(len(dump))",
      "HeaderBytesWritten: 0", "NextActionInfo = GetNextActionFromByte(rangeStart)",
      "ThrottleContext = GetCurrentThrottle(rangeStart)", "SetCapacity Bandwidth"].all handleContextSet.contains) = true := by
  decide

/-- In `Proxy.handle` the decision to close the connection (`res.Close = true`, which makes
`res.Write` add `Connection: close` to the head) is taken BEFORE the shaping context is built, so
the `HeaderLen` measured there by `DumpResponse` is the length of the head that is really written,
and both come before the response is written.  (`Shape.setContext` takes the head length of the
response as it goes out; the end-to-end tier compares it with the head the client received.) -/
theorem facts_handle_close_decision_before_context :
    firstIdx "if req.Close || res.Close || p.Closing() {" Martian.Generated.Proxy.handle <
      firstIdx "shaping-context-block" Martian.Generated.Proxy.handle ∧
    firstIdx "shaping-context-block" Martian.Generated.Proxy.handle < firstIdx "call res.Write" Martian.Generated.Proxy.handle ∧
    firstIdx "call res.Write" Martian.Generated.Proxy.handle < Martian.Generated.Proxy.handle.length ∧
    (Martian.Generated.Proxy.handle.filter (· == "shaping-context-block")).length = 1 ∧
    (Martian.Generated.Proxy.handle.filter (· == "if req.Close || res.Close || p.Closing() {")).length = 1 := by
  decide

end Martian.Props.C18
