import Martian.Lemmas.ShapeSim
/-!
C18 — what an accepted configuration installs does not depend on what was posted before, and which
throttle is active at an offset does not depend on the order the throttles were posted in.
-/
namespace Martian.Props.C18
open Martian Martian.Go Martian.Shape

/-- Whether a configuration is accepted, and what it installs (shapes with their posted counts,
default bandwidths, latency), depends on the posted configuration only — not on the listener it is
posted to. -/
theorem configure_independent_of_listener (la lb : Listener) (cfg : RawConfig) :
    (∀ a, configure la cfg = .ok a → ∃ b, configure lb cfg = .ok b ∧ b.shapes = a.shapes ∧ b.up = a.up ∧
      b.down = a.down ∧ b.latency = a.latency) ∧
    (∀ e, configure la cfg = .error e → configure lb cfg = .error e) := by
  unfold configure
  simp only
  constructor
  · intro a h
    split at h
    · cases h
    · rename_i hd
      simp only [hd, if_false]
      split at h
      · cases h
      · rename_i ps hp
        cases h
        exact ⟨_, rfl, rfl, rfl, rfl, rfl⟩
  · intro e h
    split at h
    · rename_i hd
      simp only [hd, if_true]; exact h
    · rename_i hd
      simp only [hd, if_false]
      split at h
      · rename_i e' hp
        cases h; rfl
      · cases h

/-- **An accepted post installs exactly its own compilation after ANY history.**  Take any history
(configurations — also this very one —, accepts, Writes that consumed counted actions, in any
interleaving) and post `cfg`.  If it is accepted, the active shapes are the ones `cfg` compiles to
on an empty listener: every counted halt / close action has its posted count again, and a
connection accepted next sees exactly these shapes. -/
theorem accepted_post_resets_counts_after_any_history (pre : List Step) (cfg : RawConfig) (l1 : Listener)
    (h1 : configure (World.run {} pre).l cfg = .ok l1) :
    ∃ l0, configure {} cfg = .ok l0 ∧ l1.shapes = l0.shapes ∧
      ((World.run {} pre).step (.configure cfg)).l = l1 ∧
      ∀ r, validShape (accept l1).1 (accept l1).2 r = mapGet r l0.shapes := by
  obtain ⟨l0, h0, hs, _⟩ := (configure_independent_of_listener (World.run {} pre).l {} cfg).1 l1 h1
  refine ⟨l0, h0, hs.symm, by simp [World.step, configureSt, h1], ?_⟩
  intro r
  have hlm := (configure_ok_lastMod _ _ _ h1).1
  have hck : l1.lastMod < l1.clock := by
    have hc : ClockOK (World.run {} pre) := run_clockOK pre {} clockOK_init
    have := (step_clockOK (World.run {} pre) (.configure cfg) hc).1.1
    simpa [World.step, configureSt, h1] using this
  unfold validShape accept
  simp only [hck, if_true, hs]

/-- … and whether it is accepted does not depend on the history either (in particular posting the
configuration that is already active is not a special case). -/
theorem acceptance_independent_of_history (pre : List Step) (cfg : RawConfig) :
    (∃ l1, configure (World.run {} pre).l cfg = .ok l1) ↔ (∃ l0, configure {} cfg = .ok l0) := by
  constructor
  · rintro ⟨l1, h⟩
    obtain ⟨b, hb, _⟩ := (configure_independent_of_listener _ {} cfg).1 l1 h
    exact ⟨b, hb⟩
  · rintro ⟨l0, h⟩
    obtain ⟨b, hb, _⟩ := (configure_independent_of_listener {} (World.run {} pre).l cfg).1 l0 h
    exact ⟨b, hb⟩

/-! ### Which throttle is active does not depend on the posted order -/

/-- On a list of throttles sorted by start and without overlap (every accepted shape:
`accepted_shape_sorted_nonoverlapping`) the binary search of `GetCurrentThrottle` returns the
bandwidth of THE interval that contains the offset, and nothing if there is none. -/
theorem current_throttle_is_containing_interval (ts : List Throttle) (hs : SortedBy Throttle.start ts)
    (hn : NoOverlap ts) (x bw : Int) :
    currentThrottle ts x = some bw ↔
      ∃ t ∈ ts, t.start ≤ x ∧ (x < t.stop ∨ t.stop = -1) ∧ t.bw = bw := by
  unfold currentThrottle
  have sp := searchGo_spec _ _ (mono_start ts hs x) ts.length 0 ts.length rfl (Nat.zero_le _)
    (Nat.le_refl _) (by intro m hm; omega) (by intro m h1 h2; omega)
  generalize searchGo (fun i => decide (startAt ts i > x)) 0 ts.length = ind at sp
  obtain ⟨_, hle, hlo, hhi⟩ := sp
  have lo : ∀ m (hm : m < ind), (ts[m]'(by omega)).start ≤ x := by
    intro m hm
    have := hlo m hm
    simp only [decide_eq_false_iff_not] at this
    rw [startAt_eq (by omega)] at this
    omega
  have hi : ∀ m, ind ≤ m → (hm : m < ts.length) → ts[m].start > x := by
    intro m h1 hm
    have := hhi m h1 hm
    simp only [decide_eq_true_eq] at this
    rw [startAt_eq hm] at this
    exact this
  unfold throttleAt
  constructor
  · intro h
    split at h
    · cases h
    · split at h
      · cases h
      · rename_i hlen hind
        have hi1 : ind - 1 < ts.length := by omega
        rw [List.getElem?_eq_getElem hi1] at h
        simp only at h
        refine ⟨ts[ind - 1], List.getElem_mem _, lo (ind - 1) (by omega), ?_⟩
        split at h
        · split at h
          · rename_i hc; cases h; exact ⟨by omega, rfl⟩
          · cases h
        · split at h
          · rename_i hc; cases h; exact ⟨by omega, rfl⟩
          · cases h
  · rintro ⟨t, ht, h1, h2, h3⟩
    obtain ⟨j, hj, rfl⟩ := List.mem_iff_getElem.1 ht
    have hjind : j < ind := by
      rcases Nat.lt_or_ge j ind with h | h
      · exact h
      · have := hi j h hj; omega
    have hjeq : j = ind - 1 := by
      rcases Nat.lt_or_ge j (ind - 1) with hlt | hge
      · have no := noOverlap_get ts hn j (by omega)
        have := lo (j + 1) (by omega)
        omega
      · omega
    have hlen : ¬ ts.length = 0 := by omega
    have hind : ¬ ind = 0 := by omega
    simp only [hlen, hind, if_false]
    have hi1 : ind - 1 < ts.length := by omega
    rw [List.getElem?_eq_getElem hi1]
    simp only
    have hget : ts[ind - 1] = ts[j] := by congr 1; exact hjeq.symm
    rw [hget]
    by_cases hl : ind = ts.length
    · simp only [hl, if_true]
      have : ts[j].stop > x ∨ ts[j].stop = -1 := by omega
      simp only [this, if_true, h3]
    · simp only [hl, if_false]
      have no := noOverlap_get ts hn j (by omega)
      have : ts[j].stop > x := by omega
      simp only [this, if_true, h3]

/-- **The active throttle is independent of the order the throttles were posted in.**  For every
accepted shape: `GetCurrentThrottle` at offset `x` (on the sorted list the shape keeps) answers
`bw` exactly if one of the POSTED throttles — membership in the posted list, wherever it stands
in it — covers `x` with bandwidth `bw`. -/
theorem current_throttle_independent_of_posted_order (si : Nat) (rs : RawShape) (r : Nat) (sh : Shape)
    (h : parseShape si (some rs) = .ok (r, sh)) (x bw : Int) :
    ∃ posted, parseThrottles si 0 rs.throttles = .ok posted ∧
      (currentThrottle sh.throttles x = some bw ↔
        ∃ t ∈ posted, t.start ≤ x ∧ (x < t.stop ∨ t.stop = -1) ∧ t.bw = bw) := by
  unfold parseShape at h
  simp only at h
  cases hr : rs.regex with
  | empty => simp [hr] at h
  | bad => simp [hr] at h
  | valid r' =>
    simp only [hr] at h
    split at h
    · cases h
    · cases ht : parseThrottles si 0 rs.throttles with
      | error e => simp [ht] at h
      | ok ts =>
        simp only [ht] at h
        cases hh : parseHalts si 0 rs.halts with
        | error e => simp [hh] at h
        | ok hs' =>
          simp only [hh] at h
          cases hcl : parseCloses si rs.halts.length 0 rs.closes with
          | error e => simp [hcl] at h
          | ok cs =>
            simp only [hcl] at h
            cases ha : actionsFromThrottles (if rs.maxBw = 0 then defaultBw else rs.maxBw)
                (stableSort Throttle.start ts) with
            | none => simp [ha] at h
            | some tas =>
              simp only [ha] at h
              cases h
              refine ⟨ts, rfl, ?_⟩
              simp only
              rw [current_throttle_is_containing_interval _ (stableSort_sorted _ _)
                (actionsFromThrottles_noOverlap _ _ _ ha)]
              constructor
              · rintro ⟨t, ht', rest⟩
                exact ⟨t, (mem_stableSort _ t ts).1 ht', rest⟩
              · rintro ⟨t, ht', rest⟩
                exact ⟨t, (mem_stableSort _ t ts).2 ht', rest⟩

end Martian.Props.C18
