import Martian.Lemmas.ShapeSim
/-!
C18 — interleaved histories.  A history is any list of steps of the world `World` (one listener,
its connections): configuration swaps, accepts, per-response context set-up, entries of
`Conn.Write` and single rounds of any connection's write loop, in any order.  Between two rounds
of one connection everything else may happen: that is where the code holds no lock of the shape
map.  (A configuration request whose body is still being uploaded has no step of its own: parse,
validate, swap and time stamp happen at its `configure` step — facts `facts_serveHTTP_*`.)
-/
namespace Martian.Props.C18
open Martian Martian.Go Martian.Shape

/-- **Bytes are never altered, in any interleaving.**  Whatever configuration requests, accepts
and rounds of other connections happen between the rounds of a connection's `Write` calls, and
whatever the buckets do: what the client has received is a prefix of what was written, and as long
as no call of the connection was cut, received ++ still pending = written. -/
theorem interleaved_delivered_prefix (steps : List Step) :
    ∀ ic ∈ (World.run {} steps).conns,
      ic.delivered <+: ic.written ∧ (ic.dead = false → ic.delivered ++ ic.rest = ic.written) := by
  intro ic hic
  have := run_connOK steps {} (by intro ic h; cases h) ic hic
  exact ⟨this.1, this.2.1⟩

/-- **An accepted configuration applies only to connections accepted afterwards — for interleaved
histories.**  Take any history `pre`, a configuration that is accepted in the state it leads to,
and any continuation `post` (further rounds of Writes that were in progress, new Writes, accepts,
more configurations).  Every connection that existed when the configuration was swapped in — also
one accepted while that request was still being uploaded, also one in the middle of a `Write` —
performs no action at all from then on (its event list never grows), and no shape is valid for it
any more, so its rounds leave the listener (the action counts of the new shapes) untouched
(`roundStep_stale`). -/
theorem interleaved_accepted_applies_only_to_later_conns (pre post : List Step) (cfg : RawConfig) (l' : Listener)
    (h : configure (World.run {} pre).l cfg = .ok l') (i : Nat) (ic : IConn)
    (hi : (World.run {} pre).conns[i]? = some ic) :
    ∃ ic', (World.run ((World.run {} pre).step (.configure cfg)) post).conns[i]? = some ic' ∧
      ic'.events = ic.events ∧ ic'.c.established = ic.c.established ∧
      ∀ r, validShape (World.run ((World.run {} pre).step (.configure cfg)) post).l ic'.c r = none := by
  have hc1 : ClockOK (World.run {} pre) := run_clockOK pre {} clockOK_init
  have hc2 := (step_clockOK (World.run {} pre) (.configure cfg) hc1).1
  obtain ⟨hlm, hst⟩ := configure_ok_lastMod _ _ _ h
  have hold : OldAt ((World.run {} pre).step (.configure cfg)) i ic.c.established ic.events := by
    refine ⟨ic, by simpa [World.step] using hi, rfl, rfl, ?_⟩
    simp only [World.step, hst, hlm]
    exact Nat.le_of_lt (hc1.2 ic (List.mem_of_getElem? hi))
  obtain ⟨ic', h1, h2, h3, h4⟩ := run_oldAt post _ hc2 i _ _ hold
  exact ⟨ic', h1, h3, h2, validShape_old _ _ (by omega)⟩

/-- … and none of its responses is cut any more: whether it had been cut before the configuration was
accepted is all that matters.  Together with `interleaved_delivered_prefix`: every byte written to
a connection that is older than the active configuration reaches the client, unchanged. -/
theorem interleaved_old_conn_never_cut (pre post : List Step) (cfg : RawConfig) (l' : Listener)
    (h : configure (World.run {} pre).l cfg = .ok l') (i : Nat) (ic : IConn)
    (hi : (World.run {} pre).conns[i]? = some ic) :
    ∃ ic', (World.run ((World.run {} pre).step (.configure cfg)) post).conns[i]? = some ic' ∧
      ic'.dead = ic.dead := by
  have hs1 : WorldSafe (World.run {} pre) := run_worldSafe pre {} worldSafe_init
  have hs2 := step_worldSafe _ (.configure cfg) hs1
  obtain ⟨hlm, hst⟩ := configure_ok_lastMod _ _ _ h
  have hold : DeadAt ((World.run {} pre).step (.configure cfg)) i ic.c.established ic.dead := by
    refine ⟨ic, by simpa [World.step] using hi, rfl, rfl, ?_⟩
    simp only [World.step, hst, hlm]
    exact Nat.le_of_lt (hs1.2.1.2 ic (List.mem_of_getElem? hi))
  obtain ⟨ic', h1, _, h3, _⟩ := run_deadAt post _ hs2 i _ _ hold
  exact ⟨ic', h1, h3⟩

/-- **No interleaving makes the write loop panic.**  In every history — configurations swapped in
between two rounds of a `Write`, other connections consuming the counts of the shared actions,
patterns disappearing — no round ever takes a slice with a negative bound or indexes the action
list out of range (`actions[ind]` is only read after `CheckExistenceAndValidity`, and for a
connection the shapes are still valid for, the recorded index and offset still fit the list). -/
theorem interleaved_rounds_never_panic (steps : List Step) :
    ∀ ic ∈ (World.run {} steps).conns, ic.panicked = false := by
  intro ic hic
  exact ((run_worldSafe steps {} worldSafe_init).2.2 ic hic).1

/-- A round of a connection that is older than the current configuration performs no action and
does not touch the listener (in particular not the counts of the new shapes). -/
theorem old_conn_round_inert (cap : Nat) (l : Listener) (c : Conn) (pd : Pending)
    (h : c.established ≤ l.lastMod) :
    (roundStep cap l c pd).1 = l ∧ (roundStep cap l c pd).2.2.1.evs = pd.evs :=
  roundStep_stale cap l c pd (validShape_old l c h)

/-- **The rounds machine is `Conn.Write`.**  A `Write` of a shaped response as the sequential
theorems describe it (`shapedWrite`: `close_at_k`, `no_close_delivers_all`, …) and the same call
executed by the machine of the interleaved histories with nothing in between (`beginWrite`, then
`runRounds` against the listener) deliver the same bytes, perform the same actions, return the same
status and leave the same offset, pending action and shaping flag in the connection's context —
for every listener, connection, adversary and byte string. -/
theorem uninterrupted_rounds_are_shapedWrite (caps : Nat → Nat) (l : Listener) (c : Conn) (b : Bytes) (r : Nat)
    (hsh : c.ctx.shaping = true) (hreg : c.ctx.regex = some r) (acts : List Action)
    (hacts : acts = (match validShape l c r with | some sh => sh.actions | none => [])) :
    let w := shapedWrite (validShape l c r).isSome caps c.ctx acts b
    let m := runRounds caps (fuelFor (b.drop (headPart c.ctx b)) acts) l (beginWrite c b).1 (beginWrite c b).2
    m.2.2.1.delivered = w.delivered ∧ m.2.2.1.evs = w.evs ∧ m.2.2.2 = w.status ∧
    m.2.1.ctx.off = w.ctx.off ∧ m.2.1.ctx.next = w.ctx.next ∧ m.2.1.ctx.shaping = w.ctx.shaping := by
  have h := shapedWrite_eq_rounds_aux caps l c b r hsh hreg acts hacts
  simp only [shapedWrite_eq]
  exact h

/-- Why the time stamp must be taken when the map is swapped (fact `facts_serveHTTP_stamp_in_swap`):
a variant that stamps the configuration with the time the request was *received* makes a
connection accepted during the upload count as newer than the configuration — the new shape is
valid for it.  Concrete witness (`decide`): request received at tick 1, connection accepted at
tick 2, swap afterwards. -/
theorem stamp_at_request_start_counterexample :
    let received := ({} : Listener).clock
    let l1 : Listener := { ({} : Listener) with clock := received + 1 }   -- reading the time
    let c := (accept l1).2                                                  -- accepted during the upload
    let cfg : RawConfig := ⟨none, [some ⟨.valid 0, 0, [], [], [some ⟨3, -1⟩]⟩]⟩
    -- the code: stamped at the swap, the new shape is not valid for `c`
    (configure (accept l1).1 cfg).toOption.map (fun l2 => (validShape l2 c 0).isSome) = some false ∧
    -- the variant: stamped with the time of receipt, it is
    (configure (accept l1).1 cfg).toOption.map
      (fun l2 => (validShape { l2 with lastMod := received } c 0).isSome) = some true := by
  decide

/-! ### Non-vacuity: a concrete interleaved history (test, by `decide`) -/

/-- Head 2 bytes, halt at 3, close at 5; the connection was accepted under this configuration and
`Proxy.handle` has set its context (next action: index 0 at offset 3). -/
def exCfg1 : RawConfig := ⟨none, [some ⟨.valid 0, 0, [], [some ⟨3, 1, -1⟩], [some ⟨5, -1⟩]⟩]⟩
def exCfg2 : RawConfig := ⟨none, [some ⟨.valid 0, 0, [], [], [some ⟨4, -1⟩]⟩]⟩
def exWorld : World :=
  { l := (accept (configureSt {} exCfg1).1).1,
    conns := [{ c := { (accept (configureSt {} exCfg1).1).2 with
                        ctx := { shaping := true, regex := some 0, off := 0, headerLen := 2, next := some (0, 3) } } }] }
def exHistory (mid : List Step) : List Step :=
  [.begin 0 [1, 2, 10, 11, 12, 13, 14, 15, 16, 17], .round 0 1000] ++ mid ++
  [.round 0 1000, .round 0 1000, .round 0 1000]

/-- Nothing in between: the halt at 3, then the close at 5 cuts the response. -/
example : ((World.run exWorld (exHistory [])).conns.map fun ic => (ic.delivered, ic.events, ic.dead)) =
    [([1, 2, 10, 11, 12, 13, 14], [.sleep 1 3, .forceClose 5], true)] := by decide

/-- The configuration is replaced after the halt was performed and before the close offset is
reached (and a connection is accepted): the old connection is not cut, all 8 body bytes arrive, once. -/
example : ((World.run exWorld (exHistory [.configure exCfg2, .accept])).conns.map
      fun ic => (ic.delivered, ic.events, ic.dead)) =
    [([1, 2, 10, 11, 12, 13, 14, 15, 16, 17], [.sleep 1 3], false), ([], [], false)] := by decide

end Martian.Props.C18
