/-! STUB — property C10 is not built yet. -/
