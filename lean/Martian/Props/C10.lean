import Martian.Lemmas.H2Session
import Martian.Props.C10.Stages
import Martian.Props.C10.Locks
import Martian.Props.C10.Facts
import Martian.Props.C10.MidBlock
import Martian.Props.C10.Sequences
/-!
# C10 — an HTTP/2 relay session terminates and releases both connections whichever side ends

Theorems about the process/channel model `Martian.H2Session` (one `h2.Config.Proxy` call: two
readers, two writers, the `ReadFrame` goroutines, the watcher, channels `output`×2 (cap 15),
`readerDone`, `writerErr`, `frameReady`, `done`, mutexes `flowMu`×2 and `destMu`×2 with explicit owner).  All statements quantify over
every reachable state and every schedule (list of process labels); nothing is bounded.

Liveness is stated as: (1) a ranking function strictly decreases on every process step, so between
two environment events at most `mu s` process steps happen; (2) once a terminating event has
happened (`termed`, which is stable) and no connection write is stalled, a state in which no
process can move has `returned = true` — except for exactly one class of states, `f10cBlocked`
(finding F10c), which is reachable (`terminates_counterexample`) and excluded by the decidable
hypothesis `noPeer` in `terminates_partial`.
-/
namespace Martian.Props.C10
open Martian.H2Session

/-- Ranking function: every step of every process (reader, writer, ReadFrame goroutine, watcher,
    the `Proxy` goroutine itself) strictly decreases `mu`. -/
theorem ranking_decreases {s s' : Sys} {l : Label} (hp : l.isProc = true) (h : step s l = some s') :
    mu s' < mu s := step_decreases hp h

/-- Hence a schedule of process steps from `s` is never longer than `mu s`. -/
theorem bounded_process_steps {s s' : Sys} {ls : List Label} (hp : procOnly ls = true)
    (h : exec s ls = some s') : ls.length ≤ mu s := by
  have := exec_bounded hp h; omega

/-- "A terminating event has happened" is never undone, whatever happens next (any label). -/
theorem termed_is_stable {s s' : Sys} {l : Label} (ht : termed s = true) (h : step s l = some s') :
    termed s' = true := termed_stable ht h

/-- Deadlock characterisation: in a reachable state after a terminating event, with no write stalled,
    if no process can take a step then `Proxy` has returned — or the state is an F10c state. -/
theorem deadlock_only_f10c {s : Sys} (hr : Reach s) (ht : termed s = true) (hu : unstalled s = true)
    (hq : quiescent s = true) : s.returned = true ∨ f10cBlocked s = true :=
  progress_or_f10c (good_reach hr) ht hu hq

/-- The full statement (false of the faithful model, see `terminates_counterexample`): after a
    terminating event every maximal schedule ends with `Proxy` returned. -/
def Terminates : Prop :=
  ∀ s : Sys, Reach s → termed s = true → unstalled s = true →
    ∀ (ls : List Label) (s' : Sys), procOnly ls = true → exec s ls = some s' →
      quiescent s' = true → s'.returned = true

/-- Every schedule after a terminating event is bounded by the ranking function, and where it cannot
    be extended `Proxy` has returned or the session is wedged in an F10c state. -/
theorem terminates_or_f10c {s s' : Sys} {ls : List Label} (hr : Reach s) (ht : termed s = true)
    (hu : unstalled s = true) (hp : procOnly ls = true) (h : exec s ls = some s') :
    ls.length ≤ mu s ∧ (quiescent s' = true → s'.returned = true ∨ f10cBlocked s' = true) := by
  refine ⟨bounded_process_steps hp h, fun hq => ?_⟩
  have ⟨a, b, _⟩ := exec_keeps hp h ht
  exact deadlock_only_f10c (reach_exec hr h) a (by rw [b]; exact hu) hq

/-- PARTIAL (what is missing: sessions in which a WINDOW_UPDATE / SETTINGS makes a reader push the
    peer relay's queued frames, `noPeer = false`): if no reader is pushing or about to push into the
    other relay's output, every maximal schedule after a terminating event ends with `Proxy` returned. -/
theorem terminates_partial {s s' : Sys} {ls : List Label} (hr : Reach s) (ht : termed s = true)
    (hu : unstalled s = true) (hn : noPeer s = true) (hp : procOnly ls = true) (h : exec s ls = some s')
    (hq : quiescent s' = true) : s'.returned = true := by
  have ⟨_, _, c⟩ := exec_keeps hp h ht
  rcases (terminates_or_f10c hr ht hu hp h).2 hq with r | b
  · exact r
  · have := f10c_not_noPeer b; rw [c hn] at this; cases this

/-! ### F10c witness (replayed on the real code by the harness: corpus/C10/directed.ops `f10c-race`) -/

/-- The s2c reader has taken a WINDOW_UPDATE that releases 16 frames queued in the c2s relay and holds
    the c2s `flowMu`; the client's EOF is waiting in `frameReady` of the c2s reader. -/
def f10cStart : Sys := { c := { r := .selReady .eof, fmu := some .s2c }, s := { r := .pushing .c2s 16 false } }

def f10cPrefix : List Label :=
  [.deliver .s2c (.frame (.peer 16)), .rTake .s2c, .acquire .s2c, .deliver .c2s .eof]

/-- The c2s reader and writer leave; the s2c reader fills the c2s output (15) and blocks on the 16th. -/
def f10cSchedule : List Label :=
  [.rTake .c2s, .handshake .c2s] ++ List.replicate 15 (.push .s2c) ++ [.watchDone]

def f10cEnd : Sys :=
  { c := { r := .gone, out := 15, fmu := some .s2c }, s := { r := .pushing .c2s 1 false }, done := true, watcher := false }

theorem f10c_start_reachable : Reach f10cStart :=
  reach_exec (ls := f10cPrefix) Reach.init (by decide)

theorem f10c_run : exec f10cStart f10cSchedule = some f10cEnd := by decide

/-- The wedged state: a terminating event has happened, nothing is stalled, no process can move,
    `Proxy` has not returned and the upstream connection is still open. -/
theorem f10c_end_is_stuck :
    termed f10cEnd = true ∧ unstalled f10cEnd = true ∧ quiescent f10cEnd = true ∧
    f10cEnd.returned = false ∧ f10cEnd.scClosed = false ∧ f10cBlocked f10cEnd = true := by decide

theorem terminates_counterexample : ¬ Terminates := by
  intro h
  have := h f10cStart f10c_start_reachable (by decide) (by decide) f10cSchedule f10cEnd (by decide) f10c_run (by decide)
  exact absurd this (by decide)

/-! ### State at return -/

/-- Once `Proxy` has returned it stays returned. -/
theorem returned_is_stable {s s' : Sys} {l : Label} (hr : s.returned = true) (h : step s l = some s') :
    s'.returned = true := by
  obtain ⟨⟨cr, cw, cf, co, ce, cl, cs, cx, cm, cq⟩, ⟨sr, sw, sf, so, se, sl, ss, sx, sm, sq⟩, dn, clg, wt, rt, scc, ccc⟩ := s
  step_cases (simp_all)

/-- When `Proxy` has returned, the upstream connection it dialled is closed and both relays
    (reader and writer of each direction) are gone. -/
theorem upstream_closed_on_return {s : Sys} (hr : Reach s) (h : s.returned = true) :
    s.scClosed = true ∧ s.c.r = .gone ∧ s.s.r = .gone := by
  have g := good_reach hr
  have := g.2.2.2.1 h
  exact ⟨this.2.2, this.1, this.2.1⟩

/-- No goroutine of the session stays blocked after the return: once the remaining goroutines have
    run (`quiescent`), the only one that can still exist is the abandoned `ReadFrame` on the CLIENT
    connection, and it is gone as soon as the caller has closed that connection (as `Proxy.handleLoop`
    does right after `Proxy` returns). -/
theorem no_process_left_on_return {s : Sys} (hr : Reach s) (h : s.returned = true) (hq : quiescent s = true) :
    alive s = (if s.c.leak then [Proc.readframe] else []) ∧ (s.ccClosed = true → alive s = []) := by
  have g := good_reach hr
  obtain ⟨hcg, hsg, hscc⟩ := g.2.2.2.1 h
  have hw : s.watcher = false := by
    have := q_none hq (l := .watchDone) (by decide)
    have hd := g.1 hcg
    cases hwt : s.watcher
    · rfl
    · simp [step, hwt, hd] at this
  have hl : s.s.leak = false := by
    have := q_none hq (l := .rfClosed .s2c) (by decide)
    cases hlk : s.s.leak
    · rfl
    · simp [step, Sys.side, srcClosed, hlk, hscc] at this
  have hl2 : s.ccClosed = true → s.c.leak = false := by
    intro hcc
    have := q_none hq (l := .rfClosed .c2s) (by decide)
    cases hlk : s.c.leak
    · rfl
    · simp [step, Sys.side, srcClosed, hlk, hcc] at this
  constructor
  · simp [alive, Side.alive, h, hcg, hsg, hw, hl, Rd.isReading]
  · intro hcc
    simp [alive, Side.alive, h, hcg, hsg, hw, hl, hl2 hcc, Rd.isReading]

/-! ### Non-vacuity -/

/-- The hypotheses of `terminates_partial` are satisfiable, and a full run reaches the final state:
    client EOF at an idle session, all goroutines end, upstream closed. -/
example :
    let s0 : Sys := { c := { r := .selReady .eof } }
    let run : List Label := [.rTake .c2s, .handshake .c2s, .rDone .s2c, .handshake .s2c, .watchDone, .ret, .rfClosed .s2c]
    exec init [.deliver .c2s .eof] = some s0 ∧ termed s0 = true ∧ unstalled s0 = true ∧ noPeer s0 = true ∧
    procOnly run = true ∧
    (∃ s', exec s0 run = some s' ∧ quiescent s' = true ∧ s'.returned = true ∧ s'.scClosed = true ∧ alive s' = []) := by
  refine ⟨by decide, by decide, by decide, by decide, by decide, ?_⟩
  exact ⟨{ c := { r := .gone }, s := { r := .gone }, done := true, watcher := false, returned := true, scClosed := true },
    by decide, by decide, by decide, by decide, by decide⟩

/-- An idle session without a terminating event is quiescent and NOT returned: the theorems are not
    about a model that returns by itself. -/
example : quiescent init = true ∧ termed init = false ∧ init.returned = false := by decide

end Martian.Props.C10
