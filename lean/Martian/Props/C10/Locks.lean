import Martian.Lemmas.H2Session
/-!
# C10 — lock discipline of the relay (`destMu`, `flowMu`)

`destMu` of a relay guards writes to its destination connection and is taken by three goroutines:
the relay's writer (`f.send`), the relay's own reader (SETTINGS / SETTINGS ack / PING / GOAWAY
forwarded directly by `processFrame`) and the PEER relay's reader (`sendWindowUpdates` for a DATA
frame).  The model keeps an explicit owner (`Side.dmu`).  A `processFrame` that returned with the
mutex still locked (for instance on the error path of a failed direct write) would wedge the other
two for ever: `Proxy` would not return.  These theorems state that this cannot happen in the model;
`Generated/H2Session.lean` (lock-balance facts, `Props/C10/Facts.lean`) ties them to the source.
-/
namespace Martian.Props.C10
open Martian.H2Session

/-- The explicit owner of each `destMu` is exactly the list of goroutines whose control state is
    inside its critical section (writer in `f.send`, own reader / peer reader in a direct write). -/
theorem dest_owner_exact {s : Sys} (hr : Reach s) (t : Dir) : destUsers s t = (s.side t).dmu.toList :=
  good_destUsers (good_reach hr) t

/-- Mutual exclusion: at most one goroutine is inside the critical section of a `destMu`. -/
theorem dest_mutual_exclusion {s : Sys} (hr : Reach s) (t : Dir) : (destUsers s t).length ≤ 1 := by
  rw [dest_owner_exact hr t]; cases (s.side t).dmu <;> simp

/-- No lock is held at any return of `processFrame` (nor before it is called): a reader that is in
    its `select`, at the `readerDone` rendez-vous or gone owns no `destMu` (neither its own relay's nor
    the peer's) and no `flowMu`. -/
theorem no_lock_held_outside_processFrame {s : Sys} (hr : Reach s) (d : Dir)
    (h : (s.side d).r.inProcessFrame = false) (t : Dir) :
    (s.side t).dmu ≠ some (holderOf d t) ∧ (s.side t).fmu ≠ some d ∧ (s.side d).r.isPushing t = false := by
  have ⟨_, g2, g3⟩ := good_dmu (good_reach hr) t
  have hp : (s.side d).r.isPushing t = false := by
    cases hx : (s.side d).r <;> simp [hx, Rd.inProcessFrame] at h ⊢
  refine ⟨?_, ?_, hp⟩
  · intro hm
    have hh : (s.side d).r.holdsDest t = true := by
      cases d <;> cases t <;> simp [holderOf] at hm <;> first | exact g2.mpr hm | exact g3.mpr hm
    cases hx : (s.side d).r <;> simp [hx, Rd.inProcessFrame] at h hh
  · intro hf
    have := (good_fmu (good_reach hr) t d).mpr hf
    simp [hp] at this

/-- The writer goroutine owns its relay's `destMu` exactly while it is inside `f.send`; in particular
    not in its `select` and not after it has left. -/
theorem writer_owns_only_while_sending {s : Sys} (hr : Reach s) (d : Dir) :
    ((s.side d).dmu = some .writer ↔ (s.side d).w = .hold) ∧ ((s.side d).r = .gone → (s.side d).w = .idle) := by
  have g := good_reach hr
  have ⟨g1, _, _⟩ := good_dmu g d
  refine ⟨g1.symm, ?_⟩
  obtain ⟨_, _, _, _, _, _, _, _, _, _, _, a, b, _⟩ := g
  cases d
  · exact a
  · exact b

/-- The direct write of a reader releases the mutex on BOTH outcomes: whether the write completed or
    failed, after the step the `destMu` is free and the reader is outside the critical section. -/
theorem direct_write_unlocks_on_both_paths {s s' : Sys} {d t : Dir} {k : Option Nat}
    (hs : (s.side d).r = .mHold t k) (h : step s (.mDone d) = some s') :
    (s'.side t).dmu = none ∧ (s'.side d).r = afterWrite d k (s.side t).wfail ∧
    ((s.side t).wfail = true → (s'.side d).r = .exiting) := by
  obtain ⟨⟨cr, cw, cf, co, ce, cl, cs, cx, cm, cq⟩, ⟨sr, sw, sf, so, se, sl, ss, sx, sm, sq⟩, dn, clg, wt, rt, scc, ccc⟩ := s
  cases d <;> cases t <;> simp [Sys.side] at hs <;> subst hs <;>
    simp [step, Sys.side, Sys.setSide] at h <;> obtain ⟨_, rfl⟩ := h <;> simp [Sys.side] <;>
    intro hx <;> subst hx <;> cases k <;> rfl

/-- When `Proxy` has returned, all four mutexes of the session are free. -/
theorem all_locks_free_on_return {s : Sys} (hr : Reach s) (h : s.returned = true) :
    s.c.dmu = none ∧ s.s.dmu = none ∧ lockHeld s .c2s = false ∧ lockHeld s .s2c = false := by
  have g := good_reach hr
  have ⟨hc, hs, _⟩ := g.2.2.2.1 h
  have uc := good_destUsers g .c2s
  have us := good_destUsers g .s2c
  have wc := g.2.2.2.2.2.2.2.2.2.2.2.1 hc
  have ws := g.2.2.2.2.2.2.2.2.2.2.2.2.1 hs
  simp [destUsers, Sys.side, Dir.other, hc, hs, wc, ws] at uc us
  have free : ∀ t, lockHeld s t = false := by
    intro t
    cases hm : (s.side t).fmu with
    | none => simp [lockHeld, hm]
    | some o =>
      have := (good_fmu g t o).mpr hm
      cases o <;> simp [Sys.side, hc, hs] at this
  refine ⟨?_, ?_, free _, free _⟩
  · cases hm : s.c.dmu <;> simp [hm] at uc ⊢
  · cases hm : s.s.dmu <;> simp [hm] at us ⊢

/-! ### `flowMu` -/

/-- The explicit owner of each `flowMu` is exactly the reader whose control state is inside
    `emitEligibleFrames` for that relay (`pushing t _ _`): every `flowMu.Lock()` of the window paths
    (WINDOW_UPDATE, SETTINGS: `Work.peer`, `Work.settings`, also with nothing to release, `n = 0`) and
    of the enqueue paths (`Work.own`, `Work.data`) is matched by its `Unlock()`. -/
theorem flow_owner_exact {s : Sys} (hr : Reach s) (t o : Dir) :
    (s.side t).fmu = some o ↔ (s.side o).r.isPushing t = true :=
  (good_fmu (good_reach hr) t o).symm

/-- Mutual exclusion on `flowMu`: the two readers are never both inside the critical section of the
    same relay's `flowMu`. -/
theorem flow_mutual_exclusion {s : Sys} (hr : Reach s) (t : Dir) :
    ¬ (s.c.r.isPushing t = true ∧ s.s.r.isPushing t = true) := by
  intro ⟨a, b⟩
  have ha := (good_fmu (good_reach hr) t .c2s).mp a
  have hb := (good_fmu (good_reach hr) t .s2c).mp b
  simp [Sys.side] at ha hb
  rw [ha] at hb; cases hb

/-- A frame that takes a `flowMu` gives it back: when the reader has pushed what the frame released
    (nothing, for a WINDOW_UPDATE on a stream without queued frames) the `release` step is enabled and
    leaves that `flowMu` unowned, whichever relay's it is and whatever follows (back to the `select`,
    or on to `WriteSettings`). -/
theorem window_update_releases_flowMu {s : Sys} {d t : Dir} {wr : Bool} (hr : Reach s)
    (hs : (s.side d).r = .pushing t 0 wr) :
    ∃ s', step s (.release d) = some s' ∧ (s'.side t).fmu = none ∧ lockHeld s' t = false ∧
      (s'.side d).r = (if wr then .mWait d none else .selReading) := by
  have _ := hr
  obtain ⟨⟨cr, cw, cf, co, ce, cl, cs, cx, cm, cq⟩, ⟨sr, sw, sf, so, se, sl, ss, sx, sm, sq⟩, dn, clg, wt, rt, scc, ccc⟩ := s
  cases d <;> cases t <;> cases wr <;> simp [Sys.side] at hs <;> subst hs <;>
    simp [step, Sys.side, Sys.setSide, lockHeld]

/-- The shape of seeded defect C10-J: a reader has returned from `processFrame` (a WINDOW_UPDATE whose
    early return forgot the `Unlock`) leaving the s2c relay's `flowMu` owned by nobody's critical
    section; the s2c reader, with a frame to enqueue, waits for it; the session has been told to end
    and the c2s side has left. -/
def leakedFlowMu : Sys :=
  { c := { r := .gone }, s := { r := .lockWait .s2c 1 false, fmu := some .c2s },
    done := true, closing := true, watcher := false }

/-- Such a state is wedged for ever and is not an F10c state … -/
theorem leaked_flowMu_wedges :
    termed leakedFlowMu = true ∧ unstalled leakedFlowMu = true ∧ quiescent leakedFlowMu = true ∧
    leakedFlowMu.returned = false ∧ leakedFlowMu.scClosed = false ∧ f10cBlocked leakedFlowMu = false := by decide

/-- … hence not reachable: in the model no frame makes `processFrame` return with a `flowMu` held. -/
theorem leaked_flowMu_unreachable : ¬ Reach leakedFlowMu := by
  intro hr
  have w := leaked_flowMu_wedges
  rcases progress_or_f10c (good_reach hr) w.1 w.2.1 w.2.2.1 with a | b
  · simp [leakedFlowMu] at a
  · simp [w.2.2.2.2.2] at b

/-- What the invariant excludes (the shape of seeded defect C10-C): the s2c reader has returned from
    `processFrame` — and from `relayFrames` — leaving `destMu` of the s2c relay locked; the c2s reader,
    processing a DATA frame, waits for that mutex for its window acknowledgement. -/
def leakedDestMu : Sys :=
  { c := { r := .mWait .s2c (some 1) }, s := { r := .gone, dmu := some .own }, done := true, watcher := false }

/-- Such a state is wedged for ever (a terminating event has happened, nothing is stalled, no process
    can move, `Proxy` has not returned, the upstream connection is open) and it is not an F10c state … -/
theorem leaked_destMu_wedges :
    termed leakedDestMu = true ∧ unstalled leakedDestMu = true ∧ quiescent leakedDestMu = true ∧
    leakedDestMu.returned = false ∧ leakedDestMu.scClosed = false ∧ f10cBlocked leakedDestMu = false := by decide

/-- … hence not reachable: no schedule and no sequence of faults makes the model's `processFrame`
    return with a `destMu` held. -/
theorem leaked_destMu_unreachable : ¬ Reach leakedDestMu := by
  intro hr
  have w := leaked_destMu_wedges
  rcases progress_or_f10c (good_reach hr) w.1 w.2.1 w.2.2.1 with a | b
  · simp [leakedDestMu] at a
  · simp [w.2.2.2.2.2] at b

/-! ### Non-vacuity: the schedule that needs the error path to unlock -/

/-- The client stops reading; a PING from the server is forwarded directly: the s2c reader holds the
    s2c `destMu` inside the blocked `WritePing`.  The client uploads a DATA frame: the c2s reader
    waits for the same mutex (`mAcquire .c2s` is disabled).  Then writes toward the client fail: the
    s2c reader unlocks and leaves, the c2s reader gets the mutex, its acknowledgement fails too, it
    unlocks and leaves; `Proxy` returns with the upstream connection closed and every mutex free. -/
example :
    let pre : List Label := [.stall .s2c, .deliver .s2c (.frame .direct), .rTake .s2c, .mAcquire .s2c,
      .deliver .c2s (.frame (.data 1)), .rTake .c2s]
    let post : List Label := [.failWrites .s2c, .mDone .s2c, .mAcquire .c2s, .mDone .c2s,
      .handshake .s2c, .handshake .c2s, .watchDone, .ret, .callerClose]
    (∃ s1, exec init pre = some s1 ∧ s1.s.dmu = some .own ∧ step s1 (.mAcquire .c2s) = none ∧
      step s1 (.mDone .s2c) = none ∧
      (∃ s2, exec s1 post = some s2 ∧ s2.returned = true ∧ s2.scClosed = true ∧ s2.s.dmu = none ∧
        quiescent s2 = true ∧ alive s2 = [])) := by
  refine ⟨_, rfl, by decide, by decide, by decide, _, rfl, ?_⟩
  decide

end Martian.Props.C10
