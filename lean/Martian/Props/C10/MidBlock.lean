import Martian.Lemmas.H2Session
/-!
# C10 — a reader between the frames of one split header block is in its `select`

A HEADERS / PUSH_PROMISE frame without END_HEADERS (and every CONTINUATION that does not complete
the block) is only buffered by `processFrame` (`Work.frag`): no lock, no emission.  In the code —
and in the model — the next `ReadFrame` is again issued by a goroutine of its own and the reader
waits for it in the `select` against `writerErr` and `done`: "mid header block" is the ordinary
state `selReading`, not a state in which the reader reads synchronously.  Hence the ranking
function (`ranking_decreases`) and the deadlock characterisation (`deadlock_only_f10c`) cover it
with no further case; the theorems below say so explicitly, and `facts_readframe_only_in_goroutine`
(`Props/C10/Facts.lean`) pins the shape of the loop in the source.
-/
namespace Martian.Props.C10
open Martian.H2Session

/-- Taking a non-final fragment of a header block puts the reader straight back into the `select`
    with a `ReadFrame` goroutine: it holds no lock, has emitted nothing, and `mu` has decreased. -/
theorem mid_block_reader_is_in_select {s s' : Sys} {d : Dir}
    (hs : (s.side d).r = .selReady (.frame .frag)) (h : step s (.rTake d) = some s') :
    (s'.side d).r = .selReading ∧ (s'.side d).out = (s.side d).out ∧ (s'.side d).dmu = (s.side d).dmu ∧
    lockHeld s' = lockHeld s ∧ mu s' < mu s := by
  refine ⟨?_, ?_, ?_, ?_, step_decreases rfl h⟩ <;>
  · obtain ⟨⟨cr, cw, cf, co, ce, cl, cs, cx, cm, cq⟩, ⟨sr, sw, sf, so, se, sl, ss, sx, sm, sq⟩, dn, clg, wt, rt, scc, ccc⟩ := s
    cases d <;> simp [Sys.side] at hs <;> subst hs <;> simp [step, Sys.side, Sys.setSide, afterTake] at h <;>
      subst h <;> (try rfl) <;> (funext t; cases t <;> simp [lockHeld, Sys.side])

/-- Whatever ends the session while a direction sits in the middle of a header block with its
    endpoint silent — `done` closed by the other direction or by the watcher, a failed write of its
    own writer — that reader can take the corresponding `select` arm at once. -/
theorem mid_block_reader_can_leave {s : Sys} {d : Dir} (hs : (s.side d).r = .selReading) :
    (s.done = true → (step s (.rDone d)).isSome = true) ∧
    ((s.side d).werr = true → (step s (.rWerr d)).isSome = true) := by
  constructor <;> intro h <;> simp [step, hs, h, Rd.inSelect]

/-- Hence a state in which a reader is between the frames of a block is never a deadlock of its own:
    the general characterisation applies verbatim (reachable, terminating event seen, nothing stalled,
    nothing enabled ⇒ returned, or F10c — which needs a reader in `pushing`, not in `selReading`). -/
theorem mid_block_no_new_deadlock {s : Sys} {d : Dir} (hr : Reach s) (_hs : (s.side d).r = .selReading)
    (ht : termed s = true) (hu : unstalled s = true) (hq : quiescent s = true) :
    s.returned = true ∨ f10cBlocked s = true :=
  progress_or_f10c (good_reach hr) ht hu hq

/-! ### Non-vacuity: each side mid-block and silent, the session ended from the other side -/

example :
    -- client mid-block (HEADERS without END_HEADERS taken), then the server closes
    (∃ s', exec init [.deliver .c2s (.frame .frag), .rTake .c2s, .deliver .s2c .eof, .rTake .s2c, .handshake .s2c,
        .rDone .c2s, .handshake .c2s, .watchDone, .ret, .callerClose, .rfClosed .c2s] = some s' ∧
      s'.returned = true ∧ s'.scClosed = true ∧ alive s' = [] ∧ quiescent s' = true) ∧
    -- server mid-block (PUSH_PROMISE without END_HEADERS + one more fragment), then proxy shutdown
    (∃ s', exec init [.deliver .s2c (.frame .frag), .rTake .s2c, .deliver .s2c (.frame .frag), .rTake .s2c, .closing,
        .watchClosing, .rDone .c2s, .rDone .s2c, .handshake .c2s, .handshake .s2c, .ret, .callerClose,
        .rfClosed .c2s, .rfClosed .s2c] = some s' ∧
      s'.returned = true ∧ s'.scClosed = true ∧ alive s' = [] ∧ quiescent s' = true) := by
  refine ⟨⟨_, rfl, ?_⟩, ⟨_, rfl, ?_⟩⟩ <;> decide

end Martian.Props.C10
