import Martian.Lemmas.H2Proxy
/-!
# C10 — every stage of `Config.Proxy`: dial, preface read, preface write, relays

The relay machine of `Props/C10.lean` is the `running` stage of `Martian.H2Session.Proxy`
(`Model/H2Proxy.lean`).  These theorems extend "when it returns the upstream connection it opened
has been closed" and the termination argument to sessions that end BEFORE the relays exist: the
dial fails, the client closes / sends a short or wrong preface, the preface cannot be written.
-/
namespace Martian.Props.C10
open Martian.H2Session

/-- In the `running` stage the embedded relay machine is in a state reachable from its `init`, so
    every theorem of `Props/C10.lean` applies to it. -/
theorem running_stage_is_relay_machine {p : Proxy} (hr : PReach p) (h : p.stage = .running) :
    Reach p.sys ∧ p.sys.closing = p.closing := pgood_reach hr h

/-- At EVERY return of `Proxy`, whatever the stage it returns from: if `tls.Dial` had returned a
    connection, that connection has been closed; no goroutine of the caller is left inside `Proxy`;
    and from the relay stage both relays (reader and writer of each direction) are gone. -/
theorem upstream_closed_on_return_all_stages {p : Proxy} (hr : PReach p) (h : p.returned = true) :
    (p.dialed = true → p.scClosed = true) ∧ Proc.main ∉ palive p ∧
    (p.stage = .running → p.sys.c.r = .gone ∧ p.sys.s.r = .gone) := by
  have g := pgood_reach hr
  obtain ⟨st, clg, ccc, sys⟩ := p
  cases st <;> simp [Proxy.returned] at h
  · simp [Proxy.dialed, Proxy.scClosed, palive]
  · have ⟨hs, _⟩ := g rfl
    have gg := (good_reach hs).2.2.2.1 h
    simp at gg
    simp [Proxy.dialed, Proxy.scClosed, palive, alive, h, gg, Side.alive, Rd.isReading]

/-- The upstream connection is never closed by `Proxy` before it returns, and never without having
    been dialled. -/
theorem upstream_open_until_return {p : Proxy} (hr : PReach p) (h : p.scClosed = true) :
    p.returned = true ∧ p.dialed = true := by
  have g := pgood_reach hr
  obtain ⟨st, clg, ccc, sys⟩ := p
  cases st <;> simp [Proxy.scClosed] at h
  · subst h; simp [Proxy.returned, Proxy.dialed]
  · have ⟨hs, _⟩ := g rfl
    have gg := (good_reach hs).2.2.2.2.1
    cases hrt : sys.returned
    · have := (gg hrt).1; simp [h] at this
    · simp [Proxy.returned, Proxy.dialed, hrt]

/-- Ranking function over all stages: every process step (the error return of the early stages, every
    step of the relay machine) strictly decreases `pmu`. -/
theorem ranking_decreases_all_stages {p p' : Proxy} {l : PLabel} (hp : l.isProc = true)
    (h : pstep p l = some p') : pmu p' < pmu p := pstep_decreases hp h

/-- Deadlock characterisation over all stages: after a terminating event (a failed dial, a failed
    preface step, or a terminating event of the relay stage), with no write stalled, if no process can
    move then `Proxy` has returned — or the relay machine is in an F10c state. -/
theorem deadlock_only_f10c_all_stages {p : Proxy} (hr : PReach p) (ht : ptermed p = true)
    (hu : p.stage = .running → unstalled p.sys = true) (hq : pquiescent p = true) :
    p.returned = true ∨ (p.stage = .running ∧ f10cBlocked p.sys = true) := by
  have g := pgood_reach hr
  obtain ⟨st, clg, ccc, sys⟩ := p
  cases st <;> simp [ptermed] at ht <;> simp [pquiescent] at hq
  · simp [Proxy.returned]
  · have ⟨hs, _⟩ := g rfl
    rcases progress_or_f10c (good_reach hs) ht (hu rfl) hq with a | b
    · exact Or.inl (by simpa [Proxy.returned] using a)
    · exact Or.inr ⟨rfl, b⟩

/-- Each way the session can end before the relays exist leads to the return in ONE process step,
    with the upstream connection closed exactly when it had been opened:
    the dial fails (nothing to close); the preface read ends in EOF / an error / other bytes; the
    preface cannot be written to the server. -/
theorem early_failure_returns :
    (∀ p p1, p.stage = .dialing → pstep p (.dial false) = some p1 →
      ∃ p2, pstep p1 .retErr = some p2 ∧ p2.returned = true ∧ p2.dialed = false ∧ p2.scClosed = false ∧ palive p2 = []) ∧
    (∀ p p1, p.stage = .prefaceRead → pstep p (.prefaceIn false) = some p1 →
      ∃ p2, pstep p1 .retErr = some p2 ∧ p2.returned = true ∧ p2.dialed = true ∧ p2.scClosed = true ∧ palive p2 = []) ∧
    (∀ p p1, p.stage = .prefaceWrite → pstep p (.prefaceOut false) = some p1 →
      ∃ p2, pstep p1 .retErr = some p2 ∧ p2.returned = true ∧ p2.dialed = true ∧ p2.scClosed = true ∧ palive p2 = []) := by
  refine ⟨?_, ?_, ?_⟩ <;> intro p p1 hs h <;> obtain ⟨st, clg, ccc, sys⟩ := p <;> simp at hs <;> subst hs <;>
    simp [pstep] at h <;> subst h <;> simp [pstep, Proxy.returned, Proxy.dialed, Proxy.scClosed, palive]

/-- The full statement for proxy shutdown (false of the code, see `closing_unobserved_in_preface`):
    once `closing` is closed, a state in which no process can move (and no write is stalled) is a
    returned one or an F10c one. -/
def ClosingTerminatesAtEveryStage : Prop :=
  ∀ p : Proxy, PReach p → p.closing = true → (p.stage = .running → unstalled p.sys = true) →
    pquiescent p = true → p.returned = true ∨ (p.stage = .running ∧ f10cBlocked p.sys = true)

/-- Finding F10d: `Proxy` does not look at `closing` while it dials and while it reads the client's
    preface.  The state "upstream dialled, waiting for the preface, proxy closing" is reachable, no
    process can move in it, and `Proxy` has not returned (it returns only when the client sends its
    preface, closes, or the read deadline set by the caller expires). -/
theorem closing_unobserved_in_preface :
    let p : Proxy := { stage := .prefaceRead, closing := true }
    PReach p ∧ pquiescent p = true ∧ p.returned = false ∧ p.scClosed = false ∧ palive p = [Proc.main] := by
  refine ⟨?_, by decide, by decide, by decide, by decide⟩
  exact PReach.step .closing (PReach.step (.dial true) PReach.init rfl) rfl

theorem closing_terminates_counterexample : ¬ ClosingTerminatesAtEveryStage := by
  intro h
  have w := closing_unobserved_in_preface
  have := h _ w.1 rfl (by intro h'; simp at h') w.2.1
  simp [Proxy.returned] at this

/-- PARTIAL (what is missing: the stages before the relays, F10d): once the relays run, a proxy
    shutdown is a terminating event of the relay machine whenever it happened — also when `closing`
    had been closed before or during the preface. -/
theorem closing_terminates_partial {p : Proxy} (hr : PReach p) (hc : p.closing = true)
    (hs : p.stage = .running) (hu : unstalled p.sys = true) (hq : pquiescent p = true) :
    p.returned = true ∨ f10cBlocked p.sys = true := by
  have ⟨_, hcl⟩ := pgood_reach hr hs
  have ht : ptermed p = true := by
    obtain ⟨st, clg, ccc, sys⟩ := p
    simp at hs; subst hs
    simp at hcl hc
    simp [ptermed, termed, hcl, hc]
  rcases deadlock_only_f10c_all_stages hr ht (fun _ => hu) hq with a | ⟨_, b⟩
  · exact Or.inl a
  · exact Or.inr b

/-! ### Non-vacuity -/

/-- A full run through all stages: dial, preface, relays, client EOF, return with the upstream closed;
    and the early ends. -/
example :
    (∃ p, pexec pinit [.dial true, .prefaceIn true, .prefaceOut true, .relay (.deliver .c2s .eof),
        .relay (.rTake .c2s), .relay (.handshake .c2s), .relay (.rDone .s2c), .relay (.handshake .s2c),
        .relay .watchDone, .relay .ret, .callerClose, .relay (.rfClosed .s2c)] = some p ∧
      p.returned = true ∧ p.dialed = true ∧ p.scClosed = true ∧ palive p = [] ∧ pquiescent p = true) ∧
    (∃ p, pexec pinit [.dial false, .retErr] = some p ∧ p.returned = true ∧ p.dialed = false ∧ p.scClosed = false) ∧
    (∃ p, pexec pinit [.dial true, .prefaceIn false, .retErr] = some p ∧ p.returned = true ∧ p.scClosed = true) ∧
    (∃ p, pexec pinit [.dial true, .closing, .prefaceIn true, .prefaceOut true, .relay .watchClosing] = some p ∧
      p.sys.done = true) := by
  refine ⟨⟨_, rfl, ?_⟩, ⟨_, rfl, ?_⟩, ⟨_, rfl, ?_⟩, ⟨_, rfl, ?_⟩⟩ <;> decide

end Martian.Props.C10
