import Martian.Skel
import Martian.Generated.H2Session
import Martian.Model.H2Proxy
/-!
# C10 — structural facts of `h2/h2.go` and `h2/relay.go` (regenerated from the source on every check)

What the session model transcribes and the differential run sees only end to end:
the place of `defer sc.Close()` in `Config.Proxy` (every return after a successful dial closes the
upstream connection — stages `prefaceRead`, `prefaceWrite`, `running` of `Model/H2Proxy.lean`), the
shape of `forwardPreface`, how the relay goroutines and the watcher are wired to `done`/`closing`,
the capacity of the channels of `relayFrames`, and the lock balance of every function of relay.go
that takes a mutex (`Props/C10/Locks.lean`: no `destMu`/`flowMu` is held at any return).
-/
namespace Martian.Props.C10
open Martian Skel
open Martian.Generated.H2Session

/-- The model's `cap` is the source's `outputChannelSize`. -/
theorem facts_output_capacity : outputChannelSize = H2Session.cap := by decide

/-- `Config.Proxy`: one dial; `sc.Close` is deferred exactly once, as a statement of the function
    body itself (not inside a branch), and never called directly; the ONLY return before it is the
    dial-error return (there is no connection to close then: `Stage.failing false`); the preface
    step, its error return, `wg.Wait()` and the final return all come after it (`failing true`,
    `running`). -/
theorem facts_proxy_close_deferred_right_after_dial :
    count "call tls.Dial" proxySkel = 1 ∧ count "defer sc.Close" proxySkel = 1 ∧
    count "call sc.Close" proxySkel = 0 ∧ closeDeferredAtTopLevel = true ∧
    (before "defer sc.Close" proxySkel).filter (fun t => t == "return err" || t == "return nil") = ["return err"] ∧
    hasSeq ["call tls.Dial", "return err", "defer sc.Close", "call forwardPreface", "return err",
            "call wg.Wait", "return nil"] proxySkel = true ∧
    count "call forwardPreface" proxySkel = 1 ∧ count "call wg.Wait" proxySkel = 1 := by
  decide

/-- `forwardPreface`: one `io.ReadFull` (the whole preface or an error), an error return for the
    read, one for the comparison, one for the write; success only after the write loop. -/
theorem facts_preface_steps :
    count "call io.ReadFull" prefaceSkel = 1 ∧ count "call server.Write" prefaceSkel = 1 ∧
    hasSeq ["call io.ReadFull", "return err", "return err", "call server.Write", "return err", "return nil"] prefaceSkel = true ∧
    count "return nil" prefaceSkel = 1 ∧ count "return err" prefaceSkel = 3 := by
  decide

/-- Both relay goroutines run `relayFrames` on the channel that `stop()` closes (not on the proxy's
    `closing`), and call `stop()` and `wg.Done()` on their way out; the watcher turns `closing` into
    `stop()` and ends with `done` (labels `watchClosing`, `watchDone`). -/
theorem facts_relays_joined_and_stopped :
    relayGoroutines = ["relayFrames(DONE) stop=true wg.Done=true", "relayFrames(DONE) stop=true wg.Done=true"] ∧
    watcherArms = ["<-CLOSING -> stop", "<-DONE"] := by
  decide

/-- `relayFrames`: `readerDone` is a rendez-vous (label `handshake`) sent from a deferred closure;
    `writerErr` and `frameReady` have one slot (the writer's single error report and the abandoned
    `ReadFrame` goroutine never block). -/
theorem facts_relay_channels :
    relayChannels = ["readerDone=0", "writerErr=1", "frameReady=1"] ∧ deferredSend = "readerDone" := by
  decide

/-- Every `ReadFrame` of `relayFrames` is issued by a goroutine of its own (one call site, inside a
    `go func`), never inline in the reader's loop, and the reader waits for it in a `select` whose other
    arms are `writerErr` and the channel it was given (`done`) — without a `default`: a reader is in
    `selReading` between ANY two frames, also between the frames of one split header block
    (`Props/C10/MidBlock.lean`). -/
theorem facts_readframe_only_in_goroutine :
    readFrameSites = ["go"] ∧ readerSelectArms = ["<-frameReady", "<-writerErr", "<-PARAM"] := by
  decide

/-- Lock balance of relay.go: in every function (and function literal) that takes a mutex, every
    path from a `Lock` reaches an `Unlock` (or a deferred one) before any `return` and before the end
    of the function, branches agree and loop bodies are balanced. -/
theorem facts_locks_balanced : lockFuncs.all (fun f => f.2.2.isEmpty) = true := by
  decide

/-- Who takes which mutex: `destMu` — the writer goroutine of `relayFrames`, `processFrame` (own
    reader: `Holder.own`) and `sendWindowUpdates` (called on the peer: `Holder.peer`); `flowMu` — the
    enqueue paths (`Work.own`, `Work.data`) and the window paths (`Work.peer`, `Work.settings`). -/
theorem facts_lock_users :
    (lockFuncs.filter (fun f => f.2.1.contains "r.destMu")).map (·.1) =
      ["relayFrames.go1", "processFrame", "sendWindowUpdates"] ∧
    (lockFuncs.filter (fun f => f.2.1.contains "r.flowMu")).map (·.1) =
      ["updateInitialWindowSize", "updateWindow", "data", "enqueueFrame", "sendQueuedFramesUnderWindowSize"] := by
  decide

end Martian.Props.C10
