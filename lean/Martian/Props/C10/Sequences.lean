import Martian.Lemmas.H2Session
/-!
# C10 — sequences of terminating events

The statement quantifies over fault SEQUENCES: a second (third, …) terminating event may arrive
while the session is still winding down from the first — the source of a direction ends with a
clean EOF while frames it sent are still undelivered behind a stalled write, and then that write
fails; a write fails and then the source ends; shutdown, then an EOF; with the stall ending and
starting again in between.  In the model every environment label is enabled in every state
(`deliver` whenever a `ReadFrame` is pending, `failWrites`, `stall`, `unstall`, `closing` always), so
`Reach` already contains all such sequences and `ranking_decreases` / `deadlock_only_f10c` (which
assume only `Reach`, `termed`, `unstalled`) hold after every one of them.  The theorems below state
this explicitly.
-/
namespace Martian.Props.C10
open Martian.H2Session

/-- Whatever environment event follows a terminating event (another EOF, a read error, writes
    starting to fail, shutdown, a stall beginning or ending): the state is again reachable, a
    terminating event is still recorded, and the deadlock characterisation applies to it unchanged. -/
theorem further_events_covered {s s' : Sys} {l : Label} (hr : Reach s) (ht : termed s = true)
    (h : step s l = some s') :
    Reach s' ∧ termed s' = true ∧
    (unstalled s' = true → quiescent s' = true → s'.returned = true ∨ f10cBlocked s' = true) := by
  have hr' := Reach.step l hr h
  have ht' := termed_stable ht h
  exact ⟨hr', ht', fun hu hq => progress_or_f10c (good_reach hr') ht' hu hq⟩

/-- The same for a whole sequence of further events interleaved with process steps in any order. -/
theorem event_sequences_covered {s s' : Sys} {ls : List Label} (hr : Reach s) (ht : termed s = true)
    (h : exec s ls = some s') :
    Reach s' ∧ termed s' = true ∧
    (unstalled s' = true → quiescent s' = true → s'.returned = true ∨ f10cBlocked s' = true) := by
  have hr' := reach_exec hr h
  have ht' : termed s' = true := by
    clear hr hr'
    induction ls generalizing s with
    | nil => simp [exec] at h; subst h; exact ht
    | cons l ls ih =>
      simp only [exec] at h
      split at h
      · rename_i s1 h1; exact ih (termed_stable ht h1) h
      · simp at h
  exact ⟨hr', ht', fun hu hq => progress_or_f10c (good_reach hr') ht' hu hq⟩

/-- `failWrites` is enabled in every state, in particular after the source of that direction has ended
    with frames still pending in `output` and the writer inside a stalled write; and it is exactly what
    lets that writer go on (`wDone` is enabled once the write fails although the stall persists). -/
theorem write_failure_after_eof_unblocks_writer {s : Sys} {d : Dir} (hw : (s.side d).w = .hold) :
    ∃ s', step s (.failWrites d) = some s' ∧ (step s' (.wDone d)).isSome = true := by
  refine ⟨_, rfl, ?_⟩
  cases d <;> simp [Sys.side] at hw <;> simp [step, Sys.side, Sys.setSide, hw]

/-! ### Non-vacuity: EOF with undelivered frames behind a stalled write, then the write fails -/

/-- The client stops reading; the server sends three frames (the writer sits in the blocked write of
    the first, two wait in `output`) and closes cleanly: the s2c reader is at the rendez-vous but the
    writer cannot receive it (`handshake` disabled).  Then writes toward the client fail: the writer
    reports the error, drains the rest WITHOUT writing, meets the reader; everything ends, upstream
    closed.  (A reader that first waited for the writer to "deliver" the pending frames would wait for
    ever here.) -/
example :
    let pre : List Label := [.stall .s2c,
      .deliver .s2c (.frame (.own 1)), .rTake .s2c, .acquire .s2c, .push .s2c, .release .s2c, .wTake .s2c, .wLock .s2c,
      .deliver .s2c (.frame (.own 1)), .rTake .s2c, .acquire .s2c, .push .s2c, .release .s2c,
      .deliver .s2c (.frame (.own 1)), .rTake .s2c, .acquire .s2c, .push .s2c, .release .s2c,
      .deliver .s2c .eof, .rTake .s2c]
    let post : List Label := [.failWrites .s2c, .wDone .s2c, .wTake .s2c, .wTake .s2c, .handshake .s2c,
      .rDone .c2s, .handshake .c2s, .watchDone, .ret, .callerClose, .rfClosed .c2s]
    (∃ s1, exec init pre = some s1 ∧ s1.s.out = 2 ∧ s1.s.w = .hold ∧ s1.s.r = .exiting ∧
      step s1 (.handshake .s2c) = none ∧ step s1 (.wDone .s2c) = none ∧ termed s1 = true ∧
      (∃ s2, exec s1 post = some s2 ∧ s2.returned = true ∧ s2.scClosed = true ∧ s2.s.failed = true ∧
        quiescent s2 = true ∧ alive s2 = [])) := by
  refine ⟨_, rfl, by decide, by decide, by decide, by decide, by decide, by decide, _, rfl, ?_⟩
  decide

end Martian.Props.C10
