import Martian.Lemmas.Mitm
import Martian.Generated.Mitm
import Martian.Props.C06.Hostname
import Martian.Props.C06.Normalise
import Martian.Props.C06.Sched
import Martian.Props.C06.Facts
import Martian.Props.C06.Fault
import Martian.Props.C06.Chain
import Martian.Props.C06.Usable
/-!
C06 — Forged certificates verify for the requested host under the configured CA.
Only property theorems and non-vacuity examples live here.

Quantifiers: every host byte string (`hostname`, as the SNI or the CONNECT authority gives it),
every time `now` (an `Int`, ms; times in a history need not be monotone), every cache state reachable
by any history of requests (`run`), every schedule of the two atomic steps of N concurrent requesters
(`runSched`; `runF` in Props/C06/Sched.lean is the finer cut with a clock that moves between steps).
"Verifies" is `verifiesFor`: the NAME part is the transcription of Go's `VerifyHostname`
(`verifyHostname`; what it accepts on issued certificates is characterised in Props/C06/Hostname.lean),
the WINDOW part is `NotBefore ≤ now ≤ NotAfter` on whole-second bounds, the CA signature and the key
are two trusted bits (RSA, x509 chain building, ASN.1 are exercised by the harness with Go's real
verifier and real handshakes).

The model follows the **repaired** code (repo-patches/C06-fix-refuse-empty-host.patch);
`empty_host_served_before_fix` is the defect on the code before the repair.

`Servable hostname` (decidable): after port stripping the host is non-empty, not ".", and does not
begin with `[`. Every spelling the property lists satisfies it (`normalise_portForm` for the spellings
with a port; the examples at the end); `[v6]` without a port does not (`bracketed_v6_without_port`).
-/
namespace Martian.Props.C06
open Martian Martian.Go Martian.Mitm

/-! ### one call of `Config.cert` -/

/-- The certificate returned for a servable host verifies for the port-stripped host at the time of
the call, whatever the cache holds (fresh or reused), provided the configured validity is at least
one second (ASN.1 times are whole seconds, see `subsecond_validity_born_expired`). -/
theorem returned_cert_verifies (cfg : Config) (hostname : Bytes) (now : Int) (s : State) {c : Cert} {f : Bool}
    (hv : 1000 ≤ cfg.validity) (hs : Servable hostname)
    (h : (cert cfg hostname now s).2 = .served c f) :
    verifiesFor c (normalise hostname) now = true := by
  unfold cert at h
  simp only at h
  split at h
  · cases h
  · unfold certFor at h
    split at h
    · split at h
      · rename_i hg
        cases h
        exact verifiesFor_of_goVerify hs.1 hg
      · simp only [issueAndStore, Outcome.served.injEq] at h
        rw [← h.1]
        exact verifiesFor_issue cfg now _ hv hs.1 hs.2.1 hs.2.2
    · simp only [issueAndStore, Outcome.served.injEq] at h
      rw [← h.1]
      exact verifiesFor_issue cfg now _ hv hs.1 hs.2.1 hs.2.2

/-- A host that names something is never refused. -/
theorem named_host_served (cfg : Config) (hostname : Bytes) (now : Int) (s : State)
    (hne : normalise hostname ≠ []) : (cert cfg hostname now s).2 ≠ .refused := by
  unfold cert
  simp only
  split
  · rename_i he
    exact absurd (by simpa using he) hne
  · exact certFor_never_refuses _ _ _ _

/-- A cached entry that no longer verifies (window passed, or any other reason) is not handed out:
a fresh certificate (new serial) is issued, stored under the same key, and it verifies. -/
theorem stale_entry_replaced (cfg : Config) (hostname : Bytes) (now : Int) (s : State) (old : Cert)
    (hne : normalise hostname ≠ [])
    (hold : s.cache.lookup (normalise hostname) = some old)
    (hstale : goVerify old (normalise hostname) now = false) :
    let fresh := issue cfg (normalise hostname) now s.next
    cert cfg hostname now s = (store s (normalise hostname) fresh, .served fresh true) ∧
      (cert cfg hostname now s).1.cache.lookup (normalise hostname) = some fresh ∧
      fresh.serial = s.next ∧
      (1000 ≤ cfg.validity → Servable hostname → verifiesFor fresh (normalise hostname) now = true) := by
  have he : (normalise hostname).isEmpty = false := by
    cases hn : normalise hostname with
    | nil => exact absurd hn hne
    | cons _ _ => rfl
  have hc : cert cfg hostname now s =
      (store s (normalise hostname) (issue cfg (normalise hostname) now s.next),
        .served (issue cfg (normalise hostname) now s.next) true) := by
    simp [cert, he, certFor, hold, hstale, issueAndStore]
  refine ⟨hc, ?_, rfl, fun hv hs => verifiesFor_issue cfg now _ hv hs.1 hs.2.1 hs.2.2⟩
  rw [hc]
  simp [store]

/-- In particular an entry whose validity window has passed is stale. -/
theorem expired_is_stale (c : Cert) (host : Bytes) (now : Int) (h : c.notAfter < now) :
    goVerify c host now = false := by
  have : ¬ now ≤ c.notAfter := by omega
  simp [goVerify, inWindow, this]

/-- A cached certificate is reused only while it still verifies for that host … -/
theorem reuse_only_while_valid (cfg : Config) (hostname : Bytes) (now : Int) (s : State) {c : Cert}
    (h : (cert cfg hostname now s).2 = .served c false) :
    s.cache.lookup (normalise hostname) = some c ∧ goVerify c (normalise hostname) now = true ∧
      (cert cfg hostname now s).1 = s := by
  unfold cert at h ⊢
  simp only at h ⊢
  split at h
  · cases h
  · rename_i he
    simp only [he]
    unfold certFor at h ⊢
    split at h
    · rename_i c0 hl
      split at h
      · rename_i hg
        cases h
        simp [hl, hg]
      · simp [issueAndStore] at h
    · simp [issueAndStore] at h

/-- … and while it does, it is the one served (no needless re-issue), the state is unchanged. -/
theorem valid_entry_reused (cfg : Config) (hostname : Bytes) (now : Int) (s : State) (c : Cert)
    (hne : normalise hostname ≠ [])
    (hl : s.cache.lookup (normalise hostname) = some c) (hg : goVerify c (normalise hostname) now = true) :
    cert cfg hostname now s = (s, .served c false) := by
  have he : (normalise hostname).isEmpty = false := by
    cases hn : normalise hostname with
    | nil => exact absurd hn hne
    | cons _ _ => rfl
  simp [cert, he, certFor, hl, hg]

/-- No cross-host reuse: under the cache invariant the served certificate carries exactly the SAN
the template builds for the port-stripped requested host — `DNSNames = [host]` or
`IPAddresses = [ip]`, nothing else — is signed by the CA and backed by the proxy's key. -/
theorem no_cross_host (cfg : Config) (hostname : Bytes) (now : Int) (s : State) {c : Cert} {f : Bool}
    (hi : CacheInv s) (h : (cert cfg hostname now s).2 = .served c f) :
    (c.names, c.ips) = sanFor (normalise hostname) ∧ c.signedByCA = true ∧ c.keyHeld = true := by
  unfold cert at h
  simp only at h
  split at h
  · cases h
  · exact (certFor_served hi h).1

/-- A DNS host gets exactly `DNSNames = [host]`, an IP literal exactly `IPAddresses = [ip]`. -/
theorem san_dns_or_ip (host : Bytes) :
    (parseIP host = none ∧ sanFor host = ([host], [])) ∨ (∃ ip, parseIP host = some ip ∧ sanFor host = ([], [ip])) := by
  unfold sanFor
  cases parseIP host with
  | none => exact Or.inl ⟨rfl, rfl⟩
  | some ip => exact Or.inr ⟨ip, rfl, rfl⟩

/-- The only cache key a call touches is the port-stripped host; every other key keeps its entry. -/
theorem cache_key_is_normalised_host (cfg : Config) (hostname : Bytes) (now : Int) (s : State) :
    ((cert cfg hostname now s).1 = s ∨
      ∃ c, (cert cfg hostname now s).1 = store s (normalise hostname) c ∧ (cert cfg hostname now s).2 = .served c true) ∧
    ∀ k, k ≠ normalise hostname → (cert cfg hostname now s).1.cache.lookup k = s.cache.lookup k := by
  have key : (cert cfg hostname now s).1 = s ∨
      ∃ c, (cert cfg hostname now s).1 = store s (normalise hostname) c ∧ (cert cfg hostname now s).2 = .served c true := by
    unfold cert
    simp only
    split
    · exact Or.inl rfl
    · unfold certFor
      split
      · split
        · exact Or.inl rfl
        · exact Or.inr ⟨_, rfl, rfl⟩
      · exact Or.inr ⟨_, rfl, rfl⟩
  refine ⟨key, ?_⟩
  intro k hk
  cases key with
  | inl h => rw [h]
  | inr h =>
    obtain ⟨c, hc, _⟩ := h
    rw [hc]
    simp only [store, List.lookup]
    have : (k == normalise hostname) = false := by simpa using hk
    simp [this]

/-! ### host selection and refusal -/

/-- `TLSForHost`: no SNI and a fallback host that names nothing (empty, `:443`, `[]:443`) — the
handshake is refused and nothing is cached. -/
theorem no_host_refused (cfg : Config) (fallback : Bytes) (now : Int) (s : State)
    (h : normalise fallback = []) : getCertForHost cfg fallback [] now s = (s, .refused) := by
  simp [getCertForHost, cert, h]

/-- `TLS()`: no SNI — refused. -/
theorem tls_no_sni_refused (cfg : Config) (now : Int) (s : State) : getCertTLS cfg [] now s = (s, .refused) := by
  simp [getCertTLS]

/-- Refusal happens only then: a request is refused iff the selected host names nothing. -/
theorem refused_iff_no_host (cfg : Config) (r : Req) (s : State) :
    (serve cfg r s).2 = .refused ↔ normalise r.host = [] := by
  have hc : ∀ h t, (cert cfg h t s).2 = .refused ↔ normalise h = [] := by
    intro h t
    constructor
    · intro hr
      apply Classical.byContradiction
      intro hne
      exact named_host_served cfg h t s hne hr
    · intro he
      simp [cert, he]
  cases r with
  | tls sni t =>
    simp only [serve, getCertTLS, Req.host]
    split
    · rename_i he
      have : sni = [] := by simpa using he
      subst this
      simp [normalise, splitHostPort, lastIndexOf]
    · exact hc sni t
  | forHost fb sni t => exact hc _ t

/-- SNI wins over the fallback host; the fallback is used exactly when SNI is absent. -/
theorem sni_or_fallback (cfg : Config) (fallback sni : Bytes) (now : Int) (s : State) :
    getCertForHost cfg fallback sni now s = cert cfg (if sni = [] then fallback else sni) now s := by
  unfold getCertForHost
  cases sni <;> simp

/-- The defect before the repair (F06): with no SNI and the fallback `:443` the unrepaired code
serves — and caches under the empty key — a certificate whose only DNS name is the empty string. -/
theorem empty_host_served_before_fix :
    (certUnpatched { validity := 3600000, org := [] } (strBytes ":443") 1000000 {}).2 =
      .served (issue { validity := 3600000, org := [] } [] 1000000 0) true ∧
    (issue { validity := 3600000, org := [] } [] 1000000 0).names = [[]] := by
  decide

/-! ### every history -/

/-- Organisation: with the configuration fixed, every entry of every reachable cache carries it. -/
theorem org_in_every_history (cfg : Config) (rs : List Req) :
    ∀ k c, (k, c) ∈ (run cfg rs {}).cache → c.org = cfg.org := by
  suffices h : ∀ (rs : List Req) (s : State), (∀ k c, (k, c) ∈ s.cache → c.org = cfg.org) →
      ∀ k c, (k, c) ∈ (run cfg rs s).cache → c.org = cfg.org from h rs {} (by simp)
  intro rs
  induction rs with
  | nil => intro s hs; exact hs
  | cons r rs ih =>
    intro s hs
    apply ih
    have hcert : ∀ h t, ∀ k c, (k, c) ∈ (cert cfg h t s).1.cache → c.org = cfg.org := by
      intro h t k c hm
      rcases (cache_key_is_normalised_host cfg h t s).1 with he | ⟨c', he, hserved⟩
      · rw [he] at hm; exact hs k c hm
      · rw [he] at hm
        simp only [store, List.mem_cons, Prod.mk.injEq] at hm
        rcases hm with ⟨_, rfl⟩ | hm
        · -- the stored certificate is a fresh one
          unfold cert at hserved
          simp only at hserved
          split at hserved
          · cases hserved
          · unfold certFor at hserved
            split at hserved
            · split at hserved
              · simp at hserved
              · simp only [issueAndStore, Outcome.served.injEq] at hserved
                rw [← hserved.1]; rfl
            · simp only [issueAndStore, Outcome.served.injEq] at hserved
              rw [← hserved.1]; rfl
        · exact hs k c hm
    cases r with
    | tls sni t =>
      simp only [serve, getCertTLS]
      split
      · exact hs
      · exact hcert sni t
    | forHost fb sni t => exact hcert _ t

/-- **The property over all histories.** After any history of requests (any hosts, any times) on a
fresh `Config`, the answer to any further request is either a refusal — exactly when neither SNI nor
the fallback names a host — or a certificate that carries exactly the SAN of the port-stripped
requested host, the configured organisation, the CA's signature and the proxy's key, and that verifies
for that host at the time of the request. -/
theorem served_cert_right_in_every_history (cfg : Config) (rs : List Req) (r : Req) {c : Cert} {f : Bool}
    (h : (serve cfg r (run cfg rs {})).2 = .served c f) :
    normalise r.host ≠ [] ∧
    (c.names, c.ips) = sanFor (normalise r.host) ∧
    c.org = cfg.org ∧ c.signedByCA = true ∧ c.keyHeld = true ∧
    (1000 ≤ cfg.validity → Servable r.host → verifiesFor c (normalise r.host) r.time = true) := by
  have hi : CacheInv (run cfg rs {}) := cacheInv_run cfg rs cacheInv_init
  have horg := org_in_every_history cfg rs
  have hne : normalise r.host ≠ [] := by
    intro he
    have := (refused_iff_no_host cfg r (run cfg rs {})).mpr he
    rw [this] at h; cases h
  -- reduce both modes to one call of `cert` on `r.host` at `r.time`
  have hcert : (cert cfg r.host r.time (run cfg rs {})).2 = .served c f := by
    cases r with
    | tls sni t =>
      simp only [serve, getCertTLS] at h
      split at h
      · cases h
      · exact h
    | forHost fb sni t => exact h
  have hsan := no_cross_host cfg r.host r.time _ hi hcert
  refine ⟨hne, hsan.1, ?_, hsan.2.1, hsan.2.2, fun hv hs => returned_cert_verifies cfg _ _ _ hv hs hcert⟩
  -- organisation: cached entries carry it by the invariant, fresh ones by construction
  unfold cert at hcert
  simp only at hcert
  split at hcert
  · cases hcert
  · rcases (certFor_served hi hcert).2 with ⟨_, hl, _, _⟩ | ⟨_, hc, _, _⟩
    · exact horg _ _ (mem_of_lookup hl)
    · rw [hc]; rfl


/-! ### "valid for exactly that host" -/

/-- **Exactly that host, in every history.** The certificate served for a request whose port-stripped
host `k` is an IP literal verifies for a host string `h` iff `h` (brackets optional) is the same
address; if `k` is a plain DNS name, iff `h` is not an IP literal and equals `k` up to ASCII letter
case and one trailing dot. No other name is covered (no wildcard, no second SAN). -/
theorem served_cert_valid_for_exactly_that_host (cfg : Config) (rs : List Req) (r : Req) {c : Cert} {f : Bool}
    (h : (serve cfg r (run cfg rs {})).2 = .served c f) (other : Bytes) :
    (∀ ip, parseIP (normalise r.host) = some ip →
      (verifyHostname c other = true ↔ parseIP (stripBrackets other) = some ip)) ∧
    (parseIP (normalise r.host) = none → PlainName (normalise r.host) →
      (verifyHostname c other = true ↔
        parseIP (stripBrackets other) = none ∧ toLower (trimDot other) = toLower (normalise r.host))) := by
  obtain ⟨_, hsan, _, hca, hkey, _⟩ := served_cert_right_in_every_history cfg rs r h
  have hg : GoodFor (normalise r.host) c := ⟨hsan, hca, hkey⟩
  exact ⟨fun ip hk => issued_ip_exact hg hk other, fun hk hp => issued_dns_exact hg hk hp other⟩

/-- The listed spellings end to end, DNS name × letter case × port: for a plain name `d` in any case
mix `d'`, with any port, the certificate served — fresh or from the cache, in any history — verifies
for `d` at the time of the request. -/
theorem dns_any_case_any_port_verifies (cfg : Config) (rs : List Req) (d d' p : Bytes) (now : Int) {c : Cert} {f : Bool}
    (hv : 1000 ≤ cfg.validity) (hcase : toLower d' = toLower d)
    (hd : PlainName d') (hnip : parseIP d' = none) (hnipd : parseIP (stripBrackets d) = none)
    (d1 : colon ∉ d') (d2 : lbr ∉ d') (d3 : rbr ∉ d') (p1 : colon ∉ p) (p2 : lbr ∉ p) (p3 : rbr ∉ p)
    (h : (serve cfg (.forHost (d' ++ colon :: p) [] now) (run cfg rs {})).2 = .served c f) :
    verifiesFor c d now = true := by
  have hn : normalise (d' ++ colon :: p) = d' := normalise_host_port d1 d2 d3 p1 p2 p3
  have hne : d' ≠ [] := validPattern_ne_nil hd.1
  have hdot : d' ≠ [dot] := by
    intro e; rw [e] at hd; revert hd; decide
  have hserv : Servable (d' ++ colon :: p) := servable_host_port hne hdot d1 d2 d3 p1 p2 p3
  obtain ⟨_, hsan, _, hca, hkey, hver⟩ := served_cert_right_in_every_history cfg rs _ h
  have hver' := hver hv hserv
  simp only [Req.host, List.isEmpty_nil, if_true, Req.time, hn] at hver' hsan
  have hg : GoodFor d' c := ⟨hsan, hca, hkey⟩
  have hname : verifyHostname c d = true :=
    issued_verifies_any_case hg hnip hne hdot d hnipd hcase.symm
  have hdne : d ≠ [] := by
    intro e; rw [e] at hcase; exact hne (toLower_eq_nil.mp hcase)
  simp only [verifiesFor, Bool.and_eq_true] at hver' ⊢
  cases d with
  | nil => exact absurd rfl hdne
  | cons x xs => exact ⟨⟨⟨by simp, hname⟩, hver'.1.2⟩, hver'.2⟩

/-! ### concurrent handshakes -/

/-- N requesters run `Config.cert` concurrently as two atomic steps each (lookup+verify under the
read lock; issue+insert under the write lock), interleaved by an arbitrary schedule with arbitrary
times, starting from any reachable cache. Whoever has returned holds a refusal only if its own host
names nothing, otherwise a certificate issued for **its own** port-stripped host (exact SAN, CA
signature, proxy key) that verified for that host when it was handed out. Last-writer-wins on the
map is harmless. -/
theorem concurrent_own_host (cfg : Config) (hosts : List Bytes) (s : State) (hc : CacheInv s)
    (sched : List (Nat × Int)) (i : Nat) (hostname : Bytes) (o : Outcome) (t : Int)
    (hh : hosts[i]? = some hostname)
    (hd : (runSched cfg sched { st := s, threads := hosts.map Pc.start }).threads[i]? = some (.done o t)) :
    match o with
    | .refused => normalise hostname = []
    | .served c _ =>
      normalise hostname ≠ [] ∧ (c.names, c.ips) = sanFor (normalise hostname) ∧
      c.signedByCA = true ∧ c.keyHeld = true ∧
      (1000 ≤ cfg.validity → Servable hostname → verifiesFor c (normalise hostname) t = true) := by
  have hinv := sysInv_run (cfg := cfg) (hosts := hosts) sched (sysInv_start (cfg := cfg) (hosts := hosts) hc)
  obtain ⟨h', hh', hg⟩ := hinv.2 i _ hd
  rw [hh] at hh'
  cases hh'
  cases o with
  | refused => exact hg
  | served c f => exact ⟨hg.1, hg.2.1.1, hg.2.1.2.1, hg.2.1.2.2, hg.2.2⟩


/-- The fine-grained schedule theorem started from the cache any history leaves behind (the hypothesis of
`served_under_every_fine_schedule` holds in every reachable state of a fresh `Config`). -/
theorem reachable_cache_good (cfg : Config) (rs : List Req) :
    ∀ k c, (k, c) ∈ (run cfg rs {}).cache → GoodFor k c ∧ c.org = cfg.org := by
  intro k c hm
  exact ⟨(cacheInv_run cfg rs cacheInv_init k c hm).1, org_in_every_history cfg rs k c hm⟩

/-- Concurrent handshakes after any history, every fine-grained schedule, time moving between steps: each
requester that has returned holds a certificate for its own host that was valid when checked. -/
theorem concurrent_after_any_history (cfg : Config) (rs : List Req) (hosts : List Bytes) (t0 : Int)
    (sched : List (Nat × Nat)) (i : Nat) (hostname : Bytes) (c : Cert) (f : Bool) (tchk tret : Int)
    (hh : hosts[i]? = some hostname) (hv : 1000 ≤ cfg.validity) (hs : Servable hostname)
    (hd : (runF cfg sched { st := run cfg rs {}, clock := t0, threads := hosts.map FPc.start }).threads[i]? =
      some (.done (.served c f) tchk tret)) :
    (c.names, c.ips) = sanFor (normalise hostname) ∧ c.org = cfg.org ∧ tchk ≤ tret ∧
      verifiesFor c (normalise hostname) tchk = true ∧
      (verifiesFor c (normalise hostname) tret = true ↔ tret ≤ c.notAfter) := by
  have h := served_under_every_fine_schedule cfg hosts (run cfg rs {}) t0 (reachable_cache_good cfg rs) sched i hostname _ tchk tret hh hd
  obtain ⟨_, hsan, _, _, horg, hle, hrest⟩ := h
  obtain ⟨h1, h2, _⟩ := hrest hv hs
  exact ⟨hsan, horg, hle, h1, h2⟩

/-- The sequential function is the two steps run back to back (so the schedule semantics really is
`Config.cert` cut at its lock boundaries). -/
theorem two_steps_are_cert (cfg : Config) (hostname : Bytes) (now : Int) (s : State) :
    let sys := stepThread cfg (stepThread cfg { st := s, threads := [.start hostname] } 0 now) 0 now
    sys.st = (cert cfg hostname now s).1 ∧ sys.threads = [.done (cert cfg hostname now s).2 now] := by
  by_cases he : (normalise hostname).isEmpty = true
  · simp [stepThread, cert, he]
  · cases hl : s.cache.lookup (normalise hostname) with
    | none => simp [stepThread, cert, certFor, he, hl, issueAndStore]
    | some c =>
      cases hg : goVerify c (normalise hostname) now <;>
        simp [stepThread, cert, certFor, he, hl, hg, issueAndStore]

/-! ### facts regenerated from the source on every check (vextract, `Generated/Mitm.lean`) -/

/-- The cache map is touched in exactly two places of the package: the lookup inside an
(R)Lock/(R)Unlock pair and the insert inside a Lock/Unlock pair of `certmu` — the two atomic steps
of `stepThread`. An edit that adds an unguarded access or drops a lock breaks this theorem. -/
theorem facts_lock_discipline :
    Generated.Mitm.certsAccesses = 2 ∧ Generated.Mitm.lookupUnderLock = true ∧
      Generated.Mitm.insertUnderWriteLock = true := by decide

/-- Defaults of `NewConfig`, which the driver's initial state (3 600 000 ms, "Martian Proxy") mirrors. -/
theorem facts_defaults :
    Generated.Mitm.defaultValidity = "time.Hour" ∧ Generated.Mitm.defaultOrg = "\"Martian Proxy\"" := by decide

/-! ### boundaries of the statement (documented, not findings) -/

/-- Why validity ≥ 1 s is assumed: certificate times are whole seconds, so a 50 ms validity issued at
…1.900 s ends at …1.000 s — born expired. -/
theorem subsecond_validity_born_expired :
    inWindow (issue { validity := 50, org := [] } (strBytes "example.com") 1900 0) 1900 = false := by
  decide

/-- Outside the listed spellings: a bracketed IPv6 literal **without** a port is not stripped, does not
parse as an IP, gets a DNS-name SAN `[::1]`, and that certificate does not verify for the host (Go's
verifier reads `[::1]` as the address ::1). Not demanded by the property; recorded here. -/
theorem bracketed_v6_without_port :
    ¬ Servable (strBytes "[::1]") ∧
    (issue { validity := 3600000, org := [] } (normalise (strBytes "[::1]")) 5000 0).names = [strBytes "[::1]"] ∧
    verifiesFor (issue { validity := 3600000, org := [] } (normalise (strBytes "[::1]")) 5000 0) (strBytes "[::1]") 5000 = false := by
  decide

/-! ### non-vacuity: the listed spellings are servable and normalise as intended -/

example : Servable (strBytes "Example.COM") ∧ normalise (strBytes "Example.COM") = strBytes "Example.COM" := by decide
example : Servable (strBytes "example.com:443") ∧ normalise (strBytes "example.com:443") = strBytes "example.com" := by decide
example : Servable (strBytes "10.0.0.1:8443") ∧ normalise (strBytes "10.0.0.1:8443") = strBytes "10.0.0.1" := by decide
example : Servable (strBytes "::1") ∧ normalise (strBytes "::1") = strBytes "::1" := by decide
example : Servable (strBytes "[2001:db8::1]:443") ∧ normalise (strBytes "[2001:db8::1]:443") = strBytes "2001:db8::1" := by decide
example : normalise (strBytes ":443") = [] ∧ normalise [] = [] ∧ normalise (strBytes "[]:443") = [] := by decide
example : sanFor (strBytes "10.0.0.1") = ([], [[0, 0, 0, 0, 0, 0, 0, 0, 0, 0, 255, 255, 10, 0, 0, 1]]) := by decide
example : sanFor (strBytes "::1") = ([], [[0, 0, 0, 0, 0, 0, 0, 0, 0, 0, 0, 0, 0, 0, 0, 1]]) := by decide
example : sanFor (strBytes "example.com") = ([strBytes "example.com"], []) := by decide
/-- the hypotheses of `stale_entry_replaced` are satisfiable: a 2-second certificate, three seconds later -/
example : let c := issue { validity := 2000, org := [] } (strBytes "example.com") 10400 0
    goVerify c (strBytes "example.com") 10401 = true ∧ goVerify c (strBytes "example.com") 13400 = false := by decide
/-- a mixed-case request verifies against its own certificate, and a cached lower-case one would too -/
example : verifiesFor (issue { validity := 2000, org := [] } (strBytes "example.com") 10400 0) (strBytes "EXAMPLE.com") 10400 = true := by decide

end Martian.Props.C06
