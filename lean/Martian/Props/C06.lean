/-! STUB — property C06 is not built yet. -/
