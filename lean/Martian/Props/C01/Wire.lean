import Martian.Lemmas.Http1Wire
import Martian.Lemmas.Http1Relay
/-!
C01 at the level of the bytes: the HTTP/1 codec is INSIDE the model (`Model/Http1.lean`: a reader
transcribed from `http.ReadRequest` / `http.ReadResponse` + `io.ReadAll(Body)`, and the relay
functions `relayRequest` / `relayResponse` = what `martian.Proxy.handle` + `Request.write` /
`Response.Write` do to a message; all of them run against the real `net/http` and the real proxy
on every check, ops `h1.*`).

Proved here, unbounded (every message satisfying the decidable predicates `WFReq` / `WFRes`, every
body length, every chunking, every number of pipelined messages):
* framing-independent body: a request / response written with `Content-Length`, or chunked in ANY
  chunking (with or without trailers), or close-delimited, is read back as the same message with
  the same body, and nothing after it is consumed;
* pipelining: any number of requests written back to back are recovered one by one, in order,
  exactly, nothing left over; the same for responses on a kept-alive upstream connection;
* the relay: the message the next hop reads has the same method, the target in origin form, the
  same status code, the same body, and for every end-to-end field name the same values with
  multiplicity and in order.
The defect found on the way (open finding `c01:head-chunked-stray-crlf`): an answer to HEAD that
carries `Transfer-Encoding: chunked` is relayed as head + CRLF; `head_chunked_relay_leaves_stray_crlf`
is the witness, and the read-back theorem for responses is stated for non-HEAD requests.
-/
namespace Martian.Props.C01
open Martian Martian.Go Martian.MessageView Martian.Http1

/-! ### reader ∘ serialiser -/

/-- A well-formed request on the wire is read back as that request (header list: its end-to-end
fields plus the explicit `Content-Length`), whatever follows. -/
theorem read_wire_request (m : Msg) (h : WFReq m) (rest : Bytes) :
    readRequest (wire m ++ rest) = .complete (reqParsed m) rest := readRequest_wire m h rest

/-- Chunked request body in ANY chunking (`cs` = any list of non-empty chunks with
`cs.flatten = body`), trailers included. -/
theorem read_wire_request_any_chunking (m : Msg) (h : WFReq m) (hch : isChunked m.te = true)
    (cs : List Bytes) (hcs : cs.flatten = m.body.getD []) (hne : ∀ c ∈ cs, c ≠ []) (rest : Bytes) :
    readRequest (wireChunkedAs m cs ++ rest) = .complete (reqParsed m) rest :=
  readRequest_wire_chunked m h hch cs hcs hne rest

/-- A response with a body, however the origin framed it: `Content-Length`, chunked in any chunking,
or close-delimited (then it extends to the end of the stream). -/
theorem read_wire_response (meth : Bytes) (m : Msg) (h : WFRes meth m)
    (cs : List Bytes) (hcs : cs.flatten = m.body.getD []) (hne : ∀ c ∈ cs, c ≠ []) (rest : Bytes)
    (hrest : lengthDelimited m = false → rest = []) :
    readResponse meth ((if isChunked m.te then wireChunkedAs m cs else wire m) ++ rest) =
      .complete (resParsed m) rest :=
  readResponse_wire_framed meth m h cs hcs hne rest hrest

/-- The body the reader delivers does not depend on the framing: two responses that differ only in
how the body is framed and chunked deliver the same body bytes. -/
theorem body_is_framing_independent (meth : Bytes) (m m' : Msg) (h : WFRes meth m) (h' : WFRes meth m')
    (hb : m.body = m'.body) (cs cs' : List Bytes)
    (hcs : cs.flatten = m.body.getD []) (hcs' : cs'.flatten = m'.body.getD [])
    (hne : ∀ c ∈ cs, c ≠ []) (hne' : ∀ c ∈ cs', c ≠ []) :
    ∃ p p', readResponse meth (if isChunked m.te then wireChunkedAs m cs else wire m) = .complete p [] ∧
      readResponse meth (if isChunked m'.te then wireChunkedAs m' cs' else wire m') = .complete p' [] ∧
      p.msg.body = p'.msg.body := by
  have := readResponse_wire_framed meth m h cs hcs hne [] (fun _ => rfl)
  have := readResponse_wire_framed meth m' h' cs' hcs' hne' [] (fun _ => rfl)
  simp only [List.append_nil] at *
  exact ⟨_, _, ‹_›, ‹_›, by simp [resParsed, hb]⟩

/-! ### pipelining -/

/-- Any number of pipelined requests are recovered one by one, in order, with nothing left over. -/
theorem pipelined_requests_split_exactly (ms : List Msg) (h : ∀ m ∈ ms, WFReq m) :
    readAllRequests (ms.flatMap wire) = ⟨ms.map reqParsed, none⟩ :=
  readAllRequests_pipelined ms h

/-- Responses on a kept-alive upstream connection (length-delimited, none announcing close), each
read with its own request's method: recovered one by one, in order, nothing left over. -/
theorem kept_alive_responses_split_exactly (xs : List (Bytes × Msg))
    (h : ∀ x ∈ xs, WFRes x.1 x.2 ∧ lengthDelimited x.2 = true ∧ (resParsed x.2).close = false) :
    readResponses (xs.map (·.1)) (xs.flatMap fun x => wire x.2) = ⟨xs.map fun x => resParsed x.2, none⟩ :=
  readResponses_keptalive xs h

/-! ### the relay -/

/-- The request the origin reads from what the proxy writes is the client's request: same method,
same path and query (the target in origin form), same `Host`, byte-identical body, and for every
end-to-end field name (`Host`, `User-Agent`, framing and hop-by-hop fields excluded) the same
values, with multiplicity and in order — and not one byte more or less is consumed. -/
theorem relayed_request_is_the_request (p : Parsed) (x : Relayed) (hx : relayRequest p = some x)
    (hwf : WFReq x.msg) (rest : Bytes) :
    ∃ q, readRequest (x.wire ++ rest) = .complete q rest ∧
      q.msg.method = p.msg.method ∧ q.msg.url = originForm p.msg.url ∧ q.msg.host = p.msg.host ∧
      q.msg.body = p.msg.body ∧
      ∀ k, reqRewritten.contains k = false → vals q.msg.hdr k = vals p.msg.hdr k := by
  obtain ⟨h1, h2, h3, h4, _, h6⟩ := relayRequest_fields p x hx
  refine ⟨reqParsed x.msg, ?_, by simp [reqParsed, h1], by simp [reqParsed, h2], by simp [reqParsed, h4],
    by simp [reqParsed, h3], ?_⟩
  · simp only [Relayed.wire, h6, Bool.false_eq_true, if_false]
    exact readRequest_wire x.msg hwf rest
  · intro k hk
    have hreq : x.msg.isReq = true := hwf.1
    have hk' := hk
    simp only [reqRewritten, List.contains_cons, List.contains_nil, Bool.or_false, Bool.or_eq_false_iff] at hk'
    have hex : (exclOf x.msg).contains k = false := by
      simp only [exclOf, hreq, if_true, List.contains_cons, List.contains_nil, Bool.or_false, Bool.or_eq_false_iff]
      exact ⟨hk'.1, hk'.2.2.1, hk'.2.2.2.1⟩
    have hcl : (clKey == k) = false := by rw [BEq.comm]; exact hk'.2.2.1
    show vals (parsedHdr x.msg) k = _
    rw [vals_parsedHdr x.msg k hex hcl]
    exact relayRequest_e2e_vals p x hx k hk

/-- The response the client reads from what the proxy writes (request method other than HEAD) is
the origin's response: same status code, byte-identical body, and for every end-to-end field name
the same values with multiplicity and in order. For an answer to HEAD the statement fails when the
origin sent `Transfer-Encoding: chunked` — see `head_chunked_relay_leaves_stray_crlf`; the HEAD case
without that field is `relayed_head_response_is_the_response_partial`: together the two exclude
exactly the class of the open finding (HEAD ∧ chunked). -/
theorem relayed_response_is_the_response_partial (meth : Bytes) (closing : Bool) (p : Parsed) (x : Relayed)
    (hx : relayResponse meth closing p = some x) (hhead : (meth == headTok) = false)
    (hwf : WFRes meth x.msg) (rest : Bytes) (hrest : lengthDelimited x.msg = false → rest = []) :
    ∃ q, readResponse meth (x.wire ++ rest) = .complete q rest ∧
      q.msg.code = p.msg.code ∧ q.msg.body = p.msg.body ∧
      ∀ k, resRewritten.contains k = false → vals q.msg.hdr k = vals p.msg.hdr k := by
  obtain ⟨h1, _, _, h4, h5, _⟩ := relayResponse_fields meth closing p x hx
  have hnb : x.noBody = false := by rw [← h4]; exact hhead
  refine ⟨resParsed x.msg, ?_, by simp [resParsed, h1], by simp [resParsed, h5 hhead], ?_⟩
  · simp only [Relayed.wire, hnb, Bool.false_eq_true, if_false]
    exact readResponse_wire meth x.msg hwf rest hrest
  · intro k hk
    have hreq : x.msg.isReq = false := hwf.1
    have hk' := hk
    simp only [resRewritten, List.contains_cons, List.contains_nil, Bool.or_false, Bool.or_eq_false_iff] at hk'
    have hex : (exclOf x.msg).contains k = false := by
      simp only [exclOf, hreq, Bool.false_eq_true, if_false, List.contains_cons, List.contains_nil, Bool.or_false,
        Bool.or_eq_false_iff]
      exact ⟨hk'.1, hk'.2.1⟩
    have hcl : (clKey == k) = false := by rw [BEq.comm]; exact hk'.1
    have hconn : (connKey == k) = false := by rw [BEq.comm]; exact hk'.2.2.2
    show vals (resHdr x.msg) k = _
    rw [vals_resHdr x.msg k hex hcl hconn]
    exact relayResponse_e2e_vals meth closing p x hx k hk

/-- Answer to HEAD, origin did not send `Transfer-Encoding: chunked`: the client reads the head the
proxy writes as a complete bodiless response with the origin's status code and end-to-end field
values, and what follows on the connection (the next response) is left untouched. -/
theorem relayed_head_response_is_the_response_partial (closing : Bool) (p : Parsed) (x : Relayed)
    (hx : relayResponse headTok closing p = some x) (hch : isChunked p.msg.te = false)
    (hwf : WFResHead x.msg) (rest : Bytes) :
    ∃ q, readResponse headTok (x.wire ++ rest) = .complete q rest ∧
      q.msg.code = p.msg.code ∧ q.msg.body = some [] ∧
      ∀ k, resRewritten.contains k = false → vals q.msg.hdr k = vals p.msg.hdr k := by
  obtain ⟨h1, _, _, h4, _, h6⟩ := relayResponse_fields headTok closing p x hx
  have hnb : x.noBody = true := by rw [← h4]; decide
  have hch' : isChunked x.msg.te = false := by rw [h6]; exact hch
  refine ⟨resParsedHead x.msg, ?_, by simp [resParsedHead, h1], by simp [resParsedHead, hwf.2.2.2.2.2.2.2.2.2.2.2.2.1], ?_⟩
  · simp only [Relayed.wire, hnb, if_true, hch', Bool.false_eq_true, if_false, List.append_nil]
    exact readResponse_head x.msg hwf rest
  · intro k hk
    have hreq : x.msg.isReq = false := hwf.1
    have hk' := hk
    simp only [resRewritten, List.contains_cons, List.contains_nil, Bool.or_false, Bool.or_eq_false_iff] at hk'
    have hex : (exclOf x.msg).contains k = false := by
      simp only [exclOf, hreq, Bool.false_eq_true, if_false, List.contains_cons, List.contains_nil, Bool.or_false,
        Bool.or_eq_false_iff]
      exact ⟨hk'.1, hk'.2.1⟩
    have hcl : (clKey == k) = false := by rw [BEq.comm]; exact hk'.1
    have hconn : (connKey == k) = false := by rw [BEq.comm]; exact hk'.2.2.2
    show vals (resHdr x.msg) k = _
    rw [vals_resHdr x.msg k hex hcl hconn]
    exact relayResponse_e2e_vals headTok closing p x hx k hk

/-! ### the open finding `c01:head-chunked-stray-crlf` -/

def headChunkedOrigin : Bytes := strBytes "HTTP/1.1 200 OK\r\nTransfer-Encoding: chunked\r\nX-A: 1\r\n\r\n"
def nextOnConnection : Bytes := strBytes "HTTP/1.1 404 Not Found\r\nContent-Length: 0\r\n\r\n"

/-- What the client connection carries after the proxy relayed an origin's answer to HEAD with
`Transfer-Encoding: chunked`: the head, then a stray CRLF, so that the next response on the
connection is preceded by an empty line (which `http.ReadResponse`, for one, rejects). -/
def strayAfterHeadChunked : Bool :=
  match readResponse headTok headChunkedOrigin with
  | .complete p _ =>
    match relayResponse headTok false p with
    | some x =>
      (match readResponse headTok (x.wire ++ nextOnConnection) with
       | .complete _ rest => rest == crlf ++ nextOnConnection
       | _ => false) &&
      !(readResponse (strBytes "GET") (crlf ++ nextOnConnection)).isComplete
    | none => false
  | _ => false

theorem head_chunked_relay_leaves_stray_crlf : strayAfterHeadChunked = true := by decide

/-! Non-vacuity (tests): a parsed request and its relayed form are well-formed; two pipelined
requests; a relayed chunked response. -/

def exClientReq : Parsed :=
  ⟨{ isReq := true, method := strBytes "POST", url := strBytes "http://h.example/p/./q?x=1&x=2", major := 1, minor := 1,
     code := 0, status := [], host := strBytes "h.example", te := [], cl := 3,
     hdr := [(strBytes "Accept", strBytes "*/*"), (strBytes "Content-Length", strBytes "3"),
             (strBytes "X-Repeat", strBytes "one"), (strBytes "X-Repeat", strBytes "two")],
     body := some (strBytes "abc"), trailer := none }, false, none⟩

example : WFReq exClientReq.msg := by decide
example : (match relayRequest exClientReq with | some x => decide (WFReq x.msg) && (x.msg.url == strBytes "/p/./q?x=1&x=2") | none => false) = true := by
  decide

/-- The usual bodiless GET: the proxy forwards it without any framing field. -/
def exClientGet : Parsed :=
  ⟨{ isReq := true, method := strBytes "GET", url := strBytes "http://h.example", major := 1, minor := 0,
     code := 0, status := [], host := strBytes "h.example", te := [], cl := 0,
     hdr := [(strBytes "Accept", strBytes "*/*"), (strBytes "User-Agent", strBytes "curl/8")],
     body := some [], trailer := none }, true, none⟩

example : (match relayRequest exClientGet with
    | some x => decide (WFReq x.msg) && (x.msg.url == strBytes "/") && (x.msg.cl == -1) &&
        (vals x.msg.hdr connKey == [closeTok]) && (x.msg.minor == 1)
    | none => false) = true := by decide

def exOriginRes : Parsed :=
  ⟨{ isReq := false, method := [], url := [], major := 1, minor := 1, code := 200, status := strBytes "200 OK",
     host := [], te := [chunkedTok], cl := -1,
     hdr := [(strBytes "Set-Cookie", strBytes "a=1"), (strBytes "Set-Cookie", strBytes "b=2")],
     body := some (strBytes "hello"), trailer := none }, false, none⟩

example : (match relayResponse (strBytes "GET") false exOriginRes with
    | some x => decide (WFRes (strBytes "GET") x.msg) && lengthDelimited x.msg | none => false) = true := by decide

example : ∀ m ∈ [exClientReq.msg, exClientReq.msg], WFReq m := by decide

def exHeadRes : Parsed :=
  ⟨{ isReq := false, method := [], url := [], major := 1, minor := 1, code := 200, status := strBytes "200 OK",
     host := [], te := [], cl := 1234, hdr := [(strBytes "Content-Length", strBytes "1234"), (strBytes "Etag", strBytes "x")],
     body := some [], trailer := none }, false, none⟩

example : (match relayResponse headTok false exHeadRes with
    | some x => decide (WFResHead x.msg) | none => false) = true := by decide

end Martian.Props.C01
