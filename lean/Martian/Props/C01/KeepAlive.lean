import Martian.Model.ProxyWire
import Martian.Lemmas.Proxy
import Martian.Lemmas.ProxyState
/-!
C01, last clause — "the connection stays usable for the next request unless either side asked to
close, in which case the proxy closes it after that response" — over protocol versions.
What "asked to close" means depends on the version each side speaks: HTTP/1.1 is persistent unless
the Connection header lists `close`; HTTP/1.0 is not persistent unless it lists `keep-alive`; an
origin also asks by sending a body that only the end of the connection delimits.
`Wire.reqClose` / `Wire.resClose` transcribe net/http's `shouldClose` and `readTransfer`,
`Wire.written` transcribes `Response.Write`; `Wire.toItem` hands the two flags to the exchange
machine. Proved here, for every version pair, every Connection header content and every origin
framing: the machine closes exactly when a side asked (or shutdown); a response written on a
connection that stays open is always self-delimiting (the client can find its end); the client is
told `close` whenever the proxy is going to close, and a relayed response never says `close`
when the proxy keeps the connection.
-/
namespace Martian.Props.C01
open Martian Martian.Proxy Martian.Proxy.Wire

/-- Does a message of HTTP/1.`minor` with these Connection lines ask to close the connection? -/
def asks (minor : Nat) (conn : List Bytes) : Bool :=
  containsToken conn tokClose || (minor == 0 && !containsToken conn tokKeepAlive)

theorem shouldClose_eq_asks (minor : Nat) (conn : List Bytes) : shouldClose 1 minor conn = asks minor conn := by
  unfold shouldClose asks
  by_cases h : minor = 0
  · subst h; simp
  · have : (minor == 0) = false := by simpa using h
    simp [this]

/-- The client asked: by version and Connection tokens. -/
def clientAsked (x : XW) : Bool := asks x.reqMinor x.reqConn
/-- The origin asked: by version and Connection tokens, or by a body that runs to the end of the
connection (no Content-Length, no chunked coding - below HTTP/1.1 chunked does not count). -/
def originAsked (x : XW) : Bool :=
  asks x.resMinor x.resConn || (decide (effFraming x = .eof) && bodyAllowed x)

/-- **Closed exactly when a side asked to close**, over versions: with no-op modifiers and a complete
origin response the exchange ends the connection iff the client asked, the origin asked, or the
proxy is shutting down. -/
theorem closes_iff_asked_over_versions (sd : Bool) (x : XW) (st : Nat) (cl : Bool) :
    endsConn sd (toItem x .pass .pass (.ok st cl)) = (clientAsked x || originAsked x || sd) := by
  simp only [toItem, endsConn, rqSkip, reqClose, resClose, shouldClose_eq_asks, clientAsked, originAsked]
  cases asks x.reqMinor x.reqConn <;> cases asks x.resMinor x.resConn <;> cases sd <;> simp

/-- An HTTP/1.0 client that does not ask for keep-alive is never served a second request on the
connection, whatever the modifiers and the origin do. -/
theorem http10_without_keepalive_ends_the_connection (sd : Bool) (x : XW) (rq : ReqB) (rs : ResB) (org : Org)
    (hv : x.reqMinor = 0) (hk : containsToken x.reqConn tokKeepAlive = false) :
    endsConn sd (toItem x rq rs org) = true := by
  have : reqClose x = true := by simp [reqClose, shouldClose_eq_asks, asks, hv, hk]
  simp [toItem, endsConn, this]

/-- An HTTP/1.0 client that asks for keep-alive (and an origin that does not ask to close) keeps
the connection: the next request is served. -/
theorem http10_keepalive_keeps_the_connection (x : XW) (st : Nat) (cl : Bool)
    (hk : containsToken x.reqConn tokKeepAlive = true) (hc : containsToken x.reqConn tokClose = false)
    (ho : originAsked x = false) :
    endsConn false (toItem x .pass .pass (.ok st cl)) = false := by
  rw [closes_iff_asked_over_versions, ho]
  simp [clientAsked, asks, hk, hc]

/-- An HTTP/1.1 client keeps the connection unless it lists `close`. -/
theorem http11_keeps_the_connection_by_default (x : XW) (st : Nat) (cl : Bool)
    (hv : 1 ≤ x.reqMinor) (hc : containsToken x.reqConn tokClose = false) (ho : originAsked x = false) :
    endsConn false (toItem x .pass .pass (.ok st cl)) = false := by
  rw [closes_iff_asked_over_versions, ho]
  have : (x.reqMinor == 0) = false := by simp; omega
  simp [clientAsked, asks, hc, this]

theorem takeThrough_map_length {α β : Type} (f : α → β) (p : β → Bool) (l : List α) :
    (takeThrough p (l.map f)).length = (takeThrough (fun a => p (f a)) l).length := by
  induction l with
  | nil => rfl
  | cons a r ih => simp only [List.map_cons, takeThrough]; split <;> simp [ih]

/-- **The connection is served exactly until the first exchange in which a side asks to close**: for
any sequence of exchanges (each with its own versions, Connection headers, framing and status;
no-op modifiers, complete origin responses) the number of requests the proxy reads is the length of
the prefix up to and including the first exchange whose client or origin asked (or all of them). -/
theorem served_until_a_side_asks (sd : Bool) (base : Nat) (ws : List (XW × Nat)) :
    numReads (runConn sd base (ws.map fun w => toItem w.1 .pass .pass (.ok w.2 false))) =
      (takeThrough (fun w => clientAsked w.1 || originAsked w.1 || sd) ws).length := by
  have h := numReads_run sd base {} 0 [] (ws.map fun w => toItem w.1 .pass .pass (.ok w.2 false))
  rw [takeThrough_map_length] at h
  simpa [runConn, closes_iff_asked_over_versions] using h

/-! ### The close decision has no memory -/

/-- **The close decision depends on the exchange only**: whether the connection goes on after an
exchange is the same whatever its position on the connection (`i`), its context id (`c`) and the
session state (`s`) - `handle` has no counter and no budget. -/
theorem close_decision_ignores_history (sd : Bool) (s s' : St) (i i' c c' : Nat) (it : Item) :
    (handleItem sd s i c it).2.isAgain = (handleItem sd s' i' c' it).2.isAgain := by
  rw [again_iff_not_ends, again_iff_not_ends]

theorem takeThrough_none {α : Type} (p : α → Bool) (l : List α) (h : ∀ a ∈ l, p a = false) : takeThrough p l = l := by
  induction l with
  | nil => rfl
  | cons a r ih =>
    simp only [takeThrough, h a (by simp)]
    simp [ih (fun b hb => h b (by simp [hb]))]

/-- **Keep-alive has no request budget**: if no exchange of a connection asks to close (or hijacks),
every one of them is served - 10, 1000 or 100000 of them; the number of requests read is the
length of the script. -/
theorem keepalive_has_no_request_budget (sd : Bool) (base : Nat) (items : List Item)
    (h : ∀ it ∈ items, endsConn sd it = false) :
    numReads (runConn sd base items) = items.length := by
  have := numReads_run sd base {} 0 [] items
  rw [takeThrough_none _ _ h] at this
  simpa [runConn] using this

/-- … in particular any number of exchanges in which neither side asks (any versions, Connection
lines and framings that do not ask) are all answered, one response each. -/
theorem long_history_of_non_asking_exchanges_is_served (base : Nat) (ws : List (XW × Nat))
    (h : ∀ w ∈ ws, clientAsked w.1 = false ∧ originAsked w.1 = false) :
    numReads (runConn false base (ws.map fun w => toItem w.1 .pass .pass (.ok w.2 false))) = ws.length := by
  rw [served_until_a_side_asks, takeThrough_none]
  intro w hw
  simp [(h w hw).1, (h w hw).2]

/-! ### The idle deadline is per request -/

/-- **The idle timeout bounds each exchange, not the batch**: with the deadline re-armed before every
`handle`, a batch of exchanges each of which takes no longer than the timeout is served completely,
however long the batch takes as a whole and whether or not its requests were already buffered. -/
theorem deadline_is_per_request (timeout now : Nat) (lats : List Nat) (h : ∀ l ∈ lats, l ≤ timeout) :
    serveTimed timeout now lats = lats.length := by
  induction lats generalizing now with
  | nil => rfl
  | cons l r ih =>
    have hl : l ≤ timeout := h l (by simp)
    have : now + l ≤ now + timeout := by omega
    simp only [serveTimed, this, if_true, List.length_cons]
    rw [ih _ (fun x hx => h x (by simp [hx]))]; omega

/-- What the property excludes (test): with the deadline armed once for the batch, five exchanges
of 550 ms under a 2 s timeout lose their tail although each one is far below the timeout. -/
theorem deadline_armed_once_loses_the_tail_counterexample :
    serveTimedOnce 2000 0 [550, 550, 550, 550, 550] = 3 ∧ serveTimed 2000 0 [550, 550, 550, 550, 550] = 5 := by
  decide

/-- **A connection that never idles longer than the timeout is never cut, however old it is**: with
both deadlines re-armed before every `handle`, if every gap + service time stays within the timeout
all exchanges are served - the deadline in force when a response is written was set after the
previous exchange ended, never at accept time. -/
theorem busy_connection_is_never_cut (timeout now : Nat) (xs : List (Nat × Nat))
    (h : ∀ x ∈ xs, x.1 + x.2 ≤ timeout) : serveBusy timeout now xs = xs.length := by
  induction xs generalizing now with
  | nil => rfl
  | cons x r ih =>
    obtain ⟨g, l⟩ := x
    have hx : g + l ≤ timeout := h (g, l) (by simp)
    have : now + g + l ≤ now + timeout := by omega
    simp only [serveBusy, this, if_true, List.length_cons]
    rw [ih _ (fun y hy => h y (by simp [hy]))]; omega

/-- The deadline under which exchange `k` is written was set when exchange `k` began to be waited
for: `serveBusy` re-arms from `now`, which only moves forward. -/
theorem write_deadline_is_set_after_the_previous_exchange (timeout now g l : Nat) (rest : List (Nat × Nat))
    (h : g + l ≤ timeout) :
    serveBusy timeout now ((g, l) :: rest) = 1 + serveBusy timeout (now + g + l) rest := by
  have : now + g + l ≤ now + timeout := by omega
  simp [serveBusy, this]

/-- What the property excludes (test): a write deadline left at accept time + timeout cuts a busy
tunnel once it is older than the timeout (0.8 s timeout, a request every 0.3 s). -/
theorem stale_write_deadline_cuts_a_busy_connection_counterexample :
    serveBusyReadOnly 800 800 0 [(300, 10), (300, 10), (300, 10), (300, 10), (300, 10)] = 2 ∧
    serveBusy 800 0 [(300, 10), (300, 10), (300, 10), (300, 10), (300, 10)] = 5 := by decide

/-! ### What is written -/

theorem containsToken_head (t : Bytes) (rest : List Bytes) (h : valueContainsToken t t = true) :
    containsToken (t :: rest) t = true := by
  simp [containsToken, h]

theorem close_lists_close : valueContainsToken tokClose tokClose = true := by decide

/-- **A response on a connection that stays open is self-delimiting.** `closing` is `handle`'s close
decision `req.Close || res.Close || p.Closing()` (for a synthetic response `res.Close = req.Close`).
If it is false the written response carries a Content-Length, is chunked, or has no body: the
client can always find its end. (`untilClose` framing only ever goes out on a connection that is
then closed.) -/
theorem kept_alive_response_is_self_delimiting (x : XW) (synth sd : Bool)
    (hkeep : (reqClose x || (!synth && resClose x) || sd) = false) :
    (written x synth false).framing ≠ .untilClose := by
  simp only [Bool.or_eq_false_iff] at hkeep
  obtain ⟨⟨_, hres⟩, _⟩ := hkeep
  show writtenFraming x synth ≠ .untilClose
  cases synth with
  | true => simp only [writtenFraming, if_true]; split <;> simp
  | false =>
    simp only [Bool.not_false, Bool.true_and] at hres
    simp only [resClose, Bool.or_eq_false_iff] at hres
    obtain ⟨_, hunb⟩ := hres
    simp only [writtenFraming, Bool.false_eq_true, if_false]
    cases hb : bodyAllowed x with
    | false => simp
    | true =>
      simp only [Bool.not_true, Bool.false_eq_true, if_false]
      cases hf : effFraming x with
      | cl => simp
      | eof => simp [hf, hb] at hunb
      | chunked =>
        have hm : x.resMinor ≥ 1 := by
          unfold effFraming at hf
          split at hf
          · cases hf
          · rename_i hne
            have : x.framing = .chunked := hf
            simp [this] at hne; omega
        simp [hm]

/-- **The client is told whenever the proxy is going to close**: if `handle` decided to close, the
written response reads as closing (`Connection: close` is on it). -/
theorem client_is_told_when_the_proxy_closes (x : XW) (synth : Bool) :
    (written x synth true).saysClose = true := by
  simp only [written, Bool.true_or, writtenConn, if_true]
  have h := containsToken_head tokClose
    (if synth then [] else if containsToken x.resConn tokClose then [] else x.resConn) close_lists_close
  simp only [shouldClose_eq_asks, asks, h, Bool.true_or]

/-- … and a relayed origin response never says `close` when the proxy keeps the connection open
(the client is not made to give up a connection the proxy will go on serving). -/
theorem relayed_response_says_close_only_when_closing (x : XW) (sd : Bool)
    (hkeep : (reqClose x || resClose x || sd) = false) :
    (written x false false).saysClose = false := by
  have hfr : writtenFraming x false ≠ .untilClose :=
    kept_alive_response_is_self_delimiting x false sd (by simpa using hkeep)
  simp only [Bool.or_eq_false_iff] at hkeep
  obtain ⟨⟨_, hres⟩, _⟩ := hkeep
  simp only [resClose, Bool.or_eq_false_iff, shouldClose_eq_asks] at hres
  obtain ⟨hask, _⟩ := hres
  have hcl : containsToken x.resConn tokClose = false := by
    simp only [asks, Bool.or_eq_false_iff] at hask; exact hask.1
  have hd : decide (writtenFraming x false = .untilClose) = false := by simpa using hfr
  simp only [written, hd, Bool.false_and, Bool.or_false, writtenConn, Bool.false_eq_true, if_false, hcl,
    shouldClose_eq_asks, writtenMinor, hask]

/-- The same for the proxy's own responses (skip round trip, 502) to an HTTP/1.1 client … -/
theorem synthetic_response_says_close_only_when_closing_partial (x : XW) (hv : 1 ≤ x.reqMinor) :
    (written x true false).saysClose = false := by
  have hm : (x.reqMinor == 0) = false := by simp; omega
  have hd : decide (writtenFraming x true = .untilClose) = false := by
    simp only [writtenFraming, if_true]; split <;> simp
  simp only [written, hd, Bool.false_and, Bool.or_false, writtenConn, Bool.false_eq_true, if_false, if_true,
    shouldClose_eq_asks, writtenMinor, asks, hm, containsToken, List.any_nil, Bool.false_and]

/-- … but not to an HTTP/1.0 client that asked for keep-alive: `proxyutil.NewResponse` answers in the
client's version and nothing adds `Connection: keep-alive`, so the 502 / synthetic 200 reads as
"will be closed" although the proxy keeps the connection open and serves the next request. The
connection *is* usable (C01's clause holds); a strict HTTP/1.0 client just does not use it. -/
theorem synthetic_response_to_http10_keepalive_counterexample :
    let x : XW := { reqMinor := 0, reqConn := [tokKeepAlive] }
    reqClose x = false ∧ (written x true false).saysClose = true := by decide

/-! Tests of the token reader on concrete header lines (the same lines are in the generator). -/
example : containsToken [strBytes "Keep-Alive"] tokKeepAlive = true := by decide
example : containsToken [strBytes " close "] tokClose = true := by decide
example : containsToken [strBytes "x-verif-hop", strBytes "keep-alive"] tokKeepAlive = true := by decide
example : containsToken [strBytes "x-verif-hop,close"] tokClose = true := by decide
example : containsToken [strBytes "closed"] tokClose = false := by decide
example : containsToken [strBytes "close;q=1"] tokClose = false := by decide
example : containsToken [strBytes "keep-alivee"] tokKeepAlive = false := by decide
/-- Non-vacuity: an HTTP/1.0 keep-alive client and a chunked HTTP/1.1 origin - the connection is kept
and the response goes out chunked under the origin's version. -/
example : let x : XW := { reqMinor := 0, reqConn := [strBytes "Keep-Alive"], framing := .chunked }
    (reqClose x || resClose x) = false ∧ written x false false = { minor := 1, framing := .chunked, saysClose := false } := by
  decide

end Martian.Props.C01
