import Martian.Skel
import Martian.Generated.Proxy
import Martian.Model.Proxy
/-!
C01 — structural facts of `proxy.go` (regenerated from the source on every check) behind the
relay theorems: one read, one round trip and one write per pass through `handle`; the request body
is closed (drained) only when `handle` returns, i.e. after the response was written; the close
decision is exactly "request asked ∨ response asked ∨ proxy closing", it marks the response, and
it is taken before the write; `handle` returns the decision, and the serving loop ends on it.
-/
namespace Martian.Props.C01
open Martian Skel Proxy
open Martian.Generated.Proxy (handle handleLoopServing closeable)

theorem facts_one_read_one_roundtrip_one_write :
    count "call p.readRequest" handle = 1 ∧ count "call p.roundTrip" handle = 1 ∧
    count "call res.Write" handle = 1 ∧ count "call brw.Flush" handle = 1 ∧
    hasSeq ["call p.readRequest", "call p.roundTrip", "call res.Write", "call brw.Flush", "return closing"] handle = true := by
  decide

/-- `defer req.Body.Close()` directly after the read: the unread rest of a request body is consumed
when `handle` returns (after the write), which keeps the client connection framed for the next
request; there is no earlier call that closes it. -/
theorem facts_request_body_drained_at_return :
    hasBlock ["call p.readRequest", "if err != nil {", "return err", "}", "defer req.Body.Close"] handle = true ∧
    count "call req.Body.Close" handle = 0 ∧ count "defer req.Body.Close" handle = 1 := by
  decide

/-- The close decision of the model (`reqClose || resClose || shutdown`, marks the response, makes
`handle` return `errClose`) is the source's, and it is taken after the response modifier and
before the write. -/
theorem facts_close_decision :
    hasBlock ["if req.Close || res.Close || p.Closing() {", "set res.Close = true", "set closing = errClose", "}"] handle = true ∧
    hasSeq ["call p.resmod.ModifyResponse", "if req.Close || res.Close || p.Closing() {", "call res.Write"] handle = true ∧
    count "set res.Close = true" handle = 1 := by
  decide

/-- The serving loop: one `handle` per iteration; it ends exactly on a closeable error (EOF, closed
pipe, `errClose`, timeout) or a hijack. -/
theorem facts_serving_loop :
    handleLoopServing = ["for {", "call conn.SetDeadline", "call p.handle",
      "if err := p.handle(ctx, conn, brw); isCloseable(err) {", "return", "}", "if s.Hijacked() {", "return", "}", "}"] ∧
    closeable = ["neterr.Timeout", "io.EOF", "io.ErrClosedPipe", "errClose"] := by
  decide

end Martian.Props.C01
