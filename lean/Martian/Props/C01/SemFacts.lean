import Martian.Generated.ProxySem
/-!
C01 — semantic facts of `proxy.go` (regenerated from the source on every check by
`go/cmd/vextract/facts_proxy_sem.go`), independent of statement order and of the names of
temporaries: where values come from, which fields are written, whether a branch can be left.
-/
namespace Martian.Props.C01

/-- The response `handle` relays is the origin's own: the only fields it overwrites before writing
are `Request` (the proxy's request) and `Close` (the close decision) - in particular not the
protocol version, the framing fields or the header. `Wire.written` transcribes `Response.Write`
on exactly that basis (status line with the origin's version). Semantic, order-insensitive. -/
theorem facts_relayed_response_is_the_origins_own :
    Martian.Generated.ProxySem.responseFieldsSet.all (fun f => f == "Close" || f == "Request") = true := by
  decide

/-- The close decision has exactly the three inputs of the model: `req.Close` (`Wire.reqClose`),
`res.Close` (`Wire.resClose`), `p.Closing()` (the shutdown flag). -/
theorem facts_close_decision_inputs :
    Martian.Generated.ProxySem.closeDecisionInputs.length = 3 ∧
    (["req.Close", "res.Close", "p.Closing()"].all fun i => Martian.Generated.ProxySem.closeDecisionInputs.contains i) = true := by
  decide

/-- `handleLoop` sets the connection deadline on every iteration, unconditionally, before it calls
`handle` - the discipline `Wire.serveTimed` transcribes (`deadline_is_per_request`). -/
theorem facts_deadline_rearmed_before_every_handle :
    Martian.Generated.ProxySem.deadlineRearmedBeforeEveryHandle = true := by decide

/-- The default `http.Transport` of `NewProxy` - the transport every relayed exchange runs on when
the embedder installs none - is configured with exactly these fields: no HTTP/2 upgrade, the
environment's proxy, two timeouts that do not touch a healthy exchange, content codings relayed
untouched. In particular NO size limit of its own (`MaxResponseHeaderBytes`, `ReadBufferSize`, …), no
connection cap and keep-alives on: C01 quantifies over header sets and message sizes without bound,
and the model relays every complete origin response. A new field is a new decision about C01/C03 and
must be looked at. -/
theorem facts_default_transport_fields :
    Martian.Generated.ProxySem.defaultTransportFields =
      ["DisableCompression = true", "ExpectContinueTimeout = time.Second", "Proxy = http.ProxyFromEnvironment",
       "TLSHandshakeTimeout = 10 * time.Second",
       "TLSNextProto = make(map[string]func(string, *tls.Conn) http.RoundTripper)"] := by decide

end Martian.Props.C01
