/-! STUB — property C01 is not built yet. -/
