import Martian.Props.C01.Wire
import Martian.Props.C01.Facts
import Martian.Props.C01.SemFacts
import Martian.Props.C01.KeepAlive
import Martian.Lemmas.Proxy
import Martian.Lemmas.ProxyTrace
import Martian.Lemmas.ProxyState
import Martian.Lemmas.Chunked
/-!
C01 — HTTP/1 relay preserves every request and response, one-to-one and in order.
In the model parsed messages are records and the codec (`net/http`) is the identity on them, so
the content clauses (method, target, end-to-end headers, body bytes) are carried by the
correspondence run and its oracle; what is proved here, for every request sequence and every
origin behaviour, is the relay discipline: one response per request, in order, exactly the
origin's status, the connection served up to and including the first exchange that asks to
close, and closed exactly then.
-/
namespace Martian.Props.C01
open Martian.Proxy

variable (sd : Bool) (base : Nat) (items : List Item)

/-- With no-op modifiers, every request the proxy reads is forwarded upstream once and answered by
exactly one response. -/
theorem relay_one_to_one (k : Nat) (s' : St) (rc : Bool) (org : Org)
    (h : at? sd base {} 0 items k = some (s', .x rc .pass .pass org)) :
    countP (isUpstream k) (runConn sd base items) = 1 ∧ countP (isWrite k) (runConn sd base items) = 1 := by
  unfold runConn
  rw [count_run local_upstream, count_run local_write, h]
  cases org <;> simp [handleItem, handleX, pre, rqErr, rqSkip, countP, isUpstream, isWrite]

/-- Indices of the responses written to the client, in trace order. -/
def writeIdx (evs : List Ev) : List Nat := evs.filterMap fun | .write i _ _ _ => some i | _ => none

theorem writeIdx_item (sd : Bool) (s : St) (i c : Nat) (it : Item) :
    writeIdx (handleItem sd s i c it).1 = if it.hij then [] else [i] := by
  simp only [writeIdx]; item_cases it

theorem writeIdx_tail (opn : List Nat) : writeIdx (opn.map Ev.unlink ++ [Ev.closeConn]) = [] := by
  induction opn with
  | nil => simp [writeIdx]
  | cons c r ih => simpa [writeIdx] using ih

theorem writeIdx_run_ge (s : St) (i : Nat) (opn : List Nat) :
    (∀ j ∈ writeIdx (run sd base s i opn items), i ≤ j) ∧ (writeIdx (run sd base s i opn items)).Pairwise (· < ·) := by
  induction items generalizing s i opn with
  | nil => simp [run, writeIdx_tail]
  | cons it rest ih =>
    simp only [run]
    cases hn : (handleItem sd s i (base + i) it).2 with
    | again s' =>
      have ⟨h1, h2⟩ := ih s' (i + 1) (nextOpen (base + i) opn it)
      simp only [hn, writeIdx, List.filterMap_append]
      have hi := writeIdx_item sd s i (base + i) it
      simp only [writeIdx] at hi h1 h2
      rw [hi]
      split
      · exact ⟨fun j hj => by have := h1 j (by simpa using hj); omega, by simpa using h2⟩
      · refine ⟨?_, ?_⟩
        · intro j hj
          rcases List.mem_append.mp hj with h | h
          · simp at h; omega
          · have := h1 j h; omega
        · simp only [List.singleton_append, List.pairwise_cons]
          exact ⟨fun j hj => by have := h1 j hj; omega, h2⟩
    | close =>
      have hi := writeIdx_item sd s i (base + i) it
      have ht := writeIdx_tail opn
      simp only [writeIdx] at hi ht
      simp only [hn, writeIdx, List.append_assoc, List.filterMap_append, hi, ht, List.append_nil]
      split <;> simp
    | hijack =>
      have hi := writeIdx_item sd s i (base + i) it
      have ht := writeIdx_tail opn
      simp only [writeIdx] at hi ht
      simp only [hn, writeIdx, List.append_assoc, List.filterMap_append, hi, ht, List.append_nil]
      split <;> simp

/-- Responses leave in request order: the indices of the written responses are strictly increasing. -/
theorem relay_in_order : (writeIdx (runConn sd base items)).Pairwise (· < ·) :=
  (writeIdx_run_ge sd base items {} 0 []).2

/-- The client receives the origin's status code, completely, marked `Connection: close` exactly
when the client, the origin or a shutdown asked to close. -/
theorem response_is_origins (k : Nat) (s' : St) (rc : Bool) (st : Nat) (cl : Bool)
    (h : at? sd base {} 0 items k = some (s', .x rc .pass .pass (.ok st cl))) :
    Ev.write k st (rc || cl || sd) true ∈ runConn sd base items := by
  apply mem_run_of_at? sd base {} 0 [] items k s' _ h
  simp [handleItem, handleX, pre, rqErr, rqSkip]

/-- The connection is served up to and including the first exchange that ends it, and no further:
the number of requests read is the length of that prefix of the script. -/
theorem served_prefix_is_until_first_close :
    numReads (runConn sd base items) = (takeThrough (endsConn sd) items).length :=
  numReads_run sd base {} 0 [] items

/-- Without modifiers and faults an exchange ends the connection iff the client, the origin or a
shutdown asked for it - otherwise the connection stays usable for the next request. -/
theorem closes_iff_asked (rc : Bool) (st : Nat) (cl : Bool) :
    endsConn sd (.x rc .pass .pass (.ok st cl)) = (rc || cl || sd) := by
  cases rc <;> cases cl <;> cases sd <;> simp [endsConn, rqSkip]

/-- The next request on the connection is served iff no earlier exchange ended it. -/
theorem next_request_served_iff (s : St) (i : Nat) (it : Item) (c : Nat) :
    (handleItem sd s i c it).2.isAgain = !endsConn sd it :=
  again_iff_not_ends sd s i c it

/-- **The client's end of input is looked at only between exchanges.** The trace of a connection
closes it exactly once, as its very last event: a client that half-closes after its last request
still has every request it sent handled in full before the proxy reacts to the end of its input. -/
theorem connection_closed_once_at_the_very_end (s : St) (i : Nat) (opn : List Nat) :
    ∃ pre, run sd base s i opn items = pre ++ [Ev.closeConn] ∧ Ev.closeConn ∉ pre := by
  have hitem : ∀ s i c it, Ev.closeConn ∉ (handleItem sd s i c it).1 := by
    intro s i c it; item_cases it
  have htail : ∀ opn : List Nat, Ev.closeConn ∉ opn.map Ev.unlink := by
    intro opn h; obtain ⟨c, _, hc⟩ := List.mem_map.mp h; cases hc
  induction items generalizing s i opn with
  | nil => exact ⟨opn.map Ev.unlink, by simp [run], htail opn⟩
  | cons it rest ih =>
    simp only [run]
    cases hn : (handleItem sd s i (base + i) it).2 with
    | again s' =>
      obtain ⟨pre, hp, hnp⟩ := ih s' (i + 1) (nextOpen (base + i) opn it)
      refine ⟨(handleItem sd s i (base + i) it).1 ++ pre, by simp [hp], ?_⟩
      intro h; rcases List.mem_append.mp h with h | h
      · exact hitem _ _ _ _ h
      · exact hnp h
    | close =>
      refine ⟨(handleItem sd s i (base + i) it).1 ++ opn.map Ev.unlink, by simp, ?_⟩
      intro h; rcases List.mem_append.mp h with h | h
      · exact hitem _ _ _ _ h
      · exact htail opn h
    | hijack =>
      refine ⟨(handleItem sd s i (base + i) it).1 ++ opn.map Ev.unlink, by simp, ?_⟩
      intro h; rcases List.mem_append.mp h with h | h
      · exact hitem _ _ _ _ h
      · exact htail opn h

/-! ### Body framing: the one part of the codec that is modelled

`MessageView.dechunk` transcribes net/http's chunked reader (it is compared with
`httputil.NewChunkedReader` on every run, op `golib.dechunk`). However an origin - or the relay
itself, re-framing with arbitrary write sizes - cuts a body into chunks, the reader of the next hop
gets the same bytes. -/

/-- Any chunking of a body decodes to exactly that body, whatever follows on the connection. -/
theorem chunked_body_identical_for_every_chunking (chunks : List Bytes) (hne : ∀ c ∈ chunks, c ≠ [])
    (rest : Bytes) :
    MessageView.dechunk (MessageView.chunkStream chunks ++ rest) = some chunks.flatten :=
  MessageView.dechunk_chunkStream chunks hne rest

/-- Re-chunking by the relay cannot change the body: two chunkings of the same bytes read the same. -/
theorem rechunking_by_the_relay_preserves_body (cs cs' : List Bytes) (h : cs.flatten = cs'.flatten)
    (hne : ∀ c ∈ cs, c ≠ []) (hne' : ∀ c ∈ cs', c ≠ []) (rest rest' : Bytes) :
    MessageView.dechunk (MessageView.chunkStream cs ++ rest) =
      MessageView.dechunk (MessageView.chunkStream cs' ++ rest') :=
  MessageView.rechunking_preserves_body cs cs' h hne hne' rest rest'

example : ∀ c ∈ [strBytes "ab", strBytes "c"], c ≠ ([] : Bytes) := by decide

/-! Non-vacuity (tests): three pipelined exchanges, the second asking to close. -/
example : numReads (runConn false 0 [.x false .pass .pass (.ok 200 false), .x true .pass .pass (.ok 404 false),
    .x false .pass .pass (.ok 200 false)]) = 2 := by decide
example : writeIdx (runConn false 0 [.x false .pass .pass (.ok 200 false), .x true .pass .pass (.ok 404 false),
    .x false .pass .pass (.ok 200 false)]) = [0, 1] := by decide
example : at? false 0 {} 0 [.x false .pass .pass (.ok 200 false), .x true .pass .pass (.ok 404 false)] 1
    = some ({ stored := 1 }, .x true .pass .pass (.ok 404 false)) := by decide

end Martian.Props.C01
