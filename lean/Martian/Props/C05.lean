import Martian.Props.C05.Facts
import Martian.Props.C05.SemFacts
import Martian.Props.C05.TlsSession
import Martian.Lemmas.Proxy
import Martian.Lemmas.ProxyTrace
import Martian.Lemmas.ProxyState
/-!
C05 — MITM never downgrades and treats every tunnelled request as secure.
The model threads, per connection, `secure` (session flag), `connTls` (the connection argument each
`handle` call receives is the decrypted one) and `sessTls` (what a hijacker is handed). Proved for
every script: after a served MITM CONNECT whose tunnel starts with a TLS handshake, every later
request of that connection - the first and the N-th alike - is presented as https on a secure
session with TLS state attached, goes upstream over TLS, and a hijacker gets the decrypted
connection; before any such CONNECT (and inside a tunnel that carries plain HTTP) everything is
plain. TLS itself (handshake, certificates) is trusted; see C06 for the certificate logic.
-/
namespace Martian.Props.C05
open Martian.Proxy

variable (sd : Bool) (base : Nat) (items : List Item)

/-- What the request modifier sees for a request handled in state `s`. -/
theorem reqmod_reflects_state (s : St) (i c : Nat) (it : Item) :
    Ev.reqmod i c (s.secure || s.connTls) (s.secure || s.connTls) s.connTls (if s.connTls then s.tlsId else 0)
      ∈ (handleItem sd s i c it).1 :=
  reqmod_of_state sd s i c it

/-- Every request decrypted from a TLS MITM tunnel (any index after the CONNECT) is presented with
scheme https, a secure session and TLS state attached (whose state: `Props/C05/TlsSession.lean`). -/
theorem every_decrypted_request_is_https_secure_with_tls (j k : Nat) (rq : ReqB) (rs : ResB) (s' : St) (it : Item)
    (hj : items[j]? = some (.connectMitm true rq rs)) (hjk : j < k)
    (h : at? sd base {} 0 items k = some (s', it)) :
    Ev.reqmod k (base + k) true true true s'.tlsId ∈ runConn sd base items := by
  have hsec := at?_after_mitm sd base {} 0 items j k s' it rq rs (by omega) hjk (by simpa using hj) h
  obtain ⟨h2, h3⟩ := hsec
  have := reqmod_reflects_state sd s' k (base + k) it
  simp only [h2, Bool.or_true] at this
  exact mem_run_of_at? sd base {} 0 [] items k s' it h _ (by simpa using this)

/-- … and is forwarded upstream over TLS, never in cleartext: every upstream event of such a request
carries `tls = true`; a hijacker inside the tunnel is handed the decrypted connection. -/
theorem upstream_over_tls_and_hijack_decrypted (j k : Nat) (rq : ReqB) (rs : ResB) (s' : St) (it : Item)
    (hj : items[j]? = some (.connectMitm true rq rs)) (hjk : j < k)
    (h : at? sd base {} 0 items k = some (s', it)) :
    (∀ t, Ev.upstream k t ∈ (handleItem sd s' k (base + k) it).1 → t = true) ∧
    (∀ t tid, Ev.hijacked k t tid ∈ (handleItem sd s' k (base + k) it).1 → t = true) := by
  have hsec := at?_after_mitm sd base {} 0 items j k s' it rq rs (by omega) hjk (by simpa using hj) h
  obtain ⟨h2, h3⟩ := hsec
  constructor <;> intro t <;> item_cases it then (try (intro ht; simp_all))

/-- The security state never degrades: once secure, every later request of the connection is. -/
theorem secure_state_is_sticky (s s' : St) (i k : Nat) (l : List Item) (it : Item)
    (hs : Sec s) (h : at? sd base s i l k = some (s', it)) : Sec s' :=
  at?_sec sd base s i l k s' it hs h

/-- Before any TLS MITM CONNECT - in particular on a plain connection, after a blind CONNECT failure,
and inside a MITM tunnel that does not start with a TLS handshake - requests are plain HTTP on an
insecure session. -/
theorem non_tls_traffic_is_plain_insecure (k : Nat) (s' : St) (it : Item)
    (hno : ∀ j, j < k → ∀ x, items[j]? = some x → isTlsMitm x = false)
    (h : at? sd base {} 0 items k = some (s', it)) :
    Ev.reqmod k (base + k) false false false 0 ∈ runConn sd base items := by
  have hp : Plain s' := at?_plain sd base {} 0 items k s' it ⟨rfl, rfl, rfl⟩ (by simpa using hno) h
  obtain ⟨h1, h2, h3⟩ := hp
  have := reqmod_reflects_state sd s' k (base + k) it
  rw [h1, h2] at this
  exact mem_run_of_at? sd base {} 0 [] items k s' it h _ (by simpa using this)

/-- Transparent TLS listener: the connection is decrypted from its first byte, so every request on it
- the first included - is https, on a secure session, with TLS state attached. -/
theorem transparent_tls_listener_every_request_secure (k : Nat) (s' : St) (it : Item)
    (h : at? sd base tlsListenerState 0 items k = some (s', it)) :
    Ev.reqmod k (base + k) true true true s'.tlsId ∈ runConnOn tlsListenerState sd base items := by
  have inv : ∀ (l : List Item) (s : St) (i : Nat), s.connTls = true → at? sd base s i l k = some (s', it) →
      s'.connTls = true := by
    intro l
    induction l with
    | nil => intro s i _ h; simp [at?] at h
    | cons x rest ih =>
      intro s i hs h
      simp only [at?] at h
      by_cases hk : k = i
      · simp only [hk, if_true, Option.some.injEq, Prod.mk.injEq] at h; obtain ⟨rfl, _⟩ := h; exact hs
      · simp only [hk, if_false] at h
        split at h
        · rename_i s2 heq
          refine ih s2 (i + 1) ?_ h
          revert heq
          item_cases x then
            (first
              | (intro heq; subst heq; simp [*])
              | (intro heq; split at heq <;> first | contradiction | (injection heq with heq; subst heq; simp [*]))
              | skip)
        · simp at h
  have hc := inv items tlsListenerState 0 rfl h
  have := reqmod_reflects_state sd s' k (base + k) it
  rw [hc] at this
  exact mem_run_of_at? sd base tlsListenerState 0 [] items k s' it h _ (by simpa using this)

/-- The CONNECT request itself is answered 200 through the response modifier and the loop goes on on
the same connection (same session): the machine stays in `again`. -/
theorem connect_then_tunnel_same_connection (s : St) (i c : Nat) (tls : Bool) :
    (handleItem sd s i c (.connectMitm tls .pass .pass)).2.isAgain = true ∧
      Ev.write i 200 false true ∈ (handleItem sd s i c (.connectMitm tls .pass .pass)).1 := by
  cases tls <;> simp [handleItem, handleMitm, pre, rqErr, Next.isAgain]

/-! Non-vacuity (tests): three requests inside one TLS tunnel, the last one hijacks. -/
example : (runConn false 0 [.connectMitm true .pass .pass, .x false .pass .pass (.ok 200 false),
      .x false .pass .pass (.ok 200 false), .x false .hijack .pass (.ok 200 false)]).filter
      (fun e => match e with | .reqmod _ _ _ _ _ _ => true | .hijacked _ _ _ => true | _ => false)
    = [.reqmod 0 0 false false false 0, .reqmod 1 1 true true true 2, .reqmod 2 2 true true true 2,
       .reqmod 3 3 true true true 2, .hijacked 3 true 2] := by decide

end Martian.Props.C05
