/-! STUB — property C05 is not built yet. -/
