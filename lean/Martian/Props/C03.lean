import Martian.Props.C03.Wire
import Martian.Props.C03.Facts
import Martian.Lemmas.Proxy
import Martian.Lemmas.ProxyTrace
import Martian.Lemmas.ProxyState
/-!
C03 — Upstream failures become 502s or clean closes, never a desync.
Proved for every connection script; the origin fault alphabet of the model is `fail` (refused,
closed before a complete head, not HTTP: `RoundTrip` returns an error) and `trunc` (complete head,
body cut: `res.Write` fails). "The proxy process never terminates" is outside the model (no Go
panic inside `net/http` can be exhibited by it); it is supported by the junk-input stream of the
harness only, and labelled so.
-/
namespace Martian.Props.C03
open Martian.Proxy

variable (sd : Bool) (base : Nat) (items : List Item)

/-- A failure before a complete response head yields one complete 502 carrying a Warning, and it
passes through the response modifier like any other response. -/
theorem pre_head_failure_gives_502_with_warning_through_resmod (k : Nat) (s' : St) (rc : Bool) (rq : ReqB) (rs : ResB)
    (h : at? sd base {} 0 items k = some (s', .x rc rq rs .fail))
    (hq : rq = .pass ∨ ∃ v, rq = .err v) (hs : rs ≠ .hijack) :
    Ev.warnRt k ∈ runConn sd base items ∧ Ev.resmod k (base + k) 502 ∈ runConn sd base items ∧
      Ev.write k 502 (rc || sd) true ∈ runConn sd base items := by
  have hm := mem_run_of_at? sd base {} 0 [] items k s' _ h
  rcases hq with rfl | ⟨v, rfl⟩ <;> cases rs <;> simp at hs <;>
    refine ⟨hm _ ?_, hm _ ?_, hm _ ?_⟩ <;> simp [handleItem, handleX, pre, rqErr, rqSkip]

/-- After such a 502 the same client connection goes on serving (unless somebody asked to close). -/
theorem after_502_connection_serves_next (s : St) (i c : Nat) (rq : ReqB) (rs : ResB)
    (hq : rq = .pass ∨ ∃ v, rq = .err v) (hs : rs ≠ .hijack) :
    (handleItem false s i c (.x false rq rs .fail)).2.isAgain = true := by
  rw [again_iff_not_ends]
  rcases hq with rfl | ⟨v, rfl⟩ <;> cases rs <;> simp at hs <;> simp [endsConn, rqSkip]

/-- A failure after the head: what reaches the client is marked incomplete, and the connection is
closed right after - the exchange ends the connection whatever else holds. -/
theorem post_head_failure_is_incomplete_then_close (k : Nat) (s' : St) (rc : Bool) (rq : ReqB) (rs : ResB) (st : Nat)
    (h : at? sd base {} 0 items k = some (s', .x rc rq rs (.trunc st)))
    (hq : rq = .pass ∨ ∃ v, rq = .err v) (hs : rs ≠ .hijack) :
    Ev.write k st (rc || sd) false ∈ runConn sd base items ∧ endsConn sd (.x rc rq rs (.trunc st)) = true := by
  have hm := mem_run_of_at? sd base {} 0 [] items k s' _ h
  rcases hq with rfl | ⟨v, rfl⟩ <;> cases rs <;> simp at hs <;>
    refine ⟨hm _ ?_, ?_⟩ <;> simp [handleItem, handleX, pre, rqErr, rqSkip, endsConn]

/-- No request is read after an exchange that ends the connection; in particular bytes of a later
response can never follow an incomplete one. (`k` ends the connection ⇒ nothing with a larger index
is ever read.) -/
theorem nothing_served_after_closing_exchange (k j : Nat) (s' : St) (it : Item)
    (h : at? sd base {} 0 items k = some (s', it)) (he : endsConn sd it = true) (hj : k < j) :
    countP (isRead j) (runConn sd base items) = 0 := by
  unfold runConn
  rw [count_run local_read]
  suffices hs : ∀ (s : St) (i : Nat) (l : List Item), i ≤ k → at? sd base s i l k = some (s', it) →
      at? sd base s i l j = none by
    rw [hs {} 0 items (by omega) h]
  intro s i l
  induction l generalizing s i with
  | nil => intros; rfl
  | cons x rest ih =>
    intro hik hk
    simp only [at?] at hk ⊢
    have hji : j ≠ i := by omega
    simp only [hji, if_false]
    by_cases hki : k = i
    · subst hki
      simp only [if_true, Option.some.injEq, Prod.mk.injEq] at hk
      obtain ⟨rfl, rfl⟩ := hk
      have hag := again_iff_not_ends sd s k (base + k) x
      rw [he] at hag
      cases hn : (handleItem sd s k (base + k) x).2 with
      | again s2 => rw [hn] at hag; simp at hag
      | close => rfl
      | hijack => rfl
    · simp only [hki, if_false] at hk
      cases hn : (handleItem sd s i (base + i) x).2 with
      | again s2 => simp only [hn] at hk ⊢; exact ih s2 (i + 1) (by omega) hk
      | close => rfl
      | hijack => rfl

/-! Non-vacuity (tests). -/
example : at? false 0 {} 0 [.x false .pass .pass .fail, .x false .pass .pass (.trunc 200),
    .x false .pass .pass (.ok 200 false)] 1 = some ({ stored := 1 }, .x false .pass .pass (.trunc 200)) := by decide
example : countP (isRead 2) (runConn false 0 [.x false .pass .pass .fail, .x false .pass .pass (.trunc 200),
    .x false .pass .pass (.ok 200 false)]) = 0 := by decide

end Martian.Props.C03
