/-! STUB — property C03 is not built yet. -/
