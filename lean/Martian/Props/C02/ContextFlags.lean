import Martian.Model.ProxyWire
/-!
C02 — "both see the same per-exchange context … a modifier that asks to skip the round trip causes
zero upstream contact": the three flags of a context (`SkipRoundTrip`, `SkipLogging`, `APIRequest`)
are independent monotone bits. Whatever public calls the modifiers of one exchange make, in whatever
order, a flag that was set stays set, and after any sequence of calls a flag is set exactly when it
was set before or one of the calls is its own. (The model `Wire.Flags` is tied to `context.go` by the
`fl=` field of every exchange: the getters' answers after scripted, ordered call sequences.)
-/
namespace Martian.Props.C02
open Martian.Proxy.Wire

/-- A flag is "at most" another state's flag. -/
def Flags.le (a b : Flags) : Prop :=
  (a.skipRoundTrip = true → b.skipRoundTrip = true) ∧ (a.skipLogging = true → b.skipLogging = true) ∧
    (a.apiRequest = true → b.apiRequest = true)

/-- **No call clears another flag** (nor its own): every public call only adds. -/
theorem set_is_monotone (f : Flags) (c : CtxCall) : Flags.le f (f.call c) := by
  cases c <;> simp [Flags.le, Flags.call]

theorem calls_are_monotone (f : Flags) (cs : List CtxCall) : Flags.le f (f.calls cs) := by
  induction cs generalizing f with
  | nil => simp [Flags.le, Flags.calls]
  | cons c r ih =>
    have h1 := set_is_monotone f c
    have h2 := ih (f.call c)
    simp only [Flags.calls, List.foldl_cons] at h2 ⊢
    exact ⟨fun h => h2.1 (h1.1 h), fun h => h2.2.1 (h1.2.1 h), fun h => h2.2.2 (h1.2.2 h)⟩

/-- **After any sequence of calls, in any order, each flag is the union of the calls**: set iff it was
set before or its own call is in the sequence. In particular `SkipRoundTrip()` followed by
`APIRequest()` still skips the round trip. -/
theorem flags_after_calls (f : Flags) (cs : List CtxCall) :
    (f.calls cs).skipRoundTrip = (f.skipRoundTrip || cs.contains .skipRoundTrip) ∧
    (f.calls cs).skipLogging = (f.skipLogging || cs.contains .skipLogging) ∧
    (f.calls cs).apiRequest = (f.apiRequest || cs.contains .apiRequest) := by
  induction cs generalizing f with
  | nil => simp [Flags.calls]
  | cons c r ih =>
    have := ih (f.call c)
    simp only [Flags.calls, List.foldl_cons] at this ⊢
    obtain ⟨h1, h2, h3⟩ := this
    rw [h1, h2, h3]
    cases c <;> simp [Flags.call, List.contains_cons, Bool.or_assoc, Bool.or_comm]

/-- The order of the calls does not matter. -/
theorem call_order_is_irrelevant (f : Flags) (cs cs' : List CtxCall) (h : ∀ c, cs.contains c = cs'.contains c) :
    f.calls cs = f.calls cs' := by
  have a := flags_after_calls f cs
  have b := flags_after_calls f cs'
  rw [h, h, h] at a
  cases hx : f.calls cs; cases hy : f.calls cs'
  simp only [hx, hy] at a b
  simp [a.1, a.2.1, a.2.2, b.1, b.2.1, b.2.2]

example : (({} : Flags).calls [.skipRoundTrip, .apiRequest]).skipRoundTrip = true := by decide

end Martian.Props.C02
