import Martian.Lemmas.Proxy
import Martian.Lemmas.ProxyTrace
import Martian.Lemmas.ProxyState
import Martian.Model.ProxyWire
import Martian.Lemmas.HttpSpec
/-!
C02 — "a modifier error never aborts the exchange - it is surfaced as a Warning header on the
message and processing continues": for **every error value**. `ErrVal` lists the kinds of values a
modifier can return, among them the ones `isCloseable` accepts when they come from the connection
(`io.EOF`, `io.ErrClosedPipe`, timeouts). Proved for every connection script: which value a
modifier returns makes no difference at all to the trace, and an erroring modifier changes the
trace of the connection by exactly the Warning events - everything else (round trips, response
modifier calls, writes, close decisions, which later requests are served) is what it would have
been had the modifier returned nil.
-/
namespace Martian.Props.C02
open Martian.Proxy

/-- Replace every modifier error value of an item by `v`. -/
def setErr (v : ErrVal) : Item → Item
  | .x rc rq rs org => .x rc (match rq with | .err _ => .err v | .errSkip _ => .errSkip v | q => q)
      (match rs with | .err _ => .err v | r => r) org
  | .connectMitm t rq rs => .connectMitm t (match rq with | .err _ => .err v | .errSkip _ => .errSkip v | q => q)
      (match rs with | .err _ => .err v | r => r)
  | .connectBlind d rq rs => .connectBlind d (match rq with | .err _ => .err v | .errSkip _ => .errSkip v | q => q)
      (match rs with | .err _ => .err v | r => r)
  | .connectMitmFail rq rs => .connectMitmFail (match rq with | .err _ => .err v | .errSkip _ => .errSkip v | q => q)
      (match rs with | .err _ => .err v | r => r)

/-- The same item with modifiers that return nil instead of an error. -/
def noErr : Item → Item
  | .x rc rq rs org => .x rc (match rq with | .err _ => .pass | .errSkip _ => .skip | q => q)
      (match rs with | .err _ => .pass | r => r) org
  | .connectMitm t rq rs => .connectMitm t (match rq with | .err _ => .pass | .errSkip _ => .skip | q => q)
      (match rs with | .err _ => .pass | r => r)
  | .connectBlind d rq rs => .connectBlind d (match rq with | .err _ => .pass | .errSkip _ => .skip | q => q)
      (match rs with | .err _ => .pass | r => r)
  | .connectMitmFail rq rs => .connectMitmFail (match rq with | .err _ => .pass | .errSkip _ => .skip | q => q)
      (match rs with | .err _ => .pass | r => r)

/-- Drop the Warning events of the two modifier sides. -/
def stripWarn (l : List Ev) : List Ev :=
  l.filter fun | .warnReq _ => false | .warnRes _ => false | _ => true

theorem stripWarn_append (a b : List Ev) : stripWarn (a ++ b) = stripWarn a ++ stripWarn b := by
  simp [stripWarn]

theorem stripWarn_tail (opn : List Nat) :
    stripWarn (opn.map Ev.unlink ++ [Ev.closeConn]) = opn.map Ev.unlink ++ [Ev.closeConn] := by
  induction opn with
  | nil => simp [stripWarn]
  | cons c r ih => simp only [stripWarn, List.map_cons, List.cons_append, List.filter_cons] at *; simp [ih]

theorem nextOpen_setErr (v : ErrVal) (c : Nat) (opn : List Nat) (it : Item) :
    nextOpen c opn (setErr v it) = nextOpen c opn it := by cases it <;> rfl
theorem nextOpen_noErr (c : Nat) (opn : List Nat) (it : Item) :
    nextOpen c opn (noErr it) = nextOpen c opn it := by cases it <;> rfl

/-- One call of `handle`: the error value is never looked at. -/
theorem handle_ignores_error_value (sd : Bool) (s : St) (i c : Nat) (v : ErrVal) (it : Item) :
    handleItem sd s i c (setErr v it) = handleItem sd s i c it := by
  cases it with
  | x rc rq rs org => cases rq <;> cases rs <;> simp [setErr, handleItem, handleX, pre, rqErr, rqSkip, rsErr, afterReq]
  | connectMitm t rq rs => cases rq <;> cases rs <;> simp [setErr, handleItem, handleMitm, pre, rqErr, rqSkip, rsErr, afterReq]
  | connectBlind d rq rs => cases rq <;> cases rs <;> simp [setErr, handleItem, handleBlind, pre, rqErr, rqSkip, rsErr, afterReq]
  | connectMitmFail rq rs => cases rq <;> cases rs <;> simp [setErr, handleItem, handleMitmFail, pre, rqErr, rqSkip, rsErr, afterReq]

/-- **Whatever value a modifier's error is, the connection behaves the same**: replacing every
modifier error of a script by any one value `v` - `io.EOF`, a timeout, … - leaves the whole trace
unchanged. In particular a closeable value is never taken for a connection error. -/
theorem modifier_error_value_is_irrelevant (sd : Bool) (base : Nat) (v : ErrVal) (s : St) (i : Nat)
    (opn : List Nat) (items : List Item) :
    run sd base s i opn (items.map (setErr v)) = run sd base s i opn items := by
  induction items generalizing s i opn with
  | nil => rfl
  | cons it rest ih =>
    simp only [List.map_cons, run, handle_ignores_error_value, nextOpen_setErr]
    cases (handleItem sd s i (base + i) it).2 <;> simp [ih]

/-- One call of `handle` with an erroring modifier: the same next step of the loop, and the same
events except for the Warnings. -/
theorem handle_error_only_adds_warning (sd : Bool) (s : St) (i c : Nat) (it : Item) :
    (handleItem sd s i c it).2 = (handleItem sd s i c (noErr it)).2 ∧
      stripWarn (handleItem sd s i c it).1 = (handleItem sd s i c (noErr it)).1 := by
  cases it with
  | x rc rq rs org =>
    cases rq <;> cases rs <;> cases org <;>
      simp [noErr, handleItem, handleX, pre, rqErr, rqSkip, rsErr, afterReq, stripWarn, List.filter_cons]
  | connectMitm t rq rs =>
    cases rq <;> cases rs <;> simp [noErr, handleItem, handleMitm, pre, rqErr, rqSkip, rsErr, afterReq, stripWarn, List.filter_cons]
  | connectBlind d rq rs =>
    cases rq <;> cases rs <;> cases d <;>
      simp [noErr, handleItem, handleBlind, pre, rqErr, rqSkip, rsErr, afterReq, stripWarn, List.filter_cons]
  | connectMitmFail rq rs =>
    cases rq <;> cases rs <;> simp [noErr, handleItem, handleMitmFail, pre, rqErr, rqSkip, rsErr, afterReq, stripWarn, List.filter_cons]

/-- **A modifier error only adds the Warning; processing continues**: the trace of a connection whose
modifiers return errors is, Warning events aside, the trace of the same connection with modifiers
that return nil - same upstream contacts, same response-modifier calls, same responses, same
close decisions, same requests served afterwards. -/
theorem modifier_errors_only_add_warnings (sd : Bool) (base : Nat) (s : St) (i : Nat) (opn : List Nat)
    (items : List Item) :
    stripWarn (run sd base s i opn items) = run sd base s i opn (items.map noErr) := by
  induction items generalizing s i opn with
  | nil => simpa [run] using stripWarn_tail opn
  | cons it rest ih =>
    obtain ⟨h2, h1⟩ := handle_error_only_adds_warning sd s i (base + i) it
    simp only [List.map_cons, run, nextOpen_noErr]
    rw [← h2]
    cases (handleItem sd s i (base + i) it).2 with
    | again s' => simp only [stripWarn_append, h1, ih]
    | close => rw [List.append_assoc, stripWarn_append, h1, stripWarn_tail, List.append_assoc]
    | hijack => rw [List.append_assoc, stripWarn_append, h1, stripWarn_tail, List.append_assoc]

/-! ### The Warning itself: `proxyutil.Warning` on any header -/

open Martian.Go Martian.Go.Header Martian.Proxy.Wire in
/-- **Every modifier error becomes a Warning header, whatever the message looks like**: for every
header - any Date (valid, invalid, empty, absent, repeated), Warnings of others already present,
anything else - `proxyutil.Warning` adds exactly one value to `Warning`, after the existing ones. -/
theorem warning_is_added_whatever_the_headers (value : Bytes → Bytes → Bytes) (h : Go.Header) (msg now : Bytes) :
    ∃ v, values (puWarning value h msg now) kWarning = values h kWarning ++ [v] := by
  refine ⟨value msg (if get h kDate == [] then now else get h kDate), ?_⟩
  simp only [puWarning, values, add, Martian.HttpSpec.index_assign, if_true]

open Martian.Go Martian.Go.Header Martian.Proxy.Wire in
/-- … and it touches no other header. -/
theorem warning_leaves_other_headers_alone (value : Bytes → Bytes → Bytes) (h : Go.Header) (msg now k : Bytes)
    (hk : canonKey k ≠ canonKey kWarning) :
    values (puWarning value h msg now) k = values h k := by
  simp only [puWarning, values, add, Martian.HttpSpec.index_assign, hk, if_false]

/-! Non-vacuity (tests): the quantification over values includes closeable ones, and the script
below has an `io.EOF` from the request modifier followed by a served request. -/
example : ErrVal.eof.closeable = true ∧ ErrVal.closedPipe.closeable = true ∧ ErrVal.ctxDeadline.closeable = true := by decide
example : countP (isRead 1) (runConn false 0 [.x false (.err .eof) (.err .timeout) (.ok 200 false),
    .x false .pass .pass (.ok 200 false)]) = 1 := by decide
example : stripWarn (runConn false 0 [.x false (.err .eof) (.err .timeout) (.ok 200 false)])
    = runConn false 0 [.x false .pass .pass (.ok 200 false)] := by decide

end Martian.Props.C02
