import Martian.Skel
import Martian.Generated.Proxy
import Martian.Model.Proxy
/-!
C02 — structural facts of `proxy.go` (regenerated from the source on every check) that the
exchange-machine model transcribes: the order of the modelled actions in `handle`, the hijack
guard after each modifier call, "a modifier error only adds a Warning" (no return in that branch),
and the same shape on both CONNECT paths.
-/
namespace Martian.Props.C02
open Martian Skel Proxy
open Martian.Generated.Proxy (handle connectHead connectMitm connectBlind roundTrip handleLoopServing)

/-- The modelled actions of `handle`, and the event each one is in the model. -/
def actionTable : List (String × String) :=
  [("call p.readRequest", "read"), ("call link", "link"), ("defer unlink", "unlink"),
   ("call p.reqmod.ModifyRequest", "reqmod"), ("call p.roundTrip", "upstream"),
   ("call p.resmod.ModifyResponse", "resmod"), ("call res.Write", "write")]

def kind : Ev → String
  | .read _ => "read" | .link _ => "link" | .unlink _ => "unlink" | .reqmod .. => "reqmod"
  | .warnReq _ => "warnReq" | .dial .. => "dial" | .upstream .. => "upstream" | .warnRt _ => "warnRt"
  | .resmod .. => "resmod" | .warnRes _ => "warnRes" | .write .. => "write" | .tunnel _ => "tunnel"
  | .hijacked .. => "hijacked" | .closeConn => "closeConn"

/-- The source order of the modelled actions of `handle` (deferred `unlink` runs at return) is the
model's event order on the plain path: read, link, request modifier, round trip, response
modifier, write, unlink — for every state, index, close flag and origin status. -/
theorem facts_handle_action_order_is_the_models (sd : Bool) (s : St) (i c : Nat) (rc : Bool) (st : Nat) (cl : Bool) :
    (handleX sd s i c rc .pass .pass (.ok st cl)).1.map kind = linearise ["unlink"] (project actionTable handle) := by
  have h : linearise ["unlink"] (project actionTable handle) = ["read", "link", "reqmod", "upstream", "resmod", "write", "unlink"] := by decide
  rw [h]; simp [handleX, pre, rqErr, rqSkip, rsErr, kind]

/-- After the request modifier: an error only adds a Warning (no return in that branch), then the
hijack check returns without touching the connection, and only then the round trip starts. The
same after the response modifier, before the close decision. -/
theorem facts_handle_modifier_error_warns_then_hijack_check :
    hasBlock ["call p.reqmod.ModifyRequest", "if err := p.reqmod.ModifyRequest(req); err != nil {", "call proxyutil.Warning", "}",
              "if session.Hijacked() {", "return nil", "}", "call p.roundTrip"] handle = true ∧
    hasBlock ["call p.resmod.ModifyResponse", "if err := p.resmod.ModifyResponse(res); err != nil {", "call proxyutil.Warning", "}",
              "if session.Hijacked() {", "return nil", "}", "if req.Close || res.Close || p.Closing() {"] handle = true ∧
    count "call p.reqmod.ModifyRequest" handle = 1 ∧ count "call p.resmod.ModifyResponse" handle = 1 ∧
    count "call link" handle = 1 ∧ count "defer unlink" handle = 1 ∧
    hasSeq ["call link", "defer unlink", "call p.handleConnectRequest", "call p.reqmod.ModifyRequest"] handle = true := by
  decide

/-- The response modifier is handed the proxy's own request (`res.Request = req` precedes it). -/
theorem facts_resmod_sees_own_request :
    hasSeq ["call p.roundTrip", "set res.Request = req", "call p.resmod.ModifyResponse"] handle = true := by decide

/-- Skipping the round trip synthesises a 200 without calling the round tripper. -/
theorem facts_skip_roundtrip_is_synthetic_200 :
    roundTrip = ["if ctx.SkippingRoundTrip() {", "call proxyutil.NewResponse(200)", "return proxyutil.NewResponse(200, nil, req), nil", "}",
                 "call p.roundTripper.RoundTrip", "return p.roundTripper.RoundTrip(req)"] := by decide

/-- CONNECT: one request-modifier call with the same Warning/hijack shape; on every path (MITM,
failed dial, established tunnel) exactly one response-modifier call followed by the hijack check
and only then the write. -/
theorem facts_connect_paths_same_shape :
    connectHead = ["call p.reqmod.ModifyRequest", "if err := p.reqmod.ModifyRequest(req); err != nil {", "call proxyutil.Warning", "}",
                   "if session.Hijacked() {", "return nil", "}"] ∧
    hasBlock ["call proxyutil.NewResponse(200)", "call p.resmod.ModifyResponse", "if err := p.resmod.ModifyResponse(res); err != nil {",
              "call proxyutil.Warning", "}", "if session.Hijacked() {", "return nil", "}", "call res.Write", "call brw.Flush"] connectMitm = true ∧
    count "call p.resmod.ModifyResponse" connectMitm = 1 ∧
    hasBlock ["if cerr != nil {", "call proxyutil.NewResponse(502)", "call proxyutil.Warning", "call p.resmod.ModifyResponse",
              "if err := p.resmod.ModifyResponse(res); err != nil {", "call proxyutil.Warning", "}", "if session.Hijacked() {", "return nil", "}",
              "call res.Write", "call brw.Flush", "return err", "}"] connectBlind = true ∧
    hasBlock ["defer cconn.Close", "call p.resmod.ModifyResponse", "if err := p.resmod.ModifyResponse(res); err != nil {",
              "call proxyutil.Warning", "}", "if session.Hijacked() {", "return nil", "}", "set res.ContentLength = -1", "call res.Write"] connectBlind = true ∧
    count "call p.resmod.ModifyResponse" connectBlind = 2 := by
  decide

/-- The serving loop stops iterating as soon as the session is hijacked (F02 repair), on the
listener connection and inside a decrypted tunnel alike. -/
theorem facts_loops_stop_on_hijack :
    hasBlock ["call p.handle", "if err := p.handle(ctx, conn, brw); isCloseable(err) {", "return", "}", "if s.Hijacked() {", "return", "}"]
      handleLoopServing = true ∧
    hasBlock ["for {", "call nconn.SetDeadline", "call p.handle", "if isCloseable(err) {", "return err", "}",
              "if session.Hijacked() {", "return nil", "}", "}"] connectMitm = true := by
  decide

end Martian.Props.C02
