import Martian.Generated.ProxySem
/-!
C02 — semantic facts of `proxy.go` (regenerated from the source on every check by
`go/cmd/vextract/facts_proxy_sem.go`), independent of statement order and of the names of
temporaries: where values come from, which fields are written, whether a branch can be left.
-/
namespace Martian.Props.C02

/-- "Warning + continue", semantically: no branch that handles a modifier's error - in `handle` and on
every CONNECT path - contains a statement that leaves it (return, break, continue, goto, panic),
whatever else it does; so no error value of a modifier can reach `handle`'s return value and with
it `isCloseable`. Both modifier calls of `handle` and of `handleConnectRequest` are covered. -/
theorem facts_modifier_error_never_leaves_its_branch :
    Martian.Generated.ProxySem.modifierErrorExits.all (fun p => p.2 == 0) = true ∧
    (["handle:ModifyRequest", "handle:ModifyResponse", "handleConnectRequest:ModifyRequest",
      "handleConnectRequest:ModifyResponse"].all fun n =>
        (Martian.Generated.ProxySem.modifierErrorExits.map (·.1)).contains n) = true := by
  decide

/-- The response modifier is handed the proxy's own request: `Request` is among the response fields
`handle` sets (order with respect to the modifier call: `facts_resmod_sees_own_request`). -/
theorem facts_handle_sets_response_request :
    Martian.Generated.ProxySem.responseFieldsSet.contains "Request" = true := by decide

end Martian.Props.C02
