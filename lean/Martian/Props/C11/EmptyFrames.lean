import Martian.Lemmas.Grpc
/-!
C11 — zero-length DATA frames that do not end the stream.

HTTP/2 allows them anywhere; a cut-set enumeration over the n-1 inner positions of a byte stream
never produces one. They must be invisible: no `Message` call, no state change — in every state
`adapter.Data` can leave the adapter in. Together with
`frames_eq_batch` (which already quantifies over frame lists containing empty frames) this puts
them inside the fragmentation theorems.
-/
namespace Martian.Props.C11
open Martian Martian.Grpc

/-- The states `adapter.Data` returns in: waiting for the rest of a prefix, or for the rest of a
payload. A new adapter is in such a state. -/
def Quiescent (a : Adapter) : Prop :=
  (a.reading = false → a.buf.length < 5) ∧ (a.reading = true → a.buf.length < a.length)

theorem fresh_quiescent (e : Enc) : Quiescent (fresh e) := by
  simp [Quiescent, fresh]

/-- every `adapter.Data` call that returns without error leaves the adapter quiescent -/
theorem data_leaves_quiescent (cd : Codec) (a a' : Adapter) (d : Bytes) (es : Bool)
    (h : (data cd a d es).next = some a') : Quiescent a' := by
  unfold data at h
  generalize a.app d = b at h
  fun_induction loop cd es b with
  | case1 a hr hlt => simp at h; subst h; exact ⟨by simp [hr], fun _ => hlt⟩
  | case2 a hr hlt hd => simp at h
  | case3 a hr hlt d hd a2 c he =>
    simp at h; subst h
    have : a.buf.drop a.length = [] := by simpa [a2] using he
    exact ⟨by simp [a2, this], by simp [a2]⟩
  | case4 a hr hlt d hd a2 c he ih => exact ih (by simpa [Res.cons] using h)
  | case5 a hr pre hlt =>
    simp at h; subst h
    exact ⟨fun _ => hlt, by simp_all⟩
  | case6 a hr pre hlt a1 he =>
    simp at h; subst h
    have h1 : a.buf.drop 5 = [] := by have := he; simp [a1] at this; exact List.drop_eq_nil_of_le this.1
    have h2 : be32 (a.buf.drop 1) ≠ 0 := by have := he; simp [a1] at this; simpa using this.2
    refine ⟨by simp [a1], fun _ => ?_⟩
    show (a.buf.drop 5).length < be32 (a.buf.drop 1)
    rw [h1]; simpa using Nat.pos_of_ne_zero h2
  | case7 a hr pre hlt a1 he r ih => exact ih (by simpa [r] using h)

/-- **An empty DATA frame without END_STREAM is a no-op**: no call to the processor, nothing to
the sink, the adapter unchanged — at a message boundary, inside a prefix, right after a prefix,
inside a payload. (The seeded defect C11-D turns it into `Message(nil, false)` at the boundaries.) -/
theorem empty_frame_is_noop (cd : Codec) (a : Adapter) (hq : Quiescent a) :
    data cd a [] false = ⟨[], some a⟩ := by
  unfold data
  rw [app_nil]
  cases hr : a.reading with
  | true => exact loop_reading_lt cd false a hr (hq.2 hr)
  | false => rw [loop_meta_lt cd false a hr (hq.1 hr)]; simp

/-- **Empty frames are invisible in any frame sequence**: a DATA frame list, with END_STREAM on
its last frame or not, has the same effect as the list with its zero-length frames removed — from
every quiescent state, for every codec. The one exception is the one the
statement itself singles out (and the code gets wrong, F11b): an empty frame that carries the
END_STREAM. -/
theorem empty_frames_invisible (cd : Codec) (a : Adapter) (hq : Quiescent a) (fs : List Bytes) (es : Bool)
    (hl : es = false ∨ fs.getLast? ≠ some []) :
    runFrames cd a fs es = runFrames cd a (fs.filter (· ≠ [])) es := by
  induction fs generalizing a with
  | nil => simp
  | cons f rest ih =>
    cases rest with
    | nil =>
      by_cases hf : f = []
      · subst hf
        have : es = false := by simpa using hl
        subst this
        simp [runFrames, empty_frame_is_noop cd a hq]
      · simp [hf]
    | cons g gs =>
      have hl' : es = false ∨ (g :: gs).getLast? ≠ some [] := by
        rcases hl with h | h
        · exact Or.inl h
        · exact Or.inr (by simpa using h)
      rw [runFrames_cons cd a f (g :: gs) es (by simp)]
      by_cases hf : f = []
      · subst hf
        rw [empty_frame_is_noop cd a hq, andThen_pure, ih a hq hl']
        simp
      · have hfil : (f :: g :: gs).filter (· ≠ []) = f :: (g :: gs).filter (· ≠ []) := by simp [hf]
        rw [hfil]
        rw [andThen_congr _ _ (fun a' => runFrames cd a' ((g :: gs).filter (· ≠ [])) es)
          (fun a' ha' => ih a' (data_leaves_quiescent cd a a' f false ha') hl')]
        cases hr : (g :: gs).filter (· ≠ []) with
        | nil =>
          -- everything after `f` is empty: then the stream is not ended here
          have hes : es = false := by
            rcases hl' with h | h
            · exact h
            · exfalso
              apply h
              have hall : ∀ x ∈ g :: gs, x = [] := by
                intro x hx
                by_cases hne : x = []
                · exact hne
                · have : x ∈ (g :: gs).filter (· ≠ []) := List.mem_filter.mpr ⟨hx, by simpa using hne⟩
                  rw [hr] at this; simp at this
              rw [List.getLast?_eq_some_getLast (by simp), hall _ (List.getLast_mem (by simp))]
          subst hes
          simp only [runFrames]
          exact andThen_ret _
        | cons g' gs' => rw [runFrames_cons cd a f (g' :: gs') es (by simp)]

/-- Inserting a zero-length frame anywhere but at the very end of a sequence changes nothing. -/
theorem insert_empty_frame (cd : Codec) (a : Adapter) (hq : Quiescent a) (fs gs : List Bytes) (es : Bool)
    (hg : gs ≠ []) (hl : es = false ∨ gs.getLast? ≠ some []) :
    runFrames cd a (fs ++ [] :: gs) es = runFrames cd a (fs ++ gs) es := by
  have hlast : ∀ pre : List Bytes, (pre ++ gs).getLast? = gs.getLast? := by
    intro pre
    rw [List.getLast?_append, List.getLast?_eq_some_getLast hg]; rfl
  rw [empty_frames_invisible cd a hq (fs ++ [] :: gs) es
      (by rcases hl with h | h
          · exact Or.inl h
          · right; rw [show fs ++ [] :: gs = (fs ++ [[]]) ++ gs by simp, hlast]; exact h),
    empty_frames_invisible cd a hq (fs ++ gs) es
      (by rcases hl with h | h
          · exact Or.inl h
          · right; rw [hlast]; exact h)]
  simp

/-- Instance on the F11b-free placement, spelled out: any cut of a message stream, with any
number of zero-length frames sprinkled in (`gs` has the same non-empty frames as `fs`), END_STREAM
on a non-empty last frame — the processor is shown exactly what it is shown for `fs`. -/
theorem sprinkled_empty_frames_equivalent (cd : Codec) (e : Enc) (fs gs : List Bytes)
    (h : gs.filter (· ≠ []) = fs.filter (· ≠ [])) (hf : fs.getLast? ≠ some []) (hg : gs.getLast? ≠ some []) :
    runFrames cd (fresh e) gs true = runFrames cd (fresh e) fs true := by
  rw [empty_frames_invisible cd _ (fresh_quiescent e) gs true (Or.inr hg),
    empty_frames_invisible cd _ (fresh_quiescent e) fs true (Or.inr hf), h]

/-- non-vacuity / test: one message, an empty frame at the boundary before it, one right after
its prefix, one inside the payload -/
example (cd : Codec) :
    (runFrames cd (fresh .identity) [[], [0, 0, 0, 0, 2], [], [0x41], [], [0x42]] true).calls
      = [⟨false, [0x41, 0x42], true⟩] := by
  rw [sprinkled_empty_frames_equivalent cd .identity [[0, 0, 0, 0, 2], [0x41], [0x42]] _ (by simp) (by simp) (by simp)]
  have := runFrames_eq_data cd (fresh .identity) [[0, 0, 0, 0, 2], [0x41], [0x42]] true (by simp) (by simp)
  rw [this]
  obtain ⟨a', h, _⟩ := data_stream cd true [⟨false, [0x41, 0x42], [0x41, 0x42]⟩] (by simp) (fresh .identity) ⟨rfl, rfl⟩
    (by intro m hm; simp at hm; subst hm; simp [GMsg.ok, decode])
  have hs : stream [(⟨false, [0x41, 0x42], [0x41, 0x42]⟩ : GMsg)] = [0, 0, 0, 0, 2, 0x41, 0x42] := by
    simp [stream, GMsg.frame, putBe32]
  rw [hs] at h
  have hfl : ([[0, 0, 0, 0, 2], [0x41], [0x42]] : List Bytes).flatten = [0, 0, 0, 0, 2, 0x41, 0x42] := by simp
  rw [hfl, h]; simp [expCalls]

end Martian.Props.C11
