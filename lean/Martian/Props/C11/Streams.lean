import Martian.Lemmas.Grpc
/-!
C11 — several HTTP/2 streams through ONE `AsStreamProcessorFactory` value.

`h2.Config` calls the factory once per stream; every call must build its own `enabled` flag, its
own adapters (buffers, parser state, encodings) and emitters. Then what the processors and sinks of
a stream see depends only on the frames of that stream: projecting a run of interleaved frames of
any number of streams onto one stream id gives exactly the single-stream run of that stream's
frames. All theorems of the other files (stated for one stream) therefore hold for every stream of
a connection, whatever the other streams carry — in particular a stream that is not gRPC passes
untouched while, before, after and between gRPC streams (the seeded defect C11-F shares `enabled`
between the streams of a factory and loses that).
-/
namespace Martian.Props.C11
open Martian Martian.Grpc

/-- the frames of stream `sid`, in order -/
def framesOf (sid : Nat) (fs : List (Nat × Frame)) : List Frame := (fs.filter (·.1 = sid)).map (·.2)

/-- the events on stream `sid`, in order -/
def eventsOf (sid : Nat) (evs : List (Nat × Dir × Ev)) : List (Dir × Ev) := (evs.filter (·.1 = sid)).map (·.2)

private theorem eventsOf_append (sid : Nat) (xs ys : List (Nat × Dir × Ev)) :
    eventsOf sid (xs ++ ys) = eventsOf sid xs ++ eventsOf sid ys := by
  simp [eventsOf]

private theorem eventsOf_tagged (sid sid' : Nat) (evs : List (Dir × Ev)) :
    eventsOf sid (evs.map (fun e => (sid', e))) = if sid' = sid then evs else [] := by
  by_cases h : sid' = sid
  · subst h
    simp only [eventsOf, if_true]
    induction evs with
    | nil => rfl
    | cons e es ih => simp at ih ⊢; exact ih
  · simp only [eventsOf, if_neg h]
    induction evs with
    | nil => rfl
    | cons e es ih => simp [h] at ih ⊢; exact ih

/-- **Streams are independent**: for every table of stream states, every interleaving of frames
of any streams, every stream id — the per-stream projection commutes with the run. -/
theorem streams_are_independent_from (cd : Codec) (m : Multi) (fs : List (Nat × Frame)) (sid : Nat) :
    eventsOf sid (Multi.run cd m fs) = Stream.runO cd (m.get sid) (framesOf sid fs) := by
  induction fs generalizing m with
  | nil => cases h : m.get sid <;> simp [Multi.run, eventsOf, framesOf, Stream.runO]
  | cons x fs ih =>
    obtain ⟨sid', f⟩ := x
    by_cases h : sid' = sid
    · subst h
      have hf : framesOf sid' ((sid', f) :: fs) = f :: framesOf sid' fs := by simp [framesOf]
      rw [hf]
      cases hg : m.get sid' with
      | none => simp only [Multi.run, hg]; rw [ih m, hg, runO_none, runO_none]
      | some s =>
        simp only [Multi.run, hg, Stream.runO]
        rw [eventsOf_append, eventsOf_tagged, if_pos rfl, ih, multi_get_set, if_pos rfl]
    · have hf : framesOf sid ((sid', f) :: fs) = framesOf sid fs := by simp [framesOf, h]
      rw [hf]
      cases hg : m.get sid' with
      | none => simp only [Multi.run, hg]; exact ih m
      | some s =>
        simp only [Multi.run, hg]
        rw [eventsOf_append, eventsOf_tagged, if_neg h, List.nil_append, ih, multi_get_set,
          if_neg (fun e => h e.symm)]

/-- … from a new connection: the events on stream `sid` are the single-stream run
(`Stream.run`, the subject of all other theorems) of the frames of `sid`. -/
theorem streams_are_independent (cd : Codec) (fs : List (Nat × Frame)) (sid : Nat) :
    eventsOf sid (Multi.run cd [] fs) = Stream.run cd {} (framesOf sid fs) := by
  rw [streams_are_independent_from, run_eq_runO]; rfl

/-- Two interleavings with the same per-stream frame sequences are indistinguishable on every
stream (order permutations across streams, concurrent frames of two streams). -/
theorem interleaving_irrelevant (cd : Codec) (fs gs : List (Nat × Frame)) (sid : Nat)
    (h : framesOf sid fs = framesOf sid gs) :
    eventsOf sid (Multi.run cd [] fs) = eventsOf sid (Multi.run cd [] gs) := by
  rw [streams_are_independent, streams_are_independent, h]

/-- **A stream that is not gRPC passes untouched among gRPC streams**: whatever the other streams
of the connection announce and carry, before, after or in between. -/
theorem non_grpc_stream_untouched_among_others (cd : Codec) (fs : List (Nat × Frame)) (sid : Nat)
    (h : ∀ f ∈ framesOf sid fs, f.announcesGrpc = false) :
    eventsOf sid (Multi.run cd [] fs) = (framesOf sid fs).map Frame.forwarded := by
  rw [streams_are_independent]
  exact run_not_grpc cd {} _ rfl h

/-- nothing appears on a stream that received no frame -/
theorem silent_stream_stays_silent (cd : Codec) (fs : List (Nat × Frame)) (sid : Nat)
    (h : framesOf sid fs = []) : eventsOf sid (Multi.run cd [] fs) = [] := by
  rw [streams_are_independent, h]; rfl

/-- test (the input of seeded C11-F): a gRPC stream 1, then a non-gRPC stream 3 with a body -/
example (cd : Codec) :
    eventsOf 3 (Multi.run cd []
      [(1, .headers .c2s [(ctName, ctGrpc)] false), (1, .data .c2s [0, 0, 0, 0, 0] true),
       (3, .headers .c2s [(ctName, strBytes "text/plain")] false), (3, .data .c2s [0x68, 0x69] true)])
      = [(.c2s, .sinkHeader [(ctName, strBytes "text/plain")] false), (.c2s, .sinkData [0x68, 0x69] true)] := by
  rw [non_grpc_stream_untouched_among_others cd _ 3 (by
    intro f hf
    simp [framesOf] at hf
    rcases hf with h | h <;> subst h
    · simp only [Frame.announcesGrpc]; decide
    · rfl)]
  simp [framesOf, Frame.forwarded]

end Martian.Props.C11
