import Martian.Lemmas.Grpc
/-!
C11 — `adapter.Header` as a function of the ORDERED header field list.

What the code does (and the model transcribes): a stream becomes gRPC when some field named
`content-type` has a value `isGRPCContentType` accepts — `application/grpc`, alone or followed by
`+subtype` or `;parameter` (fix 1b6fe6f; the code used to compare for equality, finding F11d);
then ALL `grpc-encoding` fields of the block are visited in order, each recognised value
overwrites the encoding (the last one wins), an unrecognised value is an error. The two scans are
independent, so the position of `content-type` relative to `grpc-encoding` is irrelevant (the
seeded defect C11-C merged the scans and lost that).
-/
namespace Martian.Props.C11
open Martian Martian.Grpc

/-- the `grpc-encoding` fields of a block (what the second loop of `adapter.Header` looks at) -/
def encFields (hs : List Header) : List Header := hs.filter (fun h => h.1 = geName)

/-- the announcing field in its bare form -/
def grpcCT : Header := (ctName, ctGrpc)

/-! ## literals (regenerated from the source) and the value table -/

theorem header_literals : ctName = strBytes "content-type" ∧ ctGrpc = strBytes "application/grpc"
    ∧ geName = strBytes "grpc-encoding" := by decide

theorem encoding_value_table :
    encOfName (strBytes "identity") = some .identity ∧ encOfName (strBytes "gzip") = some .gzip
    ∧ encOfName (strBytes "deflate") = some .deflate ∧ encOfName (strBytes "snappy") = some .snappy
    ∧ encOfName (strBytes "GZIP") = none ∧ encOfName (strBytes "gzip ") = none ∧ encOfName [] = none
    ∧ encOfName (strBytes "br") = none := by decide

theorem ctName_ne_geName : ctName ≠ geName := by decide

/-! ## gRPC detection -/

/-- A content-type that announces gRPC according to the gRPC-over-HTTP/2 specification
(`"application/grpc" [("+proto" / "+json" / {custom})]`, and — as grpc-go reads it — a `;`
parameter). -/
def SpecGrpcContentType (v : Bytes) : Prop :=
  v = ctGrpc ∨ ∃ t, v = ctGrpc ++ 0x2B :: t ∨ v = ctGrpc ++ 0x3B :: t

theorem grpcCT_spec : SpecGrpcContentType grpcCT.2 := Or.inl rfl

theorem ctSeps_eq : ctSeps = [0x2B, 0x3B] := by decide

/-- **`isGRPCContentType` accepts exactly the content-types of the specification.** -/
theorem isGrpcCT_iff (v : Bytes) : isGrpcCT v = true ↔ SpecGrpcContentType v := by
  simp only [isGrpcCT, ctSeps_eq, Bool.and_eq_true, Bool.or_eq_true, beq_iff_eq, List.isPrefixOf_iff_prefix]
  constructor
  · rintro ⟨⟨t, rfl⟩, h⟩
    cases t with
    | nil => left; simp
    | cons x t =>
      right
      rcases h with h | h
      · simp at h
      · have hx : (ctGrpc ++ x :: t).getD ctGrpc.length 0 = x := by
          simp [List.getD_eq_getElem?_getD]
        rw [hx] at h
        simp at h
        rcases h with rfl | rfl
        · exact ⟨t, Or.inl rfl⟩
        · exact ⟨t, Or.inr rfl⟩
  · rintro (rfl | ⟨t, rfl | rfl⟩)
    · exact ⟨⟨[], by simp⟩, Or.inl rfl⟩
    · exact ⟨⟨_, rfl⟩, Or.inr (by simp [List.getD_eq_getElem?_getD])⟩
    · exact ⟨⟨_, rfl⟩, Or.inr (by simp [List.getD_eq_getElem?_getD])⟩

/-- detection: some field named `content-type` carries such a value — position and multiplicity
are irrelevant -/
theorem grpc_detected_iff (hs : List Header) :
    isGrpcHeaders hs = true ↔ ∃ v, (ctName, v) ∈ hs ∧ SpecGrpcContentType v := by
  simp only [isGrpcHeaders, List.any_eq_true]
  constructor
  · rintro ⟨⟨n, v⟩, hm, hc⟩
    simp at hc
    exact ⟨v, by rw [← hc.1]; exact hm, (isGrpcCT_iff v).mp hc.2⟩
  · rintro ⟨v, hm, hv⟩
    exact ⟨_, hm, by simp [(isGrpcCT_iff v).mpr hv]⟩

theorem grpc_detected_anywhere (pre post : List Header) (v : Bytes) (hv : SpecGrpcContentType v) :
    isGrpcHeaders (pre ++ (ctName, v) :: post) = true :=
  (grpc_detected_iff _).mpr ⟨v, by simp, hv⟩

/-- Full statement (false of the code before fix 1b6fe6f, which compared for equality): every
stream the specification calls gRPC is treated as gRPC. -/
def DetectsEveryGrpcContentType : Prop :=
  ∀ (v : Bytes) (pre post : List Header), SpecGrpcContentType v → isGrpcHeaders (pre ++ (ctName, v) :: post) = true

theorem detects_every_grpc_content_type : DetectsEveryGrpcContentType :=
  fun v pre post hv => grpc_detected_anywhere pre post v hv

/-- … and nothing else: a block without such a field does not switch the stream to gRPC (another
name, another media type, `application/grpc-web`, `application/grpcx`, another case, surrounding
blanks). -/
theorem detects_only_grpc_content_types (hs : List Header)
    (h : ∀ x ∈ hs, x.1 = ctName → ¬ SpecGrpcContentType x.2) : isGrpcHeaders hs = false := by
  cases hg : isGrpcHeaders hs with
  | false => rfl
  | true =>
    obtain ⟨v, hm, hv⟩ := (grpc_detected_iff hs).mp hg
    exact absurd hv (h _ hm rfl)

/-- look-alikes, decided on the model's test (the oracle's `headers:not-grpc` inputs) -/
theorem lookalike_content_types_not_grpc :
    ([strBytes "application/grpc-web", strBytes "application/grpc-web+proto", strBytes "application/grpcx",
      strBytes "application/grp", strBytes "Application/grpc", strBytes "application/grpc ",
      strBytes " application/grpc", strBytes "application/GRPC", strBytes "application/json", []].map isGrpcCT).all (· == false)
    ∧ ([strBytes "application/grpc", strBytes "application/grpc+proto", strBytes "application/grpc+json",
        strBytes "application/grpc;charset=utf-8", strBytes "application/grpc+", strBytes "application/grpc;"].map isGrpcCT).all (· == true) := by
  decide

/-- The former counterexample of F11d, now positive: a block announcing `application/grpc+proto`
switches the stream to gRPC and reaches the processor, then the sink. -/
theorem grpc_subtype_is_processed (d : Dir) (es : Bool) :
    ({} : Stream).header d [(ctName, strBytes "application/grpc+proto")] es
      = ({ enabled := true }, [.procHeader [(ctName, strBytes "application/grpc+proto")] es,
                               .sinkHeader [(ctName, strBytes "application/grpc+proto")] es]) := by
  cases d <;> cases es <;> decide

/-! ## the `grpc-encoding` scan over the ordered field list -/

/-- fields with another name are skipped (also `grpc-accept-encoding`, `content-encoding`) -/
theorem scan_skips_other_fields (e : Enc) (hs : List Header) (h : ∀ x ∈ hs, x.1 ≠ geName) :
    scanEncoding e hs = (e, true) := by
  induction hs with
  | nil => rfl
  | cons x xs ih =>
    obtain ⟨n, v⟩ := x
    have hn : n ≠ geName := h (n, v) (by simp)
    simp only [scanEncoding, hn, if_false]
    exact ih (fun y hy => h y (by simp [hy]))

/-- the scan sees only the `grpc-encoding` fields, in their order -/
theorem scan_depends_on_encoding_fields_only (e : Enc) (hs : List Header) :
    scanEncoding e hs = scanEncoding e (encFields hs) := by
  induction hs generalizing e with
  | nil => rfl
  | cons x xs ih =>
    obtain ⟨n, v⟩ := x
    by_cases hn : n = geName
    · have : encFields ((n, v) :: xs) = (n, v) :: encFields xs := by simp [encFields, hn]
      rw [this]
      cases hv : encOfName v with
      | none => simp [scanEncoding, hn, hv]
      | some e' => simp [scanEncoding, hn, hv, ih]
    · have : encFields ((n, v) :: xs) = encFields xs := by simp [encFields, hn]
      rw [this]
      simp [scanEncoding, hn, ih]

/-- no error iff every `grpc-encoding` value is one of the four names -/
theorem scan_ok_iff (e : Enc) (hs : List Header) :
    (scanEncoding e hs).2 = true ↔ ∀ x ∈ hs, x.1 = geName → (encOfName x.2).isSome = true := by
  induction hs generalizing e with
  | nil => simp [scanEncoding]
  | cons x xs ih =>
    obtain ⟨n, v⟩ := x
    by_cases hn : n = geName
    · cases hv : encOfName v with
      | none =>
        simp only [scanEncoding, hn, if_true, hv]
        constructor
        · intro h; simp at h
        · intro h; have := h (geName, v) (by simp) rfl; simp [hv] at this
      | some e' =>
        simp only [scanEncoding, hn, if_true, hv, ih e']
        constructor
        · intro h y hy hyn
          simp at hy
          rcases hy with rfl | hy
          · simp [hv]
          · exact h y hy hyn
        · intro h y hy hyn; exact h y (by simp [hy]) hyn
    · simp only [scanEncoding, hn, if_false, ih e]
      constructor
      · intro h y hy hyn
        simp at hy
        rcases hy with rfl | hy
        · exact absurd hyn hn
        · exact h y hy hyn
      · intro h y hy hyn; exact h y (by simp [hy]) hyn

/-- **The encoding is the one named by the LAST `grpc-encoding` field of the block**, wherever it
stands and whatever precedes it (other recognised `grpc-encoding` fields included). -/
theorem encoding_is_last_grpc_encoding_field (e e' : Enc) (pre post : List Header) (v : Bytes)
    (hpre : ∀ x ∈ pre, x.1 = geName → (encOfName x.2).isSome = true)
    (hpost : ∀ x ∈ post, x.1 ≠ geName) (hv : encOfName v = some e') :
    scanEncoding e (pre ++ (geName, v) :: post) = (e', true) := by
  rw [scanEncoding_append]
  have h1 : (scanEncoding e pre).2 = true := (scan_ok_iff e pre).mpr hpre
  simp only [h1, if_true, scanEncoding, hv]
  exact scan_skips_other_fields e' post hpost

/-- without any `grpc-encoding` field the adapter keeps the encoding it had (a new one: identity) -/
theorem no_encoding_field_keeps_encoding (e : Enc) (hs : List Header) (h : ∀ x ∈ hs, x.1 ≠ geName) :
    scanEncoding e hs = (e, true) := scan_skips_other_fields e hs h

/-- an unrecognised value is an error; the encoding selected by the fields before it stays -/
theorem unrecognised_encoding_is_error (e : Enc) (pre post : List Header) (v : Bytes)
    (hpre : ∀ x ∈ pre, x.1 = geName → (encOfName x.2).isSome = true) (hv : encOfName v = none) :
    scanEncoding e (pre ++ (geName, v) :: post) = ((scanEncoding e pre).1, false) := by
  rw [scanEncoding_append]
  have h1 : (scanEncoding e pre).2 = true := (scan_ok_iff e pre).mpr hpre
  simp [h1, scanEncoding, hv]

/-! ## `adapter.Header`: order independence -/

/-- The state `adapter.Header` leaves (shared switch, both adapters) and whether it fails depend
only on (a) whether the block contains the announcing field and (b) the `grpc-encoding` fields in
their relative order. Every other reordering of the block — in particular moving `content-type`
before, between or after the `grpc-encoding` fields — is invisible. -/
theorem header_order_independent (s : Stream) (d : Dir) (hs hs' : List Header) (es es' : Bool)
    (hct : isGrpcHeaders hs = isGrpcHeaders hs') (hge : encFields hs = encFields hs') :
    (s.header d hs es).1 = (s.header d hs' es').1
    ∧ ((s.header d hs es).2 = [.error "encoding"] ↔ (s.header d hs' es').2 = [.error "encoding"]) := by
  unfold Stream.header
  rw [scan_depends_on_encoding_fields_only _ hs, scan_depends_on_encoding_fields_only _ hs', hct, hge]
  cases hen : (s.enabled || isGrpcHeaders hs') with
  | false => simp
  | true =>
    cases hsc : scanEncoding (s.get d).enc (encFields hs') with
    | mk e ok => cases ok <;> simp

private theorem encFields_move_ct (pre post : List Header) (v : Bytes) :
    encFields (pre ++ (ctName, v) :: post) = encFields ((ctName, v) :: (pre ++ post)) := by
  have : ¬ (ctName = geName) := ctName_ne_geName
  simp [encFields, this]

/-- **Order independence w.r.t. content-type**: the announcing field (`application/grpc`, with or
without subtype / parameter) anywhere in the block acts as if it came first. -/
theorem content_type_position_irrelevant (s : Stream) (d : Dir) (pre post : List Header) (v : Bytes)
    (hv : SpecGrpcContentType v) (es : Bool) :
    (s.header d (pre ++ (ctName, v) :: post) es).1 = (s.header d ((ctName, v) :: (pre ++ post)) es).1 :=
  (header_order_independent s d _ _ es es
    (by rw [grpc_detected_anywhere pre post v hv]; exact (grpc_detected_anywhere [] (pre ++ post) v hv).symm)
    (encFields_move_ct pre post v)).1

/-- `adapter.Header` on a block that announces gRPC (or on a stream already gRPC), with
well-formed encodings: the stream is gRPC afterwards, the adapter of this direction has the
encoding of the last `grpc-encoding` field, its reassembly state is untouched, the other
direction's adapter is untouched, and the block reaches the processor and then the sink unchanged. -/
theorem header_selects_last_encoding (s : Stream) (d : Dir) (hs pre post : List Header) (v : Bytes) (e' : Enc)
    (es : Bool) (hen : s.enabled = true ∨ ∃ ct, (ctName, ct) ∈ hs ∧ SpecGrpcContentType ct) (hsplit : hs = pre ++ (geName, v) :: post)
    (hpre : ∀ x ∈ pre, x.1 = geName → (encOfName x.2).isSome = true)
    (hpost : ∀ x ∈ post, x.1 ≠ geName) (hv : encOfName v = some e') :
    (s.header d hs es).1.enabled = true
    ∧ (s.header d hs es).1.get d = { s.get d with enc := e' }
    ∧ (∀ d', d' ≠ d → (s.header d hs es).1.get d' = s.get d')
    ∧ (s.header d hs es).2 = [.procHeader hs es, .sinkHeader hs es] := by
  have hen' : (s.enabled || isGrpcHeaders hs) = true := by
    rcases hen with h | h
    · simp [h]
    · simp [(grpc_detected_iff hs).mpr h]
  have hsc : scanEncoding (s.get d).enc hs = (e', true) := by
    rw [hsplit]; exact encoding_is_last_grpc_encoding_field _ e' pre post v hpre hpost hv
  unfold Stream.header
  simp only [hen', hsc]
  refine ⟨by cases d <;> simp [Stream.set], by cases d <;> simp [Stream.set, Stream.get], ?_, by simp⟩
  intro d' hd
  cases d <;> cases d' <;> simp_all [Stream.set, Stream.get]

/-- The input class of the seeded defect C11-C as an instance: `grpc-encoding` listed BEFORE the
announcing `content-type` field in the first header block of a new stream is honoured. -/
theorem encoding_before_content_type_honoured (d : Dir) (v ct : Bytes) (e' : Enc) (mid post : List Header)
    (hct : SpecGrpcContentType ct)
    (hmid : ∀ x ∈ mid, x.1 ≠ geName) (hpost : ∀ x ∈ post, x.1 ≠ geName) (hv : encOfName v = some e') (es : Bool) :
    ((({} : Stream).header d ((geName, v) :: (mid ++ (ctName, ct) :: post)) es).1.get d).enc = e' := by
  have := (header_selects_last_encoding {} d ((geName, v) :: (mid ++ (ctName, ct) :: post)) [] (mid ++ (ctName, ct) :: post) v e' es
    (Or.inr ⟨ct, by simp, hct⟩) rfl (by simp)
    (by
      intro x hx
      simp at hx
      rcases hx with hx | rfl | hx
      · exact hmid x hx
      · exact ctName_ne_geName
      · exact hpost x hx) hv).2.1
  rw [this]

/-- the shared switch is sticky and is exactly "was gRPC already, or this block announces it" -/
theorem header_enabled (s : Stream) (d : Dir) (hs : List Header) (es : Bool) :
    (s.header d hs es).1.enabled = (s.enabled || isGrpcHeaders hs) := by
  unfold Stream.header
  cases hen : (s.enabled || isGrpcHeaders hs) with
  | false =>
    have : s.enabled = false := by cases h : s.enabled <;> simp_all
    simp [this]
  | true =>
    cases hsc : scanEncoding (s.get d).enc hs with
    | mk e ok => cases ok <;> cases d <;> simp [Stream.set]

/-- a header block (also trailers, also a Trailers-Only response) never disturbs the reassembly
state of either direction: only `enc` of its own direction can change -/
theorem header_keeps_reassembly_state (s : Stream) (d d' : Dir) (hs : List Header) (es : Bool) :
    ((s.header d hs es).1.get d').buf = (s.get d').buf
    ∧ ((s.header d hs es).1.get d').reading = (s.get d').reading
    ∧ ((s.header d hs es).1.get d').compressed = (s.get d').compressed
    ∧ ((s.header d hs es).1.get d').length = (s.get d').length
    ∧ (d' ≠ d → (s.header d hs es).1.get d' = s.get d') := by
  unfold Stream.header
  cases hen : (s.enabled || isGrpcHeaders hs) with
  | false => simp
  | true =>
    cases hsc : scanEncoding (s.get d).enc hs with
    | mk e ok => cases ok <;> cases d <;> cases d' <;> simp [Stream.set, Stream.get]

/-! ## several header blocks of one direction (1xx interim responses, the final block, trailers) -/

/-- `adapter.Header` called for each block of a direction in turn (`es` = the block's END_STREAM) -/
def headerBlocks (s : Stream) (d : Dir) : List (List Header × Bool) → Stream
  | [] => s
  | (hs, es) :: bs => headerBlocks (s.header d hs es).1 d bs

private theorem headerBlocks_append (s : Stream) (d : Dir) (xs ys : List (List Header × Bool)) :
    headerBlocks s d (xs ++ ys) = headerBlocks (headerBlocks s d xs) d ys := by
  induction xs generalizing s with
  | nil => rfl
  | cons x xs ih => obtain ⟨hs, es⟩ := x; simp [headerBlocks, ih]

/-- a block without a `grpc-encoding` field leaves the encoding of its direction as it was —
whether or not the stream is (or becomes) gRPC -/
theorem block_without_encoding_keeps_it (s : Stream) (d : Dir) (hs : List Header) (es : Bool)
    (h : ∀ x ∈ hs, x.1 ≠ geName) : ((s.header d hs es).1.get d).enc = (s.get d).enc := by
  unfold Stream.header
  rw [scan_skips_other_fields _ hs h]
  cases hen : (s.enabled || isGrpcHeaders hs) with
  | false => simp
  | true => cases d <;> simp [Stream.set, Stream.get]

theorem blocks_without_encoding_keep_it (s : Stream) (d : Dir) (bs : List (List Header × Bool))
    (h : ∀ b ∈ bs, ∀ x ∈ b.1, x.1 ≠ geName) : ((headerBlocks s d bs).get d).enc = (s.get d).enc := by
  induction bs generalizing s with
  | nil => rfl
  | cons b bs ih =>
    obtain ⟨hs, es⟩ := b
    simp only [headerBlocks]
    rw [ih _ (fun b hb => h b (by simp [hb])), block_without_encoding_keeps_it s d hs es (h (hs, es) (by simp))]

/-- **`encoding_is_last_grpc_encoding_field` lifted from fields to blocks**: after any number of
header blocks of a direction, the encoding is the one named by the last `grpc-encoding` field of
the LAST block that names one (provided the stream is gRPC by then: announced before, by the other
direction, or in that very block) — whatever the earlier blocks (1xx interim responses included)
said, and whatever follows without naming one (the final block, trailers). The seeded defect C11-L
scans the first block only. -/
theorem encoding_is_last_block_naming_one (s : Stream) (d : Dir) (pre post : List (List Header × Bool))
    (hs preF postF : List Header) (v : Bytes) (e' : Enc) (es : Bool)
    (hen : (headerBlocks s d pre).enabled = true ∨ ∃ ct, (ctName, ct) ∈ hs ∧ SpecGrpcContentType ct)
    (hsplit : hs = preF ++ (geName, v) :: postF)
    (hpreF : ∀ x ∈ preF, x.1 = geName → (encOfName x.2).isSome = true)
    (hpostF : ∀ x ∈ postF, x.1 ≠ geName) (hv : encOfName v = some e')
    (hpost : ∀ b ∈ post, ∀ x ∈ b.1, x.1 ≠ geName) :
    ((headerBlocks s d (pre ++ (hs, es) :: post)).get d).enc = e' := by
  rw [headerBlocks_append]
  simp only [headerBlocks]
  rw [blocks_without_encoding_keep_it _ d post hpost,
    (header_selects_last_encoding (headerBlocks s d pre) d hs preF postF v e' es hen hsplit hpreF hpostF hv).2.1]

/-- DATA never changes an encoding: the encoding in force for a DATA frame is the one the header
blocks before it left. -/
theorem data_keeps_encodings (cd : Codec) (s s' : Stream) (d d' : Dir) (b : Bytes) (es : Bool) (evs : List Ev)
    (h : Stream.data cd s d b es = (some s', evs)) : (s'.get d').enc = (s.get d').enc := by
  unfold Stream.data at h
  by_cases hen : s.enabled = false
  · simp [hen] at h; rw [← h.1]
  · simp only [hen] at h
    cases hn : (Grpc.data cd (s.get d) b es).next with
    | none => simp [hn] at h
    | some a' =>
      simp [hn] at h
      rw [← h.1]
      have he : a'.enc = (s.get d).enc := by
        have := loop_keeps_enc cd es ((s.get d).app b) a' hn
        simpa [Adapter.app] using this
      cases d <;> cases d' <;> simp [Stream.set, Stream.get, he] <;> simpa [Stream.get] using he

/-- test: 103 Early Hints, then 200 with `grpc-encoding: gzip`, on a stream the request announced -/
example : ((headerBlocks { enabled := true } .s2c
    [([(strBytes ":status", strBytes "103")], false),
     ([(strBytes ":status", strBytes "200"), grpcCT, (geName, strBytes "gzip")], false),
     ([(strBytes "grpc-status", strBytes "0")], true)]).get .s2c).enc = .gzip := by decide

/-! ## non-vacuity / tests on concrete blocks -/

/-- `grpc-encoding: gzip` first, pseudo-headers and `grpc-accept-encoding` around, content-type last -/
example : ((({} : Stream).header .c2s
    [(geName, strBytes "gzip"), (strBytes ":method", strBytes "POST"),
     (strBytes "grpc-accept-encoding", strBytes "identity,deflate"), grpcCT] false).1.get .c2s).enc = .gzip := by
  decide

/-- duplicated field: the last one wins -/
example : scanEncoding .identity [(geName, strBytes "gzip"), grpcCT, (geName, strBytes "snappy")] = (.snappy, true) := by
  decide

example : SpecGrpcContentType (strBytes "application/grpc;charset=utf-8") :=
  Or.inr ⟨strBytes "charset=utf-8", Or.inr (by decide)⟩

/-- `grpc-encoding` before a `+proto` content-type -/
example : ((({} : Stream).header .s2c
    [(geName, strBytes "snappy"), (ctName, strBytes "application/grpc+proto")] true).1.get .s2c).enc = .snappy := by
  decide

end Martian.Props.C11
