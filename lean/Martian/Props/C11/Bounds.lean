import Martian.Lemmas.Grpc
/-!
C11 — the 32-bit arithmetic of the length prefix (`adapter.length uint32`,
`uint32(a.buffer.Len())`, `uint32(len(data))`), modelled as it is in the code (`Grpc.u32`).

* the `length` field always fits a `uint32`;
* the cut-set theorems of `Props/C11.lean` carry the hypothesis "fewer than 2^32 + 5 bytes
  pending"; here: that bound is sharp (`streaming_eq_batch_bound_sharp`,
  `batch_shows_messages_bound_sharp`), and what the code does beyond it
  (`complete_message_not_shown_when_buffer_wraps`);
* the emitter's prefix announces the payload length modulo 2^32 (`emit_prefix_reads_back`), so the
  hypothesis "recompressed payload < 2^32" of `passthrough_wire_roundtrip` is exact too.
-/
namespace Martian.Props.C11
open Martian Martian.Grpc

/-! ## the `uint32` field -/

/-- Whatever bytes arrive, the `length` the loop stores fits the Go `uint32` field (so `Nat` in
the model loses nothing). -/
theorem length_stays_uint32 (cd : Codec) (es : Bool) (a a' : Adapter) (h : (loop cd es a).next = some a')
    (hl : a.length < 4294967296) : a'.length < 4294967296 := by
  fun_induction loop cd es a with
  | case1 a hr hlt => simp at h; subst h; exact hl
  | case2 a hr hlt hd => simp at h
  | case3 a hr hlt d hd a2 c he => simp at h; subst h; simpa [a2] using hl
  | case4 a hr hlt d hd a2 c he ih => exact ih (by simpa [Res.cons] using h) (by simpa [a2] using hl)
  | case5 a hr pre hlt => simp at h; subst h; exact hl
  | case6 a hr pre hlt a1 he => simp at h; subst h; simpa [a1] using be32_lt _
  | case7 a hr pre hlt a1 he r ih => exact ih (by simpa [r] using h) (by simpa [a1] using be32_lt _)

theorem data_length_stays_uint32 (cd : Codec) (es : Bool) (a a' : Adapter) (d : Bytes)
    (h : (data cd a d es).next = some a') (hl : a.length < 4294967296) : a'.length < 4294967296 :=
  length_stays_uint32 cd es (a.app d) a' h (by simpa [Adapter.app] using hl)

/-! ## the bound of the cut-set theorems is sharp -/

/-- `streaming_eq_batch` is false with exactly 2^32 + 5 bytes pending, for every codec: the
adapter has read the prefix of a 1-byte message; the frame `[7] ++ y` (`|y| = 2^32 - 1`) makes
the buffer 2^32 bytes long, `uint32` of which is 0 < 1, so nothing is shown — while the frame
`[7]` alone shows the message. -/
theorem streaming_eq_batch_bound_sharp (cd : Codec) (y : Bytes) (hy : y.length = 4294967295) :
    (({ reading := true, length := 1 } : Adapter).pending + [(7 : UInt8)].length + y.length = 4294967301) ∧
    data cd { reading := true, length := 1 } ([7] ++ y) false
      ≠ (data cd { reading := true, length := 1 } [7] false).andThen (fun a' => data cd a' y false) := by
  refine ⟨by simp [Adapter.pending, hy], ?_⟩
  intro heq
  have hl : data cd { reading := true, length := 1 } ([7] ++ y) false
      = ⟨[], some (({ reading := true, length := 1 } : Adapter).app ([7] ++ y))⟩ := by
    unfold data
    exact loop_reading_wrapped cd false _ (by simp [Adapter.app]) (by simp [Adapter.app, u32, hy])
  have hr : data cd { reading := true, length := 1 } [7] false
      = ⟨[⟨false, [7], false⟩], some ({ reading := false, length := 1 } : Adapter)⟩ := by
    unfold data
    rw [loop_reading_last cd false _ (by simp [Adapter.app]) (by simp [Adapter.app]) (by simp [Adapter.app]) [7]
      (by simp [Adapter.app, decode]) (by simp [Adapter.app])]
    simp [Adapter.afterMsg, Adapter.app]
  rw [hl, hr] at heq
  have := congrArg (fun r => r.calls.length) heq
  simp [Res.andThen] at this

/-- The same from a new adapter, on a well-formed stream: a 1-byte message followed in the same
DATA call by 2^32 - 1 further bytes (2^32 + 5 in all) is not shown, although the message alone is.
So `batch_shows_messages` / `fragmentation_invariant_partial` cannot be stated beyond their bound. -/
theorem batch_shows_messages_bound_sharp (cd : Codec) (e : Enc) (y : Bytes) (hy : y.length = 4294967295) :
    (data cd (fresh e) ((⟨false, [7], [7]⟩ : GMsg).frame ++ y) false).calls = []
    ∧ (data cd (fresh e) (⟨false, [7], [7]⟩ : GMsg).frame false).calls = [⟨false, [7], false⟩] := by
  constructor
  · unfold data
    rw [loop_meta_go cd false _ (by simp [Adapter.app, fresh]) (by simp [Adapter.app, fresh, GMsg.frame, putBe32])
      (Or.inl (by
        simp only [Adapter.app, fresh, GMsg.frame, putBe32, List.nil_append, List.cons_append, List.drop_succ_cons,
          List.drop_zero]
        simp))]
    rw [loop_reading_wrapped cd false _ (by simp [Adapter.afterPrefix])
      (by simp [Adapter.afterPrefix, Adapter.app, fresh, GMsg.frame, putBe32, be32, u32, hy])]
  · have := data_stream cd false [⟨false, [7], [7]⟩] (by simp) (fresh e) ⟨rfl, rfl⟩
      (by intro m hm; simp at hm; subst hm; simp [GMsg.ok, decode]) (by simp [stream, GMsg.frame, putBe32])
    obtain ⟨a', h, _⟩ := this
    simp only [stream, List.map_cons, List.map_nil, List.flatten_cons, List.flatten_nil, List.append_nil] at h
    rw [h]; simp [expCalls]

/-- What the code does beyond the bound, in general: the whole message is in the buffer
(`a.length ≤ |buffer|`), but the buffer has reached 2^32 bytes, so `uint32(a.buffer.Len())` has
wrapped below `a.length` and `adapter.Data` returns without showing it. With DATA frames of at
most 2^24 - 1 bytes this needs a message of more than 2^32 - 2^24 bytes whose last frame also
carries bytes of the next one. -/
theorem complete_message_not_shown_when_buffer_wraps (cd : Codec) (es : Bool) (a : Adapter)
    (hr : a.reading = true) (_hcomplete : a.length ≤ a.buf.length)
    (h1 : 4294967296 ≤ a.buf.length) (h2 : a.buf.length < 4294967296 + a.length) :
    loop cd es a = ⟨[], some a⟩ :=
  loop_reading_wrapped cd es a hr (by simp only [u32]; omega)

/-- the hypotheses above are satisfiable by lengths (a 4 GiB - 1 message, 2^32 bytes buffered) -/
example : ∃ len buflen : Nat, len < 4294967296 ∧ len ≤ buflen ∧ 4294967296 ≤ buflen ∧ buflen < 4294967296 + len :=
  ⟨4294967295, 4294967296, by decide, by decide, by decide, by decide⟩

/-! ## the emitter's prefix -/

/-- `binary.Write(&buf, binary.BigEndian, uint32(len(data)))`: a reader of the sink's DATA finds
the payload length modulo 2^32 in the prefix, and the flag byte in front of it. -/
theorem emit_prefix_reads_back (cd : Codec) (e : Enc) (c : Call) :
    be32 ((emit cd e c).1.drop 1) = u32 (encode cd e c.compressed c.data).length
    ∧ (emit cd e c).1.getD 0 0 = (if c.compressed then 1 else 0)
    ∧ (emit cd e c).1.drop 5 = encode cd e c.compressed c.data := by
  refine ⟨?_, by simp [emit], by simp [emit, putBe32]⟩
  simp only [emit, List.drop_succ_cons, List.drop_zero]
  exact be32_putBe32_u32 _ _

/-- Beyond 2^32 - 1 bytes the announced length is wrong (it wraps): the bound
`(encode …).length < 2^32` of `passthrough_wire_roundtrip` is exact. -/
theorem emit_prefix_wraps (cd : Codec) (e : Enc) (c : Call) (k : Nat)
    (h : (encode cd e c.compressed c.data).length = 4294967296 + k) :
    be32 ((emit cd e c).1.drop 1) = u32 k := by
  rw [(emit_prefix_reads_back cd e c).1, h, Nat.add_comm, u32_add_wrap]

/-- and up to it, it is right -/
theorem emit_prefix_exact (cd : Codec) (e : Enc) (c : Call)
    (h : (encode cd e c.compressed c.data).length < 4294967296) :
    be32 ((emit cd e c).1.drop 1) = (encode cd e c.compressed c.data).length := by
  rw [(emit_prefix_reads_back cd e c).1, u32_of_lt h]

end Martian.Props.C11
