import Martian.Lemmas.Grpc
/-!
C11 — the 32-bit arithmetic of the length prefix (`adapter.length uint32`,
`uint32(len(data))`), modelled as it is in the code.

* the `length` field always fits a `uint32`;
* since fix ba75971 (`uint64(a.buffer.Len()) < uint64(a.length)`) the payload test is a comparison
  of naturals: a complete message is always delivered, whatever the buffer size
  (`complete_message_is_delivered`; before the fix a buffer of 2^32 bytes or more wrapped and the
  cut-set theorems needed a size bound — they no longer do);
* the emitter's prefix still announces the payload length modulo 2^32 (`emit_prefix_reads_back`):
  the hypothesis "recompressed payload < 2^32" of `passthrough_wire_roundtrip` is exact. That is
  the format's own limit, not a defect.
-/
namespace Martian.Props.C11
open Martian Martian.Grpc

/-! ## the `uint32` field -/

/-- Whatever bytes arrive, the `length` the loop stores fits the Go `uint32` field (so `Nat` in
the model loses nothing). -/
theorem length_stays_uint32 (cd : Codec) (es : Bool) (a a' : Adapter) (h : (loop cd es a).next = some a')
    (hl : a.length < 4294967296) : a'.length < 4294967296 := by
  fun_induction loop cd es a with
  | case1 a hr hlt => simp at h; subst h; exact hl
  | case2 a hr hlt hd => simp at h
  | case3 a hr hlt d hd a2 c he => simp at h; subst h; simpa [a2] using hl
  | case4 a hr hlt d hd a2 c he ih => exact ih (by simpa [Res.cons] using h) (by simpa [a2] using hl)
  | case5 a hr pre hlt => simp at h; subst h; exact hl
  | case6 a hr pre hlt a1 he => simp at h; subst h; simpa [a1] using be32_lt _
  | case7 a hr pre hlt a1 he r ih => exact ih (by simpa [r] using h) (by simpa [a1] using be32_lt _)

theorem data_length_stays_uint32 (cd : Codec) (es : Bool) (a a' : Adapter) (d : Bytes)
    (h : (data cd a d es).next = some a') (hl : a.length < 4294967296) : a'.length < 4294967296 :=
  length_stays_uint32 cd es (a.app d) a' h (by simpa [Adapter.app] using hl)

/-! ## no wrap-around in the payload test -/

/-- Once the whole payload is in the buffer the message is delivered (or its decompression
fails) — for every buffer size, 2^32 bytes and beyond included. (The inverse of fix ba75971 makes
this false: `uint32(a.buffer.Len())` wraps below `a.length`.) -/
theorem complete_message_is_delivered (cd : Codec) (es : Bool) (a : Adapter)
    (hr : a.reading = true) (h : a.length ≤ a.buf.length) :
    (loop cd es a).next = none ∨ ∃ d e rest, (loop cd es a).calls = ⟨a.compressed, d, e⟩ :: rest
        ∧ decode cd a.enc a.compressed (a.buf.take a.length) = some d := by
  cases hd : decode cd a.enc a.compressed (a.buf.take a.length) with
  | none => left; rw [loop_reading_err cd es a hr h hd]
  | some d =>
    right
    by_cases he : a.buf.drop a.length = []
    · exact ⟨d, es, [], by rw [loop_reading_last cd es a hr h d hd he], rfl⟩
    · exact ⟨d, false, (loop cd es a.afterMsg).calls, by rw [loop_reading_more cd es a hr h d hd he]; rfl, rfl⟩

/-- instance at the size that used to wrap (2^32 + 5 bytes pending): a 1-byte message followed in
the same buffer by 2^32 - 1 further bytes is shown -/
example (cd : Codec) (y : Bytes) (hy : y.length = 4294967295) :
    (loop cd false { reading := true, length := 1, buf := 7 :: y }).calls.head? = some ⟨false, [7], false⟩ := by
  have hne : y ≠ [] := by intro h0; rw [h0] at hy; simp at hy
  rw [loop_reading_more cd false _ rfl (by simp) [7] (by simp [decode]) (by simpa using hne)]
  simp [Res.cons]

/-! ## the emitter's prefix -/

/-- `binary.Write(&buf, binary.BigEndian, uint32(len(data)))`: a reader of the sink's DATA finds
the payload length modulo 2^32 in the prefix, and the flag byte in front of it. -/
theorem emit_prefix_reads_back (cd : Codec) (e : Enc) (c : Call) :
    be32 ((emit cd e c).1.drop 1) = u32 (encode cd e c.compressed c.data).length
    ∧ (emit cd e c).1.getD 0 0 = (if c.compressed then 1 else 0)
    ∧ (emit cd e c).1.drop 5 = encode cd e c.compressed c.data := by
  refine ⟨?_, by simp [emit], by simp [emit, putBe32]⟩
  simp only [emit, List.drop_succ_cons, List.drop_zero]
  exact be32_putBe32_u32 _ _

/-- Beyond 2^32 - 1 bytes the announced length is wrong (it wraps): the bound
`(encode …).length < 2^32` of `passthrough_wire_roundtrip` is exact. -/
theorem emit_prefix_wraps (cd : Codec) (e : Enc) (c : Call) (k : Nat)
    (h : (encode cd e c.compressed c.data).length = 4294967296 + k) :
    be32 ((emit cd e c).1.drop 1) = u32 k := by
  rw [(emit_prefix_reads_back cd e c).1, h, Nat.add_comm, u32_add_wrap]

/-- and up to it, it is right -/
theorem emit_prefix_exact (cd : Codec) (e : Enc) (c : Call)
    (h : (encode cd e c.compressed c.data).length < 4294967296) :
    be32 ((emit cd e c).1.drop 1) = (encode cd e c.compressed c.data).length := by
  rw [(emit_prefix_reads_back cd e c).1, u32_of_lt h]

end Martian.Props.C11
