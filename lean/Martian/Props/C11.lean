import Martian.Model.Grpc
namespace Martian.Props.C11
end Martian.Props.C11
