import Martian.Lemmas.Grpc
import Martian.Props.C11.Bounds
import Martian.Props.C11.EmptyFrames
import Martian.Props.C11.Header
import Martian.Props.C11.Streams
/-!
# C11 — gRPC reframing is invariant to DATA fragmentation and compression

Theorems about the executable model `Martian.Grpc` (`Model/Grpc.lean`) of `h2/grpc/grpc.go`.
They hold for every compression library (`cd : Codec`); the wire round trip assumes
`cd.RoundTrip` explicitly. No bound on buffer or stream sizes is needed (since fix ba75971 the
adapter compares lengths without truncation); the only 32-bit limit left is the format's own: a
payload must fit the `uint32` prefix (`GMsg.ok`, `Props/C11/Bounds.lean`).
Sub-files: `C11/Bounds.lean` (32-bit prefix arithmetic), `C11/EmptyFrames.lean` (zero-length DATA
frames), `C11/Header.lean` (`adapter.Header` over the ordered field list, gRPC detection),
`C11/Streams.lean` (several streams through one factory value are independent). Vocabulary (`GMsg`, `stream`, `expCalls`, `runFrames`, `emit`,
`Stream.run`) is defined in the model file.

An END_STREAM on an *empty* DATA frame while no message is pending is turned by the code into
`processor.Message(nil, true)` (known finding F11b). The two clauses it falsifies are kept as
`def … : Prop` with a `…_counterexample`, and proved as `…_partial` for every other input.
-/
namespace Martian.Props.C11
open Martian Martian.Grpc

/-- cut a byte string into consecutive pieces of the given lengths (the last piece is the
remainder): every cut set of `s` is `cut ks s` for some `ks` -/
def cut : List Nat → Bytes → List Bytes
  | [], s => [s]
  | k :: ks, s => s.take k :: cut ks (s.drop k)

theorem cut_flatten (ks : List Nat) (s : Bytes) : (cut ks s).flatten = s := by
  induction ks generalizing s with
  | nil => simp [cut]
  | cons k ks ih => simp [cut, ih]

theorem cut_ne_nil (ks : List Nat) (s : Bytes) : cut ks s ≠ [] := by
  cases ks <;> simp [cut]

/-! ## 1. streaming = batch -/

/-- One DATA frame `x ++ y` has the same effect (calls, order, end-of-stream flags, final state,
error) as the frame `x` followed by the frame `y` carrying the END_STREAM flag of the whole —
for every adapter state, every codec, every split point. -/
theorem streaming_eq_batch (cd : Codec) (a : Adapter) (x y : Bytes) (es : Bool) (h : y ≠ [] ∨ es = false) :
    data cd a (x ++ y) es = (data cd a x false).andThen (fun a' => data cd a' y es) :=
  data_append cd a x y es h

/-- Any DATA frame sequence (any number of frames, empty frames allowed anywhere but at an
END_STREAM) is equivalent to the single frame carrying the concatenation. -/
theorem frames_eq_batch (cd : Codec) (a : Adapter) (fs : List Bytes) (es : Bool) (hne : fs ≠ [])
    (hl : es = false ∨ fs.getLast? ≠ some []) :
    runFrames cd a fs es = data cd a fs.flatten es :=
  runFrames_eq_data cd a fs es hne hl

/-- Two ways of cutting the same bytes are indistinguishable. -/
theorem cut_sets_equivalent (cd : Codec) (a : Adapter) (fs gs : List Bytes) (es : Bool)
    (hf : fs ≠ []) (hg : gs ≠ []) (hfl : es = false ∨ fs.getLast? ≠ some [])
    (hgl : es = false ∨ gs.getLast? ≠ some []) (h : fs.flatten = gs.flatten) :
    runFrames cd a fs es = runFrames cd a gs es := by
  rw [frames_eq_batch cd a fs es hf hfl, frames_eq_batch cd a gs es hg hgl, h]

/-! ## 2. the processor is shown exactly the messages -/

/-- The whole stream in one DATA frame: the processor is shown exactly the decompressed
messages, in order, end-of-stream on the last one only; the adapter is between messages after. -/
theorem batch_shows_messages (cd : Codec) (e : Enc) (ms : List GMsg) (es : Bool) (hne : ms ≠ [])
    (hok : ∀ m ∈ ms, m.ok cd e) :
    ∃ a', data cd (fresh e) (stream ms) es = ⟨expCalls ms es, some a'⟩ ∧ a'.atRest ∧ a'.enc = e :=
  data_stream cd es ms hne (fresh e) ⟨rfl, rfl⟩ hok

/-- Full statement: for every message sequence and every way of cutting its byte stream into
DATA frames with END_STREAM on the last frame, the processor is shown exactly the messages. -/
def FragmentationInvariant (cd : Codec) : Prop :=
  ∀ (e : Enc) (ms : List GMsg) (fs : List Bytes), (∀ m ∈ ms, m.ok cd e) → fs ≠ [] → fs.flatten = stream ms →
    (runFrames cd (fresh e) fs true).calls = expCalls ms true

/-- `FragmentationInvariant` for every cut whose END_STREAM frame is not empty (END_STREAM on
the last DATA frame of the data). Excluded: exactly the class of F11b. -/
theorem fragmentation_invariant_partial (cd : Codec) (e : Enc) (ms : List GMsg) (fs : List Bytes)
    (hok : ∀ m ∈ ms, m.ok cd e) (hne : fs ≠ []) (hfl : fs.flatten = stream ms)
    (hlast : fs.getLast? ≠ some []) :
    ∃ a', runFrames cd (fresh e) fs true = ⟨expCalls ms true, some a'⟩ ∧ a'.atRest ∧ a'.enc = e := by
  have hms : ms ≠ [] := by
    intro h
    have := flatten_ne_nil_of_getLast fs hne hlast
    rw [hfl, h] at this
    exact this rfl
  rw [frames_eq_batch cd _ fs true hne (Or.inr hlast), hfl]
  exact batch_shows_messages cd e ms true hms hok

/-- Frames that do not end the stream, cut in any way whatsoever (no side condition). -/
theorem fragmentation_invariant_open_stream (cd : Codec) (e : Enc) (ms : List GMsg) (fs : List Bytes)
    (hok : ∀ m ∈ ms, m.ok cd e) (hfl : fs.flatten = stream ms) :
    ∃ a', runFrames cd (fresh e) fs false = ⟨expCalls ms false, some a'⟩ ∧ a'.atRest ∧ a'.enc = e := by
  cases fs with
  | nil =>
    have : ms = [] := by
      cases ms with
      | nil => rfl
      | cons m ms => exact absurd hfl.symm (stream_ne_nil _ (by simp))
    subst this
    exact ⟨fresh e, by simp [runFrames, expCalls], ⟨rfl, rfl⟩, rfl⟩
  | cons f fs =>
    rw [frames_eq_batch cd _ (f :: fs) false (by simp) (Or.inl rfl), hfl]
    exact data_stream_false cd ms (fresh e) ⟨rfl, rfl⟩ hok

/-- The same in terms of cut sets: for all piece lengths `ks`. -/
theorem fragmentation_invariant_cuts_partial (cd : Codec) (e : Enc) (ms : List GMsg) (ks : List Nat)
    (hok : ∀ m ∈ ms, m.ok cd e) (hlast : (cut ks (stream ms)).getLast? ≠ some []) :
    (runFrames cd (fresh e) (cut ks (stream ms)) true).calls = expCalls ms true := by
  obtain ⟨a', h, _⟩ := fragmentation_invariant_partial cd e ms (cut ks (stream ms)) hok (cut_ne_nil _ _)
    (cut_flatten _ _) hlast
  rw [h]

/-- F11b: the code as it is violates the full statement, whatever the compression library:
the stream without messages ended by an empty DATA frame shows one (empty) message. -/
theorem fragmentation_invariant_counterexample (cd : Codec) : ¬ FragmentationInvariant cd := by
  intro h
  have := h .identity [] [[]] (by simp) (by simp) (by simp [stream])
  rw [show runFrames cd (fresh .identity) [[]] true = data cd (fresh .identity) [] true from rfl,
    data_nil_true cd (fresh .identity) ⟨rfl, rfl⟩] at this
  simp [expCalls] at this

/-! ## 3. an end-of-stream that carries no message adds no message (F11b: open finding) -/

/-- Full statement: after any frames carrying exactly `ms`, an empty DATA frame with END_STREAM
shows the processor nothing but `ms`. -/
def EmptyEosAddsNoMessage (cd : Codec) : Prop :=
  ∀ (e : Enc) (ms : List GMsg) (fs : List Bytes), (∀ m ∈ ms, m.ok cd e) → fs.flatten = stream ms →
    (runFrames cd (fresh e) (fs ++ [[]]) true).calls.map (·.data) = ms.map (·.plain)

/-- What the code does instead (for every input of this class): all messages are shown
correctly, none with end-of-stream, followed by exactly one spurious empty message that carries
the end-of-stream (and is re-emitted with the compressed flag of the previous message). -/
theorem empty_eos_frame_partial (cd : Codec) (e : Enc) (ms : List GMsg) (fs : List Bytes)
    (hok : ∀ m ∈ ms, m.ok cd e) (hfl : fs.flatten = stream ms) :
    ∃ a', runFrames cd (fresh e) (fs ++ [[]]) true
        = ⟨expCalls ms false ++ [⟨a'.compressed, [], true⟩], some a'⟩ ∧ a'.atRest := by
  obtain ⟨a', h1, h2, _⟩ := fragmentation_invariant_open_stream cd e ms fs hok hfl
  refine ⟨a', ?_, h2⟩
  cases fs with
  | nil =>
    simp only [runFrames] at h1
    have : a' = fresh e := by simpa using (congrArg Res.next h1).symm
    subst this
    have hms : expCalls ms false = [] := by simpa using (congrArg Res.calls h1).symm
    simp [runFrames, data_nil_true cd _ h2, hms]
  | cons f fs =>
    rw [runFrames_snoc cd _ (f :: fs) (by simp) [] true, h1]
    simp [Res.andThen, data_nil_true cd a' h2]

theorem empty_eos_adds_no_message_counterexample (cd : Codec) : ¬ EmptyEosAddsNoMessage cd := by
  intro h
  have := h .identity [] [] (by simp) (by simp [stream])
  rw [show runFrames cd (fresh .identity) ([] ++ [[]]) true = data cd (fresh .identity) [] true from rfl,
    data_nil_true cd (fresh .identity) ⟨rfl, rfl⟩] at this
  simp at this

/-- the same after one ordinary message `A`, cut anywhere (concrete witness replayed on the
implementation by `corpus/C11/directed.ops`): the processor is shown two messages. -/
theorem empty_eos_adds_no_message_counterexample_after_message (cd : Codec) :
    (runFrames cd (fresh .identity) [[0, 0, 0, 0, 1, 0x41], []] true).calls
      = [⟨false, [0x41], false⟩, ⟨false, [], true⟩] := by
  have hok : ∀ m ∈ [(⟨false, [0x41], [0x41]⟩ : GMsg)], m.ok cd .identity := by
    intro m hm; simp at hm; subst hm; simp [GMsg.ok, decode]
  obtain ⟨a', h, _⟩ := empty_eos_frame_partial cd .identity [⟨false, [0x41], [0x41]⟩] [[0, 0, 0, 0, 1, 0x41]] hok
    (by simp [stream, GMsg.frame, putBe32])
  have h' := congrArg Res.calls h
  have hn := congrArg Res.next h
  simp only [List.cons_append, List.nil_append] at h' hn
  rw [h']
  -- the flag re-used for the spurious message is the one of the message before it
  have hc : a'.compressed = false := by
    have h2 := fragmentation_invariant_open_stream cd .identity [⟨false, [0x41], [0x41]⟩] [[0, 0, 0, 0, 1, 0x41]] hok
      (by simp [stream, GMsg.frame, putBe32])
    simp only [runFrames] at hn h2
    obtain ⟨b', hb, hb2, _⟩ := h2
    simp only [Res.andThen, hb] at hn
    rw [data_nil_true cd b' hb2] at hn
    have hab : b' = a' := by simpa using hn
    subst hab
    unfold data at hb
    rw [loop_frame cd false _ ⟨false, [0x41], [0x41]⟩ [] rfl (by simp [Adapter.app, fresh, GMsg.frame, putBe32])
      (by simp [GMsg.ok, decode])] at hb
    have := congrArg Res.next hb
    simp [Adapter.afterDelivery] at this
    rw [← this]
  simp [expCalls, hc]

/-! ## 4. pass-through: the destination receives the same messages in the same wire format -/

/-- The DATA payloads reaching the sink, concatenated, are the byte stream of the same messages
with the same compressed flags, each payload recompressed by the emitter; uncompressed messages
are byte-identical. -/
theorem passthrough_sink_stream (cd : Codec) (e : Enc) (ms : List GMsg) (es : Bool) :
    (((expCalls ms es).map (emit cd e)).map Prod.fst).flatten = stream (ms.map (GMsg.reenc cd e))
    ∧ (ms.map (GMsg.reenc cd e)).map (·.compressed) = ms.map (·.compressed)
    ∧ (ms.map (GMsg.reenc cd e)).map (·.plain) = ms.map (·.plain)
    ∧ ∀ m ∈ ms, m.compressed = false → (m.reenc cd e).frame = (⟨false, m.plain, m.plain⟩ : GMsg).frame := by
  refine ⟨sink_payloads cd e ms es, by simp [GMsg.reenc], by simp [GMsg.reenc], ?_⟩
  intro m _ hc
  simp [GMsg.reenc, encode, hc, GMsg.frame]

/-- Wire round trip, end to end: cut the stream of `ms` in any way (END_STREAM on the last,
non-empty, frame), run adapter → pass-through processor → emitter; whatever reads the sink's DATA
with the same grammar and the same library (here: a fresh adapter of the next hop, in one piece or
— by `frames_eq_batch` — cut in any way) is shown exactly the same messages with the same
compressed flags. Needs the library round trip and that recompressed payloads fit a uint32. -/
theorem passthrough_wire_roundtrip (cd : Codec) (hrt : cd.RoundTrip) (e : Enc) (ms : List GMsg) (fs : List Bytes)
    (hok : ∀ m ∈ ms, m.ok cd e) (hne : fs ≠ []) (hfl : fs.flatten = stream ms)
    (hlast : fs.getLast? ≠ some [])
    (hlen : ∀ m ∈ ms, (encode cd e m.compressed m.plain).length < 4294967296) (es' : Bool) :
    ∃ b', data cd (fresh e) (((sinkFrames cd e (runFrames cd (fresh e) fs true)).map Prod.fst).flatten) es'
        = ⟨expCalls ms es', some b'⟩ := by
  obtain ⟨a', h, _, _⟩ := fragmentation_invariant_partial cd e ms fs hok hne hfl hlast
  have hms : ms ≠ [] := by
    intro h0
    have := flatten_ne_nil_of_getLast fs hne hlast
    rw [hfl, h0] at this
    exact this rfl
  rw [h]
  simp only [sinkFrames]
  rw [sink_payloads]
  obtain ⟨b', hb, _, _⟩ := batch_shows_messages cd e (ms.map (GMsg.reenc cd e)) es' (by simpa using hms)
    (by
      intro m hm
      obtain ⟨m0, hm0, rfl⟩ := List.mem_map.mp hm
      exact reenc_ok cd hrt e m0 (hlen m0 hm0))
  exact ⟨b', by rw [hb, expCalls_reenc]⟩

/-! ## 5. end-of-stream exactly once, after the last message -/

/-- The sink receives one DATA frame per message; END_STREAM is on the last one and on no other. -/
theorem eos_exactly_once_after_last (cd : Codec) (e : Enc) (ms : List GMsg) (fs : List Bytes)
    (hok : ∀ m ∈ ms, m.ok cd e) (hne : fs ≠ []) (hfl : fs.flatten = stream ms)
    (hlast : fs.getLast? ≠ some []) :
    (sinkFrames cd e (runFrames cd (fresh e) fs true)).map Prod.snd
      = List.replicate (ms.length - 1) false ++ [true]
    ∧ (sinkFrames cd e (runFrames cd (fresh e) fs true)).length = ms.length := by
  obtain ⟨a', h, _, _⟩ := fragmentation_invariant_partial cd e ms fs hok hne hfl hlast
  have hms : ms ≠ [] := by
    intro h0
    have := flatten_ne_nil_of_getLast fs hne hlast
    rw [hfl, h0] at this
    exact this rfl
  rw [h]
  exact ⟨sink_flags cd e ms true hms, by simp [sinkFrames, expCalls_length]⟩

/-- With the END_STREAM on a separate empty frame (F11b class) the end-of-stream still reaches
the sink exactly once and last — on the spurious message. -/
theorem eos_exactly_once_empty_frame_partial (cd : Codec) (e : Enc) (ms : List GMsg) (fs : List Bytes)
    (hok : ∀ m ∈ ms, m.ok cd e) (hfl : fs.flatten = stream ms) :
    (sinkFrames cd e (runFrames cd (fresh e) (fs ++ [[]]) true)).map Prod.snd
      = List.replicate ms.length false ++ [true] := by
  obtain ⟨a', h, _⟩ := empty_eos_frame_partial cd e ms fs hok hfl
  rw [h]
  cases ms with
  | nil => simp [sinkFrames, expCalls, emit]
  | cons m ms =>
    have := sink_flags cd e (m :: ms) false (by simp)
    simp only [sinkFrames, List.map_append]
    rw [this]
    simp [emit, List.replicate_succ']

/-! ## 6. streams that are not gRPC pass through untouched -/

/-- On a stream on which no header block with a gRPC `content-type` (`Grpc.isGrpcCT`) has been seen,
every HEADERS and DATA frame of either direction reaches its sink as it is, in order. -/
theorem non_grpc_untouched (cd : Codec) (fs : List Frame) (hf : ∀ f ∈ fs, f.announcesGrpc = false) :
    Stream.run cd {} fs = fs.map Frame.forwarded :=
  run_not_grpc cd {} fs rfl hf

/-- The two directions do not interfere: a DATA frame changes only its own adapter. -/
theorem directions_independent (cd : Codec) (s s' : Stream) (b : Bytes) (es : Bool) (evs : List Ev)
    (h : Stream.data cd s .c2s b es = (some s', evs)) : s'.s2c = s.s2c ∧ s'.enabled = s.enabled := by
  unfold Stream.data at h
  by_cases hen : s.enabled = false
  · simp [hen] at h; rw [← h.1]; simp
  · simp only [hen] at h
    cases hn : (Grpc.data cd (s.get .c2s) b es).next with
    | none => simp [hn] at h
    | some a' =>
      simp [hn] at h
      rw [← h.1]; simp [Stream.set]

/-! ## 7. Facts regenerated from the source on every check (finite tables: `decide`) -/

/-- adapter.Header compares a field NAME for equality (`==` or a `case` of a `switch` on the
name; in `adapter.Header` itself or in a helper it calls) with `content-type` and `grpc-encoding`,
and no field value with any string (the content-type value goes to the helper below, the
`grpc-encoding` value through the table) -/
theorem facts_grpc_header_tests : Generated.Grpc.headerTests =
    [("Name", "content-type"), ("Name", "grpc-encoding")] := by decide

/-- the content-type helper (`isGRPCContentType`): `strings.HasPrefix` with the one literal
`application/grpc`, then exact length or a following `'+'` / `';'` — as `Grpc.isGrpcCT` -/
theorem facts_grpc_content_type_test :
    Generated.Grpc.ctLiterals = ["application/grpc"] ∧ Generated.Grpc.ctCalls = ["strings.HasPrefix"]
    ∧ Generated.Grpc.ctSeparators = ["+", ";"] ∧ Generated.Grpc.ctExactLen = true := by decide

/-- The 32-bit arithmetic the model transcribes: `adapter.length` is a `uint32`; the one ordering
comparison with it widens both sides to `uint64` (no truncation: `Grpc.loop` compares naturals);
the prefix is read and written big-endian, the written value being `uint32(len(data))`
(`Grpc.putBe32`, `Grpc.u32`). -/
theorem facts_grpc_length_arith :
    Generated.Grpc.lengthFieldType = "uint32"
    ∧ Generated.Grpc.lengthCompares = ["uint64(a.buffer.Len()) < uint64(a.length)"]
    ∧ Generated.Grpc.prefixRead = ["binary.BigEndian", "&a.length"]
    ∧ Generated.Grpc.prefixWrite = ["binary.BigEndian", "uint32(len(data))"] := by decide

theorem facts_grpc_encoding_names : Generated.Grpc.encodingNames =
    [("identity", "Identity"), ("gzip", "Gzip"), ("deflate", "Deflate"), ("snappy", "Snappy")] := by decide

/-- the message prefix is 5 bytes (flag + big-endian uint32), as in the model -/
theorem facts_grpc_prefix_len : Generated.Grpc.prefixLen = 5 := by decide

/-- For every encoding the emitter writes the format the adapter reads (the structural side of
`Codec.RoundTrip`; F11c was snappy-framed in, snappy-block out). -/
theorem facts_grpc_codec_symmetric :
    Generated.Grpc.decodeCalls.map (fun r => (r.1, formatsOf r.2))
      = Generated.Grpc.encodeCalls.map (fun r => (r.1, formatsOf r.2))
    ∧ Generated.Grpc.decodeCalls.map (fun r => (r.1, formatsOf r.2))
      = [("Identity", []), ("Gzip", ["gzip"]), ("Deflate", ["deflate"]), ("Snappy", ["snappy-framed"])] := by
  decide

/-! ## Non-vacuity: the hypotheses above are satisfiable -/

/-- a library that stores data uncompressed satisfies the round-trip hypothesis -/
def storeCodec : Codec := ⟨fun _ x => x, fun _ x => some x⟩

example : storeCodec.RoundTrip := fun _ _ => rfl

/-- a two-message stream (one flagged compressed, one empty) satisfying `GMsg.ok`, cut into
three frames inside the prefix and inside the payload, last frame non-empty -/
example : ∃ (ms : List GMsg) (fs : List Bytes), (∀ m ∈ ms, m.ok storeCodec .gzip) ∧ fs ≠ [] ∧
    fs.flatten = stream ms ∧ fs.getLast? ≠ some [] ∧ ms.length = 2 :=
  ⟨[⟨true, [7, 8], [7, 8]⟩, ⟨false, [], []⟩], [[1, 0, 0], [0, 2, 7], [8, 0, 0, 0, 0, 0]],
    by intro m hm; simp at hm; rcases hm with h | h <;> subst h <;> simp [GMsg.ok, decode, storeCodec],
    by simp, by simp [stream, GMsg.frame, putBe32], by simp, rfl⟩

/-- instance: the zero-length message whose prefix ends the END_STREAM frame is delivered with
the end-of-stream (the input of F11a, fixed in the code and hence in the model) -/
example (cd : Codec) : (runFrames cd (fresh .identity) [[0, 0, 0], [0, 0]] true).calls = [⟨false, [], true⟩] := by
  obtain ⟨a', h, _⟩ := fragmentation_invariant_partial cd .identity [⟨false, [], []⟩] [[0, 0, 0], [0, 0]]
    (by intro m hm; simp at hm; subst hm; simp [GMsg.ok, decode]) (by simp)
    (by simp [stream, GMsg.frame, putBe32]) (by simp)
  rw [h]; simp [expCalls]

end Martian.Props.C11
