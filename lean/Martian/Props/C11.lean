/-! STUB — property C11 is not built yet. -/
