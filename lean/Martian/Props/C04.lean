/-! STUB — property C04 is not built yet. -/
