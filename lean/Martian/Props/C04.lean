import Martian.Props.C04.Facts
import Martian.Props.C04.Ends
import Martian.Props.C04.Lifetime
import Martian.Props.C04.Multi
import Martian.Lemmas.Tunnel
/-!
C04 — blind CONNECT tunnels are byte-transparent both ways and propagate end-of-stream.

All theorems are about `Tunnel.handleConnect` (Model/Tunnel.lean), for every connection kind
(every `io.Copy`/`bufio` dispatch path), every early-data and read-ahead string and every list of
events in either direction. A list of events is an arbitrary prefix of a longer script, so a
statement "for all `up`, `down`" is a statement about every quiescent point of every script.
Wall-clock promptness is outside the model (measured by the harness).
-/
namespace Martian.Props.C04
open Martian Martian.Tunnel

/-- Client → target: at every quiescent point the target has been written exactly the early data
(sent in the same segment as the CONNECT head) followed by everything the client has sent since. -/
theorem tunnel_transparent_up (cfg : Cfg) (st : Nat) (ahead early : Bytes) (up down : List Ev) :
    bytesOf (handleConnect cfg (.answered st ahead) early up down).toTarget = early ++ sentBy up := by
  simp [handleConnect, handleConnectWith, upPump, run_bytes]

/-- Target → client: after the response head the client has been written exactly the bytes the
proxy had read ahead with the downstream proxy's head, followed by everything sent since. -/
theorem tunnel_transparent_down (cfg : Cfg) (st : Nat) (ahead early : Bytes) (up down : List Ev) :
    bytesOf (handleConnect cfg (.answered st ahead) early up down).toClient = ahead ++ sentBy down := by
  cases ahead <;> simp [handleConnect, handleConnectWith, downPump, run_bytes]

/-- At every quiescent point neither pump holds a byte it has not written. -/
theorem nothing_retained_at_quiescence (cfg : Cfg) (early : Bytes) (up down : List Ev) :
    (upPump cfg early up).1.held = [] ∧ (downPump cfg down).1.held = [] := by
  simp [upPump, downPump, run_shape]

/-- What has been delivered at one quiescent point is a prefix of what is delivered at any later one
(nothing is taken back, reordered or duplicated by later traffic). -/
theorem delivery_only_grows (cfg : Cfg) (st : Nat) (ahead early : Bytes) (up more down : List Ev) :
    ∃ rest, bytesOf (handleConnect cfg (.answered st ahead) early (up ++ more) down).toTarget =
      bytesOf (handleConnect cfg (.answered st ahead) early up down).toTarget ++ rest := by
  rw [tunnel_transparent_up, tunnel_transparent_up]
  cases h : closes up with
  | false => exact ⟨sentBy more, by simp [sentBy_append_of_open _ _ h]⟩
  | true => exact ⟨[], by simp [sentBy_append_of_closed _ _ h]⟩

/-- When the client→target copy ends — because the client finished sending, because the client's
connection broke (reset, deadline) or because the target stopped taking bytes: `copySync` makes no
difference — the target is told so (CloseWrite) without any further input, exactly once, after every
byte that was forwarded before; nothing is written after it, and the only thing that may follow is
the final graceful `Close` once the other direction has ended too. -/
theorem end_propagates_to_target (cfg : Cfg) (st : Nat) (ahead early : Bytes) (up down : List Ev)
    (h : closes up = true) :
    ∃ ws : List Bytes,
      (handleConnect cfg (.answered st ahead) early up down).toTarget =
        ws.map .write ++ [.closeWrite] ++ releaseActs (closes down) .graceful ∧
      ws.flatten = early ++ sentBy up := by
  have h' : (endOf up).isSome = true := h
  cases early with
  | nil =>
    refine ⟨writesOf (readerWriteToLoop cfg.target cfg.client) up, ?_, ?_⟩
    · simp [handleConnect, handleConnectWith, upPump, downPump, run_shape, h', closeActs, optWrite, Pump.finished, closes]
    · simp [writesOf_flatten]
  | cons b bs =>
    refine ⟨(b :: bs) :: writesOf (readerWriteToLoop cfg.target cfg.client) up, ?_, ?_⟩
    · simp [handleConnect, handleConnectWith, upPump, downPump, run_shape, h', closeActs, optWrite, Pump.finished, closes]
    · simp [writesOf_flatten]

/-- The same for the target→client copy. -/
theorem end_propagates_to_client (cfg : Cfg) (st : Nat) (ahead early : Bytes) (up down : List Ev)
    (h : closes down = true) :
    ∃ ws : List Bytes,
      (handleConnect cfg (.answered st ahead) early up down).toClient =
        ws.map .write ++ [.closeWrite] ++ releaseActs (closes up) .graceful ∧
      ws.flatten = ahead ++ sentBy down := by
  have h' : (endOf down).isSome = true := h
  cases ahead with
  | nil =>
    refine ⟨writesOf (ioCopyLoop cfg.client cfg.target) down, ?_, ?_⟩
    · simp [handleConnect, handleConnectWith, upPump, downPump, run_shape, h', closeActs, optWrite, Pump.finished, closes]
    · simp [writesOf_flatten]
  | cons b bs =>
    refine ⟨(b :: bs) :: writesOf (ioCopyLoop cfg.client cfg.target) down, ?_, ?_⟩
    · simp [handleConnect, handleConnectWith, upPump, downPump, run_shape, h', closeActs, optWrite, Pump.finished, closes]
    · simp [writesOf_flatten]

/-- When the client finishes sending, the target is told so (CloseWrite) without any further input,
exactly once, and after every byte the client sent before. -/
theorem eof_propagates_to_target (cfg : Cfg) (st : Nat) (ahead early : Bytes) (up down : List Ev)
    (h : Ev.eof ∈ up) :
    ∃ ws : List Bytes,
      (handleConnect cfg (.answered st ahead) early up down).toTarget =
        ws.map .write ++ [.closeWrite] ++ releaseActs (closes down) .graceful ∧
      ws.flatten = early ++ sentBy up :=
  end_propagates_to_target cfg st ahead early up down (mem_eof_closes up h)

/-- When the target finishes sending, the client is told so without any further input, exactly
once, and after every byte the target sent before. -/
theorem eof_propagates_to_client (cfg : Cfg) (st : Nat) (ahead early : Bytes) (up down : List Ev)
    (h : Ev.eof ∈ down) :
    ∃ ws : List Bytes,
      (handleConnect cfg (.answered st ahead) early up down).toClient =
        ws.map .write ++ [.closeWrite] ++ releaseActs (closes up) .graceful ∧
      ws.flatten = ahead ++ sentBy down :=
  end_propagates_to_client cfg st ahead early up down (mem_eof_closes down h)

/-- No end is told "end of stream", and no connection is closed, while the copy from the other end
is still running (the other end has neither finished sending nor broken). -/
theorem no_spurious_eof (cfg : Cfg) (st : Nat) (ahead early : Bytes) (up down : List Ev) :
    (closes up = false →
      eofSeen (handleConnect cfg (.answered st ahead) early up down).toTarget = false ∧
      finalClose (handleConnect cfg (.answered st ahead) early up down).toTarget = none) ∧
    (closes down = false →
      eofSeen (handleConnect cfg (.answered st ahead) early up down).toClient = false ∧
      finalClose (handleConnect cfg (.answered st ahead) early up down).toClient = none) := by
  constructor
  · intro hc
    simp [handleConnect, handleConnectWith, upPump, downPump, run_shape, Pump.finished, closes,
      (show (endOf up).isSome = false from hc)]
  · intro hc
    simp [handleConnect, handleConnectWith, upPump, downPump, run_shape, Pump.finished, closes,
      (show (endOf down).isSome = false from hc)]

/-- On connections that do not break (only data and EOF events) "the copy has ended" is exactly
"the end finished sending": the statements above then read as in the property text. -/
theorem no_spurious_eof_clean (cfg : Cfg) (st : Nat) (ahead early : Bytes) (up down : List Ev)
    (hu : ∀ e ∈ up, e.ending = none ∨ e = .eof) (hd : ∀ e ∈ down, e.ending = none ∨ e = .eof) :
    (Ev.eof ∉ up → eofSeen (handleConnect cfg (.answered st ahead) early up down).toTarget = false) ∧
    (Ev.eof ∉ down → eofSeen (handleConnect cfg (.answered st ahead) early up down).toClient = false) := by
  have h := no_spurious_eof cfg st ahead early up down
  constructor
  · intro hn
    refine (h.1 ?_).1
    cases hx : closes up with
    | false => rfl
    | true => exact absurd ((closes_iff_mem_eof_of_clean up hu).1 hx) hn
  · intro hn
    refine (h.2 ?_).1
    cases hx : closes down with
    | false => rfl
    | true => exact absurd ((closes_iff_mem_eof_of_clean down hd).1 hx) hn

/-- A CONNECT whose dial fails is answered 502 with a Warning header — for every kind of dial
error (refused, timeout, EOF, DNS, context deadline, anything else): never 504 or another status —
nothing is tunnelled, and the connection keeps serving. -/
theorem dial_failure_502_warning (cfg : Cfg) (k : DialErr) (early : Bytes) (up down : List Ev) :
    let o := handleConnect cfg (.failed k) early up down
    o.status = 502 ∧ o.warning = true ∧ o.toTarget = [] ∧ o.toClient = [] ∧ o.kept = true ∧ o.released = false := by
  simp [handleConnect, handleConnectWith]

/-- The answer to a failed dial does not depend on the kind of error. -/
theorem dial_failure_answer_independent_of_error_kind (cfg : Cfg) (k k' : DialErr) (early : Bytes)
    (up down : List Ev) :
    handleConnect cfg (.failed k) early up down = handleConnect cfg (.failed k') early up down := by
  simp [handleConnect, handleConnectWith]

/-- The status the client is answered with is the one `connect` came back with: 200 for a direct
dial, the downstream proxy's own status otherwise — for every 2xx acknowledgement (200, 201, 202,
204, 299, …) the client gets that 2xx, and everything proved in this file about the tunnel holds
for it (all theorems are ∀ `st`). -/
theorem answer_status_relayed (cfg : Cfg) (st : Nat) (ahead early : Bytes) (up down : List Ev) :
    (handleConnect cfg (.answered st ahead) early up down).status = st := by
  simp [handleConnect, handleConnectWith]

/-- Every 2xx from the downstream proxy establishes the tunnel: the client is acknowledged with a
2xx, the bytes read ahead with the head go to the client first, early data goes to the target. -/
theorem every_2xx_establishes_the_tunnel (cfg : Cfg) (st : Nat) (ahead early : Bytes) (up down : List Ev)
    (h : (Connect.answered st ahead).established = true) :
    let o := handleConnect cfg (.answered st ahead) early up down
    o.status / 100 = 2 ∧ bytesOf o.toClient = ahead ++ sentBy down ∧ bytesOf o.toTarget = early ++ sentBy up := by
  have hs : st / 100 = 2 := by simpa [Connect.established] using h
  exact ⟨by simp [handleConnect, handleConnectWith, hs], tunnel_transparent_down cfg st ahead early up down,
    tunnel_transparent_up cfg st ahead early up down⟩

/-- A direct dial that succeeds is answered 200. -/
theorem dial_success_200 (cfg : Cfg) (early : Bytes) (up down : List Ev) :
    (handleConnect cfg (.answered 200 []) early up down).status = 200 := by
  simp [handleConnect, handleConnectWith]

/-- Both connections are released (handler returns, deferred Close of both) exactly when both
copies have ended (each end finished sending, or its connection broke) — no further input is
needed, and no connection is closed while one direction is still open. -/
theorem both_released_iff_both_ended (cfg : Cfg) (st : Nat) (ahead early : Bytes) (up down : List Ev) :
    (handleConnect cfg (.answered st ahead) early up down).released = true ↔ (closes up = true ∧ closes down = true) := by
  simp [handleConnect, handleConnectWith, upPump, downPump, run_shape, Pump.finished, closes]

/-- On connections that do not break: released exactly when both ends have finished sending. -/
theorem both_released_iff_both_finished (cfg : Cfg) (st : Nat) (ahead early : Bytes) (up down : List Ev)
    (hu : ∀ e ∈ up, e.ending = none ∨ e = .eof) (hd : ∀ e ∈ down, e.ending = none ∨ e = .eof) :
    (handleConnect cfg (.answered st ahead) early up down).released = true ↔ (Ev.eof ∈ up ∧ Ev.eof ∈ down) := by
  rw [both_released_iff_both_ended, closes_iff_mem_eof_of_clean up hu, closes_iff_mem_eof_of_clean down hd]

/-! ### Regression statements about the previous form of the client-bound pump
(`io.Copy(brw, cconn)` on a client connection that is not an `io.ReaderFrom`) -/

/-- Whatever the target writes stays in the 4096-byte `bufio.Writer` as long as less than 4096 bytes
have accumulated: nothing reaches the client at quiescence. -/
theorem legacy_buffered_pump_retains (bs : Bytes) (h : bs.length < 4096) :
    bytesOf (Legacy.bufferedRun 4096 (.fresh []) [.data bs]).2 = [] ∧
    (Legacy.bufferedRun 4096 (.fresh []) [.data bs]).1.held = bs := by
  simp [Legacy.bufferedRun, Legacy.bufferedStep, Pump.fresh, Pump.finished, Ev.ending, Ev.accepted,
    Nat.div_eq_of_lt h, bytesOf]

/-- Concrete witness (test): the target writes 10 bytes and keeps the tunnel open. -/
theorem legacy_buffered_pump_counterexample :
    bytesOf (Legacy.bufferedRun 4096 (.fresh []) [.data (List.replicate 10 7)]).2 ≠ List.replicate 10 7 := by
  decide

/-! ### Non-vacuity -/

def tcp : ConnKind := ⟨true, true⟩
def wrapped : ConnKind := ⟨false, false⟩

/-- test: the hypotheses of the EOF theorems are satisfiable, and the four dispatch paths are all reachable -/
example : Ev.eof ∈ [Ev.data [1, 2], Ev.eof] := by decide
example : readerWriteToLoop tcp tcp = .splice ∧ readerWriteToLoop wrapped tcp = .copy32k ∧
    readerWriteToLoop tcp wrapped = .copy32k ∧ readerWriteToLoop wrapped wrapped = .bufio4k := by decide
/-- test: one concrete run — early data, traffic both ways, client finishes first -/
example :
    let o := handleConnect ⟨wrapped, tcp⟩ (.answered 200 [9]) [1, 2] [.data [3], .eof] [.data [4, 5]]
    bytesOf o.toTarget = [1, 2, 3] ∧ eofSeen o.toTarget = true ∧
    bytesOf o.toClient = [9, 4, 5] ∧ eofSeen o.toClient = false ∧ o.released = false := by
  simp [tunnel_transparent_up, tunnel_transparent_down, sentBy]
  simp [handleConnect, handleConnectWith, upPump, downPump, run_shape, closes, endOf, Ev.ending, Ev.accepted,
    closeActs, optWrite, eofSeen, writesOf, releaseActs, Pump.finished]

end Martian.Props.C04
