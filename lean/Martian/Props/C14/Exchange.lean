import Martian.Lemmas.HttpSpec
/-!
C14, group "one exchange through a proxy using the stack" (`exchange` = `Proxy.handle` around
`stackReq` / `stackRes`): what the origin is handed and how often it is contacted, what the client
gets. The harness compares the same record with a real `martian.Proxy` (op `e2e`).
-/
namespace Martian.Props.C14
open Martian Martian.Go Martian.Go.Header Martian.HttpSpec

/-- The origin is contacted at most once, and exactly when the request side did not skip the
round trip; what it is handed is the header the request side produced. -/
theorem exchange_calls (env : Env) (h : Header) (st : Nat) (oh : Header) :
    (exchange env h st oh).calls = (if (stackReq env h).1.skip then 0 else 1) ∧
    (exchange env h st oh).seen = (stackReq env h).1.hdr ∧
    (exchange env h st oh).reqErrs = (stackReq env h).2 := by
  unfold exchange sentUpstream
  cases hsk : (stackReq env h).1.skip <;> simp [hsk]

/-- A request whose Via chain (not Connection-listed) names this instance is never sent upstream
and the client is answered 400 — whatever the origin would have said and whatever else is wrong
with the request. -/
theorem exchange_loop_never_upstream_400 (env : Env) (h : Header) (st : Nat) (oh : Header)
    (hv : kVia ∉ removedKeys h) (hn : hasLoop (join (index h kVia) commaSp) (tag env) = true) :
    (exchange env h st oh).calls = 0 ∧ (exchange env h st oh).status = 400 ∧
    Err.loop ∈ (exchange env h st oh).reqErrs ∧ (exchange env h st oh).resErrs = [.loop] := by
  have hpv : hasLoop (join (index (preVia env h) kVia) commaSp) (tag env) = true := by
    rw [preVia_index_other kVia_notin_fwdKeys, if_neg hv, (framing_other h).1 kVia kVia_ne_kCL]; exact hn
  rcases stackReq_cases env h with ⟨_, hr⟩ | ⟨hl, _⟩
  · unfold exchange sentUpstream
    rw [hr]
    simp [stackRes_unfold]
  · rw [hpv] at hl; exact Bool.noConfusion hl

/-- A request in which no loop is seen goes upstream exactly once, and the client gets the
origin's status with the origin's header minus its hop-by-hop headers, everything else untouched. -/
theorem exchange_forwarded (env : Env) (h : Header) (st : Nat) (oh : Header)
    (hn : hasLoop (join (index (preVia env h) kVia) commaSp) (tag env) = false) :
    (exchange env h st oh).calls = 1 ∧ (exchange env h st oh).status = st ∧
    (exchange env h st oh).resHdr = removeHopByHop oh ∧ (exchange env h st oh).resErrs = [] ∧
    index (exchange env h st oh).seen kVia = [viaLine env (index (preVia env h) kVia)] := by
  rcases stackReq_cases env h with ⟨hl, _⟩ | ⟨_, hr⟩
  · rw [hn] at hl; exact Bool.noConfusion hl
  · unfold exchange sentUpstream
    rw [hr]
    simp [stackRes_unfold, index_set, canon_kVia]

/-- The header the client gets: the hop-by-hop-free part of the origin's header, or of the empty
header of the synthesised response when the round trip was skipped. -/
theorem exchange_resHdr (env : Env) (h : Header) (st : Nat) (oh : Header) :
    (exchange env h st oh).resHdr = removeHopByHop (if (stackReq env h).1.skip then [] else oh) := by
  unfold exchange sentUpstream
  simp only [stackRes_unfold]
  cases (stackReq env h).1.skip <;> cases (stackReq env h).1.loopKey <;> rfl

/-- Whatever happens to the request, the client never gets a hop-by-hop header of the origin's
response (fixed or named in the response's own Connection header), and on a forwarded exchange every
other header of the response reaches it untouched. -/
theorem exchange_response_no_hop_by_hop (env : Env) (h : Header) (st : Nat) (oh : Header) :
    (∀ k ∈ removedKeys oh, k ∉ keys (exchange env h st oh).resHdr) ∧
    ((exchange env h st oh).calls = 1 → ∀ k, k ∉ removedKeys oh → index (exchange env h st oh).resHdr k = index oh k) := by
  have hc := (exchange_calls env h st oh).1
  rw [exchange_resHdr]
  cases hs : (stackReq env h).1.skip with
  | true =>
    rw [hs] at hc
    refine ⟨fun k _ => ?_, fun h1 => ?_⟩
    · simp [removeHopByHop_nil, keys]
    · rw [hc] at h1; cases h1
  | false =>
    refine ⟨fun k hk => ?_, fun _ k hk => ?_⟩
    · exact removed_not_in_keys hk
    · exact kept_index hk

def exEnv : Env :=
  { major := 1, minor := 1, name := strBytes "martian", boundary := strBytes "00", scheme := strBytes "http",
    host := strBytes "example.com", url := strBytes "http://example.com/", remote := strBytes "192.0.2.1:4711" }
def exLoop : Header := [(kCL, [strBytes "5", strBytes "6"]), (kVia, [strBytes "1.1 martian-00"])]
def exPlain : Header := [(kVia, [strBytes "1.1 fred"])]
def exOrigin : Header := [(kConnection, [strBytes "close"]), (strBytes "Etag", [strBytes "x"])]

/-- Test (evaluation): the loop witness with a framing error on top is stopped; a plain request is
forwarded and the hypotheses of the two theorems above are satisfiable. -/
example :
    (exchange exEnv exLoop 200 []).calls = 0 ∧ (exchange exEnv exLoop 200 []).status = 400 ∧
    kVia ∉ removedKeys exLoop ∧ hasLoop (join (index exLoop kVia) commaSp) (tag exEnv) = true ∧
    (exchange exEnv exPlain 404 exOrigin).calls = 1 ∧ (exchange exEnv exPlain 404 exOrigin).status = 404 ∧
    keys (exchange exEnv exPlain 404 exOrigin).resHdr = [strBytes "Etag"] ∧
    hasLoop (join (index (preVia exEnv exPlain) kVia) commaSp) (tag exEnv) = false := by
  decide

end Martian.Props.C14
