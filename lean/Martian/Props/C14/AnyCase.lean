import Martian.Lemmas.HttpSpec
/-!
C14, group "names in any letter case": the hop-by-hop clause read on header NAMES rather than on
canonical keys, for headers whose keys are as net/http parses them (valid tokens in canonical
spelling); what happens to keys written into the map directly in another spelling; the
de-facto hop-by-hop header `Proxy-Connection`.
-/
namespace Martian.Props.C14
open Martian Martian.Go Martian.Go.Header Martian.HttpSpec

/-- Keys as `net/http` (`textproto.ReadMIMEHeader`) produces them: tokens, canonical spelling. -/
def ParsedKeys (h : Header) : Prop := ∀ k ∈ keys h, k.all validHeaderFieldByte = true ∧ canonKey k = k

/-- No header whose NAME equals, in any letter case, a hop-by-hop field of the HTTP
specification survives hop-by-hop removal. -/
theorem hbh_no_rfc_name_survives_any_case (h : Header) (hp : ParsedKeys h) :
    ∀ k ∈ keys (removeHopByHop h), ∀ n ∈ rfcHopByHop, toLower k ≠ toLower n := by
  intro k hk n hn heq
  have hall : ∀ n ∈ rfcHopByHop, n.all validHeaderFieldByte = true := by decide
  have hv := hall n hn
  have hc := canonKey_eq_of_toLower_eq n k hv heq
  rw [(hp k (keys_removeHopByHop_subset hk)).2] at hc
  have hfix : ∀ n ∈ rfcHopByHop, canonKey n ∈ fixedList.map canonKey := by decide
  have hr : k ∈ removedKeys h := by
    rw [hc]
    simp only [removedKeys, List.map_append, List.mem_append]
    exact Or.inr (hfix n hn)
  exact removed_not_in_keys hr hk

/-- No header whose NAME equals, in any letter case and with any white space around the token,
a name listed in any `Connection` line survives hop-by-hop removal. -/
theorem hbh_no_connection_listed_name_survives_any_case (h : Header) (hp : ParsedKeys h) :
    ∀ k ∈ keys (removeHopByHop h), ∀ line ∈ index h kConnection, ∀ tok ∈ split line comma,
      toLower k ≠ toLower (trimSpace tok) := by
  intro k hk line hl tok ht heq
  have hkp := hp k (keys_removeHopByHop_subset hk)
  have hc := canonKey_eq_of_toLower_eq k (trimSpace tok) hkp.1 heq.symm
  rw [hkp.2] at hc
  have hr : k ∈ removedKeys h := by
    simp only [removedKeys, List.map_append, List.mem_append, List.mem_map]
    refine Or.inl ⟨canonKey (trimSpace tok), ?_, by rw [canonKey_idem]; exact hc⟩
    simp only [connTokens, List.mem_flatMap, List.mem_map]
    exact ⟨line, hl, tok, ht, rfl⟩
  exact removed_not_in_keys hr hk

/-- The same two statements for the request side of the stack (every outcome), for names the
stack does not stamp itself. -/
theorem stack_no_hop_by_hop_name_survives_any_case (env : Env) (h : Header) (hp : ParsedKeys h) :
    ∀ k ∈ keys (stackReq env h).1.hdr, k ∉ stampedKeys →
      (∀ n ∈ rfcHopByHop, toLower k ≠ toLower n) ∧
      (∀ line ∈ index h kConnection, ∀ tok ∈ split line comma, toLower k ≠ toLower (trimSpace tok)) := by
  intro k hk hs
  have hst : k ≠ kVia ∧ k ∉ fwdKeys := by
    simp only [stampedKeys, fwdKeys, List.mem_cons, List.not_mem_nil, or_false, not_or] at hs ⊢
    exact ⟨hs.1, hs.2⟩
  have hpre : k ∈ keys (preVia env h) := by
    rcases stackReq_cases env h with ⟨_, hr⟩ | ⟨_, hr⟩
    · rw [hr] at hk; exact hk
    · rw [hr] at hk
      rcases mem_keys_set.mp hk with h1 | h1
      · rw [canon_kVia] at h1; exact absurd h1 hst.1
      · exact h1
  have hin : k ∈ keys h ∧ k ∉ removedKeys h := by
    rcases preVia_keys hpre with h1 | h1
    · exact absurd h1 hst.2
    · exact h1
  have hsurv : k ∈ keys (removeHopByHop h) := by
    rw [removeHopByHop_eq_filter]
    simp only [keys, List.mem_map, List.mem_filter] at hin ⊢
    obtain ⟨⟨e, he, rfl⟩, hnr⟩ := hin
    exact ⟨e, ⟨he, by simpa using hnr⟩, rfl⟩
  exact ⟨hbh_no_rfc_name_survives_any_case h hp k hsurv, hbh_no_connection_listed_name_survives_any_case h hp k hsurv⟩

/-- Outside `ParsedKeys` the name-level statement is FALSE (concrete witnesses, evaluated): a key
written into the map directly in a non-canonical spelling (`keep-alive`, or `x-custom` named in
`Connection`) is neither seen by `header["Connection"]` nor deleted by `Header.Del`, so it
survives. net/http never produces such keys when it parses a message; only a modifier writing the
map directly can. -/
theorem hbh_noncanonical_key_counterexample :
    keys (removeHopByHop [(strBytes "keep-alive", [strBytes "timeout=5"])]) = [strBytes "keep-alive"] ∧
    keys (removeHopByHop [(kConnection, [strBytes "x-custom"]), (strBytes "x-custom", [strBytes "1"])]) = [strBytes "x-custom"] ∧
    keys (removeHopByHop [(strBytes "connection", [strBytes "X-Custom"]), (strBytes "X-Custom", [strBytes "1"])]) =
      [strBytes "connection", strBytes "X-Custom"] := by decide

/-- `Proxy-Connection` (not in the RFC list; the source calls it "non-standard, but required for
HTTP/2") is removed like the fixed ones … -/
theorem proxy_connection_removed (h : Header) : strBytes "Proxy-Connection" ∉ keys (removeHopByHop h) := by
  apply removed_not_in_keys
  simp only [removedKeys, List.map_append, List.mem_append]
  exact Or.inr (by decide)

/-- … but its value is NOT read as a list of connection options: a header named only there stays
(concrete witness, evaluated). -/
theorem proxy_connection_tokens_not_options :
    keys (removeHopByHop [(strBytes "Proxy-Connection", [strBytes "keep-alive, X-Custom"]), (strBytes "X-Custom", [strBytes "1"]),
      (strBytes "Keep-Alive", [strBytes "timeout=5, max=100"])]) = [strBytes "X-Custom"] := by decide

/-- Removal is VALUE-INDEPENDENT: which keys survive depends only on the set of keys and on the
`Connection` lines — never on what a hop-by-hop header carries (`TE: trailers`, `Upgrade: websocket`,
`Proxy-Connection: keep-alive`, … are removed like any placeholder). `hbh_removed`, `hbh_fixed_removed`
and the stack theorems already quantify over every header, hence over every value; this states it
as an equation between two headers that differ in values only. -/
theorem hbh_value_independent (h h' : Header) (hk : keys h = keys h')
    (hc : index h kConnection = index h' kConnection) : keys (removeHopByHop h) = keys (removeHopByHop h') := by
  have hr : removedKeys h = removedKeys h' := by unfold removedKeys connTokens; rw [hc]
  have hf : ∀ (g : Header) (ks : List Bytes), keys (g.filter (fun e => !ks.contains e.1)) = (keys g).filter (fun k => !ks.contains k) := by
    intro g ks
    unfold keys
    rw [List.filter_map]
    rfl
  rw [removeHopByHop_eq_filter, removeHopByHop_eq_filter, hf, hf, hk, hr]

/-- Test (evaluation): `TE: trailers`, also Connection-listed, in three spellings of the value, does
not reach the other side of the request stack; nor do the other fixed headers with real-world values. -/
theorem realistic_values_removed :
    let env : Env := ⟨1, 1, strBytes "martian", strBytes "00", strBytes "http", strBytes "h", strBytes "http://h/", strBytes "192.0.2.1:4711"⟩
    keys (stackReq env [(strBytes "Te", [strBytes "trailers"])]).1.hdr = [kXFProto, kXFHost, kXFUrl, kXFF, kVia] ∧
    keys (stackReq env [(kConnection, [strBytes "TE"]), (strBytes "Te", [strBytes "deflate, Trailers", strBytes "TRAILERS"])]).1.hdr =
      [kXFProto, kXFHost, kXFUrl, kXFF, kVia] ∧
    keys (removeHopByHop [(strBytes "Upgrade", [strBytes "websocket"]), (strBytes "Proxy-Connection", [strBytes "keep-alive"]),
      (strBytes "Keep-Alive", [strBytes "timeout=5, max=100"]), (strBytes "Trailer", [strBytes "X-Foo"]),
      (strBytes "Proxy-Authorization", [strBytes "Basic dXNlcjpwYXNz"]), (kTE, [strBytes "gzip, chunked"])]) = [] := by
  decide

/-- STATUS-INDEPENDENT: on the response side hop-by-hop removal happens for EVERY status code
(101 Switching Protocols, 1xx, 204, 304, 407, 426, 5xx, unassigned codes alike) — the modifier alone and
the stack with or without a loop: the header that comes out is `removeHopByHop` of the header that
went in, whatever the status, the status itself is untouched by the hop-by-hop modifier, and no
removed key survives. -/
theorem response_hop_by_hop_any_status (st : Nat) (key : Bool) (h : Header) :
    (hbhRes key { hdr := h, status := st }).1 = { hdr := removeHopByHop h, status := st } ∧
    (stackRes key { hdr := h, status := st }).1.hdr = removeHopByHop h ∧
    (∀ k ∈ removedKeys h, k ∉ keys (stackRes key { hdr := h, status := st }).1.hdr) ∧
    (∀ st', (stackRes key { hdr := h, status := st' }).1.hdr = (stackRes key { hdr := h, status := st }).1.hdr) := by
  have hs : ∀ s, (stackRes key { hdr := h, status := s }).1.hdr = removeHopByHop h := by
    intro s; rw [stackRes_unfold]; cases key <;> rfl
  refine ⟨rfl, hs st, ?_, fun st' => by rw [hs st', hs st]⟩
  intro k hk
  rw [hs st]
  exact removed_not_in_keys hk

/-- Test (evaluation): a `101 Switching Protocols` response loses `Connection`, `Upgrade`, `Keep-Alive`
and the Connection-named `Sec-Websocket-Accept`; `Etag` stays. -/
example : keys (stackRes false { hdr := [(kConnection, [strBytes "Upgrade, Sec-WebSocket-Accept"]), (strBytes "Upgrade", [strBytes "websocket"]),
    (strBytes "Sec-Websocket-Accept", [strBytes "x"]), (strBytes "Keep-Alive", [strBytes "timeout=5"]), (strBytes "Etag", [strBytes "e"])], status := 101 }).1.hdr
    = [strBytes "Etag"] := by decide

/-- `ParsedKeys` is satisfiable by a header with oddly cased Connection tokens. -/
example : ParsedKeys [(kConnection, [strBytes " KEEP-alive ,x-CUSTOM"]), (strBytes "X-Custom", [strBytes "1"]), (strBytes "Keep-Alive", [strBytes "timeout=5"])] := by
  intro k hk
  revert k
  decide

end Martian.Props.C14
