import Martian.Lemmas.HttpSpec
/-!
C14, group "on re-split elements": the "appended after any existing ones" clauses of Via and
X-Forwarded-For stated on the comma-separated ELEMENTS of the written line (what a downstream
parser sees), not only on the joined line; idempotence of hop-by-hop removal.
-/
namespace Martian.Props.C14
open Martian Martian.Go Martian.Go.Header Martian.HttpSpec

/-- Via, on elements: the forwarded request's single Via line splits into the elements of the
chain the via modifier saw followed by exactly ONE element, this proxy's entry. -/
theorem via_elements_appended_last (env : Env) (old : List Bytes) (hc : comma ∉ viaEntry env) :
    split (viaLine env old) comma =
      if join old commaSp = [] then [viaEntry env] else split (join old commaSp) comma ++ [32 :: viaEntry env] := by
  unfold viaLine
  split
  · exact split_no_sep _ _ hc
  · exact appended_elements _ _ hc

/-- X-Forwarded-For, on elements: the existing elements, then exactly one: the client address. -/
theorem xff_elements_appended_last (env : Env) (old : List Bytes) (hc : comma ∉ clientOf env.remote) :
    split (xffLine env old) comma =
      if join old commaSp = [] then [clientOf env.remote] else split (join old commaSp) comma ++ [32 :: clientOf env.remote] := by
  unfold xffLine
  split
  · exact split_no_sep _ _ hc
  · exact appended_elements _ _ hc

/-- Hop-by-hop removal is idempotent: a second pass (a second compliant hop) changes nothing. -/
theorem hbh_idempotent (h : Header) : removeHopByHop (removeHopByHop h) = removeHopByHop h := by
  have hconn : index (removeHopByHop h) kConnection = [] := by
    apply removed_index
    simp only [removedKeys, List.map_append, List.mem_append]
    exact Or.inr (by decide)
  have hrk : removedKeys (removeHopByHop h) = fixedList.map canonKey := by
    simp [removedKeys, connTokens, hconn]
  rw [removeHopByHop_eq_filter (removeHopByHop h), hrk]
  apply List.filter_eq_self.mpr
  intro e he
  have hk : e.1 ∈ keys (removeHopByHop h) := by simp only [keys, List.mem_map]; exact ⟨e, he, rfl⟩
  have : e.1 ∉ fixedList.map canonKey := by
    intro hm
    exact removed_not_in_keys (h := h) (by simp only [removedKeys, List.map_append, List.mem_append]; exact Or.inr hm) hk
  simpa using this

/-- The hypotheses are satisfiable; the element view on a concrete chain. -/
example :
    let env : Env := ⟨1, 1, strBytes "martian", strBytes "00", strBytes "http", strBytes "h", strBytes "http://h/", strBytes "192.0.2.1:4711"⟩
    comma ∉ viaEntry env ∧ comma ∉ clientOf env.remote ∧
    split (viaLine env [strBytes "1.0 fred", strBytes "1.1 p"]) comma = [strBytes "1.0 fred", strBytes " 1.1 p", strBytes " 1.1 martian-00"] := by
  decide

end Martian.Props.C14
