import Martian.Lemmas.HttpSpec
/-!
C14, group "on re-split elements": the "appended after any existing ones" clauses of Via and
X-Forwarded-For stated on the comma-separated ELEMENTS of the written line (what a downstream
parser sees), not only on the joined line; idempotence of hop-by-hop removal.
-/
namespace Martian.Props.C14
open Martian Martian.Go Martian.Go.Header Martian.HttpSpec

/-- `strings.Split` distributes over a separator: the pieces of `a ++ sep ++ b` are the pieces of
`a` followed by the pieces of `b`. -/
theorem splitAux_append_sep (sep : UInt8) (b : Bytes) : ∀ (a cur : Bytes),
    splitAux sep (a ++ sep :: b) cur = splitAux sep a cur ++ splitAux sep b [] := by
  intro a
  induction a with
  | nil => intro cur; simp [splitAux]
  | cons c r ih =>
    intro cur
    by_cases hc : c = sep
    · subst hc; simp [splitAux, ih]
    · have : (c == sep) = false := by simpa using hc
      simp [splitAux, this, ih]

theorem split_append_sep (a b : Bytes) (sep : UInt8) : split (a ++ sep :: b) sep = split a sep ++ split b sep :=
  splitAux_append_sep sep b a []

theorem splitAux_no_sep (sep : UInt8) : ∀ (a cur : Bytes), sep ∉ a → splitAux sep a cur = [cur.reverse ++ a] := by
  intro a
  induction a with
  | nil => intro cur _; simp [splitAux]
  | cons c r ih =>
    intro cur hn
    have hc : ¬ c = sep := fun h => hn (by simp [h])
    have hr : sep ∉ r := fun h => hn (by simp [h])
    have : (c == sep) = false := by simpa using hc
    simp [splitAux, this, ih (c :: cur) hr]

theorem split_no_sep (a : Bytes) (sep : UInt8) (hn : sep ∉ a) : split a sep = [a] := by
  show splitAux sep a [] = [a]
  simpa using splitAux_no_sep sep a [] hn

/-- A line written as "existing chain, entry": its comma-separated elements are the elements of
the existing chain, unchanged and in order, followed by exactly one more — the entry behind the
space of ", ". -/
theorem appended_elements (chain entry : Bytes) (hc : comma ∉ entry) :
    split (chain ++ commaSp ++ entry) comma = split chain comma ++ [32 :: entry] := by
  have h32 : comma ∉ (32 :: entry) := by
    intro hm
    rcases List.mem_cons.mp hm with h | h
    · exact absurd h (by decide)
    · exact hc h
  have : chain ++ commaSp ++ entry = chain ++ comma :: (32 :: entry) := by
    simp [commaSp, comma, strBytes, List.append_assoc]
  rw [this, split_append_sep, split_no_sep _ _ h32]

/-- Via, on elements: the forwarded request's single Via line splits into the elements of the
chain the via modifier saw followed by exactly ONE element, this proxy's entry. -/
theorem via_elements_appended_last (env : Env) (old : List Bytes) (hc : comma ∉ viaEntry env) :
    split (viaLine env old) comma =
      if join old commaSp = [] then [viaEntry env] else split (join old commaSp) comma ++ [32 :: viaEntry env] := by
  unfold viaLine
  split
  · exact split_no_sep _ _ hc
  · exact appended_elements _ _ hc

/-- X-Forwarded-For, on elements: the existing elements, then exactly one: the client address. -/
theorem xff_elements_appended_last (env : Env) (old : List Bytes) (hc : comma ∉ clientOf env.remote) :
    split (xffLine env old) comma =
      if join old commaSp = [] then [clientOf env.remote] else split (join old commaSp) comma ++ [32 :: clientOf env.remote] := by
  unfold xffLine
  split
  · exact split_no_sep _ _ hc
  · exact appended_elements _ _ hc

theorem digit_bounds (c : Char) (hd : c.isDigit = true) : 48 ≤ c.toNat ∧ c.toNat ≤ 57 := by
  unfold Char.isDigit at hd
  simp only [Bool.and_eq_true, decide_eq_true_eq, ge_iff_le] at hd
  exact ⟨UInt32.le_iff_toNat_le.mp hd.1, UInt32.le_iff_toNat_le.mp hd.2⟩

/-- Decimal digits contain no comma. -/
theorem natDigits_no_comma (n : Nat) : comma ∉ natDigits n := by
  unfold natDigits
  intro hm
  obtain ⟨c, hc, he⟩ := List.mem_map.mp hm
  have hb := digit_bounds c (Nat.isDigit_of_mem_toDigits (by decide) (by decide) hc)
  have h44 : (UInt8.ofNat c.toNat).toNat = 44 := by rw [he]; rfl
  rw [UInt8.toNat_ofNat'] at h44
  omega

/-- The proxy's own Via entry contains no comma when its name and boundary contain none (the
protocol version is digits and a dot). -/
theorem viaEntry_no_comma (env : Env) (hn : comma ∉ env.name) (hb : comma ∉ env.boundary) : comma ∉ viaEntry env := by
  have hd : ∀ n, comma ∉ natDigits n := natDigits_no_comma
  unfold viaEntry tag
  simp only [List.mem_append, List.mem_cons, List.not_mem_nil, not_or]
  refine ⟨⟨⟨⟨hd _, by decide⟩, hd _⟩, by decide⟩, ⟨hn, by decide⟩, hb⟩

/-- Hop-by-hop removal is idempotent: a second pass (a second compliant hop) changes nothing. -/
theorem hbh_idempotent (h : Header) : removeHopByHop (removeHopByHop h) = removeHopByHop h := by
  have hconn : index (removeHopByHop h) kConnection = [] := by
    apply removed_index
    simp only [removedKeys, List.map_append, List.mem_append]
    exact Or.inr (by decide)
  have hrk : removedKeys (removeHopByHop h) = fixedList.map canonKey := by
    simp [removedKeys, connTokens, hconn]
  rw [removeHopByHop_eq_filter (removeHopByHop h), hrk]
  apply List.filter_eq_self.mpr
  intro e he
  have hk : e.1 ∈ keys (removeHopByHop h) := by simp only [keys, List.mem_map]; exact ⟨e, he, rfl⟩
  have : e.1 ∉ fixedList.map canonKey := by
    intro hm
    exact removed_not_in_keys (h := h) (by simp only [removedKeys, List.map_append, List.mem_append]; exact Or.inr hm) hk
  simpa using this

/-- The hypotheses are satisfiable; the element view on a concrete chain. -/
example :
    let env : Env := ⟨1, 1, strBytes "martian", strBytes "00", strBytes "http", strBytes "h", strBytes "http://h/", strBytes "192.0.2.1:4711"⟩
    comma ∉ viaEntry env ∧ comma ∉ clientOf env.remote ∧
    split (viaLine env [strBytes "1.0 fred", strBytes "1.1 p"]) comma = [strBytes "1.0 fred", strBytes " 1.1 p", strBytes " 1.1 martian-00"] := by
  decide

end Martian.Props.C14
