import Martian.Lemmas.Shutdown
/-!
C07 (round 5) — exchanges whose REQUEST BODY is incomplete when the response is ready (a client that
announced `Content-Length: N` and sent only part, an `Expect: 100-continue` client holding its body back, a
chunked upload paused mid-chunk). `readRequest` returns as soon as the head is parsed (`gotReqOpen`); the body
is read lazily, by whoever reads `req.Body`. `handle` itself never reads it before the response is written:
the only place is its deferred `req.Body.Close()`, which runs AFTER `res.Write`/`Flush` (`drainBody`). So the
response of such an exchange does not wait for the client, shutdown or not; what waits for the client (or for
its going away) is only the handler's return — and `Close()` with it, like for any peer-blocked handler.
-/
namespace Martian.Props.C07
open Martian.Shutdown

/-- The proxy waits for the rest of a request body only after the response has been written completely:
the only step that enters `drainBody` is `writeEnd`, which counts the response as complete. -/
theorem request_body_tail_awaited_only_after_response {c m r b : Bool} {h h' : Handler} {l : HL}
    (hs : hstep c m r h l = some h') (hp' : h'.pc = .drainBody b) :
    l = .writeEnd ∧ h'.completed = h.completed + 1 ∧ h.pc = .writing b ∧ h.bodyOpen = true := by
  cases l <;> cases hpc : h.pc <;> simp [hstep, hpc, Pc.readable] at hs
  all_goals (first | (obtain ⟨_, hs⟩ := hs; subst hs) | (subst hs))
  all_goals (first
    | (simp at hp'; done)
    | (split at hp' <;> simp at hp'; done)
    | (cases c <;> simp at hp'; done)
    | (rename_i b0
       cases hbo : h.bodyOpen <;> cases b0 <;> simp [hbo] at hp'
       all_goals (subst hp'; simp [hbo])))

/-- An open request body does not hold up the exchange: at every point of a started exchange — request
modifier, round trip, response modifier, close decision, response write — the handler's next move is a move
of the proxy itself (parked gates released), enabled during shutdown, whatever `bodyOpen` is. -/
theorem open_request_body_does_not_block_the_response {mu r : Bool} {h : Handler}
    (hp : h.pc.inExchange = true) :
    (hstep true mu r h h.next).isSome = true ∧ (Label.h 0 h.next).internal = true := by
  have hc : h.pc.counted = true := by cases hpc : h.pc <;> simp_all [Pc.inExchange, Pc.counted]
  have hn := next_enabled (mu := mu) (r := r) hc
  refine ⟨hn.1, ?_⟩
  rcases hn.2.2 with h1 | ⟨h1, _⟩
  · exact h1
  · cases hpc : h.pc <;> simp_all [Pc.inExchange, Pc.peerBlocked]

/-- The wait for the rest of the body ends only by the client (it sends the rest, or goes away): `bodyDone`
is the only move, it is not a move of the proxy, and it does not depend on the shutdown state; afterwards the
handler closes the connection (marked response) or reads the next request. -/
theorem body_drain_ends_only_by_the_client {c m r b : Bool} {h h' : Handler} {l : HL}
    (hp : h.pc = .drainBody b) (hs : hstep c m r h l = some h') :
    l = .bodyDone ∧ (Label.h 0 l).internal = false ∧ (Label.h 0 l).peerMove = true ∧
      h'.pc = (if b then .closingConn else .idleRead) ∧ h'.completed = h.completed ∧
      ∀ c' m' r', hstep c' m' r' h l = some h' := by
  cases l <;> simp [hstep, hp, Pc.readable] at hs
  subst hs
  exact ⟨rfl, rfl, rfl, rfl, rfl, fun _ _ _ => by simp [hstep, hp]⟩

/-- Test on a concrete schedule: an `Expect: 100-continue` exchange parked in the response modifier when
`Close` is called — the response is written completely and marked close while the body is still held back;
`Close` then waits (`waitZero` disabled) until the client, having its response, goes away. -/
theorem open_body_exchange_during_shutdown_witness :
    ∃ s, run init
      [.serveCheck, .accept, .h 0 .spawn, .h 0 .add, .h 0 .checkClosing, .h 0 (.gotReqOpen false), .h 0 .reqmodStart,
       .h 0 .reqmodEnd, .h 0 .rtStart, .h 0 (.rtEnd false), .h 0 .resmodStart, .closeCall, .closeChan, .lock,
       .h 0 .resmodEnd, .h 0 .decide, .h 0 .writeStart, .h 0 .writeEnd] = some s ∧
      (∃ h, s.hs[0]? = some h ∧ h.pc = .drainBody true ∧ h.marks = [(true, false, true)] ∧ h.completed = 1) ∧
      step s .waitZero = none ∧
      ∃ s', run s [.h 0 .bodyDone, .h 0 .closeConn, .h 0 .finish, .waitZero, .ret] = some s' ∧
        Final s' ∧ s'.returnedEarly = false := by
  refine ⟨_, rfl, ⟨_, rfl, rfl, rfl, rfl⟩, rfl, _, rfl, ⟨rfl, ?_⟩, rfl⟩
  decide

end Martian.Props.C07
