import Martian.Lemmas.Shutdown
/-!
C07 (round 3) — CONNECT tunnels, MITM'd tunnels, HTTP/2 sessions and hijacked connections under shutdown.

What `Close()` waits for: every counted handler, whatever it is doing — an open blind tunnel (until BOTH
peers are done: the proxy never tears a tunnel down, `closing` is not consulted by the pumps), the first
byte / the TLS handshake of a MITM'd tunnel (until the client moves or the idle deadline `p.timeout`
fires), a hijacker (until the modifier returns). An HTTP/2 session is handed the closing channel and
ends by itself. Inside a MITM'd tunnel the decrypted connection is served by the same loop (`handle`,
`readRequest` selecting on `closing`), so every clause about the six progress points applies to it
verbatim — all theorems of `Props/C07.lean` quantify over all handlers and all schedules of this model.

Reading of the statement: `Close()` blocking while a tunnel is open is NOT the deadlock the statement
excludes — some move of a tunnel peer is enabled, the statement itself demands that shutdown return only
after every accepted connection has been closed, and it puts no bound on how long peers may take.
-/
namespace Martian.Props.C07
open Martian.Shutdown

/-- A handler that waits for a peer (open blind tunnel, first tunnel byte, TLS handshake) has no move of
its own: every enabled move of it is a move of the peer, and is enabled or not regardless of the
shutdown state (`closing`, `connsMu`, `Close` returned). -/
theorem peer_blocked_handler_moves_only_by_its_peer {c m r : Bool} {h h' : Handler} {l : HL}
    (hp : h.pc.peerBlocked = true) (hs : hstep c m r h l = some h') :
    (Label.h 0 l).peerMove = true ∧ (Label.h 0 l).internal = false ∧
      ∀ c' m' r', hstep c' m' r' h l = some h' := by
  cases hpc : h.pc <;> simp [hpc, Pc.peerBlocked] at hp <;>
    cases l <;> simp [hstep, hpc, Pc.readable] at hs <;> subst hs <;>
    exact ⟨rfl, rfl, fun _ _ _ => by simp [hstep, hpc]⟩

/-- An open blind tunnel is left only when both of its peers are done (`tunnelEnd`); the handler then
closes the client connection. -/
theorem tunnel_ends_only_by_its_peers {c m r : Bool} {h h' : Handler} {l : HL}
    (hp : h.pc = .tunnel) (hs : hstep c m r h l = some h') :
    l = .tunnelEnd ∧ h' = { h with pc := .closingConn } := by
  cases l <;> simp [hstep, hp, Pc.readable] at hs
  exact ⟨rfl, hs.symm⟩

/-- `Close()` cannot pass `conns.Wait()` while any handler is counted — in particular while a blind
tunnel is open, a MITM'd tunnel is waiting for its client, an HTTP/2 session runs or a hijacker has not
returned. -/
theorem close_waits_for_every_counted_handler {s : Sys} {k : Nat} {h : Handler} (hr : Reachable s)
    (hk : s.hs[k]? = some h) (hc : h.pc.counted = true) : step s .waitZero = none := by
  have g := reachable_good hr
  have hpos := cnt_pos hk hc
  have : s.wg ≠ 0 := by rw [g.wg]; omega
  simp [step, this]

/-- When `Close()` returns no tunnel is open, no MITM'd tunnel is pending, no HTTP/2 session runs and
no CONNECT is in flight. -/
theorem close_returns_after_tunnels_ended {s s' : Sys} (hr : Reachable s) (hs : step s .ret = some s') :
    ∀ h ∈ s'.hs, h.pc.peerBlocked = false ∧ h.pc ≠ .h2session ∧ h.pc ≠ .dialing ∧ h.pc ≠ .cwriting := by
  simp only [step] at hs
  split at hs <;> cases hs
  rename_i hc
  intro h hm
  have := ((reachable_good hr).hok h hm).zero hc
  cases hp : h.pc <;> simp_all [Pc.counted, Pc.peerBlocked]

/-- An HTTP/2 session ends by itself once shutdown is signalled (`h2Stop` is a move of the proxy, enabled
as soon as `closing` is closed); the handler is then back in `readRequest` (a readable point), where
`C07.shutdown_while_reading_closes` applies: the `closing` arm is enabled and the connection is closed
without any further exchange. -/
theorem h2_session_ends_on_shutdown {s : Sys} {k : Nat} {h : Handler}
    (hc : s.closing = true) (hk : s.hs[k]? = some h) (hp : h.pc = .h2session) :
    (Label.h k .h2Stop).internal = true ∧
    ∃ s1, step s (.h k .h2Stop) = some s1 ∧ s1.closing = true ∧ s1.wg = s.wg ∧ s1.cpc = s.cpc ∧
      s1.hs = s.hs.set k { h with pc := .idleRead } ∧ Pc.readable .idleRead = true := by
  refine ⟨rfl, ?_⟩
  have h1 : hstep s.closing s.cpc.holdsMu (decide (s.cpc = .returned)) h .h2Stop =
      some { h with pc := .idleRead } := by simp [hstep, hp, hc]
  refine ⟨{ s with hs := s.hs.set k { h with pc := .idleRead }, wg := HL.wgAfter s.wg .h2Stop }, ?_, hc, rfl, rfl, rfl, rfl⟩
  simp only [step, hk]
  rw [h1]
  simp

/-- A modifier that hijacks the connection ends the exchange without a response from the proxy: when it
returns the handler closes the connection. Until then the handler is counted, so `Close()` waits for the
hijacker (`close_waits_for_every_counted_handler`). -/
theorem hijacked_exchange_gets_no_response {c m r : Bool} {h h' : Handler}
    (hs : hstep c m r h .hijack = some h') :
    (h.pc = .inReqmod ∨ h.pc = .inResmod) ∧ h'.pc = .closingConn ∧ h'.completed = h.completed ∧
      h'.hijacked = h.hijacked + 1 ∧ h'.marks = h.marks := by
  cases hpc : h.pc <;> simp [hstep, hpc] at hs <;> subst hs <;> simp

/-- The response to a CONNECT is completely written before the tunnel (or the MITM'd session) starts,
and it is the proxy's own move; afterwards the handler is in the tunnel, waiting for the first byte of
the MITM'd tunnel, or (502) back in the serving loop. -/
theorem connect_response_precedes_tunnel {c m r : Bool} {h h' : Handler}
    (hs : hstep c m r h .cwriteEnd = some h') :
    h.pc = .cwriting ∧ h'.completed = h.completed + 1 ∧ h'.cresps = h.cresps + 1 ∧ h'.marks = h.marks ∧
      (h'.pc = .tunnel ∨ h'.pc = .mitmPeek ∨ h'.pc = .idleRead) ∧ (Label.h 0 .cwriteEnd).internal = true := by
  cases hpc : h.pc <;> simp [hstep, hpc] at hs
  subst hs
  refine ⟨rfl, rfl, rfl, rfl, ?_, rfl⟩
  cases h.conn <;> simp

/-- After a successful HTTP/1 handshake of a MITM'd tunnel the handler is in the ordinary serving loop
(`readRequest` on the decrypted connection): all clauses about the six progress points apply to it. -/
theorem mitm_tunnel_is_served_by_the_ordinary_loop {c m r : Bool} {h h' : Handler}
    (hs : hstep c m r h (.handshakeEnd .h1) = some h') :
    h.pc = .mitmHandshake ∧ h'.pc = .idleRead ∧ h'.secure = true ∧ h'.pc.readable = true := by
  cases hpc : h.pc <;> simp [hstep, hpc] at hs
  subst hs
  exact ⟨rfl, rfl, rfl, rfl⟩

/-! ### witnesses (tests on concrete schedules) -/

/-- `Close()` blocks on an open blind tunnel and returns once its peers are done. -/
theorem close_blocks_on_open_tunnel_witness :
    ∃ s, run init
      [.serveCheck, .accept, .h 0 .spawn, .h 0 .add, .h 0 .checkClosing, .h 0 .gotConnect, .h 0 .reqmodStart,
       .h 0 .reqmodEnd, .h 0 .dialStart, .h 0 (.dialEnd true), .h 0 .resmodStart, .h 0 .resmodEnd,
       .h 0 .cwriteStart, .h 0 .cwriteEnd, .closeCall, .closeChan, .lock] = some s ∧
      (∃ h, s.hs[0]? = some h ∧ h.pc = .tunnel ∧ h.started = 1 ∧ h.completed = 1) ∧
      step s .waitZero = none ∧
      (∀ l, (step s (.h 0 l)).isSome = true → l = .tunnelEnd) ∧
      ∃ s', run s [.h 0 .tunnelEnd, .h 0 .closeConn, .h 0 .finish, .waitZero, .ret] = some s' ∧
        Final s' ∧ s'.returnedEarly = false := by
  refine ⟨_, rfl, ⟨_, rfl, rfl, rfl, rfl⟩, rfl, ?_, _, rfl, ⟨rfl, ?_⟩, rfl⟩
  · intro l; cases l <;> simp [step, hstep, Pc.readable]
  · decide

/-- A CONNECT in flight when shutdown begins still opens its tunnel: the CONNECT path does not consult
`closing`; `Close()` then waits for that tunnel's peers. -/
theorem tunnel_can_open_during_shutdown_witness :
    ∃ s, run init
      [.serveCheck, .accept, .h 0 .spawn, .h 0 .add, .h 0 .checkClosing, .h 0 .gotConnect, .h 0 .reqmodStart,
       .closeCall, .closeChan, .lock,
       .h 0 .reqmodEnd, .h 0 .dialStart, .h 0 (.dialEnd true), .h 0 .resmodStart, .h 0 .resmodEnd,
       .h 0 .cwriteStart, .h 0 .cwriteEnd] = some s ∧
      s.closing = true ∧ (∃ h, s.hs[0]? = some h ∧ h.pc = .tunnel) ∧ step s .waitZero = none :=
  ⟨_, rfl, rfl, ⟨_, rfl, rfl⟩, rfl⟩

/-- Shutdown while a request inside a MITM'd tunnel is parked in the request modifier: the response is
complete and marked, the connection closed, `Close()` returns afterwards. -/
theorem mitm_exchange_during_shutdown_witness :
    ∃ s, run init
      [.serveCheck, .accept, .h 0 .spawn, .h 0 .add, .h 0 .checkClosing, .h 0 .gotConnect, .h 0 .reqmodStart,
       .h 0 .reqmodEnd, .h 0 .mitmAccept, .h 0 .resmodStart, .h 0 .resmodEnd, .h 0 .cwriteStart, .h 0 .cwriteEnd,
       .h 0 (.peeked true), .h 0 (.handshakeEnd .h1), .h 0 (.gotReq false), .h 0 .reqmodStart,
       .closeCall, .closeChan, .lock,
       .h 0 .reqmodEnd, .h 0 .rtStart, .h 0 (.rtEnd false), .h 0 .resmodStart, .h 0 .resmodEnd, .h 0 .decide,
       .h 0 .writeStart, .h 0 .writeEnd, .h 0 .closeConn, .h 0 .finish, .waitZero, .ret] = some s ∧
      Final s ∧ s.returnedEarly = false ∧
      ∃ h, s.hs[0]? = some h ∧ h.marks = [(true, false, true)] ∧ h.started = 2 ∧ h.completed = 2 ∧ h.cresps = 1 ∧
        h.secure = true := by
  refine ⟨_, rfl, ⟨rfl, ?_⟩, rfl, _, rfl, rfl, rfl, rfl, rfl, rfl⟩
  decide

end Martian.Props.C07
