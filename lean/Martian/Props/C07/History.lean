import Martian.Lemmas.Shutdown
/-!
C07 (round 7) — histories. A schedule may contain any number of earlier connection lifecycles (connections
accepted, served and closed before the ones that are open when `Close` is called): the model keeps them in
`hs` with `pc = done`. When `Close` may pass `conns.Wait()` depends only on the handlers counted NOW — the wait
group has no memory of connections that came and went (an implementation that signals "drained" through a
token left behind by an earlier last-connection-out does).
-/
namespace Martian.Props.C07
open Martian.Shutdown

/-- `Close` may pass `conns.Wait()` exactly when it holds `connsMu` and no handler is counted at this moment. -/
theorem close_may_pass_iff_no_counted_handler {s : Sys} (hr : Reachable s) :
    (step s .waitZero).isSome = true ↔ (s.cpc = .locked ∧ ∀ h ∈ s.hs, h.pc.counted = false) := by
  have g := reachable_good hr
  constructor
  · intro h
    simp only [step] at h
    split at h
    · rename_i hc
      exact ⟨hc.1, cnt_zero (by rw [← g.wg]; exact hc.2)⟩
    · simp at h
  · intro ⟨hc, hn⟩
    have : s.wg = 0 := by
      rw [g.wg]; exact List.countP_eq_zero.mpr (fun h hm => by simp [hn h hm])
    simp [step, hc, this]

/-- The wait-group counter is the number of counted handlers among the connections that are not finished:
connections that were opened and completely closed earlier (`done`) contribute nothing, however many there
were and whatever they did. -/
theorem finished_connections_do_not_count {s : Sys} (hr : Reachable s) :
    s.wg = cnt (s.hs.filter (fun h => h.pc != .done)) := by
  have g := reachable_good hr
  rw [g.wg]
  simp only [cnt, List.countP_filter]
  apply List.countP_congr
  intro h _
  cases hp : h.pc <;> simp [Pc.counted]

/-- Test on a concrete schedule: a connection is opened, serves one exchange and is closed (the counter is back
to 0); then a second connection is parked in its round trip when `Close` is called — `Close` cannot pass the
wait, and returns only after that exchange has been answered and the connection closed. -/
theorem close_after_history_witness :
    ∃ s, run init
      [.serveCheck, .accept, .h 0 .spawn, .h 0 .add, .h 0 .checkClosing, .h 0 (.gotReq false), .h 0 .reqmodStart,
       .h 0 .reqmodEnd, .h 0 .rtStart, .h 0 (.rtEnd false), .h 0 .resmodStart, .h 0 .resmodEnd, .h 0 .decide,
       .h 0 .writeStart, .h 0 .writeEnd, .h 0 .readErr, .h 0 .closeConn, .h 0 .finish,
       .serveCheck, .accept, .h 1 .spawn, .h 1 .add, .h 1 .checkClosing, .h 1 (.gotReq false), .h 1 .reqmodStart,
       .h 1 .reqmodEnd, .h 1 .rtStart, .closeCall, .closeChan, .lock] = some s ∧
      (∃ h, s.hs[0]? = some h ∧ h.pc = .done ∧ h.completed = 1) ∧ s.wg = 1 ∧ step s .waitZero = none ∧
      ∃ s', run s [.h 1 (.rtEnd false), .h 1 .resmodStart, .h 1 .resmodEnd, .h 1 .decide, .h 1 .writeStart,
                   .h 1 .writeEnd, .h 1 .closeConn, .h 1 .finish, .waitZero, .ret] = some s' ∧
        Final s' ∧ s'.returnedEarly = false := by
  refine ⟨_, rfl, ⟨_, rfl, rfl, rfl⟩, rfl, rfl, _, rfl, ⟨rfl, ?_⟩, rfl⟩
  decide

end Martian.Props.C07
