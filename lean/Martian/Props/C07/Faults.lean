import Martian.Lemmas.Shutdown
/-!
C07 (round 3) — response-write failures, hijacking modifiers, further callers of `Close`.

`writeErr` is the ENVIRONMENT's label: `res.Write`/`Flush` on the client connection failed because the
client closed or reset the connection, or stalled longer than the idle timeout `p.timeout` the
application configured (the only deadline `handleLoop` puts on the connection — regenerated fact
`deadlineSites`). The proxy itself has no move that abandons a response (`C07.response_write_ends_only_complete`).
`hijack` is the application's modifier calling `Session.Hijack()`.
-/
namespace Martian.Props.C07
open Martian.Shutdown

/-- On every schedule without the labels `writeErr` and `hijack`, no response was aborted and no exchange
hijacked on any connection … -/
theorem no_fault_labels_no_faults {sched : List Label} {s : Sys} (hr : run init sched = some s)
    (hl : ∀ l ∈ sched, l.isFault = false) : ∀ h ∈ s.hs, h.aborted = 0 ∧ h.hijacked = 0 :=
  run_noFaults (by intro h hm; simp [init] at hm) hl hr

/-- … hence the clause of the statement at full strength: every exchange whose request modifier had
started is either still in flight or has had its response completely written, and a handler that is
closing (or has closed) its connection has completed everything it started. -/
theorem started_exchange_completes_without_faults {sched : List Label} {s : Sys} (hr : run init sched = some s)
    (hl : ∀ l ∈ sched, l.isFault = false) :
    ∀ h ∈ s.hs, h.started = h.completed + (if h.pc.inExchange then 1 else 0) ∧
      (h.pc.winding = true → h.completed = h.started) := by
  intro h hm
  have hf := no_fault_labels_no_faults hr hl h hm
  have he := ((reachable_good ⟨sched, hr⟩).hok h hm).exch
  rw [hf.1, hf.2] at he
  refine ⟨by simpa using he, ?_⟩
  intro hw
  cases hp : h.pc <;> simp_all [Pc.winding, Pc.inExchange]

/-- A response is aborted only by the environment label `writeErr` of that very connection (which is not
a move of the proxy), an exchange is hijacked only by the label `hijack`. -/
theorem abort_only_by_client_failure {s s' : Sys} {l : Label} {k : Nat} {h h' : Handler}
    (hs : step s l = some s') (hk : s.hs[k]? = some h) (hk' : s'.hs[k]? = some h') :
    (h'.aborted ≠ h.aborted → l = .h k .writeErr ∧ l.internal = false) ∧
    (h'.hijacked ≠ h.hijacked → l = .h k .hijack) := by
  have hlt : k < s.hs.length := by
    rcases List.getElem?_eq_some_iff.mp hk with ⟨hlt, _⟩; exact hlt
  cases l with
  | h j l =>
    simp only [step] at hs
    split at hs
    · cases hs
    · rename_i hj hjk
      split at hs
      · cases hs
      · split at hs
        · cases hs
        · rename_i h2 hh
          cases hs
          by_cases e : j = k
          · subst e
            rw [hk] at hjk; cases hjk
            simp [List.getElem?_set, hlt] at hk'
            subst hk'
            have hf := hstep_faults hh
            constructor
            · intro hne
              by_cases e2 : l = .writeErr
              · subst e2; exact ⟨rfl, rfl⟩
              · exact absurd (hf.1 e2) hne
            · intro hne
              by_cases e2 : l = .hijack
              · subst e2; rfl
              · exact absurd (hf.2.1 e2) hne
          · rw [show (s.hs.set j h2)[k]? = s.hs[k]? from List.getElem?_set_ne e] at hk'
            rw [hk] at hk'; cases hk'
            exact ⟨fun x => absurd rfl x, fun x => absurd rfl x⟩
  | accept =>
    simp only [step] at hs
    split at hs <;> cases hs
    simp [List.getElem?_append_left hlt, hk] at hk'
    subst hk'
    exact ⟨fun x => absurd rfl x, fun x => absurd rfl x⟩
  | closeCall2 => simp only [step] at hs; cases hs; rw [hk] at hk'; cases hk'; exact ⟨fun x => absurd rfl x, fun x => absurd rfl x⟩
  | serveCheck => simp only [step] at hs; split at hs <;> cases hs; rw [hk] at hk'; cases hk'; exact ⟨fun x => absurd rfl x, fun x => absurd rfl x⟩
  | closeCall => simp only [step] at hs; split at hs <;> cases hs; rw [hk] at hk'; cases hk'; exact ⟨fun x => absurd rfl x, fun x => absurd rfl x⟩
  | closeChan => simp only [step] at hs; split at hs <;> cases hs; rw [hk] at hk'; cases hk'; exact ⟨fun x => absurd rfl x, fun x => absurd rfl x⟩
  | lock => simp only [step] at hs; split at hs <;> cases hs; rw [hk] at hk'; cases hk'; exact ⟨fun x => absurd rfl x, fun x => absurd rfl x⟩
  | waitZero => simp only [step] at hs; split at hs <;> cases hs; rw [hk] at hk'; cases hk'; exact ⟨fun x => absurd rfl x, fun x => absurd rfl x⟩
  | ret => simp only [step] at hs; split at hs <;> cases hs; rw [hk] at hk'; cases hk'; exact ⟨fun x => absurd rfl x, fun x => absurd rfl x⟩
  | closeChan2 => simp only [step] at hs; split at hs <;> cases hs; rw [hk] at hk'; cases hk'; exact ⟨fun x => absurd rfl x, fun x => absurd rfl x⟩

/-- After a failed write, and after a hijack, the handler closes the connection (its next and only move
is `closeConn`); `Close` keeps waiting for it until it has. -/
theorem fault_is_followed_by_close {c m r : Bool} {h h' : Handler} {l : HL}
    (hl : l = .writeErr ∨ l = .hijack) (hs : hstep c m r h l = some h') :
    h'.pc = .closingConn ∧ h'.completed = h.completed ∧ h'.started = h.started ∧ h'.marks = h.marks := by
  rcases hl with e | e <;> subst e <;> cases hpc : h.pc <;> simp [hstep, hpc] at hs <;> subst hs <;> simp

/-! ### further callers of `Close()` (outside the statement, which speaks of one shutdown request)

The caller whose `close(p.closing)` executes first is the one tracked by `cpc`; all theorems of this
property quantify over schedules that may contain any number of further calls (`closeCall2`), so
every clause holds for the first caller regardless of the others. What happens to the others: -/

/-- Bookkeeping: every further call to `Close` is still before its `close(p.closing)` or has panicked;
none ever returns. -/
theorem further_close_calls_pend_or_panic {s : Sys} (hr : Reachable s) : s.calls2 = s.extra + s.panics := by
  obtain ⟨sched, hr⟩ := hr
  exact run_callsOk (by simp [CallsOk, init]) hr

/-- Once shutdown has been signalled, a pending further caller's next statement `close(p.closing)` is
enabled and panics (`close of closed channel`). -/
theorem further_close_call_panics {s : Sys} (he : 0 < s.extra) (hc : s.closing = true) :
    ∃ s', step s .closeChan2 = some s' ∧ s'.panics = s.panics + 1 ∧ s'.extra = s.extra - 1 ∧
      s'.cpc = s.cpc ∧ s'.hs = s.hs ∧ s'.wg = s.wg :=
  ⟨{ s with extra := s.extra - 1, panics := s.panics + 1 }, by simp [step, he, hc], rfl, rfl, rfl, rfl, rfl⟩

/-- Test on a concrete schedule: two concurrent `Close()` calls on an idle proxy — one returns, the
other panics. -/
theorem concurrent_close_panics_counterexample :
    ∃ s, run init [.serveCheck, .closeCall, .closeCall2, .closeChan, .closeChan2, .lock, .waitZero, .ret] = some s ∧
      s.cpc = .returned ∧ s.panics = 1 ∧ s.extra = 0 := by
  decide

/-- A panic happens only in a further caller: the panic counter moves only by `closeChan2`, which needs
a pending further call. With a single `Close` call (no `closeCall2` in the schedule) nothing panics. -/
theorem single_close_never_panics {sched : List Label} {s : Sys} (hr : run init sched = some s)
    (hl : Label.closeCall2 ∉ sched) : s.panics = 0 ∧ s.extra = 0 := by
  suffices h : ∀ (sched : List Label) (s0 s : Sys), run s0 sched = some s → Label.closeCall2 ∉ sched →
      s.calls2 = s0.calls2 by
    have h1 := h sched init s hr hl
    have h2 := further_close_calls_pend_or_panic ⟨sched, hr⟩
    simp [init] at h1
    omega
  intro sched
  induction sched with
  | nil => intro s0 s hr _; simp [run] at hr; subst hr; rfl
  | cons l ls ih =>
    intro s0 s hr hl
    simp only [run] at hr
    split at hr
    · cases hr
    · rename_i s1 h1
      have := ih s1 s hr (fun x => hl (by simp [x]))
      rw [this]
      have hne : l ≠ .closeCall2 := fun e => hl (by simp [e])
      cases l <;> simp only [step] at h1
      case closeCall2 => exact absurd rfl hne
      case h k l =>
        split at h1
        · cases h1
        · split at h1
          · cases h1
          · split at h1 <;> cases h1
            rfl
      all_goals (split at h1 <;> cases h1; rfl)

end Martian.Props.C07
