import Martian.Model.Mitm
/-!
Helper lemmas for the concrete `VerifyHostname` model of C06 (core Lean only): ASCII lower-casing,
`split` on dots, `TrimSuffix(".")`, `validHostname`, and the three matching functions.
-/
namespace Martian.Mitm
open Martian Martian.Go

/-! ### bytes -/

theorem u8_le {a b : UInt8} : a ≤ b ↔ a.toNat ≤ b.toNat := UInt8.le_iff_toNat_le

theorem toLowerB_cases (c : UInt8) :
    (65 ≤ c.toNat ∧ c.toNat ≤ 90 ∧ (toLowerB c).toNat = c.toNat + 32) ∨
    (¬ (65 ≤ c.toNat ∧ c.toNat ≤ 90) ∧ toLowerB c = c) := by
  unfold toLowerB
  split
  · rename_i h
    have h1 := u8_le.mp h.1
    have h2 := u8_le.mp h.2
    have e1 : (65 : UInt8).toNat = 65 := rfl
    have e2 : (90 : UInt8).toNat = 90 := rfl
    have e3 : (32 : UInt8).toNat = 32 := rfl
    left
    refine ⟨by omega, by omega, ?_⟩
    rw [UInt8.toNat_add, e3]
    omega
  · rename_i h
    right
    refine ⟨?_, rfl⟩
    intro hh
    apply h
    exact ⟨u8_le.mpr (by simpa using hh.1), u8_le.mpr (by simpa using hh.2)⟩

theorem toLowerB_idem (c : UInt8) : toLowerB (toLowerB c) = toLowerB c := by
  rcases toLowerB_cases c with ⟨h1, h2, h3⟩ | ⟨_, h⟩
  · rcases toLowerB_cases (toLowerB c) with ⟨g1, g2, _⟩ | ⟨_, g⟩
    · omega
    · exact g
  · rw [h, h]

/-- Lower-casing fixes, and never produces, a byte outside `A`–`Z`/`a`–`z`. -/
theorem toLowerB_eq_iff {c x : UInt8} (hx : ¬ (65 ≤ x.toNat ∧ x.toNat ≤ 90)) (hx' : ¬ (97 ≤ x.toNat ∧ x.toNat ≤ 122)) :
    toLowerB c = x ↔ c = x := by
  rcases toLowerB_cases c with ⟨h1, h2, h3⟩ | ⟨_, h⟩
  · constructor
    · intro e; rw [e] at h3; omega
    · intro e; subst e; omega
  · rw [h]

theorem toLowerB_eq_dot {c : UInt8} : toLowerB c = dot ↔ c = dot :=
  toLowerB_eq_iff (x := dot) (by decide) (by decide)
theorem toLowerB_eq_star {c : UInt8} : toLowerB c = star ↔ c = star :=
  toLowerB_eq_iff (x := star) (by decide) (by decide)
theorem toLowerB_eq_hyphen {c : UInt8} : toLowerB c = hyphen ↔ c = hyphen :=
  toLowerB_eq_iff (x := hyphen) (by decide) (by decide)
theorem toLowerB_eq_underscore {c : UInt8} : toLowerB c = underscore ↔ c = underscore :=
  toLowerB_eq_iff (x := underscore) (by decide) (by decide)
theorem toLowerB_eq_colon {c : UInt8} : toLowerB c = colon ↔ c = colon :=
  toLowerB_eq_iff (x := colon) (by decide) (by decide)
theorem toLowerB_eq_lbr {c : UInt8} : toLowerB c = lbr ↔ c = lbr :=
  toLowerB_eq_iff (x := lbr) (by decide) (by decide)
theorem toLowerB_eq_rbr {c : UInt8} : toLowerB c = rbr ↔ c = rbr :=
  toLowerB_eq_iff (x := rbr) (by decide) (by decide)

theorem beq_toLowerB {c x : UInt8} (h : ∀ d, toLowerB d = x ↔ d = x) : (toLowerB c == x) = (c == x) := by
  cases hc : c == x
  · have : c ≠ x := by simpa using hc
    have : toLowerB c ≠ x := fun e => this ((h c).mp e)
    simpa using this
  · have : c = x := by simpa using hc
    simpa using (h c).mpr this

theorem isAlnum_toLowerB (c : UInt8) : isAlnum (toLowerB c) = isAlnum c := by
  have e : ∀ (a b : UInt8), (decide (a ≤ b)) = decide (a.toNat ≤ b.toNat) := by
    intro a b; simp [u8_le]
  unfold isAlnum isDigit
  rcases toLowerB_cases c with ⟨h1, h2, h3⟩ | ⟨_, h⟩
  · simp only [e, h3]
    have e1 : (97 : UInt8).toNat = 97 := rfl
    have e2 : (122 : UInt8).toNat = 122 := rfl
    have e3 : (48 : UInt8).toNat = 48 := rfl
    have e4 : (57 : UInt8).toNat = 57 := rfl
    have e5 : (65 : UInt8).toNat = 65 := rfl
    have e6 : (90 : UInt8).toNat = 90 := rfl
    simp only [e1, e2, e3, e4, e5, e6]
    have a1 : 97 ≤ c.toNat + 32 := by omega
    have a2 : c.toNat + 32 ≤ 122 := by omega
    have a3 : 65 ≤ c.toNat := h1
    have a4 : c.toNat ≤ 90 := h2
    simp [a1, a2, a3, a4]
  · rw [h]

/-! ### lower-casing byte strings -/

theorem toLower_idem (s : Bytes) : toLower (toLower s) = toLower s := by
  simp [toLower, List.map_map, Function.comp_def, toLowerB_idem]

@[simp] theorem toLower_nil : toLower [] = [] := rfl
@[simp] theorem toLower_cons (c : UInt8) (s : Bytes) : toLower (c :: s) = toLowerB c :: toLower s := rfl
@[simp] theorem toLower_length (s : Bytes) : (toLower s).length = s.length := by simp [toLower]

theorem toLower_eq_nil {s : Bytes} : toLower s = [] ↔ s = [] := by simp [toLower]

theorem toLower_isEmpty (s : Bytes) : (toLower s).isEmpty = s.isEmpty := by cases s <;> rfl

theorem toLower_eq_single {s : Bytes} {x : UInt8} (h : ∀ d, toLowerB d = x ↔ d = x) : toLower s = [x] ↔ s = [x] := by
  cases s with
  | nil => simp
  | cons c r =>
    cases r with
    | nil => simp [h c]
    | cons d r' => simp

theorem toLower_beq_single (s : Bytes) {x : UInt8} (h : ∀ d, toLowerB d = x ↔ d = x) : (toLower s == [x]) = (s == [x]) := by
  cases hc : s == [x]
  · have : s ≠ [x] := by simpa using hc
    have : toLower s ≠ [x] := fun e => this ((toLower_eq_single h).mp e)
    simpa using this
  · have : s = [x] := by simpa using hc
    simpa using (toLower_eq_single h).mpr this

theorem toLower_append (a b : Bytes) : toLower (a ++ b) = toLower a ++ toLower b := by simp [toLower]

theorem mem_toLower_iff {s : Bytes} {x : UInt8} (h : ∀ d, toLowerB d = x ↔ d = x) : x ∈ toLower s ↔ x ∈ s := by
  simp only [toLower, List.mem_map]
  constructor
  · rintro ⟨d, hd, e⟩; rw [(h d).mp e] at hd; exact hd
  · intro hx; exact ⟨x, hx, (h x).mpr rfl⟩

/-! ### TrimSuffix(".") -/

theorem dropLast_append_of_getLast? {l : Bytes} {a : UInt8} (h : l.getLast? = some a) : l.dropLast ++ [a] = l := by
  have hne : l ≠ [] := by intro e; subst e; simp at h
  rw [List.getLast?_eq_some_getLast hne] at h
  have := List.dropLast_concat_getLast hne
  simp only [Option.some.injEq] at h
  rw [h] at this
  exact this

theorem getLast?_toLower (s : Bytes) : (toLower s).getLast? = s.getLast?.map toLowerB := by
  simp [toLower, List.getLast?_map]

theorem trimDot_toLower (s : Bytes) : trimDot (toLower s) = toLower (trimDot s) := by
  unfold trimDot
  rw [getLast?_toLower]
  cases hl : s.getLast? with
  | none => simp
  | some c =>
    simp only [Option.map_some, Option.some.injEq, toLowerB_eq_dot]
    split
    · simp [toLower, List.dropLast_eq_take]
    · rfl

theorem trimDot_of_no_trailing {s : Bytes} (h : s.getLast? ≠ some dot) : trimDot s = s := by
  simp [trimDot, h]

theorem trimDot_append_dot (a : Bytes) : trimDot (a ++ [dot]) = a := by
  simp [trimDot]

/-- Either nothing is trimmed, or `s = trimDot s ++ "."`. -/
theorem trimDot_cases (s : Bytes) : (s.getLast? ≠ some dot ∧ trimDot s = s) ∨ s = trimDot s ++ [dot] := by
  by_cases h : s.getLast? = some dot
  · right
    have := dropLast_append_of_getLast? h
    simp [trimDot, h, this]
  · left; exact ⟨h, trimDot_of_no_trailing h⟩

/-! ### strings.Split on one byte -/

/-- Inverse of `split`: join with the separator. -/
def unsplit (sep : UInt8) : List Bytes → Bytes
  | [] => []
  | [x] => x
  | x :: y :: r => x ++ sep :: unsplit sep (y :: r)

theorem unsplit_splitAux (sep : UInt8) (s cur : Bytes) : unsplit sep (splitAux sep s cur) = cur.reverse ++ s := by
  induction s generalizing cur with
  | nil => simp [splitAux, unsplit]
  | cons c r ih =>
    simp only [splitAux]
    split
    · rename_i hc
      have hc' : c = sep := by simpa using hc
      have hpos := splitAux_length_pos sep r []
      cases hs : splitAux sep r [] with
      | nil => rw [hs] at hpos; simp at hpos
      | cons y ys =>
        have := ih []
        rw [hs] at this
        simp only [unsplit, this, hc']
        simp
    · rw [ih (c :: cur)]; simp

theorem unsplit_split (s : Bytes) (sep : UInt8) : unsplit sep (split s sep) = s := by
  simpa [split] using unsplit_splitAux sep s []

theorem split_inj {a b : Bytes} {sep : UInt8} (h : split a sep = split b sep) : a = b := by
  rw [← unsplit_split a sep, ← unsplit_split b sep, h]

theorem splitAux_map (f : UInt8 → UInt8) (sep : UInt8) (hf : ∀ c, (f c == sep) = (c == sep)) (s cur : Bytes) :
    splitAux sep (s.map f) (cur.map f) = (splitAux sep s cur).map (List.map f) := by
  induction s generalizing cur with
  | nil => simp [splitAux]
  | cons c r ih =>
    simp only [List.map_cons, splitAux, hf]
    split
    · have := ih []
      simp only [List.map_nil] at this
      simp [this]
    · have := ih (c :: cur)
      simpa using this

theorem split_toLower (s : Bytes) : split (toLower s) dot = (split s dot).map toLower := by
  have := splitAux_map toLowerB dot (fun c => beq_toLowerB (fun _ => toLowerB_eq_dot)) s []
  have e : toLower = List.map toLowerB := rfl
  rw [e]
  simpa [split] using this

theorem splitAux_append_sep_last (sep : UInt8) (a cur : Bytes) :
    splitAux sep (a ++ [sep]) cur = splitAux sep a cur ++ [[]] := by
  induction a generalizing cur with
  | nil => simp [splitAux]
  | cons c r ih =>
    simp only [List.cons_append, splitAux]
    split
    · simp [ih []]
    · exact ih _

theorem nil_mem_split_of_trailing (a : Bytes) (sep : UInt8) : [] ∈ split (a ++ [sep]) sep := by
  simp [split, splitAux_append_sep_last]

theorem mem_of_mem_splitAux (sep : UInt8) (s cur : Bytes) :
    ∀ p ∈ splitAux sep s cur, ∀ x ∈ p, x ∈ cur ∨ x ∈ s := by
  induction s generalizing cur with
  | nil => intro p hp x hx; simp [splitAux] at hp; subst hp; left; simpa using hx
  | cons c r ih =>
    intro p hp x hx
    simp only [splitAux] at hp
    split at hp
    · rcases List.mem_cons.mp hp with h | h
      · subst h; left; simpa using hx
      · rcases ih [] p h x hx with h' | h'
        · simp at h'
        · right; simp [h']
    · rcases ih (c :: cur) p hp x hx with h' | h'
      · rcases List.mem_cons.mp h' with h'' | h''
        · right; simp [h'']
        · left; exact h''
      · right; simp [h']

theorem mem_of_mem_split {s : Bytes} {sep : UInt8} {p : Bytes} (hp : p ∈ split s sep) {x : UInt8} (hx : x ∈ p) : x ∈ s := by
  rcases mem_of_mem_splitAux sep s [] p hp x hx with h | h
  · simp at h
  · exact h

/-! ### validHostname -/

theorem validLabel_toLower (p : Bytes) : validLabel (toLower p) = validLabel p := by
  cases p with
  | nil => rfl
  | cons c r =>
    simp only [toLower_cons, validLabel, isAlnum_toLowerB, beq_toLowerB (fun _ => toLowerB_eq_underscore)]
    congr 1
    simp only [toLower, List.all_map]
    congr 1
    funext d
    simp [isAlnum_toLowerB, beq_toLowerB (fun _ => toLowerB_eq_underscore), beq_toLowerB (fun _ => toLowerB_eq_hyphen)]

theorem validLabel_ne_nil {p : Bytes} (h : validLabel p = true) : p ≠ [] := by
  intro e; subst e; simp [validLabel] at h

theorem validLabel_no_star {p : Bytes} (h : validLabel p = true) : star ∉ p := by
  cases p with
  | nil => simp
  | cons c r =>
    simp only [validLabel, Bool.and_eq_true, List.all_eq_true] at h
    intro hm
    rcases List.mem_cons.mp hm with e | e
    · rw [← e] at h; exact absurd h.1 (by decide)
    · exact absurd (h.2 star e) (by decide)

theorem all_validLabel_toLower (ps : List Bytes) : (ps.map toLower).all validLabel = ps.all validLabel := by
  simp [List.all_map, Function.comp_def, validLabel_toLower]

theorem validHostname_toLower (h : Bytes) (b : Bool) : validHostname (toLower h) b = validHostname h b := by
  unfold validHostname
  have e1 : (if b = true then toLower h else trimDot (toLower h)) = toLower (if b = true then h else trimDot h) := by
    split <;> simp [trimDot_toLower]
  simp only [e1, toLower_isEmpty, toLower_beq_single _ (fun _ => toLowerB_eq_star), split_toLower]
  generalize (if b = true then h else trimDot h) = g
  cases split g dot with
  | nil => rfl
  | cons p ps =>
    simp only [List.map_cons, validLabel_toLower, all_validLabel_toLower, toLower_beq_single _ (fun _ => toLowerB_eq_star)]

/-- What `validHostname` says, as a statement about the labels. -/
theorem validHostname_parts {host : Bytes} {b : Bool} (h : validHostname host b = true) :
    let g := if b then host else trimDot host
    g ≠ [] ∧ g ≠ [star] ∧ ∃ p ps, split g dot = p :: ps ∧ ((b = true ∧ p = [star]) ∨ validLabel p = true) ∧
      ∀ q ∈ ps, validLabel q = true := by
  unfold validHostname at h
  simp only at h ⊢
  generalize (if b = true then host else trimDot host) = g at h ⊢
  split at h
  · cases h
  · rename_i hne
    split at h
    · cases h
    · rename_i hns
      refine ⟨by intro e; subst e; simp at hne, by intro e; subst e; simp at hns, ?_⟩
      cases hs : split g dot with
      | nil => exact absurd hs (split_ne_nil g dot)
      | cons p ps =>
        rw [hs] at h
        simp only [Bool.and_eq_true, Bool.or_eq_true, beq_iff_eq, List.all_eq_true] at h
        exact ⟨p, ps, rfl, h.1, h.2⟩

/-- A valid pattern has no empty label: in particular it does not end with a dot. -/
theorem validPattern_no_trailing_dot {k : Bytes} (h : validHostname k true = true) : k.getLast? ≠ some dot := by
  intro hl
  obtain ⟨_, _, p, ps, hs, hp, hps⟩ := validHostname_parts h
  simp only [if_true] at hs
  have hk : k = k.dropLast ++ [dot] := (dropLast_append_of_getLast? hl).symm
  have hm : [] ∈ split k dot := by rw [hk]; exact nil_mem_split_of_trailing _ _
  rw [hs] at hm
  rcases List.mem_cons.mp hm with e | e
  · rcases hp with ⟨_, hp⟩ | hp
    · rw [hp] at e; cases e
    · exact validLabel_ne_nil hp e.symm
  · exact validLabel_ne_nil (hps _ e) rfl

theorem validPattern_ne_nil {k : Bytes} (h : validHostname k true = true) : k ≠ [] := by
  have := (validHostname_parts h).1
  simpa using this

/-! ### matching -/

theorem matchHostnames_self_lower {k cand : Bytes} (hk : k ≠ []) (he : toLower (trimDot cand) = toLower k) :
    matchHostnames k cand = true := by
  unfold matchHostnames
  simp only [he]
  have hne : (toLower k).isEmpty = false := by
    rw [toLower_isEmpty]; cases k with
    | nil => exact absurd rfl hk
    | cons _ _ => rfl
  simp only [hne, Bool.or_self, Bool.false_eq_true, if_false, ne_eq, not_true_eq_false]
  cases hs : split (toLower k) dot with
  | nil => exact absurd hs (split_ne_nil _ _)
  | cons p ps => simp

/-- Without a wildcard label `matchHostnames` is equality of the lower-cased strings, the host's
trailing dot dropped. -/
theorem matchHostnames_no_star {k cand : Bytes} (hstar : star ∉ k) (h : matchHostnames k cand = true) :
    toLower (trimDot cand) = toLower k := by
  unfold matchHostnames at h
  simp only at h
  split at h
  · cases h
  · split at h
    · cases h
    · cases hs : split (toLower k) dot with
      | nil => exact absurd hs (split_ne_nil _ _)
      | cons p ps =>
        cases hs' : split (toLower (trimDot cand)) dot with
        | nil => exact absurd hs' (split_ne_nil _ _)
        | cons q qs =>
          rw [hs, hs'] at h
          simp only [Bool.and_eq_true, Bool.or_eq_true, beq_iff_eq] at h
          have hp : p ≠ [star] := by
            intro e
            have : star ∈ toLower k := mem_of_mem_split (s := toLower k) (sep := dot) (p := p) (by rw [hs]; simp) (by rw [e]; simp)
            exact hstar ((mem_toLower_iff (fun _ => toLowerB_eq_star)).mp this)
          have hpq : p = q := by
            rcases h.1 with e | e
            · exact absurd e hp
            · exact e
          apply Eq.symm
          apply split_inj (sep := dot)
          rw [hs, hs', hpq, h.2]

theorem matchExactly_iff {a b : Bytes} :
    matchExactly a b = true ↔ a ≠ [] ∧ a ≠ [dot] ∧ b ≠ [] ∧ b ≠ [dot] ∧ toLower a = toLower b := by
  unfold matchExactly
  constructor
  · intro h
    split at h
    · cases h
    · rename_i hc
      simp only [Bool.or_eq_true, List.isEmpty_iff, beq_iff_eq, not_or] at hc
      exact ⟨hc.1.1.1, hc.1.1.2, hc.1.2, hc.2, by simpa using h⟩
  · rintro ⟨h1, h2, h3, h4, h5⟩
    have : (a.isEmpty || a == [dot] || b.isEmpty || b == [dot]) = false := by
      simp [h1, h2, h3, h4]
    simp [this, h5]

/-- The certificate's own DNS name always matches itself (any non-empty name but "."). -/
theorem matchDNS_self {k : Bytes} (h1 : k ≠ []) (h2 : k ≠ [dot]) : matchDNS k (toLower k) = true := by
  unfold matchDNS
  split
  · rename_i hv
    simp only [Bool.and_eq_true] at hv
    apply matchHostnames_self_lower h1
    rw [trimDot_toLower, trimDot_of_no_trailing (validPattern_no_trailing_dot hv.2), toLower_idem]
  · rw [matchExactly_iff]
    refine ⟨h1, h2, ?_, ?_, (toLower_idem k).symm⟩
    · intro e; exact h1 (toLower_eq_nil.mp e)
    · intro e; exact h2 ((toLower_eq_single (fun _ => toLowerB_eq_dot)).mp e)

/-! ### validHostname without the wildcard clause -/

/-- Not empty, not `*`, every dot-separated label valid. -/
def validParts (g : Bytes) : Bool := !g.isEmpty && g != [star] && (split g dot).all validLabel

theorem validHostname_input_eq (h : Bytes) : validHostname h false = validParts (trimDot h) := by
  unfold validHostname validParts
  simp only [Bool.false_eq_true, if_false, Bool.false_and, Bool.false_or]
  cases he : (trimDot h).isEmpty
  · cases hs : (trimDot h == [star])
    · have hs2 : trimDot h ≠ [star] := by simpa using hs
      cases hp : split (trimDot h) dot with
      | nil => simp [hs2]
      | cons p ps => simp [hs2]
    · have hs2 : trimDot h = [star] := by simpa using hs
      simp [hs2]
  · simp

theorem validHostname_pattern_eq {k : Bytes} (hstar : star ∉ k) : validHostname k true = validParts k := by
  unfold validHostname validParts
  simp only [if_true, Bool.true_and]
  cases he : k.isEmpty
  · cases hs : (k == [star])
    · cases hp : split k dot with
      | nil => exact absurd hp (split_ne_nil _ _)
      | cons p ps =>
        have : (p == [star]) = false := by
          apply Bool.eq_false_iff.mpr
          intro e
          have e' : p = [star] := by simpa using e
          exact hstar (mem_of_mem_split (s := k) (sep := dot) (p := p) (by rw [hp]; simp) (by rw [e']; simp))
        have hs2 : k ≠ [star] := by simpa using hs
        simp [this, hs2]
    · have hs2 : k = [star] := by simpa using hs
      simp [hs2]
  · simp

theorem validParts_toLower (g : Bytes) : validParts (toLower g) = validParts g := by
  unfold validParts
  rw [toLower_isEmpty, split_toLower, all_validLabel_toLower]
  have : (toLower g != [star]) = (g != [star]) := by
    simp only [bne, toLower_beq_single _ (fun _ => toLowerB_eq_star)]
  rw [this]

theorem getLast?_of_toLower_dot {k : Bytes} (h : (toLower k).getLast? = some dot) : k.getLast? = some dot := by
  rw [getLast?_toLower] at h
  cases hk : k.getLast? with
  | none => rw [hk] at h; cases h
  | some c =>
    rw [hk] at h
    simp only [Option.map_some, Option.some.injEq] at h
    rw [toLowerB_eq_dot.mp h]

end Martian.Mitm
