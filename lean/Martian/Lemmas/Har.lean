import Martian.Model.Har
import Martian.Lemmas.MessageView
/-! Helper lemmas for C16: base64 round trip, ASCII ⇒ valid UTF-8, sort membership. -/
namespace Martian.Har
open Martian Martian.Go Martian.MessageView

/-! ### base64 -/

theorem b64Val_b64Char : ∀ i, i < 64 → b64Val (b64Char i) = some i := by decide
theorem b64Char_ne_pad : ∀ i, i < 64 → (b64Char i == pad) = false := by decide
theorem b64Char_ascii : ∀ i, i < 64 → b64Char i < 0x80 := by decide

theorem b64Encode_cons_ne_nil (a : UInt8) (r : Bytes) : ∃ y ys, b64Encode (a :: r) = y :: ys := by
  match r with
  | [] => exact ⟨_, _, rfl⟩
  | [b] => exact ⟨_, _, rfl⟩
  | b :: c :: rest => exact ⟨_, _, rfl⟩

theorem ofNat_eq (a : UInt8) (n : Nat) (h : n = a.toNat) : UInt8.ofNat n = a := by
  subst h; exact UInt8.ofNat_toNat

theorem b64_roundtrip (x : Bytes) : b64Decode (b64Encode x) = some x := by
  fun_induction b64Encode x with
  | case1 => rfl
  | case2 a =>
    have ha := a.toNat_lt
    have h0 : a.toNat / 4 < 64 := by omega
    have h1 : a.toNat % 4 * 16 < 64 := by omega
    simp only [b64Decode, b64Val_b64Char _ h0, b64Val_b64Char _ h1]
    have : a.toNat / 4 * 4 + a.toNat % 4 * 16 / 16 = a.toNat := by omega
    rw [ofNat_eq a _ this]
    rfl
  | case3 a b =>
    have ha := a.toNat_lt
    have hb := b.toNat_lt
    have h0 : a.toNat / 4 < 64 := by omega
    have h1 : a.toNat % 4 * 16 + b.toNat / 16 < 64 := by omega
    have h2 : b.toNat % 16 * 4 < 64 := by omega
    simp only [b64Decode, b64Val_b64Char _ h0, b64Val_b64Char _ h1, b64Val_b64Char _ h2, b64Char_ne_pad _ h2]
    have e1 : a.toNat / 4 * 4 + (a.toNat % 4 * 16 + b.toNat / 16) / 16 = a.toNat := by omega
    have e2 : (a.toNat % 4 * 16 + b.toNat / 16) % 16 * 16 + b.toNat % 16 * 4 / 4 = b.toNat := by omega
    rw [ofNat_eq a _ e1, ofNat_eq b _ e2]
    rfl
  | case4 a b c rest ih =>
    have ha := a.toNat_lt
    have hb := b.toNat_lt
    have hc := c.toNat_lt
    have h0 : a.toNat / 4 < 64 := by omega
    have h1 : a.toNat % 4 * 16 + b.toNat / 16 < 64 := by omega
    have h2 : b.toNat % 16 * 4 + c.toNat / 64 < 64 := by omega
    have h3 : c.toNat % 64 < 64 := by omega
    have e1 : a.toNat / 4 * 4 + (a.toNat % 4 * 16 + b.toNat / 16) / 16 = a.toNat := by omega
    have e2 : (a.toNat % 4 * 16 + b.toNat / 16) % 16 * 16 + (b.toNat % 16 * 4 + c.toNat / 64) / 4 = b.toNat := by omega
    have e3 : (b.toNat % 16 * 4 + c.toNat / 64) % 4 * 64 + c.toNat % 64 = c.toNat := by omega
    match rest, ih with
    | [], _ =>
      simp only [b64Encode, b64Decode, b64Val_b64Char _ h0, b64Val_b64Char _ h1, b64Val_b64Char _ h2,
        b64Val_b64Char _ h3, b64Char_ne_pad _ h2, b64Char_ne_pad _ h3]
      rw [ofNat_eq a _ e1, ofNat_eq b _ e2, ofNat_eq c _ e3]
      rfl
    | r :: rs, ih =>
      obtain ⟨y, ys, hy⟩ := b64Encode_cons_ne_nil r rs
      rw [hy] at ih ⊢
      simp only [b64Decode, b64Val_b64Char _ h0, b64Val_b64Char _ h1, b64Val_b64Char _ h2,
        b64Val_b64Char _ h3, ih]
      rw [ofNat_eq a _ e1, ofNat_eq b _ e2, ofNat_eq c _ e3]

theorem b64Encode_ascii (x : Bytes) : ∀ c ∈ b64Encode x, c < 0x80 := by
  fun_induction b64Encode x with
  | case1 => simp
  | case2 a =>
    have ha := a.toNat_lt
    intro c hc
    simp only [List.mem_cons, List.not_mem_nil, or_false] at hc
    rcases hc with h | h | h | h <;> subst h
    · exact b64Char_ascii _ (by omega)
    · exact b64Char_ascii _ (by omega)
    · decide
    · decide
  | case3 a b =>
    have ha := a.toNat_lt
    have hb := b.toNat_lt
    intro c hc
    simp only [List.mem_cons, List.not_mem_nil, or_false] at hc
    rcases hc with h | h | h | h <;> subst h
    · exact b64Char_ascii _ (by omega)
    · exact b64Char_ascii _ (by omega)
    · exact b64Char_ascii _ (by omega)
    · decide
  | case4 a b c rest ih =>
    have ha := a.toNat_lt
    have hb := b.toNat_lt
    have hc := c.toNat_lt
    intro x hx
    simp only [List.mem_cons] at hx
    rcases hx with h | h | h | h | h
    · subst h; exact b64Char_ascii _ (by omega)
    · subst h; exact b64Char_ascii _ (by omega)
    · subst h; exact b64Char_ascii _ (by omega)
    · subst h; exact b64Char_ascii _ (by omega)
    · exact ih x h

/-! ### UTF-8 -/

theorem utf8Valid_cons_ascii (c : UInt8) (r : Bytes) (hc : c < 0x80) : utf8Valid (c :: r) = utf8Valid r := by
  conv => lhs; unfold utf8Valid
  simp [hc]

theorem utf8Valid_of_ascii (s : Bytes) (h : ∀ c ∈ s, c < 0x80) : utf8Valid s = true := by
  induction s with
  | nil => rfl
  | cons c r ih =>
    have hc : c < 0x80 := h c (by simp)
    rw [utf8Valid_cons_ascii c r hc]
    exact ih (fun x hx => h x (by simp [hx]))

theorem base64Tok_eq : base64Tok = [98, 97, 115, 101, 54, 52] := by decide
theorem base64Tok_valid : utf8Valid base64Tok = true := by
  apply utf8Valid_of_ascii
  rw [base64Tok_eq]; decide
theorem nil_ne_base64Tok : (([] : Bytes) == base64Tok) = false := by rw [base64Tok_eq]; rfl

/-! ### `Header.Map` -/

theorem mem_setKey_some (h : List KV) (k : Bytes) (vs : List Bytes) (kv : KV) :
    kv ∈ setKey h k (some vs) ↔ (kv ∈ h ∧ kv.1 ≠ k) ∨ (kv.1 = k ∧ kv.2 ∈ vs) := by
  obtain ⟨a, b⟩ := kv
  simp [setKey]
  constructor
  · rintro (h1 | ⟨h1, h2⟩)
    · exact Or.inl h1
    · exact Or.inr ⟨h2.symm, h1⟩
  · rintro (h1 | ⟨h1, h2⟩)
    · exact Or.inl h1
    · exact Or.inr ⟨h2, h1.symm⟩

theorem mem_setKey_of_mem (h : List KV) (k : Bytes) (vs : Option (List Bytes)) (kv : KV)
    (hm : kv ∈ h) (hk : kv.1 ≠ k) : kv ∈ setKey h k vs := by
  cases vs with
  | none => exact hm
  | some vs => exact (mem_setKey_some h k vs kv).2 (Or.inl ⟨hm, hk⟩)

theorem hostKey_ne_clKey : hostKey ≠ clKey := by decide
theorem hostKey_ne_teKey : hostKey ≠ teKey := by decide
theorem clKey_ne_teKey : clKey ≠ teKey := by decide

theorem clKey_ne_hostKey : clKey ≠ hostKey := by decide
theorem teKey_ne_hostKey : teKey ≠ hostKey := by decide
theorem teKey_ne_clKey : teKey ≠ clKey := by decide

theorem mem_setKey (h : List KV) (k : Bytes) (vs : Option (List Bytes)) (kv : KV) :
    kv ∈ setKey h k vs ↔
      match vs with
      | none => kv ∈ h
      | some vs => (kv ∈ h ∧ kv.1 ≠ k) ∨ (kv.1 = k ∧ kv.2 ∈ vs) := by
  cases vs with
  | none => simp [setKey]
  | some vs => exact mem_setKey_some h k vs kv

theorem headerMap_eq (m : Msg) :
    headerMap m = setKey (setKey (setKey m.hdr hostKey (fieldOf m hostKey)) clKey (fieldOf m clKey))
      teKey (fieldOf m teKey) := by
  have h1 : (clKey == hostKey) = false := by decide
  have h2 : (teKey == hostKey) = false := by decide
  have h3 : (teKey == clKey) = false := by decide
  simp [headerMap, fieldOf, h1, h2, h3]

/-- Membership in `Header.Map`: a key with a struct field behind it lists the field's values,
any other key the map's own lines. -/
theorem mem_headerMap (m : Msg) (kv : KV) :
    kv ∈ headerMap m ↔
      match fieldOf m kv.1 with
      | some vs => kv.2 ∈ vs
      | none => kv ∈ m.hdr := by
  rw [headerMap_eq]
  obtain ⟨k, v⟩ := kv
  simp only [mem_setKey]
  by_cases hk1 : k = hostKey
  · subst hk1
    have e2 : fieldOf m clKey = fieldOf m clKey := rfl
    cases hH : fieldOf m hostKey <;> cases hC : fieldOf m clKey <;> cases hT : fieldOf m teKey <;>
      simp [hostKey_ne_clKey, hostKey_ne_teKey]
  · by_cases hk2 : k = clKey
    · subst hk2
      cases hH : fieldOf m hostKey <;> cases hC : fieldOf m clKey <;> cases hT : fieldOf m teKey <;>
        simp [clKey_ne_hostKey, clKey_ne_teKey]
    · by_cases hk3 : k = teKey
      · subst hk3
        cases hH : fieldOf m hostKey <;> cases hC : fieldOf m clKey <;> cases hT : fieldOf m teKey <;>
          simp [teKey_ne_hostKey, teKey_ne_clKey]
      · have hN : fieldOf m k = none := by
          simp [fieldOf, hk1, hk2, hk3]
        cases hH : fieldOf m hostKey <;> cases hC : fieldOf m clKey <;> cases hT : fieldOf m teKey <;>
          simp [hN, hk1, hk2, hk3]

theorem mem_headerMap_of_field (m : Msg) (k : Bytes) (vs : List Bytes) (v : Bytes)
    (hf : fieldOf m k = some vs) : (k, v) ∈ headerMap m ↔ v ∈ vs := by
  rw [mem_headerMap]; simp [hf]

theorem mem_headerMap_absent (m : Msg) (k v : Bytes) (hf : fieldOf m k = none) :
    (k, v) ∈ headerMap m ↔ (k, v) ∈ m.hdr := by
  rw [mem_headerMap]; simp [hf]

theorem mem_headerMap_ordinary (m : Msg) (kv : KV)
    (hk : kv.1 ≠ clKey ∧ kv.1 ≠ teKey ∧ (m.isReq = true → kv.1 ≠ hostKey)) :
    kv ∈ headerMap m ↔ kv ∈ m.hdr := by
  rw [mem_headerMap]
  have : fieldOf m kv.1 = none := by
    obtain ⟨h1, h2, h3⟩ := hk
    unfold fieldOf
    by_cases hh : kv.1 = hostKey
    · cases hr : m.isReq
      · simp [hh]
      · exact absurd hh (h3 hr)
    · simp [hh, h1, h2]
  simp [this]

theorem mem_wireFields (m : Msg) (kv : KV) :
    kv ∈ wireFields m ↔
      (m.isReq = true ∧ m.host ≠ [] ∧ kv = (hostKey, m.host)) ∨
      (m.te ≠ [] ∧ kv = (teKey, join m.te (strBytes ", "))) ∨
      (isChunked m.te = false ∧ 0 ≤ m.cl ∧ kv = (clKey, itoa m.cl)) ∨
      (kv ∈ m.hdr ∧ (m.isReq = true → kv.1 ≠ hostKey) ∧ kv.1 ≠ clKey ∧ kv.1 ≠ teKey) := by
  unfold wireFields
  cases hr : m.isReq <;> cases hh : m.host <;> cases ht : m.te <;> cases hc : isChunked m.te <;>
    by_cases hcl : 0 ≤ m.cl <;>
    simp_all [mem_sortKV, List.mem_filter]

theorem mem_wireFields_ordinary (m : Msg) (kv : KV)
    (hk : kv.1 ≠ clKey ∧ kv.1 ≠ teKey ∧ (m.isReq = true → kv.1 ≠ hostKey)) :
    kv ∈ wireFields m ↔ kv ∈ m.hdr := by
  rw [mem_wireFields]
  obtain ⟨h1, h2, h3⟩ := hk
  constructor
  · rintro (⟨hr, _, rfl⟩ | ⟨_, rfl⟩ | ⟨_, _, rfl⟩ | ⟨h, _⟩)
    · exact absurd rfl (h3 hr)
    · exact absurd rfl h2
    · exact absurd rfl h1
    · exact h
  · intro h; exact Or.inr (Or.inr (Or.inr ⟨h, h3, h1, h2⟩))

theorem join_singleton (v sep : Bytes) : join [v] sep = v := by
  simp [join, List.intercalate]

theorem fieldOf_some (m : Msg) (k : Bytes) (vs : List Bytes) (hf : fieldOf m k = some vs) :
    (k = hostKey ∧ m.isReq = true ∧ m.host ≠ [] ∧ vs = [m.host]) ∨
    (k = clKey ∧ 0 < m.cl ∧ vs = [itoa m.cl]) ∨
    (k = teKey ∧ m.te ≠ [] ∧ vs = m.te) := by
  unfold fieldOf at hf
  split at hf
  · rename_i h1
    split at hf
    · rename_i hc
      simp only [Bool.and_eq_true, Bool.not_eq_true', List.isEmpty_eq_false_iff] at hc
      simp at hf
      exact Or.inl ⟨by simpa using h1, hc.1, hc.2, hf.symm⟩
    · simp at hf
  · split at hf
    · rename_i h2
      split at hf
      · rename_i hc
        simp at hf
        exact Or.inr (Or.inl ⟨by simpa using h2, hc, hf.symm⟩)
      · simp at hf
    · split at hf
      · rename_i h3
        split at hf
        · simp at hf
        · rename_i hc
          simp at hf
          exact Or.inr (Or.inr ⟨by simpa using h3, by simpa using hc, hf.symm⟩)
      · simp at hf

theorem mem_wireFields_of_field (m : Msg) (k : Bytes) (vs : List Bytes) (v : Bytes)
    (hf : fieldOf m k = some vs) (hcl : k = clKey → isChunked m.te = false) :
    (k, v) ∈ wireFields m ↔ v = join vs (strBytes ", ") := by
  rw [mem_wireFields]
  rcases fieldOf_some m k vs hf with ⟨rfl, hr, hh, rfl⟩ | ⟨rfl, hc, rfl⟩ | ⟨rfl, ht, rfl⟩
  · simp [join_singleton, hr, hh, hostKey_ne_clKey, hostKey_ne_teKey]
  · have : 0 ≤ m.cl := by omega
    simp [join_singleton, hcl rfl, this, clKey_ne_hostKey, clKey_ne_teKey]
  · simp [ht, teKey_ne_hostKey, teKey_ne_clKey]

end Martian.Har
