import Martian.Model.Har
import Martian.Lemmas.MessageView
/-! Helper lemmas for C16: base64 round trip, ASCII ⇒ valid UTF-8, sort membership. -/
namespace Martian.Har
open Martian Martian.Go Martian.MessageView

/-! ### base64 -/

theorem b64Val_b64Char : ∀ i, i < 64 → b64Val (b64Char i) = some i := by decide
theorem b64Char_ne_pad : ∀ i, i < 64 → (b64Char i == pad) = false := by decide
theorem b64Char_ascii : ∀ i, i < 64 → b64Char i < 0x80 := by decide

theorem b64Encode_cons_ne_nil (a : UInt8) (r : Bytes) : ∃ y ys, b64Encode (a :: r) = y :: ys := by
  match r with
  | [] => exact ⟨_, _, rfl⟩
  | [b] => exact ⟨_, _, rfl⟩
  | b :: c :: rest => exact ⟨_, _, rfl⟩

theorem ofNat_eq (a : UInt8) (n : Nat) (h : n = a.toNat) : UInt8.ofNat n = a := by
  subst h; exact UInt8.ofNat_toNat

theorem b64_roundtrip (x : Bytes) : b64Decode (b64Encode x) = some x := by
  fun_induction b64Encode x with
  | case1 => rfl
  | case2 a =>
    have ha := a.toNat_lt
    have h0 : a.toNat / 4 < 64 := by omega
    have h1 : a.toNat % 4 * 16 < 64 := by omega
    simp only [b64Decode, b64Val_b64Char _ h0, b64Val_b64Char _ h1]
    have : a.toNat / 4 * 4 + a.toNat % 4 * 16 / 16 = a.toNat := by omega
    rw [ofNat_eq a _ this]
    rfl
  | case3 a b =>
    have ha := a.toNat_lt
    have hb := b.toNat_lt
    have h0 : a.toNat / 4 < 64 := by omega
    have h1 : a.toNat % 4 * 16 + b.toNat / 16 < 64 := by omega
    have h2 : b.toNat % 16 * 4 < 64 := by omega
    simp only [b64Decode, b64Val_b64Char _ h0, b64Val_b64Char _ h1, b64Val_b64Char _ h2, b64Char_ne_pad _ h2]
    have e1 : a.toNat / 4 * 4 + (a.toNat % 4 * 16 + b.toNat / 16) / 16 = a.toNat := by omega
    have e2 : (a.toNat % 4 * 16 + b.toNat / 16) % 16 * 16 + b.toNat % 16 * 4 / 4 = b.toNat := by omega
    rw [ofNat_eq a _ e1, ofNat_eq b _ e2]
    rfl
  | case4 a b c rest ih =>
    have ha := a.toNat_lt
    have hb := b.toNat_lt
    have hc := c.toNat_lt
    have h0 : a.toNat / 4 < 64 := by omega
    have h1 : a.toNat % 4 * 16 + b.toNat / 16 < 64 := by omega
    have h2 : b.toNat % 16 * 4 + c.toNat / 64 < 64 := by omega
    have h3 : c.toNat % 64 < 64 := by omega
    have e1 : a.toNat / 4 * 4 + (a.toNat % 4 * 16 + b.toNat / 16) / 16 = a.toNat := by omega
    have e2 : (a.toNat % 4 * 16 + b.toNat / 16) % 16 * 16 + (b.toNat % 16 * 4 + c.toNat / 64) / 4 = b.toNat := by omega
    have e3 : (b.toNat % 16 * 4 + c.toNat / 64) % 4 * 64 + c.toNat % 64 = c.toNat := by omega
    match rest, ih with
    | [], _ =>
      simp only [b64Encode, b64Decode, b64Val_b64Char _ h0, b64Val_b64Char _ h1, b64Val_b64Char _ h2,
        b64Val_b64Char _ h3, b64Char_ne_pad _ h2, b64Char_ne_pad _ h3]
      rw [ofNat_eq a _ e1, ofNat_eq b _ e2, ofNat_eq c _ e3]
      rfl
    | r :: rs, ih =>
      obtain ⟨y, ys, hy⟩ := b64Encode_cons_ne_nil r rs
      rw [hy] at ih ⊢
      simp only [b64Decode, b64Val_b64Char _ h0, b64Val_b64Char _ h1, b64Val_b64Char _ h2,
        b64Val_b64Char _ h3, ih]
      rw [ofNat_eq a _ e1, ofNat_eq b _ e2, ofNat_eq c _ e3]

theorem b64Encode_ascii (x : Bytes) : ∀ c ∈ b64Encode x, c < 0x80 := by
  fun_induction b64Encode x with
  | case1 => simp
  | case2 a =>
    have ha := a.toNat_lt
    intro c hc
    simp only [List.mem_cons, List.not_mem_nil, or_false] at hc
    rcases hc with h | h | h | h <;> subst h
    · exact b64Char_ascii _ (by omega)
    · exact b64Char_ascii _ (by omega)
    · decide
    · decide
  | case3 a b =>
    have ha := a.toNat_lt
    have hb := b.toNat_lt
    intro c hc
    simp only [List.mem_cons, List.not_mem_nil, or_false] at hc
    rcases hc with h | h | h | h <;> subst h
    · exact b64Char_ascii _ (by omega)
    · exact b64Char_ascii _ (by omega)
    · exact b64Char_ascii _ (by omega)
    · decide
  | case4 a b c rest ih =>
    have ha := a.toNat_lt
    have hb := b.toNat_lt
    have hc := c.toNat_lt
    intro x hx
    simp only [List.mem_cons] at hx
    rcases hx with h | h | h | h | h
    · subst h; exact b64Char_ascii _ (by omega)
    · subst h; exact b64Char_ascii _ (by omega)
    · subst h; exact b64Char_ascii _ (by omega)
    · subst h; exact b64Char_ascii _ (by omega)
    · exact ih x h

/-! ### UTF-8 -/

theorem utf8Valid_cons_ascii (c : UInt8) (r : Bytes) (hc : c < 0x80) : utf8Valid (c :: r) = utf8Valid r := by
  conv => lhs; unfold utf8Valid
  simp [hc]

theorem utf8Valid_of_ascii (s : Bytes) (h : ∀ c ∈ s, c < 0x80) : utf8Valid s = true := by
  induction s with
  | nil => rfl
  | cons c r ih =>
    have hc : c < 0x80 := h c (by simp)
    rw [utf8Valid_cons_ascii c r hc]
    exact ih (fun x hx => h x (by simp [hx]))

theorem base64Tok_eq : base64Tok = [98, 97, 115, 101, 54, 52] := by decide
theorem base64Tok_valid : utf8Valid base64Tok = true := by
  apply utf8Valid_of_ascii
  rw [base64Tok_eq]; decide
theorem nil_ne_base64Tok : (([] : Bytes) == base64Tok) = false := by rw [base64Tok_eq]; rfl

/-! ### `Header.Map` -/

theorem mem_setKey_some (h : List KV) (k : Bytes) (vs : List Bytes) (kv : KV) :
    kv ∈ setKey h k (some vs) ↔ (kv ∈ h ∧ kv.1 ≠ k) ∨ (kv.1 = k ∧ kv.2 ∈ vs) := by
  obtain ⟨a, b⟩ := kv
  simp [setKey]
  constructor
  · rintro (h1 | ⟨h1, h2⟩)
    · exact Or.inl h1
    · exact Or.inr ⟨h2.symm, h1⟩
  · rintro (h1 | ⟨h1, h2⟩)
    · exact Or.inl h1
    · exact Or.inr ⟨h2, h1.symm⟩

theorem mem_setKey_of_mem (h : List KV) (k : Bytes) (vs : Option (List Bytes)) (kv : KV)
    (hm : kv ∈ h) (hk : kv.1 ≠ k) : kv ∈ setKey h k vs := by
  cases vs with
  | none => exact hm
  | some vs => exact (mem_setKey_some h k vs kv).2 (Or.inl ⟨hm, hk⟩)

theorem hostKey_ne_clKey : hostKey ≠ clKey := by decide
theorem hostKey_ne_teKey : hostKey ≠ teKey := by decide
theorem clKey_ne_teKey : clKey ≠ teKey := by decide

end Martian.Har
