import Martian.Model.Config
/-! Helper lemmas for C12 (core Lean only). -/
namespace Martian.Config

/-! ### priority insertion -/

theorem snocInd {α : Type} {P : List α → Prop} (h0 : P []) (h1 : ∀ xs x, P xs → P (xs ++ [x])) (l : List α) : P l := by
  have : ∀ r : List α, P r.reverse := by
    intro r
    induction r with
    | nil => simpa using h0
    | cons a r ih => simpa using h1 _ a ih
  simpa using this l.reverse

/-- non-increasing priorities -/
def SortedDesc {α : Type} (l : List (Int × α)) : Prop := l.Pairwise (fun a b => a.1 ≥ b.1)

theorem mem_ins {α : Type} {x y : Int × α} {l : List (Int × α)} : y ∈ ins x l ↔ y = x ∨ y ∈ l := by
  induction l with
  | nil => simp [ins]
  | cons m ms ih =>
    unfold ins
    split
    · simp
    · simp only [List.mem_cons, ih]
      constructor
      · rintro (h | h | h)
        · exact .inr (.inl h)
        · exact .inl h
        · exact .inr (.inr h)
      · rintro (h | h | h)
        · exact .inr (.inl h)
        · exact .inl h
        · exact .inr (.inr h)

theorem ins_sorted {α : Type} (x : Int × α) {l : List (Int × α)} (h : SortedDesc l) : SortedDesc (ins x l) := by
  induction l with
  | nil => simp [ins, SortedDesc]
  | cons m ms ih =>
    have hm := (List.pairwise_cons.mp h)
    unfold ins
    split
    · rename_i hge
      refine List.pairwise_cons.mpr ⟨?_, h⟩
      intro y hy
      rcases List.mem_cons.mp hy with rfl | hy
      · exact hge
      · have := hm.1 y hy; omega
    · rename_i hlt
      refine List.pairwise_cons.mpr ⟨?_, ih hm.2⟩
      intro y hy
      rcases mem_ins.mp hy with rfl | hy
      · omega
      · exact hm.1 y hy

theorem insertAll_snoc {α : Type} (xs : List (Int × α)) (x : Int × α) :
    insertAll (xs ++ [x]) = ins x (insertAll xs) := by
  simp [insertAll, List.foldl_append]

theorem insertAll_sorted {α : Type} (xs : List (Int × α)) : SortedDesc (insertAll xs) := by
  induction xs using snocInd with
  | h0 => simp [insertAll, SortedDesc]
  | h1 xs x ih => rw [insertAll_snoc]; exact ins_sorted x ih

theorem insertAll_eq_stableSort {α : Type} (xs : List (Int × α)) : insertAll xs = stableSortDesc xs.reverse := by
  induction xs using snocInd with
  | h0 => simp [insertAll, stableSortDesc]
  | h1 xs x ih => rw [insertAll_snoc, ih]; simp [stableSortDesc]

/-- the new element goes in front of every element of equal priority (later-listed first among equals) -/
theorem ins_split {α : Type} (x : Int × α) (l : List (Int × α)) :
    ∃ pre suf, ins x l = pre ++ x :: suf ∧ l = pre ++ suf ∧ (∀ m ∈ pre, m.1 > x.1) := by
  induction l with
  | nil => exact ⟨[], [], rfl, rfl, by simp⟩
  | cons m ms ih =>
    unfold ins
    split
    · exact ⟨[], m :: ms, rfl, rfl, by simp⟩
    · rename_i hlt
      obtain ⟨pre, suf, h1, h2, h3⟩ := ih
      refine ⟨m :: pre, suf, by simp [h1], by simp [h2], ?_⟩
      intro y hy
      rcases List.mem_cons.mp hy with rfl | hy
      · omega
      · exact h3 y hy

theorem ins_perm {α : Type} (x : Int × α) (l : List (Int × α)) : (ins x l).Perm (x :: l) := by
  induction l with
  | nil => simp [ins]
  | cons m ms ih =>
    unfold ins
    split
    · exact List.Perm.refl _
    · exact (List.Perm.cons m ih).trans (List.Perm.swap x m ms)

theorem filter_ins {α : Type} (p : Int) (x : Int × α) (l : List (Int × α)) :
    (ins x l).filter (fun y => y.1 == p) = if x.1 == p then x :: l.filter (fun y => y.1 == p) else l.filter (fun y => y.1 == p) := by
  obtain ⟨pre, suf, h1, h2, h3⟩ := ins_split x l
  rw [h1, h2]
  simp only [List.filter_append, List.filter_cons]
  by_cases hx : x.1 = p
  · have : pre.filter (fun y => y.1 == p) = [] := by
      apply List.filter_eq_nil_iff.mpr
      intro m hm
      have := h3 m hm
      simp; omega
    simp [hx, this]
  · simp [hx]

theorem ins_of_ge_head {α : Type} (x : Int × α) (l : List (Int × α)) (h : ∀ z ∈ l, x.1 ≥ z.1) : ins x l = x :: l := by
  cases l with
  | nil => rfl
  | cons m ms => simp [ins, h m (by simp)]

theorem ins_map {α β : Type} (f : Int × α → Int × β) (hf : ∀ a, (f a).1 = a.1) (x : Int × α) (l : List (Int × α)) :
    (ins x l).map f = ins (f x) (l.map f) := by
  induction l with
  | nil => simp [ins]
  | cons m ms ih =>
    simp only [ins, List.map_cons, hf]
    split
    · simp
    · simp [ih]

theorem insertAll_map {α β : Type} (f : Int × α → Int × β) (hf : ∀ a, (f a).1 = a.1) (l : List (Int × α)) :
    insertAll (l.map f) = (insertAll l).map f := by
  induction l using snocInd with
  | h0 => simp [insertAll]
  | h1 xs x ih => rw [List.map_append, List.map_singleton, insertAll_snoc, insertAll_snoc, ih, ins_map f hf]

theorem ins_cons_ge {α : Type} {x m : Int × α} (ms : List (Int × α)) (h : x.1 ≥ m.1) : ins x (m :: ms) = x :: m :: ms := by
  simp [ins, h]

theorem ins_cons_lt {α : Type} {x m : Int × α} (ms : List (Int × α)) (h : ¬ x.1 ≥ m.1) : ins x (m :: ms) = m :: ins x ms := by
  simp [ins, h]

theorem ins_filterMap {α β : Type} (f : Int × α → Option (Int × β)) (hf : ∀ a b, f a = some b → b.1 = a.1)
    (x : Int × α) {l : List (Int × α)} (hs : SortedDesc l) :
    (ins x l).filterMap f = (match f x with | some y => ins y (l.filterMap f) | none => l.filterMap f) := by
  induction l with
  | nil => cases h : f x <;> simp [ins, h]
  | cons m ms ih =>
    have hm := List.pairwise_cons.mp hs
    by_cases hge : x.1 ≥ m.1
    · rw [ins_cons_ge ms hge]
      cases hx : f x with
      | none => rw [List.filterMap_cons_none hx]
      | some y =>
        rw [List.filterMap_cons_some hx]
        show _ = ins y ((m :: ms).filterMap f)
        rw [ins_of_ge_head]
        intro z hz
        obtain ⟨a, ha, hfa⟩ := List.mem_filterMap.mp hz
        have h1 := hf a z hfa
        have h2 := hf x y hx
        rcases List.mem_cons.mp ha with rfl | ha
        · omega
        · have := hm.1 a ha; omega
    · rw [ins_cons_lt ms hge]
      cases hfm : f m with
      | none =>
        rw [List.filterMap_cons_none hfm, List.filterMap_cons_none hfm]
        exact ih hm.2
      | some m' =>
        have h1 := hf m m' hfm
        rw [List.filterMap_cons_some hfm, List.filterMap_cons_some hfm, ih hm.2]
        cases hx : f x with
        | none => rfl
        | some y =>
          have h2 := hf x y hx
          show _ = ins y (m' :: ms.filterMap f)
          rw [ins_cons_lt _ (by omega)]

theorem insertAll_filterMap {α β : Type} (f : Int × α → Option (Int × β)) (hf : ∀ a b, f a = some b → b.1 = a.1)
    (l : List (Int × α)) : insertAll (l.filterMap f) = (insertAll l).filterMap f := by
  induction l using snocInd with
  | h0 => simp [insertAll]
  | h1 xs x ih =>
    rw [List.filterMap_append, insertAll_snoc, ins_filterMap f hf x (insertAll_sorted xs), ← ih]
    cases hx : f x with
    | none => simp [hx]
    | some y => simp [hx, insertAll_snoc]

/-- Two descending lists with the same elements of every priority, in the same order, are equal. -/
theorem sorted_filter_unique {α : Type} : ∀ (l1 l2 : List (Int × α)), SortedDesc l1 → SortedDesc l2 →
    (∀ p : Int, l1.filter (fun y => y.1 == p) = l2.filter (fun y => y.1 == p)) → l1 = l2
  | [], [], _, _, _ => rfl
  | [], b :: t2, _, _, h => by have := h b.1; simp at this
  | a :: t1, [], _, _, h => by have := h a.1; simp at this
  | a :: t1, b :: t2, h1, h2, h => by
    have s1 := List.pairwise_cons.mp h1
    have s2 := List.pairwise_cons.mp h2
    have hab : a = b := by
      by_cases hp : a.1 = b.1
      · have := h a.1
        simp [hp] at this
        exact this.1
      · -- a occurs in `b :: t2`, b occurs in `a :: t1`
        have ha : a ∈ (b :: t2).filter (fun y => y.1 == a.1) := by rw [← h a.1]; simp
        have hb : b ∈ (a :: t1).filter (fun y => y.1 == b.1) := by rw [h b.1]; simp
        have ha' := (List.mem_filter.mp ha).1
        have hb' := (List.mem_filter.mp hb).1
        rcases List.mem_cons.mp ha' with e | ha'
        · exact e
        · rcases List.mem_cons.mp hb' with e | hb'
          · exact e.symm
          · have := s2.1 a ha'; have := s1.1 b hb'; omega
    subst hab
    congr 1
    apply sorted_filter_unique t1 t2 s1.2 s2.2
    intro p
    have := h p
    simp only [List.filter_cons] at this
    split at this
    · exact List.cons.inj this |>.2
    · exact this

/-! ### parse.NewResult -/

def pick (k : Kind) (reqmod resmod : Mod) : Mod := match k with | .req => reqmod | .res => resmod

theorem scopeLoop_ok {caps : Caps} {qm sm : Mod} : ∀ {ts : List Tok} {r0 r : Result},
    scopeLoop caps qm sm ts r0 = .ok r →
    r.req = (if ts.contains .request then some qm else r0.req) ∧
    r.res = (if ts.contains .response then some sm else r0.res)
  | [], r0, r, h => by simp [scopeLoop] at h; subst h; simp
  | .request :: ts, r0, r, h => by
    simp only [scopeLoop] at h
    split at h
    · simp at h
    · have := scopeLoop_ok h
      constructor
      · rw [this.1]; simp
      · rw [this.2]; simp
  | .response :: ts, r0, r, h => by
    simp only [scopeLoop] at h
    split at h
    · simp at h
    · have := scopeLoop_ok h
      constructor
      · rw [this.1]; simp
      · rw [this.2]; simp
  | .other :: ts, r0, r, h => by simp [scopeLoop] at h

/-- Scope projection: the result exposes exactly the sides named by the scope (absent scope: the
sides the modifier supports). -/
theorem newResult_side {caps : Caps} {qm sm : Mod} {scope : Scope} {r : Result}
    (h : newResult caps qm sm scope = .ok r) (k : Kind) :
    r.side k = if acts scope caps k then some (pick k qm sm) else none := by
  cases scope with
  | none =>
    simp only [newResult, Except.ok.injEq] at h
    subst h
    cases k <;> simp [Result.side, acts, Caps.has, pick] <;> rfl
  | some ts =>
    have := scopeLoop_ok (show scopeLoop caps qm sm ts ⟨none, none⟩ = .ok r from h)
    cases k
    · simp only [Result.side, this.1, acts, Kind.tok, pick]; rfl
    · simp only [Result.side, this.2, acts, Kind.tok, pick]; rfl

def okB {ε α : Type} : Except ε α → Bool
  | .ok _ => true
  | .error _ => false

theorem scopeOk_cons (caps : Caps) (t : Tok) (ts : List Tok) :
    scopeOk caps (some (t :: ts)) =
      (tokOk caps t && scopeOk caps (some ts)) := by
  simp [scopeOk]

theorem scopeLoop_okB (caps : Caps) (qm sm : Mod) : ∀ (ts : List Tok) (r0 : Result),
    okB (scopeLoop caps qm sm ts r0) = scopeOk caps (some ts)
  | [], r0 => by simp [scopeLoop, scopeOk, okB]
  | .request :: ts, r0 => by
    have ih := scopeLoop_okB caps qm sm ts { r0 with req := some qm }
    rw [scopeOk_cons]
    cases hc : caps.req
    · simp [scopeLoop, okB, hc, tokOk]
    · simp only [scopeLoop, hc, tokOk, Bool.not_true, Bool.false_eq_true, if_false, Bool.true_and]; exact ih
  | .response :: ts, r0 => by
    have ih := scopeLoop_okB caps qm sm ts { r0 with res := some sm }
    rw [scopeOk_cons]
    cases hc : caps.res
    · simp [scopeLoop, okB, hc, tokOk]
    · simp only [scopeLoop, hc, tokOk, Bool.not_true, Bool.false_eq_true, if_false, Bool.true_and]; exact ih
  | .other :: ts, r0 => by simp [scopeLoop, scopeOk, okB, tokOk]

theorem newResult_okB (caps : Caps) (qm sm : Mod) (scope : Scope) :
    okB (newResult caps qm sm scope) = scopeOk caps scope := by
  cases scope with
  | none => simp [newResult, scopeOk, okB]
  | some ts => exact scopeLoop_okB caps qm sm ts _

/-! ### evaluation loops against the specification combinators -/

/-- reported view of a model outcome -/
def flatO (o : Outcome) : SOutcome := (o.1, o.2.flat)

/-- An error value is never an empty `MultiError`. -/
def Err.wf (e : Err) : Prop := e ≠ .multi []

theorem Err.flat_nil_iff {e : Err} (h : e.wf) : e.flat = [] ↔ e = .none := by
  cases e with
  | none => simp [Err.flat]
  | single l => simp [Err.flat]
  | multi ls => simp only [Err.flat, reduceCtorEq, iff_false]; intro hl; exact h (by rw [hl])

theorem merrAdd_flat (merr : List Nat) (e : Err) : merrAdd merr e = merr ++ e.flat := by
  cases e <;> simp [merrAdd, Err.flat]

theorem fifoLoop_wf (agg : Bool) : ∀ (os : List Outcome) (merr : List Nat), (∀ o ∈ os, o.2.wf) → (fifoLoop agg os merr).2.wf
  | [], merr, _ => by
    simp only [fifoLoop]
    by_cases h : merr.isEmpty
    · simp [h, Err.wf]
    · simp only [h, Err.wf]; intro hc; simp at hc; simp [hc] at h
  | (t, .none) :: rest, merr, h => by
    simp only [fifoLoop]
    exact fifoLoop_wf agg rest merr (fun o ho => h o (List.mem_cons_of_mem _ ho))
  | (t, .single l) :: rest, merr, h => by
    simp only [fifoLoop]
    cases agg
    · simp [Err.wf]
    · simp only [if_true]; exact fifoLoop_wf true rest _ (fun o ho => h o (List.mem_cons_of_mem _ ho))
  | (t, .multi ls) :: rest, merr, h => by
    simp only [fifoLoop]
    cases agg
    · simp only [Bool.false_eq_true, if_false]; exact h (t, .multi ls) (by simp)
    · simp only [if_true]; exact fifoLoop_wf true rest _ (fun o ho => h o (List.mem_cons_of_mem _ ho))

theorem prioLoop_wf : ∀ (os : List Outcome), (∀ o ∈ os, o.2.wf) → (prioLoop os).2.wf
  | [], _ => by simp [prioLoop, Err.wf]
  | (t, .none) :: rest, h => by
    simp only [prioLoop]
    exact prioLoop_wf rest (fun o ho => h o (List.mem_cons_of_mem _ ho))
  | (t, .single l) :: rest, h => by simp [prioLoop, Err.wf]
  | (t, .multi ls) :: rest, h => by simp only [prioLoop]; exact h (t, .multi ls) (by simp)

theorem evalList_eq (v : Cond → Bool) : ∀ ms : List Mod, evalList v ms = ms.map (eval v)
  | [] => by simp [evalList]
  | m :: ms => by simp [evalList, evalList_eq v ms]

theorem evalPList_eq (v : Cond → Bool) : ∀ ms : List (Int × Mod), evalPList v ms = ms.map (fun pm => eval v pm.2)
  | [] => by simp [evalPList]
  | (p, m) :: ms => by simp [evalPList, evalPList_eq v ms]

mutual
theorem eval_wf (v : Cond → Bool) : ∀ m : Mod, (eval v m).2.wf
  | .probe l fail => by cases fail <;> simp [eval, Err.wf]
  | .noop => by simp [eval, Err.wf]
  | .fifo agg ms => by
    simp only [eval]
    exact fifoLoop_wf agg _ [] (evalList_wf v ms)
  | .prio ms => by
    simp only [eval]
    exact prioLoop_wf _ (evalPList_wf v ms)
  | .filter c t f => by
    simp only [eval]
    split
    · exact eval_wf v t
    · exact eval_wf v f
theorem evalList_wf (v : Cond → Bool) : ∀ ms : List Mod, ∀ o ∈ evalList v ms, o.2.wf
  | [] => by simp [evalList]
  | m :: ms => by
    intro o ho
    simp only [evalList, List.mem_cons] at ho
    rcases ho with rfl | ho
    · exact eval_wf v m
    · exact evalList_wf v ms o ho
theorem evalPList_wf (v : Cond → Bool) : ∀ ms : List (Int × Mod), ∀ o ∈ evalPList v ms, o.2.wf
  | [] => by simp [evalPList]
  | (p, m) :: ms => by
    intro o ho
    simp only [evalPList, List.mem_cons] at ho
    rcases ho with rfl | ho
    · exact eval_wf v m
    · exact evalPList_wf v ms o ho
end

/-- Without aggregation the fifo loop is "stop at the first error" (the `MultiError` stays empty). -/
theorem fifoLoop_false : ∀ (os : List Outcome), (∀ o ∈ os, o.2.wf) →
    flatO (fifoLoop false os []) = firstError (os.map flatO)
  | [], _ => by simp [fifoLoop, firstError, flatO, Err.flat]
  | (t, .none) :: rest, h => by
    have ih := fifoLoop_false rest (fun o ho => h o (List.mem_cons_of_mem _ ho))
    simp only [fifoLoop, List.map_cons, flatO, Err.flat, firstError] at ih ⊢
    rw [← ih]
  | (t, .single l) :: rest, _ => by simp [fifoLoop, flatO, Err.flat, firstError]
  | (t, .multi ls) :: rest, h => by
    have hw : (Err.multi ls).wf := h (t, .multi ls) (by simp)
    cases ls with
    | nil => exact absurd rfl hw
    | cons a as => simp [fifoLoop, flatO, Err.flat, firstError]

/-- With aggregation every child runs and the `MultiError` collects every error once, in order. -/
theorem fifoLoop_true : ∀ (os : List Outcome) (merr : List Nat),
    flatO (fifoLoop true os merr) = ((allErrors (os.map flatO)).1, merr ++ (allErrors (os.map flatO)).2)
  | [], merr => by
    simp only [fifoLoop, List.map_nil, allErrors, flatO, List.append_nil]
    by_cases h : merr.isEmpty
    · simp only [h, if_true, Err.flat]; simp at h; simp [h]
    · simp [h, Err.flat]
  | (t, .none) :: rest, merr => by
    have ih := fifoLoop_true rest merr
    simp only [flatO] at ih
    simp only [fifoLoop, List.map_cons, flatO, Err.flat, allErrors, List.nil_append]
    rw [Prod.mk.injEq] at ih ⊢
    exact ⟨by rw [ih.1], ih.2⟩
  | (t, .single l) :: rest, merr => by
    have ih := fifoLoop_true rest (merrAdd merr (.single l))
    simp only [flatO] at ih
    simp only [fifoLoop, if_true, List.map_cons, flatO, allErrors]
    rw [Prod.mk.injEq] at ih ⊢
    exact ⟨by rw [ih.1], by rw [ih.2, merrAdd_flat]; simp⟩
  | (t, .multi ls) :: rest, merr => by
    have ih := fifoLoop_true rest (merrAdd merr (.multi ls))
    simp only [flatO] at ih
    simp only [fifoLoop, if_true, List.map_cons, flatO, allErrors]
    rw [Prod.mk.injEq] at ih ⊢
    exact ⟨by rw [ih.1], by rw [ih.2, merrAdd_flat]; simp⟩

theorem prioLoop_eq : ∀ (os : List Outcome), (∀ o ∈ os, o.2.wf) → flatO (prioLoop os) = firstError (os.map flatO)
  | [], _ => by simp [prioLoop, firstError, flatO, Err.flat]
  | (t, .none) :: rest, h => by
    have ih := prioLoop_eq rest (fun o ho => h o (List.mem_cons_of_mem _ ho))
    simp only [prioLoop, List.map_cons, flatO, Err.flat, firstError] at ih ⊢
    rw [← ih]
  | (t, .single l) :: rest, _ => by simp [prioLoop, flatO, Err.flat, firstError]
  | (t, .multi ls) :: rest, h => by
    have hw : (Err.multi ls).wf := h (t, .multi ls) (by simp)
    cases ls with
    | nil => exact absurd rfl hw
    | cons a as => simp [prioLoop, flatO, Err.flat, firstError]

/-- What a compiled result does to a message of kind `k` (nothing if that side is nil). -/
def outcomeOf (v : Cond → Bool) (k : Kind) (r : Result) : SOutcome :=
  match r.side k with
  | none => ([], [])
  | some m => flatO (eval v m)

theorem firstError_nil_cons (rest : List SOutcome) : firstError (([], []) :: rest) = firstError rest := by
  simp [firstError]

theorem allErrors_nil_cons (rest : List SOutcome) : allErrors (([], []) :: rest) = allErrors rest := by
  simp [allErrors]

/-- Children that do not expose side `k` are not added to the group; the spec sees them as doing nothing. -/
theorem firstError_skip (v : Cond → Bool) (k : Kind) : ∀ rs : List Result,
    firstError (((rs.filterMap (·.side k)).map (eval v)).map flatO) = firstError (rs.map (outcomeOf v k))
  | [] => by simp
  | r :: rs => by
    have ih := firstError_skip v k rs
    cases h : r.side k with
    | none =>
      rw [List.filterMap_cons_none (f := fun x : Result => x.side k) (a := r) h, List.map_cons]
      simp only [outcomeOf, h]
      rw [firstError_nil_cons, ih]
    | some m =>
      rw [List.filterMap_cons_some (f := fun x : Result => x.side k) (a := r) h]
      simp only [List.map_cons, outcomeOf, h]
      generalize flatO (eval v m) = o
      obtain ⟨t, es⟩ := o
      cases es with
      | nil => simp only [firstError]; rw [ih]
      | cons e es => simp [firstError]

theorem allErrors_skip (v : Cond → Bool) (k : Kind) : ∀ rs : List Result,
    allErrors (((rs.filterMap (·.side k)).map (eval v)).map flatO) = allErrors (rs.map (outcomeOf v k))
  | [] => by simp
  | r :: rs => by
    have ih := allErrors_skip v k rs
    cases h : r.side k with
    | none =>
      rw [List.filterMap_cons_none (f := fun x : Result => x.side k) (a := r) h, List.map_cons]
      simp only [outcomeOf, h]
      rw [allErrors_nil_cons, ih]
    | some m =>
      rw [List.filterMap_cons_some (f := fun x : Result => x.side k) (a := r) h]
      simp only [List.map_cons, outcomeOf, h, allErrors]
      rw [ih]

theorem firstError_skipP (v : Cond → Bool) (k : Kind) : ∀ rs : List (Int × Result),
    firstError (((rs.filterMap (sideP k)).map (fun pm => eval v pm.2)).map flatO)
      = firstError ((rs.map (fun pr => (pr.1, outcomeOf v k pr.2))).map (·.2))
  | [] => by simp
  | (p, r) :: rs => by
    have ih := firstError_skipP v k rs
    cases h : r.side k with
    | none =>
      have h' : sideP k (p, r) = none := by simp [sideP, h]
      have ho : outcomeOf v k r = ([], []) := by simp [outcomeOf, h]
      rw [List.filterMap_cons_none h']
      simp only [List.map_cons, ho]
      rw [firstError_nil_cons, ih]
    | some m =>
      have h' : sideP k (p, r) = some (p, m) := by simp [sideP, h]
      have ho : outcomeOf v k r = flatO (eval v m) := by simp [outcomeOf, h]
      rw [List.filterMap_cons_some h']
      simp only [List.map_cons, ho]
      generalize flatO (eval v m) = o
      obtain ⟨t, es⟩ := o
      cases es with
      | nil => simp only [firstError]; rw [ih]
      | cons e es => simp [firstError]

theorem sideP_fst (k : Kind) (a : Int × Result) (b : Int × Mod) (h : sideP k a = some b) : b.1 = a.1 := by
  unfold sideP at h
  cases hs : a.2.side k with
  | none => simp [hs] at h
  | some m => simp [hs] at h; rw [← h]

/-! ### the compiled tree evaluates as the depth-first specification -/

theorem outcomeOf_orNoop (v : Cond → Bool) (k : Kind) (r : Result) :
    flatO (eval v (orNoop (r.side k))) = outcomeOf v k r := by
  unfold outcomeOf
  cases r.side k <;> simp [orNoop, eval, flatO, Err.flat]

def outcomeOpt (v : Cond → Bool) (k : Kind) : Option Result → SOutcome
  | none => ([], [])
  | some r => outcomeOf v k r

theorem outcomeOpt_orNoop (v : Cond → Bool) (k : Kind) (er : Option Result) :
    flatO (eval v (orNoop (er.bind (·.side k)))) = outcomeOpt v k er := by
  cases er with
  | none => simp [orNoop, eval, flatO, Err.flat, outcomeOpt]
  | some r => simpa [outcomeOpt] using outcomeOf_orNoop v k r

theorem map_eval_wf (v : Cond → Bool) (ms : List Mod) : ∀ o ∈ ms.map (eval v), o.2.wf := by
  intro o ho
  obtain ⟨m, _, rfl⟩ := List.mem_map.mp ho
  exact eval_wf v m

theorem map_evalP_wf (v : Cond → Bool) (ms : List (Int × Mod)) : ∀ o ∈ ms.map (fun pm => eval v pm.2), o.2.wf := by
  intro o ho
  obtain ⟨m, _, rfl⟩ := List.mem_map.mp ho
  exact eval_wf v m.2

theorem prioOrder_eq_insertAll {α : Type} (l : List (Int × α)) : prioOrder l = insertAll l := by
  rw [prioOrder, insertAll_eq_stableSort]

mutual
theorem compile_spec (k : Kind) (v : Cond → Bool) : ∀ (n : Node) (r : Result),
    compile n = .ok r → outcomeOf v k r = specEval k v n
  | .leaf l caps fq fs scope, r, h => by
    simp only [compile] at h
    have hs := newResult_side h k
    simp only [outcomeOf, hs, specEval]
    by_cases ha : acts scope caps k = true
    · simp only [ha, if_true]
      cases k
      · cases fq <;> simp [pick, eval, flatO, Err.flat]
      · cases fs <;> simp [pick, eval, flatO, Err.flat]
    · simp [ha]
  | .unknown, r, h => by simp [compile] at h
  | .malformed, r, h => by simp [compile] at h
  | .fifo scope agg cs, r, h => by
    simp only [compile] at h
    cases hc : compileList cs with
    | error e => simp [hc] at h
    | ok rs =>
      simp only [hc] at h
      have hs := newResult_side h k
      have ihl := compileList_spec k v cs rs hc
      simp only [outcomeOf, hs, specEval]
      by_cases ha : acts scope Caps.both k = true
      · simp only [ha, if_true]
        have hp : pick k (Mod.fifo agg (rs.filterMap (·.req))) (Mod.fifo agg (rs.filterMap (·.res)))
            = Mod.fifo agg (rs.filterMap (·.side k)) := by cases k <;> rfl
        rw [hp]
        simp only [eval, evalList_eq]
        cases agg
        · rw [fifoLoop_false _ (map_eval_wf v _), firstError_skip, ihl]; simp
        · rw [fifoLoop_true, allErrors_skip, ihl]; simp
      · simp [ha]
  | .prio scope cs, r, h => by
    simp only [compile] at h
    cases hc : compilePList cs with
    | error e => simp [hc] at h
    | ok rs =>
      simp only [hc] at h
      have hs := newResult_side h k
      have ihp := compilePList_spec k v cs rs hc
      simp only [outcomeOf, hs, specEval]
      by_cases ha : acts scope Caps.both k = true
      · simp only [ha, if_true]
        have hp : pick k (Mod.prio (insertAll (rs.filterMap (sideP .req)))) (Mod.prio (insertAll (rs.filterMap (sideP .res))))
            = Mod.prio (insertAll (rs.filterMap (sideP k))) := by cases k <;> rfl
        rw [hp]
        simp only [eval, evalPList_eq]
        rw [prioLoop_eq _ (map_evalP_wf v _), ← ihp, prioOrder_eq_insertAll,
          insertAll_map (fun pr : Int × Result => (pr.1, outcomeOf v k pr.2)) (fun _ => rfl),
          insertAll_filterMap (sideP k) (sideP_fst k), firstError_skipP]
      · simp [ha]
  | .filter c scope t e, r, h => by
    simp only [compile] at h
    cases hc : compile t with
    | error err => simp [hc] at h
    | ok m =>
      simp only [hc] at h
      cases he : compileOpt e with
      | error err => simp [he] at h
      | ok em =>
        simp only [he] at h
        have hs := newResult_side h k
        have iht := compile_spec k v t m hc
        have ihe := compileOpt_spec k v e em he
        simp only [outcomeOf, hs, specEval]
        by_cases ha : acts scope Caps.both k = true
        · simp only [ha, if_true]
          have hp : pick k (Mod.filter c (orNoop m.req) (orNoop (em.bind (·.req)))) (Mod.filter c (orNoop m.res) (orNoop (em.bind (·.res))))
              = Mod.filter c (orNoop (m.side k)) (orNoop (em.bind (·.side k))) := by cases k <;> rfl
          rw [hp]
          simp only [eval]
          by_cases hv : v c = true
          · simp only [hv, if_true]; rw [outcomeOf_orNoop, iht]
          · simp only [hv, Bool.false_eq_true, if_false]; rw [outcomeOpt_orNoop, ihe]
        · simp [ha]
theorem compileList_spec (k : Kind) (v : Cond → Bool) : ∀ (cs : List Node) (rs : List Result),
    compileList cs = .ok rs → rs.map (outcomeOf v k) = specList k v cs
  | [], rs, h => by simp [compileList] at h; subst h; simp [specList]
  | c :: cs, rs, h => by
    simp only [compileList] at h
    cases hc : compile c with
    | error e => simp [hc] at h
    | ok r =>
      simp only [hc] at h
      cases hl : compileList cs with
      | error e => simp [hl] at h
      | ok rs' =>
        simp only [hl, Except.ok.injEq] at h
        subst h
        simp only [List.map_cons, specList]
        rw [compile_spec k v c r hc, compileList_spec k v cs rs' hl]
theorem compilePList_spec (k : Kind) (v : Cond → Bool) : ∀ (cs : List (Int × Node)) (rs : List (Int × Result)),
    compilePList cs = .ok rs → rs.map (fun pr => (pr.1, outcomeOf v k pr.2)) = specPList k v cs
  | [], rs, h => by simp [compilePList] at h; subst h; simp [specPList]
  | (p, c) :: cs, rs, h => by
    simp only [compilePList] at h
    cases hc : compile c with
    | error e => simp [hc] at h
    | ok r =>
      simp only [hc] at h
      cases hl : compilePList cs with
      | error e => simp [hl] at h
      | ok rs' =>
        simp only [hl, Except.ok.injEq] at h
        subst h
        simp only [List.map_cons, specPList]
        rw [compile_spec k v c r hc, compilePList_spec k v cs rs' hl]
theorem compileOpt_spec (k : Kind) (v : Cond → Bool) : ∀ (e : Option Node) (er : Option Result),
    compileOpt e = .ok er → outcomeOpt v k er = specOpt k v e
  | none, er, h => by simp [compileOpt] at h; subst h; simp [outcomeOpt, specOpt]
  | some n, er, h => by
    simp only [compileOpt] at h
    cases hc : compile n with
    | error err => simp [hc] at h
    | ok r =>
      simp only [hc, Except.ok.injEq] at h
      subst h
      simp only [outcomeOpt, specOpt]
      exact compile_spec k v n r hc
end

/-! ### rejection as a whole -/

mutual
theorem compile_okB : ∀ n : Node, okB (compile n) = valid n
  | .leaf l caps fq fs scope => by simp [compile, valid, newResult_okB]
  | .unknown => by simp [compile, valid, okB]
  | .malformed => by simp [compile, valid, okB]
  | .fifo scope agg cs => by
    have ih := compileList_okB cs
    simp only [compile, valid]
    cases hc : compileList cs with
    | error e => rw [hc] at ih; simp only [okB] at ih; simp [okB, ← ih]
    | ok rs => rw [hc] at ih; simp only [okB] at ih; simp [← ih, newResult_okB]
  | .prio scope cs => by
    have ih := compilePList_okB cs
    simp only [compile, valid]
    cases hc : compilePList cs with
    | error e => rw [hc] at ih; simp only [okB] at ih; simp [okB, ← ih]
    | ok rs => rw [hc] at ih; simp only [okB] at ih; simp [← ih, newResult_okB]
  | .filter c scope t e => by
    have iht := compile_okB t
    have ihe := compileOpt_okB e
    simp only [compile, valid]
    cases hc : compile t with
    | error err => rw [hc] at iht; simp only [okB] at iht; simp [okB, ← iht]
    | ok m =>
      rw [hc] at iht; simp only [okB] at iht
      cases he : compileOpt e with
      | error err => rw [he] at ihe; simp only [okB] at ihe; simp [okB, ← iht, ← ihe]
      | ok em => rw [he] at ihe; simp only [okB] at ihe; simp [← iht, ← ihe, newResult_okB]
theorem compileList_okB : ∀ cs : List Node, okB (compileList cs) = validList cs
  | [] => by simp [compileList, validList, okB]
  | c :: cs => by
    have ihc := compile_okB c
    have ihl := compileList_okB cs
    simp only [compileList, validList]
    cases hc : compile c with
    | error e => rw [hc] at ihc; simp only [okB] at ihc; simp [okB, ← ihc]
    | ok r =>
      rw [hc] at ihc; simp only [okB] at ihc
      cases hl : compileList cs with
      | error e => rw [hl] at ihl; simp only [okB] at ihl; simp [okB, ← ihc, ← ihl]
      | ok rs => rw [hl] at ihl; simp only [okB] at ihl; simp [okB, ← ihc, ← ihl]
theorem compilePList_okB : ∀ cs : List (Int × Node), okB (compilePList cs) = validPList cs
  | [] => by simp [compilePList, validPList, okB]
  | (p, c) :: cs => by
    have ihc := compile_okB c
    have ihl := compilePList_okB cs
    simp only [compilePList, validPList]
    cases hc : compile c with
    | error e => rw [hc] at ihc; simp only [okB] at ihc; simp [okB, ← ihc]
    | ok r =>
      rw [hc] at ihc; simp only [okB] at ihc
      cases hl : compilePList cs with
      | error e => rw [hl] at ihl; simp only [okB] at ihl; simp [okB, ← ihc, ← ihl]
      | ok rs => rw [hl] at ihl; simp only [okB] at ihl; simp [okB, ← ihc, ← ihl]
theorem compileOpt_okB : ∀ e : Option Node, okB (compileOpt e) = validOpt e
  | none => by simp [compileOpt, validOpt, okB]
  | some n => by
    have ih := compile_okB n
    simp only [compileOpt, validOpt]
    cases hc : compile n with
    | error err => rw [hc] at ih; simp only [okB] at ih; simp [okB, ← ih]
    | ok r => rw [hc] at ih; simp only [okB] at ih; simp [okB, ← ih]
end

/-! ### order characterisation, error policy helpers -/

theorem insertAll_perm {α : Type} (xs : List (Int × α)) : (insertAll xs).Perm xs := by
  induction xs using snocInd with
  | h0 => simp [insertAll]
  | h1 xs x ih =>
    rw [insertAll_snoc]
    exact (ins_perm x _).trans ((List.Perm.cons x ih).trans (List.perm_append_comm (l₁ := [x]) (l₂ := xs)))

theorem filter_insertAll {α : Type} (p : Int) (xs : List (Int × α)) :
    (insertAll xs).filter (fun y => y.1 == p) = xs.reverse.filter (fun y => y.1 == p) := by
  induction xs using snocInd with
  | h0 => simp [insertAll]
  | h1 xs x ih =>
    rw [insertAll_snoc, filter_ins, ih]
    by_cases hx : (x.1 == p) = true
    · simp [hx]
    · simp [hx]

theorem fifoLoop_false_stop (pre : List Outcome) (t : Trace) (e : Err) (post : List Outcome)
    (hpre : ∀ o ∈ pre, o.2 = .none) (he : e ≠ .none) :
    fifoLoop false (pre ++ (t, e) :: post) [] = (pre.flatMap (·.1) ++ t, e) := by
  induction pre with
  | nil => cases e <;> simp_all [fifoLoop]
  | cons o pre ih =>
    obtain ⟨t0, e0⟩ := o
    have h0 : e0 = .none := hpre (t0, e0) (by simp)
    subst h0
    have := ih (fun o ho => hpre o (List.mem_cons_of_mem _ ho))
    simp only [List.cons_append, fifoLoop, this, List.flatMap_cons, List.append_assoc]

theorem prioLoop_stop (pre : List Outcome) (t : Trace) (e : Err) (post : List Outcome)
    (hpre : ∀ o ∈ pre, o.2 = .none) (he : e ≠ .none) :
    prioLoop (pre ++ (t, e) :: post) = (pre.flatMap (·.1) ++ t, e) := by
  induction pre with
  | nil => cases e <;> simp_all [prioLoop]
  | cons o pre ih =>
    obtain ⟨t0, e0⟩ := o
    have h0 : e0 = .none := hpre (t0, e0) (by simp)
    subst h0
    have := ih (fun o ho => hpre o (List.mem_cons_of_mem _ ho))
    simp only [List.cons_append, prioLoop, this, List.flatMap_cons, List.append_assoc]

theorem allErrors_eq (os : List SOutcome) : allErrors os = (os.flatMap (·.1), os.flatMap (·.2)) := by
  induction os with
  | nil => simp [allErrors]
  | cons o os ih => obtain ⟨t, es⟩ := o; simp [allErrors, ih]

/-! ### `valid` = no bad node anywhere -/

mutual
theorem valid_eq_not_any : ∀ n : Node, valid n = !anyNode badHere n
  | .leaf l caps fq fs scope => by simp [valid, anyNode, badHere]
  | .unknown => by simp [valid, anyNode, badHere]
  | .malformed => by simp [valid, anyNode, badHere]
  | .fifo scope agg cs => by
    simp only [valid, anyNode, badHere, validList_eq_not_any cs]
    cases anyList badHere cs <;> cases scopeOk Caps.both scope <;> rfl
  | .prio scope cs => by
    simp only [valid, anyNode, badHere, validPList_eq_not_any cs]
    cases anyPList badHere cs <;> cases scopeOk Caps.both scope <;> rfl
  | .filter c scope t e => by
    simp only [valid, anyNode, badHere, valid_eq_not_any t, validOpt_eq_not_any e]
    cases anyNode badHere t <;> cases anyOpt badHere e <;> cases scopeOk Caps.both scope <;> rfl
theorem validList_eq_not_any : ∀ cs : List Node, validList cs = !anyList badHere cs
  | [] => by simp [validList, anyList]
  | c :: cs => by
    simp only [validList, anyList, valid_eq_not_any c, validList_eq_not_any cs]
    cases anyNode badHere c <;> cases anyList badHere cs <;> rfl
theorem validPList_eq_not_any : ∀ cs : List (Int × Node), validPList cs = !anyPList badHere cs
  | [] => by simp [validPList, anyPList]
  | (p, c) :: cs => by
    simp only [validPList, anyPList, valid_eq_not_any c, validPList_eq_not_any cs]
    cases anyNode badHere c <;> cases anyPList badHere cs <;> rfl
theorem validOpt_eq_not_any : ∀ e : Option Node, validOpt e = !anyOpt badHere e
  | none => by simp [validOpt, anyOpt]
  | some n => by simp only [validOpt, anyOpt, valid_eq_not_any n]
end

end Martian.Config
