import Martian.Model.Verify
/-! Helper lemmas for C13 (core Lean only). -/
namespace Martian.Verify
open Martian Martian.Go

/-! ### facts regenerated from the source (Generated/Verify.lean) -/

theorem visits_perm (side : Side) : verifyVisits side = [true, false] ∨ verifyVisits side = [false, true] := by
  cases side <;> decide

theorem reset_visits_all (side : Side) : true ∈ resetVisits side ∧ false ∈ resetVisits side := by
  cases side <;> decide

theorem add_flattens : Generated.Verify.multiErrorAddFlattens = true := by decide

theorem skips_api (side : Side) (k : Kind) : skipsApi (k.apiKey side) = true := by
  cases k <;> cases side <;> simp only [Kind.apiKey] <;> decide

theorem skips_api_ping : skipsApi "pingback.req" = true := by decide

/-! ### shape: traffic and reset never change the tree, only the verifiers' state -/

mutual
theorem T.clear_modify (side : Side) (m : Msg) : ∀ t : T, (t.modify side m).1.clear = t.clear
  | .ver k errs => by
    simp only [T.modify]
    split
    · rfl
    · split <;> simp [T.clear]
  | .ping s h p q pend => by
    simp only [T.modify]
    split
    · rfl
    · split <;> simp [T.clear]
  | .nop => by simp [T.modify]
  | .fail => by simp [T.modify]
  | .group agg ms => by simp [T.modify, T.clear, TL.clear_modify side m agg ms]
  | .filter c t f => by
    simp only [T.modify]
    split
    · simp [T.clear, T.clear_modify side m t]
    · simp [T.clear, T.clear_modify side m f]
  | .hide t => by simp [T.modify, T.clear]
theorem TL.clear_modify (side : Side) (m : Msg) (agg : Bool) : ∀ l : TL, (l.modify side m agg).1.clear = l.clear
  | .nil => by simp [TL.modify]
  | .cons t l => by
    simp only [TL.modify]
    split
    · simp [TL.clear, T.clear_modify side m t]
    · simp [TL.clear, T.clear_modify side m t, TL.clear_modify side m agg l]
end

mutual
theorem T.reset_eq_clear (side : Side) : ∀ t : T, t.reset side = t.clear
  | .ver k errs => by simp [T.reset, T.clear]
  | .ping s h p q pend => by simp [T.reset, T.clear]
  | .nop => by simp [T.reset, T.clear]
  | .fail => by simp [T.reset, T.clear]
  | .group agg ms => by simp [T.reset, T.clear, TL.reset_eq_clear side ms]
  | .filter c t f => by
    simp [T.reset, T.clear, (reset_visits_all side).1, (reset_visits_all side).2,
      T.reset_eq_clear side t, T.reset_eq_clear side f]
  | .hide t => by simp [T.reset, T.clear]
theorem TL.reset_eq_clear (side : Side) : ∀ l : TL, l.reset side = l.clear
  | .nil => by simp [TL.reset, TL.clear]
  | .cons t l => by simp [TL.reset, TL.clear, T.reset_eq_clear side t, TL.reset_eq_clear side l]
end

mutual
theorem T.clear_clear : ∀ t : T, t.clear.clear = t.clear
  | .ver k errs => by simp [T.clear]
  | .ping s h p q pend => by simp [T.clear]
  | .nop => by simp [T.clear]
  | .fail => by simp [T.clear]
  | .group agg ms => by simp [T.clear, TL.clear_clear ms]
  | .filter c t f => by simp [T.clear, T.clear_clear t, T.clear_clear f]
  | .hide t => by simp [T.clear]
theorem TL.clear_clear : ∀ l : TL, l.clear.clear = l.clear
  | .nil => by simp [TL.clear]
  | .cons t l => by simp [TL.clear, T.clear_clear t, TL.clear_clear l]
end

mutual
theorem T.errors_clear (side : Side) (m : Msg) : ∀ t : T, t.clear.errors side m = t.errors side m
  | .ver k errs => by simp [T.clear, T.errors]
  | .ping s h p q pend => by simp [T.clear, T.errors]
  | .nop => by simp [T.clear, T.errors]
  | .fail => by simp [T.clear, T.errors]
  | .group agg ms => by simp [T.clear, T.errors, TL.errors_clear side m agg ms]
  | .filter c t f => by simp [T.clear, T.errors, T.errors_clear side m t, T.errors_clear side m f]
  | .hide t => by simp [T.clear, T.errors]
theorem TL.errors_clear (side : Side) (m : Msg) (agg : Bool) : ∀ l : TL, l.clear.errors side m agg = l.errors side m agg
  | .nil => by simp [TL.clear, TL.errors]
  | .cons t l => by simp [TL.clear, TL.errors, T.errors_clear side m t, TL.errors_clear side m agg l]
end

mutual
theorem T.spec_clear (side : Side) : ∀ (t : T) (ms : List Msg), t.clear.spec side ms = t.spec side ms
  | .ver k errs, ms => by simp [T.clear, T.spec]
  | .ping s h p q pend, ms => by simp [T.clear, T.spec]
  | .nop, ms => by simp [T.clear, T.spec]
  | .fail, ms => by simp [T.clear, T.spec]
  | .group agg l, ms => by simp [T.clear, T.spec, TL.spec_clear side agg l ms]
  | .filter c t f, ms => by simp [T.clear, T.spec, T.spec_clear side t, T.spec_clear side f]
  | .hide t, ms => by simp [T.clear, T.spec]
theorem TL.spec_clear (side : Side) (agg : Bool) : ∀ (l : TL) (ms : List Msg), l.clear.spec side agg ms = l.spec side agg ms
  | .nil, ms => by simp [TL.clear, TL.spec]
  | .cons t l, ms => by simp [TL.clear, TL.spec, T.spec_clear side t, TL.spec_clear side agg l, T.errors_clear side]
end

/-! The error result of `Modify*` does not depend on the verifiers' state. -/
mutual
theorem T.modify_snd (side : Side) (m : Msg) : ∀ t : T, (t.modify side m).2 = t.errors side m
  | .ver k errs => by
    simp only [T.modify, T.errors]
    split
    · rfl
    · split <;> rfl
  | .ping s h p q pend => by
    simp only [T.modify, T.errors]
    split
    · rfl
    · split <;> rfl
  | .nop => by simp [T.modify, T.errors]
  | .fail => by simp [T.modify, T.errors]
  | .group agg ms => by simp [T.modify, T.errors, TL.modify_snd side m agg ms]
  | .filter c t f => by
    simp only [T.modify, T.errors]
    split
    · simp [T.modify_snd side m t]
    · simp [T.modify_snd side m f]
  | .hide t => by simp [T.modify, T.errors]
theorem TL.modify_snd (side : Side) (m : Msg) (agg : Bool) : ∀ l : TL, (l.modify side m agg).2 = l.errors side m agg
  | .nil => by simp [TL.modify, TL.errors]
  | .cons t l => by
    simp only [TL.modify, TL.errors, T.modify_snd side m t]
    split
    · rfl
    · simp [TL.modify_snd side m agg l]
end

theorem T.errors_modify (side : Side) (m m' : Msg) (t : T) : (t.modify side m).1.errors side m' = t.errors side m' := by
  rw [← T.errors_clear, T.clear_modify, T.errors_clear]

/-! ### the state invariant: every verifier holds exactly what the exchanges that reached it call for -/

mutual
def T.tracks (side : Side) : T → List Msg → Prop
  | .ver k errs, ms => errs = leafSpec side k ms
  | .ping s h p q pend, ms => pend = !pingSeen s h p q ms
  | .nop, _ => True
  | .fail, _ => True
  | .group agg l, ms => l.tracks side agg ms
  | .filter c t f, ms =>
    t.tracks side (ms.filter (fun m => c.holds side m)) ∧ f.tracks side (ms.filter (fun m => !c.holds side m))
  | .hide _, _ => True
def TL.tracks (side : Side) (agg : Bool) : TL → List Msg → Prop
  | .nil, _ => True
  | .cons t l, ms => t.tracks side ms ∧ l.tracks side agg (ms.filter (fun m => agg || !t.errors side m))
end

mutual
theorem T.tracks_clear (side : Side) : ∀ t : T, t.clear.tracks side []
  | .ver k errs => by simp [T.clear, T.tracks, leafSpec]
  | .ping s h p q pend => by simp [T.clear, T.tracks, pingSeen]
  | .nop => by simp [T.clear, T.tracks]
  | .fail => by simp [T.clear, T.tracks]
  | .group agg ms => by simpa [T.clear, T.tracks] using TL.tracks_clear side agg ms
  | .filter c t f => by simpa [T.clear, T.tracks] using ⟨T.tracks_clear side t, T.tracks_clear side f⟩
  | .hide t => by simp [T.clear, T.tracks]
theorem TL.tracks_clear (side : Side) (agg : Bool) : ∀ l : TL, l.clear.tracks side agg []
  | .nil => by simp [TL.clear, TL.tracks]
  | .cons t l => by simpa [TL.clear, TL.tracks] using ⟨T.tracks_clear side t, TL.tracks_clear side agg l⟩
end

theorem leafSpec_append (side : Side) (k : Kind) (ms : List Msg) (m : Msg) :
    leafSpec side k (ms ++ [m]) = leafSpec side k ms ++ (if m.api then [] else (check side k m).toList) := by
  unfold leafSpec
  cases h : m.api
  · cases hc : check side k m <;> simp [List.filter_append, List.filterMap_append, h, hc]
  · simp [List.filter_append, h]

theorem pingSeen_append (s h p q : Bytes) (ms : List Msg) (m : Msg) :
    pingSeen s h p q (ms ++ [m]) = (pingSeen s h p q ms || (!m.api && pingMatch s h p q m)) := by
  simp [pingSeen, List.any_append]

theorem filter_snoc {α} (p : α → Bool) (l : List α) (a : α) :
    (l ++ [a]).filter p = l.filter p ++ (if p a then [a] else []) := by
  cases h : p a <;> simp [List.filter_append, h]

mutual
theorem T.tracks_modify (side : Side) (m : Msg) : ∀ (t : T) (ms : List Msg),
    t.tracks side ms → (t.modify side m).1.tracks side (ms ++ [m])
  | .ver k errs, ms, h => by
    simp only [T.tracks] at h
    simp only [T.modify, skips_api, Bool.true_and]
    cases ha : m.api
    · simp only [Bool.false_eq_true, if_false]
      cases hc : check side k m <;> simp [T.tracks, leafSpec_append, ha, hc, h]
    · simp [T.tracks, leafSpec_append, ha, h]
  | .ping s hh p q pend, ms, h => by
    simp only [T.tracks] at h
    simp only [T.modify, skips_api_ping, Bool.true_and]
    cases ha : m.api
    · simp only [Bool.false_eq_true, if_false]
      cases hc : pingMatch s hh p q m <;> simp [T.tracks, pingSeen_append, ha, hc, h]
    · simp [T.tracks, pingSeen_append, ha, h]
  | .nop, ms, _ => by simp [T.modify, T.tracks]
  | .fail, ms, _ => by simp [T.modify, T.tracks]
  | .group agg l, ms, h => by
    simp only [T.tracks] at h
    simpa [T.modify, T.tracks] using TL.tracks_modify side m agg l ms h
  | .filter c t f, ms, h => by
    simp only [T.tracks] at h
    simp only [T.modify]
    cases hc : c.holds side m
    · simp only [Bool.false_eq_true, if_false, T.tracks, filter_snoc, hc, Bool.not_false, if_true, List.append_nil]
      exact ⟨h.1, T.tracks_modify side m f _ h.2⟩
    · simp only [if_true, T.tracks, filter_snoc, hc, Bool.not_true, Bool.false_eq_true, if_false, List.append_nil]
      exact ⟨T.tracks_modify side m t _ h.1, h.2⟩
  | .hide t, ms, _ => by simp [T.modify, T.tracks]
theorem TL.tracks_modify (side : Side) (m : Msg) (agg : Bool) : ∀ (l : TL) (ms : List Msg),
    l.tracks side agg ms → (l.modify side m agg).1.tracks side agg (ms ++ [m])
  | .nil, ms, _ => by simp [TL.modify, TL.tracks]
  | .cons t l, ms, h => by
    simp only [TL.tracks] at h
    simp only [TL.modify, T.modify_snd]
    cases he : (t.errors side m && !agg)
    · simp only [Bool.false_eq_true, if_false, TL.tracks, T.errors_modify, filter_snoc]
      have hk : (agg || !t.errors side m) = true := by
        cases agg <;> cases hh : t.errors side m <;> simp_all
      simp only [hk, if_true]
      exact ⟨T.tracks_modify side m t ms h.1, TL.tracks_modify side m agg l _ h.2⟩
    · simp only [if_true, TL.tracks, T.errors_modify, filter_snoc]
      have hk : (agg || !t.errors side m) = false := by
        cases agg <;> cases hh : t.errors side m <;> simp_all
      simp only [hk, Bool.false_eq_true, if_false, List.append_nil]
      exact ⟨T.tracks_modify side m t ms h.1, h.2⟩
end

/-! ### reading the state back: the verify walk yields the demanded report, one `one` per failure -/

/-- What `MultiError.Add` appends for a verify result. -/
def errsOf : Option Err → List Err
  | none => []
  | some (.multi es) => es
  | some (.one m) => [.one m]

theorem addOpt_eq (acc : List Err) (o : Option Err) : addOpt acc o = acc ++ errsOf o := by
  cases o with
  | none => simp [addOpt, errsOf]
  | some e => cases e <;> simp [addOpt, addErr, add_flattens, errsOf]

theorem errsOf_wrap (es : List Err) : errsOf (if es.isEmpty then none else some (.multi es)) = es := by
  cases es <;> simp [errsOf]

theorem handlerErrors_eq (o : Option Err) : handlerErrors o = (errsOf o).map Err.render := by
  cases o with
  | none => simp [handlerErrors, errsOf]
  | some e => cases e <;> simp [handlerErrors, errsOf, Err.render]

theorem render_one (l : List Bytes) : (l.map Err.one).map Err.render = l := by
  induction l with
  | nil => rfl
  | cons a l ih => simp only [List.map_cons, Err.render, ih]

mutual
theorem T.verify_spec (side : Side) : ∀ (t : T) (ms : List Msg), t.tracks side ms →
    errsOf (t.verify side) = (t.spec side ms).map .one
  | .ver k errs, ms, h => by
    simp only [T.tracks] at h
    simp only [T.verify, T.spec, ← h]
    cases errs <;> simp [errsOf]
  | .ping s hh p q pend, ms, h => by
    simp only [T.tracks] at h
    simp only [T.verify, T.spec, pingSpec, h]
    cases pingSeen s hh p q ms <;> simp [errsOf]
  | .nop, ms, _ => by simp [T.verify, T.spec, errsOf]
  | .fail, ms, _ => by simp [T.verify, T.spec, errsOf]
  | .group agg l, ms, h => by
    simp only [T.tracks] at h
    simp only [T.verify, T.spec, errsOf_wrap]
    exact TL.verify_spec side agg l ms h
  | .filter c t f, ms, h => by
    simp only [T.tracks] at h
    have ht := T.verify_spec side t _ h.1
    have hf := T.verify_spec side f _ h.2
    simp only [T.verify, T.spec, errsOf_wrap, elseFirst]
    rcases visits_perm side with hv | hv <;>
      simp [hv, addOpt_eq, ht, hf]
  | .hide t, ms, _ => by simp [T.verify, T.spec, errsOf]
theorem TL.verify_spec (side : Side) (agg : Bool) : ∀ (l : TL) (ms : List Msg), l.tracks side agg ms →
    l.verify side = (l.spec side agg ms).map .one
  | .nil, ms, _ => by simp [TL.verify, TL.spec]
  | .cons t l, ms, h => by
    simp only [TL.tracks] at h
    simp only [TL.verify, TL.spec, addOpt_eq, List.nil_append, List.map_append]
    rw [T.verify_spec side t ms h.1, TL.verify_spec side agg l _ h.2]
end

theorem T.report_eq_spec (side : Side) (t : T) (ms : List Msg) (h : t.tracks side ms) :
    handlerErrors (t.verify side) = t.spec side ms := by
  rw [handlerErrors_eq, T.verify_spec side t ms h, render_one]

/-! ### API requests leave every verifier untouched -/

mutual
theorem T.modify_api (side : Side) (m : Msg) (ha : m.api = true) : ∀ t : T, (t.modify side m).1 = t
  | .ver k errs => by simp [T.modify, skips_api, ha]
  | .ping s h p q pend => by simp [T.modify, skips_api_ping, ha]
  | .nop => by simp [T.modify]
  | .fail => by simp [T.modify]
  | .group agg l => by simp [T.modify, TL.modify_api side m ha agg l]
  | .filter c t f => by
    simp only [T.modify]
    split
    · simp [T.modify_api side m ha t]
    · simp [T.modify_api side m ha f]
  | .hide t => by simp [T.modify]
theorem TL.modify_api (side : Side) (m : Msg) (ha : m.api = true) (agg : Bool) : ∀ l : TL, (l.modify side m agg).1 = l
  | .nil => by simp [TL.modify]
  | .cons t l => by
    simp only [TL.modify]
    split
    · simp [T.modify_api side m ha t]
    · simp [T.modify_api side m ha t, TL.modify_api side m ha agg l]
end

/-! ### a compiled configuration starts in the initial state -/

theorem Leaf.toT_fresh (l : Leaf) : l.toT.clear = l.toT := by cases l <;> simp [Leaf.toT, T.clear]

mutual
theorem Cfg.compile_fresh (side : Side) : ∀ (c : Cfg) (t : T), c.compile side = some (some t) → t.clear = t
  | .leaf l sc, t, h => by
    simp only [Cfg.compile] at h
    split at h
    · cases h
    · split at h <;> simp at h
      subst h; exact Leaf.toT_fresh l
  | .group agg sc ms, t, h => by
    simp only [Cfg.compile] at h
    split at h
    · cases h
    · rename_i l hl
      split at h <;> simp at h
      subst h; simp [T.clear, CfgL.compile_fresh side ms l hl]
  | .filter c sc tt ff, t, h => by
    simp only [Cfg.compile] at h
    split at h
    · cases h
    · rename_i ot hot
      split at h
      · cases h
      · rename_i of hof
        split at h <;> simp at h
        subst h
        have h1 : (ot.getD .nop).clear = ot.getD .nop := by
          cases ot with
          | none => simp [T.clear]
          | some x => simpa using Cfg.compile_fresh side tt x hot
        have h2 : (of.getD .nop).clear = of.getD .nop := by
          cases of with
          | none => simp [T.clear]
          | some x => simpa using Cfg.compile_fresh side ff x hof
        simp [T.clear, h1, h2]
  | .prio sc ms, t, h => by
    simp only [Cfg.compile] at h
    split at h
    · cases h
    · split at h <;> simp at h
      subst h; simp [T.clear]
  | .absent, t, h => by simp [Cfg.compile] at h
theorem CfgL.compile_fresh (side : Side) : ∀ (c : CfgL) (l : TL), c.compile side = some l → l.clear = l
  | .nil, l, h => by simp [CfgL.compile] at h; subst h; simp [TL.clear]
  | .cons c cs, l, h => by
    simp only [CfgL.compile] at h
    split at h
    · rename_i t l' hc hl
      simp at h; subst h
      simp [TL.clear, Cfg.compile_fresh side c t hc, CfgL.compile_fresh side cs l' hl]
    · rename_i l' hc hl
      simp at h; subst h
      exact CfgL.compile_fresh side cs l' hl
    · cases h
end

end Martian.Verify
