import Martian.Lemmas.Http1
import Martian.Lemmas.Http1Wire
/-!
Extension stability of the reader: once a length-delimited message has been read completely from
an input, appending more bytes to the input changes nothing but the unread rest. Consequence: a
strict prefix of a length-delimited message is never read as a complete message.
-/
namespace Martian.Http1
open Martian Martian.Go Martian.MessageView

theorem cut_ext (sep : UInt8) (s a b e : Bytes) (h : cut sep s = some (a, b)) :
    cut sep (s ++ e) = some (a, b ++ e) := by
  obtain ⟨h1, h2⟩ := cut_eq_some sep s a b h
  rw [h1]
  have : a ++ sep :: b ++ e = a ++ sep :: (b ++ e) := by simp
  rw [this]; exact cut_append sep a _ h2

/-- A line that ended with LF is the same line on a longer input. -/
theorem readLine_ext (inp l r e : Bytes) (h : readLine inp = some (l, r)) (hlf : cut 10 inp ≠ none) :
    readLine (inp ++ e) = some (l, r ++ e) := by
  unfold readLine at h ⊢
  cases hc : cut 10 inp with
  | none => exact absurd hc hlf
  | some p =>
    obtain ⟨a, b⟩ := p
    simp only [hc, Option.some.injEq, Prod.mk.injEq] at h
    rw [cut_ext 10 inp a b e hc]
    simp [h.1, h.2]

/-- A line taken from an input without LF leaves nothing. -/
theorem readLine_nolf (inp l r : Bytes) (h : readLine inp = some (l, r)) (hlf : cut 10 inp = none) :
    r = [] ∧ l = inp ∧ inp ≠ [] := by
  unfold readLine at h
  simp only [hlf] at h
  split at h
  · simp at h
  · rename_i hne
    simp only [Option.some.injEq, Prod.mk.injEq] at h
    exact ⟨h.2.symm, h.1.symm, by intro e; simp [e] at hne⟩

theorem readHeaderLines_nil_incomplete (fuel : Nat) (first : Bool) :
    ∀ hs r, readHeaderLines fuel first [] ≠ .complete hs r := by
  intro hs r
  cases fuel with
  | zero => simp [readHeaderLines]
  | succ f => simp [readHeaderLines, readLine, cut]

theorem readHeaderLines_ext (fuel : Nat) : ∀ (first : Bool) (inp : Bytes) (hs : List KV) (r : Bytes),
    readHeaderLines fuel first inp = .complete hs r →
    ∀ (e : Bytes) (fuel' : Nat), fuel ≤ fuel' → readHeaderLines fuel' first (inp ++ e) = .complete hs (r ++ e) := by
  induction fuel with
  | zero => intro first inp hs r h; simp [readHeaderLines] at h
  | succ f ih =>
    intro first inp hs r h e fuel' hf
    obtain ⟨f', rfl⟩ : ∃ f', fuel' = f' + 1 := ⟨fuel' - 1, by omega⟩
    unfold readHeaderLines at h ⊢
    cases hl : readLine inp with
    | none => simp [hl] at h
    | some p =>
      obtain ⟨line, rest⟩ := p
      simp only [hl] at h
      by_cases hlf : cut 10 inp = none
      · -- the last bytes of the input without LF: nothing can follow, so no blank line is ever seen
        obtain ⟨hr, hline, hne⟩ := readLine_nolf inp line rest hl hlf
        subst hr
        cases line with
        | nil => exact absurd hline.symm hne
        | cons c t =>
          simp only at h
          split at h
          · split at h <;> simp at h
          · cases hp : parseFieldLine (c :: t) with
            | malformed => simp [hp] at h
            | outOfModel => simp [hp] at h
            | field k v =>
              simp only [hp] at h
              cases hr : readHeaderLines f false [] with
              | complete hs' r' => exact absurd hr (readHeaderLines_nil_incomplete f false hs' r')
              | incomplete => simp [hr] at h
              | malformed => simp [hr] at h
              | outOfModel => simp [hr] at h
      · rw [readLine_ext inp line rest e hl hlf]
        cases line with
        | nil =>
          simp only at h ⊢
          simp only [R.complete.injEq] at h
          simp [h.1, h.2]
        | cons c t =>
          simp only at h ⊢
          split
          · rename_i hc; simp only [hc, if_true] at h; split at h <;> simp at h
          · rename_i hc
            simp only [hc, Bool.false_eq_true, if_false] at h
            cases hp : parseFieldLine (c :: t) with
            | malformed => simp [hp] at h
            | outOfModel => simp [hp] at h
            | field k v =>
              simp only [hp] at h ⊢
              cases hr : readHeaderLines f false rest with
              | complete hs' r' =>
                simp only [hr, R.complete.injEq] at h
                rw [ih false rest hs' r' hr e f' (by omega)]
                simp [h.1, h.2]
              | incomplete => simp [hr] at h
              | malformed => simp [hr] at h
              | outOfModel => simp [hr] at h

theorem readHeader_ext (inp : Bytes) (hs : List KV) (r e : Bytes) (h : readHeader inp = .complete hs r) :
    readHeader (inp ++ e) = .complete hs (r ++ e) :=
  readHeaderLines_ext _ true inp hs r h e _ (by simp)

/-! ### chunked body -/

theorem take_append_of_le (a e : Bytes) (n : Nat) (h : n ≤ a.length) : (a ++ e).take n = a.take n := by
  rw [List.take_append]; have : n - a.length = 0 := by omega
  rw [this]; simp

theorem drop_append_of_le (a e : Bytes) (n : Nat) (h : n ≤ a.length) : (a ++ e).drop n = a.drop n ++ e := by
  rw [List.drop_append]; have : n - a.length = 0 := by omega
  rw [this]; simp

theorem take_succ_append_cons (a b : Bytes) (c : UInt8) : (a ++ c :: b).take (a.length + 1) = a ++ [c] := by
  induction a with
  | nil => simp
  | cons x r ih => simp [ih]

theorem chunkLine_ext (inp l r e : Bytes) (h : chunkLine inp = .complete l r) :
    chunkLine (inp ++ e) = .complete l (r ++ e) := by
  unfold chunkLine at h
  cases hc : cut 10 (inp.take bufSize) with
  | none => simp only [hc] at h; split at h <;> simp at h
  | some p =>
    obtain ⟨a, b⟩ := p
    simp only [hc] at h
    by_cases hlen : a.length + 2 ≤ bufSize
    · simp only [hlen, if_true, R.complete.injEq] at h
      obtain ⟨rfl, hr⟩ := h
      obtain ⟨h1, h2⟩ := cut_eq_some 10 _ _ _ hc
      have hl : a.length + 1 ≤ inp.length := by
        have := congrArg List.length h1
        simp only [List.length_take, List.length_append, List.length_cons] at this; omega
      have hpre : inp.take (a.length + 1) = a ++ [10] := by
        have ht : (inp.take bufSize).take (a.length + 1) = a ++ [10] := by rw [h1]; exact take_succ_append_cons a b 10
        rw [List.take_take] at ht
        have : min (a.length + 1) bufSize = a.length + 1 := by omega
        rw [this] at ht; exact ht
      -- on the longer input the window starts with the same line
      have hwin : ∃ y, (inp ++ e).take bufSize = a ++ 10 :: y := by
        have h3 : ((inp ++ e).take bufSize).take (a.length + 1) = a ++ [10] := by
          rw [List.take_take]
          have : min (a.length + 1) bufSize = a.length + 1 := by omega
          rw [this, take_append_of_le inp e _ hl, hpre]
        refine ⟨((inp ++ e).take bufSize).drop (a.length + 1), ?_⟩
        calc (inp ++ e).take bufSize
            = ((inp ++ e).take bufSize).take (a.length + 1) ++ ((inp ++ e).take bufSize).drop (a.length + 1) :=
              (List.take_append_drop _ _).symm
          _ = a ++ 10 :: ((inp ++ e).take bufSize).drop (a.length + 1) := by rw [h3]; simp
      obtain ⟨y, hy⟩ := hwin
      unfold chunkLine
      rw [hy, cut_append 10 a y h2]
      simp only [hlen, if_true, R.complete.injEq, true_and]
      rw [← hr, drop_append_of_le inp e _ hl]
    · simp [hlen] at h

theorem readChunks_ext (fuel : Nat) : ∀ (inp : Bytes) (ex : Int) (b r : Bytes),
    readChunks fuel inp ex = .complete b r →
    ∀ (e : Bytes) (fuel' : Nat), fuel ≤ fuel' → readChunks fuel' (inp ++ e) ex = .complete b (r ++ e) := by
  induction fuel with
  | zero => intro inp ex b r h; simp [readChunks] at h
  | succ f ih =>
    intro inp ex b r h e fuel' hf
    obtain ⟨f', rfl⟩ : ∃ f', fuel' = f' + 1 := ⟨fuel' - 1, by omega⟩
    unfold readChunks at h ⊢
    cases hl : chunkLine inp with
    | incomplete => simp [hl] at h
    | malformed => simp [hl] at h
    | outOfModel => simp [hl] at h
    | complete line rest =>
      rw [chunkLine_ext inp line rest e hl]
      simp only [hl] at h ⊢
      cases hs : chunkSize (removeChunkExt (trimRightWs line)) with
      | none => simp [hs] at h
      | some n =>
        simp only [hs] at h ⊢
        generalize nextExcess ex line.length n = ex2 at h ⊢
        by_cases h62 : n ≥ 2 ^ 62
        · rw [if_pos h62] at h; cases h
        · rw [if_neg h62] at h ⊢
          by_cases hn0 : (n == 0) = true
          · rw [if_pos hn0] at h ⊢
            simp only [R.complete.injEq] at h ⊢
            simp [h.1, h.2]
          · rw [if_neg hn0] at h ⊢
            by_cases hex : ex2 > 16 * 1024
            · rw [if_pos hex] at h; cases h
            · rw [if_neg hex] at h ⊢
              by_cases hlen : rest.length < n
              · rw [if_pos hlen] at h; cases h
              · have hlen' : ¬ (rest ++ e).length < n := by simp at hlen ⊢; omega
                rw [if_neg hlen] at h; rw [if_neg hlen']
                rw [drop_append_of_le rest e n (by omega), take_append_of_le rest e n (by omega)]
                by_cases h2 : (rest.drop n).length < 2
                · rw [if_pos h2] at h; cases h
                · have h2' : ¬ (rest.drop n ++ e).length < 2 := by simp at h2 ⊢; omega
                  rw [if_neg h2] at h; rw [if_neg h2']
                  rw [take_append_of_le _ e 2 (by omega), drop_append_of_le _ e 2 (by omega)]
                  by_cases hcr : ((rest.drop n).take 2 != crlf) = true
                  · rw [if_pos hcr] at h; cases h
                  · rw [if_neg hcr] at h ⊢
                    have hdd : (rest.drop n).drop 2 = rest.drop (n + 2) := by simp [List.drop_drop]
                    rw [hdd] at h ⊢
                    cases hr : readChunks f (rest.drop (n + 2)) ex2 with
                    | complete b' r' =>
                      simp only [hr, R.complete.injEq] at h
                      rw [ih _ _ b' r' hr e f' (by omega)]
                      simp [h.1, h.2]
                    | incomplete => simp [hr] at h
                    | malformed => simp [hr] at h
                    | outOfModel => simp [hr] at h

/-! ### trailer, body -/

theorem hasDoubleCRLF_mono (a b : Bytes) (h : hasDoubleCRLF a = true) : hasDoubleCRLF (a ++ b) = true := by
  induction a with
  | nil => simp [hasDoubleCRLF] at h
  | cons c r ih =>
    unfold hasDoubleCRLF at h
    split at h
    · rename_i heq
      simp only [List.cons.injEq] at heq
      obtain ⟨rfl, rfl⟩ := heq
      simp [hasDoubleCRLF]
    · rename_i heq
      simp only [List.cons.injEq] at heq
      obtain ⟨rfl, rfl⟩ := heq
      have := ih h
      simp only [List.cons_append]
      unfold hasDoubleCRLF
      split
      · rfl
      · rename_i heq2; simp only [List.cons.injEq] at heq2; rw [← heq2.2]; exact this
      · rename_i heq2; simp at heq2
    · simp at h

theorem readTrailer_ext (decl : Option (List Bytes)) (inp : Bytes) (t : Option (List KV)) (r e : Bytes)
    (h : readTrailer decl inp = .complete t r) : readTrailer decl (inp ++ e) = .complete t (r ++ e) := by
  unfold readTrailer at h ⊢
  by_cases h1 : (inp.take 2 == crlf) = true
  · have hl : 2 ≤ inp.length := by
      have := congrArg List.length (show inp.take 2 = crlf by simpa using h1)
      simp [crlf] at this; omega
    rw [if_pos h1] at h
    rw [take_append_of_le inp e 2 hl, if_pos h1, drop_append_of_le inp e 2 hl]
    simp only [R.complete.injEq] at h ⊢
    simp [h.1, h.2]
  · rw [if_neg h1] at h
    by_cases h2 : inp.length < 2
    · rw [if_pos h2] at h; cases h
    · rw [if_neg h2] at h
      have hl : 2 ≤ inp.length := by omega
      rw [take_append_of_le inp e 2 hl, if_neg h1]
      have h2' : ¬ (inp ++ e).length < 2 := by simp; omega
      rw [if_neg h2']
      by_cases h3 : (!hasDoubleCRLF (inp.take bufSize)) = true
      · rw [if_pos h3] at h; cases h
      · rw [if_neg h3] at h
        have h3' : ¬ (!hasDoubleCRLF ((inp ++ e).take bufSize)) = true := by
          simp only [Bool.not_eq_true', Bool.not_eq_false] at h3 ⊢
          rw [List.take_append]; exact hasDoubleCRLF_mono _ _ h3
        rw [if_neg h3']
        cases hr : readHeader inp with
        | complete hs r' =>
          simp only [hr, R.complete.injEq] at h
          rw [readHeader_ext inp hs r' e hr]
          simp [h.1, h.2]
        | incomplete => simp [hr] at h
        | malformed => simp [hr] at h
        | outOfModel => simp [hr] at h

/-- Every body that is not delimited by the close of the connection. -/
theorem readBody_ext (kind : BodyKind) (decl : Option (List Bytes)) (inp : Bytes)
    (x : Bytes × Option (List KV)) (r e : Bytes) (hk : kind ≠ .eof)
    (h : readBody kind decl inp = .complete x r) : readBody kind decl (inp ++ e) = .complete x (r ++ e) := by
  cases kind with
  | eof => exact absurd rfl hk
  | none => simp only [readBody, R.complete.injEq] at h ⊢; simp [h.1, h.2]
  | len n =>
    simp only [readBody] at h ⊢
    by_cases hl : inp.length < n
    · rw [if_pos hl] at h; cases h
    · rw [if_neg hl] at h
      have : ¬ (inp ++ e).length < n := by simp; omega
      rw [if_neg this, take_append_of_le inp e n (by omega), drop_append_of_le inp e n (by omega)]
      simp only [R.complete.injEq] at h ⊢
      simp [h.1, h.2]
  | chunked =>
    simp only [readBody] at h ⊢
    cases hc : readChunks (inp.length + 1) inp 0 with
    | complete b rest =>
      simp only [hc] at h
      rw [readChunks_ext _ inp 0 b rest hc e _ (by simp)]
      simp only
      cases ht : readTrailer decl rest with
      | complete t r' =>
        simp only [ht, R.complete.injEq] at h
        rw [readTrailer_ext decl rest t r' e ht]
        simp [h.1, h.2]
      | incomplete => simp [ht] at h
      | malformed => simp [ht] at h
      | outOfModel => simp [ht] at h
    | incomplete => simp [hc] at h
    | malformed => simp [hc] at h
    | outOfModel => simp [hc] at h

theorem finishBody_ext (m : Msg) (t : Transfer) (inp : Bytes) (p : Parsed) (r e : Bytes) (hk : t.body ≠ .eof)
    (h : finishBody m t inp = .complete p r) : finishBody m t (inp ++ e) = .complete p (r ++ e) := by
  unfold finishBody at h ⊢
  cases hb : readBody t.body t.decl inp with
  | complete x r' =>
    obtain ⟨b, tr⟩ := x
    simp only [hb, R.complete.injEq] at h
    rw [readBody_ext t.body t.decl inp (b, tr) r' e hk hb]
    simp [h.1, h.2]
  | incomplete => simp [hb] at h
  | malformed => simp [hb] at h
  | outOfModel => simp [hb] at h

/-! ### heads -/

theorem readHeader_nil : readHeader [] = .incomplete := by
  simp [readHeader, readHeaderLines, readLine, cut]

theorem liftE_complete_ext {α β} (x : E α) (k : α → β) (r e : Bytes) (y : β) (r' : Bytes)
    (h : liftE x (fun t => R.complete (k t) r) = .complete y r') :
    liftE x (fun t => R.complete (k t) (r ++ e)) = .complete y (r' ++ e) := by
  cases x with
  | ok a => simp only [liftE, R.complete.injEq] at h ⊢; simp [h.1, h.2]
  | malformed => simp [liftE] at h
  | outOfModel => simp [liftE] at h

/-- The head phase (`http.ReadResponse`) is stable under extension of the input. -/
theorem readResponseHead_ext (meth inp : Bytes) (x : Msg × Transfer) (r e : Bytes)
    (h : readResponseHead meth inp = .complete x r) :
    readResponseHead meth (inp ++ e) = .complete x (r ++ e) := by
  unfold readResponseHead at h ⊢
  cases hl : readLine inp with
  | none => simp [hl] at h
  | some p =>
    obtain ⟨line, r1⟩ := p
    simp only [hl] at h
    have hr1 : ∀ hs r2, readHeader r1 = .complete hs r2 → cut 10 inp ≠ none := by
      intro hs r2 hh hlf
      obtain ⟨hr, _, _⟩ := readLine_nolf inp line r1 hl hlf
      rw [hr, readHeader_nil] at hh; cases hh
    cases hc : cut 32 line with
    | none => simp [hc] at h
    | some q =>
      obtain ⟨proto, status0⟩ := q
      simp only [hc] at h
      by_cases h3 : ((codeOf (status0.dropWhile (· == 32))).length != 3) = true
      · rw [if_pos h3] at h; cases h
      · rw [if_neg h3] at h
        by_cases hd : (!(codeOf (status0.dropWhile (· == 32))).all isDigit) = true
        · rw [if_pos hd] at h; cases h
        · rw [if_neg hd] at h
          cases hv : parseHTTPVersion proto with
          | none => simp [hv] at h
          | some mm =>
            obtain ⟨major, minor⟩ := mm
            simp only [hv] at h
            cases hh : readHeader r1 with
            | incomplete => simp [hh] at h
            | malformed => simp [hh] at h
            | outOfModel => simp [hh] at h
            | complete hs r2 =>
              simp only [hh] at h
              rw [readLine_ext inp line r1 e hl (hr1 hs r2 hh)]
              simp only [hc]
              rw [if_neg h3, if_neg hd]
              simp only [hv, readHeader_ext r1 hs r2 e hh]
              exact liftE_complete_ext _ _ r2 e x r h

theorem readRequestHead_ext (inp : Bytes) (x : Msg × Transfer) (r e : Bytes)
    (h : readRequestHead inp = .complete x r) :
    readRequestHead (inp ++ e) = .complete x (r ++ e) := by
  unfold readRequestHead at h ⊢
  cases hl : readLine inp with
  | none => simp [hl] at h
  | some p =>
    obtain ⟨line, r1⟩ := p
    simp only [hl] at h
    have hr1 : ∀ hs r2, readHeader r1 = .complete hs r2 → cut 10 inp ≠ none := by
      intro hs r2 hh hlf
      obtain ⟨hr, _, _⟩ := readLine_nolf inp line r1 hl hlf
      rw [hr, readHeader_nil] at hh; cases hh
    cases hc : parseRequestLine line with
    | none => simp [hc] at h
    | some q =>
      obtain ⟨method, uri, proto⟩ := q
      simp only [hc] at h
      by_cases hm : (method.isEmpty || !method.all isTokenByte) = true
      · rw [if_pos hm] at h; cases h
      · rw [if_neg hm] at h
        cases hv : parseHTTPVersion proto with
        | none => simp [hv] at h
        | some mm =>
          obtain ⟨major, minor⟩ := mm
          simp only [hv] at h
          by_cases hcp : (method == connectTok || method == priTok) = true
          · rw [if_pos hcp] at h; cases h
          · rw [if_neg hcp] at h
            cases ht : targetHost uri with
            | none => simp [ht] at h
            | some auth =>
              simp only [ht] at h
              cases hh : readHeader r1 with
              | incomplete => simp [hh] at h
              | malformed => simp [hh] at h
              | outOfModel => simp [hh] at h
              | complete hs r2 =>
                simp only [hh] at h
                rw [readLine_ext inp line r1 e hl (hr1 hs r2 hh)]
                simp only [hc]
                rw [if_neg hm]
                simp only [hv]
                rw [if_neg hcp]
                simp only [ht, readHeader_ext r1 hs r2 e hh]
                by_cases hho : (vals hs hostKey).length > 1
                · rw [if_pos hho] at h; cases h
                · rw [if_neg hho] at h ⊢
                  exact liftE_complete_ext _ _ r2 e x r h

/-- A length-delimited response read completely from `inp` is read identically from every
extension of `inp`; only the unread rest grows. -/
theorem readResponse_ext (meth inp : Bytes) (m0 : Msg) (t : Transfer) (r0 : Bytes) (p : Parsed) (r e : Bytes)
    (hh : readResponseHead meth inp = .complete (m0, t) r0) (hk : t.body ≠ .eof)
    (h : readResponse meth inp = .complete p r) :
    readResponse meth (inp ++ e) = .complete p (r ++ e) := by
  unfold readResponse at h ⊢
  rw [readResponseHead_ext meth inp (m0, t) r0 e hh]
  simp only [hh] at h ⊢
  exact finishBody_ext m0 t r0 p r e hk h

theorem readRequest_ext (inp : Bytes) (m0 : Msg) (t : Transfer) (r0 : Bytes) (p : Parsed) (r e : Bytes)
    (hh : readRequestHead inp = .complete (m0, t) r0) (hk : t.body ≠ .eof)
    (h : readRequest inp = .complete p r) :
    readRequest (inp ++ e) = .complete p (r ++ e) := by
  unfold readRequest at h ⊢
  rw [readRequestHead_ext inp (m0, t) r0 e hh]
  simp only [hh] at h ⊢
  exact finishBody_ext m0 t r0 p r e hk h

/-! ### strict prefixes -/

theorem finishBody_eof_rest (m : Msg) (t : Transfer) (inp : Bytes) (p : Parsed) (r : Bytes)
    (hk : t.body = .eof) (h : finishBody m t inp = .complete p r) : r = [] := by
  unfold finishBody at h
  rw [hk] at h
  simp only [readBody, R.complete.injEq] at h
  exact h.2.symm

theorem readResponse_head_of_complete (meth inp : Bytes) (p : Parsed) (r : Bytes)
    (h : readResponse meth inp = .complete p r) :
    ∃ m0 t r0, readResponseHead meth inp = .complete (m0, t) r0 ∧ finishBody m0 t r0 = .complete p r := by
  unfold readResponse at h
  cases hh : readResponseHead meth inp with
  | complete x r0 => obtain ⟨m0, t⟩ := x; simp only [hh] at h; exact ⟨m0, t, r0, rfl, h⟩
  | incomplete => simp [hh] at h
  | malformed => simp [hh] at h
  | outOfModel => simp [hh] at h

theorem readRequest_head_of_complete (inp : Bytes) (p : Parsed) (r : Bytes)
    (h : readRequest inp = .complete p r) :
    ∃ m0 t r0, readRequestHead inp = .complete (m0, t) r0 ∧ finishBody m0 t r0 = .complete p r := by
  unfold readRequest at h
  cases hh : readRequestHead inp with
  | complete x r0 => obtain ⟨m0, t⟩ := x; simp only [hh] at h; exact ⟨m0, t, r0, rfl, h⟩
  | incomplete => simp [hh] at h
  | malformed => simp [hh] at h
  | outOfModel => simp [hh] at h

/-- If a byte string `w` is read as one complete response with nothing left, and one more byte
after it is left untouched (so the message is delimited by its length, not by the end of the
input), then NO strict prefix of `w` is read as a complete response. -/
theorem response_prefix_never_complete (meth w : Bytes) (p : Parsed)
    (h0 : readResponse meth w = .complete p [])
    (h1 : readResponse meth (w ++ [0]) = .complete p [0]) :
    ∀ k, k < w.length → (readResponse meth (w.take k)).isComplete = false := by
  intro k hk
  obtain ⟨m0, t, r0, hh, _⟩ := readResponse_head_of_complete meth w p [] h0
  -- the body is not delimited by the close
  have hne : t.body ≠ .eof := by
    intro he
    have hh1 := readResponseHead_ext meth w (m0, t) r0 [0] hh
    unfold readResponse at h1
    simp only [hh1] at h1
    have := finishBody_eof_rest m0 t _ p [0] he h1
    cases this
  cases hp : readResponse meth (w.take k) with
  | incomplete => rfl
  | malformed => rfl
  | outOfModel => rfl
  | complete p' r' =>
    exfalso
    obtain ⟨m0', t', r0', hh', _⟩ := readResponse_head_of_complete meth _ p' r' hp
    have hw : w.take k ++ w.drop k = w := List.take_append_drop k w
    have hhw := readResponseHead_ext meth (w.take k) (m0', t') r0' (w.drop k) hh'
    rw [hw, hh] at hhw
    simp only [R.complete.injEq, Prod.mk.injEq] at hhw
    have hne' : t'.body ≠ .eof := by rw [← hhw.1.2]; exact hne
    have := readResponse_ext meth (w.take k) m0' t' r0' p' r' (w.drop k) hh' hne' hp
    rw [hw, h0] at this
    simp only [R.complete.injEq] at this
    have hd : w.drop k = [] := by
      have := this.2; cases hr : r' with
      | nil => simpa [hr] using this.symm
      | cons c x => rw [hr] at this; simp at this
    have := congrArg List.length hd
    simp at this; omega

theorem request_prefix_never_complete (w : Bytes) (p : Parsed)
    (h0 : readRequest w = .complete p [])
    (h1 : readRequest (w ++ [0]) = .complete p [0]) :
    ∀ k, k < w.length → (readRequest (w.take k)).isComplete = false := by
  intro k hk
  obtain ⟨m0, t, r0, hh, _⟩ := readRequest_head_of_complete w p [] h0
  have hne : t.body ≠ .eof := by
    intro he
    have hh1 := readRequestHead_ext w (m0, t) r0 [0] hh
    unfold readRequest at h1
    simp only [hh1] at h1
    have := finishBody_eof_rest m0 t _ p [0] he h1
    cases this
  cases hp : readRequest (w.take k) with
  | incomplete => rfl
  | malformed => rfl
  | outOfModel => rfl
  | complete p' r' =>
    exfalso
    obtain ⟨m0', t', r0', hh', _⟩ := readRequest_head_of_complete _ p' r' hp
    have hw : w.take k ++ w.drop k = w := List.take_append_drop k w
    have hhw := readRequestHead_ext (w.take k) (m0', t') r0' (w.drop k) hh'
    rw [hw, hh] at hhw
    simp only [R.complete.injEq, Prod.mk.injEq] at hhw
    have hne' : t'.body ≠ .eof := by rw [← hhw.1.2]; exact hne
    have := readRequest_ext (w.take k) m0' t' r0' p' r' (w.drop k) hh' hne' hp
    rw [hw, h0] at this
    simp only [R.complete.injEq] at this
    have hd : w.drop k = [] := by
      have := this.2; cases hr : r' with
      | nil => simpa [hr] using this.symm
      | cons c x => rw [hr] at this; simp at this
    have := congrArg List.length hd
    simp at this; omega

end Martian.Http1
