import Martian.Lemmas.ShapeSafe
/-! C18: an uninterrupted run of the rounds machine is `connWrite` (observable parts). -/
namespace Martian.Shape
open Martian Martian.Go

def StepRes.mapLoop (f : Loop → Loop) : StepRes → StepRes
  | .cont s b => .cont (f s) b
  | .done s st => .done (f s) st

def capOr (x : Option Int) (s : Loop) : Loop := { s with cap := match s.cap with | some y => some y | none => x }

/-- A round does not look at the last `SetCapacity`; it only remembers a new one. -/
theorem stepLoop_cap (valid : Bool) (k : Nat) (s : Loop) (b : Bytes) :
    stepLoop valid k s b = (stepLoop valid k { s with cap := none } b).mapLoop (capOr s.cap) := by
  unfold stepLoop
  simp only
  split
  · simp only [StepRes.mapLoop, capOr]
  · split
    · simp only [StepRes.mapLoop, capOr]
    · split
      · split
        · simp only [StepRes.mapLoop, capOr]
        · split
          · simp only [StepRes.mapLoop, capOr]
          · split
            · split <;> simp only [StepRes.mapLoop, capOr]
            · simp only [StepRes.mapLoop, capOr]
      · simp only [StepRes.mapLoop, capOr]

def ShapingKept (s : Loop) : StepRes → Prop
  | .cont s' _ => s'.shaping = s.shaping
  | .done _ _ => True

theorem stepLoop_shaping (valid : Bool) (k : Nat) (s : Loop) (b : Bytes) : ShapingKept s (stepLoop valid k s b) := by
  unfold stepLoop
  simp only
  split
  · trivial
  · split
    · rfl
    · split
      · split
        · trivial
        · split
          · trivial
          · split
            · split
              · rfl
              · trivial
              · rfl
            · rfl
      · rfl

/-- The parts of the loop state that the rounds machine keeps (everything but `cap`). -/
def SimRel (s : Loop) (l : Listener) (c : Conn) (pd : Pending) (r : Nat) (valid : Bool) (b : Bytes) (rd : Nat) : Prop :=
  c.ctx.shaping = true ∧ c.ctx.regex = some r ∧ s.shaping = true ∧
  s.off = c.ctx.off ∧ s.next = c.ctx.next ∧ s.delivered = pd.delivered ∧ s.evs = pd.evs ∧
  b = pd.rest ∧ rd = pd.round ∧
  valid = (validShape l c r).isSome ∧
  s.acts = (match validShape l c r with | some sh => sh.actions | none => [])

/-- What is compared: delivered bytes, events, status, and the context fields the loop owns. -/
def SameOut (s : Loop) (st : Status) (res : Listener × Conn × Pending × Status) : Prop :=
  res.2.2.1.delivered = s.delivered ∧ res.2.2.1.evs = s.evs ∧ res.2.2.2 = st ∧
  res.2.1.ctx.off = s.off ∧ res.2.1.ctx.next = s.next ∧ res.2.1.ctx.shaping = s.shaping

theorem applyCap_more (c : Conn) (r : Nat) (x : Option Int) :
    (applyCap c r x).ctx.shaping = c.ctx.shaping ∧ (applyCap c r x).ctx.headerLen = c.ctx.headerLen ∧
    (applyCap c r x).ctx.headerWritten = c.ctx.headerWritten := by
  unfold applyCap
  split <;> exact ⟨rfl, rfl, rfl⟩

theorem validShape_setShapeActions (l : Listener) (c c' : Conn) (r : Nat) (sh : Shape) (acts : List Action)
    (he : c'.established = c.established) (hv : validShape l c r = some sh) :
    validShape (setShapeActions l r acts) c' r = some { sh with actions := acts } := by
  have hg : mapGet r l.shapes = some sh := by
    unfold validShape at hv; split at hv
    · exact hv
    · cases hv
  have hlt : l.lastMod < c.established := by
    unfold validShape at hv; split at hv
    · assumption
    · cases hv
  unfold validShape
  rw [(setShapeActions_lastMod l r acts).1, he]
  simp only [hlt, if_true]
  unfold setShapeActions
  simp only [hg, mapGet_mapSet, if_true]

/-- One round of both, from related states, with the shape lookup already resolved to `acts`. -/
theorem rounds_simulate (caps : Nat → Nat) : ∀ (fuel rd : Nat) (s : Loop) (b : Bytes) (l : Listener) (c : Conn)
    (pd : Pending) (r : Nat) (valid : Bool), SimRel s l c pd r valid b rd →
    SameOut (bodyLoop valid caps fuel rd s b).1 (bodyLoop valid caps fuel rd s b).2 (runRounds caps fuel l c pd) := by
  intro fuel
  induction fuel with
  | zero =>
    intro rd s b l c pd r valid h
    obtain ⟨_, _, h3, h4, h5, h6, h7, _⟩ := h
    simp only [bodyLoop, runRounds]
    exact ⟨h6.symm, h7.symm, rfl, h4.symm, h5.symm, by simp_all⟩
  | succ fuel ih =>
    intro rd s b l c pd r valid h
    obtain ⟨hsh, hreg, h3, h4, h5, h6, h7, h8, h9, h10, h11⟩ := h
    unfold bodyLoop runRounds roundStep
    subst h8
    by_cases he : pd.rest.isEmpty = true
    · simp only [he, if_true]
      exact ⟨h6.symm, h7.symm, rfl, h4.symm, h5.symm, by simp_all⟩
    · simp only [he, Bool.false_eq_true, if_false, hsh, Bool.not_true, hreg]
      -- resolve the shape lookup; both sides then run `stepLoop` from states that differ in `cap` only
      have key : ∀ (acts : List Action) (l0 : List Action → Listener),
          s.acts = acts →
          (∀ (s1 : Loop) (b1 : Bytes) (c1 : Conn), c1.established = c.established →
            stepLoop valid (caps rd) { s with cap := none } pd.rest = .cont s1 b1 →
            valid = (validShape (l0 s1.acts) c1 r).isSome ∧
            s1.acts = (match validShape (l0 s1.acts) c1 r with | some sh => sh.actions | none => [])) →
          SameOut
            (match stepLoop valid (caps rd) s pd.rest with
              | .cont s' b' => bodyLoop valid caps fuel (rd + 1) s' b'
              | .done s' st => (s', st)).1
            (match stepLoop valid (caps rd) s pd.rest with
              | .cont s' b' => bodyLoop valid caps fuel (rd + 1) s' b'
              | .done s' st => (s', st)).2
            (match
              (match stepLoop valid (caps pd.round)
                  { off := c.ctx.off, next := c.ctx.next, acts := acts, delivered := pd.delivered, evs := pd.evs } pd.rest with
                | .cont s' b' =>
                  (l0 s'.acts,
                   applyCap { c with ctx := { shaping := s'.shaping, regex := some r, off := s'.off, headerLen := c.ctx.headerLen, headerWritten := c.ctx.headerWritten, next := s'.next, fast := c.ctx.fast } } r s'.cap,
                   ({ rest := b', delivered := s'.delivered, evs := s'.evs, round := pd.round + 1 } : Pending), (none : Option Status))
                | .done s' st =>
                  (l0 s'.acts,
                   applyCap { c with ctx := { shaping := s'.shaping, regex := some r, off := s'.off, headerLen := c.ctx.headerLen, headerWritten := c.ctx.headerWritten, next := s'.next, fast := c.ctx.fast } } r s'.cap,
                   ({ rest := [], delivered := s'.delivered, evs := s'.evs, round := pd.round + 1 } : Pending), some st)) with
              | (l', c', pd', some st) => (l', c', pd', st)
              | (l', c', pd', none) => runRounds caps fuel l' c' pd') := by
        intro acts l0 hacts hrel
        have hs0 : ({ off := c.ctx.off, next := c.ctx.next, acts := acts, delivered := pd.delivered, evs := pd.evs } : Loop)
            = { s with cap := none } := by
          cases s
          simp only at h3 h4 h5 h6 h7 hacts
          subst h3 h4 h5 h6 h7 hacts
          rfl
        rw [hs0, ← h9, stepLoop_cap valid (caps rd) s pd.rest]
        cases hst : stepLoop valid (caps rd) { s with cap := none } pd.rest with
        | cont s1 b1 =>
          simp only [StepRes.mapLoop]
          have hshape : s1.shaping = true := by
            have := stepLoop_shaping valid (caps rd) { s with cap := none } pd.rest
            rw [hst] at this
            simpa [ShapingKept, h3] using this
          apply ih
          have ac := applyCap_ctx { c with ctx := { shaping := s1.shaping, regex := some r, off := s1.off, headerLen := c.ctx.headerLen, headerWritten := c.ctx.headerWritten, next := s1.next, fast := c.ctx.fast } } r s1.cap
          have am := applyCap_more { c with ctx := { shaping := s1.shaping, regex := some r, off := s1.off, headerLen := c.ctx.headerLen, headerWritten := c.ctx.headerWritten, next := s1.next, fast := c.ctx.fast } } r s1.cap
          have hr := hrel s1 b1 _ ac.2.2.2 hst
          refine ⟨by (rw [am.1]; exact hshape), by (rw [ac.2.2.1]), hshape, by (rw [ac.1]; rfl),
            by (rw [ac.2.1]; rfl), rfl, rfl, rfl, by (rw [h9]), hr.1, ?_⟩
          simp only [capOr]
          exact hr.2
        | done s1 st =>
          simp only [StepRes.mapLoop]
          have ac := applyCap_ctx { c with ctx := { shaping := s1.shaping, regex := some r, off := s1.off, headerLen := c.ctx.headerLen, headerWritten := c.ctx.headerWritten, next := s1.next, fast := c.ctx.fast } } r s1.cap
          have am := applyCap_more { c with ctx := { shaping := s1.shaping, regex := some r, off := s1.off, headerLen := c.ctx.headerLen, headerWritten := c.ctx.headerWritten, next := s1.next, fast := c.ctx.fast } } r s1.cap
          exact ⟨rfl, rfl, rfl, by (rw [ac.1]; rfl), by (rw [ac.2.1]; rfl), by (rw [am.1]; rfl)⟩
      cases hv : validShape l c r with
      | none =>
        simp only [Option.isSome_none, Bool.false_eq_true, if_false]
        rw [hv] at h10 h11
        simp only [Option.isSome_none] at h10
        simp only at h11
        subst h10
        refine key [] (fun _ => l) h11 ?_
        intro s1 b1 c1 he1 hst
        rw [validShape_congr l c c1 he1, hv]
        refine ⟨rfl, ?_⟩
        have := step_invalid (caps rd) { s with cap := none } pd.rest
        rw [hst] at this
        simp only [StepRes.loop] at this
        rw [this.2.1]; exact h11
      | some sh =>
        simp only [Option.isSome_some, if_true]
        rw [hv] at h10 h11
        simp only [Option.isSome_some] at h10
        simp only at h11
        subst h10
        refine key sh.actions (fun a => setShapeActions l r a) h11 ?_
        intro s1 b1 c1 he1 hst
        rw [validShape_setShapeActions l c c1 r sh s1.acts he1 hv]
        exact ⟨rfl, rfl⟩

theorem beginWrite_shaped (c : Conn) (b : Bytes) (hsh : c.ctx.shaping = true) :
    beginWrite c b =
      ({ c with ctx := { c.ctx with headerWritten := c.ctx.headerWritten + (headPart c.ctx b : Int) } },
       { rest := b.drop (headPart c.ctx b), delivered := b.take (headPart c.ctx b) }) := by
  unfold beginWrite headPart
  simp only [hsh, if_true]

/-- A `Write` of a shaped response (`shapedWrite`, what the sequential theorems speak about) and the
same call executed by the rounds machine with nothing in between (`beginWrite`, then `runRounds`
against the listener) deliver the same bytes, perform the same actions, end with the same status
and leave the same offset / pending action / shaping flag in the context. -/
theorem shapedWrite_eq_rounds_aux (caps : Nat → Nat) (l : Listener) (c : Conn) (b : Bytes) (r : Nat)
    (hsh : c.ctx.shaping = true) (hreg : c.ctx.regex = some r) (acts : List Action)
    (hacts : acts = (match validShape l c r with | some sh => sh.actions | none => [])) :
    SameOut
      (bodyLoop (validShape l c r).isSome caps (fuelFor (b.drop (headPart c.ctx b)) acts) 0
        { off := c.ctx.off, next := c.ctx.next, acts := acts, delivered := b.take (headPart c.ctx b) }
        (b.drop (headPart c.ctx b))).1
      (bodyLoop (validShape l c r).isSome caps (fuelFor (b.drop (headPart c.ctx b)) acts) 0
        { off := c.ctx.off, next := c.ctx.next, acts := acts, delivered := b.take (headPart c.ctx b) }
        (b.drop (headPart c.ctx b))).2
      (runRounds caps (fuelFor (b.drop (headPart c.ctx b)) acts) l (beginWrite c b).1 (beginWrite c b).2) := by
  rw [beginWrite_shaped c b hsh]
  apply rounds_simulate
  refine ⟨hsh, hreg, rfl, rfl, rfl, rfl, rfl, rfl, rfl, ?_, ?_⟩
  · simp only [validShape]
  · rw [hacts]; simp only [validShape]

theorem noOverlap_get : ∀ (ts : List Throttle), NoOverlap ts → ∀ (j : Nat) (hj : j + 1 < ts.length),
    (ts[j]'(by omega)).stop ≤ (ts[j + 1]'hj).start ∧ (ts[j]'(by omega)).stop ≠ -1
  | [], _, j, hj => by simp only [List.length_nil] at hj; omega
  | [_], _, j, hj => by simp only [List.length_cons, List.length_nil] at hj; omega
  | t :: t2 :: rest, h, j, hj => by
    obtain ⟨h1, h2, h3⟩ := h
    cases j with
    | zero => exact ⟨h1, h2⟩
    | succ j =>
      have := noOverlap_get (t2 :: rest) h3 j (by simpa using hj)
      simpa using this

end Martian.Shape
