import Martian.Lemmas.HarLog
import Martian.Model.HarLogConc
/-!
Lemmas for C17, round 3: the API level (`Logger`: options, message errors), tagged histories, and
the concurrent machine of `Model/HarLogConc.lean`.  Core Lean only.
-/
namespace Martian.HarLog

/-! ## API level = prelude + critical section -/

theorem logger_step_eq (l : Logger) (t : Nat) (c : Call) :
    l.step t c = (⟨l.cfg.next c, (step l.heap t (c.critical l.cfg)).1⟩,
                  (step l.heap t (c.critical l.cfg)).2) := by
  cases c with
  | req id m =>
    simp only [Logger.step, Logger.recordRequest, Call.critical, Cfg.next]
    split <;> rfl
  | res id m =>
    simp only [Logger.step, Logger.recordResponse, Call.critical, Cfg.next]
    split <;> rfl
  | exp => rfl
  | xreset => rfl
  | reset => rfl
  | setPost o => rfl
  | setBody o => rfl

theorem slogger_step_eq (l : SLogger) (t : Nat) (c : Call) :
    l.step t c = (⟨l.cfg.next c, (Spec.step l.log t (c.critical l.cfg)).1⟩,
                  (Spec.step l.log t (c.critical l.cfg)).2) := by
  cases c with
  | req id m =>
    simp only [SLogger.step, Call.critical, Cfg.next]
    split <;> rfl
  | res id m =>
    simp only [SLogger.step, Call.critical, Cfg.next]
    split <;> rfl
  | exp => rfl
  | xreset => rfl
  | reset => rfl
  | setPost o => rfl
  | setBody o => rfl

theorem logger_run_eq (cs : List Call) : ∀ (l : Logger) (t : Nat),
    Logger.run l t cs = run l.heap t (criticals l.cfg cs) := by
  induction cs with
  | nil => intros; rfl
  | cons c cs ih =>
    intro l t
    simp only [Logger.run, criticals, run, logger_step_eq, ih]

theorem slogger_run_eq (cs : List Call) : ∀ (l : SLogger) (t : Nat),
    SLogger.run l t cs = Spec.run l.log t (criticals l.cfg cs) := by
  induction cs with
  | nil => intros; rfl
  | cons c cs ih =>
    intro l t
    simp only [SLogger.run, criticals, Spec.run, slogger_step_eq, ih]

theorem logger_after_eq (cs : List Call) : ∀ (l : Logger) (t : Nat),
    (Logger.after l t cs).heap = after l.heap t (criticals l.cfg cs) := by
  induction cs with
  | nil => intros; rfl
  | cons c cs ih =>
    intro l t
    simp only [Logger.after, criticals, after, logger_step_eq, ih]

/-- From the initial logger: the API run is the list specification's run of its critical sections. -/
theorem logger_run_init (cs : List Call) :
    Logger.run Logger.init 0 cs = Spec.run [] 0 (criticals Cfg.default cs) := by
  rw [logger_run_eq]
  exact run_refines _ init [] 0 Reach_init

/-- The options in force after a history of calls. -/
def cfgAfter (c : Cfg) (cs : List Call) : Cfg := cs.foldl Cfg.next c

theorem criticals_length (cs : List Call) : ∀ c, (criticals c cs).length = cs.length := by
  induction cs with
  | nil => intro; rfl
  | cons x xs ih => intro c; simp [criticals, ih]

theorem criticals_append (a b : List Call) : ∀ c,
    criticals c (a ++ b) = criticals c a ++ criticals (cfgAfter c a) b := by
  induction a with
  | nil => intro c; rfl
  | cons x xs ih => intro c; simp [criticals, cfgAfter, ih]

theorem critical_eq_req {c : Cfg} {x : Call} {id : String} (h : x.critical c = .req id) :
    ∃ m, x = .req id m := by
  cases x with
  | req id' m =>
    simp only [Call.critical] at h
    split at h
    · cases h
    · cases h; exact ⟨m, rfl⟩
  | res id' m => simp only [Call.critical] at h; split at h <;> cases h
  | exp => cases h
  | xreset => cases h
  | reset => cases h
  | setPost o => cases h
  | setBody o => cases h

theorem critical_eq_res {c : Cfg} {x : Call} {id : String} (h : x.critical c = .res id) :
    ∃ m, x = .res id m := by
  cases x with
  | res id' m =>
    simp only [Call.critical] at h
    split at h
    · cases h
    · cases h; exact ⟨m, rfl⟩
  | req id' m => simp only [Call.critical] at h; split at h <;> cases h
  | exp => cases h
  | xreset => cases h
  | reset => cases h
  | setPost o => cases h
  | setBody o => cases h

theorem criticals_get (cs : List Call) : ∀ (c : Cfg) (i : Nat) (o : Op),
    (criticals c cs)[i]? = some o → ∃ x c', cs[i]? = some x ∧ x.critical c' = o := by
  induction cs with
  | nil => intro c i o h; simp [criticals] at h
  | cons x xs ih =>
    intro c i o h
    cases i with
    | zero =>
      simp only [criticals, List.getElem?_cons_zero, Option.some.injEq] at h
      exact ⟨x, c, by simp, h⟩
    | succ j =>
      simp only [criticals, List.getElem?_cons_succ] at h
      obtain ⟨y, c', h1, h2⟩ := ih _ j o h
      exact ⟨y, c', by simpa using h1, h2⟩

/-! ## Tagged histories -/

namespace Spec

def runT (l : Log) : List (Nat × Op) → List Obs
  | [] => []
  | (t, o) :: os => (step l t o).2 :: runT (step l t o).1 os

def afterT (l : Log) : List (Nat × Op) → Log
  | [] => l
  | (t, o) :: os => afterT (step l t o).1 os

end Spec

theorem runT_refines (cs : List (Nat × Op)) : ∀ (h : Heap) (l : Log), Reach h l →
    runT h cs = Spec.runT l cs ∧ Reach (afterT h cs) (Spec.afterT l cs) := by
  induction cs with
  | nil => intro h l hr; exact ⟨rfl, hr⟩
  | cons c cs ih =>
    intro h l hr
    obtain ⟨t, o⟩ := c
    obtain ⟨h1, h2⟩ := step_sim h l t o hr
    obtain ⟨i1, i2⟩ := ih _ _ h1
    exact ⟨by simp only [runT, Spec.runT, h2, i1], by simpa only [afterT, Spec.afterT] using i2⟩

theorem runT_append (a b : List (Nat × Op)) : ∀ (h : Heap),
    runT h (a ++ b) = runT h a ++ runT (afterT h a) b ∧ afterT h (a ++ b) = afterT (afterT h a) b := by
  induction a with
  | nil => intro h; exact ⟨rfl, rfl⟩
  | cons c cs ih =>
    intro h
    obtain ⟨t, o⟩ := c
    obtain ⟨i1, i2⟩ := ih (step h t o).1
    exact ⟨by simp only [List.cons_append, runT, afterT, i1], by simp only [List.cons_append, afterT, i2]⟩

/-- IDs stay pairwise different whatever the tags are. -/
theorem ids_nodup_step (l : Log) (t : Nat) (o : Op) (hn : (idsOf l).Nodup) :
    (idsOf (Spec.step l t o).1).Nodup := by
  cases o with
  | req id =>
    simp only [Spec.step, Spec.req]
    by_cases hd : Spec.hasId l id = true
    · simp only [hd, if_true]; exact hn
    · have hd' : Spec.hasId l id = false := by simpa using hd
      simp only [hd', Bool.false_eq_true, if_false, idsOf, List.map_append, List.map_cons, List.map_nil]
      rw [List.nodup_append]
      refine ⟨hn, by simp, ?_⟩
      intro a ha b hb
      simp at hb; subst hb
      intro he; subst he
      exact hd ((hasId_iff l a).mpr ha)
  | res id => rw [Spec.step, idsOf_res]; exact hn
  | exp => exact hn
  | xreset => exact hn.sublist ((List.filter_sublist (l := l)).map _)
  | reset => simp [Spec.step, idsOf]
  | idle f => exact hn

theorem runT_logs_nodup_ids (cs : List (Nat × Op)) : ∀ (l : Log), (idsOf l).Nodup →
    ∀ es, Obs.log es ∈ Spec.runT l cs → (idsOf es).Nodup := by
  induction cs with
  | nil => intro l _ es h; simp [Spec.runT] at h
  | cons c cs ih =>
    intro l hn es h
    obtain ⟨t, o⟩ := c
    simp only [Spec.runT, List.mem_cons] at h
    rcases h with h | h
    · cases o with
      | req id => simp only [Spec.step, Spec.req] at h; split at h <;> cases h
      | res id => cases h
      | exp => simp only [Spec.step] at h; cases h; exact hn
      | xreset =>
        simp only [Spec.step] at h; cases h
        exact hn.sublist ((List.filter_sublist (l := l)).map _)
      | reset => cases h
      | idle f => simp only [Spec.step] at h; split at h <;> cases h
    · exact ih _ (ids_nodup_step l t o hn) es h

/-- A pending entry stays in the log, as it is, across ANY history that contains neither a reset
    nor a response for its ID — however long, whatever else it does (drains, exports, duplicate
    requests, other IDs' traffic, failing calls). -/
theorem pending_stays (mid : List Op) : ∀ (l : Log) (t : Nat) (e : Ent), e ∈ l → e.done = false →
    (∀ o ∈ mid, o ≠ .reset ∧ o ≠ .res e.id) → e ∈ Spec.after l t mid := by
  induction mid with
  | nil => intro l t e he _ _; exact he
  | cons o os ih =>
    intro l t e he hp hm
    have ho := hm o (by simp)
    refine ih _ (t + 1) e ?_ hp (fun o' h' => hm o' (List.mem_cons_of_mem _ h'))
    cases o with
    | req id =>
      simp only [Spec.step, Spec.req]; split
      · exact he
      · exact List.mem_append_left _ he
    | res id =>
      have hne : e.id ≠ id := fun h => ho.2 (by rw [h])
      simp only [Spec.step, Spec.res, List.mem_map]
      exact ⟨e, he, by simp [hne]⟩
    | exp => exact he
    | xreset =>
      simp only [Spec.step, List.mem_filter]
      exact ⟨he, by simp [hp]⟩
    | reset => exact absurd rfl ho.1
    | idle f => exact he

/-! ## The concurrent machine -/

namespace Conc

theorem atomic_of_lockOK {tbl : LockTable} (hl : LockOK tbl = true) (o : Op) : atomicIn tbl o = true := by
  simp only [LockOK, List.all_cons, List.all_nil, Bool.and_true, Bool.and_eq_true] at hl
  obtain ⟨⟨h1, h2, h3, h4, h5⟩, _⟩ := hl
  cases o with
  | req id => exact h1
  | res id => exact h2
  | exp => exact h3
  | xreset => exact h4
  | reset => exact h5
  | idle f => rfl

theorem fire_ev {tbl : LockTable} {c c' : Conf} {i : Nat} {e : Ev} (h : fire tbl c i = .ev c' e) :
    ∃ rest, c.progs[i]? = some ((e.tag, e.op) :: rest) ∧ e.thread = i ∧
      c' = ⟨(step c.heap e.tag e.op).1, c.progs.set i rest⟩ ∧ e.obs = (step c.heap e.tag e.op).2 := by
  unfold fire at h
  split at h
  · rename_i t o rest hp
    split at h
    · cases h; exact ⟨rest, hp, rfl, rfl, rfl⟩
    · cases h
  · cases h

theorem fire_not_stuck {tbl : LockTable} (hl : LockOK tbl = true) (c : Conf) (i : Nat) :
    fire tbl c i ≠ .stuck := by
  unfold fire
  split
  · rw [atomic_of_lockOK hl]; simp
  · simp

theorem exec_total {tbl : LockTable} (hl : LockOK tbl = true) (sched : List Nat) :
    ∀ c, ∃ r, exec tbl c sched = some r := by
  induction sched with
  | nil => intro c; exact ⟨_, rfl⟩
  | cons i is ih =>
    intro c
    unfold exec
    cases hf : fire tbl c i with
    | stuck => exact absurd hf (fire_not_stuck hl c i)
    | none => exact ih c
    | ev c' e =>
      obtain ⟨r, hr⟩ := ih c'
      exact ⟨(r.1, e :: r.2), by simp [hr]⟩

theorem exec_sound {tbl : LockTable} (sched : List Nat) : ∀ (c cf : Conf) (tr : List Ev),
    exec tbl c sched = some (cf, tr) →
    tr.map (·.obs) = runT c.heap (callsOf tr) ∧ cf.heap = afterT c.heap (callsOf tr) := by
  induction sched with
  | nil =>
    intro c cf tr h
    simp only [exec, Option.some.injEq, Prod.mk.injEq] at h
    obtain ⟨rfl, rfl⟩ := h
    exact ⟨rfl, rfl⟩
  | cons i is ih =>
    intro c cf tr h
    unfold exec at h
    cases hf : fire tbl c i with
    | stuck => rw [hf] at h; cases h
    | none => rw [hf] at h; exact ih c cf tr h
    | ev c' e =>
      rw [hf] at h
      simp only [Option.map_eq_some_iff] at h
      obtain ⟨⟨cf', tr'⟩, hr, heq⟩ := h
      simp only [Prod.mk.injEq] at heq
      obtain ⟨rfl, rfl⟩ := heq
      obtain ⟨rest, _, _, hc', hobs⟩ := fire_ev hf
      obtain ⟨i1, i2⟩ := ih c' cf' tr' hr
      subst hc'
      refine ⟨?_, ?_⟩
      · simp only [List.map_cons, callsOf, runT, hobs]
        congr 1
      · simp only [callsOf, List.map_cons, afterT]
        exact i2

theorem exec_program_order {tbl : LockTable} (sched : List Nat) : ∀ (c cf : Conf) (tr : List Ev),
    exec tbl c sched = some (cf, tr) →
    ∀ i, (c.progs[i]?).getD [] = ofThread i tr ++ (cf.progs[i]?).getD [] := by
  induction sched with
  | nil =>
    intro c cf tr h i
    simp only [exec, Option.some.injEq, Prod.mk.injEq] at h
    obtain ⟨rfl, rfl⟩ := h
    simp [ofThread, callsOf]
  | cons j js ih =>
    intro c cf tr h i
    unfold exec at h
    cases hf : fire tbl c j with
    | stuck => rw [hf] at h; cases h
    | none => rw [hf] at h; exact ih c cf tr h i
    | ev c' e =>
      rw [hf] at h
      simp only [Option.map_eq_some_iff] at h
      obtain ⟨⟨cf', tr'⟩, hr, heq⟩ := h
      simp only [Prod.mk.injEq] at heq
      obtain ⟨rfl, rfl⟩ := heq
      obtain ⟨rest, hp, hth, hc', _⟩ := fire_ev hf
      have := ih c' cf' tr' hr i
      subst hc'
      by_cases hij : i = j
      · subst hij
        have hlt : i < c.progs.length := by
          rcases Nat.lt_or_ge i c.progs.length with h | h
          · exact h
          · rw [List.getElem?_eq_none h] at hp; cases hp
        simp only [List.getElem?_set_self hlt, Option.getD_some] at this
        simp only [hp, Option.getD_some, ofThread, callsOf, List.filter_cons, hth, beq_self_eq_true,
          if_true, List.map_cons, List.cons_append]
        rw [this]; rfl
      · have hne : j ≠ i := fun h => hij h.symm
        simp only [List.getElem?_set_ne hne] at this
        have hth' : (e.thread == i) = false := by
          rw [hth]; simpa using hne
        simp only [ofThread, List.filter_cons, hth', Bool.false_eq_true, if_false]
        exact this

end Conc

end Martian.HarLog
