import Martian.Lemmas.Mitm
/-!
Invariant of the fine-grained concurrent semantics of `Config.cert` (`stepF`/`runF`, Model/Mitm.lean):
seven program points per requester, a global clock that only moves forward, arbitrary interleaving.
-/
namespace Martian.Mitm
open Martian Martian.Go

/-- Right SAN, CA signature, proxy key, configured organisation. -/
def Good3 (cfg : Config) (k : Bytes) (c : Cert) : Prop := GoodFor k c ∧ c.org = cfg.org

/-- What is known about an answer that was checked (cache hit: `Verify`; fresh: second `time.Now()`
of the template) at time `tchk`, for the port-stripped host `k` of the requester. -/
def RetGood (cfg : Config) (k : Bytes) : Outcome → Int → Prop
  | .refused, _ => k = []
  | .served c f, tchk => k ≠ [] ∧ Good3 cfg k c ∧
      (f = false → goVerify c k tchk = true) ∧
      (f = true → c.notBefore ≤ tchk - cfg.validity ∧ c.notAfter = floorSec (tchk + cfg.validity))

def FPcGood (cfg : Config) (clock : Int) (hostname : Bytes) : FPc → Prop
  | .start h => h = hostname
  | .looked host c => host = normalise hostname ∧ host ≠ [] ∧ Good3 cfg host c
  | .miss host => host = normalise hostname ∧ host ≠ []
  | .tmplNB host _ nb => host = normalise hostname ∧ host ≠ [] ∧ nb ≤ clock - cfg.validity
  | .signed host c t => host = normalise hostname ∧ host ≠ [] ∧ Good3 cfg host c ∧ t ≤ clock ∧
      c.notBefore ≤ t - cfg.validity ∧ c.notAfter = floorSec (t + cfg.validity)
  | .ret o tchk => tchk ≤ clock ∧ RetGood cfg (normalise hostname) o tchk
  | .done o tchk tret => tchk ≤ tret ∧ tret ≤ clock ∧ RetGood cfg (normalise hostname) o tchk

def FCacheInv (cfg : Config) (s : State) : Prop := ∀ k c, (k, c) ∈ s.cache → Good3 cfg k c

def FInv (cfg : Config) (hosts : List Bytes) (sys : FSys) : Prop :=
  FCacheInv cfg sys.st ∧
  ∀ (i : Nat) (pc : FPc), sys.threads[i]? = some pc → ∃ h, hosts[i]? = some h ∧ FPcGood cfg sys.clock h pc

theorem fpcGood_mono {cfg : Config} {c1 c2 : Int} (hle : c1 ≤ c2) {h : Bytes} {pc : FPc}
    (hg : FPcGood cfg c1 h pc) : FPcGood cfg c2 h pc := by
  cases pc with
  | start _ => exact hg
  | looked _ _ => exact hg
  | miss _ => exact hg
  | tmplNB host ser nb => exact ⟨hg.1, hg.2.1, by have := hg.2.2; omega⟩
  | signed host c t => exact ⟨hg.1, hg.2.1, hg.2.2.1, by have := hg.2.2.2.1; omega, hg.2.2.2.2⟩
  | ret o t => exact ⟨by have := hg.1; omega, hg.2⟩
  | done o t t' => exact ⟨hg.1, by have := hg.2.1; omega, hg.2.2⟩

theorem fthreads_set {cfg : Config} {clock : Int} {hosts : List Bytes} {l : List FPc} {i : Nat} {h : Bytes} {new : FPc}
    (hall : ∀ (j : Nat) (pc : FPc), l[j]? = some pc → ∃ h, hosts[j]? = some h ∧ FPcGood cfg clock h pc)
    (hh : hosts[i]? = some h) (hnew : FPcGood cfg clock h new) :
    ∀ (j : Nat) (pc : FPc), (l.set i new)[j]? = some pc → ∃ h, hosts[j]? = some h ∧ FPcGood cfg clock h pc := by
  intro j pc hj
  by_cases hij : i = j
  · subst hij
    rw [List.getElem?_set] at hj
    simp only [if_true] at hj
    split at hj
    · cases hj; exact ⟨h, hh, hnew⟩
    · cases hj
  · rw [List.getElem?_set_ne hij] at hj
    exact hall j pc hj

theorem good3_template (cfg : Config) (host : Bytes) (serial : Nat) (nb na : Int) :
    Good3 cfg host { serial := serial, names := (sanFor host).1, ips := (sanFor host).2, notBefore := nb,
                     notAfter := na, org := cfg.org, signedByCA := true, keyHeld := true } := by
  simp [Good3, GoodFor]

theorem finv_step {cfg : Config} {hosts : List Bytes} {sys : FSys} (i d : Nat)
    (hi : FInv cfg hosts sys) : FInv cfg hosts (stepF cfg sys i d) := by
  obtain ⟨hc, ht0⟩ := hi
  have hle : sys.clock ≤ sys.clock + (d : Int) := by omega
  have ht : ∀ (j : Nat) (pc : FPc), sys.threads[j]? = some pc →
      ∃ h, hosts[j]? = some h ∧ FPcGood cfg (sys.clock + (d : Int)) h pc := by
    intro j pc hj
    obtain ⟨h, hh, hg⟩ := ht0 j pc hj
    exact ⟨h, hh, fpcGood_mono hle hg⟩
  unfold stepF
  simp only
  cases hti : sys.threads[i]? with
  | none => exact ⟨hc, ht⟩
  | some pc =>
    obtain ⟨h, hh, hg⟩ := ht i pc hti
    cases pc with
    | start hostname =>
      have hhost : hostname = h := hg
      subst hhost
      simp only
      split
      · rename_i hem
        refine ⟨hc, fthreads_set ht hh ⟨Int.le_refl _, ?_⟩⟩
        simpa [RetGood] using hem
      · rename_i hne
        have hne' := isEmpty_false_ne hne
        split
        · rename_i c hl
          exact ⟨hc, fthreads_set ht hh ⟨rfl, hne', hc _ _ (mem_of_lookup hl)⟩⟩
        · exact ⟨hc, fthreads_set ht hh ⟨rfl, hne'⟩⟩
    | looked host c =>
      obtain ⟨hk, hkne, hg3⟩ := hg
      simp only
      split
      · rename_i hv
        refine ⟨hc, fthreads_set ht hh ⟨Int.le_refl _, ?_⟩⟩
        rw [← hk]
        refine ⟨hkne, hg3, ?_, ?_⟩
        · intro _; exact hv
        · intro e; cases e
      · exact ⟨hc, fthreads_set ht hh ⟨hk, hkne⟩⟩
    | miss host =>
      obtain ⟨hk, hkne⟩ := hg
      refine ⟨hc, fthreads_set ht hh ⟨hk, hkne, ?_⟩⟩
      exact floorSec_le _
    | tmplNB host ser nb =>
      obtain ⟨hk, hkne, hnb⟩ := hg
      exact ⟨hc, fthreads_set ht hh ⟨hk, hkne, good3_template cfg host ser nb _, Int.le_refl _, hnb, rfl⟩⟩
    | signed host c t =>
      obtain ⟨hk, hkne, hg3, htle, hnb, hna⟩ := hg
      refine ⟨?_, fthreads_set ht hh ⟨htle, ?_⟩⟩
      · intro k' c' hm
        simp only [insertCert, List.mem_cons, Prod.mk.injEq] at hm
        rcases hm with ⟨rfl, rfl⟩ | hm
        · exact hg3
        · exact hc _ _ hm
      · rw [← hk]
        refine ⟨hkne, hg3, ?_, ?_⟩
        · intro e; cases e
        · intro _; exact ⟨hnb, hna⟩
    | ret o t =>
      exact ⟨hc, fthreads_set ht hh ⟨hg.1, Int.le_refl _, hg.2⟩⟩
    | done o t t' => exact ⟨hc, ht⟩

theorem finv_run {cfg : Config} {hosts : List Bytes} :
    ∀ (sched : List (Nat × Nat)) {sys : FSys}, FInv cfg hosts sys → FInv cfg hosts (runF cfg sched sys)
  | [], _, hi => hi
  | (i, d) :: rest, _, hi => finv_run rest (finv_step i d hi)

theorem finv_start {cfg : Config} {hosts : List Bytes} {s : State} {t0 : Int} (hc : FCacheInv cfg s) :
    FInv cfg hosts { st := s, clock := t0, threads := hosts.map FPc.start } := by
  refine ⟨hc, ?_⟩
  intro i pc hpc
  simp only [List.getElem?_map, Option.map_eq_some_iff] at hpc
  obtain ⟨h, hh, rfl⟩ := hpc
  exact ⟨h, hh, rfl⟩

/-- The clock never runs backwards. -/
theorem clock_mono_step (cfg : Config) (sys : FSys) (i d : Nat) : sys.clock ≤ (stepF cfg sys i d).clock := by
  have hle : sys.clock ≤ sys.clock + (d : Int) := by omega
  unfold stepF
  simp only
  split
  · exact hle
  · split
    · exact hle
    · split <;> exact hle
  · split <;> exact hle
  all_goals exact hle

/-! ### from "valid when checked" to "valid when returned" -/

theorem inWindow_of_between {c : Cert} {t1 t2 : Int} (h1 : inWindow c t1 = true) (hle : t1 ≤ t2) (h2 : t2 ≤ c.notAfter) :
    inWindow c t2 = true := by
  simp only [inWindow, Bool.and_eq_true, decide_eq_true_eq] at h1 ⊢
  constructor
  · have := h1.1; omega
  · exact h2

theorem verifiesFor_window {c : Cert} {k : Bytes} {t1 t2 : Int} (h : verifiesFor c k t1 = true) :
    verifiesFor c k t2 = inWindow c t2 := by
  simp only [verifiesFor, Bool.and_eq_true] at h
  simp [verifiesFor, h.1.1.1, h.1.1.2, h.2]

end Martian.Mitm
