import Martian.Lemmas.Path
import Martian.Lemmas.Range
/-!
Byte-level bridge for `clean` / `join2`: the component lists that the stack lemmas talk about are
really the components of the byte strings that `filepath.Clean` / `filepath.Join` return.
-/
namespace Martian.Go
open Martian

theorem splitAux_append_sep (sep : UInt8) (a b cur : Bytes) (ha : sep ∉ a) :
    splitAux sep (a ++ sep :: b) cur = (cur.reverse ++ a) :: splitAux sep b [] := by
  induction a generalizing cur with
  | nil => simp [splitAux]
  | cons c r ih =>
    have hc : (c == sep) = false := by
      have : c ≠ sep := fun h => ha (by simp [h])
      simp [this]
    have hr : sep ∉ r := fun h => ha (by simp [h])
    simp only [List.cons_append, splitAux, hc]
    rw [ih (c :: cur) hr]
    simp

theorem splitAux_no_sep' (sep : UInt8) (a cur : Bytes) (ha : sep ∉ a) :
    splitAux sep a cur = [cur.reverse ++ a] := by
  induction a generalizing cur with
  | nil => simp [splitAux]
  | cons c r ih =>
    have hc : (c == sep) = false := by
      have : c ≠ sep := fun h => ha (by simp [h])
      simp [this]
    simp only [splitAux, hc]
    rw [ih (c :: cur) (fun h => ha (by simp [h]))]
    simp

theorem split_no_sep_single (a : Bytes) (sep : UInt8) (ha : sep ∉ a) : split a sep = [a] := by
  simpa [split] using splitAux_no_sep' sep a [] ha

/-- `split` distributes over a separator (general form: the left part may itself contain separators). -/
theorem split_append_sep (a b : Bytes) (sep : UInt8) : split (a ++ sep :: b) sep = split a sep ++ split b sep := by
  unfold split
  suffices h : ∀ cur, splitAux sep (a ++ sep :: b) cur = splitAux sep a cur ++ splitAux sep b [] from h []
  induction a with
  | nil => intro cur; simp [splitAux]
  | cons c r ih =>
    intro cur
    simp only [List.cons_append, splitAux]
    split
    · rw [ih []]; simp
    · exact ih _

theorem split_join (l : List Bytes) (sep : UInt8) (hl : l ≠ []) (hs : ∀ x ∈ l, sep ∉ x) :
    split (join l [sep]) sep = l := by
  induction l with
  | nil => exact absurd rfl hl
  | cons x r ih =>
    cases r with
    | nil => simpa [join, List.intercalate] using split_no_sep_single x sep (hs x (by simp))
    | cons y r' =>
      have : join (x :: y :: r') [sep] = x ++ sep :: join (y :: r') [sep] := by
        simp [join, List.intercalate, List.intersperse]
      rw [this, split_append_sep, split_no_sep_single x sep (hs x (by simp)),
        ih (by simp) (fun z hz => hs z (by simp [hz]))]
      rfl

/-- Cleaning a rooted path never invents components: every kept component was one of the input's. -/
theorem cleanStep_rooted_sub (stk : List Bytes) (c : Bytes) : ∀ x ∈ cleanStep true stk c, x ∈ stk ∨ x = c := by
  unfold cleanStep
  intro x hx
  split at hx
  · exact Or.inl hx
  · split at hx
    · cases stk with
      | nil => simp at hx
      | cons top rest =>
        simp only at hx
        split at hx
        · rcases List.mem_cons.mp hx with h | h
          · rename_i hc _; simp only [beq_iff_eq] at hc; exact Or.inr (h.trans hc.symm)
          · exact Or.inl h
        · exact Or.inl (List.mem_cons_of_mem _ hx)
    · rcases List.mem_cons.mp hx with h | h
      · exact Or.inr h
      · exact Or.inl h

theorem cleanComps_rooted_sub (cs : List Bytes) : ∀ x ∈ cleanComps true cs, x ∈ cs := by
  unfold cleanComps
  suffices h : ∀ stk, ∀ x ∈ cs.foldl (cleanStep true) stk, x ∈ stk ∨ x ∈ cs by
    intro x hx
    rcases h [] x (List.mem_reverse.mp hx) with h | h
    · simp at h
    · exact h
  induction cs with
  | nil => intro stk x hx; exact Or.inl hx
  | cons c r ih =>
    intro stk x hx
    simp only [List.foldl_cons] at hx
    rcases ih _ x hx with h | h
    · rcases cleanStep_rooted_sub stk c x h with h2 | h2
      · exact Or.inl h2
      · exact Or.inr (by simp [h2])
    · exact Or.inr (List.mem_cons_of_mem _ h)

theorem filter_plain (l : List Bytes) (h : ∀ x ∈ l, Plain x) : l.filter (· ≠ []) = l := by
  apply List.filter_eq_self.mpr
  intro x hx; simpa using (h x hx).1

/-- The components of `Clean(p)` for a rooted `p` are exactly what the component stack computes. -/
theorem comps_clean_rooted (p : Bytes) (hp : isRooted p = true) :
    comps (clean p) = cleanComps true (split p slash) := by
  have hne : p.isEmpty = false := by cases p <;> simp_all [isRooted]
  unfold clean comps
  simp only [hne, hp, Bool.false_eq_true, if_false, if_true]
  generalize hout : cleanComps true (split p slash) = out
  have hplain : ∀ x ∈ out, Plain x := by rw [← hout]; exact cleanComps_rooted_plain _
  have hsl : ∀ x ∈ out, slash ∉ x := by
    intro x hx
    rw [← hout] at hx
    exact Martian.Range.split_no_sep p slash x (cleanComps_rooted_sub _ x hx)
  cases out with
  | nil => simp [join, List.intercalate, split, splitAux, slash]
  | cons y r =>
    have : (slash :: join (y :: r) [slash]) = [] ++ slash :: join (y :: r) [slash] := rfl
    rw [this, split_append_sep, split_join (y :: r) slash (by simp) hsl]
    simp only [split, splitAux, List.reverse_nil, List.cons_append, List.nil_append]
    have h1 : List.filter (fun x : Bytes => decide (x ≠ [])) ([] :: y :: r) = List.filter (fun x : Bytes => decide (x ≠ [])) (y :: r) := by
      simp
    rw [h1]
    exact filter_plain _ hplain

theorem clean_rooted_isRooted (p : Bytes) (hp : isRooted p = true) : isRooted (clean p) = true := by
  have hne : p.isEmpty = false := by cases p <;> simp_all [isRooted]
  unfold clean
  simp only [hne, hp, Bool.false_eq_true, if_false, if_true]
  simp [isRooted]

end Martian.Go
