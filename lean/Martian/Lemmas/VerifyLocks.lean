import Martian.Model.VerifyLocks
/-! Helper lemmas for the lock discipline of C13 (core Lean only). -/
namespace Martian.Verify
open Martian

/-- The access holds the mutex `mu` of the very object it touches, for writing if it writes. -/
def selfGuarded (a : Access) : Prop :=
  ∃ h ∈ a.held, h.owner = a.owner ∧ h.mu = "mu" ∧ (a.write = true → h.w = true)

theorem excl_of_common (a b : Access) (h1 h2 : Held) (m1 : h1 ∈ a.held) (m2 : h2 ∈ b.held)
    (ho : h1.owner = h2.owner) (hm : h1.mu = h2.mu) (hw : h1.w = true ∨ h2.w = true) : excl a b = true := by
  simp only [excl, List.any_eq_true]
  refine ⟨h1, m1, h2, m2, ?_⟩
  rcases hw with hw | hw <;> simp [ho, hm, hw]

theorem excl_of_selfGuarded {a b : Access} (ha : selfGuarded a) (hb : selfGuarded b) (ho : a.owner = b.owner)
    (hw : a.write = true ∨ b.write = true) : excl a b = true := by
  obtain ⟨h1, m1, o1, n1, w1⟩ := ha
  obtain ⟨h2, m2, o2, n2, w2⟩ := hb
  refine excl_of_common a b h1 h2 m1 m2 (by rw [o1, o2, ho]) (by rw [n1, n2]) ?_
  rcases hw with hw | hw
  · exact Or.inl (w1 hw)
  · exact Or.inr (w2 hw)

theorem mem_of_lookup {β} : ∀ (l : List (String × β)) (k : String) (v : β), l.lookup k = some v → (k, v) ∈ l
  | [], _, _, h => by simp [List.lookup] at h
  | (k', v') :: l, k, v, h => by
    by_cases hk : k = k'
    · subst hk; simp [List.lookup] at h; subst h; simp
    · have : (k == k') = false := by simp [hk]
      simp only [List.lookup, this] at h
      exact List.mem_cons_of_mem _ (mem_of_lookup l k v h)

theorem meFacts_ok (hF : factMultiErrorLocked = true) (method : String) :
    ∀ g ∈ meFactsOf method, g.isCall = true ∨ g.ownGuarded = true := by
  intro g hg
  simp only [meFactsOf] at hg
  cases hl : Generated.Verify.multiErrorLockFacts.lookup method with
  | none => simp [hl] at hg
  | some v =>
    simp only [hl, Option.getD_some] at hg
    have hm := mem_of_lookup _ _ _ hl
    simp only [factMultiErrorLocked, List.all_eq_true] at hF
    have := hF _ hm g hg
    simpa using this

theorem mem_mkHeld (o : Owner) (hs : List (String × Bool)) (h : String × Bool) (hm : h ∈ hs) :
    (⟨o, h.1, h.2⟩ : Held) ∈ mkHeld o hs := by
  simp only [mkHeld, List.mem_map]
  exact ⟨h, hm, rfl⟩

theorem selfGuarded_of_ownGuarded (k : OpK) (o : Owner) (typ : String) (g : Fact) (ctx : List Held)
    (hg : g.ownGuarded = true) : selfGuarded ⟨k, o, typ, g.name, g.write, ctx ++ mkHeld o g.held⟩ := by
  simp only [Fact.ownGuarded, List.any_eq_true, Bool.and_eq_true, Bool.or_eq_true, beq_iff_eq] at hg
  obtain ⟨h, hm, hmu, hw⟩ := hg
  refine ⟨⟨o, h.1, h.2⟩, List.mem_append_right _ (mem_mkHeld o _ h hm), rfl, hmu, ?_⟩
  intro hwr
  simp only at hwr
  rcases hw with hw | hw
  · simp [hwr] at hw
  · exact hw

theorem meAcc_ok (hF : factMultiErrorLocked = true) (k : OpK) (p : List Nat) (ctx : List Held) (method : String) :
    ∀ a ∈ meAcc k p ctx method, a.k = k ∧ a.owner = .cell p ∧ selfGuarded a := by
  intro a ha
  simp only [meAcc, List.mem_filterMap] at ha
  obtain ⟨g, hg, hga⟩ := ha
  rcases meFacts_ok hF method g hg with hc | hog
  · simp [hc] at hga
  · by_cases hc : g.isCall = true
    · simp [hc] at hga
    · simp only [hc, Bool.false_eq_true, if_false, Option.some.injEq] at hga
      subst hga
      exact ⟨rfl, rfl, selfGuarded_of_ownGuarded k (.cell p) "MultiError" g ctx hog⟩

/-- What is known of an access to a field of a verifier. -/
def nodeAcc (side : Side) (k : OpK) (ctx : List Held) (a : Access) : Prop :=
  (∃ q, a.owner = .node q) ∧ (∀ h ∈ ctx, h ∈ a.held) ∧ a.typ ∈ verifierTyps ∧
  ∃ f ∈ factsOf a.typ side k, f.isCall = false ∧ isMutable a.typ side f.name = true ∧ f.name = a.field ∧
    f.write = a.write ∧ (f.ownGuarded = true → selfGuarded a)

def accInv (side : Side) (k : OpK) (ctx : List Held) (a : Access) : Prop :=
  a.k = k ∧ (((∃ q, a.owner = .cell q) ∧ selfGuarded a) ∨ nodeAcc side k ctx a)

theorem accInv_mono {side : Side} {k : OpK} {ctx ctx' : List Held} {a : Access} (hs : ∀ h ∈ ctx, h ∈ ctx')
    (h : accInv side k ctx' a) : accInv side k ctx a := by
  obtain ⟨hk, h⟩ := h
  refine ⟨hk, ?_⟩
  rcases h with h | ⟨ho, hc, hr⟩
  · exact Or.inl h
  · exact Or.inr ⟨ho, fun x hx => hc x (hs x hx), hr⟩

theorem leafAcc_inv (hF : factMultiErrorLocked = true) (typ : String) (ht : typ ∈ verifierTyps) (side : Side) (k : OpK)
    (p : List Nat) (ctx : List Held) : ∀ a ∈ leafAcc typ side k p ctx, accInv side k ctx a := by
  intro a ha
  simp only [leafAcc, List.mem_append, List.mem_flatMap] at ha
  rcases ha with ⟨f, hf, ha⟩ | ha
  · by_cases hc : f.isCall = true
    · simp only [hc, if_true] at ha
      obtain ⟨h1, h2, h3⟩ := meAcc_ok hF k p _ f.name a ha
      exact ⟨h1, Or.inl ⟨⟨p, h2⟩, h3⟩⟩
    · simp only [hc, Bool.false_eq_true, if_false] at ha
      by_cases hm : isMutable typ side f.name = true
      · simp only [hm, if_true, List.mem_singleton] at ha
        subst ha
        refine ⟨rfl, Or.inr ⟨⟨p, rfl⟩, fun h hh => List.mem_append_left _ hh, ht, f, hf, by simpa using hc, hm, rfl, rfl, ?_⟩⟩
        intro hog
        exact selfGuarded_of_ownGuarded k (.node p) typ f ctx hog
      · simp [hm] at ha
  · by_cases hk : k = .verify
    · simp only [hk, if_true] at ha
      obtain ⟨h1, h2, h3⟩ := meAcc_ok hF .verify p [] "Errors" a ha
      exact ⟨hk ▸ h1, Or.inl ⟨⟨p, h2⟩, h3⟩⟩
    · simp [hk] at ha

theorem Kind.typ_mem (kind : Kind) : kind.typ ∈ verifierTyps := by
  cases kind <;> simp [Kind.typ, verifierTyps]

mutual
theorem T.acc_inv (hF : factMultiErrorLocked = true) (side : Side) (k : OpK) :
    ∀ (t : T) (ctx : List Held) (p : List Nat), ∀ a ∈ t.acc side k ctx p, accInv side k ctx a
  | .ver kind _, ctx, p => by
    simpa [T.acc] using leafAcc_inv hF kind.typ kind.typ_mem side k p ctx
  | .ping .., ctx, p => by
    simpa [T.acc] using leafAcc_inv hF "pingback.Verifier" (by simp [verifierTyps]) side k p ctx
  | .nop, _, _ => by simp [T.acc]
  | .fail, _, _ => by simp [T.acc]
  | .group _ ms, ctx, p => by
    intro a ha
    simp only [T.acc] at ha
    exact accInv_mono (fun h hh => List.mem_append_left _ hh) (TL.acc_inv hF side k ms _ p 0 a ha)
  | .filter _ t f, ctx, p => by
    intro a ha
    simp only [T.acc, List.mem_append] at ha
    rcases ha with ha | ha
    · exact accInv_mono (fun h hh => List.mem_append_left _ hh) (T.acc_inv hF side k t _ _ a ha)
    · exact accInv_mono (fun h hh => List.mem_append_left _ hh) (T.acc_inv hF side k f _ _ a ha)
  | .hide t, ctx, p => by
    intro a ha
    simp only [T.acc] at ha
    by_cases hk : k = .modify
    · subst hk
      simp only [if_true] at ha
      exact accInv_mono (fun h hh => List.mem_append_left _ hh) (T.acc_inv hF side .modify t _ _ a ha)
    · simp [hk] at ha
theorem TL.acc_inv (hF : factMultiErrorLocked = true) (side : Side) (k : OpK) :
    ∀ (l : TL) (ctx : List Held) (p : List Nat) (i : Nat), ∀ a ∈ l.acc side k ctx p i, accInv side k ctx a
  | .nil, _, _, _ => by simp [TL.acc]
  | .cons t l, ctx, p, i => by
    intro a ha
    simp only [TL.acc, List.mem_append] at ha
    rcases ha with ha | ha
    · exact T.acc_inv hF side k t ctx _ a ha
    · exact TL.acc_inv hF side k l ctx p (i + 1) a ha
end

theorem sameLoc_eq {a b : Access} (h : sameLoc a b = true) : a.owner = b.owner ∧ a.typ = b.typ ∧ a.field = b.field := by
  simpa [sameLoc, and_assoc] using h

/-- A mutex `(o, mu)` that every operation kind holds (`L k ∈ ctx k`), the reset walk for writing. -/
structure CommonLock (ctx : OpK → List Held) where
  o : Owner
  mu : String
  w : OpK → Bool
  mem : ∀ k, (⟨o, mu, w k⟩ : Held) ∈ ctx k
  excl : w .reset = true

theorem fieldOk_of (hD : factFieldsDisciplined = true) {typ : String} (ht : typ ∈ verifierTyps) (side : Side) (k : OpK)
    (f : Fact) (hf : f ∈ factsOf typ side k) (hc : f.isCall = false) (hm : isMutable typ side f.name = true) :
    fieldOk typ side f.name = true := by
  simp only [factFieldsDisciplined, List.all_eq_true, Bool.and_eq_true] at hD
  have h := hD typ ht
  have hs : typFieldsOk typ side = true := by cases side <;> simp [h.1, h.2]
  simp only [typFieldsOk, List.all_eq_true] at hs
  have hk : k ∈ allOps := by cases k <;> simp [allOps]
  have := hs k hk f hf
  simpa [hc, hm] using this

/-- Two accesses to the same field of the same verifier, one of them a write, exclude each other:
through the verifier's own mutex, or through a mutex every operation holds and resets hold for
writing. -/
theorem pair_excl (hD : factFieldsDisciplined = true) (side : Side) (ctx : OpK → List Held) (L : CommonLock ctx)
    {k1 k2 : OpK} {a b : Access} (ha : accInv side k1 (ctx k1) a) (hb : accInv side k2 (ctx k2) b)
    (hl : sameLoc a b = true) (hw : a.write = true ∨ b.write = true) : excl a b = true := by
  obtain ⟨ho, hty, hfd⟩ := sameLoc_eq hl
  obtain ⟨hka, ha⟩ := ha
  obtain ⟨hkb, hb⟩ := hb
  rcases ha with ⟨⟨q, hq⟩, sa⟩ | ⟨⟨q, hq⟩, ca, ta, fa, hfa, nca, ma, na, wa, ga⟩
  · rcases hb with ⟨_, sb⟩ | ⟨⟨q', hq'⟩, _⟩
    · exact excl_of_selfGuarded sa sb ho hw
    · rw [hq, hq'] at ho; cases ho
  · rcases hb with ⟨⟨q', hq'⟩, _⟩ | ⟨_, cb, tb, fb, hfb, ncb, mb, nb, wb, gb⟩
    · rw [hq, hq'] at ho; cases ho
    · have hok := fieldOk_of hD ta side k1 fa hfa nca ma
      simp only [fieldOk, Bool.or_eq_true, List.all_eq_true] at hok
      have hk1 : k1 ∈ allOps := by cases k1 <;> simp [allOps]
      have hk2 : k2 ∈ allOps := by cases k2 <;> simp [allOps]
      rw [← hty] at hfb
      rcases hok with hg | hr
      · have e2 : fb.name = fa.name := by rw [nb, na, hfd]
        have g1 : fa.ownGuarded = true := by simpa [nca] using hg k1 hk1 fa hfa
        have g2 : fb.ownGuarded = true := by simpa [ncb, e2] using hg k2 hk2 fb hfb
        exact excl_of_selfGuarded (ga g1) (gb g2) ho hw
      · have e2 : fb.name = fa.name := by rw [nb, na, hfd]
        have r1 : fa.write = false ∨ k1 = .reset := by simpa [nca] using hr k1 hk1 fa hfa
        have r2 : fb.write = false ∨ k2 = .reset := by simpa [ncb, e2] using hr k2 hk2 fb hfb
        have m1 := ca _ (L.mem k1)
        have m2 := cb _ (L.mem k2)
        rcases hw with hw | hw
        · have : k1 = .reset := by
            rcases r1 with r1 | r1
            · rw [wa, hw] at r1; cases r1
            · exact r1
          exact excl_of_common a b _ _ m1 m2 rfl rfl (Or.inl (this ▸ L.excl))
        · have : k2 = .reset := by
            rcases r2 with r2 | r2
            · rw [wb, hw] at r2; cases r2
            · exact r2
          exact excl_of_common a b _ _ m1 m2 rfl rfl (Or.inr (this ▸ L.excl))

/-- When no verifier touches a mutable field outside its own mutex, nothing else is needed. -/
theorem pair_excl_own (hN : factNoUnguardedField = true) (side : Side) {k1 k2 : OpK} {c1 c2 : List Held} {a b : Access}
    (ha : accInv side k1 c1 a) (hb : accInv side k2 c2 b)
    (hl : sameLoc a b = true) (hw : a.write = true ∨ b.write = true) : excl a b = true := by
  obtain ⟨ho, _, _⟩ := sameLoc_eq hl
  have own : ∀ {k : OpK} {c : List Held} {x : Access}, accInv side k c x → selfGuarded x := by
    intro k c x hx
    obtain ⟨_, hx⟩ := hx
    rcases hx with ⟨_, sx⟩ | ⟨_, _, tx, fx, hfx, ncx, mx, _, _, gx⟩
    · exact sx
    · apply gx
      simp only [factNoUnguardedField, List.all_eq_true, Bool.and_eq_true] at hN
      have h := hN _ tx
      have hs : typOwnGuarded x.typ side = true := by cases side <;> simp [h.1, h.2]
      simp only [typOwnGuarded, List.all_eq_true] at hs
      have hk : k ∈ allOps := by cases k <;> simp [allOps]
      have := hs k hk fx hfx
      simpa [ncx, mx] using this
  exact excl_of_selfGuarded (own ha) (own hb) ho hw

theorem raceFreeB_of_pairs (w : Wiring) (side : Side) (t : T)
    (h : ∀ k1 k2, ∀ a ∈ t.accesses w side k1, ∀ b ∈ t.accesses w side k2,
      sameLoc a b = true → (a.write = true ∨ b.write = true) → excl a b = true) : raceFreeB w side t = true := by
  simp only [raceFreeB, List.all_eq_true]
  intro k1 _ k2 _ a ha b hb
  simp only [pairOk, Bool.or_eq_true, Bool.not_eq_true', Bool.and_eq_false_iff]
  by_cases hl : sameLoc a b = true
  · by_cases hw : (a.write || b.write) = true
    · exact Or.inr (h k1 k2 a ha b hb hl (by simpa using hw))
    · exact Or.inl (Or.inr (by simpa using hw))
  · exact Or.inl (Or.inl (by simpa using hl))

/-- The common lock `martianhttp.Modifier` provides. -/
theorem rootLock (hR : factRootExclusiveReset = true) (side : Side) :
    Nonempty (CommonLock (rootCtx .martianhttp side)) := by
  have h : exclusiveReset "martianhttp.Modifier" side = true := by
    simp only [factRootExclusiveReset, Bool.and_eq_true] at hR
    cases side <;> simp [hR.1, hR.2]
  simp only [exclusiveReset, List.any_eq_true, Bool.and_eq_true, beq_iff_eq] at h
  obtain ⟨hr, hrm, ⟨hrw, ⟨hm, hmm, hme⟩⟩, ⟨hv, hvm, hve⟩⟩ := h
  refine ⟨⟨.root, hr.1, fun k => match k with | .modify => hm.2 | .verify => hv.2 | .reset => hr.2, ?_, hrw⟩⟩
  intro k
  cases k
  · have := mem_mkHeld .root _ hm hmm; rw [hme] at this; exact this
  · have := mem_mkHeld .root _ hv hvm; rw [hve] at this; exact this
  · exact mem_mkHeld .root _ hr hrm

/-! ### verifiers below a `fifo.Group`, nothing above (parse result wired directly) -/

def Owner.under (p : List Nat) : Owner → Prop
  | .root => False
  | .node q => p <+: q
  | .cell q => p <+: q

theorem Owner.under_mono {p p' : List Nat} (h : p <+: p') : ∀ {o : Owner}, o.under p' → o.under p
  | .root, hu => hu
  | .node _, hu => List.IsPrefix.trans h hu
  | .cell _, hu => List.IsPrefix.trans h hu

theorem meAcc_owner (k : OpK) (p : List Nat) (ctx : List Held) (method : String) :
    ∀ a ∈ meAcc k p ctx method, a.owner = .cell p := by
  intro a ha
  simp only [meAcc, List.mem_filterMap] at ha
  obtain ⟨g, _, hga⟩ := ha
  by_cases hc : g.isCall = true
  · simp [hc] at hga
  · simp only [hc, Bool.false_eq_true, if_false, Option.some.injEq] at hga
    subst hga; rfl

theorem leafAcc_owner (typ : String) (side : Side) (k : OpK) (p : List Nat) (ctx : List Held) :
    ∀ a ∈ leafAcc typ side k p ctx, a.owner.under p := by
  intro a ha
  simp only [leafAcc, List.mem_append, List.mem_flatMap] at ha
  rcases ha with ⟨f, _, ha⟩ | ha
  · by_cases hc : f.isCall = true
    · simp only [hc, if_true] at ha
      rw [meAcc_owner _ _ _ _ a ha]; exact List.prefix_refl p
    · simp only [hc, Bool.false_eq_true, if_false] at ha
      by_cases hm : isMutable typ side f.name = true
      · simp only [hm, if_true, List.mem_singleton] at ha
        subst ha; exact List.prefix_refl p
      · simp [hm] at ha
  · by_cases hk : k = .verify
    · simp only [hk, if_true] at ha
      rw [meAcc_owner _ _ _ _ a ha]; exact List.prefix_refl p
    · simp [hk] at ha

mutual
theorem T.acc_owner (side : Side) (k : OpK) : ∀ (t : T) (ctx : List Held) (p : List Nat),
    ∀ a ∈ t.acc side k ctx p, a.owner.under p
  | .ver kind _, ctx, p => by simpa [T.acc] using leafAcc_owner kind.typ side k p ctx
  | .ping .., ctx, p => by simpa [T.acc] using leafAcc_owner "pingback.Verifier" side k p ctx
  | .nop, _, _ => by simp [T.acc]
  | .fail, _, _ => by simp [T.acc]
  | .group _ ms, ctx, p => by
    intro a ha
    simp only [T.acc] at ha
    exact TL.acc_owner side k ms _ p 0 a ha
  | .filter _ t f, ctx, p => by
    intro a ha
    simp only [T.acc, List.mem_append] at ha
    rcases ha with ha | ha
    · exact Owner.under_mono (List.prefix_append p [0]) (T.acc_owner side k t _ _ a ha)
    · exact Owner.under_mono (List.prefix_append p [1]) (T.acc_owner side k f _ _ a ha)
  | .hide t, ctx, p => by
    intro a ha
    simp only [T.acc] at ha
    by_cases hk : k = .modify
    · subst hk
      simp only [if_true] at ha
      exact Owner.under_mono (List.prefix_append p [0]) (T.acc_owner side .modify t _ _ a ha)
    · simp [hk] at ha
theorem TL.acc_owner (side : Side) (k : OpK) : ∀ (l : TL) (ctx : List Held) (p : List Nat) (i : Nat),
    ∀ a ∈ l.acc side k ctx p i, a.owner.under p
  | .nil, _, _, _ => by simp [TL.acc]
  | .cons t l, ctx, p, i => by
    intro a ha
    simp only [TL.acc, List.mem_append] at ha
    rcases ha with ha | ha
    · exact Owner.under_mono (List.prefix_append p [i]) (T.acc_owner side k t ctx _ a ha)
    · exact TL.acc_owner side k l ctx p (i + 1) a ha
end

theorem branches_disjoint (p : List Nat) (o : Owner) (h0 : o.under (p ++ [0])) (h1 : o.under (p ++ [1])) : False := by
  have key : ∀ q : List Nat, (p ++ [0]) <+: q → (p ++ [1]) <+: q → False := by
    intro q ⟨r0, e0⟩ ⟨r1, e1⟩
    have : p ++ (0 :: r0) = p ++ (1 :: r1) := by
      rw [← List.singleton_append (l := r0), ← List.singleton_append (l := r1), ← List.append_assoc, ← List.append_assoc, e0, e1]
    have := List.append_cancel_left this
    simp at this
  cases o with
  | root => exact h0
  | node q => exact key q h0 h1
  | cell q => exact key q h0 h1

/-- Two accesses neither of which belongs to a reset walk: the verifier's own mutex orders them. -/
theorem pair_excl_noreset (hD : factFieldsDisciplined = true) (side : Side) {k1 k2 : OpK} {c1 c2 : List Held} {a b : Access}
    (h1 : k1 ≠ .reset) (h2 : k2 ≠ .reset) (ha : accInv side k1 c1 a) (hb : accInv side k2 c2 b)
    (hl : sameLoc a b = true) (hw : a.write = true ∨ b.write = true) : excl a b = true := by
  obtain ⟨ho, hty, hfd⟩ := sameLoc_eq hl
  obtain ⟨_, ha⟩ := ha
  obtain ⟨_, hb⟩ := hb
  rcases ha with ⟨⟨q, hq⟩, sa⟩ | ⟨⟨q, hq⟩, ca, ta, fa, hfa, nca, ma, na, wa, ga⟩
  · rcases hb with ⟨_, sb⟩ | ⟨⟨q', hq'⟩, _⟩
    · exact excl_of_selfGuarded sa sb ho hw
    · rw [hq, hq'] at ho; cases ho
  · rcases hb with ⟨⟨q', hq'⟩, _⟩ | ⟨_, cb, tb, fb, hfb, ncb, mb, nb, wb, gb⟩
    · rw [hq, hq'] at ho; cases ho
    · have hok := fieldOk_of hD ta side k1 fa hfa nca ma
      simp only [fieldOk, Bool.or_eq_true, List.all_eq_true] at hok
      have hk1 : k1 ∈ allOps := by cases k1 <;> simp [allOps]
      have hk2 : k2 ∈ allOps := by cases k2 <;> simp [allOps]
      rw [← hty] at hfb
      have e2 : fb.name = fa.name := by rw [nb, na, hfd]
      rcases hok with hg | hr
      · have g1 : fa.ownGuarded = true := by simpa [nca] using hg k1 hk1 fa hfa
        have g2 : fb.ownGuarded = true := by simpa [ncb, e2] using hg k2 hk2 fb hfb
        exact excl_of_selfGuarded (ga g1) (gb g2) ho hw
      · have r1 : fa.write = false ∨ k1 = .reset := by simpa [nca] using hr k1 hk1 fa hfa
        have r2 : fb.write = false ∨ k2 = .reset := by simpa [ncb, e2] using hr k2 hk2 fb hfb
        rcases hw with hw | hw
        · rcases r1 with r1 | r1
          · rw [wa, hw] at r1; cases r1
          · exact (h1 r1).elim
        · rcases r2 with r2 | r2
          · rw [wb, hw] at r2; cases r2
          · exact (h2 r2).elim

/-- The common lock a `fifo.Group` at path `p` provides to everything below it. -/
theorem groupLock (hG : factGroupExclusiveReset = true) (side : Side) (ctx : OpK → List Held) (p : List Nat) :
    Nonempty (CommonLock fun k => ctx k ++ mkHeld (.node p) (heldAtChildCall "fifo.Group" side k)) := by
  have h : exclusiveReset "fifo.Group" side = true := by
    simp only [factGroupExclusiveReset, Bool.and_eq_true] at hG
    cases side <;> simp [hG.1, hG.2]
  simp only [exclusiveReset, List.any_eq_true, Bool.and_eq_true, beq_iff_eq] at h
  obtain ⟨hr, hrm, ⟨hrw, ⟨hm, hmm, hme⟩⟩, ⟨hv, hvm, hve⟩⟩ := h
  refine ⟨⟨.node p, hr.1, fun k => match k with | .modify => hm.2 | .verify => hv.2 | .reset => hr.2, ?_, hrw⟩⟩
  intro k
  cases k
  · have := mem_mkHeld (.node p) _ hm hmm; rw [hme] at this; exact List.mem_append_right _ this
  · have := mem_mkHeld (.node p) _ hv hvm; rw [hve] at this; exact List.mem_append_right _ this
  · exact List.mem_append_right _ (mem_mkHeld (.node p) _ hr hrm)

def pairsOk (side : Side) (t : T) (ctx : OpK → List Held) (p : List Nat) : Prop :=
  ∀ k1 k2, ∀ a ∈ t.acc side k1 (ctx k1) p, ∀ b ∈ t.acc side k2 (ctx k2) p,
    sameLoc a b = true → (a.write = true ∨ b.write = true) → excl a b = true

theorem pingback_own_guarded : typOwnGuarded "pingback.Verifier" .req = true ∧ typOwnGuarded "pingback.Verifier" .res = true := by
  decide

theorem T.covered_pairsOk (hF : factMultiErrorLocked = true) (hD : factFieldsDisciplined = true)
    (hG : factGroupExclusiveReset = true) (side : Side) :
    ∀ (t : T) (ctx : OpK → List Held) (p : List Nat), t.covered = true → pairsOk side t ctx p
  | .ver .., _, _, hc => by simp [T.covered] at hc
  | .ping s h pp q pend, ctx, p, _ => by
    intro k1 k2 a ha b hb hl hw
    have ia := T.acc_inv hF side k1 (.ping s h pp q pend) (ctx k1) p a ha
    have ib := T.acc_inv hF side k2 (.ping s h pp q pend) (ctx k2) p b hb
    obtain ⟨ho, _, _⟩ := sameLoc_eq hl
    have own : ∀ {k : OpK} {x : Access}, x ∈ (T.ping s h pp q pend).acc side k (ctx k) p → accInv side k (ctx k) x → selfGuarded x := by
      intro k x hx hi
      obtain ⟨_, hi⟩ := hi
      rcases hi with ⟨_, sx⟩ | ⟨hq, _, _, fx, hfx, ncx, mx, _, _, gx⟩
      · exact sx
      · apply gx
        have hty : x.typ = "pingback.Verifier" := by
          simp only [T.acc, leafAcc, List.mem_append, List.mem_flatMap] at hx
          rcases hx with ⟨f, _, hx⟩ | hx
          · by_cases hc : f.isCall = true
            · simp only [hc, if_true] at hx
              have := meAcc_owner _ _ _ _ x hx
              obtain ⟨q', hq'⟩ := hq
              rw [this] at hq'; cases hq'
            · simp only [hc, Bool.false_eq_true, if_false] at hx
              by_cases hm : isMutable "pingback.Verifier" side f.name = true
              · simp only [hm, if_true, List.mem_singleton] at hx
                subst hx; rfl
              · simp [hm] at hx
          · by_cases hk : k = .verify
            · simp only [hk, if_true] at hx
              have := meAcc_owner _ _ _ _ x hx
              obtain ⟨q', hq'⟩ := hq
              rw [this] at hq'; cases hq'
            · simp [hk] at hx
        rw [hty] at hfx mx
        have hs : typOwnGuarded "pingback.Verifier" side = true := by
          cases side <;> simp [pingback_own_guarded.1, pingback_own_guarded.2]
        simp only [typOwnGuarded, List.all_eq_true] at hs
        have hk : k ∈ allOps := by cases k <;> simp [allOps]
        have := hs k hk fx hfx
        simpa [ncx, mx] using this
    exact excl_of_selfGuarded (own ha ia) (own hb ib) ho hw
  | .nop, _, _, _ => by intro k1 k2 a ha; simp [T.acc] at ha
  | .fail, _, _, _ => by intro k1 k2 a ha; simp [T.acc] at ha
  | .group _ ms, ctx, p, _ => by
    intro k1 k2 a ha b hb hl hw
    obtain ⟨L⟩ := groupLock hG side ctx p
    simp only [T.acc] at ha hb
    exact pair_excl hD side _ L (TL.acc_inv hF side k1 ms _ p 0 a ha) (TL.acc_inv hF side k2 ms _ p 0 b hb) hl hw
  | .hide t, ctx, p, _ => by
    intro k1 k2 a ha b hb hl hw
    simp only [T.acc] at ha hb
    by_cases e1 : k1 = .modify
    · by_cases e2 : k2 = .modify
      · subst e1; subst e2
        simp only [if_true] at ha hb
        exact pair_excl_noreset hD side (by decide) (by decide) (T.acc_inv hF side .modify t _ _ a ha)
          (T.acc_inv hF side .modify t _ _ b hb) hl hw
      · simp [e2] at hb
    · simp [e1] at ha
  | .filter _ t f, ctx, p, hc => by
    simp only [T.covered, Bool.and_eq_true] at hc
    intro k1 k2 a ha b hb hl hw
    simp only [T.acc, List.mem_append] at ha hb
    let ctx' : OpK → List Held := fun k => ctx k ++ mkHeld (.node p) (heldAtChildCall "filter.Filter" side k)
    have iht := T.covered_pairsOk hF hD hG side t ctx' (p ++ [0]) hc.1
    have ihf := T.covered_pairsOk hF hD hG side f ctx' (p ++ [1]) hc.2
    obtain ⟨ho, _, _⟩ := sameLoc_eq hl
    rcases ha with ha | ha <;> rcases hb with hb | hb
    · exact iht k1 k2 a ha b hb hl hw
    · exact (branches_disjoint p a.owner (T.acc_owner side k1 t _ _ a ha) (ho ▸ T.acc_owner side k2 f _ _ b hb)).elim
    · exact (branches_disjoint p a.owner (ho ▸ T.acc_owner side k2 t _ _ b hb) (T.acc_owner side k1 f _ _ a ha)).elim
    · exact ihf k1 k2 a ha b hb hl hw

/-! ### sync.RWMutex -/

theorem LockTable.wf_nil : LockTable.wf [] := by intro e1 h; cases h

theorem LockTable.wf_step {lt lt' : LockTable} (h : lt.wf) (ev : LockEv) (hs : lt.step ev = some lt') : lt'.wf := by
  cases ev with
  | acquire tid o mu w =>
    simp only [LockTable.step] at hs
    by_cases hc : lt.canAcquire tid o mu w = true
    · simp only [hc, if_true, Option.some.injEq] at hs
      subst hs
      simp only [LockTable.canAcquire, List.all_eq_true] at hc
      have clash : ∀ e ∈ lt, e.2.owner = o → e.2.mu = mu → (w = true ∨ e.2.w = true) → False := by
        intro e he ho hm hw
        have := hc e he
        simp only [ho, hm, beq_self_eq_true, Bool.and_self, Bool.not_true, Bool.false_or, Bool.and_eq_true,
          Bool.not_eq_true'] at this
        rcases hw with hw | hw
        · rw [hw] at this; exact absurd this.1.2 (by simp)
        · rw [hw] at this; exact absurd this.2 (by simp)
      intro e1 h1 e2 h2 ho hm hw
      rcases List.mem_cons.mp h1 with r1 | r1 <;> rcases List.mem_cons.mp h2 with r2 | r2
      · rw [r1, r2]
      · subst r1; exact (clash e2 r2 ho.symm hm.symm hw).elim
      · subst r2; exact (clash e1 r1 ho hm hw.symm).elim
      · exact h e1 r1 e2 r2 ho hm hw
    · simp [hc] at hs
  | release tid o mu w =>
    simp only [LockTable.step, Option.some.injEq] at hs
    subst hs
    intro e1 h1 e2 h2
    exact h e1 (List.mem_of_mem_erase h1) e2 (List.mem_of_mem_erase h2)

theorem LockTable.wf_run : ∀ (evs : List LockEv) {lt lt' : LockTable}, lt.wf → lt.run evs = some lt' → lt'.wf
  | [], _, _, h, hr => by simp only [LockTable.run, Option.some.injEq] at hr; exact hr ▸ h
  | ev :: evs, lt, lt', h, hr => by
    simp only [LockTable.run] at hr
    cases hs : lt.step ev with
    | none => simp [hs] at hr
    | some lt1 =>
      simp only [hs] at hr
      exact LockTable.wf_run evs (LockTable.wf_step h ev hs) hr

end Martian.Verify
