import Martian.Model.VerifyConc
import Martian.Lemmas.Verify
/-! Helper lemmas for the concurrency model of C13 (core Lean only). -/
namespace Martian.Verify
open Martian

/-! ### cells, steps, runs -/

theorem modAt_pre (f : Cell → Cell) (pre : Cells) (c : Cell) (post : Cells) :
    modAt f pre.length (pre ++ c :: post) = pre ++ f c :: post := by
  induction pre with
  | nil => rfl
  | cons a pre ih => simp [modAt, ih]

theorem modAt_length (f : Cell → Cell) : ∀ (n : Nat) (l : Cells), (modAt f n l).length = l.length
  | n, [] => by cases n <;> simp [modAt]
  | 0, _ :: _ => by simp [modAt]
  | n + 1, _ :: cs => by simp [modAt, modAt_length f n cs]

theorem getElem?_modAt (f : Cell → Cell) : ∀ (n : Nat) (l : Cells) (i : Nat),
    (modAt f n l)[i]? = if i = n then l[i]?.map f else l[i]?
  | n, [], i => by cases n <;> simp [modAt]
  | 0, c :: cs, i => by cases i <;> simp [modAt]
  | n + 1, c :: cs, i => by
    cases i with
    | zero => simp [modAt]
    | succ i => simp [modAt, getElem?_modAt f n cs i]

theorem Cells.run_nil (c : Cells) : c.run [] = c := rfl
theorem Cells.run_cons (c : Cells) (s : Step) (σ : List Step) : c.run (s :: σ) = (c.step s).run σ := rfl
theorem Cells.run_append (c : Cells) (σ1 σ2 : List Step) : c.run (σ1 ++ σ2) = (c.run σ1).run σ2 := by
  simp [Cells.run, List.foldl_append]

theorem Cells.step_length (c : Cells) (s : Step) : (c.step s).length = c.length := modAt_length _ _ _
theorem Cells.run_length (c : Cells) (σ : List Step) : (c.run σ).length = c.length := by
  induction σ generalizing c with
  | nil => rfl
  | cons s σ ih => rw [Cells.run_cons, ih, Cells.step_length]

theorem Cells.report_append (a b : Cells) : Cells.report (a ++ b) = Cells.report a ++ Cells.report b := by
  simp [Cells.report, List.flatMap_append]

/-! ### T1: an atomic verify walk reports the cells, in order -/

mutual
theorem T.verify_cells (side : Side) : ∀ t : T,
    errsOf (t.verify side) = (Cells.report (t.cells side)).map .one
  | .ver k errs => by
    cases errs <;> simp [T.verify, T.cells, Cells.report, Cell.report, errsOf]
  | .ping s h p q pend => by
    cases pend <;> simp [T.verify, T.cells, Cells.report, Cell.report, errsOf]
  | .nop => by simp [T.verify, T.cells, Cells.report, errsOf]
  | .fail => by simp [T.verify, T.cells, Cells.report, errsOf]
  | .group agg l => by
    simp only [T.verify, T.cells, errsOf_wrap]
    exact TL.verify_cells side l
  | .filter c t f => by
    have ht := T.verify_cells side t
    have hf := T.verify_cells side f
    simp only [T.verify, T.cells, errsOf_wrap, elseFirst]
    rcases visits_perm side with hv | hv <;>
      simp [hv, addOpt_eq, ht, hf, Cells.report_append]
theorem TL.verify_cells (side : Side) : ∀ l : TL,
    l.verify side = (Cells.report (l.cells side)).map .one
  | .nil => by simp [TL.verify, TL.cells, Cells.report]
  | .cons t l => by
    simp only [TL.verify, TL.cells, addOpt_eq, List.nil_append, Cells.report_append, List.map_append]
    rw [T.verify_cells side t, TL.verify_cells side l]
end

/-- What the verification handler prints for one side is the report of the cells. -/
theorem T.query_cells (side : Side) (t : T) : handlerErrors (t.verify side) = Cells.report (t.cells side) := by
  rw [handlerErrors_eq, T.verify_cells, render_one]

/-! ### T2: the step programs refine the sequential walks -/

mutual
theorem T.size_modify (side : Side) (m : Msg) : ∀ t : T, (t.modify side m).1.size side = t.size side
  | .ver k errs => by
    simp only [T.modify, T.size]
    split
    · rfl
    · split <;> simp [T.cells]
  | .ping s h p q pend => by
    simp only [T.modify, T.size]
    split
    · rfl
    · split <;> simp [T.cells]
  | .nop => by simp [T.modify]
  | .fail => by simp [T.modify]
  | .group agg l => by
    simpa [T.modify, T.size, T.cells, TL.size] using TL.size_modify side m agg l
  | .filter c t f => by
    have ht := T.size_modify side m t
    have hf := T.size_modify side m f
    simp only [T.size] at ht hf ⊢
    simp only [T.modify]
    split <;> (simp only [T.cells]; split <;> simp [List.length_append, ht, hf])
theorem TL.size_modify (side : Side) (m : Msg) (agg : Bool) : ∀ l : TL, (l.modify side m agg).1.size side = l.size side
  | .nil => by simp [TL.modify]
  | .cons t l => by
    have ht := T.size_modify side m t
    have hl := TL.size_modify side m agg l
    simp only [T.size, TL.size] at ht hl ⊢
    simp only [TL.modify]
    split <;> simp [TL.cells, List.length_append, ht, hl]
end

theorem run_at (pre post : Cells) (c : Cell) (s : Step) (h : s.cell = pre.length) :
    Cells.run (pre ++ [c] ++ post) [s] = pre ++ [s.fn c] ++ post := by
  simp [Cells.run, Cells.step, h, modAt_pre]

mutual
theorem T.run_mprog (side : Side) (m : Msg) : ∀ (t : T) (pre post : Cells),
    Cells.run (pre ++ t.cells side ++ post) (t.mprog side m pre.length) =
      pre ++ (t.modify side m).1.cells side ++ post
  | .ver k errs, pre, post => by
    simp only [T.mprog, T.modify]
    split
    · rfl
    · cases hc : check side k m with
      | none => simp [T.cells, Cells.run]
      | some e => simpa [T.cells, Step.fn, Cell.add] using run_at pre post (.errs errs) (.add pre.length e) rfl
  | .ping s h p q pend, pre, post => by
    simp only [T.mprog, T.modify]
    split
    · rfl
    · split
      · simpa [T.cells, Step.fn, Cell.pong] using run_at pre post (.ping (pingErr s h p q) pend) (.pong pre.length) rfl
      · simp [T.cells, Cells.run]
  | .nop, pre, post => by simp [T.mprog, T.modify, Cells.run]
  | .fail, pre, post => by simp [T.mprog, T.modify, Cells.run]
  | .group agg l, pre, post => by
    simpa [T.mprog, T.modify, T.cells] using TL.run_mprog side m agg l pre post
  | .filter c t f, pre, post => by
    simp only [T.mprog, T.modify]
    cases hc : c.holds side m
    · simp only [Bool.false_eq_true, if_false, T.cells]
      cases he : elseFirst side
      · have h := T.run_mprog side m f (pre ++ t.cells side) post
        simpa [List.length_append, T.size, List.append_assoc] using h
      · have h := T.run_mprog side m f pre (t.cells side ++ post)
        simpa [List.append_assoc] using h
    · simp only [if_true, T.cells]
      cases he : elseFirst side
      · have h := T.run_mprog side m t pre (f.cells side ++ post)
        simpa [List.append_assoc] using h
      · have h := T.run_mprog side m t (pre ++ f.cells side) post
        simpa [List.length_append, T.size, List.append_assoc] using h
theorem TL.run_mprog (side : Side) (m : Msg) (agg : Bool) : ∀ (l : TL) (pre post : Cells),
    Cells.run (pre ++ l.cells side ++ post) (l.mprog side m agg pre.length) =
      pre ++ (l.modify side m agg).1.cells side ++ post
  | .nil, pre, post => by simp [TL.mprog, TL.modify, Cells.run]
  | .cons t l, pre, post => by
    have ht := T.run_mprog side m t pre (l.cells side ++ post)
    simp only [TL.mprog, TL.modify, T.modify_snd, TL.cells, Cells.run_append]
    simp only [List.append_assoc] at ht ⊢
    rw [ht]
    cases he : (t.errors side m && !agg)
    · have hl := TL.run_mprog side m agg l (pre ++ (t.modify side m).1.cells side) post
      have hs := T.size_modify side m t
      simp only [T.size] at hs
      simp only [List.length_append, hs, List.append_assoc] at hl
      simpa [T.size, TL.cells, List.append_assoc] using hl
    · simp [TL.cells, Cells.run]
end

theorem reset_visits_cases (side : Side) : resetVisits side = [true, false] ∨ resetVisits side = [false, true] := by
  cases side <;> decide

mutual
theorem T.size_clear (side : Side) : ∀ t : T, t.clear.size side = t.size side
  | .ver k errs => by simp [T.clear, T.size, T.cells]
  | .ping s h p q pend => by simp [T.clear, T.size, T.cells]
  | .nop => by simp [T.clear]
  | .fail => by simp [T.clear]
  | .group agg l => by simpa [T.clear, T.size, T.cells, TL.size] using TL.size_clear side l
  | .filter c t f => by
    have ht := T.size_clear side t
    have hf := T.size_clear side f
    simp only [T.size] at ht hf ⊢
    simp only [T.clear, T.cells]
    split <;> simp [List.length_append, ht, hf]
theorem TL.size_clear (side : Side) : ∀ l : TL, l.clear.size side = l.size side
  | .nil => by simp [TL.clear]
  | .cons t l => by
    have ht := T.size_clear side t
    have hl := TL.size_clear side l
    simp only [T.size, TL.size] at ht hl ⊢
    simp [TL.clear, TL.cells, List.length_append, ht, hl]
end

mutual
theorem T.run_rprog (side : Side) : ∀ (t : T) (pre post : Cells),
    Cells.run (pre ++ t.cells side ++ post) (t.rprog side pre.length) = pre ++ t.clear.cells side ++ post
  | .ver k errs, pre, post => by
    simpa [T.cells, T.clear, T.rprog, Step.fn, Cell.clear] using run_at pre post (.errs errs) (.clr pre.length) rfl
  | .ping s h p q pend, pre, post => by
    simpa [T.cells, T.clear, T.rprog, Step.fn, Cell.clear] using
      run_at pre post (.ping (pingErr s h p q) pend) (.clr pre.length) rfl
  | .nop, pre, post => by simp [T.rprog, T.clear, Cells.run]
  | .fail, pre, post => by simp [T.rprog, T.clear, Cells.run]
  | .group agg l, pre, post => by
    simpa [T.rprog, T.clear, T.cells] using TL.run_rprog side l pre post
  | .filter c t f, pre, post => by
    have st := T.size_clear side t
    have sf := T.size_clear side f
    simp only [T.size] at st sf
    simp only [T.rprog, T.clear, T.cells]
    cases he : elseFirst side
    · have h1 := T.run_rprog side t pre (f.cells side ++ post)
      have h2 := T.run_rprog side f (pre ++ t.clear.cells side) post
      have h1' := T.run_rprog side t pre (f.clear.cells side ++ post)
      have h2' := T.run_rprog side f (pre ++ t.cells side) post
      simp only [List.length_append, st, List.append_assoc] at h1 h2 h1' h2'
      rcases reset_visits_cases side with hv | hv <;>
        simp [hv, T.size, Cells.run_append, List.append_assoc, h1, h2, h1', h2']
    · have h1 := T.run_rprog side t (pre ++ f.cells side) post
      have h2 := T.run_rprog side f pre (t.clear.cells side ++ post)
      have h1' := T.run_rprog side t (pre ++ f.clear.cells side) post
      have h2' := T.run_rprog side f pre (t.cells side ++ post)
      simp only [List.length_append, sf, List.append_assoc] at h1 h2 h1' h2'
      rcases reset_visits_cases side with hv | hv <;>
        simp [hv, T.size, Cells.run_append, List.append_assoc, h1, h2, h1', h2']
theorem TL.run_rprog (side : Side) : ∀ (l : TL) (pre post : Cells),
    Cells.run (pre ++ l.cells side ++ post) (l.rprog side pre.length) = pre ++ l.clear.cells side ++ post
  | .nil, pre, post => by simp [TL.rprog, TL.clear, Cells.run]
  | .cons t l, pre, post => by
    have ht := T.run_rprog side t pre (l.cells side ++ post)
    have hl := TL.run_rprog side l (pre ++ t.clear.cells side) post
    have hs := T.size_clear side t
    simp only [T.size] at hs
    simp only [List.length_append, hs, List.append_assoc] at ht hl
    simp [TL.rprog, TL.clear, TL.cells, Cells.run_append, List.append_assoc, ht, T.size, hl]
end

/-! ### the programs depend on the shape of the tree only, not on the verifiers' state -/

mutual
theorem T.mprog_clear (side : Side) (m : Msg) : ∀ (t : T) (off : Nat), t.clear.mprog side m off = t.mprog side m off
  | .ver k errs, off => by simp [T.clear, T.mprog]
  | .ping s h p q pend, off => by simp [T.clear, T.mprog]
  | .nop, off => by simp [T.clear]
  | .fail, off => by simp [T.clear]
  | .group agg l, off => by simpa [T.clear, T.mprog] using TL.mprog_clear side m agg l off
  | .filter c t f, off => by
    simp only [T.clear, T.mprog, T.size_clear, T.mprog_clear side m t, T.mprog_clear side m f]
theorem TL.mprog_clear (side : Side) (m : Msg) (agg : Bool) : ∀ (l : TL) (off : Nat),
    l.clear.mprog side m agg off = l.mprog side m agg off
  | .nil, off => by simp [TL.clear]
  | .cons t l, off => by
    simp only [TL.clear, TL.mprog, T.size_clear, T.errors_clear, T.mprog_clear side m t, TL.mprog_clear side m agg l]
end

mutual
theorem T.rprog_clear (side : Side) : ∀ (t : T) (off : Nat), t.clear.rprog side off = t.rprog side off
  | .ver k errs, off => by simp [T.clear, T.rprog]
  | .ping s h p q pend, off => by simp [T.clear, T.rprog]
  | .nop, off => by simp [T.clear]
  | .fail, off => by simp [T.clear]
  | .group agg l, off => by simpa [T.clear, T.rprog] using TL.rprog_clear side l off
  | .filter c t f, off => by
    simp only [T.clear, T.rprog, T.size_clear, T.rprog_clear side t, T.rprog_clear side f]
theorem TL.rprog_clear (side : Side) : ∀ (l : TL) (off : Nat), l.clear.rprog side off = l.rprog side off
  | .nil, off => by simp [TL.clear]
  | .cons t l, off => by
    simp only [TL.clear, TL.rprog, T.size_clear, T.rprog_clear side t, TL.rprog_clear side l]
end

/-! ### T4: one cell under an arbitrary sequence of steps -/

theorem getElem?_step (c : Cells) (s : Step) (i : Nat) :
    (c.step s)[i]? = if i = s.cell then c[i]?.map s.fn else c[i]? := getElem?_modAt _ _ _ _

/-- The error list of cell `i` after the steps `σ`, starting from `l`. -/
def errsAfter (i : Nat) (l : List Bytes) (σ : List Step) : List Bytes :=
  σ.foldl (fun acc s => match s with
    | .add j e => if j = i then acc ++ [e] else acc
    | .clr j => if j = i then [] else acc
    | .pong _ => acc) l

/-- The pending flag of pingback cell `i` after the steps `σ`. -/
def pendingAfter (i : Nat) (p : Bool) (σ : List Step) : Bool :=
  σ.foldl (fun acc s => match s with
    | .pong j => if j = i then false else acc
    | .clr j => if j = i then true else acc
    | .add _ _ => acc) p

theorem run_errs_cell (i : Nat) : ∀ (σ : List Step) (c : Cells) (l : List Bytes), c[i]? = some (.errs l) →
    (c.run σ)[i]? = some (.errs (errsAfter i l σ))
  | [], c, l, h => by simpa [Cells.run, errsAfter] using h
  | s :: σ, c, l, h => by
    rw [Cells.run_cons]
    have hs : (c.step s)[i]? = some (.errs (errsAfter i l [s])) := by
      rw [getElem?_step, h]
      cases s with
      | add j e =>
        by_cases hj : i = j
        · subst hj; simp [Step.cell, Step.fn, Cell.add, errsAfter]
        · have hj' : ¬ j = i := fun h => hj h.symm
          simp [Step.cell, Step.fn, Cell.add, errsAfter, hj, hj']
      | pong j =>
        by_cases hj : i = j
        · subst hj; simp [Step.cell, Step.fn, Cell.pong, errsAfter]
        · have hj' : ¬ j = i := fun h => hj h.symm
          simp [Step.cell, Step.fn, Cell.pong, errsAfter, hj, hj']
      | clr j =>
        by_cases hj : i = j
        · subst hj; simp [Step.cell, Step.fn, Cell.clear, errsAfter]
        · have hj' : ¬ j = i := fun h => hj h.symm
          simp [Step.cell, Step.fn, Cell.clear, errsAfter, hj, hj']
    have := run_errs_cell i σ (c.step s) _ hs
    simpa [errsAfter] using this

theorem run_ping_cell (i : Nat) : ∀ (σ : List Step) (c : Cells) (msg : Bytes) (p : Bool), c[i]? = some (.ping msg p) →
    (c.run σ)[i]? = some (.ping msg (pendingAfter i p σ))
  | [], c, msg, p, h => by simpa [Cells.run, pendingAfter] using h
  | s :: σ, c, msg, p, h => by
    rw [Cells.run_cons]
    have hs : (c.step s)[i]? = some (.ping msg (pendingAfter i p [s])) := by
      rw [getElem?_step, h]
      cases s with
      | add j e =>
        by_cases hj : i = j
        · subst hj; simp [Step.cell, Step.fn, Cell.add, pendingAfter]
        · have hj' : ¬ j = i := fun h => hj h.symm
          simp [Step.cell, Step.fn, Cell.add, pendingAfter, hj, hj']
      | pong j =>
        by_cases hj : i = j
        · subst hj; simp [Step.cell, Step.fn, Cell.pong, pendingAfter]
        · have hj' : ¬ j = i := fun h => hj h.symm
          simp [Step.cell, Step.fn, Cell.pong, pendingAfter, hj, hj']
      | clr j =>
        by_cases hj : i = j
        · subst hj; simp [Step.cell, Step.fn, Cell.clear, pendingAfter]
        · have hj' : ¬ j = i := fun h => hj h.symm
          simp [Step.cell, Step.fn, Cell.clear, pendingAfter, hj, hj']
    have := run_ping_cell i σ (c.step s) msg _ hs
    simpa [pendingAfter] using this

theorem errsAfter_append (i : Nat) (l : List Bytes) (σ1 σ2 : List Step) :
    errsAfter i l (σ1 ++ σ2) = errsAfter i (errsAfter i l σ1) σ2 := by
  simp [errsAfter, List.foldl_append]

/-- Between resets a verifier's list only grows, by appending. -/
theorem errsAfter_noClr (i : Nat) : ∀ (σ : List Step) (l : List Bytes), noClr i σ = true →
    errsAfter i l σ = l ++ adds i σ
  | [], l, _ => by simp [errsAfter, adds]
  | s :: σ, l, h => by
    simp only [noClr, List.all_cons, Bool.and_eq_true] at h
    have ih := fun l' => errsAfter_noClr i σ l' (by simpa [noClr] using h.2)
    have hs : errsAfter i l (s :: σ) = errsAfter i (errsAfter i l [s]) σ := errsAfter_append i l [s] σ
    rw [hs, ih]
    cases s with
    | add j e => by_cases hj : j = i <;> simp [errsAfter, adds, hj]
    | pong j => simp [errsAfter, adds]
    | clr j =>
      have : j ≠ i := by intro hj; subst hj; simp at h
      simp [errsAfter, adds, this]

theorem errsAfter_clr (i : Nat) (l : List Bytes) (σ1 σ2 : List Step) (h : noClr i σ2 = true) :
    errsAfter i l (σ1 ++ .clr i :: σ2) = adds i σ2 := by
  rw [errsAfter_append, show Step.clr i :: σ2 = [Step.clr i] ++ σ2 from rfl, errsAfter_append, errsAfter_noClr i σ2 _ h]
  simp [errsAfter]

theorem adds_append (i : Nat) (σ1 σ2 : List Step) : adds i (σ1 ++ σ2) = adds i σ1 ++ adds i σ2 := by
  simp [adds, List.filterMap_append]

theorem noClr_append (i : Nat) (σ1 σ2 : List Step) : noClr i (σ1 ++ σ2) = (noClr i σ1 && noClr i σ2) := by
  simp [noClr, List.all_append]

end Martian.Verify
