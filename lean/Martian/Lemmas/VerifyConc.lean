import Martian.Model.VerifyConc
import Martian.Lemmas.Verify
/-! Helper lemmas for the concurrency model of C13 (core Lean only). -/
namespace Martian.Verify
open Martian

/-! ### cells, steps, runs -/

theorem modAt_pre (f : Cell → Cell) (pre : Cells) (c : Cell) (post : Cells) :
    modAt f pre.length (pre ++ c :: post) = pre ++ f c :: post := by
  induction pre with
  | nil => rfl
  | cons a pre ih => simp [modAt, ih]

theorem modAt_length (f : Cell → Cell) : ∀ (n : Nat) (l : Cells), (modAt f n l).length = l.length
  | n, [] => by cases n <;> simp [modAt]
  | 0, _ :: _ => by simp [modAt]
  | n + 1, _ :: cs => by simp [modAt, modAt_length f n cs]

theorem getElem?_modAt (f : Cell → Cell) : ∀ (n : Nat) (l : Cells) (i : Nat),
    (modAt f n l)[i]? = if i = n then l[i]?.map f else l[i]?
  | n, [], i => by cases n <;> simp [modAt]
  | 0, c :: cs, i => by cases i <;> simp [modAt]
  | n + 1, c :: cs, i => by
    cases i with
    | zero => simp [modAt]
    | succ i => simp [modAt, getElem?_modAt f n cs i]

theorem Cells.run_nil (c : Cells) : c.run [] = c := rfl
theorem Cells.run_cons (c : Cells) (s : Step) (σ : List Step) : c.run (s :: σ) = (c.step s).run σ := rfl
theorem Cells.run_append (c : Cells) (σ1 σ2 : List Step) : c.run (σ1 ++ σ2) = (c.run σ1).run σ2 := by
  simp [Cells.run, List.foldl_append]

theorem Cells.step_length (c : Cells) (s : Step) : (c.step s).length = c.length := modAt_length _ _ _
theorem Cells.run_length (c : Cells) (σ : List Step) : (c.run σ).length = c.length := by
  induction σ generalizing c with
  | nil => rfl
  | cons s σ ih => rw [Cells.run_cons, ih, Cells.step_length]

theorem Cells.report_append (a b : Cells) : Cells.report (a ++ b) = Cells.report a ++ Cells.report b := by
  simp [Cells.report, List.flatMap_append]

/-! ### T1: an atomic verify walk reports the cells, in order -/

mutual
theorem T.verify_cells (side : Side) : ∀ t : T,
    errsOf (t.verify side) = (Cells.report (t.cells side)).map .one
  | .ver k errs => by
    cases errs <;> simp [T.verify, T.cells, Cells.report, Cell.report, errsOf]
  | .ping s h p q pend => by
    cases pend <;> simp [T.verify, T.cells, Cells.report, Cell.report, errsOf]
  | .nop => by simp [T.verify, T.cells, Cells.report, errsOf]
  | .fail => by simp [T.verify, T.cells, Cells.report, errsOf]
  | .group agg l => by
    simp only [T.verify, T.cells, errsOf_wrap]
    exact TL.verify_cells side l
  | .filter c t f => by
    have ht := T.verify_cells side t
    have hf := T.verify_cells side f
    simp only [T.verify, T.cells, errsOf_wrap, elseFirst]
    rcases visits_perm side with hv | hv <;>
      simp [hv, addOpt_eq, ht, hf, Cells.report_append]
  | .hide t => by simp [T.verify, T.cells, Cells.report, errsOf]
theorem TL.verify_cells (side : Side) : ∀ l : TL,
    l.verify side = (Cells.report (l.cells side)).map .one
  | .nil => by simp [TL.verify, TL.cells, Cells.report]
  | .cons t l => by
    simp only [TL.verify, TL.cells, addOpt_eq, List.nil_append, Cells.report_append, List.map_append]
    rw [T.verify_cells side t, TL.verify_cells side l]
end

/-- What the verification handler prints for one side is the report of the cells. -/
theorem T.query_cells (side : Side) (t : T) : handlerErrors (t.verify side) = Cells.report (t.cells side) := by
  rw [handlerErrors_eq, T.verify_cells, render_one]

/-! ### T2: the step programs refine the sequential walks -/

mutual
theorem T.size_modify (side : Side) (m : Msg) : ∀ t : T, (t.modify side m).1.size side = t.size side
  | .ver k errs => by
    simp only [T.modify, T.size]
    split
    · rfl
    · split <;> simp [T.cells]
  | .ping s h p q pend => by
    simp only [T.modify, T.size]
    split
    · rfl
    · split <;> simp [T.cells]
  | .nop => by simp [T.modify]
  | .fail => by simp [T.modify]
  | .group agg l => by
    simpa [T.modify, T.size, T.cells, TL.size] using TL.size_modify side m agg l
  | .filter c t f => by
    have ht := T.size_modify side m t
    have hf := T.size_modify side m f
    simp only [T.size] at ht hf ⊢
    simp only [T.modify]
    split <;> (simp only [T.cells]; split <;> simp [List.length_append, ht, hf])
  | .hide t => by simp [T.modify]
theorem TL.size_modify (side : Side) (m : Msg) (agg : Bool) : ∀ l : TL, (l.modify side m agg).1.size side = l.size side
  | .nil => by simp [TL.modify]
  | .cons t l => by
    have ht := T.size_modify side m t
    have hl := TL.size_modify side m agg l
    simp only [T.size, TL.size] at ht hl ⊢
    simp only [TL.modify]
    split <;> simp [TL.cells, List.length_append, ht, hl]
end

theorem run_at (pre post : Cells) (c : Cell) (s : Step) (h : s.cell = pre.length) :
    Cells.run (pre ++ [c] ++ post) [s] = pre ++ [s.fn c] ++ post := by
  simp [Cells.run, Cells.step, h, modAt_pre]

mutual
theorem T.run_mprog (side : Side) (m : Msg) : ∀ (t : T) (pre post : Cells),
    Cells.run (pre ++ t.cells side ++ post) (t.mprog side m pre.length) =
      pre ++ (t.modify side m).1.cells side ++ post
  | .ver k errs, pre, post => by
    simp only [T.mprog, T.modify]
    split
    · rfl
    · cases hc : check side k m with
      | none => simp [T.cells, Cells.run]
      | some e => simpa [T.cells, Step.fn, Cell.add] using run_at pre post (.errs errs) (.add pre.length e) rfl
  | .ping s h p q pend, pre, post => by
    simp only [T.mprog, T.modify]
    split
    · rfl
    · split
      · simpa [T.cells, Step.fn, Cell.pong] using run_at pre post (.ping (pingErr s h p q) pend) (.pong pre.length) rfl
      · simp [T.cells, Cells.run]
  | .nop, pre, post => by simp [T.mprog, T.modify, Cells.run]
  | .fail, pre, post => by simp [T.mprog, T.modify, Cells.run]
  | .group agg l, pre, post => by
    simpa [T.mprog, T.modify, T.cells] using TL.run_mprog side m agg l pre post
  | .filter c t f, pre, post => by
    simp only [T.mprog, T.modify]
    cases hc : c.holds side m
    · simp only [Bool.false_eq_true, if_false, T.cells]
      cases he : elseFirst side
      · have h := T.run_mprog side m f (pre ++ t.cells side) post
        simpa [List.length_append, T.size, List.append_assoc] using h
      · have h := T.run_mprog side m f pre (t.cells side ++ post)
        simpa [List.append_assoc] using h
    · simp only [if_true, T.cells]
      cases he : elseFirst side
      · have h := T.run_mprog side m t pre (f.cells side ++ post)
        simpa [List.append_assoc] using h
      · have h := T.run_mprog side m t (pre ++ f.cells side) post
        simpa [List.length_append, T.size, List.append_assoc] using h
  | .hide t, pre, post => by simp [T.mprog, T.modify, Cells.run]
theorem TL.run_mprog (side : Side) (m : Msg) (agg : Bool) : ∀ (l : TL) (pre post : Cells),
    Cells.run (pre ++ l.cells side ++ post) (l.mprog side m agg pre.length) =
      pre ++ (l.modify side m agg).1.cells side ++ post
  | .nil, pre, post => by simp [TL.mprog, TL.modify, Cells.run]
  | .cons t l, pre, post => by
    have ht := T.run_mprog side m t pre (l.cells side ++ post)
    simp only [TL.mprog, TL.modify, T.modify_snd, TL.cells, Cells.run_append]
    simp only [List.append_assoc] at ht ⊢
    rw [ht]
    cases he : (t.errors side m && !agg)
    · have hl := TL.run_mprog side m agg l (pre ++ (t.modify side m).1.cells side) post
      have hs := T.size_modify side m t
      simp only [T.size] at hs
      simp only [List.length_append, hs, List.append_assoc] at hl
      simpa [T.size, TL.cells, List.append_assoc] using hl
    · simp [TL.cells, Cells.run]
end

theorem reset_visits_cases (side : Side) : resetVisits side = [true, false] ∨ resetVisits side = [false, true] := by
  cases side <;> decide

mutual
theorem T.size_clear (side : Side) : ∀ t : T, t.clear.size side = t.size side
  | .ver k errs => by simp [T.clear, T.size, T.cells]
  | .ping s h p q pend => by simp [T.clear, T.size, T.cells]
  | .nop => by simp [T.clear]
  | .fail => by simp [T.clear]
  | .group agg l => by simpa [T.clear, T.size, T.cells, TL.size] using TL.size_clear side l
  | .filter c t f => by
    have ht := T.size_clear side t
    have hf := T.size_clear side f
    simp only [T.size] at ht hf ⊢
    simp only [T.clear, T.cells]
    split <;> simp [List.length_append, ht, hf]
  | .hide t => by simp [T.clear]
theorem TL.size_clear (side : Side) : ∀ l : TL, l.clear.size side = l.size side
  | .nil => by simp [TL.clear]
  | .cons t l => by
    have ht := T.size_clear side t
    have hl := TL.size_clear side l
    simp only [T.size, TL.size] at ht hl ⊢
    simp [TL.clear, TL.cells, List.length_append, ht, hl]
end

mutual
theorem T.run_rprog (side : Side) : ∀ (t : T) (pre post : Cells),
    Cells.run (pre ++ t.cells side ++ post) (t.rprog side pre.length) = pre ++ t.clear.cells side ++ post
  | .ver k errs, pre, post => by
    simpa [T.cells, T.clear, T.rprog, Step.fn, Cell.clear] using run_at pre post (.errs errs) (.clr pre.length) rfl
  | .ping s h p q pend, pre, post => by
    simpa [T.cells, T.clear, T.rprog, Step.fn, Cell.clear] using
      run_at pre post (.ping (pingErr s h p q) pend) (.clr pre.length) rfl
  | .nop, pre, post => by simp [T.rprog, T.clear, Cells.run]
  | .fail, pre, post => by simp [T.rprog, T.clear, Cells.run]
  | .group agg l, pre, post => by
    simpa [T.rprog, T.clear, T.cells] using TL.run_rprog side l pre post
  | .filter c t f, pre, post => by
    have st := T.size_clear side t
    have sf := T.size_clear side f
    simp only [T.size] at st sf
    simp only [T.rprog, T.clear, T.cells]
    cases he : elseFirst side
    · have h1 := T.run_rprog side t pre (f.cells side ++ post)
      have h2 := T.run_rprog side f (pre ++ t.clear.cells side) post
      have h1' := T.run_rprog side t pre (f.clear.cells side ++ post)
      have h2' := T.run_rprog side f (pre ++ t.cells side) post
      simp only [List.length_append, st, List.append_assoc] at h1 h2 h1' h2'
      rcases reset_visits_cases side with hv | hv <;>
        simp [hv, T.size, Cells.run_append, List.append_assoc, h1, h2, h1', h2']
    · have h1 := T.run_rprog side t (pre ++ f.cells side) post
      have h2 := T.run_rprog side f pre (t.clear.cells side ++ post)
      have h1' := T.run_rprog side t (pre ++ f.clear.cells side) post
      have h2' := T.run_rprog side f pre (t.cells side ++ post)
      simp only [List.length_append, sf, List.append_assoc] at h1 h2 h1' h2'
      rcases reset_visits_cases side with hv | hv <;>
        simp [hv, T.size, Cells.run_append, List.append_assoc, h1, h2, h1', h2']
  | .hide t, pre, post => by simp [T.rprog, T.clear, Cells.run]
theorem TL.run_rprog (side : Side) : ∀ (l : TL) (pre post : Cells),
    Cells.run (pre ++ l.cells side ++ post) (l.rprog side pre.length) = pre ++ l.clear.cells side ++ post
  | .nil, pre, post => by simp [TL.rprog, TL.clear, Cells.run]
  | .cons t l, pre, post => by
    have ht := T.run_rprog side t pre (l.cells side ++ post)
    have hl := TL.run_rprog side l (pre ++ t.clear.cells side) post
    have hs := T.size_clear side t
    simp only [T.size] at hs
    simp only [List.length_append, hs, List.append_assoc] at ht hl
    simp [TL.rprog, TL.clear, TL.cells, Cells.run_append, List.append_assoc, ht, T.size, hl]
end

/-! ### the programs depend on the shape of the tree only, not on the verifiers' state -/

mutual
theorem T.mprog_clear (side : Side) (m : Msg) : ∀ (t : T) (off : Nat), t.clear.mprog side m off = t.mprog side m off
  | .ver k errs, off => by simp [T.clear, T.mprog]
  | .ping s h p q pend, off => by simp [T.clear, T.mprog]
  | .nop, off => by simp [T.clear]
  | .fail, off => by simp [T.clear]
  | .group agg l, off => by simpa [T.clear, T.mprog] using TL.mprog_clear side m agg l off
  | .filter c t f, off => by
    simp only [T.clear, T.mprog, T.size_clear, T.mprog_clear side m t, T.mprog_clear side m f]
  | .hide t, off => by simp [T.clear]
theorem TL.mprog_clear (side : Side) (m : Msg) (agg : Bool) : ∀ (l : TL) (off : Nat),
    l.clear.mprog side m agg off = l.mprog side m agg off
  | .nil, off => by simp [TL.clear]
  | .cons t l, off => by
    simp only [TL.clear, TL.mprog, T.size_clear, T.errors_clear, T.mprog_clear side m t, TL.mprog_clear side m agg l]
end

mutual
theorem T.rprog_clear (side : Side) : ∀ (t : T) (off : Nat), t.clear.rprog side off = t.rprog side off
  | .ver k errs, off => by simp [T.clear, T.rprog]
  | .ping s h p q pend, off => by simp [T.clear, T.rprog]
  | .nop, off => by simp [T.clear]
  | .fail, off => by simp [T.clear]
  | .group agg l, off => by simpa [T.clear, T.rprog] using TL.rprog_clear side l off
  | .filter c t f, off => by
    simp only [T.clear, T.rprog, T.size_clear, T.rprog_clear side t, T.rprog_clear side f]
  | .hide t, off => by simp [T.clear]
theorem TL.rprog_clear (side : Side) : ∀ (l : TL) (off : Nat), l.clear.rprog side off = l.rprog side off
  | .nil, off => by simp [TL.clear]
  | .cons t l, off => by
    simp only [TL.clear, TL.rprog, T.size_clear, T.rprog_clear side t, TL.rprog_clear side l]
end

mutual
theorem T.mprog_isMod (side : Side) (m : Msg) : ∀ (t : T) (off : Nat), ∀ s ∈ t.mprog side m off, s.isMod = true
  | .ver k errs, off => by
    intro s hs
    simp only [T.mprog] at hs
    split at hs
    · simp at hs
    · split at hs <;> simp at hs
      subst hs; rfl
  | .ping _ _ _ _ _, off => by
    intro s hs
    simp only [T.mprog] at hs
    split at hs
    · simp at hs
    · split at hs <;> simp at hs
      subst hs; rfl
  | .nop, off => by simp [T.mprog]
  | .fail, off => by simp [T.mprog]
  | .group agg l, off => by simpa [T.mprog] using TL.mprog_isMod side m agg l off
  | .filter c t f, off => by
    intro s hs
    simp only [T.mprog] at hs
    split at hs
    · exact T.mprog_isMod side m t _ s hs
    · exact T.mprog_isMod side m f _ s hs
  | .hide t, off => by simp [T.mprog]
theorem TL.mprog_isMod (side : Side) (m : Msg) (agg : Bool) : ∀ (l : TL) (off : Nat), ∀ s ∈ l.mprog side m agg off, s.isMod = true
  | .nil, off => by simp [TL.mprog]
  | .cons t l, off => by
    intro s hs
    simp only [TL.mprog, List.mem_append] at hs
    rcases hs with hs | hs
    · exact T.mprog_isMod side m t off s hs
    · split at hs
      · simp at hs
      · exact TL.mprog_isMod side m agg l _ s hs
end

/-! ### T4: one cell under an arbitrary sequence of steps -/

theorem getElem?_step (c : Cells) (s : Step) (i : Nat) :
    (c.step s)[i]? = if i = s.cell then c[i]?.map s.fn else c[i]? := getElem?_modAt _ _ _ _

/-- The error list of cell `i` after the steps `σ`, starting from `l`. -/
def errsAfter (i : Nat) (l : List Bytes) (σ : List Step) : List Bytes :=
  σ.foldl (fun acc s => match s with
    | .add j e => if j = i then acc ++ [e] else acc
    | .clr j => if j = i then [] else acc
    | .pong _ => acc) l

/-- The pending flag of pingback cell `i` after the steps `σ`. -/
def pendingAfter (i : Nat) (p : Bool) (σ : List Step) : Bool :=
  σ.foldl (fun acc s => match s with
    | .pong j => if j = i then false else acc
    | .clr j => if j = i then true else acc
    | .add _ _ => acc) p

theorem run_errs_cell (i : Nat) : ∀ (σ : List Step) (c : Cells) (l : List Bytes), c[i]? = some (.errs l) →
    (c.run σ)[i]? = some (.errs (errsAfter i l σ))
  | [], c, l, h => by simpa [Cells.run, errsAfter] using h
  | s :: σ, c, l, h => by
    rw [Cells.run_cons]
    have hs : (c.step s)[i]? = some (.errs (errsAfter i l [s])) := by
      rw [getElem?_step, h]
      cases s with
      | add j e =>
        by_cases hj : i = j
        · subst hj; simp [Step.cell, Step.fn, Cell.add, errsAfter]
        · have hj' : ¬ j = i := fun h => hj h.symm
          simp [Step.cell, Step.fn, Cell.add, errsAfter, hj, hj']
      | pong j =>
        by_cases hj : i = j
        · subst hj; simp [Step.cell, Step.fn, Cell.pong, errsAfter]
        · have hj' : ¬ j = i := fun h => hj h.symm
          simp [Step.cell, Step.fn, Cell.pong, errsAfter, hj, hj']
      | clr j =>
        by_cases hj : i = j
        · subst hj; simp [Step.cell, Step.fn, Cell.clear, errsAfter]
        · have hj' : ¬ j = i := fun h => hj h.symm
          simp [Step.cell, Step.fn, Cell.clear, errsAfter, hj, hj']
    have := run_errs_cell i σ (c.step s) _ hs
    simpa [errsAfter] using this

theorem run_ping_cell (i : Nat) : ∀ (σ : List Step) (c : Cells) (msg : Bytes) (p : Bool), c[i]? = some (.ping msg p) →
    (c.run σ)[i]? = some (.ping msg (pendingAfter i p σ))
  | [], c, msg, p, h => by simpa [Cells.run, pendingAfter] using h
  | s :: σ, c, msg, p, h => by
    rw [Cells.run_cons]
    have hs : (c.step s)[i]? = some (.ping msg (pendingAfter i p [s])) := by
      rw [getElem?_step, h]
      cases s with
      | add j e =>
        by_cases hj : i = j
        · subst hj; simp [Step.cell, Step.fn, Cell.add, pendingAfter]
        · have hj' : ¬ j = i := fun h => hj h.symm
          simp [Step.cell, Step.fn, Cell.add, pendingAfter, hj, hj']
      | pong j =>
        by_cases hj : i = j
        · subst hj; simp [Step.cell, Step.fn, Cell.pong, pendingAfter]
        · have hj' : ¬ j = i := fun h => hj h.symm
          simp [Step.cell, Step.fn, Cell.pong, pendingAfter, hj, hj']
      | clr j =>
        by_cases hj : i = j
        · subst hj; simp [Step.cell, Step.fn, Cell.clear, pendingAfter]
        · have hj' : ¬ j = i := fun h => hj h.symm
          simp [Step.cell, Step.fn, Cell.clear, pendingAfter, hj, hj']
    have := run_ping_cell i σ (c.step s) msg _ hs
    simpa [pendingAfter] using this

theorem errsAfter_append (i : Nat) (l : List Bytes) (σ1 σ2 : List Step) :
    errsAfter i l (σ1 ++ σ2) = errsAfter i (errsAfter i l σ1) σ2 := by
  simp [errsAfter, List.foldl_append]

/-- Between resets a verifier's list only grows, by appending. -/
theorem errsAfter_noClr (i : Nat) : ∀ (σ : List Step) (l : List Bytes), noClr i σ = true →
    errsAfter i l σ = l ++ adds i σ
  | [], l, _ => by simp [errsAfter, adds]
  | s :: σ, l, h => by
    simp only [noClr, List.all_cons, Bool.and_eq_true] at h
    have ih := fun l' => errsAfter_noClr i σ l' (by simpa [noClr] using h.2)
    have hs : errsAfter i l (s :: σ) = errsAfter i (errsAfter i l [s]) σ := errsAfter_append i l [s] σ
    rw [hs, ih]
    cases s with
    | add j e => by_cases hj : j = i <;> simp [errsAfter, adds, hj]
    | pong j => simp [errsAfter, adds]
    | clr j =>
      have : j ≠ i := by intro hj; subst hj; simp at h
      simp [errsAfter, adds, this]

theorem errsAfter_clr (i : Nat) (l : List Bytes) (σ1 σ2 : List Step) (h : noClr i σ2 = true) :
    errsAfter i l (σ1 ++ .clr i :: σ2) = adds i σ2 := by
  rw [errsAfter_append, show Step.clr i :: σ2 = [Step.clr i] ++ σ2 from rfl, errsAfter_append, errsAfter_noClr i σ2 _ h]
  simp [errsAfter]

theorem adds_append (i : Nat) (σ1 σ2 : List Step) : adds i (σ1 ++ σ2) = adds i σ1 ++ adds i σ2 := by
  simp [adds, List.filterMap_append]

theorem noClr_append (i : Nat) (σ1 σ2 : List Step) : noClr i (σ1 ++ σ2) = (noClr i σ1 && noClr i σ2) := by
  simp [noClr, List.all_append]

theorem pendingAfter_noClr (i : Nat) : ∀ (σ : List Step) (p : Bool), noClr i σ = true →
    pendingAfter i p σ = (p && !(σ.any (· == .pong i)))
  | [], p, _ => by simp [pendingAfter]
  | s :: σ, p, h => by
    simp only [noClr, List.all_cons, Bool.and_eq_true] at h
    have ih := fun p' => pendingAfter_noClr i σ p' (by simpa [noClr] using h.2)
    have hs : pendingAfter i p (s :: σ) = pendingAfter i (pendingAfter i p [s]) σ := by
      simp [pendingAfter]
    rw [hs, ih]
    cases s with
    | add j e =>
      have hb : (Step.add j e == Step.pong i) = false := by simp
      simp [pendingAfter, hb]
    | pong j =>
      by_cases hj : j = i
      · simp [pendingAfter, hj]
      · have hb : (Step.pong j == Step.pong i) = false := by simp [hj]
        simp [pendingAfter, hj, hb]
    | clr j =>
      have : j ≠ i := by intro hj; subst hj; simp at h
      have hb : (Step.clr j == Step.pong i) = false := by simp
      simp [pendingAfter, this, hb]

/-- T5 (one cell): without a reset in between, a later read of a cell yields what it held plus
exactly what was added in between. -/
theorem read_grown (c : Cells) (i : Nat) (σ : List Step) (h : noClr i σ = true) :
    (c.run σ).read i = match c[i]? with | some x => x.grown i σ | none => [] := by
  cases hc : c[i]? with
  | none =>
    have : (c.run σ)[i]? = none := by
      have hl := Cells.run_length c σ
      rw [List.getElem?_eq_none_iff] at hc ⊢
      omega
    simp [Cells.read, this]
  | some x =>
    cases x with
    | errs l => simp [Cells.read, run_errs_cell i σ c l hc, Cell.report, Cell.grown, errsAfter_noClr i σ l h]
    | ping msg p => simp [Cells.read, run_ping_cell i σ c msg p hc, Cell.report, Cell.grown, pendingAfter_noClr i σ p h]

/-- T5: a query that is not atomic, with no reset overlapping it. -/
theorem qrun_eq_qspec (c : Cells) : ∀ (gs : List (List Step)) (i : Nat) (pre : List Step),
    qNoReset i pre gs = true → Cells.qrun (c.run pre) i gs = Cells.qspec c i pre gs
  | [], _, _, _ => rfl
  | g :: gs, i, pre, h => by
    simp only [qNoReset, Bool.and_eq_true] at h
    simp only [Cells.qrun, Cells.qspec, ← Cells.run_append]
    rw [read_grown c i (pre ++ g) h.1, qrun_eq_qspec c gs (i + 1) (pre ++ g) h.2]
    rfl

theorem Cells.qrun_atomic_aux : ∀ (c pre : Cells),
    Cells.qrun (pre ++ c) pre.length (List.replicate c.length []) = Cells.report c
  | [], pre => by simp [Cells.qrun, Cells.report]
  | x :: xs, pre => by
    have ih := Cells.qrun_atomic_aux xs (pre ++ [x])
    simp only [List.length_append, List.length_singleton, List.append_assoc, List.singleton_append] at ih
    simp only [List.length_cons, List.replicate_succ, Cells.qrun, Cells.run_nil, ih, Cells.read]
    simp [Cells.report]

/-- A query whose reads are not interrupted reports the cells. -/
theorem Cells.qrun_atomic (c : Cells) : Cells.qrun c 0 (List.replicate c.length []) = Cells.report c := by
  simpa using Cells.qrun_atomic_aux c []

/-! ### T6: steps of exchanges commute up to the order inside a verifier's list -/

theorem Cell.equiv_refl : ∀ a : Cell, a.equiv a
  | .errs l => List.Perm.refl l
  | .ping _ _ => ⟨rfl, rfl⟩

theorem Cell.equiv_trans : ∀ {a b c : Cell}, a.equiv b → b.equiv c → a.equiv c
  | .errs _, .errs _, .errs _, h1, h2 => List.Perm.trans h1 h2
  | .ping _ _, .ping _ _, .ping _ _, h1, h2 => ⟨h1.1.trans h2.1, h1.2.trans h2.2⟩
  | .errs _, .ping _ _, _, h1, _ => h1.elim
  | .ping _ _, .errs _, _, h1, _ => h1.elim
  | .errs _, .errs _, .ping _ _, _, h2 => h2.elim
  | .ping _ _, .ping _ _, .errs _, _, h2 => h2.elim

theorem Cell.equiv_symm : ∀ {a b : Cell}, a.equiv b → b.equiv a
  | .errs _, .errs _, h => List.Perm.symm h
  | .ping _ _, .ping _ _, h => ⟨h.1.symm, h.2.symm⟩
  | .errs _, .ping _ _, h => h.elim
  | .ping _ _, .errs _, h => h.elim

theorem Cells.equiv_refl : ∀ c : Cells, c.equiv c
  | [] => trivial
  | a :: as => ⟨Cell.equiv_refl a, Cells.equiv_refl as⟩

theorem Cells.equiv_trans : ∀ {a b c : Cells}, a.equiv b → b.equiv c → a.equiv c
  | [], [], [], _, _ => trivial
  | _ :: _, _ :: _, _ :: _, h1, h2 => ⟨Cell.equiv_trans h1.1 h2.1, Cells.equiv_trans h1.2 h2.2⟩
  | [], _ :: _, _, h1, _ => h1.elim
  | _ :: _, [], _, h1, _ => h1.elim
  | [], [], _ :: _, _, h2 => h2.elim
  | _ :: _, _ :: _, [], _, h2 => h2.elim

theorem Cells.equiv_symm : ∀ {a b : Cells}, a.equiv b → b.equiv a
  | [], [], _ => trivial
  | _ :: _, _ :: _, h => ⟨Cell.equiv_symm h.1, Cells.equiv_symm h.2⟩
  | [], _ :: _, h => h.elim
  | _ :: _, [], h => h.elim

theorem Step.fn_congr (s : Step) : ∀ {a b : Cell}, a.equiv b → (s.fn a).equiv (s.fn b)
  | .errs l, .errs l', h => by
    cases s with
    | add i e => exact List.Perm.append_right [e] h
    | pong i => exact h
    | clr i => exact List.Perm.refl []
  | .ping m p, .ping m' p', h => by
    cases s with
    | add i e => exact h
    | pong i => exact ⟨h.1, rfl⟩
    | clr i => exact ⟨h.1, rfl⟩
  | .errs _, .ping _ _, h => h.elim
  | .ping _ _, .errs _, h => h.elim

theorem modAt_congr (f : Cell → Cell) (hf : ∀ {a b : Cell}, a.equiv b → (f a).equiv (f b)) :
    ∀ (n : Nat) {c c' : Cells}, c.equiv c' → (modAt f n c).equiv (modAt f n c')
  | n, [], [], _ => by cases n <;> simp [modAt, Cells.equiv]
  | 0, _ :: _, _ :: _, h => ⟨hf h.1, h.2⟩
  | n + 1, _ :: _, _ :: _, h => ⟨h.1, modAt_congr f hf n h.2⟩
  | _, [], _ :: _, h => h.elim
  | _, _ :: _, [], h => h.elim

theorem Cells.step_congr (s : Step) {c c' : Cells} (h : c.equiv c') : (c.step s).equiv (c'.step s) :=
  modAt_congr s.fn (Step.fn_congr s) s.cell h

theorem Cells.run_congr : ∀ (σ : List Step) {c c' : Cells}, c.equiv c' → (c.run σ).equiv (c'.run σ)
  | [], _, _, h => h
  | s :: σ, _, _, h => Cells.run_congr σ (Cells.step_congr s h)

theorem modAt_comm (f g : Cell → Cell) (hfg : ∀ x, (g (f x)).equiv (f (g x))) :
    ∀ (n1 n2 : Nat) (c : Cells), (modAt g n2 (modAt f n1 c)).equiv (modAt f n1 (modAt g n2 c))
  | n1, n2, [] => by cases n1 <;> cases n2 <;> simp [modAt, Cells.equiv]
  | 0, 0, x :: xs => ⟨hfg x, Cells.equiv_refl xs⟩
  | 0, n2 + 1, x :: xs => ⟨Cell.equiv_refl _, Cells.equiv_refl _⟩
  | n1 + 1, 0, x :: xs => ⟨Cell.equiv_refl _, Cells.equiv_refl _⟩
  | n1 + 1, n2 + 1, x :: xs => ⟨Cell.equiv_refl _, modAt_comm f g hfg n1 n2 xs⟩

theorem Step.fn_comm (s1 s2 : Step) (h1 : s1.isMod = true) (h2 : s2.isMod = true) (x : Cell) :
    (s2.fn (s1.fn x)).equiv (s1.fn (s2.fn x)) := by
  cases s1 <;> cases s2 <;> cases x <;> simp_all [Step.isMod, Step.fn, Cell.add, Cell.pong, Cell.equiv]
  case add.add.errs i e j e' l =>
    exact List.Perm.append_left l (List.Perm.swap e' e [])

theorem Cells.step_comm (c : Cells) (s1 s2 : Step) (h1 : s1.isMod = true) (h2 : s2.isMod = true) :
    ((c.step s1).step s2).equiv ((c.step s2).step s1) :=
  modAt_comm s1.fn s2.fn (Step.fn_comm s1 s2 h1 h2) s1.cell s2.cell c

/-- Steps of exchanges may be reordered at will: the cells end up the same up to the order
inside each verifier's list. -/
theorem Cells.run_perm {σ σ' : List Step} (hp : σ.Perm σ') :
    (∀ s ∈ σ, s.isMod = true) → ∀ {c c' : Cells}, c.equiv c' → (c.run σ).equiv (c'.run σ') := by
  induction hp with
  | nil => intro _ c c' h; exact h
  | cons x _ ih =>
    intro hm c c' h
    exact ih (fun s hs => hm s (List.mem_cons_of_mem _ hs)) (Cells.step_congr x h)
  | swap x y l =>
    intro hm c c' h
    have hx := hm x (by simp)
    have hy := hm y (by simp)
    have h1 : ((c.step y).step x).equiv ((c'.step x).step y) :=
      Cells.equiv_trans (Cells.step_comm c y x hy hx) (Cells.step_congr y (Cells.step_congr x h))
    exact Cells.run_congr l h1
  | trans p1 _ ih1 ih2 =>
    intro hm c c' h
    exact Cells.equiv_trans (ih1 hm (Cells.equiv_refl c)) (ih2 (fun s hs => hm s (p1.mem_iff.mpr hs)) h)

theorem Cell.report_equiv : ∀ {a b : Cell}, a.equiv b → a.report.Perm b.report
  | .errs _, .errs _, h => h
  | .ping m p, .ping m' p', h => by
    obtain ⟨h1, h2⟩ := h; subst h1; subst h2; exact List.Perm.refl _
  | .errs _, .ping _ _, h => h.elim
  | .ping _ _, .errs _, h => h.elim

theorem Cells.report_equiv : ∀ {a b : Cells}, a.equiv b → a.report.Perm b.report
  | [], [], _ => List.Perm.refl _
  | x :: xs, y :: ys, h => by
    simp only [Cells.report, List.flatMap_cons]
    exact List.Perm.append (Cell.report_equiv h.1) (Cells.report_equiv h.2)
  | [], _ :: _, h => h.elim
  | _ :: _, [], h => h.elim

/-! ### T7/T8: phased histories are linearisable -/

theorem flatten_nil_of_all_nil : ∀ (ps : List (List Step)), (∀ p ∈ ps, p = []) → ps.flatten = []
  | [], _ => rfl
  | p :: ps, h => by
    have hp : p = [] := h p (by simp)
    have := flatten_nil_of_all_nil ps (fun q hq => h q (List.mem_cons_of_mem _ hq))
    simp [hp, this]

theorem flatten_set_perm : ∀ (ps : List (List Step)) (i : Nat) (a : Step) (p : List Step),
    ps[i]? = some (a :: p) → ps.flatten.Perm (a :: (ps.set i p).flatten)
  | [], _, _, _, h => by simp at h
  | q :: qs, 0, a, p, h => by
    simp at h; subst h; simp
  | q :: qs, i + 1, a, p, h => by
    have ih := flatten_set_perm qs i a p (by simpa using h)
    simp only [List.set_cons_succ, List.flatten_cons]
    exact (List.Perm.append_left q ih).trans List.perm_middle

theorem Interleaving.perm {ps : List (List Step)} {σ : List Step} (h : Interleaving ps σ) : σ.Perm ps.flatten := by
  induction h with
  | done ps hall => rw [flatten_nil_of_all_nil ps hall]
  | pick ps i a p σ hi _ ih => exact ((flatten_set_perm ps i a p hi).trans (List.Perm.cons a ih.symm)).symm

theorem Interleaving.isMod {ps : List (List Step)} {σ : List Step} (h : Interleaving ps σ)
    (hm : ∀ p ∈ ps, ∀ s ∈ p, s.isMod = true) : ∀ s ∈ σ, s.isMod = true := by
  intro s hs
  have : s ∈ ps.flatten := h.perm.mem_iff.mp hs
  obtain ⟨p, hp, hsp⟩ := List.mem_flatten.mp this
  exact hm p hp s hsp

/-- A batch of concurrently running exchanges leaves the cells as ANY sequential order of the same
exchanges does, up to the order inside each verifier's list. -/
theorem batch_equiv {ps : List (List Step)} {σ : List Step} (h : Interleaving ps σ)
    (hm : ∀ p ∈ ps, ∀ s ∈ p, s.isMod = true) {c c' : Cells} (hc : c.equiv c') :
    (c.run σ).equiv (c'.run ps.flatten) :=
  Cells.run_perm h.perm (h.isMod hm) hc

theorem runPhases_linearisable : ∀ (h : List Phase) (c c' : Cells), (∀ p ∈ h, p.ok) → c.equiv c' →
    (runPhases Phase.conc c h).1.equiv (runPhases Phase.seq c' h).1 ∧
      permLists (runPhases Phase.conc c h).2 (runPhases Phase.seq c' h).2
  | [], c, c', _, hc => ⟨hc, trivial⟩
  | p :: h, c, c', hok, hc => by
    have hp : p.ok := hok p (by simp)
    have hrest : ∀ q ∈ h, q.ok := fun q hq => hok q (List.mem_cons_of_mem _ hq)
    cases p with
    | batch ps σ =>
      have ih := runPhases_linearisable h (c.run σ) (c'.run ps.flatten) hrest (batch_equiv hp.1 hp.2 hc)
      simpa [runPhases, Phase.conc, Phase.seq] using ih
    | query =>
      have ih := runPhases_linearisable h c c' hrest hc
      simp only [runPhases, Phase.conc, Phase.seq, List.singleton_append]
      exact ⟨ih.1, Cells.report_equiv hc, ih.2⟩
    | reset r =>
      have ih := runPhases_linearisable h (c.run r) (c'.run r) hrest (Cells.run_congr r hc)
      simpa [runPhases, Phase.conc, Phase.seq] using ih

/-! ### T3: sequential step-level runs are the sequential model -/

theorem T.run_mprog0 (side : Side) (m : Msg) (t : T) :
    Cells.run (t.cells side) (t.mprog side m 0) = (t.modify side m).1.cells side := by
  simpa using T.run_mprog side m t [] []

theorem T.run_rprog0 (side : Side) (t : T) :
    Cells.run (t.cells side) (t.rprog side 0) = (t.reset side).cells side := by
  rw [T.reset_eq_clear]
  simpa using T.run_rprog side t [] []

theorem T.mprog_of_clear (side : Side) (m : Msg) (t t0 : T) (h : t.clear = t0.clear) (off : Nat) :
    t0.mprog side m off = t.mprog side m off := by
  rw [← T.mprog_clear side m t0, ← T.mprog_clear side m t, h]

theorem T.rprog_of_clear (side : Side) (t t0 : T) (h : t.clear = t0.clear) (off : Nat) :
    t0.rprog side off = t.rprog side off := by
  rw [← T.rprog_clear side t0, ← T.rprog_clear side t, h]

theorem T.run_mprogs (side : Side) (t0 : T) : ∀ (ms : List Msg) (t : T), t.clear = t0.clear →
    Cells.run (t.cells side) (ms.map fun m => t0.mprog side m 0).flatten =
      (T.runOps side t (ms.map .traffic)).cells side
  | [], t, _ => by simp [Cells.run, T.runOps]
  | m :: ms, t, h => by
    have ih := T.run_mprogs side t0 ms (t.modify side m).1 (by rw [T.clear_modify, h])
    simp only [List.map_cons, List.flatten_cons, Cells.run_append, T.runOps, List.foldl_cons, T.stepOp]
    rw [T.mprog_of_clear side m t t0 h, T.run_mprog0]
    exact ih

theorem T.runOps_append (side : Side) (t : T) (h1 h2 : List Op) :
    T.runOps side t (h1 ++ h2) = T.runOps side (T.runOps side t h1) h2 := by
  simp [T.runOps, List.foldl_append]

theorem T.runOps_clear (side : Side) : ∀ (h : List Op) (t : T), (T.runOps side t h).clear = t.clear
  | [], _ => rfl
  | op :: h, t => by
    have ih := T.runOps_clear side h (t.stepOp side op)
    simp only [T.runOps, List.foldl_cons] at ih ⊢
    rw [ih]
    cases op <;> simp [T.stepOp, T.clear_modify, T.reset_eq_clear, T.clear_clear]

theorem T.reports_append (side : Side) : ∀ (h1 h2 : List Op) (t : T),
    T.reports side t (h1 ++ h2) = T.reports side t h1 ++ T.reports side (T.runOps side t h1) h2
  | [], _, _ => by simp [T.reports, T.runOps]
  | op :: h1, h2, t => by
    cases op with
    | traffic m => simpa [T.reports, T.runOps, T.stepOp] using T.reports_append side h1 h2 (t.modify side m).1
    | query => simpa [T.reports, T.runOps, T.stepOp] using T.reports_append side h1 h2 t
    | reset => simpa [T.reports, T.runOps, T.stepOp] using T.reports_append side h1 h2 (t.reset side)

theorem T.reports_traffic (side : Side) : ∀ (ms : List Msg) (t : T), T.reports side t (ms.map .traffic) = []
  | [], _ => rfl
  | m :: ms, t => by simpa [T.reports] using T.reports_traffic side ms (t.modify side m).1

/-- The phases of a concurrent history, with the exchanges of every batch run one after the other,
are exactly the sequential model run on the linearised history. -/
theorem seq_phases_refine (side : Side) (t0 : T) : ∀ (H : List COp) (t : T), t.clear = t0.clear →
    runPhases Phase.seq (t.cells side) (H.map (COp.phase side t0)) =
      ((T.runOps side t (H.flatMap COp.linear)).cells side, T.reports side t (H.flatMap COp.linear))
  | [], t, _ => by simp [runPhases, T.runOps, T.reports]
  | op :: H, t, h => by
    simp only [List.map_cons, List.flatMap_cons, runPhases, T.runOps_append, T.reports_append]
    cases op with
    | batch ms σ =>
      have h' : (T.runOps side t (ms.map .traffic)).clear = t0.clear := by rw [T.runOps_clear, h]
      have ih := seq_phases_refine side t0 H _ h'
      simp only [COp.phase, Phase.seq, COp.linear, T.run_mprogs side t0 ms t h, T.reports_traffic, List.nil_append]
      rw [ih]
    | query =>
      have ih := seq_phases_refine side t0 H t h
      simp only [COp.phase, Phase.seq, COp.linear, T.runOps, List.foldl_cons, List.foldl_nil, T.stepOp, T.reports,
        List.cons_append, List.nil_append]
      rw [ih, T.query_cells]
      rfl
    | reset =>
      have h' : (t.reset side).clear = t0.clear := by rw [T.reset_eq_clear, T.clear_clear, h]
      have ih := seq_phases_refine side t0 H _ h'
      simp only [COp.phase, Phase.seq, COp.linear, T.runOps, List.foldl_cons, List.foldl_nil, T.stepOp, T.reports,
        List.nil_append, T.rprog_of_clear side t t0 h, T.run_rprog0]
      rw [ih]
      rfl

/-- The sequential reports are the specification (`query_is_failures_since_reset`, one side,
every query of the history). -/
theorem T.reports_spec (side : Side) (t0 : T) : ∀ (h : List Op) (t : T) (acc : List Msg),
    t.clear = t0.clear → t.tracks side acc → T.reports side t h = specReports side t0 acc h
  | [], _, _, _, _ => rfl
  | .query :: h, t, acc, hc, ht => by
    simp only [T.reports, specReports]
    rw [T.report_eq_spec side t acc ht, ← T.spec_clear side t, hc, T.spec_clear, T.reports_spec side t0 h t acc hc ht]
  | .traffic m :: h, t, acc, hc, ht => by
    simp only [T.reports, specReports]
    exact T.reports_spec side t0 h _ _ (by rw [T.clear_modify, hc]) (T.tracks_modify side m t acc ht)
  | .reset :: h, t, acc, hc, _ => by
    simp only [T.reports, specReports]
    refine T.reports_spec side t0 h _ _ (by rw [T.reset_eq_clear, T.clear_clear, hc]) ?_
    rw [T.reset_eq_clear]; exact T.tracks_clear side t

theorem COp.phase_ok (side : Side) (t0 : T) (op : COp) (h : op.ok side t0) : (op.phase side t0).ok := by
  cases op with
  | batch ms σ =>
    refine ⟨h, ?_⟩
    intro p hp s hs
    obtain ⟨m, _, rfl⟩ := List.mem_map.mp hp
    exact T.mprog_isMod side m t0 0 s hs
  | query => trivial
  | reset => trivial

end Martian.Verify
