import Martian.Model.Logging
/-! Helper lemmas for C15: context flags accumulate; fresh buffers keep held messages apart. -/
namespace Martian.Logging
open Martian Martian.MessageView

/-! ### flags -/

theorem applyAll_skipLogging (f : Flags) (ms : List Mark) :
    (f.applyAll ms).skipLogging = (f.skipLogging || ms.any Mark.setsSkipLogging) := by
  induction ms generalizing f with
  | nil => simp [Flags.applyAll]
  | cons mk rest ih =>
    have := ih (f.apply mk)
    simp only [Flags.applyAll, List.foldl_cons] at this ⊢
    rw [this]
    cases mk <;> simp [Flags.apply, Mark.setsSkipLogging]

theorem applyAll_skipRoundTrip (f : Flags) (ms : List Mark) :
    (f.applyAll ms).skipRoundTrip = (f.skipRoundTrip || ms.any Mark.setsSkipRoundTrip) := by
  induction ms generalizing f with
  | nil => simp [Flags.applyAll]
  | cons mk rest ih =>
    have := ih (f.apply mk)
    simp only [Flags.applyAll, List.foldl_cons] at this ⊢
    rw [this]
    cases mk <;> simp [Flags.apply, Mark.setsSkipRoundTrip]

theorem applyAll_apiRequest (f : Flags) (ms : List Mark) :
    (f.applyAll ms).apiRequest = (f.apiRequest || ms.any Mark.setsApiRequest) := by
  induction ms generalizing f with
  | nil => simp [Flags.applyAll]
  | cons mk rest ih =>
    have := ih (f.apply mk)
    simp only [Flags.applyAll, List.foldl_cons] at this ⊢
    rw [this]
    cases mk <;> simp [Flags.apply, Mark.setsApiRequest]

theorem applyAll_append (f : Flags) (a b : List Mark) :
    f.applyAll (a ++ b) = (f.applyAll a).applyAll b := by
  simp [Flags.applyAll, List.foldl_append]

/-! ### buffers -/

/-- Every slot reads from an existing buffer. -/
def Valid (w : World) : Prop := ∀ (i : Nat) (s : Held), w.slots[i]? = some s → s.ref < w.heap.length

/-- Every slot of `w` still stands for the message it stood for in `w0`. -/
def Same (w0 w : World) : Prop :=
  ∀ (i : Nat) (s : Held), w.slots[i]? = some s →
    ∃ s0, w0.slots[i]? = some s0 ∧ deref w.heap s = deref w0.heap s0

theorem Same.refl (w : World) : Same w w := fun _ s h => ⟨s, h, rfl⟩

theorem deref_append_of_lt (h : Heap) (x : Bytes) (s : Held) (hs : s.ref < h.length) :
    deref (h ++ [x]) s = deref h s := by
  simp [deref, List.getElem?_append_left hs]

theorem install_fresh (w0 w : World) (i : Nat) (hv : Valid w) (hs : Same w0 w) :
    Valid (install .fresh w i) ∧ Same w0 (install .fresh w i) := by
  unfold install
  cases hi : w.slots[i]? with
  | none => exact ⟨hv, hs⟩
  | some s =>
    simp only
    have hlt := hv i s hi
    constructor
    · intro j t hj
      simp only [List.getElem?_set] at hj
      split at hj
      · split at hj
        · simp at hj; subst hj; simp
        · simp at hj
      · have := hv j t hj
        simp; omega
    · intro j t hj
      simp only [List.getElem?_set] at hj
      split at hj
      · rename_i hij
        split at hj
        · simp at hj; subst hj; subst hij
          obtain ⟨s0, h0, e0⟩ := hs i s hi
          refine ⟨s0, h0, ?_⟩
          rw [← e0]
          simp [deref]
        · simp at hj
      · obtain ⟨s0, h0, e0⟩ := hs j t hj
        refine ⟨s0, h0, ?_⟩
        rw [← e0]
        exact deref_append_of_lt _ _ _ (hv j t hj)

theorem applyInstalls_fresh (w0 : World) (i : Nat) (steps : List Bool) (w : World) (hv : Valid w)
    (hs : Same w0 w) :
    Valid (applyInstalls .fresh w i steps) ∧ Same w0 (applyInstalls .fresh w i steps) := by
  induction steps generalizing w with
  | nil => exact ⟨hv, hs⟩
  | cons b rest ih =>
    simp only [applyInstalls]
    have e : (if b = true then Alloc.fresh else Alloc.fresh) = Alloc.fresh := by cases b <;> rfl
    rw [e]
    obtain ⟨hv', hs'⟩ := install_fresh w0 w i hv hs
    exact ih _ hv' hs'

theorem run_fresh (w0 : World) (evs : List Ev) (w : World) (hv : Valid w) (hs : Same w0 w) :
    ∀ p ∈ (run .fresh w evs).2, ∃ s0, w0.slots[p.1]? = some s0 ∧ p.2 = deref w0.heap s0 := by
  induction evs generalizing w with
  | nil => simp [run]
  | cons e rest ih =>
    cases e with
    | log i l skip =>
      simp only [run]
      cases hi : w.slots[i]? with
      | none => exact ih w hv hs
      | some s =>
        obtain ⟨hv', hs'⟩ := applyInstalls_fresh w0 i (installs l skip (deref w.heap s)) w hv hs
        exact ih _ hv' hs'
    | write i =>
      simp only [run]
      cases hi : w.slots[i]? with
      | none => exact ih w hv hs
      | some s =>
        intro p hp
        simp only [List.mem_cons] at hp
        rcases hp with rfl | hp
        · exact hs i s hi
        · exact ih w hv hs p hp

theorem valid_ofMsgs (ms : List Msg) : Valid (World.ofMsgs ms) := by
  intro i s hi
  simp [World.ofMsgs, List.getElem?_map, List.getElem?_zipIdx] at hi
  obtain ⟨a, ⟨ha, rfl⟩⟩ := hi
  have : i < ms.length := by
    rcases Nat.lt_or_ge i ms.length with h | h
    · exact h
    · simp [List.getElem?_eq_none h] at ha
  simpa [World.ofMsgs] using this

theorem deref_ofMsgs (ms : List Msg) (i : Nat) (s : Held) (hi : (World.ofMsgs ms).slots[i]? = some s) :
    some (deref (World.ofMsgs ms).heap s) = ms[i]? := by
  simp [World.ofMsgs, List.getElem?_map, List.getElem?_zipIdx] at hi
  obtain ⟨a, ⟨ha, rfl⟩⟩ := hi
  simp [deref, World.ofMsgs, List.getElem?_map, ha]
  cases hb : a.body <;> simp
  · cases a; simp_all
  · cases a; simp_all

end Martian.Logging
