import Martian.Model.H2Relay
/-! Helper lemmas for C08 / C09 about the h2 relay model (core Lean only). -/
namespace Martian.H2Relay
open Martian

/-- Flow-controlled bytes of a list of queued frames. -/
def flow (l : List QFrame) : Int := (l.map (fun f => (f.size : Int))).sum

/-- Frames of stream `s`. -/
def onS (s : Nat) (l : List QFrame) : List QFrame := l.filter (fun f => f.sid == s)

/-- The head of the queue (if any) does not fit the two windows. -/
def Stuck (conn w : Int) (q : List QFrame) : Prop :=
  q = [] ∨ ∃ f q', q = f :: q' ∧ fits conn w f = false

@[simp] theorem flow_nil : flow [] = 0 := rfl
@[simp] theorem flow_cons (f : QFrame) (l : List QFrame) : flow (f :: l) = f.size + flow l := by
  simp [flow]
@[simp] theorem flow_append (a b : List QFrame) : flow (a ++ b) = flow a + flow b := by
  simp [flow]
theorem flow_nonneg (l : List QFrame) : 0 ≤ flow l := by
  induction l with
  | nil => simp
  | cons f l ih => simp; omega

@[simp] theorem onS_nil (s : Nat) : onS s [] = [] := rfl
@[simp] theorem onS_append (s : Nat) (a b : List QFrame) : onS s (a ++ b) = onS s a ++ onS s b := by
  simp [onS]
theorem onS_self {s : Nat} {l : List QFrame} (h : ∀ f ∈ l, f.sid = s) : onS s l = l := by
  simp only [onS, List.filter_eq_self]
  intro f hf; simp [h f hf]
theorem onS_other {s t : Nat} {l : List QFrame} (h : ∀ f ∈ l, f.sid = t) (hne : t ≠ s) : onS s l = [] := by
  simp only [onS, List.filter_eq_nil_iff]
  intro f hf; simp [h f hf, hne]

/-! ### emitEligibleFrames -/

theorem emit_spec (conn w : Int) (q : List QFrame) :
    let r := emit conn w q
    r.2.2.2 ++ r.2.2.1 = q ∧ r.1 = conn - flow r.2.2.2 ∧ r.2.1 = w - flow r.2.2.2 ∧
    Stuck r.1 r.2.1 r.2.2.1 ∧ (0 ≤ conn → 0 ≤ r.1) ∧ (0 ≤ r.2.1 ∨ r.2.1 = w) ∧
    (∀ f ∈ r.2.2.2, (f.size : Int) ≤ conn ∧ (f.size : Int) ≤ w) := by
  induction q generalizing conn w with
  | nil => simp [emit, Stuck]
  | cons f q ih =>
    by_cases h : fits conn w f
    · have := ih (conn - f.size) (w - f.size)
      simp only [emit, h, if_true]
      obtain ⟨h1, h2, h3, h4, h5, h6, h7⟩ := this
      simp only [fits, Bool.and_eq_true, decide_eq_true_eq] at h
      refine ⟨by simp [h1], ?_, ?_, h4, ?_, ?_, ?_⟩
      · simp; omega
      · simp; omega
      · intro hc; apply h5; omega
      · rcases h6 with h6 | h6
        · exact Or.inl h6
        · left; omega
      · intro g hg
        simp only [List.mem_cons] at hg
        rcases hg with rfl | hg
        · exact h
        · have := h7 g hg
          have := flow_nonneg []
          constructor <;> omega
    · simp only [emit, h]
      simp [Stuck, h]

theorem stuck_mono {conn conn' w : Int} {q : List QFrame} (h : conn' ≤ conn) :
    Stuck conn w q → Stuck conn' w q := by
  rintro (h1 | ⟨f, q', rfl, hf⟩)
  · exact Or.inl h1
  · refine Or.inr ⟨f, q', rfl, ?_⟩
    simp only [fits, Bool.and_eq_false_iff, decide_eq_false_iff_not] at *
    omega

/-! ### splitIntoChunks, dataChunks -/

theorem chunkRest_flatten (m : Nat) (hm : 0 < m) : ∀ (fuel : Nat) (rem : Bytes), rem.length ≤ fuel →
    (chunkRest m fuel rem).flatten = rem
  | 0, rem, h => by
    have : rem = [] := List.eq_nil_of_length_eq_zero (by omega)
    simp [chunkRest, this]
  | fuel + 1, rem, h => by
    unfold chunkRest
    split
    · rename_i he; simp at he; simp [he]
    · rename_i he
      have hl : 0 < rem.length := by
        cases rem with
        | nil => simp at he
        | cons => simp
      have := chunkRest_flatten m hm fuel (rem.drop m) (by simp; omega)
      simp [this]

theorem chunkRest_le (m : Nat) : ∀ (fuel : Nat) (rem : Bytes), ∀ c ∈ chunkRest m fuel rem, c.length ≤ m
  | 0, _, c, hc => by simp [chunkRest] at hc
  | fuel + 1, rem, c, hc => by
    unfold chunkRest at hc
    split at hc
    · simp at hc
    · simp only [List.mem_cons] at hc
      rcases hc with rfl | hc
      · simp; omega
      · exact chunkRest_le m fuel _ c hc

theorem dataChunks_flatten (m : Nat) (hm : 0 < m) : ∀ (fuel : Nat) (d : Bytes), d.length ≤ fuel →
    (dataChunks m fuel d).flatten = d
  | 0, d, h => by
    have : d = [] := List.eq_nil_of_length_eq_zero (by omega)
    simp [dataChunks, this]
  | fuel + 1, d, h => by
    unfold dataChunks
    split
    · rename_i he
      simp at he
      simp [List.take_of_length_le he]
    · rename_i he
      have hl : m < d.length := by
        apply Classical.byContradiction; intro hc
        apply he; simp; omega
      have := dataChunks_flatten m hm fuel (d.drop m) (by simp; omega)
      simp [this]

theorem dataChunks_le (m : Nat) : ∀ (fuel : Nat) (d : Bytes), ∀ c ∈ dataChunks m fuel d, c.length ≤ m
  | 0, d, c, hc => by
    simp [dataChunks] at hc; subst hc; simp; omega
  | fuel + 1, d, c, hc => by
    unfold dataChunks at hc
    split at hc
    · simp at hc; subst hc; simp; omega
    · simp only [List.mem_cons] at hc
      rcases hc with rfl | hc
      · simp; omega
      · exact dataChunks_le m fuel _ c hc

theorem dataChunks_ne_nil (m fuel : Nat) (d : Bytes) : dataChunks m fuel d ≠ [] := by
  cases fuel with
  | zero => simp [dataChunks]
  | succ n => unfold dataChunks; split <;> simp

/-! ### Relay primitives and the ledger invariant -/

@[simp] theorem setOB_same (ob : Nat → OB) (s : Nat) (o : OB) : setOB ob s o s = o := by simp [setOB]
theorem setOB_other (ob : Nat → OB) (s : Nat) (o : OB) {t : Nat} (h : t ≠ s) : setOB ob s o t = ob t := by
  simp [setOB, h]

/-- Invariant of a relay that every primitive operation preserves. -/
structure Good0 (r : Relay) : Prop where
  sidq : ∀ s, ∀ f ∈ (r.ob s).q, f.sid = s
  nokey : ∀ s, s ∉ r.keys → (r.ob s).q = [] ∧ onS s r.accepted = [] ∧ r.wu s = 0
  conserve : ∀ s, onS s r.emitted ++ (r.ob s).q = onS s r.accepted
  ledgerS : ∀ s, s ∈ r.keys → flow (onS s r.emitted) + (r.ob s).win = r.initWin + r.wu s
  ledgerC : flow r.emitted + r.connWin = 65535 + r.wuConn
  connNonneg : 0 ≤ r.connWin
  winLower : ∀ s, s ∈ r.keys → 0 ≤ (r.ob s).win + r.lowered

theorem good0_init : Good0 ({} : Relay) := by
  constructor <;> simp

theorem emitStream_good0 {r : Relay} (h : Good0 r) (s : Nat) : Good0 (emitStream r s) := by
  have hs := emit_spec r.connWin (r.ob s).win (r.ob s).q
  generalize hres : emit r.connWin (r.ob s).win (r.ob s).q = res at hs
  obtain ⟨conn', w', q', out⟩ := res
  simp only at hs
  obtain ⟨hcat, hconn, hwin, -, hnn, hwl, -⟩ := hs
  have hsid := h.sidq s
  have hout : ∀ f ∈ out, f.sid = s := fun f hf => hsid f (by rw [← hcat]; simp [hf])
  have hq' : ∀ f ∈ q', f.sid = s := fun f hf => hsid f (by rw [← hcat]; simp [hf])
  constructor
  · intro t f hf
    by_cases hts : t = s
    · subst hts; simp [emitStream, hres] at hf; exact hq' f hf
    · simp [emitStream, hres, setOB_other _ _ _ hts] at hf; exact h.sidq t f hf
  · intro t ht
    simp only [emitStream] at ht ⊢
    have := h.nokey t ht
    by_cases hts : t = s
    · subst hts
      rw [this.1] at hcat
      simp at hcat
      simp [hres, hcat.2, this.2]
    · simp [hres, setOB_other _ _ _ hts, this]
  · intro t
    by_cases hts : t = s
    · subst hts
      simp [emitStream, hres, onS_self hout]
      rw [hcat]; exact h.conserve t
    · have hne : s ≠ t := fun e => hts e.symm
      simp [emitStream, hres, setOB_other _ _ _ hts, onS_other hout hne]
      exact h.conserve t
  · intro t ht
    have := h.ledgerS t ht
    by_cases hts : t = s
    · subst hts
      simp [emitStream, hres, onS_self hout] at this ⊢
      omega
    · have hne : s ≠ t := fun e => hts e.symm
      simp [emitStream, hres, setOB_other _ _ _ hts, onS_other hout hne] at this ⊢
      exact this
  · have := h.ledgerC
    simp [emitStream, hres] at this ⊢
    omega
  · simp [emitStream, hres]; exact hnn h.connNonneg
  · intro t ht
    have := h.winLower t ht
    by_cases hts : t = s
    · subst hts
      simp [emitStream, hres] at this ⊢
      omega
    · simp [emitStream, hres, setOB_other _ _ _ hts] at this ⊢
      exact this

theorem getOB_keys (r : Relay) (s : Nat) : s ∈ (getOB r s).keys := by
  unfold getOB; split <;> simp [*]

theorem getOB_keys_mono (r : Relay) (s t : Nat) (h : t ∈ r.keys) : t ∈ (getOB r s).keys := by
  unfold getOB; split <;> simp [*]

theorem getOB_good0 {r : Relay} (h : Good0 r) (s : Nat) : Good0 (getOB r s) := by
  unfold getOB
  split
  · exact h
  · rename_i hs
    have hk := h.nokey s hs
    have hem : onS s r.emitted = [] := by
      have := h.conserve s
      rw [hk.1, hk.2.1] at this
      simpa using this
    constructor
    · intro t f hf
      by_cases hts : t = s
      · subst hts; simp at hf
      · simp [setOB_other _ _ _ hts] at hf; exact h.sidq t f hf
    · intro t ht
      simp only [List.mem_append, List.mem_singleton, not_or] at ht
      have := h.nokey t ht.1
      simp [setOB_other _ _ _ ht.2, this]
    · intro t
      by_cases hts : t = s
      · subst hts; simp [hem, hk.2.1]
      · simp [setOB_other _ _ _ hts]; exact h.conserve t
    · intro t ht
      by_cases hts : t = s
      · subst hts; simp [hem, hk.2.2]
      · simp only [List.mem_append, List.mem_singleton, hts, or_false] at ht
        simp [setOB_other _ _ _ hts]; exact h.ledgerS t ht
    · exact h.ledgerC
    · exact h.connNonneg
    · intro t ht
      by_cases hts : t = s
      · subst hts; simp; omega
      · simp only [List.mem_append, List.mem_singleton, hts, or_false] at ht
        simp [setOB_other _ _ _ hts]; exact h.winLower t ht

theorem push_good0 {r : Relay} (h : Good0 r) (f : QFrame) (hk : f.sid ∈ r.keys) : Good0 (push r f) := by
  constructor
  · intro t g hg
    by_cases hts : t = f.sid
    · subst hts
      simp [push] at hg
      rcases hg with hg | hg
      · exact h.sidq _ g hg
      · rw [hg]
    · simp [push, setOB_other _ _ _ hts] at hg; exact h.sidq t g hg
  · intro t ht
    have hts : t ≠ f.sid := fun e => ht (e ▸ hk)
    have hne : f.sid ≠ t := fun e => hts e.symm
    obtain ⟨h1, h2, h3⟩ := h.nokey t ht
    refine ⟨?_, ?_, ?_⟩
    · simp [push, setOB_other _ _ _ hts, h1]
    · show onS t (r.accepted ++ [f]) = []
      rw [onS_append, h2]; simp [onS, hne]
    · simpa [push] using h3
  · intro t
    have := h.conserve t
    by_cases hts : t = f.sid
    · subst hts
      simp [push, onS] at this ⊢
      rw [← List.append_assoc, this]
    · have hne : f.sid ≠ t := fun e => hts e.symm
      simp [push, setOB_other _ _ _ hts, onS, hne] at this ⊢
      exact this
  · intro t ht
    have := h.ledgerS t ht
    by_cases hts : t = f.sid
    · subst hts; simpa [push] using this
    · simpa [push, setOB_other _ _ _ hts] using this
  · exact h.ledgerC
  · exact h.connNonneg
  · intro t ht
    have := h.winLower t ht
    by_cases hts : t = f.sid
    · subst hts; simpa [push] using this
    · simpa [push, setOB_other _ _ _ hts] using this

theorem enqueue_good0 {r : Relay} (h : Good0 r) (f : QFrame) : Good0 (enqueue r f) :=
  emitStream_good0 (push_good0 (getOB_good0 h f.sid) f (getOB_keys r f.sid)) f.sid

theorem sendQueued_good0 {r : Relay} (h : Good0 r) (order : List Nat) : Good0 (sendQueued r order) := by
  unfold sendQueued
  induction order generalizing r with
  | nil => exact h
  | cons s rest ih => exact ih (emitStream_good0 h s)

theorem addWin_good0 {r : Relay} (h : Good0 r) (s : Nat) (inc : Nat) (hk : s ∈ r.keys) :
    Good0 (addWin r s inc) := by
  constructor
  · intro t g hg
    by_cases hts : t = s
    · subst hts; simp [addWin] at hg; exact h.sidq _ g hg
    · simp [addWin, setOB_other _ _ _ hts] at hg; exact h.sidq t g hg
  · intro t ht
    have hts : t ≠ s := fun e => ht (e ▸ hk)
    have := h.nokey t ht
    simpa [addWin, setOB_other _ _ _ hts, hts] using this
  · intro t
    have := h.conserve t
    by_cases hts : t = s
    · subst hts; simpa [addWin] using this
    · simpa [addWin, setOB_other _ _ _ hts] using this
  · intro t ht
    have := h.ledgerS t ht
    by_cases hts : t = s
    · subst hts; simp [addWin] at this ⊢; omega
    · simpa [addWin, setOB_other _ _ _ hts, hts] using this
  · exact h.ledgerC
  · exact h.connNonneg
  · intro t ht
    have := h.winLower t ht
    by_cases hts : t = s
    · subst hts; simp [addWin] at this ⊢; omega
    · simpa [addWin, setOB_other _ _ _ hts] using this

theorem foldl_enqueue_good0 {r : Relay} (h : Good0 r) (fs : List QFrame) : Good0 (fs.foldl enqueue r) := by
  induction fs generalizing r with
  | nil => exact h
  | cons f rest ih => exact ih (enqueue_good0 h f)

theorem rstep_good0 {r : Relay} (h : Good0 r) (i : RIn) : Good0 (rstep r i) := by
  cases i with
  | data sid payload es => exact foldl_enqueue_good0 (getOB_good0 h sid) _
  | header sid fields es prio encoded =>
    exact enqueue_good0 (r := { r with nextStamp := r.nextStamp + 1 }) ⟨h.1, h.2, h.3, h.4, h.5, h.6, h.7⟩ _
  | push sid promised fields encoded =>
    exact enqueue_good0 (r := { r with nextStamp := r.nextStamp + 1 }) ⟨h.1, h.2, h.3, h.4, h.5, h.6, h.7⟩ _
  | priority sid p => exact enqueue_good0 h _
  | rst sid code => exact enqueue_good0 h _
  | ctl c => exact ⟨h.1, h.2, h.3, h.4, h.5, h.6, h.7⟩
  | credit sid flow =>
    simp only [rstep]
    split
    · exact h
    · exact ⟨h.1, h.2, h.3, h.4, h.5, h.6, h.7⟩
  | windowUpdate sid inc order =>
    simp only [rstep]
    apply emitStream_good0
    apply addWin_good0 _ _ _ (getOB_keys _ _)
    apply getOB_good0
    split
    · apply sendQueued_good0
      refine ⟨h.1, h.2, h.3, h.4, ?_, ?_, h.7⟩
      · have := h.ledgerC; simp; omega
      · have := h.connNonneg; simp; omega
    · exact h
  | initWin v order =>
    simp only [rstep]
    apply sendQueued_good0
    constructor
    · intro t g hg
      simp only at hg
      split at hg <;> exact h.sidq t g hg
    · intro t ht
      have := h.nokey t ht
      simp only at ht
      simpa [ht] using this
    · intro t
      have := h.conserve t
      simp only
      split <;> simpa using this
    · intro t ht
      have := h.ledgerS t ht
      simp only at ht ⊢
      simp [ht]; omega
    · exact h.ledgerC
    · exact h.connNonneg
    · intro t ht
      have := h.winLower t ht
      simp only at ht ⊢
      simp [ht]; omega
  | maxFrame v => exact ⟨h.1, h.2, h.3, h.4, h.5, h.6, h.7⟩

/-! ### No eligible frame is left queued -/

def StuckAt (r : Relay) (t : Nat) : Prop := Stuck r.connWin (r.ob t).win (r.ob t).q
def AllStuck (r : Relay) : Prop := ∀ t, StuckAt r t

theorem emitStream_stuck (r : Relay) (s t : Nat) (h : t = s ∨ StuckAt r t) : StuckAt (emitStream r s) t := by
  have hs := emit_spec r.connWin (r.ob s).win (r.ob s).q
  generalize hres : emit r.connWin (r.ob s).win (r.ob s).q = res at hs
  obtain ⟨conn', w', q', out⟩ := res
  simp only at hs
  obtain ⟨-, hconn, -, hst, -, -, -⟩ := hs
  by_cases hts : t = s
  · subst hts; simpa [StuckAt, emitStream, hres] using hst
  · rcases h with h | h
    · exact absurd h hts
    · have hle : conn' ≤ r.connWin := by have := flow_nonneg out; omega
      simpa [StuckAt, emitStream, hres, setOB_other _ _ _ hts] using stuck_mono hle h

theorem sendQueued_stuck (r : Relay) (order : List Nat) (t : Nat) (h : StuckAt r t ∨ t ∈ order) :
    StuckAt (sendQueued r order) t := by
  unfold sendQueued
  induction order generalizing r with
  | nil => simpa using h
  | cons s rest ih =>
    simp only [List.foldl_cons]
    apply ih
    rcases h with h | h
    · exact Or.inl (emitStream_stuck r s t (Or.inr h))
    · simp only [List.mem_cons] at h
      rcases h with h | h
      · exact Or.inl (emitStream_stuck r s t (Or.inl h))
      · exact Or.inr h

@[simp] theorem emitStream_keys (r : Relay) (s : Nat) : (emitStream r s).keys = r.keys := rfl
@[simp] theorem sendQueued_keys (r : Relay) (order : List Nat) : (sendQueued r order).keys = r.keys := by
  unfold sendQueued
  induction order generalizing r with
  | nil => rfl
  | cons s rest ih => simp [ih]

theorem getOB_stuck (r : Relay) (s t : Nat) (h : StuckAt r t) : StuckAt (getOB r s) t := by
  unfold getOB
  split
  · exact h
  · by_cases hts : t = s
    · subst hts; simp [StuckAt, Stuck]
    · simpa [StuckAt, setOB_other _ _ _ hts] using h

theorem enqueue_allstuck {r : Relay} (h : AllStuck r) (f : QFrame) : AllStuck (enqueue r f) := by
  intro t
  apply emitStream_stuck
  by_cases hts : t = f.sid
  · exact Or.inl hts
  · right
    have := getOB_stuck r f.sid t (h t)
    simpa [StuckAt, push, setOB_other _ _ _ hts] using this

theorem foldl_enqueue_allstuck {r : Relay} (h : AllStuck r) (fs : List QFrame) : AllStuck (fs.foldl enqueue r) := by
  induction fs generalizing r with
  | nil => exact h
  | cons f rest ih => exact ih (enqueue_allstuck h f)

/-- The map iteration of a pass visits every output buffer. -/
def OkIn (r : Relay) : RIn → Prop
  | .windowUpdate 0 _ order => ∀ t ∈ r.keys, t ∈ order
  | .initWin _ order => ∀ t ∈ r.keys, t ∈ order
  | _ => True

theorem sendQueued_allstuck {r : Relay} (h0 : Good0 r) (order : List Nat) (hcov : ∀ t ∈ r.keys, t ∈ order) :
    AllStuck (sendQueued r order) := by
  intro t
  by_cases ht : t ∈ r.keys
  · exact sendQueued_stuck r order t (Or.inr (hcov t ht))
  · have := (sendQueued_good0 h0 order).nokey t (by simpa using ht)
    simp [StuckAt, Stuck, this.1]

theorem rstep_allstuck {r : Relay} (h0 : Good0 r) (h : AllStuck r) (i : RIn) (hok : OkIn r i) :
    AllStuck (rstep r i) := by
  cases i with
  | data sid payload es => exact foldl_enqueue_allstuck (fun t => getOB_stuck r sid t (h t)) _
  | header sid fields es prio encoded => exact enqueue_allstuck (r := { r with nextStamp := r.nextStamp + 1 }) h _
  | push sid promised fields encoded => exact enqueue_allstuck (r := { r with nextStamp := r.nextStamp + 1 }) h _
  | priority sid p => exact enqueue_allstuck h _
  | rst sid code => exact enqueue_allstuck h _
  | ctl c => exact h
  | credit sid flow =>
    simp only [rstep]
    split
    · exact h
    · exact h
  | windowUpdate sid inc order =>
    simp only [rstep]
    have key : ∀ r1 : Relay, AllStuck r1 → AllStuck (emitStream (addWin (getOB r1 sid) sid inc) sid) := by
      intro r1 h1 t
      apply emitStream_stuck
      by_cases hts : t = sid
      · exact Or.inl hts
      · right
        have := getOB_stuck r1 sid t (h1 t)
        simpa [StuckAt, addWin, setOB_other _ _ _ hts] using this
    apply key
    split
    · rename_i hz
      subst hz
      apply sendQueued_allstuck
      · refine ⟨h0.1, h0.2, h0.3, h0.4, ?_, ?_, h0.7⟩
        · have := h0.ledgerC; simp; omega
        · have := h0.connNonneg; simp; omega
      · exact hok
    · exact h
  | initWin v order =>
    simp only [rstep]
    have hg := rstep_good0 h0 (.initWin v [])
    simp only [rstep, sendQueued, List.foldl_nil] at hg
    exact sendQueued_allstuck hg order hok
  | maxFrame v => exact h

/-! ### Fields the queue operations do not touch -/
@[simp] theorem emitStream_wu (r : Relay) (s : Nat) : (emitStream r s).wu = r.wu := rfl
@[simp] theorem push_wu (r : Relay) (f : QFrame) : (push r f).wu = r.wu := rfl
@[simp] theorem getOB_wu (r : Relay) (s : Nat) : (getOB r s).wu = r.wu := by unfold getOB; split <;> rfl
@[simp] theorem enqueue_wu (r : Relay) (f : QFrame) : (enqueue r f).wu = r.wu := by simp [enqueue]
@[simp] theorem sendQueued_wu (r : Relay) (order : List Nat) : (sendQueued r order).wu = r.wu := by
  unfold sendQueued
  induction order generalizing r with
  | nil => rfl
  | cons s rest ih => simp [ih]
@[simp] theorem foldl_enqueue_wu (r : Relay) (fs : List QFrame) : (fs.foldl enqueue r).wu = r.wu := by
  induction fs generalizing r with
  | nil => rfl
  | cons f rest ih => simp [ih]
@[simp] theorem emitStream_wuConn (r : Relay) (s : Nat) : (emitStream r s).wuConn = r.wuConn := rfl
@[simp] theorem push_wuConn (r : Relay) (f : QFrame) : (push r f).wuConn = r.wuConn := rfl
@[simp] theorem getOB_wuConn (r : Relay) (s : Nat) : (getOB r s).wuConn = r.wuConn := by unfold getOB; split <;> rfl
@[simp] theorem enqueue_wuConn (r : Relay) (f : QFrame) : (enqueue r f).wuConn = r.wuConn := by simp [enqueue]
@[simp] theorem sendQueued_wuConn (r : Relay) (order : List Nat) : (sendQueued r order).wuConn = r.wuConn := by
  unfold sendQueued
  induction order generalizing r with
  | nil => rfl
  | cons s rest ih => simp [ih]
@[simp] theorem foldl_enqueue_wuConn (r : Relay) (fs : List QFrame) : (fs.foldl enqueue r).wuConn = r.wuConn := by
  induction fs generalizing r with
  | nil => rfl
  | cons f rest ih => simp [ih]
@[simp] theorem emitStream_wrote (r : Relay) (s : Nat) : (emitStream r s).wrote = r.wrote := rfl
@[simp] theorem push_wrote (r : Relay) (f : QFrame) : (push r f).wrote = r.wrote := rfl
@[simp] theorem getOB_wrote (r : Relay) (s : Nat) : (getOB r s).wrote = r.wrote := by unfold getOB; split <;> rfl
@[simp] theorem enqueue_wrote (r : Relay) (f : QFrame) : (enqueue r f).wrote = r.wrote := by simp [enqueue]
@[simp] theorem sendQueued_wrote (r : Relay) (order : List Nat) : (sendQueued r order).wrote = r.wrote := by
  unfold sendQueued
  induction order generalizing r with
  | nil => rfl
  | cons s rest ih => simp [ih]
@[simp] theorem foldl_enqueue_wrote (r : Relay) (fs : List QFrame) : (fs.foldl enqueue r).wrote = r.wrote := by
  induction fs generalizing r with
  | nil => rfl
  | cons f rest ih => simp [ih]
@[simp] theorem emitStream_creditDue (r : Relay) (s : Nat) : (emitStream r s).creditDue = r.creditDue := rfl
@[simp] theorem push_creditDue (r : Relay) (f : QFrame) : (push r f).creditDue = r.creditDue := rfl
@[simp] theorem getOB_creditDue (r : Relay) (s : Nat) : (getOB r s).creditDue = r.creditDue := by unfold getOB; split <;> rfl
@[simp] theorem enqueue_creditDue (r : Relay) (f : QFrame) : (enqueue r f).creditDue = r.creditDue := by simp [enqueue]
@[simp] theorem sendQueued_creditDue (r : Relay) (order : List Nat) : (sendQueued r order).creditDue = r.creditDue := by
  unfold sendQueued
  induction order generalizing r with
  | nil => rfl
  | cons s rest ih => simp [ih]
@[simp] theorem foldl_enqueue_creditDue (r : Relay) (fs : List QFrame) : (fs.foldl enqueue r).creditDue = r.creditDue := by
  induction fs generalizing r with
  | nil => rfl
  | cons f rest ih => simp [ih]
@[simp] theorem emitStream_maxFrame (r : Relay) (s : Nat) : (emitStream r s).maxFrame = r.maxFrame := rfl
@[simp] theorem push_maxFrame (r : Relay) (f : QFrame) : (push r f).maxFrame = r.maxFrame := rfl
@[simp] theorem getOB_maxFrame (r : Relay) (s : Nat) : (getOB r s).maxFrame = r.maxFrame := by unfold getOB; split <;> rfl
@[simp] theorem enqueue_maxFrame (r : Relay) (f : QFrame) : (enqueue r f).maxFrame = r.maxFrame := by simp [enqueue]
@[simp] theorem sendQueued_maxFrame (r : Relay) (order : List Nat) : (sendQueued r order).maxFrame = r.maxFrame := by
  unfold sendQueued
  induction order generalizing r with
  | nil => rfl
  | cons s rest ih => simp [ih]
@[simp] theorem foldl_enqueue_maxFrame (r : Relay) (fs : List QFrame) : (fs.foldl enqueue r).maxFrame = r.maxFrame := by
  induction fs generalizing r with
  | nil => rfl
  | cons f rest ih => simp [ih]
@[simp] theorem emitStream_nextStamp (r : Relay) (s : Nat) : (emitStream r s).nextStamp = r.nextStamp := rfl
@[simp] theorem push_nextStamp (r : Relay) (f : QFrame) : (push r f).nextStamp = r.nextStamp := rfl
@[simp] theorem getOB_nextStamp (r : Relay) (s : Nat) : (getOB r s).nextStamp = r.nextStamp := by unfold getOB; split <;> rfl
@[simp] theorem enqueue_nextStamp (r : Relay) (f : QFrame) : (enqueue r f).nextStamp = r.nextStamp := by simp [enqueue]
@[simp] theorem sendQueued_nextStamp (r : Relay) (order : List Nat) : (sendQueued r order).nextStamp = r.nextStamp := by
  unfold sendQueued
  induction order generalizing r with
  | nil => rfl
  | cons s rest ih => simp [ih]
@[simp] theorem foldl_enqueue_nextStamp (r : Relay) (fs : List QFrame) : (fs.foldl enqueue r).nextStamp = r.nextStamp := by
  induction fs generalizing r with
  | nil => rfl
  | cons f rest ih => simp [ih]
@[simp] theorem emitStream_initWin (r : Relay) (s : Nat) : (emitStream r s).initWin = r.initWin := rfl
@[simp] theorem push_initWin (r : Relay) (f : QFrame) : (push r f).initWin = r.initWin := rfl
@[simp] theorem getOB_initWin (r : Relay) (s : Nat) : (getOB r s).initWin = r.initWin := by unfold getOB; split <;> rfl
@[simp] theorem enqueue_initWin (r : Relay) (f : QFrame) : (enqueue r f).initWin = r.initWin := by simp [enqueue]
@[simp] theorem sendQueued_initWin (r : Relay) (order : List Nat) : (sendQueued r order).initWin = r.initWin := by
  unfold sendQueued
  induction order generalizing r with
  | nil => rfl
  | cons s rest ih => simp [ih]
@[simp] theorem foldl_enqueue_initWin (r : Relay) (fs : List QFrame) : (fs.foldl enqueue r).initWin = r.initWin := by
  induction fs generalizing r with
  | nil => rfl
  | cons f rest ih => simp [ih]
@[simp] theorem emitStream_lowered (r : Relay) (s : Nat) : (emitStream r s).lowered = r.lowered := rfl
@[simp] theorem push_lowered (r : Relay) (f : QFrame) : (push r f).lowered = r.lowered := rfl
@[simp] theorem getOB_lowered (r : Relay) (s : Nat) : (getOB r s).lowered = r.lowered := by unfold getOB; split <;> rfl
@[simp] theorem enqueue_lowered (r : Relay) (f : QFrame) : (enqueue r f).lowered = r.lowered := by simp [enqueue]
@[simp] theorem sendQueued_lowered (r : Relay) (order : List Nat) : (sendQueued r order).lowered = r.lowered := by
  unfold sendQueued
  induction order generalizing r with
  | nil => rfl
  | cons s rest ih => simp [ih]
@[simp] theorem foldl_enqueue_lowered (r : Relay) (fs : List QFrame) : (fs.foldl enqueue r).lowered = r.lowered := by
  induction fs generalizing r with
  | nil => rfl
  | cons f rest ih => simp [ih]
@[simp] theorem emitStream_accepted (r : Relay) (s : Nat) : (emitStream r s).accepted = r.accepted := rfl
@[simp] theorem getOB_accepted (r : Relay) (s : Nat) : (getOB r s).accepted = r.accepted := by unfold getOB; split <;> rfl
@[simp] theorem sendQueued_accepted (r : Relay) (order : List Nat) : (sendQueued r order).accepted = r.accepted := by
  unfold sendQueued
  induction order generalizing r with
  | nil => rfl
  | cons s rest ih => simp [ih]
@[simp] theorem enqueue_accepted (r : Relay) (f : QFrame) : (enqueue r f).accepted = r.accepted ++ [f] := by
  simp [enqueue, push]
@[simp] theorem foldl_enqueue_accepted (r : Relay) (fs : List QFrame) : (fs.foldl enqueue r).accepted = r.accepted ++ fs := by
  induction fs generalizing r with
  | nil => simp
  | cons f rest ih => simp [ih]

/-! ### Histories -/

/-- Admissible input of a relay in state `r`: a map pass visits every output buffer (in any
order, repetitions allowed); direct writes are SETTINGS / PING / GOAWAY, never WINDOW_UPDATE
(those are only produced as credit, by `RIn.credit`). -/
def OkStep (r : Relay) (i : RIn) : Prop := OkIn r i ∧ ∀ s n, i ≠ .ctl (.windowUpdate s n)

def OkRun : Relay → List RIn → Prop
  | _, [] => True
  | r, i :: is => OkStep r i ∧ OkRun (rstep r i) is

theorem run_invariant {r : Relay} (is : List RIn) (h0 : Good0 r) (h1 : AllStuck r) (hok : OkRun r is) :
    Good0 (run r is) ∧ AllStuck (run r is) := by
  induction is generalizing r with
  | nil => exact ⟨h0, h1⟩
  | cons i is ih =>
    exact ih (rstep_good0 h0 i) (rstep_allstuck h0 h1 i hok.1.1) hok.2

theorem allstuck_init : AllStuck ({} : Relay) := by intro t; simp [StuckAt, Stuck]

/-- Frames a relay input adds to the output queues. -/
def acceptedOf (r : Relay) : RIn → List QFrame
  | .data sid payload es => mkData sid es (dataChunks r.maxFrame payload.length payload)
  | .header sid fields es prio encoded =>
    [.headers sid es prio r.nextStamp fields
      (splitIntoChunks (r.maxFrame - (if prio.isZero then 0 else 5)) r.maxFrame encoded)]
  | .push sid promised fields encoded =>
    [.push sid promised r.nextStamp fields (splitIntoChunks (r.maxFrame - 4) r.maxFrame encoded)]
  | .priority sid p => [.priority sid p]
  | .rst sid code => [.rst sid code]
  | _ => []

theorem rstep_accepted (r : Relay) (i : RIn) : (rstep r i).accepted = r.accepted ++ acceptedOf r i := by
  cases i with
  | credit sid flow => simp only [rstep, acceptedOf]; split <;> simp
  | windowUpdate sid inc order =>
    simp only [rstep, acceptedOf, emitStream_accepted]
    have : ∀ r1 : Relay, (addWin (getOB r1 sid) sid inc).accepted = r1.accepted := by intro r1; simp [addWin]
    rw [this]; split <;> simp
  | _ => simp [rstep, acceptedOf]

/-- Executable form of the admissibility hypothesis. -/
def okStepB (r : Relay) : RIn → Bool
  | .windowUpdate 0 _ order => r.keys.all (fun t => order.contains t)
  | .initWin _ order => r.keys.all (fun t => order.contains t)
  | .ctl (.windowUpdate _ _) => false
  | _ => true

def okRunB : Relay → List RIn → Bool
  | _, [] => true
  | r, i :: is => okStepB r i && okRunB (rstep r i) is

theorem okStepB_sound (r : Relay) (i : RIn) (h : okStepB r i = true) : OkStep r i := by
  cases i with
  | windowUpdate sid inc order =>
    cases sid with
    | zero =>
      refine ⟨?_, by intro s n; simp⟩
      simpa [okStepB, OkIn] using h
    | succ k => exact ⟨by simp [OkIn], by intro s n; simp⟩
  | initWin v order =>
    refine ⟨?_, by intro s n; simp⟩
    simpa [okStepB, OkIn] using h
  | ctl c =>
    cases c with
    | windowUpdate s n => simp [okStepB] at h
    | _ => exact ⟨by simp [OkIn], by intro s n; simp⟩
  | _ => exact ⟨by simp [OkIn], by intro s n; simp⟩

theorem okRunB_sound (r : Relay) (is : List RIn) (h : okRunB r is = true) : OkRun r is := by
  induction is generalizing r with
  | nil => trivial
  | cons i is ih =>
    simp only [okRunB, Bool.and_eq_true] at h
    exact ⟨okStepB_sound r i h.1, ih _ h.2⟩


/-! ### HPACK encode order -/

/-- Encoder sequence numbers of the header blocks in a list of frames. -/
def blocks (l : List QFrame) : List Nat := l.filterMap QFrame.stamp?

@[simp] theorem blocks_nil : blocks [] = [] := rfl
@[simp] theorem blocks_append (a b : List QFrame) : blocks (a ++ b) = blocks a ++ blocks b := by simp [blocks]

/-- All queued header blocks sit on one stream and, after the emitted ones, count up to `n`. -/
def Jn (r : Relay) (n : Nat) : Prop :=
  ∃ s0, (∀ t, t ≠ s0 → blocks (r.ob t).q = []) ∧ blocks r.emitted ++ blocks (r.ob s0).q = List.range n

theorem Jn_congr {r r' : Relay} {n : Nat} (hq : ∀ t, (r'.ob t).q = (r.ob t).q) (he : r'.emitted = r.emitted)
    (h : Jn r n) : Jn r' n := by
  obtain ⟨s0, h1, h2⟩ := h
  exact ⟨s0, fun t ht => by rw [hq]; exact h1 t ht, by rw [he, hq]; exact h2⟩

theorem emitStream_Jn {r : Relay} {n : Nat} (h : Jn r n) (s : Nat) : Jn (emitStream r s) n := by
  have hs := emit_spec r.connWin (r.ob s).win (r.ob s).q
  generalize hres : emit r.connWin (r.ob s).win (r.ob s).q = res at hs
  obtain ⟨conn', w', q', out⟩ := res
  simp only at hs
  obtain ⟨hcat, -, -, -, -, -, -⟩ := hs
  have hb : blocks out ++ blocks q' = blocks (r.ob s).q := by rw [← blocks_append, hcat]
  obtain ⟨s0, h1, h2⟩ := h
  refine ⟨s0, ?_, ?_⟩
  · intro t ht
    by_cases hts : t = s
    · subst hts
      have := h1 t ht
      rw [this] at hb
      simp at hb
      simp [emitStream, hres, hb.2]
    · simp [emitStream, hres, setOB_other _ _ _ hts]; exact h1 t ht
  · by_cases hs0 : s = s0
    · subst hs0
      simp [emitStream, hres]
      rw [hb]; exact h2
    · have := h1 s hs0
      rw [this] at hb
      simp at hb
      have hne : s0 ≠ s := fun e => hs0 e.symm
      simp [emitStream, hres, setOB_other _ _ _ hne, hb.1]
      exact h2

theorem sendQueued_Jn {r : Relay} {n : Nat} (h : Jn r n) (order : List Nat) : Jn (sendQueued r order) n := by
  unfold sendQueued
  induction order generalizing r with
  | nil => exact h
  | cons s rest ih => exact ih (emitStream_Jn h s)

theorem getOB_q {r : Relay} (hg : Good0 r) (s t : Nat) : ((getOB r s).ob t).q = (r.ob t).q := by
  unfold getOB
  split
  · rfl
  · rename_i hs
    by_cases hts : t = s
    · subst hts; simp [(hg.nokey t hs).1]
    · simp [setOB_other _ _ _ hts]

theorem getOB_emitted (r : Relay) (s : Nat) : (getOB r s).emitted = r.emitted := by
  unfold getOB; split <;> rfl

theorem enqueue_Jn_plain {r : Relay} {n : Nat} (hg : Good0 r) (h : Jn r n) (f : QFrame) (hf : f.stamp? = none) :
    Jn (enqueue r f) n := by
  apply emitStream_Jn
  have h1 : Jn (getOB r f.sid) n := Jn_congr (getOB_q hg f.sid) (getOB_emitted r f.sid) h
  obtain ⟨s0, h1, h2⟩ := h1
  have hbf : blocks [f] = [] := by simp [blocks, hf]
  refine ⟨s0, ?_, ?_⟩
  · intro t ht
    by_cases hts : t = f.sid
    · subst hts; simp [push, hbf]; exact h1 _ ht
    · simp [push, setOB_other _ _ _ hts]; exact h1 t ht
  · by_cases hts : s0 = f.sid
    · subst hts; simp [push, hbf]; exact h2
    · simp [push, setOB_other _ _ _ hts]; exact h2

theorem foldl_enqueue_Jn_plain {r : Relay} {n : Nat} (hg : Good0 r) (h : Jn r n) (fs : List QFrame)
    (hf : ∀ f ∈ fs, f.stamp? = none) : Jn (fs.foldl enqueue r) n := by
  induction fs generalizing r with
  | nil => exact h
  | cons f rest ih =>
    exact ih (enqueue_good0 hg f) (enqueue_Jn_plain hg h f (hf f (by simp))) (fun g hgm => hf g (by simp [hgm]))

theorem enqueue_Jn_stamped {r : Relay} {n : Nat} (hg : Good0 r) (h : Jn r n) (f : QFrame) (hf : f.stamp? = some n)
    (hsafe : ∀ t, t ≠ f.sid → blocks (r.ob t).q = []) : Jn (enqueue r f) (n + 1) := by
  apply emitStream_Jn
  have h1 : Jn (getOB r f.sid) n := Jn_congr (getOB_q hg f.sid) (getOB_emitted r f.sid) h
  have hsafe' : ∀ t, t ≠ f.sid → blocks ((getOB r f.sid).ob t).q = [] := by
    intro t ht; rw [getOB_q hg]; exact hsafe t ht
  obtain ⟨s0, h1, h2⟩ := h1
  have hbf : blocks [f] = [n] := by simp [blocks, hf]
  refine ⟨f.sid, ?_, ?_⟩
  · intro t ht
    simp [push, setOB_other _ _ _ ht]; exact hsafe' t ht
  · have hbase : blocks (getOB r f.sid).emitted ++ blocks ((getOB r f.sid).ob f.sid).q = List.range n := by
      by_cases hts : s0 = f.sid
      · subst hts; exact h2
      · rw [hsafe' s0 hts] at h2
        rw [h1 f.sid (fun e => hts e.symm)]
        exact h2
    simp [push, hbf]
    rw [← List.append_assoc, hbase, List.range_succ]

theorem mkData_stamp (sid : Nat) (es : Bool) (cs : List Bytes) : ∀ f ∈ mkData sid es cs, f.stamp? = none := by
  induction cs with
  | nil => simp [mkData]
  | cons c rest ih =>
    cases rest with
    | nil => simp [mkData, QFrame.stamp?]
    | cons c2 rest2 =>
      intro f hf
      simp only [mkData, List.mem_cons] at hf
      rcases hf with hf | hf
      · subst hf; rfl
      · exact ih f (by simpa [mkData] using hf)

/-- The F08b class is excluded: a header block is HPACK-encoded only when no block encoded
earlier is still queued on another stream. -/
def SafeIn (r : Relay) : RIn → Prop
  | .header sid _ _ _ _ => ∀ t ∈ r.keys, t ≠ sid → blocks (r.ob t).q = []
  | .push sid _ _ _ => ∀ t ∈ r.keys, t ≠ sid → blocks (r.ob t).q = []
  | _ => True

theorem rstep_Jn {r : Relay} (hg : Good0 r) (h : Jn r r.nextStamp) (i : RIn) (hs : SafeIn r i) :
    Jn (rstep r i) (rstep r i).nextStamp := by
  have safeAll : ∀ sid, (∀ t ∈ r.keys, t ≠ sid → blocks (r.ob t).q = []) → ∀ t, t ≠ sid → blocks (r.ob t).q = [] := by
    intro sid hk t ht
    by_cases htk : t ∈ r.keys
    · exact hk t htk ht
    · simp [(hg.nokey t htk).1]
  cases i with
  | data sid payload es =>
    simp only [rstep, foldl_enqueue_nextStamp, getOB_nextStamp]
    exact foldl_enqueue_Jn_plain (getOB_good0 hg sid) (Jn_congr (getOB_q hg sid) (getOB_emitted r sid) h) _ (mkData_stamp _ _ _)
  | header sid fields es prio encoded =>
    simp only [rstep, enqueue_nextStamp]
    exact enqueue_Jn_stamped (r := { r with nextStamp := r.nextStamp + 1 }) ⟨hg.1, hg.2, hg.3, hg.4, hg.5, hg.6, hg.7⟩
      (Jn_congr (fun _ => rfl) rfl h) _ rfl (safeAll sid hs)
  | push sid promised fields encoded =>
    simp only [rstep, enqueue_nextStamp]
    exact enqueue_Jn_stamped (r := { r with nextStamp := r.nextStamp + 1 }) ⟨hg.1, hg.2, hg.3, hg.4, hg.5, hg.6, hg.7⟩
      (Jn_congr (fun _ => rfl) rfl h) _ rfl (safeAll sid hs)
  | priority sid p => simp only [rstep, enqueue_nextStamp]; exact enqueue_Jn_plain hg h _ rfl
  | rst sid code => simp only [rstep, enqueue_nextStamp]; exact enqueue_Jn_plain hg h _ rfl
  | ctl c => exact Jn_congr (fun _ => rfl) rfl h
  | credit sid flow =>
    simp only [rstep]
    split
    · exact h
    · exact Jn_congr (fun _ => rfl) rfl h
  | windowUpdate sid inc order =>
    simp only [rstep, emitStream_nextStamp]
    apply emitStream_Jn
    have key : ∀ r1 : Relay, Good0 r1 → Jn r1 r.nextStamp → Jn (addWin (getOB r1 sid) sid inc) r.nextStamp := by
      intro r1 hg1 h1
      refine Jn_congr ?_ ?_ (Jn_congr (getOB_q hg1 sid) (getOB_emitted r1 sid) h1)
      · intro t
        by_cases hts : t = sid
        · subst hts; simp [addWin]
        · simp [addWin, setOB_other _ _ _ hts]
      · rfl
    have hn : ∀ r1 : Relay, (addWin (getOB r1 sid) sid inc).nextStamp = r1.nextStamp := by intro r1; simp [addWin]
    rw [hn]
    split
    · simp only [sendQueued_nextStamp]
      apply key
      · apply sendQueued_good0
        refine ⟨hg.1, hg.2, hg.3, hg.4, ?_, ?_, hg.7⟩
        · have := hg.ledgerC; simp; omega
        · have := hg.connNonneg; simp; omega
      · exact sendQueued_Jn (Jn_congr (r := r) (r' := { r with connWin := r.connWin + inc, wuConn := r.wuConn + inc }) (fun _ => rfl) rfl h) order
    · exact key r hg h
  | initWin v order =>
    simp only [rstep, sendQueued_nextStamp]
    apply sendQueued_Jn
    refine Jn_congr (r := r) ?_ rfl h
    intro t
    simp only
    split <;> rfl
  | maxFrame v => exact Jn_congr (fun _ => rfl) rfl h

theorem prefix_of_range {a b : List Nat} {n : Nat} (h : a ++ b = List.range n) : a = List.range a.length := by
  have hlen : a.length ≤ n := by
    have := congrArg List.length h
    simp at this; omega
  have : a = (List.range n).take a.length := by rw [← h]; simp
  rw [this, List.take_range]
  simp [Nat.min_eq_left hlen]

/-! ### CONTINUATION reassembly -/

theorem dispatchAll_append (d : DState) (a b : List Frame) :
    dispatchAll d (a ++ b) =
      ((dispatchAll (dispatchAll d a).1 b).1, (dispatchAll d a).2 ++ (dispatchAll (dispatchAll d a).1 b).2) := by
  induction a generalizing d with
  | nil => simp [dispatchAll]
  | cons f a ih => simp [dispatchAll, ih, List.append_assoc]

/-- What `continuationState.complete` calls once the block is whole. -/
def completeCall (c : Cont) (sid : Nat) (block : Bytes) : Call :=
  match c with
  | .hdr prio es => .header sid block es prio
  | .push promised => .pushPromise sid promised block
  | .none => .nilContinuation

theorem dispatchAll_conts (buf : Bytes) (c : Cont) (sid : Nat) (mid : List Bytes) (last : Bytes) :
    dispatchAll ⟨buf, c⟩ (mid.map (Frame.continuation sid false) ++ [.continuation sid true last]) =
      (⟨buf ++ mid.flatten ++ last, c⟩, [completeCall c sid (buf ++ mid.flatten ++ last)]) := by
  induction mid generalizing buf with
  | nil => cases c <;> simp [dispatchAll, dispatch, completeCall]
  | cons m rest ih =>
    simp only [List.map_cons, List.cons_append, dispatchAll, dispatch]
    simp only [Bool.false_eq_true, if_false]
    rw [ih]
    simp [List.append_assoc]

end Martian.H2Relay
