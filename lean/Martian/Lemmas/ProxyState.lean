import Martian.Lemmas.Proxy
/-! Which items end a connection; how the security state is threaded through the loop. -/
namespace Martian.Proxy

/-- Does this request end the connection (close after it, or hijack)? Independent of the state. -/
def endsConn (sd : Bool) : Item → Bool
  | .x rc rq rs org =>
    decide (rq = .hijack) || decide (rs = .hijack) || rc || sd ||
      (!rqSkip rq && (match org with | .ok _ cl => cl | .trunc _ => true | .fail => false))
  | .connectMitm _ rq rs => decide (rq = .hijack) || decide (rs = .hijack)
  | .connectBlind ok rq rs => decide (rq = .hijack) || decide (rs = .hijack) || ok
  | .connectMitmFail rq rs => decide (rq = .hijack) || decide (rs = .hijack)

def Next.isAgain : Next → Bool | .again _ => true | _ => false
@[simp] theorem isAgain_again (s : St) : (Next.again s).isAgain = true := rfl
@[simp] theorem isAgain_close : Next.close.isAgain = false := rfl
@[simp] theorem isAgain_hijack : Next.hijack.isAgain = false := rfl
@[simp] theorem isAgain_ite (c : Prop) [Decidable c] (s : St) :
    (if c then Next.close else Next.again s).isAgain = !decide c := by split <;> simp [*]

theorem again_iff_not_ends (sd : Bool) (s : St) (i c : Nat) (it : Item) :
    (handleItem sd s i c it).2.isAgain = !endsConn sd it := by
  item_cases it then (simp [endsConn, rqSkip] <;> (try cases sd) <;> simp)

/-- Elements up to and including the first one satisfying `p`. -/
def takeThrough {α : Type} (p : α → Bool) : List α → List α
  | [] => []
  | a :: r => if p a then [a] else a :: takeThrough p r

def isAnyRead (e : Ev) : Bool := match e with | .read _ => true | _ => false
def numReads (evs : List Ev) : Nat := countP isAnyRead evs

theorem numReads_item (sd : Bool) (s : St) (i c : Nat) (it : Item) : numReads (handleItem sd s i c it).1 = 1 := by
  simp only [numReads]; item_cases it then (simp [List.filter_cons, isAnyRead])

theorem numReads_tail (opn : List Nat) : numReads (opn.map Ev.unlink ++ [Ev.closeConn]) = 0 := by
  induction opn with
  | nil => simp [numReads, countP, isAnyRead]
  | cons c r ih => simpa [numReads, countP, isAnyRead] using ih

theorem numReads_run (sd : Bool) (base : Nat) (s : St) (i : Nat) (opn : List Nat) (items : List Item) :
    numReads (run sd base s i opn items) = (takeThrough (endsConn sd) items).length := by
  induction items generalizing s i opn with
  | nil => simpa [run, takeThrough] using numReads_tail opn
  | cons it rest ih =>
    have hag := again_iff_not_ends sd s i (base + i) it
    simp only [run, takeThrough]
    cases hn : (handleItem sd s i (base + i) it).2 with
    | again s' =>
      rw [hn] at hag
      have he : endsConn sd it = false := by simpa using hag
      simp only [hn, he, numReads, countP_append]
      have := numReads_item sd s i (base + i) it
      have h2 := ih s' (i + 1) (nextOpen (base + i) opn it)
      simp only [numReads] at this h2
      rw [this, h2]; simp; omega
    | close =>
      rw [hn] at hag
      have he : endsConn sd it = true := by simpa using hag
      have := numReads_item sd s i (base + i) it
      have ht := numReads_tail opn
      simp only [numReads] at this ht
      simp only [hn, he, numReads, List.append_assoc, countP_append, this, ht]; simp
    | hijack =>
      rw [hn] at hag
      have he : endsConn sd it = true := by simpa using hag
      have := numReads_item sd s i (base + i) it
      have ht := numReads_tail opn
      simp only [numReads] at this ht
      simp only [hn, he, numReads, List.append_assoc, countP_append, this, ht]; simp

/-! ### Security state -/

/-- `handle` is given the decrypted connection and the session holds it (the `secure` flag itself is
re-derived from the connection on every request, whatever a modifier did to it). -/
def Sec (s : St) : Prop := s.connTls = true ∧ s.sessTls = true
def Plain (s : St) : Prop := s.secure = false ∧ s.connTls = false ∧ s.sessTls = false

def isTlsMitm : Item → Bool | .connectMitm true _ _ => true | _ => false

theorem again_sec (sd : Bool) (s s' : St) (i c : Nat) (it : Item) (hs : Sec s)
    (h : (handleItem sd s i c it).2 = .again s') : Sec s' := by
  obtain ⟨h2, h3⟩ := hs
  revert h
  item_cases it then
    (first
      | (intro h; subst h; simp [Sec, *])
      | (intro h; split at h <;> first | contradiction | (injection h with h; subst h; simp [Sec, *]))
      | skip)

theorem again_plain (sd : Bool) (s s' : St) (i c : Nat) (it : Item) (hs : Plain s) (hm : isTlsMitm it = false)
    (h : (handleItem sd s i c it).2 = .again s') : Plain s' := by
  obtain ⟨h1, h2, h3⟩ := hs
  revert h hm
  item_cases it then
    (first
      | (intro hm; simp [isTlsMitm] at hm; done)
      | (intro hm h; subst h; simp [Plain, *])
      | (intro h; subst h; simp [Plain, *])
      | (intro hm h; split at h <;> first | contradiction | (injection h with h; subst h; simp [Plain, *]))
      | (intro h; split at h <;> first | contradiction | (injection h with h; subst h; simp [Plain, *]))
      | (simp [isTlsMitm])
      | skip)

theorem mitm_again_sec (sd : Bool) (s s' : St) (i c : Nat) (rq : ReqB) (rs : ResB)
    (h : (handleItem sd s i c (.connectMitm true rq rs)).2 = .again s') : Sec s' := by
  revert h
  cases rq <;> cases rs <;> simp [handleItem, handleMitm, Sec] <;> (intro h; subst h; simp)

theorem at?_sec (sd : Bool) (base : Nat) (s : St) (i : Nat) (items : List Item) (k : Nat) (s' : St) (it : Item)
    (hs : Sec s) (h : at? sd base s i items k = some (s', it)) : Sec s' := by
  induction items generalizing s i with
  | nil => simp [at?] at h
  | cons x rest ih =>
    simp only [at?] at h
    by_cases hk : k = i
    · simp only [hk, if_true, Option.some.injEq, Prod.mk.injEq] at h; obtain ⟨rfl, _⟩ := h; exact hs
    · simp only [hk, if_false] at h
      split at h
      · rename_i s2 heq; exact ih _ _ (again_sec sd s s2 i _ x hs heq) h
      · simp at h

/-- Once a TLS MITM CONNECT at index `j` has been served, every later request of the connection is
handled in the fully secure state. -/
theorem at?_after_mitm (sd : Bool) (base : Nat) (s : St) (i : Nat) (items : List Item) (j k : Nat)
    (s' : St) (it : Item) (rq : ReqB) (rs : ResB)
    (hij : i ≤ j) (hjk : j < k) (hj : items[j - i]? = some (.connectMitm true rq rs))
    (h : at? sd base s i items k = some (s', it)) : Sec s' := by
  induction items generalizing s i with
  | nil => simp [at?] at h
  | cons x rest ih =>
    simp only [at?] at h
    have hk : k ≠ i := by omega
    simp only [hk, if_false] at h
    split at h
    · rename_i s2 heq
      by_cases hji : j = i
      · subst hji
        simp at hj; subst hj
        exact at?_sec sd base s2 (j + 1) rest k s' it (mitm_again_sec sd s s2 j _ rq rs heq) h
      · refine ih s2 (i + 1) (by omega) ?_ h
        have : j - i = (j - (i + 1)) + 1 := by omega
        rw [this] at hj; simpa using hj
    · simp at h

theorem at?_plain (sd : Bool) (base : Nat) (s : St) (i : Nat) (items : List Item) (k : Nat) (s' : St) (it : Item)
    (hs : Plain s) (hno : ∀ j, j < k - i → ∀ x, items[j]? = some x → isTlsMitm x = false)
    (h : at? sd base s i items k = some (s', it)) : Plain s' := by
  induction items generalizing s i with
  | nil => simp [at?] at h
  | cons x rest ih =>
    simp only [at?] at h
    by_cases hk : k = i
    · simp only [hk, if_true, Option.some.injEq, Prod.mk.injEq] at h; obtain ⟨rfl, _⟩ := h; exact hs
    · simp only [hk, if_false] at h
      split at h
      · rename_i s2 heq
        have hik : i < k := by
          have := at?_lt sd base s2 (i + 1) rest k
          rcases Nat.lt_or_ge i k with hc | hc
          · exact hc
          · rw [this (by omega)] at h; simp at h
        have hx : isTlsMitm x = false := hno 0 (by omega) x (by simp)
        refine ih s2 (i + 1) (again_plain sd s s2 i _ x hs hx heq) ?_ h
        intro j hj y hy
        exact hno (j + 1) (by omega) y (by simpa using hy)
      · simp at h

end Martian.Proxy

namespace Martian.Proxy

/-! ### Which TLS session a request is attributed to -/

/-- The TLS session in force when the request with index `k` is read, for a script whose first item
has index `i` and is read on session `t`: every MITM CONNECT whose tunnel starts with a handshake
opens a session of its own (`j + 2` for the CONNECT with index `j`), nested in the previous one. -/
def tidAt (i t : Nat) : List Item → Nat → Nat
  | [], _ => t
  | it :: rest, k => if k ≤ i then t else tidAt (i + 1) (if isTlsMitm it then i + 2 else t) rest k

/-- One step of the loop: the connection `handle` is given next, and its TLS session. -/
theorem again_tls (sd : Bool) (s s' : St) (i c : Nat) (it : Item)
    (h : (handleItem sd s i c it).2 = .again s') :
    s'.connTls = (s.connTls || isTlsMitm it) ∧ s'.tlsId = (if isTlsMitm it then i + 2 else s.tlsId) := by
  revert h
  item_cases it then
    (first
      | (intro h; subst h; simp [isTlsMitm])
      | (intro h; split at h <;> first | contradiction | (injection h with h; subst h; simp [isTlsMitm]))
      | skip)

theorem at?_tls (sd : Bool) (base : Nat) (s : St) (i : Nat) (items : List Item) (k : Nat) (s' : St) (it : Item)
    (h : at? sd base s i items k = some (s', it)) :
    s'.tlsId = tidAt i s.tlsId items k ∧ (s.connTls = true → s'.connTls = true) := by
  induction items generalizing s i with
  | nil => simp [at?] at h
  | cons x rest ih =>
    simp only [at?] at h
    by_cases hk : k = i
    · simp only [hk, if_true, Option.some.injEq, Prod.mk.injEq] at h
      obtain ⟨rfl, _⟩ := h
      simp [tidAt, hk]
    · simp only [hk, if_false] at h
      split at h
      · rename_i s2 heq
        have hik : i < k := by
          rcases Nat.lt_or_ge i k with hc | hc
          · exact hc
          · rw [at?_lt sd base s2 (i + 1) rest k (by omega)] at h; simp at h
        obtain ⟨h1, h2⟩ := again_tls sd s s2 i _ x heq
        obtain ⟨ih1, ih2⟩ := ih s2 (i + 1) h
        refine ⟨?_, ?_⟩
        · have : ¬ k ≤ i := by omega
          simp only [tidAt, this, if_false]
          rw [ih1, h2]
        · intro hc; apply ih2; rw [h1, hc]; rfl
      · simp at h

/-- After the TLS MITM CONNECT with index `j`, and as long as no further one follows, requests are
read on session `j + 2`. -/
theorem tidAt_after (i t : Nat) (items : List Item) (j k : Nat) (hij : i ≤ j) (hjk : j < k)
    (hj : ∃ x, items[j - i]? = some x ∧ isTlsMitm x = true)
    (hno : ∀ m, j < m → m < k → ∀ x, items[m - i]? = some x → isTlsMitm x = false) :
    tidAt i t items k = j + 2 := by
  induction items generalizing i t with
  | nil => obtain ⟨x, hx, _⟩ := hj; simp at hx
  | cons y rest ih =>
    have hki : ¬ k ≤ i := by omega
    simp only [tidAt, hki, if_false]
    by_cases hji : j = i
    · subst hji
      obtain ⟨x, hx, hm⟩ := hj
      simp at hx; subst hx
      simp only [hm, if_true]
      -- no further TLS CONNECT before k: the session stays
      clear ih
      suffices hs : ∀ (l : List Item) (i' : Nat), j < i' →
          (∀ m, i' ≤ m → m < k → ∀ x, l[m - i']? = some x → isTlsMitm x = false) →
          tidAt i' (j + 2) l k = j + 2 by
        refine hs rest (j + 1) (by omega) ?_
        intro m hm1 hm2 x hx
        refine hno m (by omega) hm2 x ?_
        have : m - j = (m - (j + 1)) + 1 := by omega
        rw [this]; simpa using hx
      intro l
      induction l with
      | nil => intros; rfl
      | cons z r ihl =>
        intro i' hi' hno'
        simp only [tidAt]
        split
        · rfl
        · rename_i hk'
          have hz : isTlsMitm z = false := hno' i' (by omega) (by omega) z (by simp)
          simp only [hz]
          refine ihl (i' + 1) (by omega) ?_
          intro m hm1 hm2 x hx
          refine hno' m (by omega) hm2 x ?_
          have : m - i' = (m - (i' + 1)) + 1 := by omega
          rw [this]; simpa using hx
    · refine ih (i + 1) _ (by omega) ?_ ?_
      · obtain ⟨x, hx, hm⟩ := hj
        refine ⟨x, ?_, hm⟩
        have : j - i = (j - (i + 1)) + 1 := by omega
        rw [this] at hx; simpa using hx
      · intro m hm1 hm2 x hx
        refine hno m hm1 hm2 x ?_
        have : m - i = (m - (i + 1)) + 1 := by omega
        rw [this]; simpa using hx

/-- Without any TLS MITM CONNECT before it, a request is read on the session the connection started on. -/
theorem tidAt_none (i t : Nat) (items : List Item) (k : Nat)
    (hno : ∀ m, i ≤ m → m < k → ∀ x, items[m - i]? = some x → isTlsMitm x = false) :
    tidAt i t items k = t := by
  induction items generalizing i with
  | nil => rfl
  | cons z r ih =>
    simp only [tidAt]
    split
    · rfl
    · have hz : isTlsMitm z = false := hno i (by omega) (by omega) z (by simp)
      simp only [hz]
      refine ih (i + 1) ?_
      intro m hm1 hm2 x hx
      refine hno m (by omega) hm2 x ?_
      have : m - i = (m - (i + 1)) + 1 := by omega
      rw [this]; simpa using hx

end Martian.Proxy

namespace Martian.Proxy

/-! ### Session storage -/

/-- One step of the loop keeps every value stored so far and adds the one of this request - also
across a TLS upgrade (`setConn`), a failed handshake and a modifier's `MarkInsecure`. -/
theorem again_stored (sd : Bool) (s s' : St) (i c : Nat) (it : Item)
    (h : (handleItem sd s i c it).2 = .again s') : s'.stored = s.stored + 1 := by
  revert h
  item_cases it then
    (first
      | (intro h; subst h; simp)
      | (intro h; split at h <;> first | contradiction | (injection h with h; subst h; simp))
      | skip)

theorem at?_stored (sd : Bool) (base : Nat) (s : St) (i : Nat) (items : List Item) (k : Nat) (s' : St) (it : Item)
    (h : at? sd base s i items k = some (s', it)) : s'.stored = s.stored + (k - i) := by
  induction items generalizing s i with
  | nil => simp [at?] at h
  | cons x rest ih =>
    simp only [at?] at h
    by_cases hk : k = i
    · simp only [hk, if_true, Option.some.injEq, Prod.mk.injEq] at h
      obtain ⟨rfl, _⟩ := h
      simp [hk]
    · simp only [hk, if_false] at h
      split at h
      · rename_i s2 heq
        have hik : i < k := by
          rcases Nat.lt_or_ge i k with hc | hc
          · exact hc
          · rw [at?_lt sd base s2 (i + 1) rest k (by omega)] at h; simp at h
        rw [ih s2 (i + 1) h, again_stored sd s s2 i _ x heq]; omega
      · simp at h

end Martian.Proxy
