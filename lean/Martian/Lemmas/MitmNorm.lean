import Martian.Lemmas.MitmHost
/-!
Helper lemmas for host normalisation (C06, core Lean only): positions of the last colon and the first
`]`, `net.SplitHostPort` on the spellings `host:port`, `[v6]:port`, bare names and bare IPv6 literals,
and its commutation with ASCII case mapping.
-/
namespace Martian.Mitm
open Martian Martian.Go

/-! ### positions -/

theorem idxOf_append_cons_of_not_mem {c : UInt8} : ∀ {x : Bytes} (y : Bytes), c ∉ x → (x ++ c :: y).idxOf c = x.length
  | [], y, _ => by simp
  | a :: x, y, h => by
    have ha : a ≠ c := fun e => h (by simp [e])
    have hx : c ∉ x := fun e => h (by simp [e])
    have hb : (a == c) = false := by simpa using ha
    simp [List.idxOf_cons, hb, idxOf_append_cons_of_not_mem y hx]

theorem idxOf_of_not_mem {c : UInt8} : ∀ {x : Bytes}, c ∉ x → x.idxOf c = x.length
  | [], _ => by simp
  | a :: x, h => by
    have ha : a ≠ c := fun e => h (by simp [e])
    have hx : c ∉ x := fun e => h (by simp [e])
    have hb : (a == c) = false := by simpa using ha
    simp [List.idxOf_cons, hb, idxOf_of_not_mem hx]

theorem indexOf_append_cons {c : UInt8} {x : Bytes} (y : Bytes) (h : c ∉ x) : indexOf (x ++ c :: y) c = some x.length := by
  unfold indexOf
  simp only [idxOf_append_cons_of_not_mem y h]
  simp

theorem lastIndexOf_append_cons {c : UInt8} (x : Bytes) {y : Bytes} (h : c ∉ y) :
    lastIndexOf (x ++ c :: y) c = some x.length := by
  unfold lastIndexOf
  have hr : (x ++ c :: y).reverse = y.reverse ++ c :: x.reverse := by simp
  have hy : c ∉ y.reverse := by simpa using h
  rw [hr, idxOf_append_cons_of_not_mem _ hy]
  simp only [List.length_reverse, List.length_append, List.length_cons]
  have : y.length < x.length + (y.length + 1) := by omega
  simp only [this, if_true, Option.some.injEq]
  omega

theorem lastIndexOf_of_not_mem {c : UInt8} {x : Bytes} (h : c ∉ x) : lastIndexOf x c = none := by
  unfold lastIndexOf
  have hy : c ∉ x.reverse := by simpa using h
  rw [idxOf_of_not_mem hy]
  simp

/-- Split a list at the last occurrence of `c`. -/
theorem exists_last_split {c : UInt8} : ∀ {l : Bytes}, c ∈ l → ∃ x y, l = x ++ c :: y ∧ c ∉ y
  | [], h => by simp at h
  | a :: r, h => by
    by_cases hr : c ∈ r
    · obtain ⟨x, y, e, hy⟩ := exists_last_split hr
      exact ⟨a :: x, y, by simp [e], hy⟩
    · have : c = a := by
        rcases List.mem_cons.mp h with e | e
        · exact e
        · exact absurd e hr
      subst this
      exact ⟨[], r, rfl, hr⟩

theorem contains_false_of_not_mem {l : Bytes} {c : UInt8} (h : c ∉ l) : l.contains c = false := by
  cases hc : l.contains c
  · rfl
  · exact absurd (List.contains_iff_mem.mp hc) h

/-! ### net.SplitHostPort on the listed spellings -/

/-- `host:port` — host and port free of `:`, `[`, `]`. -/
theorem splitHostPort_host_port {d p : Bytes}
    (d1 : colon ∉ d) (d2 : lbr ∉ d) (d3 : rbr ∉ d) (p1 : colon ∉ p) (p2 : lbr ∉ p) (p3 : rbr ∉ p) :
    splitHostPort (d ++ colon :: p) = some (d, p) := by
  unfold splitHostPort
  rw [lastIndexOf_append_cons d p1]
  simp only
  have hhead : (d ++ colon :: p).head? ≠ some lbr := by
    cases d with
    | nil => simp only [List.nil_append, List.head?_cons, ne_eq, Option.some.injEq]; decide
    | cons a r =>
      simp only [List.cons_append, List.head?_cons, ne_eq, Option.some.injEq]
      intro e; exact d2 (by simp [e])
  rw [if_neg hhead]
  have ht : (d ++ colon :: p).take d.length = d := by simp
  have hdrop : (d ++ colon :: p).drop (d.length + 1) = p := by
    rw [show d ++ colon :: p = (d ++ [colon]) ++ p by simp]
    rw [List.drop_left' (by simp)]
  have hl : lbr ∉ d ++ colon :: p := by
    simp only [List.mem_append, List.mem_cons, not_or]
    exact ⟨d2, by decide, p2⟩
  have hr : rbr ∉ d ++ colon :: p := by
    simp only [List.mem_append, List.mem_cons, not_or]
    exact ⟨d3, by decide, p3⟩
  have c1 : lbr ≠ colon := by decide
  have c2 : rbr ≠ colon := by decide
  simp [ht, hdrop, d1, d2, d3, p2, p3, c1, c2]

/-- `[addr]:port` — the address free of `[`, `]` (colons allowed), the port free of `:`, `[`, `]`. -/
theorem splitHostPort_bracketed {a p : Bytes}
    (a2 : lbr ∉ a) (a3 : rbr ∉ a) (p1 : colon ∉ p) (p2 : lbr ∉ p) (p3 : rbr ∉ p) :
    splitHostPort (lbr :: a ++ rbr :: colon :: p) = some (a, p) := by
  unfold splitHostPort
  have e1 : lbr :: a ++ rbr :: colon :: p = (lbr :: a ++ [rbr]) ++ colon :: p := by simp
  have hlast : lastIndexOf (lbr :: a ++ rbr :: colon :: p) colon = some (a.length + 2) := by
    rw [e1, lastIndexOf_append_cons _ p1]; simp
  rw [hlast]
  simp only [List.cons_append, List.head?_cons, if_true]
  have hidx : indexOf (lbr :: (a ++ rbr :: colon :: p)) rbr = some (a.length + 1) := by
    have : rbr ∉ lbr :: a := by
      simp only [List.mem_cons, not_or]; exact ⟨by decide, a3⟩
    have := indexOf_append_cons (colon :: p) this
    simpa using this
  rw [hidx]
  simp only [List.length_cons, List.length_append]
  have n1 : ¬ (a.length + 1 + 1 = a.length + (p.length + 1 + 1) + 1) := by omega
  rw [if_neg n1]
  simp only [if_true]
  have hd1 : lbr ∉ a ++ rbr :: colon :: p := by
    simp only [List.mem_append, List.mem_cons, not_or]
    exact ⟨a2, by decide, by decide, p2⟩
  have hdrop2 : (lbr :: (a ++ rbr :: colon :: p)).drop (a.length + 1 + 1) = colon :: p := by
    rw [show lbr :: (a ++ rbr :: colon :: p) = (lbr :: a ++ [rbr]) ++ colon :: p by simp]
    rw [List.drop_left' (by simp)]
  have hd2 : rbr ∉ colon :: p := by
    simp only [List.mem_cons, not_or]; exact ⟨by decide, p3⟩
  have hdrop3 : (lbr :: (a ++ rbr :: colon :: p)).drop (a.length + 2 + 1) = p := by
    rw [show lbr :: (a ++ rbr :: colon :: p) = (lbr :: a ++ [rbr, colon]) ++ p by simp]
    rw [List.drop_left' (by simp)]
  have c1 : lbr ≠ colon := by decide
  have c2 : rbr ≠ colon := by decide
  have c3 : lbr ≠ rbr := by decide
  rw [hdrop2, hdrop3]
  simp [a2, p2, p3, c1, c2, c3]

/-- No colon at all — "missing port". -/
theorem splitHostPort_no_colon {h : Bytes} (hc : colon ∉ h) : splitHostPort h = none := by
  unfold splitHostPort
  rw [lastIndexOf_of_not_mem hc]

/-- Two or more colons and no leading `[` — "too many colons": whatever the groups look like (in
particular when the last group is all digits) nothing is cut off. -/
theorem splitHostPort_two_colons {h : Bytes} (hh : h.head? ≠ some lbr) (h2 : 2 ≤ h.count colon) :
    splitHostPort h = none := by
  have hm : colon ∈ h := by
    apply List.count_pos_iff.mp; omega
  obtain ⟨x, y, e, hy⟩ := exists_last_split hm
  have hx : colon ∈ x := by
    apply List.count_pos_iff.mp
    have : h.count colon = x.count colon + 1 + y.count colon := by
      rw [e]; simp [List.count_append]; omega
    have hy0 : y.count colon = 0 := List.count_eq_zero.mpr hy
    omega
  unfold splitHostPort
  rw [e, lastIndexOf_append_cons x hy]
  simp only
  rw [← e, if_neg hh]
  have ht : h.take x.length = x := by rw [e]; simp
  simp [ht, hx]

/-! ### case mapping -/

/-- A byte map that neither creates nor destroys `:`, `[`, `]` (ASCII lower/upper-casing). -/
structure KeepsDelims (f : UInt8 → UInt8) : Prop where
  colon : ∀ c, (f c == colon) = (c == colon)
  lbr : ∀ c, (f c == lbr) = (c == lbr)
  rbr : ∀ c, (f c == rbr) = (c == rbr)

theorem idxOf_map {f : UInt8 → UInt8} {x : UInt8} (hf : ∀ c, (f c == x) = (c == x)) : ∀ (l : Bytes), (l.map f).idxOf x = l.idxOf x
  | [] => rfl
  | a :: l => by simp [List.idxOf_cons, hf, idxOf_map hf l]

theorem contains_map {f : UInt8 → UInt8} {x : UInt8} (hf : ∀ c, (f c == x) = (c == x)) (l : Bytes) :
    (l.map f).contains x = l.contains x := by
  have hf' : ∀ c, f c = x ↔ c = x := by
    intro c
    have := hf c
    rw [Bool.eq_iff_iff] at this
    simpa using this
  rw [Bool.eq_iff_iff, List.contains_iff_mem, List.contains_iff_mem, List.mem_map]
  constructor
  · rintro ⟨a, ha, e⟩; rw [(hf' a).mp e] at ha; exact ha
  · intro hx; exact ⟨x, hx, (hf' x).mpr rfl⟩

theorem indexOf_map {f : UInt8 → UInt8} {x : UInt8} (hf : ∀ c, (f c == x) = (c == x)) (l : Bytes) :
    indexOf (l.map f) x = indexOf l x := by
  simp [indexOf, idxOf_map hf]

theorem lastIndexOf_map {f : UInt8 → UInt8} {x : UInt8} (hf : ∀ c, (f c == x) = (c == x)) (l : Bytes) :
    lastIndexOf (l.map f) x = lastIndexOf l x := by
  simp [lastIndexOf, ← List.map_reverse, idxOf_map hf]

theorem head?_map_eq {f : UInt8 → UInt8} {x : UInt8} (hf : ∀ c, (f c == x) = (c == x)) (l : Bytes) :
    ((l.map f).head? = some x) ↔ (l.head? = some x) := by
  cases l with
  | nil => simp
  | cons a r =>
    have := hf a
    rw [Bool.eq_iff_iff] at this
    simpa using this

theorem splitHostPort_map {f : UInt8 → UInt8} (hf : KeepsDelims f) (h : Bytes) :
    splitHostPort (h.map f) = (splitHostPort h).map (fun ap => (ap.1.map f, ap.2.map f)) := by
  unfold splitHostPort
  rw [lastIndexOf_map hf.colon]
  cases lastIndexOf h colon with
  | none => rfl
  | some i =>
    simp only
    by_cases hb : h.head? = some lbr
    · rw [if_pos hb, if_pos ((head?_map_eq hf.lbr h).mpr hb), indexOf_map hf.rbr]
      cases indexOf h rbr with
      | none => rfl
      | some e =>
        simp only [List.length_map, ← List.map_drop, contains_map hf.lbr, contains_map hf.rbr, ← List.map_take]
        split
        · rfl
        · split
          · split
            · rfl
            · split <;> rfl
          · rfl
    · rw [if_neg hb, if_neg (fun e => hb ((head?_map_eq hf.lbr h).mp e))]
      simp only [← List.map_drop, contains_map hf.colon, contains_map hf.lbr, contains_map hf.rbr, ← List.map_take]
      split
      · rfl
      · split
        · rfl
        · split <;> rfl

theorem keepsDelims_toLowerB : KeepsDelims toLowerB :=
  ⟨fun _ => beq_toLowerB (fun _ => toLowerB_eq_colon), fun _ => beq_toLowerB (fun _ => toLowerB_eq_lbr),
   fun _ => beq_toLowerB (fun _ => toLowerB_eq_rbr)⟩

theorem normalise_map {f : UInt8 → UInt8} (hf : KeepsDelims f) (h : Bytes) : normalise (h.map f) = (normalise h).map f := by
  unfold normalise
  rw [splitHostPort_map hf]
  cases splitHostPort h with
  | none => rfl
  | some ap => rfl

/-! ### an IP literal has no port to strip -/

theorem mapM_some {α β : Type} (f : α → Option β) : ∀ (l : List α) (r : List β), l.mapM f = some r →
    r.length = l.length ∧ ∀ x ∈ l, ∃ y, f x = some y
  | [], r, h => by simp at h; subst h; simp
  | a :: l, r, h => by
    simp only [List.mapM_cons] at h
    cases hfa : f a with
    | none => simp [hfa] at h
    | some b =>
      cases hl : l.mapM f with
      | none => simp [hfa, hl] at h
      | some r' =>
        simp [hfa, hl] at h
        subst h
        have ih := mapM_some f l r' hl
        refine ⟨by simp [ih.1], ?_⟩
        intro x hx
        rcases List.mem_cons.mp hx with e | e
        · subst e; exact ⟨b, hfa⟩
        · exact ih.2 x e

theorem count_drop_one_of_head {l : Bytes} {c : UInt8} (h : l.head? = some c) : l.count c = (l.drop 1).count c + 1 := by
  cases l with
  | nil => simp at h
  | cons a r =>
    simp only [List.head?_cons, Option.some.injEq] at h
    subst h
    simp

theorem count_drop_le (l : Bytes) (n : Nat) (c : UInt8) : (l.drop n).count c ≤ l.count c :=
  (List.drop_sublist n l).count_le c

theorem parseV4Fields_length {s : Bytes} {f : List UInt8} (h : parseV4Fields s = some f) : f.length = 4 := by
  unfold parseV4Fields at h
  simp only at h
  split at h
  · cases h
  · rename_i hl
    have := (mapM_some v4Field _ _ h).1
    omega

theorem v6Loop_inv : ∀ (fuel : Nat) (s : Bytes) (acc : List UInt8) (ell : Option Nat) (rest : Bytes) (acc' : List UInt8) (ell' : Option Nat),
    v6Loop fuel s acc ell = some (rest, acc', ell') →
    acc'.length ≤ acc.length + 2 * s.count colon + 4 ∧ (ell = none → ell'.isSome → 2 ≤ s.count colon) := by
  intro fuel
  induction fuel with
  | zero =>
    intro s acc ell rest acc' ell' h
    simp [v6Loop] at h
    obtain ⟨_, rfl, rfl⟩ := h
    constructor
    · omega
    · intro e1 e2; subst e1; simp at e2
  | succ n ih =>
    intro s acc ell rest acc' ell' h
    unfold v6Loop at h
    simp only at h
    split at h
    · simp only [Option.some.injEq, Prod.mk.injEq] at h
      obtain ⟨_, rfl, rfl⟩ := h
      constructor
      · omega
      · intro e1 e2; subst e1; simp at e2
    · split at h
      · cases h
      · split at h
        · split at h
          · cases h
          · split at h
            · cases h
            · cases hp : parseV4Fields s with
              | none => rw [hp] at h; cases h
              | some f =>
                rw [hp] at h
                simp only [Option.some.injEq, Prod.mk.injEq] at h
                obtain ⟨_, rfl, rfl⟩ := h
                have := parseV4Fields_length hp
                constructor
                · simp only [List.length_append]; omega
                · intro e1 e2; subst e1; simp at e2
        · have hle := count_drop_le s (List.takeWhile isHex s).length colon
          generalize hrs : List.drop (List.takeWhile isHex s).length s = rs at h hle
          generalize hacc2 : acc ++ [UInt8.ofNat (List.foldl (fun a c => a * 16 + hexNib c) 0 (List.takeWhile isHex s) / 256),
              UInt8.ofNat (List.foldl (fun a c => a * 16 + hexNib c) 0 (List.takeWhile isHex s) % 256)] = acc2 at h
          have hlen : acc2.length = acc.length + 2 := by rw [← hacc2]; simp
          split at h
          · simp only [Option.some.injEq, Prod.mk.injEq] at h
            obtain ⟨_, rfl, rfl⟩ := h
            constructor
            · omega
            · intro e1 e2; subst e1; simp at e2
          · split at h
            · cases h
            · rename_i hcol
              have hcol' : rs.head? = some colon := by simpa using hcol
              have c1 := count_drop_one_of_head hcol'
              split at h
              · cases h
              · split at h
                · rename_i hcol2
                  have c2 := count_drop_one_of_head hcol2
                  split at h
                  · cases h
                  · split at h
                    · simp only [Option.some.injEq, Prod.mk.injEq] at h
                      obtain ⟨_, rfl, rfl⟩ := h
                      constructor
                      · omega
                      · intro _ _; omega
                    · have := ih _ _ _ _ _ _ h
                      constructor
                      · omega
                      · intro _ _; omega
                · have := ih _ _ _ _ _ _ h
                  constructor
                  · omega
                  · intro e1 e2
                    have := this.2 e1 e2
                    omega

theorem mem_unsplit {sep x : UInt8} : ∀ {l : List Bytes}, x ∈ unsplit sep l → x = sep ∨ ∃ p ∈ l, x ∈ p
  | [], h => by simp [unsplit] at h
  | [a], h => by right; exact ⟨a, by simp, by simpa [unsplit] using h⟩
  | a :: b :: r, h => by
    simp only [unsplit, List.mem_append, List.mem_cons] at h
    rcases h with h | h | h
    · right; exact ⟨a, by simp, h⟩
    · left; exact h
    · rcases mem_unsplit h with e | ⟨p, hp, hx⟩
      · left; exact e
      · right; exact ⟨p, List.mem_cons_of_mem _ hp, hx⟩

theorem v4Field_digits {f : Bytes} {v : UInt8} (h : v4Field f = some v) : ∀ x ∈ f, isDigit x = true := by
  unfold v4Field at h
  split at h
  · cases h
  · rename_i hc
    simp only [Bool.or_eq_true, Bool.not_eq_true', not_or, Bool.not_eq_false] at hc
    exact List.all_eq_true.mp hc.2

theorem parseV4Fields_no_colon {s : Bytes} {f : List UInt8} (h : parseV4Fields s = some f) : colon ∉ s := by
  unfold parseV4Fields at h
  simp only at h
  split at h
  · cases h
  · have hall := (mapM_some v4Field _ _ h).2
    intro hm
    rw [← unsplit_split s dot] at hm
    rcases mem_unsplit hm with e | ⟨p, hp, hx⟩
    · exact absurd e (by decide)
    · obtain ⟨v, hv⟩ := hall p hp
      have := v4Field_digits hv colon hx
      exact absurd this (by decide)

theorem v6Loop_head {n : Nat} {s : Bytes} {ell : Option Nat} {r : Bytes × List UInt8 × Option Nat}
    (h : v6Loop (n + 1) s [] ell = some r) : ∃ c t, s = c :: t ∧ isHex c = true := by
  unfold v6Loop at h
  simp only at h
  split at h
  · rename_i h16; simp at h16
  · split at h
    · cases h
    · rename_i hoff
      simp only [Bool.or_eq_true, decide_eq_true_eq, not_or] at hoff
      cases s with
      | nil => simp at hoff
      | cons c t =>
        refine ⟨c, t, rfl, ?_⟩
        cases hc : isHex c
        · simp [hc] at hoff
        · rfl

theorem parseV6_shape {s : Bytes} {ip : IP} (h : parseV6 s = some ip) : s.head? ≠ some lbr ∧ 2 ≤ s.count colon := by
  unfold parseV6 at h
  simp only at h
  cases hl : (s.take 2 == [colon, colon]) with
  | true =>
    have : s.take 2 = [colon, colon] := by simpa using hl
    match s, this with
    | a :: b :: t, this =>
      simp only [List.take_succ_cons, List.take_zero, List.cons.injEq, and_true] at this
      obtain ⟨rfl, rfl⟩ := this
      constructor
      · simp only [List.head?_cons, ne_eq, Option.some.injEq]; decide
      · simp
  | false =>
    rw [hl] at h
    simp only [Bool.false_eq_true, if_false, Bool.false_and] at h
    cases hv : v6Loop 9 s [] none with
    | none => rw [hv] at h; cases h
    | some r =>
      obtain ⟨rest, acc, ell⟩ := r
      obtain ⟨c, t, hs, hc⟩ := v6Loop_head hv
      have hinv := v6Loop_inv 9 s [] none rest acc ell hv
      rw [hv] at h
      simp only at h
      constructor
      · rw [hs]
        simp only [List.head?_cons, ne_eq, Option.some.injEq]
        intro e; rw [e] at hc; exact absurd hc (by decide)
      · split at h
        · cases h
        · split at h
          · cases hell : ell with
            | none => rw [hell] at h; cases h
            | some e => exact hinv.2 rfl (by simp [hell])
          · rename_i hlen
            have := hinv.1
            simp only [List.length_nil] at this
            omega

/-- An IP literal is never touched by `net.SplitHostPort`: an IPv4 literal has no colon ("missing
port"), an IPv6 literal has at least two and no leading bracket ("too many colons"). -/
theorem splitHostPort_of_parseIP {s : Bytes} {ip : IP} (h : parseIP s = some ip) : splitHostPort s = none := by
  unfold parseIP at h
  split at h
  · cases h
  · split at h
    · cases h
    · split at h
      · cases hp : parseV4Fields s with
        | none => rw [hp] at h; cases h
        | some f => exact splitHostPort_no_colon (parseV4Fields_no_colon hp)
      · obtain ⟨h1, h2⟩ := parseV6_shape h
        exact splitHostPort_two_colons h1 h2

end Martian.Mitm
