import Martian.Model.Grpc
/-! Helper lemmas for C11 (core Lean only). -/
namespace Martian.Grpc
open Martian

theorem be32_append (xs b : Bytes) (h : 4 ≤ xs.length) : be32 (xs ++ b) = be32 xs := by
  match xs, h with
  | a :: b' :: c :: d :: _, _ => simp [be32]

theorem be32_putBe32 (n : Nat) (h : n < 4294967296) (rest : Bytes) : be32 (putBe32 n ++ rest) = n := by
  simp [be32, putBe32]
  omega

/-! ### 32-bit arithmetic -/

theorem u32_of_lt {n : Nat} (h : n < 4294967296) : u32 n = n := Nat.mod_eq_of_lt h

theorem u32_le (n : Nat) : u32 n ≤ n := Nat.mod_le _ _

theorem u32_lt (n : Nat) : u32 n < 4294967296 := Nat.mod_lt _ (by decide)

/-- `uint32` wrap-around: 2^32 more bytes in the buffer are invisible to the comparison -/
theorem u32_add_wrap (n : Nat) : u32 (n + 4294967296) = u32 n := by simp [u32]

/-- whatever the four prefix bytes are, the length read from them fits the `uint32` field -/
theorem be32_lt (b : Bytes) : be32 b < 4294967296 := by
  have h0 := (b.getD 0 0).toNat_lt
  have h1 := (b.getD 1 0).toNat_lt
  have h2 := (b.getD 2 0).toNat_lt
  have h3 := (b.getD 3 0).toNat_lt
  simp only [be32]
  omega

/-- `binary.Write(.., uint32(n))` writes the truncated value -/
theorem putBe32_u32 (n : Nat) : putBe32 (u32 n) = putBe32 n := by
  simp only [putBe32, u32]
  have e1 : n % 4294967296 / 16777216 % 256 = n / 16777216 % 256 := by omega
  have e2 : n % 4294967296 / 65536 % 256 = n / 65536 % 256 := by omega
  have e3 : n % 4294967296 / 256 % 256 = n / 256 % 256 := by omega
  have e4 : n % 4294967296 % 256 = n % 256 := by omega
  rw [e1, e2, e3, e4]

/-- what a reader finds in a written prefix is the length modulo 2^32 -/
theorem be32_putBe32_u32 (n : Nat) (rest : Bytes) : be32 (putBe32 n ++ rest) = u32 n := by
  rw [← putBe32_u32, be32_putBe32 _ (u32_lt n)]

theorem putBe32_length (n : Nat) : (putBe32 n).length = 4 := by simp [putBe32]

/-! ### unfolding equations of the loop, one per branch -/

def Adapter.afterMsg (a : Adapter) : Adapter := { a with buf := a.buf.drop a.length, reading := false }

def Adapter.afterPrefix (a : Adapter) : Adapter :=
  { a with compressed := a.buf.getD 0 0 > 0, length := be32 (a.buf.drop 1), buf := a.buf.drop 5, reading := true }

theorem loop_reading_lt (cd : Codec) (es : Bool) (a : Adapter) (hr : a.reading = true)
    (h : a.buf.length < a.length) : loop cd es a = ⟨[], some a⟩ := by
  conv => lhs; rw [loop]
  simp [hr, h]

theorem loop_reading_err (cd : Codec) (es : Bool) (a : Adapter) (hr : a.reading = true)
    (h : a.length ≤ a.buf.length) (hd : decode cd a.enc a.compressed (a.buf.take a.length) = none) :
    loop cd es a = ⟨[], none⟩ := by
  conv => lhs; rw [loop]
  simp [hr, Nat.not_lt.mpr h, hd]

theorem loop_reading_last (cd : Codec) (es : Bool) (a : Adapter) (hr : a.reading = true)
    (h : a.length ≤ a.buf.length) (d : Bytes) (hd : decode cd a.enc a.compressed (a.buf.take a.length) = some d)
    (he : a.buf.drop a.length = []) :
    loop cd es a = ⟨[⟨a.compressed, d, es⟩], some a.afterMsg⟩ := by
  conv => lhs; rw [loop]
  simp [hr, Nat.not_lt.mpr h, hd, he, Adapter.afterMsg]

theorem loop_reading_more (cd : Codec) (es : Bool) (a : Adapter) (hr : a.reading = true)
    (h : a.length ≤ a.buf.length) (d : Bytes) (hd : decode cd a.enc a.compressed (a.buf.take a.length) = some d)
    (he : a.buf.drop a.length ≠ []) :
    loop cd es a = Res.cons ⟨a.compressed, d, false⟩ (loop cd es a.afterMsg) := by
  have he' : (a.buf.drop a.length).isEmpty = false := by
    cases hb : a.buf.drop a.length <;> simp_all
  conv => lhs; rw [loop]
  simp [hr, Nat.not_lt.mpr h, hd, he', Adapter.afterMsg]

theorem loop_meta_lt (cd : Codec) (es : Bool) (a : Adapter) (hr : a.reading = false)
    (h : a.buf.length < 5) :
    loop cd es a = ⟨if es && a.buf.isEmpty then [⟨a.compressed, [], true⟩] else [], some a⟩ := by
  conv => lhs; rw [loop]
  simp [hr, h]

theorem loop_meta_stop (cd : Codec) (es : Bool) (a : Adapter) (hr : a.reading = false)
    (h : 5 ≤ a.buf.length) (he : a.buf.drop 5 = []) (hl : be32 (a.buf.drop 1) ≠ 0) :
    loop cd es a = ⟨[], some a.afterPrefix⟩ := by
  have hne : a.buf.isEmpty = false := by cases hb : a.buf <;> simp_all
  rw [List.drop_one] at hl
  conv => lhs; rw [loop]
  simp [hr, Nat.not_lt.mpr h, he, hl, hne, Adapter.afterPrefix]

theorem loop_meta_go (cd : Codec) (es : Bool) (a : Adapter) (hr : a.reading = false)
    (h : 5 ≤ a.buf.length) (he : a.buf.drop 5 ≠ [] ∨ be32 (a.buf.drop 1) = 0) :
    loop cd es a = loop cd es a.afterPrefix := by
  have hne : a.buf.isEmpty = false := by cases hb : a.buf <;> simp_all
  conv => lhs; rw [loop]
  rcases he with he | he
  · have he' : (a.buf.drop 5).isEmpty = false := by
      cases hb : a.buf.drop 5 <;> simp_all
    simp [hr, Nat.not_lt.mpr h, he', hne, Adapter.afterPrefix]
  · rw [List.drop_one] at he
    simp [hr, Nat.not_lt.mpr h, he, hne, Adapter.afterPrefix]

/-! ### appending to the buffer commutes with the loop -/

theorem app_nil (a : Adapter) : a.app [] = a := by simp [Adapter.app]

theorem app_app (a : Adapter) (x y : Bytes) : (a.app x).app y = a.app (x ++ y) := by simp [Adapter.app]

theorem afterMsg_app (a : Adapter) (b : Bytes) (h : a.length ≤ a.buf.length) :
    (a.app b).afterMsg = a.afterMsg.app b := by
  simp [Adapter.afterMsg, Adapter.app, List.drop_append_of_le_length h]

theorem afterPrefix_app (a : Adapter) (b : Bytes) (h : 5 ≤ a.buf.length) :
    (a.app b).afterPrefix = a.afterPrefix.app b := by
  have e0 : (a.buf ++ b).getD 0 0 = a.buf.getD 0 0 := by
    cases hb : a.buf with
    | nil => simp [hb] at h
    | cons x xs => simp
  have e1 : be32 ((a.buf ++ b).drop 1) = be32 (a.buf.drop 1) := by
    rw [List.drop_append_of_le_length (by omega)]
    exact be32_append _ _ (by simp; omega)
  simp only [Adapter.afterPrefix, Adapter.app, e0, e1, List.drop_append_of_le_length h]

theorem cons_andThen (c : Call) (r : Res) (f : Adapter → Res) :
    (Res.cons c r).andThen f = Res.cons c (r.andThen f) := by
  cases r with
  | mk calls next => cases next <;> simp [Res.cons, Res.andThen]

theorem res_eta (r : Res) : (⟨r.calls, r.next⟩ : Res) = r := by cases r; rfl

theorem andThen_pure (a : Adapter) (f : Adapter → Res) : (⟨[], some a⟩ : Res).andThen f = f a := by
  simp [Res.andThen]

/-- Core of "streaming = batch": running the loop on `buffer ++ b` is running it on `buffer`
(not at end of stream) and then on what is left with `b` appended - unless the second step would
be an END_STREAM with nothing appended (that case is the empty end-of-stream frame). -/
theorem loop_app (cd : Codec) (es : Bool) (a : Adapter) (b : Bytes) (h : b ≠ [] ∨ es = false) :
    loop cd es (a.app b) = (loop cd false a).andThen (fun a' => loop cd es (a'.app b)) := by
  fun_induction loop cd false a with
  | case1 a hr hlt => simp [Res.andThen]
  | case2 a hr hlt hd =>
    have hle : a.length ≤ a.buf.length := Nat.le_of_not_lt hlt
    rw [loop_reading_err cd es (a.app b) (by simpa [Adapter.app] using hr) (by simp [Adapter.app]; omega)
      (by simpa [Adapter.app, List.take_append_of_le_length hle] using hd)]
    simp [Res.andThen]
  | case3 a hr hlt d hd a2 c he =>
    have hle : a.length ≤ a.buf.length := Nat.le_of_not_lt hlt
    have he' : a.buf.drop a.length = [] := by simpa [a2] using he
    have ha2 : a2 = a.afterMsg := rfl
    have hc : c = ⟨a.compressed, d, false⟩ := by simp [c]
    rw [ha2, hc]
    simp only [Res.andThen]
    cases b with
    | nil =>
      have hes : es = false := by simpa using h
      subst hes
      rw [app_nil, app_nil, loop_reading_last cd false a hr hle d hd he',
        loop_meta_lt cd false a.afterMsg (by simp [Adapter.afterMsg]) (by simp [Adapter.afterMsg, he'])]
      simp
    | cons x xs =>
      rw [loop_reading_more cd es (a.app (x :: xs)) (by simpa [Adapter.app] using hr) (by simp [Adapter.app]; omega) d
        (by simpa [Adapter.app, List.take_append_of_le_length hle] using hd)
        (by simp [Adapter.app, List.drop_append_of_le_length hle, he']), afterMsg_app a _ hle]
      simp [Res.cons, Adapter.app]
  | case4 a hr hlt d hd a2 c he ih =>
    have hle : a.length ≤ a.buf.length := Nat.le_of_not_lt hlt
    have he' : a.buf.drop a.length ≠ [] := by simpa [a2] using he
    have ha2 : a2 = a.afterMsg := rfl
    have hc : c = ⟨a.compressed, d, false⟩ := by simp [c]
    rw [ha2] at ih ⊢
    rw [hc, cons_andThen, ← ih,
      loop_reading_more cd es (a.app b) (by simpa [Adapter.app] using hr) (by simp [Adapter.app]; omega) d
        (by simpa [Adapter.app, List.take_append_of_le_length hle] using hd)
        (by simp [Adapter.app, List.drop_append_of_le_length hle, he']), afterMsg_app a _ hle]
    simp [Adapter.app]
  | case5 a hr pre hlt => simp [Res.andThen, pre]
  | case6 a hr pre hlt a1 he =>
    have hr' : a.reading = false := by simpa using hr
    have hle : 5 ≤ a.buf.length := Nat.le_of_not_lt hlt
    have ha1 : a1 = a.afterPrefix := rfl
    have he1 : a.buf.drop 5 = [] := by
      have := he; simp [a1] at this; exact List.drop_eq_nil_of_le this.1
    have he2 : be32 (a.buf.drop 1) ≠ 0 := by
      have := he; simp [a1] at this; simpa using this.2
    have hpre : pre = [] := by simp [pre]
    rw [ha1, hpre]
    simp only [Res.andThen, List.nil_append, res_eta]
    cases b with
    | nil =>
      rw [app_nil, app_nil, loop_meta_stop cd es a hr' hle he1 he2,
        loop_reading_lt cd es a.afterPrefix (by simp [Adapter.afterPrefix])
          (by show (a.buf.drop 5).length < be32 (a.buf.drop 1)
              rw [he1]; exact Nat.pos_of_ne_zero he2)]
    | cons x xs =>
      rw [loop_meta_go cd es (a.app (x :: xs)) (by simpa [Adapter.app] using hr') (by simp [Adapter.app]; omega)
        (Or.inl (by simp [Adapter.app, List.drop_append_of_le_length hle, he1])), afterPrefix_app a _ hle]
  | case7 a hr pre hlt a1 he r ih =>
    have hr' : a.reading = false := by simpa using hr
    have hle : 5 ≤ a.buf.length := Nat.le_of_not_lt hlt
    have ha1 : a1 = a.afterPrefix := rfl
    have hpre : pre = [] := by simp [pre]
    have he' : a.buf.drop 5 ≠ [] ∨ be32 (a.buf.drop 1) = 0 := by
      by_cases h5 : a.buf.drop 5 = []
      · right
        have hh : ¬((a.buf.drop 5).isEmpty && !(be32 (a.buf.drop 1) == 0)) = true := he
        simpa [h5] using hh
      · exact Or.inl h5
    have hgo : (a.app b).buf.drop 5 ≠ [] ∨ be32 ((a.app b).buf.drop 1) = 0 := by
      rcases he' with h5 | h0
      · left; simp [Adapter.app, List.drop_append_of_le_length hle, h5]
      · right
        simp only [Adapter.app]
        rw [List.drop_append_of_le_length (by omega), be32_append _ _ (by simp; omega)]
        exact h0
    rw [loop_meta_go cd es (a.app b) (by simpa [Adapter.app] using hr') (by simp [Adapter.app]; omega) hgo,
      afterPrefix_app a _ hle, ← ha1, ih, hpre]
    simp only [List.nil_append, r, res_eta]

/-! ### DATA frames: streaming = batch -/

theorem data_append (cd : Codec) (a : Adapter) (x y : Bytes) (es : Bool) (h : y ≠ [] ∨ es = false) :
    data cd a (x ++ y) es = (data cd a x false).andThen (fun a' => data cd a' y es) := by
  unfold data
  rw [← app_app, loop_app cd es (a.app x) y h]

theorem flatten_ne_nil_of_getLast (fs : List Bytes) (h : fs ≠ []) (hl : fs.getLast? ≠ some []) :
    fs.flatten ≠ [] := by
  induction fs with
  | nil => exact absurd rfl h
  | cons f fs ih =>
    cases fs with
    | nil => simpa using hl
    | cons g gs =>
      have := ih (by simp) (by simpa using hl)
      intro hc
      simp only [List.flatten_cons, List.append_eq_nil_iff] at hc
      exact this (by simpa using hc.2)

theorem runFrames_eq_data (cd : Codec) (a : Adapter) (fs : List Bytes) (es : Bool) (hne : fs ≠ [])
    (hl : es = false ∨ fs.getLast? ≠ some []) :
    runFrames cd a fs es = data cd a fs.flatten es := by
  induction fs generalizing a with
  | nil => exact absurd rfl hne
  | cons f fs ih =>
    cases fs with
    | nil => simp [runFrames]
    | cons g gs =>
      have hl' : es = false ∨ (g :: gs).getLast? ≠ some [] := by
        rcases hl with h | h
        · exact Or.inl h
        · exact Or.inr (by simpa using h)
      have hfl : (g :: gs).flatten ≠ [] ∨ es = false := by
        rcases hl' with h | h
        · exact Or.inr h
        · exact Or.inl (flatten_ne_nil_of_getLast _ (by simp) h)
      have e : (f :: g :: gs).flatten = f ++ (g :: gs).flatten := by simp
      rw [e, data_append cd a f _ es hfl]
      simp only [runFrames]
      congr 1
      funext a'
      exact ih a' (by simp) hl'

theorem runFrames_snoc (cd : Codec) (a : Adapter) (fs : List Bytes) (hne : fs ≠ []) (g : Bytes) (es : Bool) :
    runFrames cd a (fs ++ [g]) es = (runFrames cd a fs false).andThen (fun a' => data cd a' g es) := by
  induction fs generalizing a with
  | nil => exact absurd rfl hne
  | cons f fs ih =>
    cases fs with
    | nil => simp [runFrames]
    | cons h hs =>
      have := fun a' => ih a' (by simp)
      simp only [List.cons_append, runFrames] at this ⊢
      cases hr : (data cd a f false).next with
      | none => simp [Res.andThen, hr]
      | some a1 =>
        simp only [Res.andThen, hr]
        rw [this a1]
        cases hr2 : (runFrames cd a1 (h :: hs) false).next <;> simp [Res.andThen, hr2]

/-! ### parsing a whole stream -/

theorem frame_length (m : GMsg) : m.frame.length = 5 + m.wire.length := by
  simp [GMsg.frame, putBe32_length]; omega

theorem frame_ne_nil (m : GMsg) : m.frame ≠ [] := by simp [GMsg.frame]

theorem stream_cons (m : GMsg) (ms : List GMsg) : stream (m :: ms) = m.frame ++ stream ms := by
  simp [stream]

/-- one message at the head of the buffer of an adapter that is between messages -/
theorem loop_frame (cd : Codec) (es : Bool) (a : Adapter) (m : GMsg) (rest : Bytes)
    (hr : a.reading = false) (hb : a.buf = m.frame ++ rest) (hok : m.ok cd a.enc) :
    loop cd es a =
      if rest = [] then ⟨[⟨m.compressed, m.plain, es⟩], some (a.afterDelivery m [])⟩
      else Res.cons ⟨m.compressed, m.plain, false⟩ (loop cd es (a.afterDelivery m rest)) := by
  have hlen : 5 ≤ a.buf.length := by rw [hb]; simp [frame_length]; omega
  have hd5 : a.buf.drop 5 = m.wire ++ rest := by
    rw [hb]; simp [GMsg.frame, putBe32]
  have hbe : be32 (a.buf.drop 1) = m.wire.length := by
    rw [hb]
    simp only [GMsg.frame, List.cons_append, List.drop_one, List.tail_cons, List.append_assoc]
    exact be32_putBe32 _ hok.2 _
  have hflag : decide (a.buf.getD 0 0 > 0) = m.compressed := by
    rw [hb]; cases hc : m.compressed <;> simp [GMsg.frame, hc]
  have hgo : a.buf.drop 5 ≠ [] ∨ be32 (a.buf.drop 1) = 0 := by
    by_cases h : m.wire ++ rest = []
    · right; rw [hbe]; simp at h; simp [h.1]
    · left; rw [hd5]; exact h
  have hap : a.afterPrefix =
      { enc := a.enc, buf := m.wire ++ rest, reading := true, compressed := m.compressed, length := m.wire.length } := by
    simp only [Adapter.afterPrefix, hd5, hbe, hflag]
  rw [loop_meta_go cd es a hr hlen hgo, hap]
  have htake : List.take m.wire.length (m.wire ++ rest) = m.wire := by simp
  have hdrop : List.drop m.wire.length (m.wire ++ rest) = rest := by simp
  by_cases hrest : rest = []
  · rw [if_pos hrest]
    rw [loop_reading_last cd es _ rfl (by simp) m.plain (by simpa [htake] using hok.1) (by simp [hrest])]
    simp [Adapter.afterMsg, Adapter.afterDelivery, hrest]
  · rw [if_neg hrest]
    rw [loop_reading_more cd es _ rfl (by simp) m.plain (by simpa [htake] using hok.1) (by simpa using hrest)]
    simp [Adapter.afterMsg, Adapter.afterDelivery]

theorem afterDelivery_app (a : Adapter) (m : GMsg) (rest : Bytes) :
    (a.afterDelivery m []).app rest = a.afterDelivery m rest := by
  simp [Adapter.afterDelivery, Adapter.app]

/-- A whole stream in one DATA call: exactly the messages, end-of-stream on the last only. -/
theorem data_stream (cd : Codec) (es : Bool) (ms : List GMsg) (hne : ms ≠ []) (a : Adapter)
    (ha : a.atRest) (hok : ∀ m ∈ ms, m.ok cd a.enc) :
    ∃ a', data cd a (stream ms) es = ⟨expCalls ms es, some a'⟩ ∧ a'.atRest ∧ a'.enc = a.enc := by
  induction ms generalizing a with
  | nil => exact absurd rfl hne
  | cons m ms ih =>
    have happ : ∀ d, a.app d = { a with buf := d } := by
      intro d; simp [Adapter.app, ha.2]
    cases ms with
    | nil =>
      refine ⟨a.afterDelivery m [], ?_, ⟨rfl, rfl⟩, rfl⟩
      unfold data
      rw [loop_frame cd es (a.app (stream [m])) m [] (by simp [Adapter.app, ha.1])
        (by simp [Adapter.app, ha.2, stream]) (by simpa [Adapter.app] using hok m (by simp))]
      simp [expCalls, Adapter.afterDelivery, Adapter.app]
    | cons m' ms' =>
      have hrest : stream (m' :: ms') ≠ [] := by
        rw [stream_cons]; simp [frame_ne_nil]
      obtain ⟨a', h1, h2, h3⟩ := ih (by simp) (a.afterDelivery m []) ⟨rfl, rfl⟩
        (fun x hx => by simpa [Adapter.afterDelivery] using hok x (by simp [List.mem_cons] at hx ⊢; exact Or.inr hx))
      refine ⟨a', ?_, h2, by simpa [Adapter.afterDelivery] using h3⟩
      unfold data at h1 ⊢
      rw [loop_frame cd es (a.app (stream (m :: m' :: ms'))) m (stream (m' :: ms')) (by simp [Adapter.app, ha.1])
        (by simp [Adapter.app, ha.2, stream_cons]) (by simpa [Adapter.app] using hok m (by simp))]
      rw [if_neg hrest]
      have e : (a.app (stream (m :: m' :: ms'))).afterDelivery m (stream (m' :: ms')) =
          (a.afterDelivery m []).app (stream (m' :: ms')) := by
        simp [Adapter.afterDelivery, Adapter.app]
      rw [e, h1]
      simp [Res.cons, expCalls]

theorem data_nil_false (cd : Codec) (a : Adapter) (ha : a.atRest) : data cd a [] false = ⟨[], some a⟩ := by
  unfold data
  rw [app_nil, loop_meta_lt cd false a ha.1 (by simp [ha.2])]
  simp

/-- the known defect F11b, exactly: END_STREAM on an empty DATA frame while no message is
pending is one `Message(nil, true)` call -/
theorem data_nil_true (cd : Codec) (a : Adapter) (ha : a.atRest) :
    data cd a [] true = ⟨[⟨a.compressed, [], true⟩], some a⟩ := by
  unfold data
  rw [app_nil, loop_meta_lt cd true a ha.1 (by simp [ha.2])]
  simp [ha.2]

/-- `data_stream` for any number of messages when the frame does not end the stream -/
theorem data_stream_false (cd : Codec) (ms : List GMsg) (a : Adapter)
    (ha : a.atRest) (hok : ∀ m ∈ ms, m.ok cd a.enc) :
    ∃ a', data cd a (stream ms) false = ⟨expCalls ms false, some a'⟩ ∧ a'.atRest ∧ a'.enc = a.enc := by
  cases ms with
  | nil => exact ⟨a, by simpa [stream, expCalls] using data_nil_false cd a ha, ha, rfl⟩
  | cons m ms => exact data_stream cd false (m :: ms) (by simp) a ha hok

theorem stream_ne_nil (ms : List GMsg) (h : ms ≠ []) : stream ms ≠ [] := by
  cases ms with
  | nil => exact absurd rfl h
  | cons m ms => rw [stream_cons]; simp [frame_ne_nil]

theorem stream_append (xs ys : List GMsg) : stream (xs ++ ys) = stream xs ++ stream ys := by
  simp [stream]

/-! ### the emitter -/

theorem emit_expected (cd : Codec) (e : Enc) (m : GMsg) (es : Bool) :
    emit cd e ⟨m.compressed, m.plain, es⟩ = ((m.reenc cd e).frame, es) := by
  cases hc : m.compressed <;> simp [emit, GMsg.reenc, GMsg.frame, hc]

theorem sink_payloads (cd : Codec) (e : Enc) (ms : List GMsg) (es : Bool) :
    (((expCalls ms es).map (emit cd e)).map Prod.fst).flatten = stream (ms.map (GMsg.reenc cd e)) := by
  induction ms with
  | nil => simp [expCalls, stream]
  | cons m ms ih =>
    cases ms with
    | nil => simp [expCalls, stream, emit_expected]
    | cons m' ms' =>
      simp only [expCalls, List.map_cons, List.flatten_cons, emit_expected] at ih ⊢
      rw [ih]
      simp [stream]

theorem sink_flags (cd : Codec) (e : Enc) (ms : List GMsg) (es : Bool) (hne : ms ≠ []) :
    ((expCalls ms es).map (emit cd e)).map Prod.snd = List.replicate (ms.length - 1) false ++ [es] := by
  induction ms with
  | nil => exact absurd rfl hne
  | cons m ms ih =>
    cases ms with
    | nil => simp [expCalls, emit]
    | cons m' ms' =>
      have := ih (by simp)
      simp only [expCalls, List.map_cons, List.length_cons] at this ⊢
      rw [this]
      simp [emit, List.replicate_succ]

theorem expCalls_length (ms : List GMsg) (es : Bool) : (expCalls ms es).length = ms.length := by
  induction ms with
  | nil => simp [expCalls]
  | cons m ms ih => cases ms <;> simp_all [expCalls]

theorem expCalls_reenc (cd : Codec) (e : Enc) (ms : List GMsg) (es : Bool) :
    expCalls (ms.map (GMsg.reenc cd e)) es = expCalls ms es := by
  induction ms with
  | nil => simp
  | cons m ms ih => cases ms <;> simp_all [expCalls, GMsg.reenc]

theorem decode_encode (cd : Codec) (hrt : cd.RoundTrip) (e : Enc) (c : Bool) (x : Bytes) :
    decode cd e c (encode cd e c x) = some x := by
  cases c <;> cases e <;> simp [decode, encode, hrt _ _]

theorem reenc_ok (cd : Codec) (hrt : cd.RoundTrip) (e : Enc) (m : GMsg)
    (hlen : (encode cd e m.compressed m.plain).length < 4294967296) : (m.reenc cd e).ok cd e :=
  ⟨decode_encode cd hrt e _ _, hlen⟩

/-! ### streams that are not gRPC -/

theorem run_not_grpc (cd : Codec) (s : Stream) (fs : List Frame) (hs : s.enabled = false)
    (hf : ∀ f ∈ fs, f.announcesGrpc = false) : Stream.run cd s fs = fs.map Frame.forwarded := by
  induction fs generalizing s with
  | nil => simp [Stream.run]
  | cons f fs ih =>
    have hrest := ih s hs (fun g hg => hf g (by simp [hg]))
    cases f with
    | headers d hds es =>
      have h1 : isGrpcHeaders hds = false := by simpa [Frame.announcesGrpc] using hf (.headers d hds es) (by simp)
      simp [Stream.run, Stream.header, hs, h1, Frame.forwarded, hrest]
    | data d b es =>
      simp [Stream.run, Stream.data, hs, Frame.forwarded, hrest]

/-! ### frame lists, header scan (round 3) -/

theorem runFrames_cons (cd : Codec) (a : Adapter) (f : Bytes) (rest : List Bytes) (es : Bool) (h : rest ≠ []) :
    runFrames cd a (f :: rest) es = (data cd a f false).andThen (fun a' => runFrames cd a' rest es) := by
  cases rest with
  | nil => exact absurd rfl h
  | cons g gs => rfl

theorem andThen_ret (r : Res) : r.andThen (fun a' => ⟨[], some a'⟩) = r := by
  cases r with
  | mk calls next => cases next <;> simp [Res.andThen]

theorem andThen_congr (r : Res) (f g : Adapter → Res) (h : ∀ a', r.next = some a' → f a' = g a') :
    r.andThen f = r.andThen g := by
  cases r with
  | mk calls next =>
    cases next with
    | none => simp [Res.andThen]
    | some a' => simp [Res.andThen, h a' rfl]

theorem scanEncoding_append (e : Enc) (xs ys : List Header) :
    scanEncoding e (xs ++ ys) =
      if (scanEncoding e xs).2 then scanEncoding (scanEncoding e xs).1 ys else scanEncoding e xs := by
  induction xs generalizing e with
  | nil => simp [scanEncoding]
  | cons h xs ih =>
    obtain ⟨n, v⟩ := h
    by_cases hn : n = geName
    · cases hv : encOfName v with
      | none => simp [scanEncoding, hn, hv]
      | some e' => simp [scanEncoding, hn, hv, ih]
    · simp [scanEncoding, hn, ih]


/-! ### several streams -/

theorem runO_none (cd : Codec) (fs : List Frame) : Stream.runO cd none fs = [] := by
  cases fs <;> rfl

theorem run_eq_runO (cd : Codec) (s : Stream) (fs : List Frame) : Stream.run cd s fs = Stream.runO cd (some s) fs := by
  induction fs generalizing s with
  | nil => rfl
  | cons f fs ih =>
    cases f with
    | headers d hs es =>
      simp only [Stream.run, Stream.runO, Stream.step]
      cases h : (s.header d hs es).2.any (fun e => match e with | .error _ => true | _ => false) with
      | true => simp [runO_none]
      | false => simp [ih]
    | data d b es =>
      simp only [Stream.run, Stream.runO, Stream.step]
      cases h : (Stream.data cd s d b es).1 with
      | none => simp [runO_none]
      | some s' => simp [ih]

theorem multi_get_set (m : Multi) (sid sid' : Nat) (s : Option Stream) :
    (m.set sid s).get sid' = if sid' = sid then s else m.get sid' := by
  by_cases h : sid' = sid
  · subst h; simp [Multi.get, Multi.set]
  · have : (sid' == sid) = false := by simpa using h
    simp [Multi.get, Multi.set, List.lookup, this, h]

/-- the parser loop never touches the encoding -/
theorem loop_keeps_enc (cd : Codec) (es : Bool) (a a' : Adapter) (h : (loop cd es a).next = some a') :
    a'.enc = a.enc := by
  fun_induction loop cd es a with
  | case1 a hr hlt => simp at h; subst h; rfl
  | case2 a hr hlt hd => simp at h
  | case3 a hr hlt d hd a2 c he => simp at h; subst h; rfl
  | case4 a hr hlt d hd a2 c he ih => exact ih (by simpa [Res.cons] using h)
  | case5 a hr pre hlt => simp at h; subst h; rfl
  | case6 a hr pre hlt a1 he => simp at h; subst h; rfl
  | case7 a hr pre hlt a1 he r ih => exact ih (by simpa [r] using h)

end Martian.Grpc
