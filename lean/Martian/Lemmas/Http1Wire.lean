import Martian.Lemmas.Http1
/-!
The reader applied to serialised messages: start lines, the header list `wire` writes (`headOf`),
the decidable well-formedness predicates `WFReq` / `WFRes`, and the message-level read-back lemmas
the property theorems of C01 / C03 / C15 are assembled from.
-/
namespace Martian.Http1
open Martian Martian.Go Martian.MessageView

/-! ### start lines -/

theorem http_slash : strBytes "HTTP/" = [72, 84, 84, 80, 47] := by decide

theorem natDigits_lt10 (d : Nat) (h : d < 10) : natDigits d = [dg d] := by
  rw [natDigits_eq]; simp [h]

theorem protoBytes_eq (a b : Nat) (ha : a < 10) (hb : b < 10) :
    protoBytes a b = [72, 84, 84, 80, 47, dg a, 46, dg b] := by
  simp [protoBytes, http_slash, natDigits_lt10 a ha, natDigits_lt10 b hb]

theorem parseHTTPVersion_proto (a b : Nat) (ha : a < 10) (hb : b < 10) :
    parseHTTPVersion (protoBytes a b) = some (a, b) := by
  rw [protoBytes_eq a b ha hb]
  have h1 := isDigit_dg a ha
  have h2 := isDigit_dg b hb
  simp [parseHTTPVersion, h1.1, h1.2, h2.1, h2.2]

theorem protoBytes_no_lf (a b : Nat) (ha : a < 10) (hb : b < 10) : ∀ c ∈ protoBytes a b, c ≠ 10 := by
  rw [protoBytes_eq a b ha hb]
  have h1 := (isDigit_props _ (isDigit_dg a ha).1).1
  have h2 := (isDigit_props _ (isDigit_dg b hb).1).1
  intro c hc
  simp only [List.mem_cons, List.not_mem_nil, or_false] at hc
  rcases hc with rfl | rfl | rfl | rfl | rfl | rfl | rfl | rfl <;> first | decide | (intro h; simp [h, isLineWs] at h1 h2)

/-- Bytes of a request target in the modelled domain are visible ASCII. -/
theorem targetHost_bytes (u : Bytes) (a : Option Bytes) (h : targetHost u = some a) :
    ∀ c ∈ u, c ≠ 32 ∧ c ≠ 10 := by
  unfold targetHost at h
  split at h
  · simp at h
  · rename_i hc
    simp only [Bool.or_eq_true, Bool.not_eq_true', not_or, Bool.not_eq_false] at hc
    have hall := hc.1
    intro c hcu
    have := List.all_eq_true.mp hall c hcu
    simp only [Bool.and_eq_true, decide_eq_true_eq] at this
    constructor
    · intro e; subst e; exact absurd this.1 (by decide)
    · intro e; subst e; exact absurd this.1 (by decide)

theorem parseRequestLine_start (method uri proto : Bytes) (hm : ∀ c ∈ method, c ≠ 32) (hu : ∀ c ∈ uri, c ≠ 32) :
    parseRequestLine (method ++ [32] ++ uri ++ [32] ++ proto) = some (method, uri, proto) := by
  have : method ++ [32] ++ uri ++ [32] ++ proto = method ++ 32 :: (uri ++ 32 :: proto) := by simp
  rw [this]
  unfold parseRequestLine
  rw [cut_append 32 method _ hm]
  simp only
  rw [cut_append 32 uri _ hu]

/-! ### the head `wire` writes -/

def exclOf (m : Msg) : List Bytes := if m.isReq then [hostKey, clKey, teKey] else [clKey, teKey]

/-- The end-to-end part of the header as `wire` writes it: sorted by key, framing fields removed. -/
def e2e (m : Msg) : List KV := (sortKV m.hdr).filter fun kv => !(exclOf m).contains kv.1

def hostF (m : Msg) : List KV := if m.isReq && !m.host.isEmpty then [(hostKey, m.host)] else []
def teF (m : Msg) : List KV := if m.te.isEmpty then [] else [(teKey, join m.te (strBytes ", "))]
def clF (m : Msg) : List KV := if !isChunked m.te && 0 ≤ m.cl then [(clKey, itoa m.cl)] else []

/-- The field lines of `wire m`, in order. -/
def headOf (m : Msg) : List KV := hostF m ++ teF m ++ clF m ++ e2e m

theorem headSection_eq (m : Msg) : headSection m = startLine m ++ crlf ++ fields (headOf m) ++ crlf := by
  unfold headSection headOf hostF teF clF e2e exclOf writeSubset
  simp only [fields_append]
  cases m.isReq <;> cases h1 : m.host.isEmpty <;> cases h2 : m.te.isEmpty <;>
    cases h3 : (!isChunked m.te && decide (0 ≤ m.cl)) <;> simp [fields, h3] <;> simp_all

/-! ### keys -/

theorem keys_ne : (hostKey == teKey) = false ∧ (hostKey == clKey) = false ∧ (hostKey == trailerKey) = false ∧
    (hostKey == pragmaKey) = false ∧ (hostKey == connKey) = false ∧
    (teKey == hostKey) = false ∧ (teKey == clKey) = false ∧ (teKey == trailerKey) = false ∧
    (teKey == pragmaKey) = false ∧ (teKey == connKey) = false ∧
    (clKey == hostKey) = false ∧ (clKey == teKey) = false ∧ (clKey == trailerKey) = false ∧
    (clKey == pragmaKey) = false ∧ (clKey == connKey) = false := by decide

theorem validKV_host_te_cl : ValidKV (teKey, chunkedTok) = true ∧
    keyOK hostKey = true ∧ keyOK clKey = true := by decide

/-! ### a serialised request head is parsed back exactly -/

/-- Any request line in the modelled domain followed by any list of valid fields and the blank
line: the reader recovers method, target, version and exactly that field list, then frames the
body by `readTransfer` of that list. `X` is everything after the blank line. -/
theorem readRequestHead_serialized (method uri : Bytes) (maj min : Nat) (auth : Option Bytes) (hs : List KV) (X : Bytes)
    (hm1 : method.isEmpty = false) (hm2 : method.all isTokenByte = true)
    (hm3 : (method == connectTok) = false) (hm4 : (method == priTok) = false)
    (hu : targetHost uri = some auth) (hmaj : maj < 10) (hmin : min < 10)
    (hv : ∀ kv ∈ hs, ValidKV kv = true) (hhost : ¬ (vals hs hostKey).length > 1) :
    readRequestHead (method ++ [32] ++ uri ++ [32] ++ protoBytes maj min ++ crlf ++ fields hs ++ crlf ++ X) =
      liftE (readTransfer false method 200 maj min (shouldClose maj min (fixPragma hs)) (fixPragma hs)) fun t =>
        .complete (reqSkeleton method uri maj min (auth.getD ((vals hs hostKey).headD [])),
          { t with hdr := del t.hdr hostKey }) X := by
  have hmtok : ∀ c ∈ method, isTokenByte c = true := fun c hc => List.all_eq_true.mp hm2 c hc
  have hub := targetHost_bytes uri auth hu
  have hnolf : ∀ c ∈ method ++ [32] ++ uri ++ [32] ++ protoBytes maj min, c ≠ 10 := by
    intro c hc
    simp only [List.mem_append, List.mem_singleton] at hc
    rcases hc with (((hc | hc) | hc) | hc) | hc
    · exact (isTokenByte_ne c (hmtok c hc)).2.1
    · subst hc; decide
    · exact (hub c hc).2
    · subst hc; decide
    · exact protoBytes_no_lf maj min hmaj hmin c hc
  have hform : method ++ [32] ++ uri ++ [32] ++ protoBytes maj min ++ crlf ++ fields hs ++ crlf ++ X
      = (method ++ [32] ++ uri ++ [32] ++ protoBytes maj min) ++ crlf ++ (fields hs ++ crlf ++ X) := by
    simp
  rw [hform]
  unfold readRequestHead
  rw [readLine_crlf _ _ hnolf]
  simp only
  rw [parseRequestLine_start method uri _ (fun c hc => (isTokenByte_ne c (hmtok c hc)).2.2.1) (fun c hc => (hub c hc).1)]
  simp only [hm1, hm2, parseHTTPVersion_proto maj min hmaj hmin, hm3, hm4, hu, readHeader_fields hs hv]
  simp only [Bool.false_eq_true, Bool.not_true, Bool.or_self, if_false, hhost]

/-! ### well-formed requests -/

def atLeast11 (m : Msg) : Bool := m.major > 1 || (m.major == 1 && m.minor ≥ 1)

/-- Target and `Host` agree the way `ReadRequest` resolves them. -/
def hostOK (m : Msg) : Bool :=
  valueOK m.host &&
  match targetHost m.url with
  | some (some a) => m.host == a
  | some none => true
  | none => false

/-- `Transfer-Encoding` is absent or exactly `chunked` (HTTP/1.1 up); the length field says what the
body is, or there is neither field and no body (`cl = -1`: nothing is written, the reader reports
`ContentLength = 0`); chunk sizes stay below 2^62. -/
def framingOK (m : Msg) : Bool :=
  if isChunked m.te then
    m.te == [chunkedTok] && m.cl == -1 && atLeast11 m && decide ((m.body.getD []).length < 2 ^ 62)
  else
    m.te.isEmpty && m.trailer.isNone &&
      ((m.cl == -1 && (m.body.getD []).isEmpty) ||
       (decide (0 ≤ m.cl) && decide (m.cl < 2 ^ 63) && decide (((m.body.getD []).length : Int) = m.cl)))

/-- A trailer is a non-empty sorted list of valid fields that fits `bufio`'s window. -/
def trailerOK (m : Msg) : Bool :=
  match m.trailer with
  | none => true
  | some t => isChunked m.te && !t.isEmpty && t.all ValidKV && sortKV t == t &&
      decide ((fields t).length + 2 ≤ bufSize)

/-- A request the proxy can receive or send: token method (not CONNECT / PRI), a target in the
modelled domain with a consistent `Host`, one-digit version numbers, valid fields, no `Trailer`
announcement and no `Pragma` among the end-to-end fields, consistent framing. Decidable. -/
def WFReq (m : Msg) : Prop :=
  m.isReq = true ∧ m.code = 0 ∧ m.status = [] ∧
  m.method.isEmpty = false ∧ m.method.all isTokenByte = true ∧
  (m.method == connectTok) = false ∧ (m.method == priTok) = false ∧
  m.major < 10 ∧ m.minor < 10 ∧ hostOK m = true ∧
  m.hdr.all ValidKV = true ∧ has (e2e m) trailerKey = false ∧ has (e2e m) pragmaKey = false ∧
  framingOK m = true ∧ m.body.isSome = true ∧ trailerOK m = true

instance (m : Msg) : Decidable (WFReq m) := by unfold WFReq; infer_instance

/-- The header list of the re-read message: the end-to-end fields plus the `Content-Length` field
`wire` derived from `m.cl`, as the header map is flattened (sorted by key). -/
def parsedHdr (m : Msg) : List KV := sortKV (clF m ++ e2e m)

/-- `ContentLength` as the reader of a request reports it: `0` when neither framing field is there. -/
def parsedCL (m : Msg) : Int := if !isChunked m.te && m.cl < 0 then 0 else m.cl

def reqParsed (m : Msg) : Parsed :=
  ⟨{ m with hdr := parsedHdr m, cl := parsedCL m }, shouldClose m.major m.minor (headOf m), none⟩

/-! facts about `headOf` -/

theorem has_e2e_excl (m : Msg) (k : Bytes) (hk : (exclOf m).contains k = true) : has (e2e m) k = false := by
  rw [has_eq_false_iff]
  intro kv hkv
  simp only [e2e, List.mem_filter, Bool.not_eq_true'] at hkv
  cases h : kv.1 == k with
  | false => rfl
  | true =>
    have : kv.1 = k := by simpa using h
    rw [this, hk] at hkv; simp at hkv

theorem valid_e2e (m : Msg) (h : m.hdr.all ValidKV = true) : ∀ kv ∈ e2e m, ValidKV kv = true := by
  intro kv hkv
  simp only [e2e, List.mem_filter] at hkv
  exact List.all_eq_true.mp h kv ((mem_sortKV kv m.hdr).mp hkv.1)

theorem valueOK_natDigits (n : Nat) : valueOK (natDigits n) = true := by
  have h := (natDigits_spec n).1
  simp only [valueOK, Bool.and_eq_true, beq_iff_eq]
  refine ⟨?_, trimOWS_digits _ h⟩
  rw [List.all_eq_true]; intro c hc
  exact (isDigit_props c (List.all_eq_true.mp h c hc)).2.2.1

theorem valid_hostF (m : Msg) (h : valueOK m.host = true) : ∀ kv ∈ hostF m, ValidKV kv = true := by
  intro kv hkv
  unfold hostF at hkv
  split at hkv
  · simp at hkv; subst hkv; simp [ValidKV, validKV_host_te_cl.2.1, h]
  · simp at hkv

theorem vals_hostF (m : Msg) (k : Bytes) (hk : (hostKey == k) = false) : vals (hostF m) k = [] := by
  unfold hostF; split <;> simp [vals_cons, hk]

theorem has_hostF (m : Msg) (k : Bytes) (hk : (hostKey == k) = false) : has (hostF m) k = false := by
  unfold hostF; split <;> simp [has_cons, hk]

theorem del_hostF (m : Msg) : del (hostF m) hostKey = [] := by
  unfold hostF; split <;> simp [del_cons]

theorem del_hostF_ne (m : Msg) (k : Bytes) (hk : (hostKey == k) = false) : del (hostF m) k = hostF m := by
  unfold hostF; split <;> simp [del_cons, hk]

theorem vals_hostF_host_le (m : Msg) : ¬ (vals (hostF m) hostKey).length > 1 := by
  unfold hostF; split <;> simp [vals_cons]

/-- `Host` as `ReadRequest` resolves it from the head `wire` writes. -/
theorem host_resolved (m : Msg) (hreq : m.isReq = true) (h : hostOK m = true) :
    ∃ auth, targetHost m.url = some auth ∧ auth.getD ((vals (hostF m) hostKey).headD []) = m.host := by
  simp only [hostOK, Bool.and_eq_true] at h
  obtain ⟨_, h2⟩ := h
  cases ht : targetHost m.url with
  | none => simp [ht] at h2
  | some auth =>
    refine ⟨auth, rfl, ?_⟩
    cases auth with
    | some a => simp [ht] at h2; simp [h2]
    | none =>
      unfold hostF
      cases hh : m.host.isEmpty with
      | true => simp [hreq]; exact List.isEmpty_iff.mp hh
      | false => simp [hreq, vals_cons]

theorem fixPragma_id (hs : List KV) (h : has hs pragmaKey = false) : fixPragma hs = hs := by
  simp [fixPragma, vals_eq_nil_of_has hs pragmaKey h]

/-- Non-chunked request: `Content-Length n`, then exactly `n` body bytes; whatever follows is left. -/
theorem readRequest_wire_cl (m : Msg) (h : WFReq m) (hch : isChunked m.te = false) (hcl0 : 0 ≤ m.cl)
    (rest : Bytes) :
    readRequest (wire m ++ rest) = .complete (reqParsed m) rest := by
  obtain ⟨hreq, hcode, hstatus, hm1, hm2, hm3, hm4, hmaj, hmin, hhost, hhdr, htr, hpr, hfr, hbody, _⟩ := h
  obtain ⟨b, hb⟩ := Option.isSome_iff_exists.mp hbody
  simp only [framingOK, hch, Bool.false_eq_true, if_false, Bool.and_eq_true, decide_eq_true_eq, hb,
    Option.getD_some, Bool.or_eq_true, beq_iff_eq] at hfr
  obtain ⟨⟨hte, htrn⟩, hcases⟩ := hfr
  have hpcl : parsedCL m = m.cl := by simp [parsedCL, hch]; omega
  rcases hcases with ⟨hneg, _⟩ | ⟨⟨_, hcl63⟩, hlen⟩
  · omega
  have hteF : teF m = [] := by simp [teF, hte]
  obtain ⟨n, hn⟩ : ∃ n : Nat, m.cl = n := ⟨m.cl.toNat, by omega⟩
  have hclF : clF m = [(clKey, natDigits n)] := by simp [clF, hch, hcl0, hn, itoa_ofNat]
  have hbn : b.length = n := by omega
  have hn63 : n < 2 ^ 63 := by omega
  obtain ⟨auth, hauth, hhostv⟩ := host_resolved m hreq hhost
  have hvo : valueOK m.host = true := by simp only [hostOK, Bool.and_eq_true] at hhost; exact hhost.1
  -- the head
  have hexcl : ∀ k, (exclOf m).contains k = true → has (e2e m) k = false := has_e2e_excl m
  have hex : exclOf m = [hostKey, clKey, teKey] := by simp [exclOf, hreq]
  have he_host := hexcl hostKey (by rw [hex]; decide)
  have he_cl := hexcl clKey (by rw [hex]; decide)
  have he_te := hexcl teKey (by rw [hex]; decide)
  have hhead : headOf m = hostF m ++ (clKey, natDigits n) :: e2e m := by simp [headOf, hteF, hclF]
  have hvalid : ∀ kv ∈ headOf m, ValidKV kv = true := by
    intro kv hkv
    rw [hhead] at hkv
    rcases List.mem_append.mp hkv with hkv | hkv
    · exact valid_hostF m hvo kv hkv
    · rcases List.mem_cons.mp hkv with rfl | hkv
      · simp [ValidKV, validKV_host_te_cl.2.2, valueOK_natDigits]
      · exact valid_e2e m hhdr kv hkv
  have kn := keys_ne
  have hvh : vals (headOf m) hostKey = vals (hostF m) hostKey := by
    rw [hhead, vals_append, vals_cons]
    simp [kn.2.2.2.2.2.2.2.2.2.2.1, vals_eq_nil_of_has _ _ he_host]
  have hpragma : has (headOf m) pragmaKey = false := by
    rw [hhead, has_append, has_cons, has_hostF m _ kn.2.2.2.1, hpr]; simp [kn.2.2.2.2.2.2.2.2.2.2.2.2.2.1]
  have hte' : has (headOf m) teKey = false := by
    rw [hhead, has_append, has_cons, has_hostF m _ kn.1, he_te]; simp [kn.2.2.2.2.2.2.2.2.2.2.2.1]
  have hclv : vals (headOf m) clKey = [natDigits n] := by
    rw [hhead, vals_append, vals_cons, vals_hostF m _ kn.2.1, vals_eq_nil_of_has _ _ he_cl]; simp
  have hdel : del (headOf m) hostKey = (clKey, natDigits n) :: e2e m := by
    rw [hhead, del_append, del_hostF, del_cons, del_eq_self_of_has _ _ he_host]
    simp [kn.2.2.2.2.2.2.2.2.2.2.1]
  -- the bytes
  have hwire : wire m ++ rest = m.method ++ [32] ++ m.url ++ [32] ++ protoBytes m.major m.minor ++ crlf
      ++ fields (headOf m) ++ crlf ++ (b ++ rest) := by
    simp [wire, hch, headSection_eq, startLine, hreq, hb]
  unfold readRequest
  rw [hwire, readRequestHead_serialized m.method m.url m.major m.minor auth (headOf m) (b ++ rest)
    hm1 hm2 hm3 hm4 hauth hmaj hmin hvalid (by rw [hvh]; exact vals_hostF_host_le m)]
  rw [fixPragma_id _ hpragma, hvh, hhostv]
  have hnd : (trimLWS (natDigits n)).isEmpty = false := by
    rw [trimLWS_digits _ (natDigits_spec n).1]
    cases hq : natDigits n with
    | nil => exact absurd hq (natDigits_ne_nil n)
    | cons c r => rfl
  rw [readTransfer_req_cl m.method m.major m.minor _ (headOf m) (natDigits n) n hte' hclv hnd (parseCL_natDigits n hn63)]
  simp only [liftE, finishBody, hdel]
  have hrb : readBody (if n = 0 then BodyKind.none else BodyKind.len n) none (b ++ rest) = .complete (b, none) rest := by
    by_cases h0 : n = 0
    · have : b = [] := List.eq_nil_of_length_eq_zero (by omega)
      subst this; simp [h0, readBody]
    · simp only [h0, if_false]; rw [← hbn]; exact readBody_len b rest
  rw [hrb]
  simp only [reqParsed, parsedHdr, hclF, reqSkeleton, hpcl]
  congr 1
  cases m
  simp_all

/-- Request with neither `Content-Length` nor `Transfer-Encoding` (the usual GET): no body, the
reader reports `ContentLength = 0`; whatever follows the blank line is left. -/
theorem readRequest_wire_nobody (m : Msg) (h : WFReq m) (hch : isChunked m.te = false) (hcl : m.cl = -1)
    (rest : Bytes) :
    readRequest (wire m ++ rest) = .complete (reqParsed m) rest := by
  obtain ⟨hreq, hcode, hstatus, hm1, hm2, hm3, hm4, hmaj, hmin, hhost, hhdr, htr, hpr, hfr, hbody, _⟩ := h
  obtain ⟨b, hb⟩ := Option.isSome_iff_exists.mp hbody
  simp only [framingOK, hch, Bool.false_eq_true, if_false, Bool.and_eq_true, decide_eq_true_eq, hb,
    Option.getD_some, Bool.or_eq_true, beq_iff_eq] at hfr
  obtain ⟨⟨hte, htrn⟩, hcases⟩ := hfr
  have hbe : b = [] := by
    rcases hcases with ⟨_, hbe⟩ | ⟨⟨h0, _⟩, _⟩
    · exact List.isEmpty_iff.mp hbe
    · omega
  subst hbe
  have hpcl : parsedCL m = 0 := by simp [parsedCL, hch, hcl]
  have hteF : teF m = [] := by simp [teF, hte]
  have hclF : clF m = [] := by simp [clF, hch, hcl]
  obtain ⟨auth, hauth, hhostv⟩ := host_resolved m hreq hhost
  have hvo : valueOK m.host = true := by simp only [hostOK, Bool.and_eq_true] at hhost; exact hhost.1
  have hexcl : ∀ k, (exclOf m).contains k = true → has (e2e m) k = false := has_e2e_excl m
  have hex : exclOf m = [hostKey, clKey, teKey] := by simp [exclOf, hreq]
  have he_host := hexcl hostKey (by rw [hex]; decide)
  have he_cl := hexcl clKey (by rw [hex]; decide)
  have he_te := hexcl teKey (by rw [hex]; decide)
  have hhead : headOf m = hostF m ++ e2e m := by simp [headOf, hteF, hclF]
  have hvalid : ∀ kv ∈ headOf m, ValidKV kv = true := by
    intro kv hkv
    rw [hhead] at hkv
    rcases List.mem_append.mp hkv with hkv | hkv
    · exact valid_hostF m hvo kv hkv
    · exact valid_e2e m hhdr kv hkv
  have kn := keys_ne
  have hvh : vals (headOf m) hostKey = vals (hostF m) hostKey := by
    rw [hhead, vals_append, vals_eq_nil_of_has _ _ he_host]; simp
  have hpragma : has (headOf m) pragmaKey = false := by
    rw [hhead, has_append, has_hostF m _ kn.2.2.2.1, hpr]; rfl
  have hte' : has (headOf m) teKey = false := by
    rw [hhead, has_append, has_hostF m _ kn.1, he_te]; rfl
  have hcl' : has (headOf m) clKey = false := by
    rw [hhead, has_append, has_hostF m _ kn.2.1, he_cl]; rfl
  have hdel : del (headOf m) hostKey = e2e m := by
    rw [hhead, del_append, del_hostF, del_eq_self_of_has _ _ he_host]; simp
  have hwire : wire m ++ rest = m.method ++ [32] ++ m.url ++ [32] ++ protoBytes m.major m.minor ++ crlf
      ++ fields (headOf m) ++ crlf ++ rest := by
    simp [wire, hch, headSection_eq, startLine, hreq, hb]
  unfold readRequest
  rw [hwire, readRequestHead_serialized m.method m.url m.major m.minor auth (headOf m) rest
    hm1 hm2 hm3 hm4 hauth hmaj hmin hvalid (by rw [hvh]; exact vals_hostF_host_le m)]
  rw [fixPragma_id _ hpragma, hvh, hhostv]
  rw [readTransfer_req_none m.method m.major m.minor _ (headOf m) hte' hcl']
  simp only [liftE, finishBody, hdel, readBody_none]
  simp only [reqParsed, parsedHdr, hclF, reqSkeleton, hpcl]
  congr 1
  cases m
  simp_all

/-- The wire form of a chunked message with the body cut into the given chunks. -/
def wireChunkedAs (m : Msg) (cs : List Bytes) : Bytes :=
  headSection m ++ chunkStream cs ++ fields (sortKV (m.trailer.getD [])) ++ crlf

theorem chunkedWrite_eq_chunkStream (d : Bytes) :
    chunkedWrite d = chunkStream (if d.isEmpty then [] else [d]) := by
  cases d with
  | nil => simp [chunkedWrite, chunkStream, crlf]
  | cons c r => simp [chunkedWrite, chunkStream, crlf]

theorem wire_chunked (m : Msg) (h : isChunked m.te = true) :
    wire m = wireChunkedAs m (if (m.body.getD []).isEmpty then [] else [m.body.getD []]) := by
  simp [wire, wireChunkedAs, h, chunkedWrite_eq_chunkStream]

theorem length_le_flatten (cs : List Bytes) (c : Bytes) (h : c ∈ cs) : c.length ≤ cs.flatten.length := by
  induction cs with
  | nil => simp at h
  | cons d r ih =>
    rcases List.mem_cons.mp h with rfl | h
    · simp
    · have := ih h
      simp only [List.flatten_cons, List.length_append]; omega

theorem join_singleton (x sep : Bytes) : join [x] sep = x := by
  simp [join, List.intercalate]

/-- Chunked request in ANY chunking of the body (non-empty chunks), with or without a trailer
section: read back as the same message; whatever follows the final blank line is left. -/
theorem readRequest_wire_chunked (m : Msg) (h : WFReq m) (hch : isChunked m.te = true)
    (cs : List Bytes) (hcs : cs.flatten = m.body.getD []) (hne : ∀ c ∈ cs, c ≠ []) (rest : Bytes) :
    readRequest (wireChunkedAs m cs ++ rest) = .complete (reqParsed m) rest := by
  obtain ⟨hreq, hcode, hstatus, hm1, hm2, hm3, hm4, hmaj, hmin, hhost, hhdr, htr, hpr, hfr, hbody, htrl⟩ := h
  obtain ⟨b, hb⟩ := Option.isSome_iff_exists.mp hbody
  simp only [framingOK, hch, if_true, Bool.and_eq_true, decide_eq_true_eq, hb, Option.getD_some,
    beq_iff_eq] at hfr
  obtain ⟨⟨⟨hte, hcl⟩, h11⟩, hb62⟩ := hfr
  have hteF : teF m = [(teKey, chunkedTok)] := by simp [teF, hte, join_singleton]
  have hclF : clF m = [] := by simp [clF, hch]
  obtain ⟨auth, hauth, hhostv⟩ := host_resolved m hreq hhost
  have hvo : valueOK m.host = true := by simp only [hostOK, Bool.and_eq_true] at hhost; exact hhost.1
  have hexcl : ∀ k, (exclOf m).contains k = true → has (e2e m) k = false := has_e2e_excl m
  have hex : exclOf m = [hostKey, clKey, teKey] := by simp [exclOf, hreq]
  have he_host := hexcl hostKey (by rw [hex]; decide)
  have he_cl := hexcl clKey (by rw [hex]; decide)
  have he_te := hexcl teKey (by rw [hex]; decide)
  have hhead : headOf m = hostF m ++ (teKey, chunkedTok) :: e2e m := by simp [headOf, hteF, hclF]
  have hvalid : ∀ kv ∈ headOf m, ValidKV kv = true := by
    intro kv hkv
    rw [hhead] at hkv
    rcases List.mem_append.mp hkv with hkv | hkv
    · exact valid_hostF m hvo kv hkv
    · rcases List.mem_cons.mp hkv with rfl | hkv
      · exact validKV_host_te_cl.1
      · exact valid_e2e m hhdr kv hkv
  have kn := keys_ne
  have hvh : vals (headOf m) hostKey = vals (hostF m) hostKey := by
    rw [hhead, vals_append, vals_cons]
    simp [kn.2.2.2.2.2.1, vals_eq_nil_of_has _ _ he_host]
  have hpragma : has (headOf m) pragmaKey = false := by
    rw [hhead, has_append, has_cons, has_hostF m _ kn.2.2.2.1, hpr]; simp [kn.2.2.2.2.2.2.2.2.1]
  have htev : vals (headOf m) teKey = [chunkedTok] := by
    rw [hhead, vals_append, vals_cons, vals_hostF m _ kn.1, vals_eq_nil_of_has _ _ he_te]; simp
  have hdelte : del (headOf m) teKey = hostF m ++ e2e m := by
    rw [hhead, del_append, del_hostF_ne m _ kn.1, del_cons, del_eq_self_of_has _ _ he_te]; simp
  have hdel : del (hostF m ++ e2e m) hostKey = e2e m := by
    rw [del_append, del_hostF, del_eq_self_of_has _ _ he_host]; simp
  have hcl' : has (hostF m ++ e2e m) clKey = false := by
    rw [has_append, has_hostF m _ kn.2.1, he_cl]; rfl
  have htr' : has (hostF m ++ e2e m) trailerKey = false := by
    rw [has_append, has_hostF m _ kn.2.2.1, htr]; rfl
  have h11' : ((m.major == 0 && m.minor == 0) || decide (m.major > 1) || (m.major == 1 && decide (m.minor ≥ 1))) = true := by
    simp only [atLeast11] at h11; simp only [Bool.or_eq_true] at h11 ⊢; rcases h11 with h | h
    · exact Or.inl (Or.inr h)
    · exact Or.inr h
  -- the trailer section
  have hne' : ∀ c ∈ cs, c ≠ [] ∧ c.length < 2 ^ 62 := by
    intro c hc
    refine ⟨hne c hc, ?_⟩
    have : c.length ≤ cs.flatten.length := length_le_flatten cs c hc
    rw [hcs, hb] at this; simp at this; omega
  obtain ⟨trv, htrv, hrt⟩ : ∃ trv, trv = m.trailer ∧
      readTrailer none (fields (sortKV (m.trailer.getD [])) ++ crlf ++ rest) = .complete trv rest := by
    cases ht : m.trailer with
    | none => exact ⟨none, rfl, by simpa [fields, sortKV] using readTrailer_none none rest⟩
    | some t =>
      simp only [trailerOK, ht, Bool.and_eq_true, Bool.not_eq_true', decide_eq_true_eq, beq_iff_eq] at htrl
      obtain ⟨⟨⟨⟨_, hte0⟩, htv⟩, hts⟩, htl⟩ := htrl
      have htne : t ≠ [] := by intro e; simp [e] at hte0
      refine ⟨some t, rfl, ?_⟩
      simp only [Option.getD_some, hts]
      have := readTrailer_fields none t htne (fun kv hkv => List.all_eq_true.mp htv kv hkv) htl rest
      rw [hts] at this; exact this
  have hwire : wireChunkedAs m cs ++ rest = m.method ++ [32] ++ m.url ++ [32] ++ protoBytes m.major m.minor ++ crlf
      ++ fields (headOf m) ++ crlf ++ (chunkStream cs ++ (fields (sortKV (m.trailer.getD [])) ++ crlf) ++ rest) := by
    simp [wireChunkedAs, headSection_eq, startLine, hreq]
  unfold readRequest
  rw [hwire, readRequestHead_serialized m.method m.url m.major m.minor auth (headOf m) _
    hm1 hm2 hm3 hm4 hauth hmaj hmin hvalid (by rw [hvh]; exact vals_hostF_host_le m)]
  rw [fixPragma_id _ hpragma, hvh, hhostv]
  rw [readTransfer_chunked false m.method 200 m.major m.minor _ (headOf m) chunkedTok htev (by decide) h11'
    (by rw [hdelte]; exact hcl') (by rw [hdelte]; exact htr') (by simp) (by decide)]
  simp only [liftE, finishBody, hdelte, hdel]
  rw [readBody_chunked cs hne' _ trv rest hrt]
  have hpcl : parsedCL m = m.cl := by simp [parsedCL, hch]
  simp only [reqParsed, parsedHdr, hclF, reqSkeleton, hcs, hb, Option.getD_some, htrv, hpcl]
  congr 1
  cases m
  simp_all

/-- C15 / C01: the wire form of a well-formed request re-parses to the request (header list: the
end-to-end fields plus the explicit `Content-Length`), and not one byte of what follows is touched. -/
theorem readRequest_wire (m : Msg) (h : WFReq m) (rest : Bytes) :
    readRequest (wire m ++ rest) = .complete (reqParsed m) rest := by
  cases hch : isChunked m.te with
  | false =>
    by_cases hcl0 : 0 ≤ m.cl
    · exact readRequest_wire_cl m h hch hcl0 rest
    · have hfr := h.2.2.2.2.2.2.2.2.2.2.2.2.2.1
      simp only [framingOK, hch, Bool.false_eq_true, if_false, Bool.and_eq_true, decide_eq_true_eq,
        Bool.or_eq_true, beq_iff_eq] at hfr
      have hcl : m.cl = -1 := by
        rcases hfr.2 with ⟨hc, _⟩ | ⟨⟨h0, _⟩, _⟩
        · exact hc
        · omega
      exact readRequest_wire_nobody m h hch hcl rest
  | true =>
    rw [wire_chunked m hch]
    apply readRequest_wire_chunked m h hch
    · split <;> simp_all
    · intro c hc; split at hc <;> simp_all

/-! ### pipelining -/

theorem wire_length_pos (m : Msg) : 2 ≤ (wire m).length := by
  simp [wire, headSection_eq, crlf]; omega

theorem flatMap_wire_length (ms : List Msg) : ms.length ≤ (ms.flatMap wire).length := by
  induction ms with
  | nil => simp
  | cons m r ih =>
    have := wire_length_pos m
    simp only [List.flatMap_cons, List.length_append, List.length_cons]; omega

/-- Any number of well-formed requests written back to back are recovered one by one, in order,
each exactly, with nothing left over. -/
theorem readRequests_pipelined (ms : List Msg) (h : ∀ m ∈ ms, WFReq m) (fuel : Nat) (hf : ms.length < fuel) :
    readRequests fuel (ms.flatMap wire) = ⟨ms.map reqParsed, none⟩ := by
  induction ms generalizing fuel with
  | nil =>
    obtain ⟨f, rfl⟩ : ∃ f, fuel = f + 1 := ⟨fuel - 1, by simp at hf; omega⟩
    simp [readRequests]
  | cons m r ih =>
    obtain ⟨f, rfl⟩ : ∃ f, fuel = f + 1 := ⟨fuel - 1, by simp at hf; omega⟩
    have hw := wire_length_pos m
    have hne : (wire m ++ r.flatMap wire).isEmpty = false := by
      cases hq : wire m with
      | nil => simp [hq] at hw
      | cons c t => rfl
    simp only [List.flatMap_cons, List.map_cons]
    unfold readRequests
    simp only [hne, Bool.false_eq_true, if_false, readRequest_wire m (h m (by simp)) (r.flatMap wire)]
    have : ¬ (r.flatMap wire).length ≥ (wire m ++ r.flatMap wire).length := by simp; omega
    simp only [this, if_false]
    rw [ih (fun m hm => h m (by simp [hm])) f (by simp at hf; omega)]

theorem readAllRequests_pipelined (ms : List Msg) (h : ∀ m ∈ ms, WFReq m) :
    readAllRequests (ms.flatMap wire) = ⟨ms.map reqParsed, none⟩ :=
  readRequests_pipelined ms h _ (by have := flatMap_wire_length ms; omega)

/-! ### responses -/

/-- `m.status` is three digits (the code) and, optionally, a space and a reason phrase. -/
def statusOK (m : Msg) : Bool :=
  let codeB := codeOf m.status
  codeB.length == 3 && codeB.all isDigit && digitsVal codeB 0 == m.code && m.status.all (· != 10)

theorem protoBytes_no_sp (a b : Nat) (ha : a < 10) (hb : b < 10) : ∀ c ∈ protoBytes a b, c ≠ 32 := by
  rw [protoBytes_eq a b ha hb]
  have h1 := (isDigit_props _ (isDigit_dg a ha).1).2.1
  have h2 := (isDigit_props _ (isDigit_dg b hb).1).2.1
  intro c hc
  simp only [List.mem_cons, List.not_mem_nil, or_false] at hc
  rcases hc with rfl | rfl | rfl | rfl | rfl | rfl | rfl | rfl <;> first | decide | (intro h; simp [h, isOWS] at h1 h2)

/-- The `Connection` field is dropped from a response that announces `close` (HTTP/1.1 up). -/
def dropConn (major minor : Nat) (hs : List KV) : Bool :=
  decide (major ≥ 1) && !(major == 1 && minor == 0) && shouldClose major minor hs

def connDropped (major minor : Nat) (hs : List KV) : List KV :=
  if dropConn major minor hs then del hs connKey else hs

/-- Any status line `HTTP/a.b ddd[ reason]` followed by any list of valid fields and the blank line:
the reader recovers version, status and exactly that field list, then frames the body by
`readTransfer`. -/
theorem readResponseHead_serialized (meth : Bytes) (m : Msg) (hs : List KV) (X : Bytes)
    (hmaj : m.major < 10) (hmin : m.minor < 10) (hst : statusOK m = true)
    (hv : ∀ kv ∈ hs, ValidKV kv = true) :
    readResponseHead meth (protoBytes m.major m.minor ++ [32] ++ m.status ++ crlf ++ fields hs ++ crlf ++ X) =
      liftE (readTransfer true meth m.code m.major m.minor (shouldClose m.major m.minor (fixPragma hs))
              (connDropped m.major m.minor (fixPragma hs))) fun t =>
        .complete (resSkeleton m.major m.minor m.code m.status, t) X := by
  simp only [statusOK, Bool.and_eq_true, beq_iff_eq] at hst
  obtain ⟨⟨⟨hc3, hcd⟩, hcv⟩, hnolf'⟩ := hst
  have hsnolf : ∀ c ∈ m.status, c ≠ 10 := by
    intro c hc; have := List.all_eq_true.mp hnolf' c hc; simpa using this
  have hnolf : ∀ c ∈ protoBytes m.major m.minor ++ [32] ++ m.status, c ≠ 10 := by
    intro c hc
    simp only [List.mem_append, List.mem_singleton] at hc
    rcases hc with (hc | hc) | hc
    · exact protoBytes_no_lf _ _ hmaj hmin c hc
    · subst hc; decide
    · exact hsnolf c hc
  have hform : protoBytes m.major m.minor ++ [32] ++ m.status ++ crlf ++ fields hs ++ crlf ++ X
      = (protoBytes m.major m.minor ++ [32] ++ m.status) ++ crlf ++ (fields hs ++ crlf ++ X) := by simp
  -- the status starts with a digit
  have hhead : ∃ d r, m.status = d :: r ∧ isDigit d = true := by
    unfold codeOf at hc3 hcd
    cases hq : cut 32 m.status with
    | none =>
      simp only [hq] at hc3 hcd
      cases hs' : m.status with
      | nil => simp [hs'] at hc3
      | cons d r => exact ⟨d, r, rfl, by rw [hs'] at hcd; simp at hcd; exact hcd.1⟩
    | some p =>
      obtain ⟨c, r⟩ := p
      simp only [hq] at hc3 hcd
      have := (cut_eq_some 32 _ _ _ hq).1
      cases c with
      | nil => simp at hc3
      | cons d c' => exact ⟨d, c' ++ 32 :: r, by rw [this]; simp, by simp at hcd; exact hcd.1⟩
  obtain ⟨d, r, hdr, hd⟩ := hhead
  have hd32 : (d == 32) = false := by
    have := (isDigit_props d hd).2.1; simp [isOWS] at this; simp [this.1]
  have hdw : (m.status.dropWhile (· == 32)) = m.status := by rw [hdr]; simp [List.dropWhile, hd32]
  rw [hform]
  unfold readResponseHead
  rw [readLine_crlf _ _ hnolf]
  have hcut : cut 32 (protoBytes m.major m.minor ++ [32] ++ m.status) = some (protoBytes m.major m.minor, m.status) := by
    have : protoBytes m.major m.minor ++ [32] ++ m.status = protoBytes m.major m.minor ++ 32 :: m.status := by simp
    rw [this]; exact cut_append 32 _ _ (protoBytes_no_sp _ _ hmaj hmin)
  simp only [hcut, hdw]
  have hc3' : ((codeOf m.status).length != 3) = false := by
    simp [hc3]
  simp only [hc3', Bool.false_eq_true, if_false, hcd, Bool.not_true, parseHTTPVersion_proto _ _ hmaj hmin,
    readHeader_fields hs hv, hcv]
  simp only [connDropped, dropConn]
  congr 1

/-- Framing of a response that carries a body (not an answer to HEAD, not 1xx / 204 / 304):
`chunked` (HTTP/1.1 up), or a `Content-Length` equal to the body length, or neither (`cl = -1`,
close-delimited). -/
def framingResOK (m : Msg) : Bool :=
  if isChunked m.te then
    m.te == [chunkedTok] && m.cl == -1 && atLeast11 m && decide ((m.body.getD []).length < 2 ^ 62)
  else
    m.te.isEmpty && m.trailer.isNone &&
      (m.cl == -1 || (decide (0 ≤ m.cl) && decide (m.cl < 2 ^ 63) && decide (((m.body.getD []).length : Int) = m.cl)))

/-- A response with a body, as an origin sends it or the proxy relays it. Decidable. -/
def WFRes (meth : Bytes) (m : Msg) : Prop :=
  m.isReq = false ∧ m.method = [] ∧ m.url = [] ∧ m.host = [] ∧
  (meth == headTok) = false ∧ (m.code / 100 == 1 || m.code == 204 || m.code == 304) = false ∧
  m.major < 10 ∧ m.minor < 10 ∧ statusOK m = true ∧
  m.hdr.all ValidKV = true ∧ has (e2e m) trailerKey = false ∧ has (e2e m) pragmaKey = false ∧
  framingResOK m = true ∧ m.body.isSome = true ∧ trailerOK m = true

instance (meth : Bytes) (m : Msg) : Decidable (WFRes meth m) := by unfold WFRes; infer_instance

/-- The response is delimited by its length (`Content-Length` or chunked), not by the close. -/
def lengthDelimited (m : Msg) : Bool := isChunked m.te || decide (0 ≤ m.cl)

def resHdr (m : Msg) : List KV :=
  sortKV (if dropConn m.major m.minor (headOf m) then del (clF m ++ e2e m) connKey else clF m ++ e2e m)

def resParsed (m : Msg) : Parsed :=
  ⟨{ m with hdr := resHdr m }, shouldClose m.major m.minor (headOf m) || !lengthDelimited m, none⟩

theorem has_iff_vals (l : List KV) (k : Bytes) : has l k = false ↔ vals l k = [] :=
  ⟨vals_eq_nil_of_has l k, has_of_vals_nil l k⟩

theorem vals_connDropped (maj min : Nat) (l : List KV) (k : Bytes) (hk : (connKey == k) = false) :
    vals (connDropped maj min l) k = vals l k := by
  unfold connDropped; split
  · exact vals_del_ne l k connKey hk
  · rfl

theorem has_connDropped (maj min : Nat) (l : List KV) (k : Bytes) (hk : (connKey == k) = false)
    (h : has l k = false) : has (connDropped maj min l) k = false := by
  rw [has_iff_vals] at h ⊢; rw [vals_connDropped maj min l k hk]; exact h

theorem conn_ne : (connKey == teKey) = false ∧ (connKey == clKey) = false ∧ (connKey == trailerKey) = false ∧
    (connKey == pragmaKey) = false := by decide

/-- A response with a body, in any of the three framings. For the length-delimited ones the bytes
that follow are left untouched; a close-delimited response takes everything up to the end. -/
theorem readResponse_wire_framed (meth : Bytes) (m : Msg) (h : WFRes meth m)
    (cs : List Bytes) (hcs : cs.flatten = m.body.getD []) (hne : ∀ c ∈ cs, c ≠ []) (rest : Bytes)
    (hrest : lengthDelimited m = false → rest = []) :
    readResponse meth ((if isChunked m.te then wireChunkedAs m cs else wire m) ++ rest) =
      .complete (resParsed m) rest := by
  obtain ⟨hreq, hmeth, hurl, hhost, hhd, hnb, hmaj, hmin, hst, hhdr, htr, hpr, hfr, hbody, htrl⟩ := h
  obtain ⟨b, hb⟩ := Option.isSome_iff_exists.mp hbody
  have hexcl : ∀ k, (exclOf m).contains k = true → has (e2e m) k = false := has_e2e_excl m
  have hex : exclOf m = [clKey, teKey] := by simp [exclOf, hreq]
  have he_cl := hexcl clKey (by rw [hex]; decide)
  have he_te := hexcl teKey (by rw [hex]; decide)
  have hhostF : hostF m = [] := by simp [hostF, hreq]
  have kn := keys_ne
  have cn := conn_ne
  have hstart : startLine m = protoBytes m.major m.minor ++ [32] ++ m.status := by simp [startLine, hreq]
  cases hch : isChunked m.te with
  | true =>
    simp only [framingResOK, hch, if_true, Bool.and_eq_true, decide_eq_true_eq, hb, Option.getD_some,
      beq_iff_eq] at hfr
    obtain ⟨⟨⟨hte, hcl⟩, h11⟩, hb62⟩ := hfr
    have hteF : teF m = [(teKey, chunkedTok)] := by simp [teF, hte, join_singleton]
    have hclF : clF m = [] := by simp [clF, hch]
    have hhead : headOf m = (teKey, chunkedTok) :: e2e m := by simp [headOf, hteF, hclF, hhostF]
    have hvalid : ∀ kv ∈ headOf m, ValidKV kv = true := by
      intro kv hkv; rw [hhead] at hkv
      rcases List.mem_cons.mp hkv with rfl | hkv
      · exact validKV_host_te_cl.1
      · exact valid_e2e m hhdr kv hkv
    have hpragma : has (headOf m) pragmaKey = false := by
      rw [hhead, has_cons, hpr]; simp [kn.2.2.2.2.2.2.2.2.1]
    have htev : vals (headOf m) teKey = [chunkedTok] := by
      rw [hhead, vals_cons, vals_eq_nil_of_has _ _ he_te]; simp
    have hdelte : del (headOf m) teKey = e2e m := by
      rw [hhead, del_cons, del_eq_self_of_has _ _ he_te]; simp
    have h11' : ((m.major == 0 && m.minor == 0) || decide (m.major > 1) || (m.major == 1 && decide (m.minor ≥ 1))) = true := by
      simp only [atLeast11] at h11; simp only [Bool.or_eq_true] at h11 ⊢; rcases h11 with h | h
      · exact Or.inl (Or.inr h)
      · exact Or.inr h
    have hne' : ∀ c ∈ cs, c ≠ [] ∧ c.length < 2 ^ 62 := by
      intro c hc
      refine ⟨hne c hc, ?_⟩
      have : c.length ≤ cs.flatten.length := length_le_flatten cs c hc
      rw [hcs, hb] at this; simp at this; omega
    obtain ⟨trv, htrv, hrt⟩ : ∃ trv, trv = m.trailer ∧
        readTrailer none (fields (sortKV (m.trailer.getD [])) ++ crlf ++ rest) = .complete trv rest := by
      cases ht : m.trailer with
      | none => exact ⟨none, rfl, by simpa [fields, sortKV] using readTrailer_none none rest⟩
      | some t =>
        simp only [trailerOK, ht, Bool.and_eq_true, Bool.not_eq_true', decide_eq_true_eq, beq_iff_eq] at htrl
        obtain ⟨⟨⟨⟨_, hte0⟩, htv⟩, hts⟩, htl⟩ := htrl
        have htne : t ≠ [] := by intro e; simp [e] at hte0
        refine ⟨some t, rfl, ?_⟩
        simp only [Option.getD_some, hts]
        have := readTrailer_fields none t htne (fun kv hkv => List.all_eq_true.mp htv kv hkv) htl rest
        rw [hts] at this; exact this
    have hwire : wireChunkedAs m cs ++ rest = protoBytes m.major m.minor ++ [32] ++ m.status ++ crlf
        ++ fields (headOf m) ++ crlf ++ (chunkStream cs ++ (fields (sortKV (m.trailer.getD [])) ++ crlf) ++ rest) := by
      simp [wireChunkedAs, headSection_eq, hstart]
    simp only [if_true]
    unfold readResponse
    rw [hwire, readResponseHead_serialized meth m (headOf m) _ hmaj hmin hst hvalid, fixPragma_id _ hpragma]
    rw [readTransfer_chunked true meth m.code m.major m.minor _ _ chunkedTok
      (by rw [vals_connDropped _ _ _ _ cn.1]; exact htev) (by decide) h11'
      (by unfold connDropped; split
          · rw [del_comm, hdelte]; exact has_del_of_has _ _ _ he_cl
          · rw [hdelte]; exact he_cl)
      (by unfold connDropped; split
          · rw [del_comm, hdelte]; exact has_del_of_has _ _ _ htr
          · rw [hdelte]; exact htr)
      (by simp [hhd]) hnb]
    simp only [liftE, finishBody]
    rw [readBody_chunked cs hne' _ trv rest hrt]
    have hhdrEq : del (connDropped m.major m.minor (headOf m)) teKey
        = (if dropConn m.major m.minor (headOf m) then del (clF m ++ e2e m) connKey else clF m ++ e2e m) := by
      unfold connDropped; split
      · rw [del_comm, hdelte, hclF]; rfl
      · rw [hdelte, hclF]; rfl
    simp only [resParsed, resHdr, lengthDelimited, hch, hhdrEq, resSkeleton, hcs, hb, Option.getD_some, htrv]
    congr 1
    · cases m; simp_all
  | false =>
    simp only [framingResOK, hch, Bool.false_eq_true, if_false, Bool.and_eq_true, decide_eq_true_eq, hb,
      Option.getD_some, Bool.or_eq_true, beq_iff_eq] at hfr
    obtain ⟨⟨hte, htrn⟩, hclc⟩ := hfr
    have hteF : teF m = [] := by simp [teF, hte]
    have hwire : wire m ++ rest = protoBytes m.major m.minor ++ [32] ++ m.status ++ crlf
        ++ fields (headOf m) ++ crlf ++ (b ++ rest) := by
      simp [wire, hch, headSection_eq, hstart, hb]
    simp only [Bool.false_eq_true, if_false]
    rcases hclc with hcl | ⟨⟨hcl0, hcl63⟩, hlen⟩
    · -- close-delimited
      have hclF : clF m = [] := by simp [clF, hch, hcl]
      have hhead : headOf m = e2e m := by simp [headOf, hteF, hclF, hhostF]
      have hvalid : ∀ kv ∈ headOf m, ValidKV kv = true := by rw [hhead]; exact valid_e2e m hhdr
      have hrest' : rest = [] := hrest (by simp [lengthDelimited, hch, hcl])
      subst hrest'
      unfold readResponse
      rw [hwire, readResponseHead_serialized meth m (headOf m) _ hmaj hmin hst hvalid,
        fixPragma_id _ (by rw [hhead]; exact hpr)]
      rw [readTransfer_res_eof meth m.code m.major m.minor _ _
        (has_connDropped _ _ _ _ cn.1 (by rw [hhead]; exact he_te))
        (has_connDropped _ _ _ _ cn.2.1 (by rw [hhead]; exact he_cl)) hhd hnb]
      simp only [liftE, finishBody, List.append_nil, readBody_eof]
      simp only [resParsed, resHdr, lengthDelimited, hch, hcl, resSkeleton, hclF, connDropped, hhead]
      congr 1
      · cases m; simp_all
    · -- Content-Length
      obtain ⟨n, hn⟩ : ∃ n : Nat, m.cl = n := ⟨m.cl.toNat, by omega⟩
      have hclF : clF m = [(clKey, natDigits n)] := by simp [clF, hch, hcl0, hn, itoa_ofNat]
      have hbn : b.length = n := by omega
      have hn63 : n < 2 ^ 63 := by omega
      have hhead : headOf m = (clKey, natDigits n) :: e2e m := by simp [headOf, hteF, hclF, hhostF]
      have hvalid : ∀ kv ∈ headOf m, ValidKV kv = true := by
        intro kv hkv; rw [hhead] at hkv
        rcases List.mem_cons.mp hkv with rfl | hkv
        · simp [ValidKV, validKV_host_te_cl.2.2, valueOK_natDigits]
        · exact valid_e2e m hhdr kv hkv
      have hpragma : has (headOf m) pragmaKey = false := by
        rw [hhead, has_cons, hpr]; simp [kn.2.2.2.2.2.2.2.2.2.2.2.2.2.1]
      have hte' : has (headOf m) teKey = false := by
        rw [hhead, has_cons, he_te]; simp [kn.2.2.2.2.2.2.2.2.2.2.2.1]
      have hclv : vals (headOf m) clKey = [natDigits n] := by
        rw [hhead, vals_cons, vals_eq_nil_of_has _ _ he_cl]; simp
      have hnd : (trimLWS (natDigits n)).isEmpty = false := by
        rw [trimLWS_digits _ (natDigits_spec n).1]
        cases hq : natDigits n with
        | nil => exact absurd hq (natDigits_ne_nil n)
        | cons c r => rfl
      unfold readResponse
      rw [hwire, readResponseHead_serialized meth m (headOf m) _ hmaj hmin hst hvalid, fixPragma_id _ hpragma]
      rw [readTransfer_res_cl meth m.code m.major m.minor _ _ (natDigits n) n
        (has_connDropped _ _ _ _ cn.1 hte')
        (by rw [vals_connDropped _ _ _ _ cn.2.1]; exact hclv) hnd (parseCL_natDigits n hn63) hhd hnb]
      simp only [liftE, finishBody]
      have hrb : readBody (if n = 0 then BodyKind.none else BodyKind.len n) none (b ++ rest) = .complete (b, none) rest := by
        by_cases h0 : n = 0
        · have : b = [] := List.eq_nil_of_length_eq_zero (by omega)
          subst this; simp [h0, readBody]
        · simp only [h0, if_false]; rw [← hbn]; exact readBody_len b rest
      rw [hrb]
      simp only [resParsed, resHdr, lengthDelimited, hch, hcl0, resSkeleton, hclF, connDropped, hhead]
      congr 1
      · cases m; simp_all

/-! answers to HEAD -/

/-- An answer to HEAD without `Transfer-Encoding`: any announced length (or none), never a body. -/
def WFResHead (m : Msg) : Prop :=
  m.isReq = false ∧ m.method = [] ∧ m.url = [] ∧ m.host = [] ∧
  m.major < 10 ∧ m.minor < 10 ∧ statusOK m = true ∧
  m.hdr.all ValidKV = true ∧ has (e2e m) pragmaKey = false ∧
  m.te = [] ∧ -1 ≤ m.cl ∧ m.cl < 2 ^ 63 ∧ m.body = some [] ∧ m.trailer = none

instance (m : Msg) : Decidable (WFResHead m) := by unfold WFResHead; infer_instance

def resParsedHead (m : Msg) : Parsed :=
  ⟨{ m with hdr := resHdr m }, shouldClose m.major m.minor (headOf m), none⟩

/-- The head of an answer to HEAD is read as a complete message; what follows it is untouched. -/
theorem readResponse_head (m : Msg) (h : WFResHead m) (rest : Bytes) :
    readResponse headTok (headSection m ++ rest) = .complete (resParsedHead m) rest := by
  obtain ⟨hreq, hmeth, hurl, hhost, hmaj, hmin, hst, hhdr, hpr, hte, hclm, hcl63, hbody, htrn⟩ := h
  have hexcl : ∀ k, (exclOf m).contains k = true → has (e2e m) k = false := has_e2e_excl m
  have hex : exclOf m = [clKey, teKey] := by simp [exclOf, hreq]
  have he_cl := hexcl clKey (by rw [hex]; decide)
  have he_te := hexcl teKey (by rw [hex]; decide)
  have hhostF : hostF m = [] := by simp [hostF, hreq]
  have hteF : teF m = [] := by simp [teF, hte]
  have hch : isChunked m.te = false := by simp [hte, isChunked]
  have kn := keys_ne
  have cn := conn_ne
  have hstart : startLine m = protoBytes m.major m.minor ++ [32] ++ m.status := by simp [startLine, hreq]
  have hwire : headSection m ++ rest = protoBytes m.major m.minor ++ [32] ++ m.status ++ crlf
      ++ fields (headOf m) ++ crlf ++ rest := by
    simp [headSection_eq, hstart]
  by_cases hcl : m.cl = -1
  · have hclF : clF m = [] := by simp [clF, hch, hcl]
    have hhead : headOf m = e2e m := by simp [headOf, hteF, hclF, hhostF]
    have hvalid : ∀ kv ∈ headOf m, ValidKV kv = true := by rw [hhead]; exact valid_e2e m hhdr
    unfold readResponse
    rw [hwire, readResponseHead_serialized headTok m (headOf m) _ hmaj hmin hst hvalid,
      fixPragma_id _ (by rw [hhead]; exact hpr)]
    rw [readTransfer_res_head_none m.code m.major m.minor _ _
      (has_connDropped _ _ _ _ cn.1 (by rw [hhead]; exact he_te))
      (has_connDropped _ _ _ _ cn.2.1 (by rw [hhead]; exact he_cl))]
    simp only [liftE, finishBody, readBody_none]
    simp only [resParsedHead, resHdr, resSkeleton, hclF, connDropped, hhead]
    congr 1
    · cases m; simp_all
  · obtain ⟨n, hn⟩ : ∃ n : Nat, m.cl = n := ⟨m.cl.toNat, by omega⟩
    have hcl0 : 0 ≤ m.cl := by omega
    have hclF : clF m = [(clKey, natDigits n)] := by simp [clF, hch, hcl0, hn, itoa_ofNat]
    have hn63 : n < 2 ^ 63 := by omega
    have hhead : headOf m = (clKey, natDigits n) :: e2e m := by simp [headOf, hteF, hclF, hhostF]
    have hvalid : ∀ kv ∈ headOf m, ValidKV kv = true := by
      intro kv hkv; rw [hhead] at hkv
      rcases List.mem_cons.mp hkv with rfl | hkv
      · simp [ValidKV, validKV_host_te_cl.2.2, valueOK_natDigits]
      · exact valid_e2e m hhdr kv hkv
    have hpragma : has (headOf m) pragmaKey = false := by
      rw [hhead, has_cons, hpr]; simp [kn.2.2.2.2.2.2.2.2.2.2.2.2.2.1]
    have hte' : has (headOf m) teKey = false := by
      rw [hhead, has_cons, he_te]; simp [kn.2.2.2.2.2.2.2.2.2.2.2.1]
    have hclv : vals (headOf m) clKey = [natDigits n] := by
      rw [hhead, vals_cons, vals_eq_nil_of_has _ _ he_cl]; simp
    have hnd : (trimLWS (natDigits n)).isEmpty = false := by
      rw [trimLWS_digits _ (natDigits_spec n).1]
      cases hq : natDigits n with
      | nil => exact absurd hq (natDigits_ne_nil n)
      | cons c r => rfl
    unfold readResponse
    rw [hwire, readResponseHead_serialized headTok m (headOf m) _ hmaj hmin hst hvalid, fixPragma_id _ hpragma]
    rw [readTransfer_res_head_cl m.code m.major m.minor _ _ (natDigits n) n
      (has_connDropped _ _ _ _ cn.1 hte')
      (by rw [vals_connDropped _ _ _ _ cn.2.1]; exact hclv) hnd (parseCL_natDigits n hn63)]
    simp only [liftE, finishBody, readBody_none]
    simp only [resParsedHead, resHdr, resSkeleton, hclF, connDropped, hhead]
    congr 1
    · cases m; simp_all

/-- The wire form `wire m` itself (one chunk when chunked). -/
theorem readResponse_wire (meth : Bytes) (m : Msg) (h : WFRes meth m) (rest : Bytes)
    (hrest : lengthDelimited m = false → rest = []) :
    readResponse meth (wire m ++ rest) = .complete (resParsed m) rest := by
  have := readResponse_wire_framed meth m h (if (m.body.getD []).isEmpty then [] else [m.body.getD []])
    (by split <;> simp_all) (by intro c hc; split at hc <;> simp_all) rest hrest
  cases hch : isChunked m.te with
  | false => simpa [hch] using this
  | true => rw [wire_chunked m hch]; simpa [hch] using this

/-- Responses on a kept-alive upstream connection (each length-delimited, none announcing close):
recovered one by one, in order, each matched to its request's method, nothing left over. -/
theorem readResponses_keptalive (xs : List (Bytes × Msg))
    (h : ∀ x ∈ xs, WFRes x.1 x.2 ∧ lengthDelimited x.2 = true ∧ (resParsed x.2).close = false) :
    readResponses (xs.map (·.1)) (xs.flatMap fun x => wire x.2) = ⟨xs.map fun x => resParsed x.2, none⟩ := by
  induction xs with
  | nil => simp [readResponses]
  | cons x r ih =>
    obtain ⟨hw, hl, hc⟩ := h x (by simp)
    simp only [List.map_cons, List.flatMap_cons]
    unfold readResponses
    rw [readResponse_wire x.1 x.2 hw _ (by intro hf; rw [hl] at hf; cases hf)]
    simp only [hc, Bool.false_eq_true, if_false]
    rw [ih (fun y hy => h y (by simp [hy]))]

/-! ### what the re-read header list is -/

/-- Every end-to-end field keeps its values, with multiplicity and in order. -/
theorem vals_e2e (m : Msg) (k : Bytes) (hk : (exclOf m).contains k = false) : vals (e2e m) k = vals m.hdr k := by
  rw [← vals_sortKV m.hdr k]
  simp only [e2e, vals, List.filter_filter]
  congr 1
  apply List.filter_congr
  intro kv _
  cases hq : kv.1 == k with
  | false => simp
  | true =>
    have : kv.1 = k := by simpa using hq
    simp only [this, Bool.and_true, Bool.not_eq_true']
    simpa using hk

theorem vals_clF_ne (m : Msg) (k : Bytes) (hk : (clKey == k) = false) : vals (clF m) k = [] := by
  unfold clF; split <;> simp [vals_cons, hk]

theorem vals_parsedHdr (m : Msg) (k : Bytes) (hk : (exclOf m).contains k = false) (hcl : (clKey == k) = false) :
    vals (parsedHdr m) k = vals m.hdr k := by
  rw [parsedHdr, vals_sortKV, vals_append, vals_clF_ne m k hcl, vals_e2e m k hk]; rfl

theorem vals_resHdr (m : Msg) (k : Bytes) (hk : (exclOf m).contains k = false) (hcl : (clKey == k) = false)
    (hconn : (connKey == k) = false) : vals (resHdr m) k = vals m.hdr k := by
  rw [resHdr, vals_sortKV]
  split
  · rw [vals_del_ne _ _ _ hconn, vals_append, vals_clF_ne m k hcl, vals_e2e m k hk]; rfl
  · rw [vals_append, vals_clF_ne m k hcl, vals_e2e m k hk]; rfl

/-- A full snapshot of a message without a trailer map is its wire form (the C15 theorem
`snapshot_is_wire_partial`, restated here for the sub-files of `Props/C15`). -/
theorem snapshot_message_eq_wire (o : Opts) (m : Msg) (hc : captures o m = true) (ht : m.trailer = none) :
    (snapshot o m).message = wire m := by
  unfold snapshot wire
  simp only [hc, if_true, trailerSection, ht, framedBody]
  cases hch : isChunked m.te <;> simp [fields, sortKV]

/-- F15a in the terms of this file: with a trailer map on a chunked message the snapshot is the
wire form minus its final CRLF. -/
theorem wire_eq_snapshot_crlf (o : Opts) (m : Msg) (t : List KV) (hc : captures o m = true)
    (ht : m.trailer = some t) (hch : isChunked m.te = true) : wire m = (snapshot o m).message ++ crlf := by
  unfold snapshot wire
  simp [hc, trailerSection, ht, framedBody, hch]

/-- A message already in the reader's normal form (header list sorted, carrying its own
`Content-Length` field) re-parses to itself, field for field. -/
theorem reqParsed_msg_of_normal (m : Msg) (h : parsedHdr m = m.hdr) (hc : parsedCL m = m.cl) :
    (reqParsed m).msg = m := by
  cases m; simp_all [reqParsed]

theorem resParsed_msg_of_normal (m : Msg) (h : resHdr m = m.hdr) : (resParsed m).msg = m := by
  cases m; simp_all [resParsed]

end Martian.Http1
