import Martian.Model.Tunnel
/-! Lemmas about the relay loops and pumps of `Model/Tunnel.lean` (core Lean only). -/
namespace Martian.Tunnel
open Martian

theorem chunks_flatten (k : Nat) (bs : Bytes) : (chunks k bs).flatten = bs := by
  fun_induction chunks k bs with
  | case1 bs h => cases bs <;> simp_all
  | case2 bs h ih => simp [ih]

theorem chunks_nonempty (k : Nat) (bs : Bytes) : ∀ c ∈ chunks k bs, c ≠ [] := by
  fun_induction chunks k bs with
  | case1 bs h => simp
  | case2 bs h ih =>
    intro c hc
    simp at hc
    rcases hc with rfl | hc
    · cases bs with
      | nil => simp at h
      | cons b t => simp
    · exact ih c hc

@[simp] theorem bytesOf_append (a b : List Act) : bytesOf (a ++ b) = bytesOf a ++ bytesOf b := by
  induction a with
  | nil => simp [bytesOf]
  | cons x xs ih => cases x <;> simp [bytesOf, ih]

@[simp] theorem bytesOf_writes (cs : List Bytes) : bytesOf (cs.map .write) = cs.flatten := by
  induction cs with
  | nil => simp [bytesOf]
  | cons c cs ih => simp [bytesOf, ih]

/-- The write log of a relay loop: what each event makes it write. -/
def writesOf (l : Loop) : List Ev → List Bytes
  | [] => []
  | .data bs :: es => chunks (l.pred bs.length) bs ++ writesOf l es
  | .eof :: _ => []

theorem writesOf_flatten (l : Loop) (evs : List Ev) : (writesOf l evs).flatten = sentBy evs := by
  induction evs with
  | nil => simp [writesOf, sentBy]
  | cons e es ih => cases e <;> simp [writesOf, sentBy, chunks_flatten, ih]

theorem runFrom_finished (l : Loop) (p : Pump) (h : p.finished = true) (evs : List Ev) :
    Pump.runFrom l p evs = (p, []) := by
  induction evs with
  | nil => simp [Pump.runFrom]
  | cons e es ih => cases e <;> simp [Pump.runFrom, Pump.step, h, ih]

def closeActs : Bool → List Act
  | true => [.closeWrite]
  | false => []

def optWrite : Bytes → List Act
  | [] => []
  | b :: bs => [.write (b :: bs)]

/-- Shape of everything a running pump does: the writes, then — iff the source finished — one `closeWrite`. -/
theorem runFrom_shape (l : Loop) (p : Pump) (h : p.finished = false) (evs : List Ev) :
    Pump.runFrom l p evs =
      ({ p with finished := closes evs }, (writesOf l evs).map .write ++ closeActs (closes evs)) := by
  induction evs with
  | nil => cases p; simp_all [Pump.runFrom, closes, writesOf, closeActs]
  | cons e es ih =>
    cases e with
    | data bs => simp [Pump.runFrom, Pump.step, h, ih, closes, writesOf]
    | eof =>
      simp only [Pump.runFrom, Pump.step, h, closes, writesOf]
      rw [runFrom_finished l _ rfl]
      simp [closeActs]

theorem run_shape (l : Loop) (early : Bytes) (evs : List Ev) :
    Pump.run l ⟨early, false⟩ evs =
      (⟨[], closes evs⟩, optWrite early ++ ((writesOf l evs).map .write ++ closeActs (closes evs))) := by
  unfold Pump.run Pump.start
  cases early with
  | nil => simp [runFrom_shape, optWrite]
  | cons b bs => simp [runFrom_shape, optWrite]

@[simp] theorem bytesOf_optWrite (b : Bytes) : bytesOf (optWrite b) = b := by
  cases b <;> simp [bytesOf, optWrite]

@[simp] theorem bytesOf_closeActs (c : Bool) : bytesOf (closeActs c) = [] := by
  cases c <;> simp [bytesOf, closeActs]

theorem run_bytes (l : Loop) (early : Bytes) (evs : List Ev) :
    bytesOf (Pump.run l ⟨early, false⟩ evs).2 = early ++ sentBy evs := by
  simp [run_shape, writesOf_flatten]

theorem sentBy_append_of_open (a b : List Ev) (h : closes a = false) :
    sentBy (a ++ b) = sentBy a ++ sentBy b := by
  induction a with
  | nil => simp [sentBy]
  | cons e es ih => cases e <;> simp_all [sentBy, closes]

theorem sentBy_append_of_closed (a b : List Ev) (h : closes a = true) : sentBy (a ++ b) = sentBy a := by
  induction a with
  | nil => simp [closes] at h
  | cons e es ih => cases e <;> simp_all [sentBy, closes]

theorem mem_eof_iff_closes (evs : List Ev) : Ev.eof ∈ evs ↔ closes evs = true := by
  induction evs with
  | nil => simp [closes]
  | cons e es ih => cases e <;> simp_all [closes]

end Martian.Tunnel
