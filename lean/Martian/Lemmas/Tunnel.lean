import Martian.Model.Tunnel
/-! Lemmas about the relay loops and pumps of `Model/Tunnel.lean` (core Lean only). -/
namespace Martian.Tunnel
open Martian

theorem chunks_flatten (k : Nat) (bs : Bytes) : (chunks k bs).flatten = bs := by
  fun_induction chunks k bs with
  | case1 bs h => cases bs <;> simp_all
  | case2 bs h ih => simp [ih]

theorem chunks_nonempty (k : Nat) (bs : Bytes) : ∀ c ∈ chunks k bs, c ≠ [] := by
  fun_induction chunks k bs with
  | case1 bs h => simp
  | case2 bs h ih =>
    intro c hc
    simp at hc
    rcases hc with rfl | hc
    · cases bs with
      | nil => simp at h
      | cons b t => simp
    · exact ih c hc

@[simp] theorem bytesOf_append (a b : List Act) : bytesOf (a ++ b) = bytesOf a ++ bytesOf b := by
  induction a with
  | nil => simp [bytesOf]
  | cons x xs ih => cases x <;> simp [bytesOf, ih]

@[simp] theorem bytesOf_writes (cs : List Bytes) : bytesOf (cs.map .write) = cs.flatten := by
  induction cs with
  | nil => simp [bytesOf]
  | cons c cs ih => simp [bytesOf, ih]

/-- The write log of a relay loop: what each event makes it write, up to and including the event
that ends it. -/
def writesOf (l : Loop) : List Ev → List Bytes
  | [] => []
  | e :: es =>
    let ws := chunks (l.pred e.accepted.length) e.accepted
    match e.ending with
    | none => ws ++ writesOf l es
    | some _ => ws

theorem writesOf_flatten (l : Loop) (evs : List Ev) : (writesOf l evs).flatten = sentBy evs := by
  induction evs with
  | nil => simp [writesOf, sentBy]
  | cons e es ih =>
    cases h : e.ending <;> simp [writesOf, sentBy, h, chunks_flatten, ih]

theorem writesOf_nonempty (l : Loop) (evs : List Ev) : ∀ c ∈ writesOf l evs, c ≠ [] := by
  induction evs with
  | nil => simp [writesOf]
  | cons e es ih =>
    intro c hc
    cases h : e.ending with
    | none =>
      simp [writesOf, h] at hc
      rcases hc with hc | hc
      · exact chunks_nonempty _ _ c hc
      · exact ih c hc
    | some r =>
      simp [writesOf, h] at hc
      exact chunks_nonempty _ _ c hc

theorem runFrom_finished (l : Loop) (p : Pump) (h : p.finished = true) (evs : List Ev) :
    Pump.runFrom l p evs = (p, []) := by
  induction evs with
  | nil => simp [Pump.runFrom]
  | cons e es ih => simp [Pump.runFrom, Pump.step, h, ih]

def closeActs : Bool → List Act
  | true => [.closeWrite]
  | false => []

theorem closes_cons (e : Ev) (es : List Ev) :
    closes (e :: es) = (e.ending.isSome || closes es) := by
  cases h : e.ending <;> simp [closes, endOf, h]

/-- Shape of everything a running pump does: the writes, then — iff something ended the copy,
whatever it was — one `closeWrite`; and the pump records that reason. -/
theorem runFrom_shape (l : Loop) (held : Bytes) (evs : List Ev) :
    Pump.runFrom l ⟨held, none⟩ evs =
      (⟨held, endOf evs⟩, (writesOf l evs).map .write ++ closeActs (closes evs)) := by
  induction evs with
  | nil => simp [Pump.runFrom, closes, endOf, writesOf, closeActs]
  | cons e es ih =>
    cases h : e.ending with
    | none =>
      simp [Pump.runFrom, Pump.step, Pump.finished, h, ih, closes, endOf, writesOf]
    | some r =>
      simp only [Pump.runFrom, Pump.step, Pump.finished, h, closes, endOf, writesOf, Option.isSome]
      rw [runFrom_finished l _ (by simp [Pump.finished])]
      simp [closeActs]

theorem run_shape (l : Loop) (early : Bytes) (evs : List Ev) :
    Pump.run l (.fresh early) evs =
      (⟨[], endOf evs⟩, optWrite early ++ ((writesOf l evs).map .write ++ closeActs (closes evs))) := by
  unfold Pump.run Pump.start Pump.fresh
  cases early with
  | nil => simp [runFrom_shape, optWrite]
  | cons b bs => simp [runFrom_shape, optWrite]

@[simp] theorem bytesOf_optWrite (b : Bytes) : bytesOf (optWrite b) = b := by
  cases b <;> simp [bytesOf, optWrite]

@[simp] theorem bytesOf_closeActs (c : Bool) : bytesOf (closeActs c) = [] := by
  cases c <;> simp [bytesOf, closeActs]

@[simp] theorem bytesOf_releaseActs (r : Bool) (k : CloseKind) : bytesOf (releaseActs r k) = [] := by
  cases r <;> simp [bytesOf, releaseActs]

theorem run_bytes (l : Loop) (early : Bytes) (evs : List Ev) :
    bytesOf (Pump.run l (.fresh early) evs).2 = early ++ sentBy evs := by
  simp [run_shape, writesOf_flatten]

theorem run_finished (l : Loop) (early : Bytes) (evs : List Ev) :
    (Pump.run l (.fresh early) evs).1.finished = closes evs := by
  simp [run_shape, Pump.finished, closes]

theorem sentBy_append_of_open (a b : List Ev) (h : closes a = false) :
    sentBy (a ++ b) = sentBy a ++ sentBy b := by
  induction a with
  | nil => simp [sentBy]
  | cons e es ih =>
    cases he : e.ending with
    | none => simp_all [sentBy, closes_cons]
    | some r => simp [closes_cons, he] at h

theorem sentBy_append_of_closed (a b : List Ev) (h : closes a = true) : sentBy (a ++ b) = sentBy a := by
  induction a with
  | nil => simp [closes, endOf] at h
  | cons e es ih =>
    cases he : e.ending with
    | none => simp_all [sentBy, closes_cons]
    | some r => simp [sentBy, he]

theorem endOf_append_of_closed (a b : List Ev) (h : closes a = true) : endOf (a ++ b) = endOf a := by
  induction a with
  | nil => simp [closes, endOf] at h
  | cons e es ih =>
    cases he : e.ending with
    | none => simp_all [endOf, closes_cons]
    | some r => simp [endOf, he]

/-- A pump has ended iff one of its events was an ending one (EOF, read error, write error). -/
theorem closes_iff_exists_ending (evs : List Ev) :
    closes evs = true ↔ ∃ e ∈ evs, e.ending.isSome = true := by
  induction evs with
  | nil => simp [closes, endOf]
  | cons e es ih => simp [closes_cons, ih]

theorem mem_eof_closes (evs : List Ev) (h : Ev.eof ∈ evs) : closes evs = true :=
  (closes_iff_exists_ending evs).2 ⟨.eof, h, rfl⟩

theorem mem_rerr_closes (evs : List Ev) (h : Ev.rerr ∈ evs) : closes evs = true :=
  (closes_iff_exists_ending evs).2 ⟨.rerr, h, rfl⟩

/-- If only data and EOF events occur (no broken connection) the pump ends iff the side finished. -/
theorem closes_iff_mem_eof_of_clean (evs : List Ev)
    (hc : ∀ e ∈ evs, e.ending = none ∨ e = .eof) : closes evs = true ↔ Ev.eof ∈ evs := by
  constructor
  · intro h
    obtain ⟨e, he, hs⟩ := (closes_iff_exists_ending evs).1 h
    rcases hc e he with h0 | h0
    · simp [h0] at hs
    · exact h0 ▸ he
  · exact mem_eof_closes evs

@[simp] theorem finalClose_append_writes (ws : List Bytes) (as : List Act) :
    finalClose (ws.map Act.write ++ as) = finalClose as := by
  induction ws with
  | nil => simp
  | cons w ws ih => simp [finalClose, ih]

@[simp] theorem finalClose_optWrite (b : Bytes) (as : List Act) :
    finalClose (optWrite b ++ as) = finalClose as := by
  cases b <;> simp [optWrite, finalClose]

@[simp] theorem finalClose_closeActs (c : Bool) (as : List Act) :
    finalClose (closeActs c ++ as) = finalClose as := by
  cases c <;> simp [closeActs, finalClose]

@[simp] theorem finalClose_releaseActs (r : Bool) (k : CloseKind) :
    finalClose (releaseActs r k) = if r then some k else none := by
  cases r <;> simp [releaseActs, finalClose]

@[simp] theorem eofSeen_append (a b : List Act) : eofSeen (a ++ b) = (eofSeen a || eofSeen b) := by
  simp [eofSeen]

@[simp] theorem eofSeen_writes (ws : List Bytes) : eofSeen (ws.map Act.write) = false := by
  induction ws with
  | nil => simp [eofSeen]
  | cons w ws ih => simp_all [eofSeen]

@[simp] theorem eofSeen_optWrite (b : Bytes) : eofSeen (optWrite b) = false := by
  cases b <;> simp [optWrite, eofSeen]

@[simp] theorem eofSeen_closeActs (c : Bool) : eofSeen (closeActs c) = c := by
  cases c <;> simp [closeActs, eofSeen]

@[simp] theorem eofSeen_releaseActs (r : Bool) (k : CloseKind) : eofSeen (releaseActs r k) = false := by
  cases r <;> simp [releaseActs, eofSeen]

end Martian.Tunnel
