import Martian.Lemmas.MessageView
/-!
Any chunking of a body decodes to the body: the chunked reader model `dechunk` (transcribed from
net/http/internal's chunked reader, see Model/MessageView.lean) applied to ANY sequence of
non-empty chunks followed by the last-chunk yields the concatenation of the chunks.
Used by C01 ("byte-identical body however the origin framed it") and C15/C16.
-/
namespace Martian.MessageView
open Martian

/-- A chunked body: each chunk as `size-in-hex CRLF data CRLF`, then the last-chunk `0 CRLF`. -/
def chunkStream : List Bytes → Bytes
  | [] => [48, 13, 10]
  | c :: cs => hexDigits c.length ++ 13 :: 10 :: (c ++ 13 :: 10 :: chunkStream cs)

theorem chunkStream_length_ge (cs : List Bytes) : cs.length < (chunkStream cs).length := by
  induction cs with
  | nil => simp [chunkStream]
  | cons c r ih => simp [chunkStream]; omega

theorem dechunkAux_stream (cs : List Bytes) (hne : ∀ c ∈ cs, c ≠ []) (rest acc : Bytes) (fuel : Nat)
    (hf : cs.length < fuel) :
    dechunkAux fuel (chunkStream cs ++ rest) acc = some (acc ++ cs.flatten) := by
  induction cs generalizing acc fuel with
  | nil =>
    obtain ⟨k, rfl⟩ : ∃ k, fuel = k + 1 := ⟨fuel - 1, by simp at hf; omega⟩
    simpa [chunkStream] using dechunkAux_last k rest acc
  | cons d r ih =>
    obtain ⟨k, rfl⟩ : ∃ k, fuel = k + 1 := ⟨fuel - 1, by simp at hf; omega⟩
    have hd : d ≠ [] := hne d (by simp)
    have hall := hexDigits_all_hex d.length
    obtain ⟨n, hn⟩ : ∃ n, d.length = n + 1 := ⟨d.length - 1, by
      have : 0 < d.length := List.length_pos_iff.mpr hd
      omega⟩
    have hform : chunkStream (d :: r) ++ rest =
        hexDigits d.length ++ 13 :: 10 :: (d ++ 13 :: 10 :: (chunkStream r ++ rest)) := by
      simp [chunkStream]
    rw [hform, dechunkAux]
    simp only [splitLine_hex _ _ hall, trimRightWs_hex _ hall, removeChunkExt_hex _ hall, parseHexUint_hexDigits]
    rw [hn]
    have h1 : ¬ (d ++ 13 :: 10 :: (chunkStream r ++ rest)).length < n + 1 + 2 := by simp; omega
    have h2 : ((d ++ 13 :: 10 :: (chunkStream r ++ rest)).drop (n + 1)).take 2 = crlf := by
      rw [← hn]; simp [crlf]
    have h3 : (d ++ 13 :: 10 :: (chunkStream r ++ rest)).drop (n + 1 + 2) = chunkStream r ++ rest := by
      rw [← hn, List.drop_append]
      have hdd : List.drop (d.length + 2) d = [] := List.drop_eq_nil_of_le (by omega)
      rw [hdd]; simp
    have h4 : (d ++ 13 :: 10 :: (chunkStream r ++ rest)).take (n + 1) = d := by
      rw [← hn]; simp
    simp only [h1, if_false, h2, bne_self_eq_false, Bool.false_eq_true, h3, h4]
    rw [ih (fun c hc => hne c (by simp [hc])) (acc ++ d) k (by simp at hf; omega)]
    simp

/-- However a body is cut into (non-empty) chunks, the chunked reader returns their concatenation,
whatever follows the last-chunk (trailers, the next message of a pipelined connection). -/
theorem dechunk_chunkStream (cs : List Bytes) (hne : ∀ c ∈ cs, c ≠ []) (rest : Bytes) :
    dechunk (chunkStream cs ++ rest) = some cs.flatten := by
  unfold dechunk
  have := dechunkAux_stream cs hne rest [] ((chunkStream cs ++ rest).length + 1) (by
    have := chunkStream_length_ge cs
    simp; omega)
  simpa using this

/-- Two chunkings of the same bytes are indistinguishable to the reader: re-chunking by a relay
(any write sizes) cannot change the body the next hop reads. -/
theorem rechunking_preserves_body (cs cs' : List Bytes) (h : cs.flatten = cs'.flatten)
    (hne : ∀ c ∈ cs, c ≠ []) (hne' : ∀ c ∈ cs', c ≠ []) (rest rest' : Bytes) :
    dechunk (chunkStream cs ++ rest) = dechunk (chunkStream cs' ++ rest') := by
  rw [dechunk_chunkStream cs hne, dechunk_chunkStream cs' hne', h]

end Martian.MessageView
