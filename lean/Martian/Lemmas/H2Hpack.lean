import Martian.Lemmas.H2Relay
/-!
Helper lemmas for the SETTINGS theorems of C09 (`Props/C09/Settings.lean`) and the HPACK
table-size theorems of C08 (`Props/C08/Hpack.lean`): which fields of a relay an input touches, how
the two relays and their HPACK states sit side by side in `Sys`, and the sender-side notion of a
header block an encoder may legally emit.
-/
namespace Martian.H2Relay
open Martian Martian.H2Hpack

/-! ### Which inputs touch `initWin` / `maxFrame` -/

@[simp] theorem addWin_initWin (r : Relay) (s : Nat) (inc : Int) : (addWin r s inc).initWin = r.initWin := rfl
@[simp] theorem addWin_maxFrame (r : Relay) (s : Nat) (inc : Int) : (addWin r s inc).maxFrame = r.maxFrame := rfl

theorem rstep_maxFrame (r : Relay) (i : RIn) :
    (rstep r i).maxFrame = (match i with | .maxFrame v => v | _ => r.maxFrame) := by
  cases i with
  | windowUpdate sid inc order => simp only [rstep]; split <;> simp
  | credit sid flow => simp only [rstep]; split <;> rfl
  | _ => simp [rstep]

theorem rstep_initWin (r : Relay) (i : RIn) :
    (rstep r i).initWin = (match i with | .initWin v _ => v | _ => r.initWin) := by
  cases i with
  | windowUpdate sid inc order => simp only [rstep]; split <;> simp
  | credit sid flow => simp only [rstep]; split <;> rfl
  | _ => simp [rstep]

/-! ### `Sys` plumbing -/

@[simp] theorem relay_setRelay_same (s : Sys) (d : Dir) (r : Relay) : (s.setRelay d r).relay d = r := by
  cases d <;> rfl
@[simp] theorem relay_setRelay_peer (s : Sys) (d : Dir) (r : Relay) : (s.setRelay d r).relay d.peer = s.relay d.peer := by
  cases d <;> rfl
@[simp] theorem relay_setRelay_peer' (s : Sys) (d : Dir) (r : Relay) : (s.setRelay d.peer r).relay d = s.relay d := by
  cases d <;> rfl
@[simp] theorem hp_setRelay (s : Sys) (d e : Dir) (r : Relay) : (s.setRelay d r).hp e = s.hp e := by
  cases d <;> cases e <;> rfl
@[simp] theorem hp_on (s : Sys) (d e : Dir) (i : RIn) : (s.on d i).hp e = s.hp e := by simp [Sys.on]
@[simp] theorem relay_on_same (s : Sys) (d : Dir) (i : RIn) : (s.on d i).relay d = rstep (s.relay d) i := by
  simp [Sys.on]
@[simp] theorem relay_on_peer (s : Sys) (d : Dir) (i : RIn) : (s.on d i).relay d.peer = s.relay d.peer := by
  simp [Sys.on]
@[simp] theorem relay_on_peer' (s : Sys) (d : Dir) (i : RIn) : (s.on d.peer i).relay d = s.relay d := by
  simp [Sys.on]
@[simp] theorem relay_setHp (s : Sys) (d e : Dir) (h : Hp) : (s.setHp d h).relay e = s.relay e := by
  cases d <;> cases e <;> rfl
@[simp] theorem hp_setHp_same (s : Sys) (d : Dir) (h : Hp) : (s.setHp d h).hp d = h := by cases d <;> rfl
@[simp] theorem hp_setHp_peer (s : Sys) (d : Dir) (h : Hp) : (s.setHp d h).hp d.peer = s.hp d.peer := by
  cases d <;> rfl
@[simp] theorem hp_setHp_peer' (s : Sys) (d : Dir) (h : Hp) : (s.setHp d.peer h).hp d = s.hp d := by
  cases d <;> rfl
@[simp] theorem relay_setErr (s : Sys) (d e : Dir) : (s.setErr d).relay e = s.relay e := by
  cases d <;> cases e <;> rfl
@[simp] theorem hp_setErr (s : Sys) (d e : Dir) : (s.setErr d).hp e = s.hp e := by
  cases d <;> cases e <;> rfl
@[simp] theorem peer_peer (d : Dir) : d.peer.peer = d := by cases d <;> rfl
theorem peer_ne (d : Dir) : d.peer ≠ d := by cases d <;> simp [Dir.peer]

@[simp] theorem relay_encodeBlock (s : Sys) (d e : Dir) : (s.encodeBlock d).relay e = s.relay e := by
  cases d <;> cases e <;> rfl
theorem hp_encodeBlock_same (s : Sys) (d : Dir) :
    (s.encodeBlock d).hp d = { (s.hp d) with enc := (s.hp d).enc.flush.1 } := by
  cases d <;> rfl
@[simp] theorem hp_encodeBlock_peer (s : Sys) (d : Dir) : (s.encodeBlock d).hp d.peer = s.hp d.peer := by
  cases d <;> rfl
@[simp] theorem hp_encodeBlock_peer' (s : Sys) (d : Dir) : (s.encodeBlock d.peer).hp d = s.hp d := by
  cases d <;> rfl

/-- The CONTINUATION reassembly state of a direction, and `sysStep` in terms of it. -/
def Sys.dstate (s : Sys) : Dir → DState | .c2s => s.dc | .s2c => s.ds
def Sys.setDState (s : Sys) : Dir → DState → Sys
  | .c2s, x => { s with dc := x } | .s2c, x => { s with ds := x }

theorem sysStep_eq (s : Sys) (d : Dir) (f : Frame) (enc : Bytes) (order : List Nat) :
    sysStep s d f enc order =
      (dispatch (s.dstate d) f).2.foldlM (fun s c => applyCall s d enc order c) (s.setDState d (dispatch (s.dstate d) f).1) := by
  cases d <;> rfl

@[simp] theorem relay_setDState (s : Sys) (d e : Dir) (x : DState) : (s.setDState d x).relay e = s.relay e := by
  cases d <;> cases e <;> rfl
@[simp] theorem hp_setDState (s : Sys) (d e : Dir) (x : DState) : (s.setDState d x).hp e = s.hp e := by
  cases d <;> cases e <;> rfl

/-- One frame read by the relay of direction `d`, with the two implementation choices of that step. -/
structure Ev where
  d : Dir
  f : Frame
  enc : Bytes
  order : List Nat

/-- A history of frames through the two relays (`none`: a Go panic on the way). -/
def runSys : Sys → List Ev → Option Sys
  | s, [] => some s
  | s, e :: es =>
    match sysStep s e.d e.f e.enc e.order with
    | none => none
    | some s' => runSys s' es

/-! ### Encoder signalling -/

@[simp] theorem flush_maxSize (e : EncSig) : e.flush.1.maxSize = e.maxSize := by
  unfold EncSig.flush; split <;> rfl
@[simp] theorem flush_limit (e : EncSig) : e.flush.1.limit = e.limit := by
  unfold EncSig.flush; split <;> rfl
@[simp] theorem setMax_limit (e : EncSig) (v : Nat) : (e.setMax v).limit = e.limit := rfl
theorem setMax_maxSize (e : EncSig) (v : Nat) (h : v ≤ e.limit) : (e.setMax v).maxSize = v := by
  simp only [EncSig.setMax]
  split
  · omega
  · rfl

@[simp] theorem relay_encodeFull (s : Sys) (d e : Dir) (b : Bool) : (s.encodeFull d b).relay e = s.relay e := by
  cases b <;> cases d <;> cases e <;> rfl
@[simp] theorem hp_encodeFull_peer (s : Sys) (d : Dir) (b : Bool) : (s.encodeFull d b).hp d.peer = s.hp d.peer := by
  cases b <;> cases d <;> rfl
@[simp] theorem hp_encodeFull_peer' (s : Sys) (d : Dir) (b : Bool) : (s.encodeFull d.peer b).hp d = s.hp d := by
  cases b <;> cases d <;> rfl
@[simp] theorem encodeFull_maxSize (s : Sys) (d : Dir) (b : Bool) :
    ((s.encodeFull d b).hp d).enc.maxSize = (s.hp d).enc.maxSize := by
  cases b
  · simp [Sys.encodeFull, hp_encodeBlock_same]
  · cases d <;> rfl
@[simp] theorem encodeFull_limit (s : Sys) (d : Dir) (b : Bool) :
    ((s.encodeFull d b).hp d).enc.limit = (s.hp d).enc.limit := by
  cases b
  · simp [Sys.encodeFull, hp_encodeBlock_same]
  · cases d <;> rfl
@[simp] theorem encodeFull_dec (s : Sys) (d : Dir) (b : Bool) :
    ((s.encodeFull d b).hp d).dec = (s.hp d).dec := by
  cases b
  · simp [Sys.encodeFull, hp_encodeBlock_same]
  · cases d <;> rfl

/-! ### What the sender of header blocks may emit -/

/-- The encoder of a relay's SOURCE endpoint as far as the relay depends on it: its dynamic table
and the SETTINGS_HEADER_TABLE_SIZE of its peer that it has acknowledged (4096 before any). -/
structure Snd where
  tab : DynTab := {}
  limit : Nat := 4096
deriving DecidableEq, Repr

/-- The field representations of a block (after the leading size updates), run against the
encoder's own table: `none` = not emittable (reference to an entry that is not there, or a size
update that is not at the start of the block). -/
def sndFields (t : DynTab) : List Rep → Option (DynTab × List Ent)
  | [] => some (t, [])
  | .sizeUpdate _ :: _ => none
  | .indexed k :: rs =>
    match t.at? k with
    | none => none
    | some e => (sndFields t rs).map fun p => (p.1, e :: p.2)
  | .litInc n v :: rs => (sndFields (t.add ⟨n, v⟩) rs).map fun p => (p.1, ⟨n, v⟩ :: p.2)
  | .litIncRef k v :: rs =>
    match t.at? k with
    | none => none
    | some e => (sndFields (t.add ⟨e.name, v⟩) rs).map fun p => (p.1, ⟨e.name, v⟩ :: p.2)
  | .lit n v :: rs => (sndFields t rs).map fun p => (p.1, ⟨n, v⟩ :: p.2)

/-- A header block the sender may legally emit in state `s`, with the table it has afterwards and
the field list it means (RFC 7541 4.2, 6.3): size updates only at the start, at most two (the
smallest size since the last block, then the final one), none above the limit the sender knows; a
table larger than that limit has to be reduced first. One restriction is x/net's, not the RFC's:
the pinned `hpack.Decoder` accepts a second size update only when the table is empty after the
first. -/
def sndBlock (s : Snd) : List Rep → Option (DynTab × List Ent)
  | .sizeUpdate n :: .sizeUpdate m :: rs =>
    if n ≤ s.limit ∧ m ≤ s.limit ∧ tabSize (s.tab.setMax n).ents = 0 then sndFields ((s.tab.setMax n).setMax m) rs
    else none
  | .sizeUpdate n :: rs => if n ≤ s.limit then sndFields (s.tab.setMax n) rs else none
  | rs => if s.tab.maxSize ≤ s.limit then sndFields s.tab rs else none

/-- The decoder reads the field representations exactly as the encoder that owns the table meant
them, whatever `allowed` is and wherever in the block they stand. -/
theorem decBlock_of_sndFields (d : Dec) (first : Bool) (rs : List Rep) (t' : DynTab) (fs : List Ent)
    (hf : ∀ n r', rs ≠ .sizeUpdate n :: r') (h : sndFields d.tab rs = some (t', fs)) :
    decBlock d first rs = some ({ d with tab := t' }, fs) := by
  induction rs generalizing d first fs with
  | nil =>
    simp only [sndFields, Option.some.injEq, Prod.mk.injEq] at h
    obtain ⟨h1, h2⟩ := h
    subst h1; subst h2
    simp [decBlock]
  | cons r rs ih =>
    have hrest : ∀ (d1 : Dec) (fs1 : List Ent), sndFields d1.tab rs = some (t', fs1) →
        decBlock d1 false rs = some ({ d1 with tab := t' }, fs1) := by
      intro d1 fs1 h1
      apply ih d1 false fs1 _ h1
      intro n r' e
      subst e
      simp [sndFields] at h1
    cases r with
    | sizeUpdate n => exact absurd rfl (hf n rs)
    | indexed k =>
      simp only [sndFields] at h
      cases hk : d.tab.at? k with
      | none => simp [hk] at h
      | some e =>
        simp only [hk, Option.map_eq_some_iff] at h
        obtain ⟨p, hp, he⟩ := h
        obtain ⟨p1, p2⟩ := p
        simp only [Prod.mk.injEq] at he
        obtain ⟨h1, h2⟩ := he
        subst h1; subst h2
        simp [decBlock, decRep, hk, hrest d p2 hp]
    | litInc n v =>
      simp only [sndFields, Option.map_eq_some_iff] at h
      obtain ⟨p, hp, he⟩ := h
      obtain ⟨p1, p2⟩ := p
      simp only [Prod.mk.injEq] at he
      obtain ⟨h1, h2⟩ := he
      subst h1; subst h2
      have := hrest { d with tab := d.tab.add ⟨n, v⟩ } p2 hp
      simp [decBlock, decRep, this]
    | litIncRef k v =>
      simp only [sndFields] at h
      cases hk : d.tab.at? k with
      | none => simp [hk] at h
      | some e =>
        simp only [hk, Option.map_eq_some_iff] at h
        obtain ⟨p, hp, he⟩ := h
        obtain ⟨p1, p2⟩ := p
        simp only [Prod.mk.injEq] at he
        obtain ⟨h1, h2⟩ := he
        subst h1; subst h2
        have := hrest { d with tab := d.tab.add ⟨e.name, v⟩ } p2 hp
        simp [decBlock, decRep, hk, this]
    | lit n v =>
      simp only [sndFields, Option.map_eq_some_iff] at h
      obtain ⟨p, hp, he⟩ := h
      obtain ⟨p1, p2⟩ := p
      simp only [Prod.mk.injEq] at he
      obtain ⟨h1, h2⟩ := he
      subst h1; subst h2
      simp [decBlock, decRep, hrest d p2 hp]

theorem sndFields_no_update {t : DynTab} {n : Nat} {rs : List Rep} : sndFields t (.sizeUpdate n :: rs) = none := rfl

end Martian.H2Relay
