import Martian.Model.Mitm
import Martian.Lemmas.MitmHost
/-!
Helper lemmas for C06 (core Lean only): second-truncation arithmetic, the port-stripped host has
no `[`, a freshly issued certificate matches its host, the cache invariant and its preservation by
`cert`, by histories and by the two-step concurrent semantics.
-/
namespace Martian.Mitm
open Martian Martian.Go

/-! ### time -/

theorem floorSec_le (x : Int) : floorSec x ≤ x := by
  unfold floorSec
  have := Int.emod_nonneg x (b := 1000) (by decide)
  omega

theorem lt_floorSec_add (x : Int) : x < floorSec x + 1000 := by
  unfold floorSec
  have := Int.emod_lt_of_pos x (b := 1000) (by decide)
  omega

theorem inWindow_issue (cfg : Config) (host : Bytes) (now : Int) (n : Nat)
    (hv : 1000 ≤ cfg.validity) : inWindow (issue cfg host now n) now = true := by
  have h1 := floorSec_le (now - cfg.validity)
  have h2 := lt_floorSec_add (now + cfg.validity)
  have h3 : floorSec (now - cfg.validity) ≤ now := by omega
  have h4 : now ≤ floorSec (now + cfg.validity) := by omega
  simp [inWindow, issue, h3, h4]

/-! ### host normalisation -/

theorem not_mem_of_contains_false {l : Bytes} {c : UInt8} (h : l.contains c = false) : c ∉ l := by
  intro hm
  have : l.contains c = true := List.contains_iff_mem.mpr hm
  rw [h] at this; cases this

/-- The host returned by `net.SplitHostPort` never contains `[`. -/
theorem splitHostPort_no_lbr {h a p : Bytes} (hs : splitHostPort h = some (a, p)) : lbr ∉ a := by
  unfold splitHostPort at hs
  split at hs
  · cases hs
  · rename_i i _
    split at hs
    · split at hs
      · cases hs
      · rename_i e _
        split at hs
        · cases hs
        · split at hs
          · split at hs
            · cases hs
            · rename_i hno
              split at hs
              · cases hs
              · simp only [Option.some.injEq, Prod.mk.injEq] at hs
                rw [← hs.1]
                intro hm
                have h1 : lbr ∈ h.drop 1 := List.mem_of_mem_take hm
                exact not_mem_of_contains_false (by simpa using hno) h1
          · cases hs
    · simp only at hs
      split at hs
      · cases hs
      · split at hs
        · cases hs
        · rename_i hno
          split at hs
          · cases hs
          · simp only [Option.some.injEq, Prod.mk.injEq] at hs
            rw [← hs.1]
            intro hm
            have h1 : lbr ∈ h := List.mem_of_mem_take hm
            exact not_mem_of_contains_false (by simpa using hno) h1

theorem head_ne_of_not_mem {l : Bytes} {c : UInt8} (h : c ∉ l) : l.head? ≠ some c := by
  cases l with
  | nil => simp
  | cons x xs =>
    simp only [List.head?_cons, ne_eq, Option.some.injEq]
    intro hx; apply h; simp [hx]

/-- Hosts for which `Config.cert` can be expected to produce a verifying certificate: after port
stripping the host is not empty, not ".", and does not start with `[`. Exactly the spellings
`[v6]` **without** a port (and garbage starting with `[`) are excluded; see `normalise_portForm`. -/
def Servable (hostname : Bytes) : Prop :=
  normalise hostname ≠ [] ∧ normalise hostname ≠ [dot] ∧ (normalise hostname).head? ≠ some lbr

instance (h : Bytes) : Decidable (Servable h) := by unfold Servable; exact inferInstance

/-- Every spelling with a port (`host:port`, `[v6]:port`) is stripped to a host without `[`. -/
theorem normalise_portForm {h a p : Bytes} (hs : splitHostPort h = some (a, p)) :
    normalise h = a ∧ (normalise h).head? ≠ some lbr := by
  have hn : normalise h = a := by simp [normalise, hs]
  exact ⟨hn, hn ▸ head_ne_of_not_mem (splitHostPort_no_lbr hs)⟩

/-- A spelling without a port is used as it is. -/
theorem normalise_bare {h : Bytes} (hs : splitHostPort h = none) : normalise h = h := by
  simp [normalise, hs]

theorem stripBrackets_of_head {h : Bytes} (hh : h.head? ≠ some lbr) : stripBrackets h = h := by
  unfold stripBrackets
  split
  · rename_i hc
    simp only [Bool.and_eq_true, beq_iff_eq] at hc
    exact absurd hc.1.2 hh
  · rfl

/-! ### a fresh certificate names its host -/

/-- `VerifyHostname` looks at the SAN only: a certificate carrying the SAN the template builds for
`host` names `host`. -/
theorem verifyHostname_of_san {c : Cert} {host : Bytes} (hsan : (c.names, c.ips) = sanFor host)
    (h1 : host ≠ []) (h2 : host ≠ [dot]) (h3 : host.head? ≠ some lbr) :
    verifyHostname c host = true := by
  unfold verifyHostname
  rw [stripBrackets_of_head h3]
  cases hp : parseIP host with
  | some ip =>
    simp only [sanFor, hp, Prod.mk.injEq] at hsan
    simp [hsan.2]
  | none =>
    simp only [sanFor, hp, Prod.mk.injEq] at hsan
    simp [hsan.1, matchDNS_self h1 h2]

theorem verifyHostname_issue (cfg : Config) {host : Bytes} (now : Int) (n : Nat)
    (h1 : host ≠ []) (h2 : host ≠ [dot]) (h3 : host.head? ≠ some lbr) :
    verifyHostname (issue cfg host now n) host = true :=
  verifyHostname_of_san (by simp [issue]) h1 h2 h3

theorem verifiesFor_issue (cfg : Config) {host : Bytes} (now : Int) (n : Nat)
    (hv : 1000 ≤ cfg.validity) (h1 : host ≠ []) (h2 : host ≠ [dot]) (h3 : host.head? ≠ some lbr) :
    verifiesFor (issue cfg host now n) host now = true := by
  have hm := verifyHostname_issue cfg now n h1 h2 h3
  have hw := inWindow_issue cfg host now n hv
  unfold verifiesFor
  rw [hm, hw]
  cases host with
  | nil => exact absurd rfl h1
  | cons x xs => simp [issue]

theorem verifiesFor_of_goVerify {c : Cert} {host : Bytes} {now : Int}
    (h1 : host ≠ []) (hg : goVerify c host now = true) : verifiesFor c host now = true := by
  cases host with
  | nil => exact absurd rfl h1
  | cons x xs => simpa [goVerify, verifiesFor] using hg

/-! ### the cache invariant -/

theorem mem_of_lookup {k : Bytes} {c : Cert} : ∀ {l : Cache}, l.lookup k = some c → (k, c) ∈ l
  | [], h => by simp [List.lookup] at h
  | (k', c') :: l, h => by
    simp only [List.lookup] at h
    split at h
    · rename_i heq
      have : k = k' := by simpa using heq
      cases h; simp [this]
    · exact List.mem_cons_of_mem _ (mem_of_lookup h)

/-- A well-formed certificate for cache key `k`: the SAN is the one the template builds for `k`,
it is signed by the CA and backed by the proxy's key. -/
def GoodFor (k : Bytes) (c : Cert) : Prop :=
  (c.names, c.ips) = sanFor k ∧ c.signedByCA = true ∧ c.keyHeld = true

/-- Every entry is keyed by the host it was issued for, serials are below `next`. -/
def CacheInv (s : State) : Prop :=
  ∀ k c, (k, c) ∈ s.cache → GoodFor k c ∧ c.serial < s.next

theorem goodFor_issue (cfg : Config) (host : Bytes) (now : Int) (n : Nat) : GoodFor host (issue cfg host now n) := by
  simp [GoodFor, issue]

theorem cacheInv_init : CacheInv {} := by
  intro k c h; simp at h

theorem cacheInv_store {s : State} {cfg : Config} (host : Bytes) (now : Int) (hi : CacheInv s) :
    CacheInv (store s host (issue cfg host now s.next)) := by
  intro k c hm
  simp only [store, List.mem_cons, Prod.mk.injEq] at hm
  cases hm with
  | inl h =>
    obtain ⟨rfl, rfl⟩ := h
    exact ⟨goodFor_issue cfg k now s.next, by simp [issue, store]⟩
  | inr h =>
    have := hi k c h
    exact ⟨this.1, by simp only [store]; omega⟩

theorem cacheInv_certFor {s : State} (cfg : Config) (host : Bytes) (now : Int) (hi : CacheInv s) :
    CacheInv (certFor cfg host now s).1 := by
  unfold certFor
  split
  · split
    · exact hi
    · exact cacheInv_store host now hi
  · exact cacheInv_store host now hi

theorem cacheInv_cert {s : State} (cfg : Config) (hostname : Bytes) (now : Int) (hi : CacheInv s) :
    CacheInv (cert cfg hostname now s).1 := by
  unfold cert
  simp only
  split
  · exact hi
  · exact cacheInv_certFor cfg _ now hi

theorem cacheInv_serve {s : State} (cfg : Config) (r : Req) (hi : CacheInv s) : CacheInv (serve cfg r s).1 := by
  cases r with
  | tls sni t =>
    simp only [serve, getCertTLS]
    split
    · exact hi
    · exact cacheInv_cert cfg sni t hi
  | forHost fb sni t => exact cacheInv_cert cfg _ t hi

theorem cacheInv_run (cfg : Config) : ∀ (rs : List Req) {s : State}, CacheInv s → CacheInv (run cfg rs s)
  | [], _, hi => hi
  | r :: rs, _, hi => cacheInv_run cfg rs (cacheInv_serve cfg r hi)

/-- What `certFor` hands out, under the invariant. -/
theorem certFor_served {s : State} {cfg : Config} {host : Bytes} {now : Int} {c : Cert} {f : Bool}
    (hi : CacheInv s) (h : (certFor cfg host now s).2 = .served c f) :
    GoodFor host c ∧
      ((f = false ∧ s.cache.lookup host = some c ∧ goVerify c host now = true ∧ (certFor cfg host now s).1 = s) ∨
       (f = true ∧ c = issue cfg host now s.next ∧ (certFor cfg host now s).1 = store s host c ∧
          ∀ c', s.cache.lookup host = some c' → goVerify c' host now = false)) := by
  unfold certFor at h ⊢
  cases hl : s.cache.lookup host with
  | none =>
    simp only [hl, issueAndStore, Outcome.served.injEq] at h
    obtain ⟨rfl, rfl⟩ := h
    refine ⟨goodFor_issue .., Or.inr ⟨rfl, rfl, ?_, ?_⟩⟩
    · simp [issueAndStore]
    · intro c' hc'; cases hc'
  | some c0 =>
    simp only [hl] at h
    cases hg : goVerify c0 host now with
    | true =>
      simp only [hg, if_true, Outcome.served.injEq] at h
      obtain ⟨rfl, rfl⟩ := h
      refine ⟨(hi host _ (mem_of_lookup hl)).1, Or.inl ⟨rfl, rfl, hg, ?_⟩⟩
      simp [hg]
    | false =>
      simp only [hg, issueAndStore, Bool.false_eq_true, if_false, Outcome.served.injEq] at h
      obtain ⟨rfl, rfl⟩ := h
      refine ⟨goodFor_issue .., Or.inr ⟨rfl, rfl, ?_, ?_⟩⟩
      · simp [hg, issueAndStore]
      · intro c' hc'; cases hc'; exact hg

theorem certFor_never_refuses (cfg : Config) (host : Bytes) (now : Int) (s : State) :
    (certFor cfg host now s).2 ≠ .refused := by
  unfold certFor
  split
  · split <;> simp [issueAndStore]
  · simp [issueAndStore]

/-! ### concurrency: invariant of the two-step semantics -/

/-- What may be said of requester `hostname` at each program point. -/
def PcGood (cfg : Config) (hostname : Bytes) : Pc → Prop
  | .start h => h = hostname
  | .issuing k => k = normalise hostname ∧ k ≠ []
  | .done .refused _ => normalise hostname = []
  | .done (.served c _) t => normalise hostname ≠ [] ∧ GoodFor (normalise hostname) c ∧
      (1000 ≤ cfg.validity → Servable hostname → verifiesFor c (normalise hostname) t = true)

def SysInv (cfg : Config) (hosts : List Bytes) (sys : Sys) : Prop :=
  CacheInv sys.st ∧ ∀ (i : Nat) (pc : Pc), sys.threads[i]? = some pc → ∃ h, hosts[i]? = some h ∧ PcGood cfg h pc

theorem threads_set {cfg : Config} {hosts : List Bytes} {l : List Pc} {i : Nat} {h : Bytes} {old new : Pc}
    (hall : ∀ (j : Nat) (pc : Pc), l[j]? = some pc → ∃ h, hosts[j]? = some h ∧ PcGood cfg h pc)
    (_hold : l[i]? = some old) (hh : hosts[i]? = some h) (hnew : PcGood cfg h new) :
    ∀ (j : Nat) (pc : Pc), (l.set i new)[j]? = some pc → ∃ h, hosts[j]? = some h ∧ PcGood cfg h pc := by
  intro j pc hj
  by_cases hij : i = j
  · subst hij
    rw [List.getElem?_set] at hj
    simp only [if_true] at hj
    split at hj
    · cases hj; exact ⟨h, hh, hnew⟩
    · cases hj
  · rw [List.getElem?_set_ne hij] at hj
    exact hall j pc hj

theorem isEmpty_false_ne {l : Bytes} (h : ¬ l.isEmpty = true) : l ≠ [] := by
  intro hl; subst hl; simp at h

theorem sysInv_step {cfg : Config} {hosts : List Bytes} {sys : Sys} (i : Nat) (now : Int)
    (hi : SysInv cfg hosts sys) : SysInv cfg hosts (stepThread cfg sys i now) := by
  obtain ⟨hc, ht⟩ := hi
  unfold stepThread
  cases hti : sys.threads[i]? with
  | none => exact ⟨hc, ht⟩
  | some pc =>
    obtain ⟨h, hh, hg⟩ := ht i pc hti
    cases pc with
    | start hostname =>
      have hhost : hostname = h := hg
      subst hhost
      simp only
      split
      · rename_i hem
        refine ⟨hc, threads_set ht hti hh ?_⟩
        simpa [PcGood] using hem
      · rename_i hne
        have hne' := isEmpty_false_ne hne
        split
        · rename_i c hl
          split
          · rename_i hv
            refine ⟨hc, threads_set ht hti hh ?_⟩
            exact ⟨hne', (hc _ _ (mem_of_lookup hl)).1, fun _ _ => verifiesFor_of_goVerify hne' hv⟩
          · exact ⟨hc, threads_set ht hti hh ⟨rfl, hne'⟩⟩
        · exact ⟨hc, threads_set ht hti hh ⟨rfl, hne'⟩⟩
    | issuing k =>
      obtain ⟨hk, hkne⟩ := hg
      subst hk
      refine ⟨cacheInv_store _ now hc, threads_set ht hti hh ?_⟩
      refine ⟨hkne, goodFor_issue .., fun hv hs => verifiesFor_issue cfg now _ hv hs.1 hs.2.1 hs.2.2⟩
    | done o t => exact ⟨hc, ht⟩

theorem sysInv_run {cfg : Config} {hosts : List Bytes} :
    ∀ (sched : List (Nat × Int)) {sys : Sys}, SysInv cfg hosts sys → SysInv cfg hosts (runSched cfg sched sys)
  | [], _, hi => hi
  | (i, t) :: rest, _, hi => sysInv_run rest (sysInv_step i t hi)

theorem sysInv_start {cfg : Config} {hosts : List Bytes} {s : State} (hc : CacheInv s) :
    SysInv cfg hosts { st := s, threads := hosts.map Pc.start } := by
  refine ⟨hc, ?_⟩
  intro i pc hpc
  simp only [List.getElem?_map, Option.map_eq_some_iff] at hpc
  obtain ⟨h, hh, rfl⟩ := hpc
  exact ⟨h, hh, rfl⟩

end Martian.Mitm
