import Martian.Model.Shape
/-! Helper lemmas for C18 (core Lean only). -/
namespace Martian.Shape
open Martian Martian.Go

/-! ### `sort.Search` = linear search on a monotone predicate -/

/-- `f` is monotone on `[0,n)`: once true it stays true. -/
def Mono (f : Nat → Bool) (n : Nat) : Prop := ∀ a b, a ≤ b → b < n → f a = true → f b = true

theorem linSearch_spec (f : Nat → Bool) : ∀ k i, i ≤ linSearch f k i ∧ linSearch f k i ≤ i + k ∧
    (∀ m, i ≤ m → m < linSearch f k i → f m = false) ∧
    (linSearch f k i < i + k → f (linSearch f k i) = true)
  | 0, i => by simp [linSearch]; intro m h1 h2; omega
  | k + 1, i => by
    unfold linSearch
    by_cases h : f i = true
    · simp [h]; intro m h1 h2; omega
    · simp only [h]
      have ih := linSearch_spec f k (i + 1)
      refine ⟨by simp; omega, by simp; omega, ?_, ?_⟩
      · intro m h1 h2
        by_cases hm : m = i
        · subst hm; simpa using h
        · exact ih.2.2.1 m (by omega) (by simpa using h2)
      · intro h3
        exact ih.2.2.2 (by simp at h3 ⊢; omega)

theorem searchGo_eq (f : Nat → Bool) (i j : Nat) : searchGo f i j =
    if i < j then (if f ((i + j) / 2) = true then searchGo f i ((i + j) / 2)
      else searchGo f ((i + j) / 2 + 1) j) else i := by
  conv => lhs; rw [searchGo]
  by_cases h : i < j
  · by_cases hf : f ((i + j) / 2) = true <;> simp [h, hf]
  · simp [h]

theorem searchGo_spec (f : Nat → Bool) (n : Nat) (hm : Mono f n) : ∀ d i j, j - i = d → i ≤ j → j ≤ n →
    (∀ m, m < i → f m = false) → (∀ m, j ≤ m → m < n → f m = true) →
    i ≤ searchGo f i j ∧ searchGo f i j ≤ j ∧
    (∀ m, m < searchGo f i j → f m = false) ∧ (∀ m, searchGo f i j ≤ m → m < n → f m = true) := by
  intro d
  induction d using Nat.strongRecOn with
  | _ d ih =>
    intro i j hd hij hjn hlo hhi
    rw [searchGo_eq]
    by_cases hlt : i < j
    · simp only [hlt, if_true]
      by_cases hf : f ((i + j) / 2) = true
      · rw [if_pos hf]
        have := ih (((i + j) / 2) - i) (by omega) i ((i + j) / 2) rfl (by omega) (by omega) hlo (by
          intro m h1 h2
          exact hm _ m h1 h2 hf)
        exact ⟨this.1, by omega, this.2.2.1, this.2.2.2⟩
      · rw [if_neg hf]
        have hff : f ((i + j) / 2) = false := by simpa using hf
        have := ih (j - ((i + j) / 2 + 1)) (by omega) ((i + j) / 2 + 1) j rfl (by omega) hjn (by
          intro m hmlt
          by_cases hc : f m = true
          · have := hm m ((i + j) / 2) (by omega) (by omega) hc
            rw [hff] at this; cases this
          · simpa using hc) hhi
        exact ⟨by omega, this.2.1, this.2.2.1, this.2.2.2⟩
    · simp only [hlt, if_false]
      exact ⟨Nat.le_refl _, hij, hlo, by intro m h2 h3; exact hhi m (by omega) h3⟩

/-- The binary search of the code returns what the linear scan returns. -/
theorem searchGo_eq_linSearch (f : Nat → Bool) (n : Nat) (hm : Mono f n) :
    searchGo f 0 n = linSearch f n 0 := by
  have a := searchGo_spec f n hm n 0 n rfl (Nat.zero_le _) (Nat.le_refl _) (by intro m h; omega)
    (by intro m h1 h2; omega)
  have b := linSearch_spec f n 0
  by_cases h : searchGo f 0 n < linSearch f n 0
  · have h1 := b.2.2.1 _ (Nat.zero_le _) h
    have h2 := a.2.2.2 _ (Nat.le_refl _) (by omega)
    rw [h1] at h2; cases h2
  · by_cases h' : linSearch f n 0 < searchGo f 0 n
    · have h1 := a.2.2.1 _ h'
      have h2 := b.2.2.2 (by omega)
      rw [h1] at h2; cases h2
    · omega

/-! ### Stable insertion sort -/

def SortedBy {α : Type} (key : α → Int) (l : List α) : Prop := l.Pairwise (fun a b => key a ≤ key b)

theorem mem_insertBy {α : Type} (key : α → Int) (x y : α) : ∀ l, y ∈ insertBy key x l ↔ y = x ∨ y ∈ l
  | [] => by simp [insertBy]
  | z :: zs => by
    unfold insertBy
    split
    · simp
    · simp [mem_insertBy key x y zs]; constructor <;> (intro h; rcases h with h | h | h <;> simp [h])

theorem insertBy_sorted {α : Type} (key : α → Int) (x : α) : ∀ l, SortedBy key l → SortedBy key (insertBy key x l)
  | [], _ => by simp [insertBy, SortedBy]
  | z :: zs, h => by
    unfold insertBy
    unfold SortedBy at h ⊢
    rw [List.pairwise_cons] at h
    split
    · rename_i hle
      refine List.pairwise_cons.2 ⟨?_, List.pairwise_cons.2 h⟩
      intro a ha
      rcases List.mem_cons.1 ha with rfl | ha
      · exact hle
      · exact Int.le_trans hle (h.1 a ha)
    · rename_i hnle
      refine List.pairwise_cons.2 ⟨?_, insertBy_sorted key x zs h.2⟩
      intro a ha
      rcases (mem_insertBy key x a zs).1 ha with rfl | ha
      · omega
      · exact h.1 a ha

theorem stableSort_sorted {α : Type} (key : α → Int) : ∀ l : List α, SortedBy key (stableSort key l)
  | [] => by simp [stableSort, SortedBy]
  | x :: xs => by
    have := stableSort_sorted key xs
    unfold stableSort at this ⊢
    simpa using insertBy_sorted key x _ this

theorem mem_stableSort {α : Type} (key : α → Int) (y : α) : ∀ l : List α, y ∈ stableSort key l ↔ y ∈ l
  | [] => by simp [stableSort]
  | x :: xs => by
    have := mem_stableSort key y xs
    unfold stableSort at this ⊢
    simp [mem_insertBy, this]

theorem sorted_getElem {α : Type} {key : α → Int} {l : List α} (h : SortedBy key l) {i j : Nat}
    (hij : i ≤ j) (hj : j < l.length) : key (l[i]'(by omega)) ≤ key l[j] := by
  by_cases he : i = j
  · subst he; exact Int.le_refl _
  · exact (List.pairwise_iff_getElem.1 h) i j (by omega) hj (by omega)

theorem byteAt_eq {acts : List Action} {i : Nat} (h : i < acts.length) : byteAt acts i = acts[i].byte := by
  simp [byteAt, h]

theorem startAt_eq {ts : List Throttle} {i : Nat} (h : i < ts.length) : startAt ts i = ts[i].start := by
  simp [startAt, h]

theorem mono_byte (acts : List Action) (h : SortedBy Action.byte acts) (start : Int) :
    Mono (fun i => decide (byteAt acts i ≥ start)) acts.length := by
  intro a b hab hb ha
  have := sorted_getElem h hab hb
  simp only [decide_eq_true_eq] at ha ⊢
  rw [byteAt_eq (by omega)] at ha
  rw [byteAt_eq hb]
  omega

theorem mono_start (ts : List Throttle) (h : SortedBy Throttle.start ts) (start : Int) :
    Mono (fun i => decide (startAt ts i > start)) ts.length := by
  intro a b hab hb ha
  have := sorted_getElem h hab hb
  simp only [decide_eq_true_eq] at ha ⊢
  rw [startAt_eq (by omega)] at ha
  rw [startAt_eq hb]
  omega

/-! ### `GetNextActionFromIndex` -/

theorem nextFromFuel_spec (acts : List Action) : ∀ d i, acts.length - i = d →
    match nextFromFuel acts d i with
    | some (j, b) => i ≤ j ∧ ∃ h : j < acts.length, acts[j].byte = b ∧ acts[j].count ≠ 0 ∧
        ∀ m, i ≤ m → (hm : m < j) → (acts[m]'(by omega)).count = 0
    | none => ∀ m, i ≤ m → (hm : m < acts.length) → acts[m].count = 0 := by
  intro d
  induction d with
  | zero =>
    intro i hd
    simp only [nextFromFuel]
    intro m h1 h2; omega
  | succ d ih =>
    intro i hd
    have hi : i < acts.length := by omega
    simp only [nextFromFuel, List.getElem?_eq_getElem hi]
    by_cases hc : acts[i].count = 0
    · simp only [hc, if_true]
      have := ih (i + 1) (by omega)
      cases hn : nextFromFuel acts d (i + 1) with
      | none =>
        rw [hn] at this
        intro m h1 h2
        by_cases hm : m = i
        · subst hm; exact hc
        · exact this m (by omega) h2
      | some p =>
        obtain ⟨j, b⟩ := p
        rw [hn] at this
        obtain ⟨h1, h2, h3, h4, h5⟩ := this
        refine ⟨by omega, h2, h3, h4, ?_⟩
        intro m hm1 hm2
        by_cases hm : m = i
        · subst hm; exact hc
        · exact h5 m (by omega) hm2
    · simp only [hc, if_false]
      exact ⟨Nat.le_refl _, hi, trivial, hc, by intro m h1 h2; omega⟩

theorem nextFromIndex_spec (acts : List Action) : ∀ d i, acts.length - i = d →
    match nextFromIndex acts i with
    | some (j, b) => i ≤ j ∧ ∃ h : j < acts.length, acts[j].byte = b ∧ acts[j].count ≠ 0 ∧
        ∀ m, i ≤ m → (hm : m < j) → (acts[m]'(by omega)).count = 0
    | none => ∀ m, i ≤ m → (hm : m < acts.length) → acts[m].count = 0 := by
  intro d i hd
  unfold nextFromIndex
  exact nextFromFuel_spec acts _ i rfl

/-! ### One round of the shaped write loop -/

def nidx (acts : List Action) : Option (Nat × Int) → Nat
  | some (i, _) => i
  | none => acts.length

def isClose (a : Action) : Bool := match a.kind with | .close => true | _ => false

theorem dec_byte (a : Action) : a.dec.byte = a.byte := by
  unfold Action.dec; split <;> (try split) <;> rfl

theorem dec_kind (a : Action) : a.dec.kind = a.kind := by
  unfold Action.dec; split <;> (try split) <;> simp_all

theorem sorted_set {acts : List Action} (h : SortedBy Action.byte acts) {i : Nat} (hi : i < acts.length)
    {a : Action} (ha : a.byte = acts[i].byte) : SortedBy Action.byte (acts.set i a) := by
  unfold SortedBy at h ⊢
  rw [List.pairwise_iff_getElem] at h ⊢
  intro x y hx hy hxy
  simp only [List.length_set] at hx hy
  have := h x y hx hy hxy
  simp only [List.getElem_set]
  split <;> split <;> simp_all

/-- Invariant of the loop state: the actions are sorted by offset and the pending action lies ahead. -/
structure LInv (s : Loop) : Prop where
  sorted : SortedBy Action.byte s.acts
  next : ∀ i nb, s.next = some (i, nb) → ∃ h : i < s.acts.length, s.acts[i].byte = nb ∧ s.off ≤ nb

theorem amount_bounds {len : Nat} {off : Int} {next : Option (Nat × Int)}
    (h : ∀ i nb, next = some (i, nb) → off ≤ nb) :
    0 ≤ amount len off next ∧ amount len off next ≤ len ∧
    (∀ i nb, next = some (i, nb) → amount len off next ≤ nb - off) ∧
    (amount len off next = 0 → len = 0 ∨ ∃ i, next = some (i, off)) := by
  unfold amount
  cases next with
  | none => simp
  | some p =>
    obtain ⟨i, nb⟩ := p
    have := h i nb rfl
    simp only
    split
    · refine ⟨by omega, by omega, ?_, ?_⟩
      · intro i' nb' he; cases he; omega
      · intro h0; right; exact ⟨i, by congr; omega⟩
    · refine ⟨by omega, by omega, ?_, ?_⟩
      · intro i' nb' he; cases he; omega
      · intro h0; left; omega

/-- The state after performing (or skipping) the action at `ind`, moving to the next one. -/
theorem inv_after_action {acts : List Action} {ind : Nat} (hs : SortedBy Action.byte acts)
    (hind : ind < acts.length) (s' : Loop) (hacts : s'.acts = acts)
    (hnext : s'.next = nextFromIndex acts (ind + 1)) (hoff : s'.off = acts[ind].byte) :
    LInv s' ∧ ind < nidx s'.acts s'.next ∧ nidx s'.acts s'.next ≤ acts.length ∧
    (∀ j, ind < j → (hj : j < nidx s'.acts s'.next) → (hl : j < acts.length) → acts[j].count = 0) := by
  have sp := nextFromIndex_spec acts _ (ind + 1) rfl
  cases hn : nextFromIndex acts (ind + 1) with
  | none =>
    rw [hn] at sp
    refine ⟨⟨by rw [hacts]; exact hs, by intro i nb h; rw [hnext, hn] at h; cases h⟩, ?_, ?_, ?_⟩
    · rw [hnext, hn, hacts]; exact hind
    · rw [hnext, hn, hacts]; exact Nat.le_refl _
    · intro j h1 h2 hl; exact sp j (by omega) hl
  | some p =>
    obtain ⟨j, b⟩ := p
    rw [hn] at sp
    obtain ⟨h1, h2, h3, h4, h5⟩ := sp
    refine ⟨⟨by rw [hacts]; exact hs, ?_⟩, ?_, ?_, ?_⟩
    · intro i nb h
      rw [hnext, hn] at h
      cases h
      have hle := sorted_getElem hs (show ind ≤ j by omega) h2
      refine ⟨by rw [hacts]; exact h2, by simp only [hacts]; exact h3, ?_⟩
      rw [hoff, ← h3]; exact hle
    · rw [hnext, hn]; simp only [nidx]; omega
    · rw [hnext, hn]; simp only [nidx]; omega
    · intro m hm1 hm2 hl
      rw [hnext, hn] at hm2
      exact h5 m (by omega) hm2

theorem set_close_iff {acts : List Action} {ind : Nat} {a0 : Action} (h0 : acts[ind]? = some a0)
    (hk : isClose a0 = false) (j : Nat) (a : Action) (ha : isClose a = true) :
    (acts.set ind a0.dec)[j]? = some a ↔ acts[j]? = some a := by
  rw [List.getElem?_set]
  by_cases hj : ind = j
  · subst hj
    have hlt : ind < acts.length := by
      rcases Nat.lt_or_ge ind acts.length with h | h
      · exact h
      · rw [List.getElem?_eq_none h] at h0; cases h0
    simp only [hlt, if_true]
    constructor
    · intro h; cases h
      have : isClose a0.dec = isClose a0 := by unfold isClose; rw [dec_kind]
      rw [this, hk] at ha; cases ha
    · intro h; rw [h0] at h; cases h; rw [hk] at ha; cases ha
  · simp [hj]

macro "triv" : tactic => `(tactic| first | rfl | trivial)

/-- What a continuing round guarantees. -/
structure ContRel (s s' : Loop) (b b' : Bytes) : Prop where
  ex : ∃ m, m ≤ b.length ∧ b' = b.drop m ∧ s'.delivered = s.delivered ++ b.take m ∧ s'.off = s.off + (m : Int)
  shaping : s'.shaping = s.shaping
  inv : LInv s'
  len : s'.acts.length = s.acts.length
  measure : b'.length + (s'.acts.length - nidx s'.acts s'.next) < b.length + (s.acts.length - nidx s.acts s.next)
  mono : nidx s.acts s.next ≤ nidx s'.acts s'.next
  closes : ∀ (j : Nat) (a : Action), isClose a = true → (s'.acts[j]? = some a ↔ s.acts[j]? = some a)
  skipped : ∀ (j : Nat) (a : Action), nidx s.acts s.next ≤ j → j < nidx s'.acts s'.next → s.acts[j]? = some a →
    isClose a = true → a.count = 0

theorem step_cases (valid : Bool) (cap : Nat) (s : Loop) (b : Bytes) (hI : LInv s) (hb : b ≠ []) :
    match stepLoop valid cap s b with
    | .cont s' b' => ContRel s s' b b'
    | .done s' st =>
      (st = .ok ∧ valid = false ∧ s'.shaping = false ∧ s'.delivered = s.delivered ++ b ∧ s'.evs = s.evs) ∨
      (st = .closed ∧ valid = true ∧ ∃ m i a, m ≤ b.length ∧ s'.delivered = s.delivered ++ b.take m ∧
        s'.off = s.off + (m : Int) ∧ s'.shaping = s.shaping ∧ s.next = some (i, a.byte) ∧
        s.acts[i]? = some a ∧ isClose a = true ∧ a.count ≠ 0 ∧ s'.off = a.byte) := by
  have hlen : 0 < b.length := List.length_pos_iff.2 hb
  have hab := amount_bounds (len := b.length) (off := s.off) (next := s.next)
    (by intro i nb h; obtain ⟨_, _, h3⟩ := hI.next i nb h; exact h3)
  obtain ⟨ha0, ha1, ha2, ha3⟩ := hab
  unfold stepLoop
  simp only [show ¬ amount b.length s.off s.next < 0 by omega, if_false]
  generalize hm : min (cap + 1) (amount b.length s.off s.next).toNat = m
  have hmle : m ≤ b.length := by omega
  have hm_amt : (m : Int) ≤ amount b.length s.off s.next := by omega
  have hmpos : amount b.length s.off s.next ≠ 0 → 0 < m := by omega
  cases hnx : s.next with
  | none =>
    simp only
    have hpos : 0 < m := by
      apply hmpos; intro h0
      rcases ha3 h0 with h | ⟨i, h⟩
      · omega
      · rw [hnx] at h; cases h
    refine ⟨⟨m, hmle, by triv, by triv, by triv⟩, by triv, ⟨hI.sorted, ?_⟩, by triv, ?_, ?_, ?_, ?_⟩
    · intro i nb h; simp only [hnx] at h; cases h
    · simp only [hnx, List.length_drop]; omega
    · simp only [hnx]; exact Nat.le_refl _
    · intro j a _; exact Iff.rfl
    · intro j a h1 h2; simp only [hnx, nidx] at h1 h2; omega
  | some p =>
    obtain ⟨ind, nb⟩ := p
    obtain ⟨hind, hbyte, hoff⟩ := hI.next ind nb hnx
    have hle := ha2 ind nb hnx
    simp only
    by_cases hreach : s.off + (m : Int) ≥ nb
    · simp only [hreach, if_true]
      have hoffeq : s.off + (m : Int) = nb := by omega
      cases valid with
      | false =>
        simp only [Bool.not_false, if_true]
        left
        refine ⟨by triv, by triv, by triv, ?_, by triv⟩
        simp only [List.append_assoc, List.take_append_drop]
      | true =>
        simp only [Bool.not_true, Bool.false_eq_true, if_false]
        have hget : s.acts[ind]? = some s.acts[ind] := List.getElem?_eq_getElem hind
        simp only [hget]
        by_cases hc : s.acts[ind].count = 0
        · -- exhausted action: skipped
          simp only [hc, ne_eq, not_true_eq_false, if_false]
          have hia := inv_after_action hI.sorted hind
            { s with off := s.off + (m : Int), delivered := s.delivered ++ b.take m,
                     next := nextFromIndex s.acts (ind + 1) } rfl rfl (by simp only; omega)
          obtain ⟨i1, i2, i3, i4⟩ := hia
          refine ⟨⟨m, hmle, by triv, by triv, by triv⟩, by triv, i1, by triv, ?_, ?_, ?_, ?_⟩
          · simp only [hnx, nidx, List.length_drop] at i2 i3 ⊢; omega
          · simp only [hnx, nidx] at i2 ⊢; omega
          · intro j a _; exact Iff.rfl
          · intro j a h1 h2 h3 _
            simp only [hnx, nidx] at h1
            have hjl : j < s.acts.length := by
              rcases Nat.lt_or_ge j s.acts.length with h | h
              · exact h
              · rw [List.getElem?_eq_none h] at h3; cases h3
            rw [List.getElem?_eq_getElem hjl] at h3; cases h3
            by_cases hj : j = ind
            · subst hj; exact hc
            · exact i4 j (by omega) h2 hjl
        · simp only [hc, ne_eq, not_false_eq_true, if_true]
          have hs' : SortedBy Action.byte (s.acts.set ind s.acts[ind].dec) :=
            sorted_set hI.sorted hind (dec_byte _)
          have hind' : ind < (s.acts.set ind s.acts[ind].dec).length := by simpa using hind
          have hb' : (s.acts.set ind s.acts[ind].dec)[ind].byte = nb := by
            simp [dec_byte, hbyte]
          cases hk : s.acts[ind].kind with
          | close =>
            simp only
            right
            refine ⟨by triv, by triv, m, ind, s.acts[ind], hmle, by triv, by triv, by triv, ?_, hget, ?_, hc, ?_⟩
            · rw [hbyte]
            · simp [isClose, hk]
            · show s.off + (m : Int) = s.acts[ind].byte; omega
          | halt d =>
            simp only
            have hia := inv_after_action hs' hind'
              { s with off := s.off + (m : Int), delivered := s.delivered ++ b.take m,
                       acts := s.acts.set ind s.acts[ind].dec,
                       evs := s.evs ++ [.sleep d (s.off + (m : Int))],
                       next := nextFromIndex (s.acts.set ind s.acts[ind].dec) (ind + 1) } rfl rfl
              (by simp only; rw [hb']; omega)
            obtain ⟨i1, i2, i3, i4⟩ := hia
            have hnc : isClose s.acts[ind] = false := by simp [isClose, hk]
            refine ⟨⟨m, hmle, by triv, by triv, by triv⟩, by triv, i1, by simp, ?_, ?_, ?_, ?_⟩
            · simp only [hnx, nidx, List.length_drop, List.length_set] at i2 i3 ⊢; omega
            · simp only [hnx, nidx] at i2 ⊢; omega
            · intro j a ha; exact set_close_iff hget hnc j a ha
            · intro j a h1 h2 h3 hcl
              simp only [hnx, nidx] at h1
              have hjl : j < s.acts.length := by
                rcases Nat.lt_or_ge j s.acts.length with h | h
                · exact h
                · rw [List.getElem?_eq_none h] at h3; cases h3
              by_cases hj : j = ind
              · subst hj; rw [hget] at h3; cases h3; rw [hnc] at hcl; cases hcl
              · have := i4 j (by omega) h2 (by simpa using hjl)
                rw [List.getElem?_eq_getElem hjl] at h3; cases h3
                simpa [List.getElem_set, show ¬ ind = j by omega] using this
          | bw x =>
            simp only
            have hia := inv_after_action hs' hind'
              { s with off := s.off + (m : Int), delivered := s.delivered ++ b.take m,
                       acts := s.acts.set ind s.acts[ind].dec,
                       evs := s.evs ++ [.setCap x (s.off + (m : Int))], cap := some x,
                       next := nextFromIndex (s.acts.set ind s.acts[ind].dec) (ind + 1) } rfl rfl
              (by simp only; rw [hb']; omega)
            obtain ⟨i1, i2, i3, i4⟩ := hia
            have hnc : isClose s.acts[ind] = false := by simp [isClose, hk]
            refine ⟨⟨m, hmle, by triv, by triv, by triv⟩, by triv, i1, by simp, ?_, ?_, ?_, ?_⟩
            · simp only [hnx, nidx, List.length_drop, List.length_set] at i2 i3 ⊢; omega
            · simp only [hnx, nidx] at i2 ⊢; omega
            · intro j a ha; exact set_close_iff hget hnc j a ha
            · intro j a h1 h2 h3 hcl
              simp only [hnx, nidx] at h1
              have hjl : j < s.acts.length := by
                rcases Nat.lt_or_ge j s.acts.length with h | h
                · exact h
                · rw [List.getElem?_eq_none h] at h3; cases h3
              by_cases hj : j = ind
              · subst hj; rw [hget] at h3; cases h3; rw [hnc] at hcl; cases hcl
              · have := i4 j (by omega) h2 (by simpa using hjl)
                rw [List.getElem?_eq_getElem hjl] at h3; cases h3
                simpa [List.getElem_set, show ¬ ind = j by omega] using this
    · simp only [hreach, if_false]
      have hpos : 0 < m := by
        apply hmpos; intro h0
        rcases ha3 h0 with h | ⟨i, h⟩
        · omega
        · rw [hnx] at h; cases h; omega
      refine ⟨⟨m, hmle, by triv, by triv, by triv⟩, by triv, ⟨hI.sorted, ?_⟩, by triv, ?_, ?_, ?_, ?_⟩
      · intro i nb' h; simp only [hnx] at h; cases h
        exact ⟨hind, hbyte, by simp only; omega⟩
      · simp only [hnx, List.length_drop]; omega
      · simp only [hnx]; exact Nat.le_refl _
      · intro j a _; exact Iff.rfl
      · intro j a h1 h2; simp only [hnx, nidx] at h1 h2; omega

/-- What a whole run of the loop guarantees. -/
structure RunRel (valid : Bool) (s : Loop) (b : Bytes) (s' : Loop) (st : Status) : Prop where
  nofuel : st ≠ .fuel
  nopanic : st ≠ .panic
  deliv : ∃ n, n ≤ b.length ∧ s'.delivered = s.delivered ++ b.take n ∧ (st = .ok → n = b.length) ∧
    (valid = true → s'.off = s.off + (n : Int) ∧ s'.shaping = s.shaping)
  closedValid : st = .closed → valid = true
  closed : st = .closed → ∃ i a, s.acts[i]? = some a ∧ isClose a = true ∧ a.count ≠ 0 ∧ s'.off = a.byte ∧
    nidx s.acts s.next ≤ i ∧
    ∀ (j : Nat) (a' : Action), nidx s.acts s.next ≤ j → j < i → s.acts[j]? = some a' → isClose a' = true → a'.count = 0
  okInv : st = .ok → valid = true → LInv s' ∧ nidx s.acts s.next ≤ nidx s'.acts s'.next ∧
    (∀ (j : Nat) (a : Action), isClose a = true → (s'.acts[j]? = some a ↔ s.acts[j]? = some a)) ∧
    (∀ (j : Nat) (a : Action), nidx s.acts s.next ≤ j → j < nidx s'.acts s'.next → s.acts[j]? = some a →
      isClose a = true → a.count = 0)

theorem bodyLoop_spec (valid : Bool) (caps : Nat → Nat) : ∀ fuel r s b, LInv s →
    b.length + (s.acts.length - nidx s.acts s.next) < fuel →
    RunRel valid s b (bodyLoop valid caps fuel r s b).1 (bodyLoop valid caps fuel r s b).2 := by
  intro fuel
  induction fuel with
  | zero => intro r s b _ h; omega
  | succ fuel ih =>
    intro r s b hI hf
    unfold bodyLoop
    by_cases hb : b = []
    · subst hb
      simp only [List.isEmpty_nil, if_true]
      refine ⟨by simp, by simp, ⟨0, by simp, by simp, by simp, by intro _; simp⟩, by simp, by simp, ?_⟩
      intro _ _
      exact ⟨hI, Nat.le_refl _, by intro j a _; exact Iff.rfl, by intro j a h1 h2; omega⟩
    · have hne : b.isEmpty = false := by cases b <;> simp_all
      simp only [hne, Bool.false_eq_true, if_false]
      have sc := step_cases valid (caps r) s b hI hb
      cases hst : stepLoop valid (caps r) s b with
      | cont s1 b1 =>
        rw [hst] at sc
        simp only
        have rc := ih (r + 1) s1 b1 sc.inv (by have := sc.measure; omega)
        obtain ⟨m, hm1, hm2, hm3, hm4⟩ := sc.ex
        obtain ⟨n, hn1, hn2, hn3, hn4⟩ := rc.deliv
        refine ⟨rc.nofuel, rc.nopanic, ⟨m + n, ?_, ?_, ?_, ?_⟩, rc.closedValid, ?_, ?_⟩
        · subst hm2; simp only [List.length_drop] at hn1; omega
        · rw [hn2, hm3, hm2, List.append_assoc]
          congr 1
          rw [List.take_add]
        · intro h; have := hn3 h; subst hm2; simp only [List.length_drop] at this; omega
        · intro hv; obtain ⟨h1, h2⟩ := hn4 hv
          exact ⟨by rw [h1, hm4]; push_cast; omega, by rw [h2, sc.shaping]⟩
        · intro hc
          obtain ⟨i, a, h1, h2, h3, h4, h5, h6⟩ := rc.closed hc
          refine ⟨i, a, (sc.closes i a h2).1 h1, h2, h3, h4, Nat.le_trans sc.mono h5, ?_⟩
          intro j a' hj1 hj2 hj3 hj4
          by_cases hlt : j < nidx s1.acts s1.next
          · exact sc.skipped j a' hj1 hlt hj3 hj4
          · exact h6 j a' (by omega) hj2 ((sc.closes j a' hj4).2 hj3) hj4
        · intro hok hv
          obtain ⟨k1, k2, k3, k4⟩ := rc.okInv hok hv
          refine ⟨k1, Nat.le_trans sc.mono k2, ?_, ?_⟩
          · intro j a ha; exact (k3 j a ha).trans (sc.closes j a ha)
          · intro j a hj1 hj2 hj3 hj4
            by_cases hlt : j < nidx s1.acts s1.next
            · exact sc.skipped j a hj1 hlt hj3 hj4
            · exact k4 j a (by omega) hj2 ((sc.closes j a hj4).2 hj3) hj4
      | done s1 st =>
        rw [hst] at sc
        simp only
        rcases sc with ⟨h1, h2, h3, h4, _⟩ | ⟨h1, h2, m, i, a, h3, h4, h5, h6, h7, h8, h9, h10, h11⟩
        · subst h1
          refine ⟨by simp, by simp, ⟨b.length, Nat.le_refl _, by simpa using h4, by simp, ?_⟩, by simp, by simp, ?_⟩
          · intro hv; rw [h2] at hv; cases hv
          · intro _ hv; rw [h2] at hv; cases hv
        · subst h1
          refine ⟨by simp, by simp, ⟨m, h3, h4, by simp, by intro _; exact ⟨h5, h6⟩⟩, by intro _; exact h2, ?_, by simp⟩
          intro _
          refine ⟨i, a, h8, h9, h10, h11, by rw [h7]; exact Nat.le_refl _, ?_⟩
          intro j a' hj1 hj2
          rw [h7] at hj1; simp only [nidx] at hj1; omega

/-! ### A write that finds the shapes replaced performs no action -/

def StepRes.loop : StepRes → Loop
  | .cont s _ => s
  | .done s _ => s

theorem step_invalid (cap : Nat) (s : Loop) (b : Bytes) :
    (stepLoop false cap s b).loop.evs = s.evs ∧ (stepLoop false cap s b).loop.acts = s.acts ∧
    (stepLoop false cap s b).loop.cap = s.cap := by
  unfold stepLoop
  simp only [Bool.not_false, if_true]
  split
  · simp [StepRes.loop]
  · split
    · simp [StepRes.loop]
    · split <;> simp [StepRes.loop]

theorem bodyLoop_invalid (caps : Nat → Nat) : ∀ fuel r s b,
    (bodyLoop false caps fuel r s b).1.evs = s.evs ∧ (bodyLoop false caps fuel r s b).1.acts = s.acts ∧
    (bodyLoop false caps fuel r s b).1.cap = s.cap := by
  intro fuel
  induction fuel with
  | zero => intro r s b; simp [bodyLoop]
  | succ fuel ih =>
    intro r s b
    unfold bodyLoop
    by_cases hb : b.isEmpty = true
    · simp [hb]
    · simp only [hb, Bool.false_eq_true, if_false]
      have st := step_invalid (caps r) s b
      cases hst : stepLoop false (caps r) s b with
      | cont s1 b1 =>
        rw [hst] at st
        simp only
        have := ih (r + 1) s1 b1
        rw [this.1, this.2.1, this.2.2]
        simpa [StepRes.loop] using st
      | done s1 st1 =>
        rw [hst] at st
        simpa [StepRes.loop] using st

/-! ### Validation -/

theorem parseShapes_ok_all : ∀ (l : List (Option RawShape)) (i : Nat) (ps : List (Nat × Shape)),
    parseShapes i l = .ok ps → ps.length = l.length ∧
    ∀ k (h : k < l.length), ∃ p, parseShape (i + k) l[k] = .ok p ∧ ps[k]? = some p
  | [], i, ps, h => by simp [parseShapes] at h; subst h; simp
  | x :: xs, i, ps, h => by
    unfold parseShapes at h
    cases hp : parseShape i x with
    | error e => simp [hp] at h
    | ok p =>
      simp only [hp] at h
      cases hr : parseShapes (i + 1) xs with
      | error e => simp [hr] at h
      | ok qs =>
        simp only [hr] at h
        cases h
        have ih := parseShapes_ok_all xs (i + 1) qs hr
        refine ⟨by simp [ih.1], ?_⟩
        intro k hk
        cases k with
        | zero => exact ⟨p, by simpa using hp, by simp⟩
        | succ k =>
          obtain ⟨q, h1, h2⟩ := ih.2 k (by simpa using hk)
          exact ⟨q, by simpa [Nat.add_assoc, Nat.add_comm 1 k] using h1, by simpa using h2⟩

theorem parseThrottles_ok : ∀ (l : List (Option RawThrottle)) (si i : Nat) (ts : List Throttle),
    parseThrottles si i l = .ok ts →
    ∀ t ∈ l, ∃ rt, t = some rt ∧ rt.bw > 0 ∧ ∃ st en, parseThrottleBytes rt.bytes = some (st, en)
  | [], _, _, _, _ => by intro t ht; cases ht
  | none :: _, si, i, ts, h => by simp [parseThrottles] at h
  | some t :: rest, si, i, ts, h => by
    unfold parseThrottles at h
    split at h
    · cases h
    · rename_i hbw
      cases hb : parseThrottleBytes t.bytes with
      | none => simp [hb] at h
      | some p =>
        obtain ⟨st, en⟩ := p
        simp only [hb] at h
        cases hr : parseThrottles si (i + 1) rest with
        | error e => simp [hr] at h
        | ok ts' =>
          intro x hx
          rcases List.mem_cons.1 hx with rfl | hx
          · exact ⟨t, rfl, by omega, st, en, hb⟩
          · exact parseThrottles_ok rest si (i + 1) ts' hr x hx

theorem parseHalts_ok : ∀ (l : List (Option RawHalt)) (si i : Nat) (as : List Action),
    parseHalts si i l = .ok as →
    (∀ h ∈ l, ∃ rh, h = some rh ∧ rh.byte ≥ 0 ∧ rh.dur ≥ 0 ∧ rh.count ≠ 0) ∧
    (∀ a ∈ as, a.byte ≥ 0 ∧ a.count ≠ 0)
  | [], _, _, as, h => by simp [parseHalts] at h; subst h; simp
  | none :: _, si, i, as, h => by simp [parseHalts] at h
  | some t :: rest, si, i, as, h => by
    unfold parseHalts at h
    split at h
    · cases h
    · rename_i h1
      split at h
      · cases h
      · rename_i h2
        cases hr : parseHalts si (i + 1) rest with
        | error e => simp [hr] at h
        | ok as' =>
          simp only [hr] at h
          cases h
          have ih := parseHalts_ok rest si (i + 1) as' hr
          constructor
          · intro x hx
            rcases List.mem_cons.1 hx with rfl | hx
            · exact ⟨t, rfl, by omega, by omega, h2⟩
            · exact ih.1 x hx
          · intro a ha
            rcases List.mem_cons.1 ha with rfl | ha
            · exact ⟨by simp only; omega, h2⟩
            · exact ih.2 a ha

theorem parseCloses_ok : ∀ (l : List (Option RawClose)) (si off i : Nat) (as : List Action),
    parseCloses si off i l = .ok as →
    (∀ h ∈ l, ∃ rc, h = some rc ∧ rc.byte ≥ 0 ∧ rc.count ≠ 0) ∧
    (∀ a ∈ as, a.byte ≥ 0 ∧ a.count ≠ 0)
  | [], _, _, _, as, h => by simp [parseCloses] at h; subst h; simp
  | none :: _, si, off, i, as, h => by simp [parseCloses] at h
  | some t :: rest, si, off, i, as, h => by
    unfold parseCloses at h
    split at h
    · cases h
    · rename_i h1
      split at h
      · cases h
      · rename_i h2
        cases hr : parseCloses si off (i + 1) rest with
        | error e => simp [hr] at h
        | ok as' =>
          simp only [hr] at h
          cases h
          have ih := parseCloses_ok rest si off (i + 1) as' hr
          constructor
          · intro x hx
            rcases List.mem_cons.1 hx with rfl | hx
            · exact ⟨t, rfl, by omega, h2⟩
            · exact ih.1 x hx
          · intro a ha
            rcases List.mem_cons.1 ha with rfl | ha
            · exact ⟨by simp only; omega, h2⟩
            · exact ih.2 a ha

/-- Consecutive throttles of the sorted list do not overlap, and only the last may be open-ended. -/
def NoOverlap : List Throttle → Prop
  | [] => True
  | [_] => True
  | t :: t2 :: rest => t.stop ≤ t2.start ∧ t.stop ≠ -1 ∧ NoOverlap (t2 :: rest)

theorem actionsFromThrottles_noOverlap (d : Int) : ∀ (ts : List Throttle) (as : List Action),
    actionsFromThrottles d ts = some as → NoOverlap ts
  | [], _, _ => trivial
  | [_], _, _ => trivial
  | t :: t2 :: rest, as, h => by
    unfold actionsFromThrottles at h
    split at h
    · cases h
    · rename_i hc
      cases hr : actionsFromThrottles d (t2 :: rest) with
      | none => simp [hr] at h
      | some as' =>
        exact ⟨by omega, by omega, actionsFromThrottles_noOverlap d (t2 :: rest) as' hr⟩

/-! ### One `Write` call -/

/-- The context/action-list pair a `Write` call starts from is well formed: actions sorted by
offset, the pending action exists, carries its own offset and is not behind the write position. -/
def CtxOK (c : Ctx) (acts : List Action) : Prop :=
  SortedBy Action.byte acts ∧
  ∀ i nb, c.next = some (i, nb) → ∃ h : i < acts.length, acts[i].byte = nb ∧ c.off ≤ nb

/-- Number of head bytes of this call (`writeAmount`). -/
def headPart (c : Ctx) (b : Bytes) : Nat :=
  if c.headerLen - c.headerWritten > 0 then min b.length (c.headerLen - c.headerWritten).toNat else 0

theorem headPart_le (c : Ctx) (b : Bytes) : headPart c b ≤ b.length := by
  unfold headPart; split <;> omega

theorem run (valid : Bool) (caps : Nat → Nat) (c : Ctx) (acts : List Action) (b : Bytes)
    (h : CtxOK c acts) :
    RunRel valid { off := c.off, next := c.next, acts := acts, delivered := b.take (headPart c b) }
      (b.drop (headPart c b))
      (bodyLoop valid caps (fuelFor (b.drop (headPart c b)) acts) 0
        { off := c.off, next := c.next, acts := acts, delivered := b.take (headPart c b) }
        (b.drop (headPart c b))).1
      (bodyLoop valid caps (fuelFor (b.drop (headPart c b)) acts) 0
        { off := c.off, next := c.next, acts := acts, delivered := b.take (headPart c b) }
        (b.drop (headPart c b))).2 := by
  apply bodyLoop_spec
  · exact ⟨h.1, h.2⟩
  · unfold fuelFor; simp only; omega

theorem shapedWrite_eq (valid : Bool) (caps : Nat → Nat) (c : Ctx) (acts : List Action) (b : Bytes) :
    shapedWrite valid caps c acts b =
      let r := bodyLoop valid caps (fuelFor (b.drop (headPart c b)) acts) 0
        { off := c.off, next := c.next, acts := acts, delivered := b.take (headPart c b) }
        (b.drop (headPart c b))
      { ctx := { c with headerWritten := c.headerWritten + (headPart c b : Int), off := r.1.off,
                        next := r.1.next, shaping := r.1.shaping },
        acts := r.1.acts, cap := r.1.cap, delivered := r.1.delivered, evs := r.1.evs, status := r.2 } := by
  unfold shapedWrite headPart
  rfl

end Martian.Shape
