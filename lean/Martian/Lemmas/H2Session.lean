import Martian.Model.H2Session
/-! Lemmas about the relay-session model: ranking function, invariant, disabledness facts. -/
namespace Martian.H2Session

@[simp] theorem wt_gone : Rd.gone.wt = 0 := rfl
@[simp] theorem wt_exiting : Rd.exiting.wt = 1 := rfl
@[simp] theorem wt_selReading : Rd.selReading.wt = 4 := rfl
theorem wt_lockWait (t n wr) : (Rd.lockWait t n wr).wt = (if wr then 8 else 6) + 4*n := by
  cases wr <;> simp [Rd.wt]
theorem wt_pushing (t n wr) : (Rd.pushing t n wr).wt = (if wr then 7 else 5) + 4*n := by
  cases wr <;> simp [Rd.wt]
theorem wt_mWait (t k) : (Rd.mWait t k).wt = (match k with | none => 6 | some n => 8 + 4*n) := by
  cases k <;> simp [Rd.wt]
theorem wt_mHold (t k) : (Rd.mHold t k).wt = (match k with | none => 5 | some n => 7 + 4*n) := by
  cases k <;> simp [Rd.wt]

theorem wt_selReady_ge (r : Res) : 3 ≤ (Rd.selReady r).wt := by
  rcases r with (w | _ | _)
  · rcases w with (n | n | n | n | _ | _ | _)
    all_goals simp [Rd.wt]
    all_goals omega
  all_goals simp [Rd.wt]

theorem wt_afterTake_lt (d : Dir) (r : Res) : (afterTake d r).wt < (Rd.selReady r).wt := by
  rcases r with (w | _ | _)
  · rcases w with (n | n | n | n | _ | _ | _)
    all_goals simp [Rd.wt, afterTake]
  all_goals simp [Rd.wt, afterTake]

theorem wt_afterWrite_lt (d t : Dir) (k : Option Nat) (f : Bool) : (afterWrite d k f).wt < (Rd.mHold t k).wt := by
  cases k <;> cases f <;> simp [afterWrite, Rd.wt] <;> omega

theorem wt_inSelect_ge {r : Rd} (h : r.inSelect = true) : 3 ≤ r.wt ∧ (r.isReading = true → r.wt = 4) := by
  cases r <;> simp [Rd.inSelect] at h <;> simp [Rd.isReading]
  exact wt_selReady_ge _

theorem ite_some_eq {α : Type} {c : Bool} {a : Option α} {b : α}
    (h : (if c = true then a else none) = some b) : c = true ∧ a = some b := by
  cases c <;> simp_all

/-- Names the fields of a state: `cr cw cf co ce cl cs cx cm` (c2s side: reader, writer, failed,
    out, werr, leak, stalled, wfail, dmu), `sr … sm`, `dn clg wt rt scc ccc`. -/
macro "destruct_sys" s:ident : tactic => `(tactic|
  obtain ⟨⟨cr, cw, cf, co, ce, cl, cs, cx, cm, cq⟩, ⟨sr, sw, sf, so, se, sl, ss, sx, sm, sq⟩, dn, clg, wt, rt, scc, ccc⟩ := $s)

macro "fin" : tactic => `(tactic| (simp [mu, Side.wt, Wr.wt, wt_lockWait, wt_pushing, wt_mWait, wt_mHold] <;> (repeat' split) <;> omega))

theorem dec_rTake {s s' : Sys} {d : Dir} (h : step s (.rTake d) = some s') : mu s' < mu s := by
  obtain ⟨⟨cr, cw, cf, co, ce, cl, cs, cx, cm, cq⟩, ⟨sr, sw, sf, so, se, sl, ss, sx, sm, sq⟩, dn, clg, wt, rt, scc, ccc⟩ := s
  cases d <;> simp only [step, Sys.side, Sys.setSide] at h <;> split at h <;> simp at h <;> subst h
  all_goals (rename_i r; have := wt_afterTake_lt .c2s r; have := wt_afterTake_lt .s2c r)
  all_goals (simp [mu, Side.wt]; omega)

theorem dec_rWerr {s s' : Sys} {d : Dir} (h : step s (.rWerr d) = some s') : mu s' < mu s := by
  obtain ⟨⟨cr, cw, cf, co, ce, cl, cs, cx, cm, cq⟩, ⟨sr, sw, sf, so, se, sl, ss, sx, sm, sq⟩, dn, clg, wt, rt, scc, ccc⟩ := s
  cases d <;> simp only [step, Sys.side, Sys.setSide] at h <;> have ⟨h1, h2⟩ := ite_some_eq h <;>
    simp at h2 <;> subst h2 <;> simp at h1 <;> have ⟨g1, g2⟩ := wt_inSelect_ge h1.1
  · cases hr : cr.isReading <;> simp [hr] at g2 <;> fin
  · cases hr : sr.isReading <;> simp [hr] at g2 <;> fin

theorem dec_rDone {s s' : Sys} {d : Dir} (h : step s (.rDone d) = some s') : mu s' < mu s := by
  obtain ⟨⟨cr, cw, cf, co, ce, cl, cs, cx, cm, cq⟩, ⟨sr, sw, sf, so, se, sl, ss, sx, sm, sq⟩, dn, clg, wt, rt, scc, ccc⟩ := s
  cases d <;> simp only [step, Sys.side, Sys.setSide] at h <;> have ⟨h1, h2⟩ := ite_some_eq h <;>
    simp at h2 <;> subst h2 <;> simp at h1 <;> have ⟨g1, g2⟩ := wt_inSelect_ge h1.1
  · cases hr : cr.isReading <;> simp [hr] at g2 <;> fin
  · cases hr : sr.isReading <;> simp [hr] at g2 <;> fin

theorem dec_acquire {s s' : Sys} {d : Dir} (h : step s (.acquire d) = some s') : mu s' < mu s := by
  obtain ⟨⟨cr, cw, cf, co, ce, cl, cs, cx, cm, cq⟩, ⟨sr, sw, sf, so, se, sl, ss, sx, sm, sq⟩, dn, clg, wt, rt, scc, ccc⟩ := s
  cases d
  · rcases cr with _ | r | ⟨t, n, b⟩ | ⟨t, n, b⟩ | ⟨t, k⟩ | ⟨t, k⟩ | _ | _ <;> (try cases t) <;>
      simp [step, Sys.side, Sys.setSide] at h <;> obtain ⟨_, rfl⟩ := h <;> fin
  · rcases sr with _ | r | ⟨t, n, b⟩ | ⟨t, n, b⟩ | ⟨t, k⟩ | ⟨t, k⟩ | _ | _ <;> (try cases t) <;>
      simp [step, Sys.side, Sys.setSide] at h <;> obtain ⟨_, rfl⟩ := h <;> fin

theorem dec_push {s s' : Sys} {d : Dir} (h : step s (.push d) = some s') : mu s' < mu s := by
  obtain ⟨⟨cr, cw, cf, co, ce, cl, cs, cx, cm, cq⟩, ⟨sr, sw, sf, so, se, sl, ss, sx, sm, sq⟩, dn, clg, wt, rt, scc, ccc⟩ := s
  cases d
  · rcases cr with _ | r | ⟨t, n, b⟩ | ⟨t, n, b⟩ | ⟨t, k⟩ | ⟨t, k⟩ | _ | _ <;> simp [step, Sys.side] at h
    cases t <;> cases n <;> simp [Sys.setSide] at h <;> obtain ⟨_, rfl⟩ := h <;> fin
  · rcases sr with _ | r | ⟨t, n, b⟩ | ⟨t, n, b⟩ | ⟨t, k⟩ | ⟨t, k⟩ | _ | _ <;> simp [step, Sys.side] at h
    cases t <;> cases n <;> simp [Sys.setSide] at h <;> obtain ⟨_, rfl⟩ := h <;> fin

theorem dec_release {s s' : Sys} {d : Dir} (h : step s (.release d) = some s') : mu s' < mu s := by
  obtain ⟨⟨cr, cw, cf, co, ce, cl, cs, cx, cm, cq⟩, ⟨sr, sw, sf, so, se, sl, ss, sx, sm, sq⟩, dn, clg, wt, rt, scc, ccc⟩ := s
  cases d
  · rcases cr with _ | r | ⟨t, n, b⟩ | ⟨t, n, b⟩ | ⟨t, k⟩ | ⟨t, k⟩ | _ | _ <;> simp [step, Sys.side] at h
    cases t <;> cases n <;> cases b <;> simp [Sys.side, Sys.setSide] at h <;> subst h <;> fin
  · rcases sr with _ | r | ⟨t, n, b⟩ | ⟨t, n, b⟩ | ⟨t, k⟩ | ⟨t, k⟩ | _ | _ <;> simp [step, Sys.side] at h
    cases t <;> cases n <;> cases b <;> simp [Sys.side, Sys.setSide] at h <;> subst h <;> fin

theorem dec_mAcquire {s s' : Sys} {d : Dir} (h : step s (.mAcquire d) = some s') : mu s' < mu s := by
  obtain ⟨⟨cr, cw, cf, co, ce, cl, cs, cx, cm, cq⟩, ⟨sr, sw, sf, so, se, sl, ss, sx, sm, sq⟩, dn, clg, wt, rt, scc, ccc⟩ := s
  cases d
  · rcases cr with _ | r | ⟨t, n, b⟩ | ⟨t, n, b⟩ | ⟨t, k⟩ | ⟨t, k⟩ | _ | _ <;> (try cases t) <;>
      simp [step, Sys.side, Sys.setSide] at h <;> obtain ⟨_, rfl⟩ := h <;> cases k <;> fin
  · rcases sr with _ | r | ⟨t, n, b⟩ | ⟨t, n, b⟩ | ⟨t, k⟩ | ⟨t, k⟩ | _ | _ <;> (try cases t) <;>
      simp [step, Sys.side, Sys.setSide] at h <;> obtain ⟨_, rfl⟩ := h <;> cases k <;> fin

theorem dec_mDone {s s' : Sys} {d : Dir} (h : step s (.mDone d) = some s') : mu s' < mu s := by
  obtain ⟨⟨cr, cw, cf, co, ce, cl, cs, cx, cm, cq⟩, ⟨sr, sw, sf, so, se, sl, ss, sx, sm, sq⟩, dn, clg, wt, rt, scc, ccc⟩ := s
  cases d
  · rcases cr with _ | r | ⟨t, n, b⟩ | ⟨t, n, b⟩ | ⟨t, k⟩ | ⟨t, k⟩ | _ | _ <;> (try cases t) <;>
      simp [step, Sys.side, Sys.setSide] at h <;> obtain ⟨_, rfl⟩ := h
    · have := wt_afterWrite_lt .c2s .c2s k cx; simp [mu, Side.wt]; omega
    · have := wt_afterWrite_lt .c2s .s2c k sx; simp [mu, Side.wt]; omega
  · rcases sr with _ | r | ⟨t, n, b⟩ | ⟨t, n, b⟩ | ⟨t, k⟩ | ⟨t, k⟩ | _ | _ <;> (try cases t) <;>
      simp [step, Sys.side, Sys.setSide] at h <;> obtain ⟨_, rfl⟩ := h
    · have := wt_afterWrite_lt .s2c .c2s k cx; simp [mu, Side.wt]; omega
    · have := wt_afterWrite_lt .s2c .s2c k sx; simp [mu, Side.wt]; omega

theorem dec_handshake {s s' : Sys} {d : Dir} (h : step s (.handshake d) = some s') : mu s' < mu s := by
  obtain ⟨⟨cr, cw, cf, co, ce, cl, cs, cx, cm, cq⟩, ⟨sr, sw, sf, so, se, sl, ss, sx, sm, sq⟩, dn, clg, wt, rt, scc, ccc⟩ := s
  cases d <;> simp only [step, Sys.side, Sys.setSide] at h <;> split at h <;> simp at h <;> obtain ⟨_, rfl⟩ := h
  all_goals fin

theorem dec_wTake {s s' : Sys} {d : Dir} (h : step s (.wTake d) = some s') : mu s' < mu s := by
  obtain ⟨⟨cr, cw, cf, co, ce, cl, cs, cx, cm, cq⟩, ⟨sr, sw, sf, so, se, sl, ss, sx, sm, sq⟩, dn, clg, wt, rt, scc, ccc⟩ := s
  cases d <;> simp only [step, Sys.side, Sys.setSide] at h <;> have ⟨h1, h2⟩ := ite_some_eq h
  · cases cf <;> simp at h2 <;> subst h2 <;> simp at h1 <;> obtain ⟨⟨_, rfl⟩, _⟩ := h1 <;> fin
  · cases sf <;> simp at h2 <;> subst h2 <;> simp at h1 <;> obtain ⟨⟨_, rfl⟩, _⟩ := h1 <;> fin

theorem dec_wLock {s s' : Sys} {d : Dir} (h : step s (.wLock d) = some s') : mu s' < mu s := by
  obtain ⟨⟨cr, cw, cf, co, ce, cl, cs, cx, cm, cq⟩, ⟨sr, sw, sf, so, se, sl, ss, sx, sm, sq⟩, dn, clg, wt, rt, scc, ccc⟩ := s
  cases d <;> simp only [step, Sys.side, Sys.setSide] at h <;> have ⟨h1, h2⟩ := ite_some_eq h <;>
    simp at h2 <;> subst h2 <;> simp at h1 <;> obtain ⟨rfl, _⟩ := h1 <;> fin

theorem dec_wDone {s s' : Sys} {d : Dir} (h : step s (.wDone d) = some s') : mu s' < mu s := by
  obtain ⟨⟨cr, cw, cf, co, ce, cl, cs, cx, cm, cq⟩, ⟨sr, sw, sf, so, se, sl, ss, sx, sm, sq⟩, dn, clg, wt, rt, scc, ccc⟩ := s
  cases d <;> simp only [step, Sys.side, Sys.setSide] at h <;> have ⟨h1, h2⟩ := ite_some_eq h
  · cases cx <;> simp at h2 <;> subst h2 <;> simp at h1 <;> (try obtain ⟨rfl, _⟩ := h1) <;> (try subst h1) <;> fin
  · cases sx <;> simp at h2 <;> subst h2 <;> simp at h1 <;> (try obtain ⟨rfl, _⟩ := h1) <;> (try subst h1) <;> fin

theorem dec_rfClosed {s s' : Sys} {d : Dir} (h : step s (.rfClosed d) = some s') : mu s' < mu s := by
  obtain ⟨⟨cr, cw, cf, co, ce, cl, cs, cx, cm, cq⟩, ⟨sr, sw, sf, so, se, sl, ss, sx, sm, sq⟩, dn, clg, wt, rt, scc, ccc⟩ := s
  cases d <;> simp only [step, Sys.side, Sys.setSide, srcClosed] at h <;> have ⟨h1, h2⟩ := ite_some_eq h <;>
    simp at h2 <;> subst h2 <;> simp at h1 <;> simp [h1.1] <;> fin

theorem dec_misc {s s' : Sys} {l : Label} (hl : l = .watchClosing ∨ l = .watchDone ∨ l = .ret)
    (h : step s l = some s') : mu s' < mu s := by
  obtain ⟨⟨cr, cw, cf, co, ce, cl, cs, cx, cm, cq⟩, ⟨sr, sw, sf, so, se, sl, ss, sx, sm, sq⟩, dn, clg, wt, rt, scc, ccc⟩ := s
  rcases hl with rfl | rfl | rfl <;> simp only [step] at h <;> have ⟨h1, h2⟩ := ite_some_eq h <;>
    simp at h2 <;> subst h2 <;> simp at h1 <;> simp [mu, Side.wt, h1]

theorem step_decreases {s s' : Sys} {l : Label} (hp : l.isProc = true) (h : step s l = some s') :
    mu s' < mu s := by
  cases l <;> simp [Label.isProc] at hp
  · exact dec_rTake h
  · exact dec_rWerr h
  · exact dec_rDone h
  · exact dec_acquire h
  · exact dec_push h
  · exact dec_release h
  · exact dec_mAcquire h
  · exact dec_mDone h
  · exact dec_handshake h
  · exact dec_wTake h
  · exact dec_wLock h
  · exact dec_wDone h
  · exact dec_misc (Or.inl rfl) h
  · exact dec_misc (Or.inr (Or.inl rfl)) h
  · exact dec_misc (Or.inr (Or.inr rfl)) h
  · exact dec_rfClosed h

/-! ### Invariant -/

def Good (s : Sys) : Prop :=
  (s.c.r = .gone → s.done = true) ∧ (s.s.r = .gone → s.done = true) ∧ (s.done = false → s.watcher = true) ∧
  (s.returned = true → s.c.r = .gone ∧ s.s.r = .gone ∧ s.scClosed = true) ∧
  (s.returned = false → s.scClosed = false ∧ s.ccClosed = false) ∧
  (s.c.w = .hold ↔ s.c.dmu = some .writer) ∧ (s.c.r.holdsDest .c2s = true ↔ s.c.dmu = some .own) ∧
  (s.s.r.holdsDest .c2s = true ↔ s.c.dmu = some .peer) ∧
  (s.s.w = .hold ↔ s.s.dmu = some .writer) ∧ (s.s.r.holdsDest .s2c = true ↔ s.s.dmu = some .own) ∧
  (s.c.r.holdsDest .s2c = true ↔ s.s.dmu = some .peer) ∧
  (s.c.r = .gone → s.c.w = .idle) ∧ (s.s.r = .gone → s.s.w = .idle) ∧
  (s.c.r.isPushing .c2s = true ↔ s.c.fmu = some .c2s) ∧ (s.s.r.isPushing .c2s = true ↔ s.c.fmu = some .s2c) ∧
  (s.c.r.isPushing .s2c = true ↔ s.s.fmu = some .c2s) ∧ (s.s.r.isPushing .s2c = true ↔ s.s.fmu = some .s2c)

@[simp] theorem isPushing_selReading (u) : Rd.selReading.isPushing u = false := rfl
@[simp] theorem isPushing_selReady (r u) : (Rd.selReady r).isPushing u = false := rfl
@[simp] theorem isPushing_lockWait (t n b u) : (Rd.lockWait t n b).isPushing u = false := rfl
@[simp] theorem isPushing_pushing (t n b u) : (Rd.pushing t n b).isPushing u = (t == u) := rfl
@[simp] theorem isPushing_mWait (t k u) : (Rd.mWait t k).isPushing u = false := rfl
@[simp] theorem isPushing_mHold (t k u) : (Rd.mHold t k).isPushing u = false := rfl
@[simp] theorem isPushing_exiting (u) : Rd.exiting.isPushing u = false := rfl
@[simp] theorem isPushing_gone (u) : Rd.gone.isPushing u = false := rfl

theorem afterTake_isPushing (d t : Dir) (r : Res) : (afterTake d r).isPushing t = false := by
  rcases r with (w | _ | _)
  · rcases w with (n | n | n | n | _ | _ | _)
    all_goals simp [afterTake]
  all_goals simp [afterTake]

theorem afterWrite_isPushing (d t : Dir) (k : Option Nat) (f : Bool) : (afterWrite d k f).isPushing t = false := by
  cases k <;> cases f <;> simp [afterWrite]

@[simp] theorem holdsDest_selReading (u) : Rd.selReading.holdsDest u = false := rfl
@[simp] theorem holdsDest_selReady (r u) : (Rd.selReady r).holdsDest u = false := rfl
@[simp] theorem holdsDest_lockWait (t n b u) : (Rd.lockWait t n b).holdsDest u = false := rfl
@[simp] theorem holdsDest_pushing (t n b u) : (Rd.pushing t n b).holdsDest u = false := rfl
@[simp] theorem holdsDest_mWait (t k u) : (Rd.mWait t k).holdsDest u = false := rfl
@[simp] theorem holdsDest_mHold (t k u) : (Rd.mHold t k).holdsDest u = (t == u) := rfl
@[simp] theorem holdsDest_exiting (u) : Rd.exiting.holdsDest u = false := rfl
@[simp] theorem holdsDest_gone (u) : Rd.gone.holdsDest u = false := rfl

theorem afterTake_ne_gone (d : Dir) (r : Res) : afterTake d r ≠ .gone := by
  rcases r with (w | _ | _)
  · rcases w with (n | n | n | n | _ | _ | _)
    all_goals simp [afterTake]
  all_goals simp [afterTake]

theorem afterTake_holdsDest (d t : Dir) (r : Res) : (afterTake d r).holdsDest t = false := by
  rcases r with (w | _ | _)
  · rcases w with (n | n | n | n | _ | _ | _)
    all_goals simp [afterTake, Rd.holdsDest]
  all_goals simp [afterTake, Rd.holdsDest]

theorem afterWrite_ne_gone (d : Dir) (k : Option Nat) (f : Bool) : afterWrite d k f ≠ .gone := by
  cases k <;> cases f <;> simp [afterWrite]

theorem afterWrite_holdsDest (d t : Dir) (k : Option Nat) (f : Bool) : (afterWrite d k f).holdsDest t = false := by
  cases k <;> cases f <;> simp [afterWrite, Rd.holdsDest]

/- Case analysis over every label and the reader state it inspects; `h : step s l = some s'` is
   inverted and `s'` substituted, then the closing tactic runs. Names: cr sr … are the fields of `s`
   (see `destruct_sys`). -/
set_option hygiene false in
macro "rd_cases " x:ident : tactic => `(tactic|
  rcases $x:ident with _ | r | ⟨t, n, b⟩ | ⟨t, n, b⟩ | ⟨t, k⟩ | ⟨t, k⟩ | _ | _)

set_option hygiene false in
macro "step_cases" c:tactic : tactic => `(tactic| (
  cases l
  case deliver d r =>
    cases d
    · rd_cases cr <;> simp [step, Sys.side, Sys.setSide, srcClosed] at h <;> obtain ⟨_, rfl⟩ := h <;> $c
    · rd_cases sr <;> simp [step, Sys.side, Sys.setSide, srcClosed] at h <;> obtain ⟨_, rfl⟩ := h <;> $c
  case closing => simp [step] at h; subst h; $c
  case callerClose => simp [step] at h; obtain ⟨_, rfl⟩ := h; $c
  case stall d => cases d <;> simp [step, Sys.side, Sys.setSide] at h <;> subst h <;> $c
  case unstall d => cases d <;> simp [step, Sys.side, Sys.setSide] at h <;> subst h <;> $c
  case failWrites d => cases d <;> simp [step, Sys.side, Sys.setSide] at h <;> subst h <;> $c
  case rTake d =>
    cases d
    · rd_cases cr <;> simp [step, Sys.side, Sys.setSide] at h
      subst h; $c
    · rd_cases sr <;> simp [step, Sys.side, Sys.setSide] at h
      subst h; $c
  case rWerr d =>
    cases d
    · rd_cases cr <;> simp [step, Sys.side, Sys.setSide, Rd.inSelect] at h <;> obtain ⟨_, rfl⟩ := h <;> $c
    · rd_cases sr <;> simp [step, Sys.side, Sys.setSide, Rd.inSelect] at h <;> obtain ⟨_, rfl⟩ := h <;> $c
  case rDone d =>
    cases d
    · rd_cases cr <;> simp [step, Sys.side, Sys.setSide, Rd.inSelect] at h <;> obtain ⟨_, rfl⟩ := h <;> $c
    · rd_cases sr <;> simp [step, Sys.side, Sys.setSide, Rd.inSelect] at h <;> obtain ⟨_, rfl⟩ := h <;> $c
  case acquire d =>
    cases d
    · rd_cases cr <;> (try cases t) <;> simp [step, Sys.side, Sys.setSide] at h <;> obtain ⟨_, rfl⟩ := h <;> $c
    · rd_cases sr <;> (try cases t) <;> simp [step, Sys.side, Sys.setSide] at h <;> obtain ⟨_, rfl⟩ := h <;> $c
  case push d =>
    cases d
    · rd_cases cr <;> simp [step, Sys.side] at h
      cases t <;> cases n <;> simp [Sys.setSide] at h <;> obtain ⟨_, rfl⟩ := h <;> $c
    · rd_cases sr <;> simp [step, Sys.side] at h
      cases t <;> cases n <;> simp [Sys.setSide] at h <;> obtain ⟨_, rfl⟩ := h <;> $c
  case release d =>
    cases d
    · rd_cases cr <;> simp [step, Sys.side] at h
      cases t <;> cases n <;> cases b <;> simp [Sys.side, Sys.setSide] at h <;> subst h <;> $c
    · rd_cases sr <;> simp [step, Sys.side] at h
      cases t <;> cases n <;> cases b <;> simp [Sys.side, Sys.setSide] at h <;> subst h <;> $c
  case mAcquire d =>
    cases d
    · rd_cases cr <;> (try cases t) <;> simp [step, Sys.side, Sys.setSide] at h <;> obtain ⟨_, rfl⟩ := h <;> $c
    · rd_cases sr <;> (try cases t) <;> simp [step, Sys.side, Sys.setSide] at h <;> obtain ⟨_, rfl⟩ := h <;> $c
  case mDone d =>
    cases d
    · rd_cases cr <;> (try cases t) <;> simp [step, Sys.side, Sys.setSide] at h <;> obtain ⟨_, rfl⟩ := h <;> $c
    · rd_cases sr <;> (try cases t) <;> simp [step, Sys.side, Sys.setSide] at h <;> obtain ⟨_, rfl⟩ := h <;> $c
  case handshake d =>
    cases d
    · rd_cases cr <;> simp [step, Sys.side, Sys.setSide] at h
      obtain ⟨_, rfl⟩ := h; $c
    · rd_cases sr <;> simp [step, Sys.side, Sys.setSide] at h
      obtain ⟨_, rfl⟩ := h; $c
  case wTake d =>
    cases d <;> simp only [step, Sys.side, Sys.setSide] at h <;> have ⟨h1, h2⟩ := ite_some_eq h
    · cases cf <;> simp at h2 <;> subst h2 <;> simp at h1 <;> $c
    · cases sf <;> simp at h2 <;> subst h2 <;> simp at h1 <;> $c
  case wLock d =>
    cases d <;> simp only [step, Sys.side, Sys.setSide] at h <;> have ⟨h1, h2⟩ := ite_some_eq h <;>
      simp at h2 <;> subst h2 <;> simp at h1 <;> $c
  case wDone d =>
    cases d <;> simp only [step, Sys.side, Sys.setSide] at h <;> have ⟨h1, h2⟩ := ite_some_eq h
    · cases cx <;> simp at h2 <;> subst h2 <;> simp at h1 <;> $c
    · cases sx <;> simp at h2 <;> subst h2 <;> simp at h1 <;> $c
  case watchClosing => simp [step] at h; obtain ⟨_, rfl⟩ := h; $c
  case watchDone => simp [step] at h; obtain ⟨_, rfl⟩ := h; $c
  case ret => simp [step] at h; obtain ⟨_, rfl⟩ := h; $c
  case rfClosed d => cases d <;> simp [step, Sys.side, Sys.setSide, srcClosed] at h <;> obtain ⟨_, rfl⟩ := h <;> $c))

macro "gfin" : tactic => `(tactic| (
  simp [Good, holderOf, afterTake_ne_gone, afterTake_holdsDest,
    afterWrite_ne_gone, afterWrite_holdsDest, afterTake_isPushing, afterWrite_isPushing] at * <;> (try simp_all) <;> (try grind)))

theorem good_step {s s' : Sys} {l : Label} (hg : Good s) (h : step s l = some s') : Good s' := by
  obtain ⟨⟨cr, cw, cf, co, ce, cl, cs, cx, cm, cq⟩, ⟨sr, sw, sf, so, se, sl, ss, sx, sm, sq⟩, dn, clg, wt, rt, scc, ccc⟩ := s
  step_cases gfin

/-! ### Deadlock characterisation

Structured (one component at a time, no product of the two readers' states): in a state where no
process can move and no connection write is stalled, nobody is inside a `destMu` critical section,
hence every `destMu` is free (invariant), hence nobody waits for one; a reader blocked on
`output <- f` of a relay whose writer still exists is impossible (the idle writer could take a
frame), which leaves exactly the F10c shape; without it every `flowMu` is free, every reader is in
its `select` or gone, and a terminating event lets each of them leave. -/

theorem q_none {s : Sys} (hq : quiescent s = true) {l : Label} (hl : l ∈ procLabels) : step s l = none := by
  have := List.all_eq_true.mp hq l hl
  simpa using this

theorem side_stalled {s : Sys} (hu : unstalled s = true) (t : Dir) : (s.side t).stalled = false := by
  simp [unstalled] at hu
  cases t <;> simp [Sys.side, hu]

theorem q_no_selReady {s : Sys} (hq : quiescent s = true) (d : Dir) (r : Res) : (s.side d).r ≠ .selReady r := by
  intro h
  have := q_none hq (l := .rTake d) (by cases d <;> decide)
  simp [step, h] at this

theorem q_no_mHold {s : Sys} (hq : quiescent s = true) (hu : unstalled s = true) (d t : Dir) (k : Option Nat) :
    (s.side d).r ≠ .mHold t k := by
  intro h
  have := q_none hq (l := .mDone d) (by cases d <;> decide)
  simp [step, h, side_stalled hu t] at this

theorem q_no_wHold {s : Sys} (hq : quiescent s = true) (hu : unstalled s = true) (d : Dir) : (s.side d).w ≠ .hold := by
  intro h
  have := q_none hq (l := .wDone d) (by cases d <;> decide)
  simp [step, h, side_stalled hu d] at this
  cases hx : (s.side d).wfail <;> simp [hx] at this

theorem q_no_pushing0 {s : Sys} (hq : quiescent s = true) (d t : Dir) (b : Bool) : (s.side d).r ≠ .pushing t 0 b := by
  intro h
  have := q_none hq (l := .release d) (by cases d <;> decide)
  cases b <;> simp [step, h] at this

theorem holdsDest_iff {r : Rd} {t : Dir} : r.holdsDest t = true ↔ ∃ k, r = .mHold t k := by
  cases r <;> simp

theorem good_dmu {s : Sys} (hg : Good s) (t : Dir) :
    ((s.side t).w = .hold ↔ (s.side t).dmu = some .writer) ∧
    ((s.side t).r.holdsDest t = true ↔ (s.side t).dmu = some .own) ∧
    ((s.side t.other).r.holdsDest t = true ↔ (s.side t).dmu = some .peer) := by
  obtain ⟨_, _, _, _, _, a1, a2, a3, b1, b2, b3, _, _, _⟩ := hg
  cases t
  · exact ⟨a1, a2, a3⟩
  · exact ⟨b1, b2, b3⟩

theorem good_fmu {s : Sys} (hg : Good s) (t o : Dir) :
    (s.side o).r.isPushing t = true ↔ (s.side t).fmu = some o := by
  obtain ⟨_, _, _, _, _, _, _, _, _, _, _, _, _, f1, f2, f3, f4⟩ := hg
  cases t <;> cases o
  · exact f1
  · exact f2
  · exact f3
  · exact f4

/-- Nothing stalled and nothing enabled: every `destMu` is free. -/
theorem q_dmu_free {s : Sys} (hg : Good s) (hq : quiescent s = true) (hu : unstalled s = true) (t : Dir) :
    (s.side t).dmu = none := by
  have ⟨g1, g2, g3⟩ := good_dmu hg t
  cases hm : (s.side t).dmu with
  | none => rfl
  | some o =>
    exfalso
    cases o
    · exact q_no_wHold hq hu t (g1.mpr hm)
    · obtain ⟨k, hk⟩ := holdsDest_iff.mp (g2.mpr hm); exact q_no_mHold hq hu t t k hk
    · obtain ⟨k, hk⟩ := holdsDest_iff.mp (g3.mpr hm); exact q_no_mHold hq hu t.other t k hk

theorem q_wIdle {s : Sys} (hg : Good s) (hq : quiescent s = true) (hu : unstalled s = true) (d : Dir) :
    (s.side d).w = .idle := by
  cases hw : (s.side d).w with
  | idle => rfl
  | hold => exact absurd hw (q_no_wHold hq hu d)
  | want =>
    exfalso
    have := q_none hq (l := .wLock d) (by cases d <;> decide)
    simp [step, hw, q_dmu_free hg hq hu d] at this

theorem q_no_mWait {s : Sys} (hg : Good s) (hq : quiescent s = true) (hu : unstalled s = true) (d t : Dir)
    (k : Option Nat) : (s.side d).r ≠ .mWait t k := by
  intro h
  have := q_none hq (l := .mAcquire d) (by cases d <;> decide)
  simp [step, h, q_dmu_free hg hq hu t] at this

theorem q_no_exiting {s : Sys} (hg : Good s) (hq : quiescent s = true) (hu : unstalled s = true) (d : Dir) :
    (s.side d).r ≠ .exiting := by
  intro h
  have := q_none hq (l := .handshake d) (by cases d <;> decide)
  simp [step, h, q_wIdle hg hq hu d] at this

/-- A relay whose reader (hence writer) still exists has an empty `output`. -/
theorem q_out_zero {s : Sys} (hg : Good s) (hq : quiescent s = true) (hu : unstalled s = true) (t : Dir)
    (hr : (s.side t).r ≠ .gone) : (s.side t).out = 0 := by
  have := q_none hq (l := .wTake t) (by cases t <;> decide)
  simp [step, hr, q_wIdle hg hq hu t] at this
  cases hf : (s.side t).failed <;> simp [hf] at this <;> omega

/-- A reader blocked on `output <- f`: the channel is full and its relay's reader and writer are gone,
    which is only possible for the PEER's output. -/
theorem q_pushing_f10c {s : Sys} (hg : Good s) (hq : quiescent s = true) (hu : unstalled s = true)
    (d t : Dir) (n : Nat) (b : Bool) (h : (s.side d).r = .pushing t n b) : f10cBlockedAt s d = true := by
  cases n with
  | zero => exact absurd h (q_no_pushing0 hq d t b)
  | succ n =>
    have hp := q_none hq (l := .push d) (by cases d <;> decide)
    simp [step, h] at hp
    have hfull : cap ≤ (s.side t).out := hp
    have hgone : (s.side t).r = .gone := by
      apply Classical.byContradiction; intro hne
      have := q_out_zero hg hq hu t hne
      simp [cap] at hfull; omega
    have htd : t = d.other := by
      cases d <;> cases t <;> simp [Dir.other] <;> simp [hgone] at h
    simp [f10cBlockedAt, h, htd] at *
    exact ⟨hgone, hfull⟩

theorem f10cBlockedAt_imp {s : Sys} {d : Dir} (h : f10cBlockedAt s d = true) : f10cBlocked s = true := by
  cases d <;> simp [f10cBlocked, h]

theorem q_no_lockWait {s : Sys} (hg : Good s) (hq : quiescent s = true) (hu : unstalled s = true)
    (hf : f10cBlocked s = false) (d t : Dir) (n : Nat) (b : Bool) : (s.side d).r ≠ .lockWait t n b := by
  intro h
  have hfree : (s.side t).fmu = none := by
    cases hl : (s.side t).fmu with
    | none => rfl
    | some o =>
      exfalso
      have ho : (s.side o).r.isPushing t = true := (good_fmu hg t o).mpr hl
      cases hc : (s.side o).r <;> simp [hc] at ho
      rename_i t' n' b'
      have := f10cBlockedAt_imp (q_pushing_f10c hg hq hu o t' n' b' hc); simp [hf] at this
  have := q_none hq (l := .acquire d) (by cases d <;> decide)
  simp [step, h, hfree] at this

/-- With nothing enabled, nothing stalled and no F10c block, each reader is in its `select` waiting
    for a frame, or gone. -/
theorem q_reader_shape {s : Sys} (hg : Good s) (hq : quiescent s = true) (hu : unstalled s = true)
    (hf : f10cBlocked s = false) (d : Dir) : (s.side d).r = .selReading ∨ (s.side d).r = .gone := by
  cases hr : (s.side d).r with
  | selReading => exact Or.inl rfl
  | gone => exact Or.inr rfl
  | selReady r => exact absurd hr (q_no_selReady hq d r)
  | lockWait t n b => exact absurd hr (q_no_lockWait hg hq hu hf d t n b)
  | pushing t n b => have := f10cBlockedAt_imp (q_pushing_f10c hg hq hu d t n b hr); simp [hf] at this
  | mWait t k => exact absurd hr (q_no_mWait hg hq hu d t k)
  | mHold t k => exact absurd hr (q_no_mHold hq hu d t k)
  | exiting => exact absurd hr (q_no_exiting hg hq hu d)

theorem progress_or_f10c {s : Sys} (hg : Good s) (ht : termed s = true) (hu : unstalled s = true)
    (hq : quiescent s = true) : s.returned = true ∨ f10cBlocked s = true := by
  cases hf : f10cBlocked s
  case true => exact Or.inr rfl
  left
  have hc := q_reader_shape hg hq hu hf .c2s
  have hs := q_reader_shape hg hq hu hf .s2c
  simp only [Sys.side] at hc hs
  have g := hg
  obtain ⟨g1, g2, g3, _⟩ := g
  -- once `done` is closed every reader in its select can leave: both are gone, and `ret` is enabled
  have key : s.done = true → s.returned = true := by
    intro hd
    have c1 := q_none hq (l := .rDone .c2s) (by decide)
    have c2 := q_none hq (l := .rDone .s2c) (by decide)
    have c3 := q_none hq (l := .ret) (by decide)
    rcases hc with hc | hc <;> rcases hs with hs | hs <;>
      simp [step, Sys.side, hc, hs, hd, Rd.inSelect] at c1 c2 c3
    exact c3
  cases hd : s.done
  case true => exact key hd
  exfalso
  have hw := g3 hd
  have hcg : s.c.r = .selReading := by
    rcases hc with hc | hc
    · exact hc
    · have := g1 hc; simp [hd] at this
  have hsg : s.s.r = .selReading := by
    rcases hs with hs | hs
    · exact hs
    · have := g2 hs; simp [hd] at this
  have c1 := q_none hq (l := .watchClosing) (by decide)
  have c2 := q_none hq (l := .rWerr .c2s) (by decide)
  have c3 := q_none hq (l := .rWerr .s2c) (by decide)
  simp [step, hw, Sys.side, hcg, hsg, Rd.inSelect] at c1 c2 c3
  simp [termed, hcg, hsg, Rd.terminal, hd, c1, c2, c3] at ht

/-! ### Stability facts -/

theorem terminal_afterTake (d : Dir) (r : Res) : (afterTake d r).terminal = (Rd.selReady r).terminal := by
  rcases r with (w | _ | _)
  · rcases w with (n | n | n | n | _ | _ | _)
    all_goals simp [afterTake, Rd.terminal]
  all_goals simp [afterTake, Rd.terminal]

@[simp] theorem terminal_exiting : Rd.exiting.terminal = true := rfl
@[simp] theorem terminal_gone : Rd.gone.terminal = true := rfl
@[simp] theorem terminal_selReading : Rd.selReading.terminal = false := rfl
@[simp] theorem terminal_lockWait (t n b) : (Rd.lockWait t n b).terminal = false := rfl
@[simp] theorem terminal_pushing (t n b) : (Rd.pushing t n b).terminal = false := rfl
@[simp] theorem terminal_mWait (t k) : (Rd.mWait t k).terminal = false := rfl
@[simp] theorem terminal_mHold (t k) : (Rd.mHold t k).terminal = false := rfl

theorem termed_stable {s s' : Sys} {l : Label} (ht : termed s = true) (h : step s l = some s') :
    termed s' = true := by
  obtain ⟨⟨cr, cw, cf, co, ce, cl, cs, cx, cm, cq⟩, ⟨sr, sw, sf, so, se, sl, ss, sx, sm, sq⟩, dn, clg, wt, rt, scc, ccc⟩ := s
  step_cases ((try simp [termed, terminal_afterTake] at ht ⊢) <;> (try grind))

theorem unstalled_proc {s s' : Sys} {l : Label} (hp : l.isProc = true) (h : step s l = some s') :
    unstalled s' = unstalled s := by
  obtain ⟨⟨cr, cw, cf, co, ce, cl, cs, cx, cm, cq⟩, ⟨sr, sw, sf, so, se, sl, ss, sx, sm, sq⟩, dn, clg, wt, rt, scc, ccc⟩ := s
  step_cases ((try simp [Label.isProc] at hp) <;> (try simp [unstalled]))

theorem noPeer_afterTake (d : Dir) (r : Res) (h : (Rd.selReady r).noPeer d = true) : (afterTake d r).noPeer d = true := by
  rcases r with (w | _ | _)
  · rcases w with (n | n | n | n | _ | _ | _)
    all_goals simp_all [afterTake, Rd.noPeer]
  all_goals simp [afterTake, Rd.noPeer]

theorem noPeer_afterWrite (d : Dir) (k : Option Nat) (f : Bool) : (afterWrite d k f).noPeer d = true := by
  cases k <;> cases f <;> simp [afterWrite, Rd.noPeer]

@[simp] theorem noPeer_exiting (d) : Rd.exiting.noPeer d = true := rfl
@[simp] theorem noPeer_gone (d) : Rd.gone.noPeer d = true := rfl
@[simp] theorem noPeer_selReading (d) : Rd.selReading.noPeer d = true := rfl
@[simp] theorem noPeer_lockWait (d t n b) : (Rd.lockWait t n b).noPeer d = (t == d) := rfl
@[simp] theorem noPeer_pushing (d t n b) : (Rd.pushing t n b).noPeer d = (t == d) := rfl
@[simp] theorem noPeer_mWait (d t k) : (Rd.mWait t k).noPeer d = true := rfl
@[simp] theorem noPeer_mHold (d t k) : (Rd.mHold t k).noPeer d = true := rfl

theorem noPeer_proc {s s' : Sys} {l : Label} (hp : l.isProc = true) (hn : noPeer s = true)
    (h : step s l = some s') : noPeer s' = true := by
  obtain ⟨⟨cr, cw, cf, co, ce, cl, cs, cx, cm, cq⟩, ⟨sr, sw, sf, so, se, sl, ss, sx, sm, sq⟩, dn, clg, wt, rt, scc, ccc⟩ := s
  step_cases ((try simp [Label.isProc] at hp) <;> (try simp [noPeer, noPeer_afterWrite] at hn ⊢) <;>
    (try (have := noPeer_afterTake .c2s r; have := noPeer_afterTake .s2c r)) <;> (try grind))

theorem f10c_not_noPeer {s : Sys} (h : f10cBlocked s = true) : noPeer s = false := by
  obtain ⟨⟨cr, cw, cf, co, ce, cl, cs, cx, cm, cq⟩, ⟨sr, sw, sf, so, se, sl, ss, sx, sm, sq⟩, dn, clg, wt, rt, scc, ccc⟩ := s
  simp [f10cBlocked, f10cBlockedAt, Sys.side] at h
  rcases h with h | h
  · rd_cases cr <;> (try (simp at h; done))
    cases n <;> simp at h
    simp [noPeer, h.1.1, Dir.other]
  · rd_cases sr <;> (try (simp at h; done))
    cases n <;> simp at h
    simp [noPeer, h.1.1, Dir.other]

theorem reach_exec {s s' : Sys} (hr : Reach s) : ∀ {ls : List Label}, exec s ls = some s' → Reach s' := by
  intro ls
  induction ls generalizing s with
  | nil => intro h; simp [exec] at h; subst h; exact hr
  | cons l ls ih =>
    intro h
    simp only [exec] at h
    split at h
    · rename_i s1 h1; exact ih (Reach.step l hr h1) h
    · simp at h

theorem good_init : Good init := by simp [Good, init]

theorem good_reach {s : Sys} (hr : Reach s) : Good s := by
  induction hr with
  | init => exact good_init
  | step l _ h ih => exact good_step ih h

/-- Process steps are bounded by the ranking function: a run of `n` process steps needs `mu s ≥ n`. -/
theorem exec_bounded {s s' : Sys} : ∀ {ls : List Label}, procOnly ls = true → exec s ls = some s' →
    ls.length + mu s' ≤ mu s := by
  intro ls
  induction ls generalizing s with
  | nil => intro _ h; simp [exec] at h; subst h; simp
  | cons l ls ih =>
    intro hp h
    simp only [exec] at h
    simp [procOnly] at hp
    split at h
    · rename_i s1 h1
      have := step_decreases hp.1 h1
      have := ih (by simpa [procOnly] using hp.2) h
      simp; omega
    · simp at h

theorem exec_keeps {s s' : Sys} : ∀ {ls : List Label}, procOnly ls = true → exec s ls = some s' →
    termed s = true → (termed s' = true ∧ unstalled s' = unstalled s ∧ (noPeer s = true → noPeer s' = true)) := by
  intro ls
  induction ls generalizing s with
  | nil => intro _ h ht; simp [exec] at h; subst h; exact ⟨ht, rfl, id⟩
  | cons l ls ih =>
    intro hp h ht
    simp only [exec] at h
    simp [procOnly] at hp
    split at h
    · rename_i s1 h1
      have ⟨a, b, c⟩ := ih (by simpa [procOnly] using hp.2) h (termed_stable ht h1)
      exact ⟨a, by rw [b, unstalled_proc hp.1 h1], fun hn => c (noPeer_proc hp.1 hn h1)⟩
    · simp at h

/-! ### Locks -/

/-- The explicit owner of each `destMu` is exactly the set of goroutines whose control state is inside
    the critical section (so at most one is). -/
theorem good_destUsers {s : Sys} (hg : Good s) (t : Dir) : destUsers s t = (s.side t).dmu.toList := by
  have ⟨g1, g2, g3⟩ := good_dmu hg t
  simp only [destUsers]
  cases hm : (s.side t).dmu with
  | none =>
    have a : (s.side t).w ≠ .hold := fun h => by simpa [hm] using g1.mp h
    have b : (s.side t).r.holdsDest t = false := by
      cases hb : (s.side t).r.holdsDest t
      · rfl
      · simpa [hm] using g2.mp hb
    have c : (s.side t.other).r.holdsDest t = false := by
      cases hb : (s.side t.other).r.holdsDest t
      · rfl
      · simpa [hm] using g3.mp hb
    simp [a, b, c]
  | some o =>
    have a : ((s.side t).w = .hold) ↔ o = .writer := by rw [g1, hm]; simp
    have b : ((s.side t).r.holdsDest t = true) ↔ o = .own := by rw [g2, hm]; simp
    have c : ((s.side t.other).r.holdsDest t = true) ↔ o = .peer := by rw [g3, hm]; simp
    cases o <;> simp_all

end Martian.H2Session
