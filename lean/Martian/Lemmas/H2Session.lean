import Martian.Model.H2Session
/-! Lemmas about the relay-session model: ranking function, invariant, disabledness facts. -/
namespace Martian.H2Session

@[simp] theorem wt_gone : Rd.gone.wt = 0 := rfl
@[simp] theorem wt_exiting : Rd.exiting.wt = 1 := rfl
@[simp] theorem wt_selReading : Rd.selReading.wt = 4 := rfl
@[simp] theorem wt_lockWait (t n) : (Rd.lockWait t n).wt = 6 + 2*n := rfl
@[simp] theorem wt_pushing (t n) : (Rd.pushing t n).wt = 5 + 2*n := rfl
theorem wt_selReady_ge (r : Res) : 3 ≤ (Rd.selReady r).wt := by
  rcases r with (w | _ | _)
  · rcases w with (n | n | b | _)
    all_goals (try cases b)
    all_goals simp [Rd.wt]
    all_goals omega
  all_goals simp [Rd.wt]
theorem wt_afterTake_lt (d : Dir) (r : Res) : (afterTake d r).wt < (Rd.selReady r).wt := by
  rcases r with (w | _ | _)
  · rcases w with (n | n | b | _)
    all_goals (try cases b)
    all_goals simp [Rd.wt, afterTake]
  all_goals simp [Rd.wt, afterTake]

theorem wt_inSelect_ge {r : Rd} (h : r.inSelect = true) : 3 ≤ r.wt ∧ (r.isReading = true → r.wt = 4) := by
  cases r <;> simp [Rd.inSelect] at h <;> simp [Rd.isReading]
  exact wt_selReady_ge _

theorem ite_some_eq {α : Type} {c : Bool} {a : Option α} {b : α}
    (h : (if c = true then a else none) = some b) : c = true ∧ a = some b := by
  cases c <;> simp_all

macro "fin" : tactic => `(tactic| (simp [mu, Side.wt] <;> (repeat' split) <;> omega))

theorem dec_wSend {s s' : Sys} {d : Dir} {ok : Bool} (h : step s (.wSend d ok) = some s') : mu s' < mu s := by
  obtain ⟨⟨cr, cf, co, cw, cl, cs⟩, ⟨sr, sf, so, sw, sl, ss⟩, dn, clg, wt, rt, scc, ccc⟩ := s
  cases d <;> simp only [step, Sys.side, Sys.setSide] at h <;> have ⟨h1, h2⟩ := ite_some_eq h
  · cases hb : (!cf && !ok) <;> simp [hb] at h2 <;> subst h2 <;> simp at h1 <;> fin
  · cases hb : (!sf && !ok) <;> simp [hb] at h2 <;> subst h2 <;> simp at h1 <;> fin

theorem dec_rWerr {s s' : Sys} {d : Dir} (h : step s (.rWerr d) = some s') : mu s' < mu s := by
  obtain ⟨⟨cr, cf, co, cw, cl, cs⟩, ⟨sr, sf, so, sw, sl, ss⟩, dn, clg, wt, rt, scc, ccc⟩ := s
  cases d <;> simp only [step, Sys.side, Sys.setSide] at h <;> have ⟨h1, h2⟩ := ite_some_eq h <;>
    simp at h2 <;> subst h2 <;> simp at h1 <;> have ⟨g1, g2⟩ := wt_inSelect_ge h1.1
  · cases hr : cr.isReading <;> simp [hr] at g2 <;> fin
  · cases hr : sr.isReading <;> simp [hr] at g2 <;> fin

theorem dec_rDone {s s' : Sys} {d : Dir} (h : step s (.rDone d) = some s') : mu s' < mu s := by
  obtain ⟨⟨cr, cf, co, cw, cl, cs⟩, ⟨sr, sf, so, sw, sl, ss⟩, dn, clg, wt, rt, scc, ccc⟩ := s
  cases d <;> simp only [step, Sys.side, Sys.setSide] at h <;> have ⟨h1, h2⟩ := ite_some_eq h <;>
    simp at h2 <;> subst h2 <;> simp at h1 <;> have ⟨g1, g2⟩ := wt_inSelect_ge h1.1
  · cases hr : cr.isReading <;> simp [hr] at g2 <;> fin
  · cases hr : sr.isReading <;> simp [hr] at g2 <;> fin

theorem dec_rTake {s s' : Sys} {d : Dir} (h : step s (.rTake d) = some s') : mu s' < mu s := by
  obtain ⟨⟨cr, cf, co, cw, cl, cs⟩, ⟨sr, sf, so, sw, sl, ss⟩, dn, clg, wt, rt, scc, ccc⟩ := s
  cases d <;> simp only [step, Sys.side, Sys.setSide] at h <;> split at h <;> simp at h <;> subst h
  all_goals (rename_i r; have := wt_afterTake_lt .c2s r; have := wt_afterTake_lt .s2c r)
  all_goals fin

theorem dec_acquire {s s' : Sys} {d : Dir} (h : step s (.acquire d) = some s') : mu s' < mu s := by
  obtain ⟨⟨cr, cf, co, cw, cl, cs⟩, ⟨sr, sf, so, sw, sl, ss⟩, dn, clg, wt, rt, scc, ccc⟩ := s
  cases d <;> simp only [step, Sys.side, Sys.setSide] at h <;> split at h <;> simp at h <;> obtain ⟨_, rfl⟩ := h
  all_goals fin

theorem dec_push {s s' : Sys} {d : Dir} (h : step s (.push d) = some s') : mu s' < mu s := by
  obtain ⟨⟨cr, cf, co, cw, cl, cs⟩, ⟨sr, sf, so, sw, sl, ss⟩, dn, clg, wt, rt, scc, ccc⟩ := s
  cases d
  · rcases cr with _ | r | ⟨t, n⟩ | ⟨t, n⟩ | _ | _ <;> simp [step, Sys.side] at h
    cases t <;> cases n <;> simp [Sys.side, Sys.setSide] at h <;> obtain ⟨_, rfl⟩ := h <;> fin
  · rcases sr with _ | r | ⟨t, n⟩ | ⟨t, n⟩ | _ | _ <;> simp [step, Sys.side] at h
    cases t <;> cases n <;> simp [Sys.side, Sys.setSide] at h <;> obtain ⟨_, rfl⟩ := h <;> fin

theorem dec_release {s s' : Sys} {d : Dir} (h : step s (.release d) = some s') : mu s' < mu s := by
  obtain ⟨⟨cr, cf, co, cw, cl, cs⟩, ⟨sr, sf, so, sw, sl, ss⟩, dn, clg, wt, rt, scc, ccc⟩ := s
  cases d <;> simp only [step, Sys.side, Sys.setSide] at h <;> split at h <;> simp at h <;> subst h
  all_goals fin

theorem dec_handshake {s s' : Sys} {d : Dir} (h : step s (.handshake d) = some s') : mu s' < mu s := by
  obtain ⟨⟨cr, cf, co, cw, cl, cs⟩, ⟨sr, sf, so, sw, sl, ss⟩, dn, clg, wt, rt, scc, ccc⟩ := s
  cases d <;> simp only [step, Sys.side, Sys.setSide] at h <;> split at h <;> simp at h <;> obtain ⟨_, rfl⟩ := h
  all_goals fin

theorem dec_rfClosed {s s' : Sys} {d : Dir} (h : step s (.rfClosed d) = some s') : mu s' < mu s := by
  obtain ⟨⟨cr, cf, co, cw, cl, cs⟩, ⟨sr, sf, so, sw, sl, ss⟩, dn, clg, wt, rt, scc, ccc⟩ := s
  cases d <;> simp only [step, Sys.side, Sys.setSide, srcClosed] at h <;> have ⟨h1, h2⟩ := ite_some_eq h <;>
    simp at h2 <;> subst h2 <;> simp at h1 <;> simp [h1.1] <;> fin

theorem dec_misc {s s' : Sys} {l : Label} (hl : l = .watchClosing ∨ l = .watchDone ∨ l = .ret)
    (h : step s l = some s') : mu s' < mu s := by
  obtain ⟨⟨cr, cf, co, cw, cl, cs⟩, ⟨sr, sf, so, sw, sl, ss⟩, dn, clg, wt, rt, scc, ccc⟩ := s
  rcases hl with rfl | rfl | rfl <;> simp only [step] at h <;> have ⟨h1, h2⟩ := ite_some_eq h <;>
    simp at h2 <;> subst h2 <;> simp at h1 <;> simp [mu, Side.wt, h1]

theorem step_decreases {s s' : Sys} {l : Label} (hp : l.isProc = true) (h : step s l = some s') :
    mu s' < mu s := by
  cases l <;> simp [Label.isProc] at hp
  · exact dec_rTake h
  · exact dec_rWerr h
  · exact dec_rDone h
  · exact dec_acquire h
  · exact dec_push h
  · exact dec_release h
  · exact dec_handshake h
  · exact dec_wSend h
  · exact dec_misc (Or.inl rfl) h
  · exact dec_misc (Or.inr (Or.inl rfl)) h
  · exact dec_misc (Or.inr (Or.inr rfl)) h
  · exact dec_rfClosed h


def Good (s : Sys) : Prop :=
  (s.c.r = .gone → s.done = true) ∧ (s.s.r = .gone → s.done = true) ∧ (s.done = false → s.watcher = true) ∧
  (s.returned = true → s.c.r = .gone ∧ s.s.r = .gone ∧ s.scClosed = true) ∧
  (s.returned = false → s.scClosed = false ∧ s.ccClosed = false)

theorem afterTake_ne_gone (d : Dir) (r : Res) : afterTake d r ≠ .gone := by
  rcases r with (w | _ | _)
  · rcases w with (n | n | b | _)
    all_goals (try cases b)
    all_goals simp [afterTake]
  all_goals simp [afterTake]

macro "gfin" : tactic => `(tactic| (simp [Good] at * <;> simp_all))

theorem good_step {s s' : Sys} {l : Label} (hg : Good s) (h : step s l = some s') : Good s' := by
  obtain ⟨⟨cr, cf, co, cw, cl, cs⟩, ⟨sr, sf, so, sw, sl, ss⟩, dn, clg, wt, rt, scc, ccc⟩ := s
  cases l
  case deliver d r =>
    cases d
    · rcases cr with _ | r | ⟨t, n⟩ | ⟨t, n⟩ | _ | _ <;> simp [step, Sys.side, Sys.setSide, srcClosed] at h <;>
        obtain ⟨_, rfl⟩ := h <;> gfin
    · rcases sr with _ | r | ⟨t, n⟩ | ⟨t, n⟩ | _ | _ <;> simp [step, Sys.side, Sys.setSide, srcClosed] at h <;>
        obtain ⟨_, rfl⟩ := h <;> gfin
  case closing => simp [step] at h; subst h; gfin
  case callerClose => simp [step] at h; obtain ⟨_, rfl⟩ := h; gfin
  case stall d => cases d <;> simp [step, Sys.side, Sys.setSide] at h <;> subst h <;> gfin
  case unstall d => cases d <;> simp [step, Sys.side, Sys.setSide] at h <;> subst h <;> gfin
  case rTake d =>
    cases d
    · rcases cr with _ | r | ⟨t, n⟩ | ⟨t, n⟩ | _ | _ <;> simp [step, Sys.side, Sys.setSide] at h
      subst h; have := afterTake_ne_gone .c2s r; gfin
    · rcases sr with _ | r | ⟨t, n⟩ | ⟨t, n⟩ | _ | _ <;> simp [step, Sys.side, Sys.setSide] at h
      subst h; have := afterTake_ne_gone .s2c r; gfin
  case rWerr d =>
    cases d
    · rcases cr with _ | r | ⟨t, n⟩ | ⟨t, n⟩ | _ | _ <;> simp [step, Sys.side, Sys.setSide, Rd.inSelect] at h <;>
        obtain ⟨_, rfl⟩ := h <;> gfin
    · rcases sr with _ | r | ⟨t, n⟩ | ⟨t, n⟩ | _ | _ <;> simp [step, Sys.side, Sys.setSide, Rd.inSelect] at h <;>
        obtain ⟨_, rfl⟩ := h <;> gfin
  case rDone d =>
    cases d
    · rcases cr with _ | r | ⟨t, n⟩ | ⟨t, n⟩ | _ | _ <;> simp [step, Sys.side, Sys.setSide, Rd.inSelect] at h <;>
        obtain ⟨_, rfl⟩ := h <;> gfin
    · rcases sr with _ | r | ⟨t, n⟩ | ⟨t, n⟩ | _ | _ <;> simp [step, Sys.side, Sys.setSide, Rd.inSelect] at h <;>
        obtain ⟨_, rfl⟩ := h <;> gfin
  case acquire d =>
    cases d
    · rcases cr with _ | r | ⟨t, n⟩ | ⟨t, n⟩ | _ | _ <;> simp [step, Sys.side, Sys.setSide] at h
      obtain ⟨_, rfl⟩ := h; gfin
    · rcases sr with _ | r | ⟨t, n⟩ | ⟨t, n⟩ | _ | _ <;> simp [step, Sys.side, Sys.setSide] at h
      obtain ⟨_, rfl⟩ := h; gfin
  case push d =>
    cases d
    · rcases cr with _ | r | ⟨t, n⟩ | ⟨t, n⟩ | _ | _ <;> simp [step, Sys.side] at h
      cases t <;> cases n <;> simp [Sys.setSide] at h <;> obtain ⟨_, rfl⟩ := h <;> gfin
    · rcases sr with _ | r | ⟨t, n⟩ | ⟨t, n⟩ | _ | _ <;> simp [step, Sys.side] at h
      cases t <;> cases n <;> simp [Sys.setSide] at h <;> obtain ⟨_, rfl⟩ := h <;> gfin
  case release d =>
    cases d
    · rcases cr with _ | r | ⟨t, n⟩ | ⟨t, n⟩ | _ | _ <;> simp [step, Sys.side, Sys.setSide] at h
      cases n <;> simp at h; subst h; gfin
    · rcases sr with _ | r | ⟨t, n⟩ | ⟨t, n⟩ | _ | _ <;> simp [step, Sys.side, Sys.setSide] at h
      cases n <;> simp at h; subst h; gfin
  case handshake d =>
    cases d
    · rcases cr with _ | r | ⟨t, n⟩ | ⟨t, n⟩ | _ | _ <;> simp [step, Sys.side, Sys.setSide] at h
      obtain ⟨_, rfl⟩ := h; gfin
    · rcases sr with _ | r | ⟨t, n⟩ | ⟨t, n⟩ | _ | _ <;> simp [step, Sys.side, Sys.setSide] at h
      obtain ⟨_, rfl⟩ := h; gfin
  case wSend d ok =>
    cases d <;> simp only [step, Sys.side, Sys.setSide] at h <;> have ⟨h1, h2⟩ := ite_some_eq h
    · cases hb : (!cf && !ok) <;> simp [hb] at h2 <;> subst h2 <;> gfin
    · cases hb : (!sf && !ok) <;> simp [hb] at h2 <;> subst h2 <;> gfin
  case watchClosing => simp [step] at h; obtain ⟨_, rfl⟩ := h; gfin
  case watchDone => simp [step] at h; obtain ⟨_, rfl⟩ := h; gfin
  case ret => simp [step] at h; obtain ⟨_, rfl⟩ := h; gfin
  case rfClosed d => cases d <;> simp [step, Sys.side, Sys.setSide, srcClosed] at h <;> obtain ⟨_, rfl⟩ := h <;> gfin


set_option hygiene false in
macro "pclose" : tactic => `(tactic| (
  (try simp [quiescent, procLabels, step, Sys.side, Sys.setSide, Rd.inSelect, lockHeld, Rd.isPushing, srcClosed, cap] at hq) <;>
  (try simp [Good] at hg) <;>
  (try simp [termed, Rd.terminal] at ht) <;>
  (try simp [f10cBlocked, f10cBlockedAt, Sys.side, Dir.other, cap]) <;>
  (try simp_all) <;> (try omega)))

/-- Statement of the progress lemma for a fixed state of the c2s reader. -/
def ProgressAt (cr : Rd) : Prop :=
  ∀ (cf : Bool) (co : Nat) (cw cl : Bool) (y : Side) (dn clg wt rt scc ccc : Bool),
    let s : Sys := ⟨⟨cr, cf, co, cw, cl, false⟩, y, dn, clg, wt, rt, scc, ccc⟩
    y.stalled = false → Good s → termed s = true → quiescent s = true → s.returned = true ∨ f10cBlocked s = true

theorem progress_selReading : ProgressAt .selReading := by
  intro cf co cw cl y dn clg wt rt scc ccc s hy hg ht hq
  obtain ⟨sr, sf, so, sw, sl, ss⟩ := y
  simp at hy; subst hy
  simp only [s] at hg ht hq ⊢
  rcases sr with _ | r' | ⟨t', n'⟩ | ⟨t', n'⟩ | _ | _ <;> (try cases t') <;> (try cases n') <;> pclose

theorem progress_selReady (r : Res) : ProgressAt (.selReady r) := by
  intro cf co cw cl y dn clg wt rt scc ccc s hy hg ht hq
  obtain ⟨sr, sf, so, sw, sl, ss⟩ := y
  simp at hy; subst hy
  simp only [s] at hg ht hq ⊢
  rcases sr with _ | r' | ⟨t', n'⟩ | ⟨t', n'⟩ | _ | _ <;> (try cases t') <;> (try cases n') <;> pclose

theorem progress_lockWait (t : Dir) (n : Nat) : ProgressAt (.lockWait t n) := by
  intro cf co cw cl y dn clg wt rt scc ccc s hy hg ht hq
  obtain ⟨sr, sf, so, sw, sl, ss⟩ := y
  simp at hy; subst hy
  simp only [s] at hg ht hq ⊢
  cases t <;> cases n
  all_goals (
    rcases sr with _ | r' | ⟨t', n'⟩ | ⟨t', n'⟩ | _ | _ <;> (try cases t') <;> (try cases n') <;> pclose)

theorem progress_pushing (t : Dir) (n : Nat) : ProgressAt (.pushing t n) := by
  intro cf co cw cl y dn clg wt rt scc ccc s hy hg ht hq
  obtain ⟨sr, sf, so, sw, sl, ss⟩ := y
  simp at hy; subst hy
  simp only [s] at hg ht hq ⊢
  cases t <;> cases n
  all_goals (
    rcases sr with _ | r' | ⟨t', n'⟩ | ⟨t', n'⟩ | _ | _ <;> (try cases t') <;> (try cases n') <;> pclose)

theorem progress_exiting : ProgressAt .exiting := by
  intro cf co cw cl y dn clg wt rt scc ccc s hy hg ht hq
  obtain ⟨sr, sf, so, sw, sl, ss⟩ := y
  simp at hy; subst hy
  simp only [s] at hg ht hq ⊢
  rcases sr with _ | r' | ⟨t', n'⟩ | ⟨t', n'⟩ | _ | _ <;> (try cases t') <;> (try cases n') <;> pclose

theorem progress_gone : ProgressAt .gone := by
  intro cf co cw cl y dn clg wt rt scc ccc s hy hg ht hq
  obtain ⟨sr, sf, so, sw, sl, ss⟩ := y
  simp at hy; subst hy
  simp only [s] at hg ht hq ⊢
  rcases sr with _ | r' | ⟨t', n'⟩ | ⟨t', n'⟩ | _ | _ <;> (try cases t') <;> (try cases n') <;> pclose

theorem progress_or_f10c {s : Sys} (hg : Good s) (ht : termed s = true) (hu : unstalled s = true)
    (hq : quiescent s = true) : s.returned = true ∨ f10cBlocked s = true := by
  obtain ⟨⟨cr, cf, co, cw, cl, cs⟩, y, dn, clg, wt, rt, scc, ccc⟩ := s
  simp [unstalled] at hu
  obtain ⟨rfl, hy⟩ := hu
  cases cr
  · exact progress_selReading cf co cw cl y dn clg wt rt scc ccc hy hg ht hq
  · exact progress_selReady _ cf co cw cl y dn clg wt rt scc ccc hy hg ht hq
  · exact progress_lockWait _ _ cf co cw cl y dn clg wt rt scc ccc hy hg ht hq
  · exact progress_pushing _ _ cf co cw cl y dn clg wt rt scc ccc hy hg ht hq
  · exact progress_exiting cf co cw cl y dn clg wt rt scc ccc hy hg ht hq
  · exact progress_gone cf co cw cl y dn clg wt rt scc ccc hy hg ht hq


/- Case analysis over every label and the reader state it inspects; `h : step s l = some s'` is
   inverted and `s'` substituted, then the closing tactic runs. Names: cr sr … are the fields of `s`. -/
set_option hygiene false in
macro "step_cases" c:tactic : tactic => `(tactic| (
  cases l
  case deliver d r =>
    cases d
    · rcases cr with _ | r | ⟨t, n⟩ | ⟨t, n⟩ | _ | _ <;> simp [step, Sys.side, Sys.setSide, srcClosed] at h <;>
        obtain ⟨_, rfl⟩ := h <;> $c
    · rcases sr with _ | r | ⟨t, n⟩ | ⟨t, n⟩ | _ | _ <;> simp [step, Sys.side, Sys.setSide, srcClosed] at h <;>
        obtain ⟨_, rfl⟩ := h <;> $c
  case closing => simp [step] at h; subst h; $c
  case callerClose => simp [step] at h; obtain ⟨_, rfl⟩ := h; $c
  case stall d => cases d <;> simp [step, Sys.side, Sys.setSide] at h <;> subst h <;> $c
  case unstall d => cases d <;> simp [step, Sys.side, Sys.setSide] at h <;> subst h <;> $c
  case rTake d =>
    cases d
    · rcases cr with _ | r | ⟨t, n⟩ | ⟨t, n⟩ | _ | _ <;> simp [step, Sys.side, Sys.setSide] at h
      subst h; $c
    · rcases sr with _ | r | ⟨t, n⟩ | ⟨t, n⟩ | _ | _ <;> simp [step, Sys.side, Sys.setSide] at h
      subst h; $c
  case rWerr d =>
    cases d
    · rcases cr with _ | r | ⟨t, n⟩ | ⟨t, n⟩ | _ | _ <;> simp [step, Sys.side, Sys.setSide, Rd.inSelect] at h <;>
        obtain ⟨_, rfl⟩ := h <;> $c
    · rcases sr with _ | r | ⟨t, n⟩ | ⟨t, n⟩ | _ | _ <;> simp [step, Sys.side, Sys.setSide, Rd.inSelect] at h <;>
        obtain ⟨_, rfl⟩ := h <;> $c
  case rDone d =>
    cases d
    · rcases cr with _ | r | ⟨t, n⟩ | ⟨t, n⟩ | _ | _ <;> simp [step, Sys.side, Sys.setSide, Rd.inSelect] at h <;>
        obtain ⟨_, rfl⟩ := h <;> $c
    · rcases sr with _ | r | ⟨t, n⟩ | ⟨t, n⟩ | _ | _ <;> simp [step, Sys.side, Sys.setSide, Rd.inSelect] at h <;>
        obtain ⟨_, rfl⟩ := h <;> $c
  case acquire d =>
    cases d
    · rcases cr with _ | r | ⟨t, n⟩ | ⟨t, n⟩ | _ | _ <;> simp [step, Sys.side, Sys.setSide] at h
      obtain ⟨_, rfl⟩ := h; $c
    · rcases sr with _ | r | ⟨t, n⟩ | ⟨t, n⟩ | _ | _ <;> simp [step, Sys.side, Sys.setSide] at h
      obtain ⟨_, rfl⟩ := h; $c
  case push d =>
    cases d
    · rcases cr with _ | r | ⟨t, n⟩ | ⟨t, n⟩ | _ | _ <;> simp [step, Sys.side] at h
      cases t <;> cases n <;> simp [Sys.setSide] at h <;> obtain ⟨_, rfl⟩ := h <;> $c
    · rcases sr with _ | r | ⟨t, n⟩ | ⟨t, n⟩ | _ | _ <;> simp [step, Sys.side] at h
      cases t <;> cases n <;> simp [Sys.setSide] at h <;> obtain ⟨_, rfl⟩ := h <;> $c
  case release d =>
    cases d
    · rcases cr with _ | r | ⟨t, n⟩ | ⟨t, n⟩ | _ | _ <;> simp [step, Sys.side, Sys.setSide] at h
      cases n <;> simp at h; subst h; $c
    · rcases sr with _ | r | ⟨t, n⟩ | ⟨t, n⟩ | _ | _ <;> simp [step, Sys.side, Sys.setSide] at h
      cases n <;> simp at h; subst h; $c
  case handshake d =>
    cases d
    · rcases cr with _ | r | ⟨t, n⟩ | ⟨t, n⟩ | _ | _ <;> simp [step, Sys.side, Sys.setSide] at h
      obtain ⟨_, rfl⟩ := h; $c
    · rcases sr with _ | r | ⟨t, n⟩ | ⟨t, n⟩ | _ | _ <;> simp [step, Sys.side, Sys.setSide] at h
      obtain ⟨_, rfl⟩ := h; $c
  case wSend d ok =>
    cases d <;> simp only [step, Sys.side, Sys.setSide] at h <;> have ⟨h1, h2⟩ := ite_some_eq h
    · cases hb : (!cf && !ok) <;> simp [hb] at h2 <;> subst h2 <;> simp at h1 <;> $c
    · cases hb : (!sf && !ok) <;> simp [hb] at h2 <;> subst h2 <;> simp at h1 <;> $c
  case watchClosing => simp [step] at h; obtain ⟨_, rfl⟩ := h; $c
  case watchDone => simp [step] at h; obtain ⟨_, rfl⟩ := h; $c
  case ret => simp [step] at h; obtain ⟨_, rfl⟩ := h; $c
  case rfClosed d => cases d <;> simp [step, Sys.side, Sys.setSide, srcClosed] at h <;> obtain ⟨_, rfl⟩ := h <;> $c))

theorem terminal_afterTake (d : Dir) (r : Res) : (afterTake d r).terminal = (Rd.selReady r).terminal := by
  rcases r with (w | _ | _)
  · rcases w with (n | n | b | _)
    all_goals (try cases b)
    all_goals simp [afterTake, Rd.terminal]
  all_goals simp [afterTake, Rd.terminal]

@[simp] theorem terminal_exiting : Rd.exiting.terminal = true := rfl
@[simp] theorem terminal_gone : Rd.gone.terminal = true := rfl
@[simp] theorem terminal_selReading : Rd.selReading.terminal = false := rfl
@[simp] theorem terminal_lockWait (t n) : (Rd.lockWait t n).terminal = false := rfl
@[simp] theorem terminal_pushing (t n) : (Rd.pushing t n).terminal = false := rfl

theorem termed_stable {s s' : Sys} {l : Label} (ht : termed s = true) (h : step s l = some s') :
    termed s' = true := by
  obtain ⟨⟨cr, cf, co, cw, cl, cs⟩, ⟨sr, sf, so, sw, sl, ss⟩, dn, clg, wt, rt, scc, ccc⟩ := s
  step_cases ((try simp [termed, terminal_afterTake] at ht ⊢) <;> (try grind))


theorem unstalled_proc {s s' : Sys} {l : Label} (hp : l.isProc = true) (h : step s l = some s') :
    unstalled s' = unstalled s := by
  obtain ⟨⟨cr, cf, co, cw, cl, cs⟩, ⟨sr, sf, so, sw, sl, ss⟩, dn, clg, wt, rt, scc, ccc⟩ := s
  step_cases ((try simp [Label.isProc] at hp) <;> (try simp [unstalled]))

theorem noPeer_afterTake (d : Dir) (r : Res) (h : (Rd.selReady r).noPeer d = true) : (afterTake d r).noPeer d = true := by
  rcases r with (w | _ | _)
  · rcases w with (n | n | b | _)
    all_goals (try cases b)
    all_goals simp_all [afterTake, Rd.noPeer]
  all_goals simp [afterTake, Rd.noPeer]

@[simp] theorem noPeer_exiting (d) : Rd.exiting.noPeer d = true := rfl
@[simp] theorem noPeer_gone (d) : Rd.gone.noPeer d = true := rfl
@[simp] theorem noPeer_selReading (d) : Rd.selReading.noPeer d = true := rfl
@[simp] theorem noPeer_lockWait (d t n) : (Rd.lockWait t n).noPeer d = (t == d) := rfl
@[simp] theorem noPeer_pushing (d t n) : (Rd.pushing t n).noPeer d = (t == d) := rfl

theorem noPeer_proc {s s' : Sys} {l : Label} (hp : l.isProc = true) (hn : noPeer s = true)
    (h : step s l = some s') : noPeer s' = true := by
  obtain ⟨⟨cr, cf, co, cw, cl, cs⟩, ⟨sr, sf, so, sw, sl, ss⟩, dn, clg, wt, rt, scc, ccc⟩ := s
  step_cases ((try simp [Label.isProc] at hp) <;> (try simp [noPeer] at hn ⊢) <;>
    (try (have := noPeer_afterTake .c2s r; have := noPeer_afterTake .s2c r)) <;> (try grind))

theorem f10c_not_noPeer {s : Sys} (h : f10cBlocked s = true) : noPeer s = false := by
  obtain ⟨⟨cr, cf, co, cw, cl, cs⟩, ⟨sr, sf, so, sw, sl, ss⟩, dn, clg, wt, rt, scc, ccc⟩ := s
  simp [f10cBlocked, f10cBlockedAt, Sys.side] at h
  rcases h with h | h
  · rcases cr with _ | r | ⟨t, n⟩ | ⟨t, n⟩ | _ | _ <;> (try (simp at h; done))
    cases n <;> simp at h
    simp [noPeer, h.1.1, Dir.other]
  · rcases sr with _ | r | ⟨t, n⟩ | ⟨t, n⟩ | _ | _ <;> (try (simp at h; done))
    cases n <;> simp at h
    simp [noPeer, h.1.1, Dir.other]

theorem reach_exec {s s' : Sys} (hr : Reach s) : ∀ {ls : List Label}, exec s ls = some s' → Reach s' := by
  intro ls
  induction ls generalizing s with
  | nil => intro h; simp [exec] at h; subst h; exact hr
  | cons l ls ih =>
    intro h
    simp only [exec] at h
    split at h
    · rename_i s1 h1; exact ih (Reach.step l hr h1) h
    · simp at h

theorem good_init : Good init := by simp [Good, init]

theorem good_reach {s : Sys} (hr : Reach s) : Good s := by
  induction hr with
  | init => exact good_init
  | step l _ h ih => exact good_step ih h

/-- Process steps are bounded by the ranking function: a run of `n` process steps needs `mu s ≥ n`. -/
theorem exec_bounded {s s' : Sys} : ∀ {ls : List Label}, procOnly ls = true → exec s ls = some s' →
    ls.length + mu s' ≤ mu s := by
  intro ls
  induction ls generalizing s with
  | nil => intro _ h; simp [exec] at h; subst h; simp
  | cons l ls ih =>
    intro hp h
    simp only [exec] at h
    simp [procOnly] at hp
    split at h
    · rename_i s1 h1
      have := step_decreases hp.1 h1
      have := ih (by simpa [procOnly] using hp.2) h
      simp; omega
    · simp at h


theorem exec_keeps {s s' : Sys} : ∀ {ls : List Label}, procOnly ls = true → exec s ls = some s' →
    termed s = true → (termed s' = true ∧ unstalled s' = unstalled s ∧ (noPeer s = true → noPeer s' = true)) := by
  intro ls
  induction ls generalizing s with
  | nil => intro _ h ht; simp [exec] at h; subst h; exact ⟨ht, rfl, id⟩
  | cons l ls ih =>
    intro hp h ht
    simp only [exec] at h
    simp [procOnly] at hp
    split at h
    · rename_i s1 h1
      have ⟨a, b, c⟩ := ih (by simpa [procOnly] using hp.2) h (termed_stable ht h1)
      exact ⟨a, by rw [b, unstalled_proc hp.1 h1], fun hn => c (noPeer_proc hp.1 hn h1)⟩
    · simp at h


end Martian.H2Session
