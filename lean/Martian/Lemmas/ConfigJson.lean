import Martian.Model.ConfigJson
/-!
Lemmas about the JSON layer of C12 (`Model/ConfigJson.lean`). Core Lean only.
-/
namespace Martian.Config
open Martian Martian.Go

/-! ### numbers -/

theorem int64Of_renderInt (i : Int) (h : minInt64 ≤ i ∧ i ≤ maxInt64) :
    int64Of ⟨decide (i < 0), i.natAbs, false⟩ = some i := by
  unfold int64Of
  by_cases hi : i < 0
  · have : (-(i.natAbs : Int)) = i := by omega
    simp [hi, this, h.1, h.2]
  · have : ((i.natAbs : Nat) : Int) = i := by omega
    simp [hi, this, h.1, h.2]

/-! ### slices -/

theorem decElems_raw (z : DV) : ∀ (xs mem : List DV), decElems decRaw z xs mem = some xs := by
  intro xs
  induction xs with
  | nil => intro mem; rfl
  | cons x xs ih => intro mem; simp [decElems, decRaw, ih]

theorem decSlice_raw_arr (z : DV) (old : Sl DV) (xs : List DV) :
    ∃ st, decSlice decRaw z old (.arr xs) = some ⟨false, xs, st⟩ := by
  cases xs with
  | nil => exact ⟨[], rfl⟩
  | cons x xs => exact ⟨(old.vis ++ old.stale).drop (x :: xs).length, by simp [decSlice, decElems_raw]⟩

theorem decElems_strings : ∀ (ss : List Bytes) (mem : List Bytes), decElems decString [] (ss.map DV.str) mem = some ss := by
  intro ss
  induction ss with
  | nil => intro mem; rfl
  | cons s ss ih => intro mem; simp [decElems, decString, ih]

theorem tokOf_tokName (t : Tok) : tokOf (tokName t) = t := by cases t <;> decide

/-- the members `renderScope` writes, after `annot` -/
def scopeMembers : Scope → List (Bytes × DV)
  | none => []
  | some ts => [(fScope, .arr (ts.map fun t => .str (tokName t)))]

theorem decScope_rendered (ts : List Tok) :
    ∃ sl, decScope Sl.nil (.arr (ts.map fun t => DV.str (tokName t))) = some sl ∧ scopeOfSl sl = some ts := by
  cases ts with
  | nil => exact ⟨⟨false, [], []⟩, rfl, rfl⟩
  | cons t ts =>
    refine ⟨⟨false, (t :: ts).map tokName, []⟩, ?_, ?_⟩
    · have := decElems_strings ((t :: ts).map tokName) (Sl.nil.vis ++ Sl.nil.stale)
      simp only [List.map_map, List.map_cons, Function.comp_def] at this
      simp only [decScope, List.map_cons, decSlice]
      rw [this]; rfl
    · simp [scopeOfSl, List.map_map, Function.comp_def, tokOf_tokName]

/-! ### `annot` on lists -/

theorem annotKvs_append : ∀ (a b : List (Bytes × JVal)), annotKvs (a ++ b) = annotKvs a ++ annotKvs b := by
  intro a
  induction a with
  | nil => intro b; rfl
  | cons x a ih => intro b; obtain ⟨k, v⟩ := x; simp [annotKvs, ih]

theorem annotList_strs (ss : List Bytes) : annotList (ss.map JVal.str) = ss.map DV.str := by
  induction ss with
  | nil => rfl
  | cons s ss ih => simp [annotList, annot, ih]

theorem annotKvs_renderScope (scope : Scope) : annotKvs (renderScope scope) = scopeMembers scope := by
  cases scope with
  | none => rfl
  | some ts =>
    have := annotList_strs (ts.map tokName)
    simp only [List.map_map] at this
    simp [renderScope, scopeMembers, annotKvs, annot, Function.comp_def] at this ⊢
    exact this

/-! ### the registry -/

theorem nodeFromKvs_single (name : Bytes) (body : DV) : nodeFromKvs [(name, body)] = bodyNode name body := by
  simp [nodeFromKvs, lastValue, List.eraseDups_cons]

theorem bodyNode_fifo (body : DV) : bodyNode (strBytes "fifo.Group") body = fifoNode body := by
  simp [bodyNode]

theorem bodyNode_prio (body : DV) : bodyNode (strBytes "priority.Group") body = prioNode body := by
  have h1 : (strBytes "priority.Group" == strBytes "fifo.Group") = false := by decide
  simp [bodyNode, h1]

theorem bodyNode_probe (body : DV) : bodyNode (strBytes "verif.Probe") body = probeNode body := by
  have h1 : (strBytes "verif.Probe" == strBytes "fifo.Group") = false := by decide
  have h2 : (strBytes "verif.Probe" == strBytes "priority.Group") = false := by decide
  have h3 : (strBytes "verif.Probe" == strBytes "url.Filter") = false := by decide
  have h4 : (strBytes "verif.Probe" == strBytes "header.Filter") = false := by decide
  have h5 : (strBytes "verif.Probe" == strBytes "querystring.Filter") = false := by decide
  have h6 : (strBytes "verif.Probe" == strBytes "method.Filter") = false := by decide
  have h7 : (strBytes "verif.Probe" == strBytes "cookie.Filter") = false := by decide
  simp [bodyNode, h1, h2, h3, h4, h5, h6, h7]

theorem bodyNode_unknown (body : DV) : bodyNode (strBytes "nosuch.Modifier") body = .unknown := by
  have h1 : (strBytes "nosuch.Modifier" == strBytes "fifo.Group") = false := by decide
  have h2 : (strBytes "nosuch.Modifier" == strBytes "priority.Group") = false := by decide
  have h3 : (strBytes "nosuch.Modifier" == strBytes "url.Filter") = false := by decide
  have h4 : (strBytes "nosuch.Modifier" == strBytes "header.Filter") = false := by decide
  have h5 : (strBytes "nosuch.Modifier" == strBytes "querystring.Filter") = false := by decide
  have h6 : (strBytes "nosuch.Modifier" == strBytes "method.Filter") = false := by decide
  have h7 : (strBytes "nosuch.Modifier" == strBytes "cookie.Filter") = false := by decide
  have h8 : (strBytes "nosuch.Modifier" == strBytes "verif.Probe") = false := by decide
  have h9 : (strBytes "nosuch.Modifier" == strBytes "port.Filter") = false := by decide
  simp [bodyNode, h1, h2, h3, h4, h5, h6, h7, h8, h9]

/-! ### the structs, on the members `render` writes -/

theorem idx_fifo : fieldIdx fifoFields fAgg = some 1 ∧ fieldIdx fifoFields fModifiers = some 2 ∧ fieldIdx fifoFields fScope = some 0 := by decide
theorem idx_prio : fieldIdx prioFields fModifiers = some 1 ∧ fieldIdx prioFields fScope = some 0 := by decide
theorem idx_prioElem : fieldIdx prioElemFields fPriority = some 0 ∧ fieldIdx prioElemFields fModifier = some 1 := by decide
theorem idx_probe : fieldIdx probeFields fLabel = some 0 ∧ fieldIdx probeFields fCaps = some 1 ∧ fieldIdx probeFields fFailReq = some 2 ∧
    fieldIdx probeFields fFailRes = some 3 ∧ fieldIdx probeFields fScope = some 4 := by decide

theorem scopeOfSl_nil : scopeOfSl (Sl.nil : Sl Bytes) = none := rfl

theorem fifoNode_rendered (scope : Scope) (agg : Bool) (ds : List DV) (n : Node) :
    fifoNode (.obj ([(fAgg, .bool agg), (fModifiers, .arr ds)] ++ scopeMembers scope) n) = .fifo scope agg (ds.map DV.node) := by
  obtain ⟨st, hst⟩ := decSlice_raw_arr .null Sl.nil ds
  cases scope with
  | none =>
    simp [fifoNode, decStruct, scopeMembers, decMembers, idx_fifo, fifoSet, decBool, hst, scopeOfSl_nil]
  | some ts =>
    obtain ⟨sl, h1, h2⟩ := decScope_rendered ts
    simp [fifoNode, decStruct, scopeMembers, decMembers, idx_fifo, fifoSet, decBool, hst, h1, h2]

/-- one element of a priority group's `modifiers` as `render` writes it, after `annot` -/
def prioElemDV (p : Int) (d : DV) : DV :=
  .obj [(fPriority, .num ⟨decide (p < 0), p.natAbs, false⟩), (fModifier, d)]
    (nodeFromKvs [(fPriority, .num ⟨decide (p < 0), p.natAbs, false⟩), (fModifier, d)])

def inInt64 (p : Int) : Prop := minInt64 ≤ p ∧ p ≤ maxInt64

theorem decPrioElem_rendered (p : Int) (d : DV) (h : inInt64 p) : decPrioElem {} (prioElemDV p d) = some ⟨p, some d⟩ := by
  simp [decPrioElem, prioElemDV, decStruct, decMembers, idx_prioElem, prioElemSet, decInt, int64Of_renderInt p h]

theorem decElems_prio : ∀ (es : List (Int × DV)), (∀ e ∈ es, inInt64 e.1) →
    decElems decPrioElem {} (es.map fun e => prioElemDV e.1 e.2) [] = some (es.map fun e => ⟨e.1, some e.2⟩) := by
  intro es
  induction es with
  | nil => intro _; rfl
  | cons e es ih =>
    intro h
    have h1 := decPrioElem_rendered e.1 e.2 (h e (by simp))
    have h2 := ih (fun x hx => h x (List.mem_cons_of_mem _ hx))
    simp only [List.map_cons, decElems, List.headD_nil, List.tail_nil, h1, h2]

theorem prioNode_rendered (scope : Scope) (es : List (Int × DV)) (n : Node) (h : ∀ e ∈ es, inInt64 e.1) :
    prioNode (.obj ([(fModifiers, .arr (es.map fun e => prioElemDV e.1 e.2))] ++ scopeMembers scope) n)
      = .prio scope (es.map fun e => (e.1, e.2.node)) := by
  have hsl : ∃ st, decSlice decPrioElem {} Sl.nil (.arr (es.map fun e => prioElemDV e.1 e.2)) = some ⟨false, es.map fun e => ⟨e.1, some e.2⟩, st⟩ := by
    cases es with
    | nil => exact ⟨[], rfl⟩
    | cons e es =>
      have := decElems_prio (e :: es) h
      simp only [List.map_cons] at this
      exact ⟨[], by simp [decSlice, Sl.nil, this]⟩
  obtain ⟨st, hst⟩ := hsl
  cases scope with
  | none =>
    simp [prioNode, decStruct, scopeMembers, decMembers, idx_prio, prioSet, hst, scopeOfSl_nil, rawNode, Function.comp_def]
  | some ts =>
    obtain ⟨sl, h1, h2⟩ := decScope_rendered ts
    simp [prioNode, decStruct, scopeMembers, decMembers, idx_prio, prioSet, hst, h1, h2, rawNode, Function.comp_def]

theorem capsOfStr_renderCaps (c : Caps) : capsOfStr (renderCaps c) = c := by
  obtain ⟨q, s⟩ := c
  cases q <;> cases s <;> decide

theorem probeNode_rendered (l : Nat) (caps : Caps) (fq fs : Bool) (scope : Scope) (n : Node) (h : (l : Int) ≤ maxInt64) :
    probeNode (.obj ([(fLabel, .num ⟨decide ((l : Int) < 0), (l : Int).natAbs, false⟩), (fCaps, .str (renderCaps caps)),
        (fFailReq, .bool fq), (fFailRes, .bool fs)] ++ scopeMembers scope) n) = .leaf l caps fq fs scope := by
  have hl : int64Of ⟨false, l, false⟩ = some (l : Int) := by
    have hmin : minInt64 ≤ (l : Int) := by unfold minInt64; omega
    simp [int64Of, hmin, h]
  have hneg : ¬ ((l : Int) < 0) := by omega
  cases scope with
  | none =>
    simp [probeNode, decStruct, scopeMembers, decMembers, idx_probe, probeSet, decInt, decString, decBool, hl, hneg,
      capsOfStr_renderCaps, scopeOfSl_nil]
  | some ts =>
    obtain ⟨sl, h1, h2⟩ := decScope_rendered ts
    simp [probeNode, decStruct, scopeMembers, decMembers, idx_probe, probeSet, decInt, decString, decBool, hl, hneg,
      capsOfStr_renderCaps, h1, h2]

/-! #### filters -/

def elseMembers : Option DV → List (Bytes × DV)
  | none => []
  | some d => [(fElse, d)]

def condMembers : Cond → List (Bytes × DV)
  | .method m => [(fMethod, .str m)]
  | .url s h p q => [(fScheme, .str s), (fHost, .str h), (fPath, .str p), (fQuery, .str q)]
  | .query n v => [(fName, .str n), (fValue, .str v)]
  | .header n v => [(fName, .str n), (fValue, .str v)]
  | .cookie n v => [(fName, .str n), (fValue, .str v)]
  | .port p => [(fPort, .num ⟨decide (p < 0), p.natAbs, false⟩)]

theorem idx_filter_common (ps : List Bytes) : fieldIdx (fModifier :: fElse :: fScope :: ps) fModifier = some 0 ∧
    fieldIdx (fModifier :: fElse :: fScope :: ps) fElse = some 1 ∧ fieldIdx (fModifier :: fElse :: fScope :: ps) fScope = some 2 := by
  have e1 : (fModifier == fElse) = false := by decide
  have e2 : (fModifier == fScope) = false := by decide
  have e3 : (fElse == fScope) = false := by decide
  simp [fieldIdx, List.findIdx?_cons, e1, e2, e3]

theorem idx_url : fieldIdx [fModifier, fElse, fScope, fScheme, fHost, fPath, fQuery] fScheme = some 3 ∧
    fieldIdx [fModifier, fElse, fScope, fScheme, fHost, fPath, fQuery] fHost = some 4 ∧
    fieldIdx [fModifier, fElse, fScope, fScheme, fHost, fPath, fQuery] fPath = some 5 ∧
    fieldIdx [fModifier, fElse, fScope, fScheme, fHost, fPath, fQuery] fQuery = some 6 := by decide
theorem idx_nv : fieldIdx [fModifier, fElse, fScope, fName, fValue] fName = some 3 ∧
    fieldIdx [fModifier, fElse, fScope, fName, fValue] fValue = some 4 := by decide
theorem idx_method : fieldIdx [fModifier, fElse, fScope, fMethod] fMethod = some 3 := by decide

/-- the tail every filter body shares: `modifier`, optional `else`, optional `scope` -/
theorem filter_tail (ps : List Bytes) (s : FilterSt) (dt : DV) (de : Option DV) (scope : Scope)
    (hs : s.scope = Sl.nil) :
    ∃ s', decMembers (fModifier :: fElse :: fScope :: ps) filterSet ([(fModifier, dt)] ++ elseMembers de ++ scopeMembers scope) s = some s' ∧
      s'.a = s.a ∧ s'.b = s.b ∧ s'.c = s.c ∧ s'.d = s.d ∧ rawNode s'.mod = dt.node ∧
      elseNode s'.els = (match de with | none => elseNode s.els | some d => some d.node) ∧ scopeOfSl s'.scope = scope := by
  have hi := idx_filter_common ps
  cases de with
  | none =>
    cases scope with
    | none => exact ⟨_, by simp [elseMembers, scopeMembers, decMembers, hi, filterSet]; rfl, by simp [rawNode, hs, scopeOfSl_nil]⟩
    | some ts =>
      obtain ⟨sl, h1, h2⟩ := decScope_rendered ts
      exact ⟨{ s with mod := some dt, scope := sl }, by simp [elseMembers, scopeMembers, decMembers, hi, filterSet, hs, h1], by simp [rawNode, h2]⟩
  | some d =>
    cases scope with
    | none => exact ⟨_, by simp [elseMembers, scopeMembers, decMembers, hi, filterSet]; rfl, by simp [rawNode, elseNode, hs, scopeOfSl_nil]⟩
    | some ts =>
      obtain ⟨sl, h1, h2⟩ := decScope_rendered ts
      exact ⟨{ s with mod := some dt, els := some d, scope := sl }, by simp [elseMembers, scopeMembers, decMembers, hi, filterSet, hs, h1], by simp [rawNode, elseNode, h2]⟩

theorem decMembers_append {σ : Type} (fields : List Bytes) (set : σ → Nat → DV → Option σ) :
    ∀ (xs ys : List (Bytes × DV)) (s : σ),
      decMembers fields set (xs ++ ys) s = (decMembers fields set xs s).bind (decMembers fields set ys) := by
  intro xs
  induction xs with
  | nil => intro ys s; simp [decMembers]
  | cons x xs ih =>
    intro ys s
    obtain ⟨k, v⟩ := x
    simp only [List.cons_append, decMembers]
    cases hf : fieldIdx fields k with
    | none => simpa using ih ys s
    | some f =>
      cases hs : set s f v with
      | none => simp [hs]
      | some s' => simpa [hs] using ih ys s'

def condParams : Cond → List Bytes
  | .method _ => [fMethod]
  | .url _ _ _ _ => [fScheme, fHost, fPath, fQuery]
  | _ => [fName, fValue]

def condMk : Cond → FilterSt → Cond
  | .method _ => fun s => .method s.a
  | .url _ _ _ _ => fun s => .url s.a s.b s.c s.d
  | .query _ _ => fun s => .query s.a s.b
  | .header _ _ => fun s => .header s.a s.b
  | .cookie _ _ => fun s => .cookie s.a s.b
  | .port p => fun _ => .port p

theorem bodyNode_cond (c : Cond) (body : DV) (hc : c.isPort = false) :
    bodyNode (renderCond c).1 body = filterNode (condParams c) (condMk c) body := by
  have u1 : (strBytes "url.Filter" == strBytes "fifo.Group") = false := by decide
  have u2 : (strBytes "url.Filter" == strBytes "priority.Group") = false := by decide
  have h1 : (strBytes "header.Filter" == strBytes "fifo.Group") = false := by decide
  have h2 : (strBytes "header.Filter" == strBytes "priority.Group") = false := by decide
  have h3 : (strBytes "header.Filter" == strBytes "url.Filter") = false := by decide
  have q1 : (strBytes "querystring.Filter" == strBytes "fifo.Group") = false := by decide
  have q2 : (strBytes "querystring.Filter" == strBytes "priority.Group") = false := by decide
  have q3 : (strBytes "querystring.Filter" == strBytes "url.Filter") = false := by decide
  have q4 : (strBytes "querystring.Filter" == strBytes "header.Filter") = false := by decide
  have m1 : (strBytes "method.Filter" == strBytes "fifo.Group") = false := by decide
  have m2 : (strBytes "method.Filter" == strBytes "priority.Group") = false := by decide
  have m3 : (strBytes "method.Filter" == strBytes "url.Filter") = false := by decide
  have m4 : (strBytes "method.Filter" == strBytes "header.Filter") = false := by decide
  have m5 : (strBytes "method.Filter" == strBytes "querystring.Filter") = false := by decide
  have c1 : (strBytes "cookie.Filter" == strBytes "fifo.Group") = false := by decide
  have c2 : (strBytes "cookie.Filter" == strBytes "priority.Group") = false := by decide
  have c3 : (strBytes "cookie.Filter" == strBytes "url.Filter") = false := by decide
  have c4 : (strBytes "cookie.Filter" == strBytes "header.Filter") = false := by decide
  have c5 : (strBytes "cookie.Filter" == strBytes "querystring.Filter") = false := by decide
  have c6 : (strBytes "cookie.Filter" == strBytes "method.Filter") = false := by decide
  cases c <;> simp_all [renderCond, bodyNode, condParams, condMk, Cond.isPort]

theorem filterNode_rendered (c : Cond) (dt : DV) (de : Option DV) (scope : Scope) (n : Node) (hc : c.isPort = false) :
    filterNode (condParams c) (condMk c) (.obj (condMembers c ++ ([(fModifier, dt)] ++ elseMembers de ++ scopeMembers scope)) n)
      = .filter c scope dt.node (de.map DV.node) := by
  unfold filterNode decStruct
  simp only [decMembers_append]
  cases c with
  | method m =>
    have h0 : decMembers ([fModifier, fElse, fScope] ++ condParams (.method m)) filterSet (condMembers (.method m)) {} = some { a := m } := by
      simp [condParams, condMembers, decMembers, idx_method, filterSet, decString]
    obtain ⟨s', h1, ha, hb, hc, hd, hm, he, hsc⟩ := filter_tail (condParams (.method m)) { a := m } dt de scope rfl
    rw [h0]
    simp only [Option.bind_some, List.cons_append, List.nil_append] at h1 ⊢
    rw [h1]
    cases de <;> simp_all [condMk, elseNode]
  | url a b c d =>
    have h0 : decMembers ([fModifier, fElse, fScope] ++ condParams (.url a b c d)) filterSet (condMembers (.url a b c d)) {} = some { a := a, b := b, c := c, d := d } := by
      simp [condParams, condMembers, decMembers, idx_url, filterSet, decString]
    obtain ⟨s', h1, ha, hb, hc, hd, hm, he, hsc⟩ := filter_tail (condParams (.url a b c d)) { a := a, b := b, c := c, d := d } dt de scope rfl
    rw [h0]
    simp only [Option.bind_some, List.cons_append, List.nil_append] at h1 ⊢
    rw [h1]
    cases de <;> simp_all [condMk, elseNode]
  | query a b =>
    have h0 : decMembers ([fModifier, fElse, fScope] ++ condParams (.query a b)) filterSet (condMembers (.query a b)) {} = some { a := a, b := b } := by
      simp [condParams, condMembers, decMembers, idx_nv, filterSet, decString]
    obtain ⟨s', h1, ha, hb, hc, hd, hm, he, hsc⟩ := filter_tail (condParams (.query a b)) { a := a, b := b } dt de scope rfl
    rw [h0]
    simp only [Option.bind_some, List.cons_append, List.nil_append] at h1 ⊢
    rw [h1]
    cases de <;> simp_all [condMk, elseNode]
  | header a b =>
    have h0 : decMembers ([fModifier, fElse, fScope] ++ condParams (.header a b)) filterSet (condMembers (.header a b)) {} = some { a := a, b := b } := by
      simp [condParams, condMembers, decMembers, idx_nv, filterSet, decString]
    obtain ⟨s', h1, ha, hb, hc, hd, hm, he, hsc⟩ := filter_tail (condParams (.header a b)) { a := a, b := b } dt de scope rfl
    rw [h0]
    simp only [Option.bind_some, List.cons_append, List.nil_append] at h1 ⊢
    rw [h1]
    cases de <;> simp_all [condMk, elseNode]
  | cookie a b =>
    have h0 : decMembers ([fModifier, fElse, fScope] ++ condParams (.cookie a b)) filterSet (condMembers (.cookie a b)) {} = some { a := a, b := b } := by
      simp [condParams, condMembers, decMembers, idx_nv, filterSet, decString]
    obtain ⟨s', h1, ha, hb, hc, hd, hm, he, hsc⟩ := filter_tail (condParams (.cookie a b)) { a := a, b := b } dt de scope rfl
    rw [h0]
    simp only [Option.bind_some, List.cons_append, List.nil_append] at h1 ⊢
    rw [h1]
    cases de <;> simp_all [condMk, elseNode]
  | port p => simp [Cond.isPort] at hc

/-! ### `fromJSON (render n) = n` -/

theorem annotList_renderPList : ∀ cs : List (Int × Node),
    annotList (renderPList cs) = cs.map (fun pc => prioElemDV pc.1 (annot (render pc.2))) := by
  intro cs
  induction cs with
  | nil => rfl
  | cons pc cs ih =>
    obtain ⟨p, c⟩ := pc
    simp [renderPList, annotList, annot, annotKvs, renderInt, prioElemDV, ih]

theorem annotKvs_renderElse (e : Option Node) : annotKvs (renderElse e) = elseMembers (e.map fun x => annot (render x)) := by
  cases e <;> simp [renderElse, annotKvs, elseMembers]

theorem annotKvs_condMembers (c : Cond) : annotKvs (renderCond c).2 = condMembers c := by
  cases c <;> simp [renderCond, annotKvs, annot, condMembers, renderInt]

theorem pairs_inInt64 : ∀ cs : List (Int × Node), fitsPList cs = true →
    ∀ e ∈ cs.map (fun pc => (pc.1, annot (render pc.2))), inInt64 e.1 := by
  intro cs
  induction cs with
  | nil => intro _ e he; simp at he
  | cons pc cs ih =>
    obtain ⟨p, c⟩ := pc
    intro h e he
    simp only [fitsPList, Bool.and_eq_true, decide_eq_true_eq] at h
    simp only [List.map_cons, List.mem_cons] at he
    rcases he with he | he
    · subst he; exact h.1.1
    · exact ih h.2 e he

mutual
theorem node_annot_render : ∀ n : Node, fits n = true → (annot (render n)).node = n
  | .leaf l caps fq fs scope, h => by
    simp only [fits, decide_eq_true_eq] at h
    simp only [render, annot, annotKvs, DV.node, nodeFromKvs_single, bodyNode_probe, annotKvs_append, annotKvs_renderScope, renderInt]
    exact probeNode_rendered l caps fq fs scope _ h
  | .unknown, _ => by
    simp [render, annot, annotKvs, DV.node, nodeFromKvs_single, bodyNode_unknown]
  | .malformed, _ => rfl
  | .fifo scope agg cs, h => by
    have ih := nodes_annot_renderList cs (by simpa [fits] using h)
    simp only [render, annot, annotKvs, DV.node, nodeFromKvs_single, bodyNode_fifo, annotKvs_append, annotKvs_renderScope]
    rw [fifoNode_rendered, ih]
  | .prio scope cs, h => by
    have hf : fitsPList cs = true := by simpa [fits] using h
    have ih := nodes_annot_renderPList cs hf
    simp only [render, annot, annotKvs, DV.node, nodeFromKvs_single, bodyNode_prio, annotKvs_append, annotKvs_renderScope,
      annotList_renderPList]
    have := prioNode_rendered scope (cs.map fun pc => (pc.1, annot (render pc.2))) (nodeFromKvs
      ((fModifiers, DV.arr (cs.map fun pc => prioElemDV pc.1 (annot (render pc.2)))) :: scopeMembers scope)) (pairs_inInt64 cs hf)
    simp only [List.map_map, Function.comp_def, List.cons_append, List.nil_append] at this ⊢
    rw [this, ih]
  | .filter c scope t e, h => by
    simp only [fits, Bool.and_eq_true, Bool.not_eq_true'] at h
    have iht := node_annot_render t h.1.2
    have ihe := node_annot_renderOpt e h.2
    have hnp := h.1.1
    simp only [render, annot, DV.node, annotKvs, nodeFromKvs_single, bodyNode_cond _ _ hnp, annotKvs_append, annotKvs_renderScope,
      annotKvs_renderElse, annotKvs_condMembers, List.append_assoc]
    have := fun n => filterNode_rendered c (annot (render t)) (e.map fun x => annot (render x)) scope n hnp
    simp only [List.cons_append, List.nil_append] at this ⊢
    rw [this, iht]
    cases e with
    | none => rfl
    | some x => simp only [Option.map] at ihe ⊢; rw [ihe]
theorem nodes_annot_renderList : ∀ cs : List Node, fitsList cs = true → (annotList (renderList cs)).map DV.node = cs
  | [], _ => rfl
  | c :: cs, h => by
    simp only [fitsList, Bool.and_eq_true] at h
    simp only [renderList, annotList, List.map_cons]
    rw [node_annot_render c h.1, nodes_annot_renderList cs h.2]
theorem nodes_annot_renderPList : ∀ cs : List (Int × Node), fitsPList cs = true →
    cs.map (fun pc => (pc.1, (annot (render pc.2)).node)) = cs
  | [], _ => rfl
  | (p, c) :: cs, h => by
    simp only [fitsPList, Bool.and_eq_true] at h
    simp only [List.map_cons]
    rw [node_annot_render c h.1.2, nodes_annot_renderPList cs h.2]
theorem node_annot_renderOpt : ∀ e : Option Node, fitsOpt e = true → (e.map fun x => (annot (render x)).node) = e
  | none, _ => rfl
  | some x, h => by
    simp only [fitsOpt] at h
    simp only [Option.map]
    rw [node_annot_render x h]
end

end Martian.Config
