import Martian.Model.JsonString
import Martian.Lemmas.Har
/-!
Lemmas about the model of `encoding/json`'s string coder: `unquote (quote s) = sanitize s` for every
byte string, `sanitize s = s` exactly for valid UTF-8.
-/
namespace Martian.Har
open Martian Martian.MessageView

/-! ### bytes as numbers -/

theorem u8lt (a b : UInt8) : a < b ↔ a.toNat < b.toNat := UInt8.lt_iff_toNat_lt
theorem u8le (a b : UInt8) : a ≤ b ↔ a.toNat ≤ b.toNat := UInt8.le_iff_toNat_le
theorem u8eq (a b : UInt8) : a = b ↔ a.toNat = b.toNat := ⟨fun h => by rw [h], UInt8.toNat_inj.mp⟩

theorem isCont_iff (b : UInt8) : isCont b = true ↔ 128 ≤ b.toNat ∧ b.toNat ≤ 191 := by
  simp [isCont, u8le]

/-- second byte of a three-byte sequence -/
def second3 (b0 b1 : UInt8) : Bool :=
  if b0 == 0xE0 then 0xA0 ≤ b1 && b1 ≤ 0xBF else if b0 == 0xED then 0x80 ≤ b1 && b1 ≤ 0x9F else isCont b1

/-- second byte of a four-byte sequence -/
def second4 (b0 b1 : UInt8) : Bool :=
  if b0 == 0xF0 then 0x90 ≤ b1 && b1 ≤ 0xBF else if b0 == 0xF4 then 0x80 ≤ b1 && b1 ≤ 0x8F else isCont b1

theorem second3_iff (b0 b1 : UInt8) : second3 b0 b1 = true ↔
    128 ≤ b1.toNat ∧ b1.toNat ≤ 191 ∧ (b0.toNat = 224 → 160 ≤ b1.toNat) ∧ (b0.toNat = 237 → b1.toNat ≤ 159) := by
  unfold second3
  by_cases h1 : b0 = 0xE0
  · subst h1; simp [u8le]; omega
  · by_cases h2 : b0 = 0xED
    · subst h2; simp [u8le]; omega
    · have e1 : ¬ b0.toNat = 224 := fun h => h1 ((u8eq _ _).2 (by simpa using h))
      have e2 : ¬ b0.toNat = 237 := fun h => h2 ((u8eq _ _).2 (by simpa using h))
      simp [h1, h2, isCont_iff, e1, e2]

theorem second4_iff (b0 b1 : UInt8) : second4 b0 b1 = true ↔
    128 ≤ b1.toNat ∧ b1.toNat ≤ 191 ∧ (b0.toNat = 240 → 144 ≤ b1.toNat) ∧ (b0.toNat = 244 → b1.toNat ≤ 143) := by
  unfold second4
  by_cases h1 : b0 = 0xF0
  · subst h1; simp [u8le]; omega
  · by_cases h2 : b0 = 0xF4
    · subst h2; simp [u8le]; omega
    · have e1 : ¬ b0.toNat = 240 := fun h => h1 ((u8eq _ _).2 (by simpa using h))
      have e2 : ¬ b0.toNat = 244 := fun h => h2 ((u8eq _ _).2 (by simpa using h))
      simp [h1, h2, isCont_iff, e1, e2]

/-! ### the head character of a string -/

def In2 (b0 b1 : UInt8) : Prop := 194 ≤ b0.toNat ∧ b0.toNat ≤ 223 ∧ isCont b1 = true
def In3 (b0 b1 b2 : UInt8) : Prop :=
  224 ≤ b0.toNat ∧ b0.toNat ≤ 239 ∧ second3 b0 b1 = true ∧ isCont b2 = true
def In4 (b0 b1 b2 b3 : UInt8) : Prop :=
  240 ≤ b0.toNat ∧ b0.toNat ≤ 244 ∧ second4 b0 b1 = true ∧ isCont b2 = true ∧ isCont b3 = true

def rune2 (b0 b1 : UInt8) : Nat := b0.toNat % 32 * 64 + b1.toNat % 64
def rune3 (b0 b1 b2 : UInt8) : Nat := b0.toNat % 16 * 4096 + b1.toNat % 64 * 64 + b2.toNat % 64
def rune4 (b0 b1 b2 b3 : UInt8) : Nat :=
  b0.toNat % 8 * 262144 + b1.toNat % 64 * 4096 + b2.toNat % 64 * 64 + b3.toNat % 64

theorem not_ascii_of_ge (b : UInt8) (h : 128 ≤ b.toNat) : ¬ b < 0x80 := by
  rw [u8lt]; simp; omega

theorem range_true (b : UInt8) (lo hi : UInt8) (h1 : lo.toNat ≤ b.toNat) (h2 : b.toNat ≤ hi.toNat) :
    (decide (lo ≤ b) && decide (b ≤ hi)) = true := by
  simp [u8le, h1, h2]

theorem range_false (b : UInt8) (lo hi : UInt8) (h : b.toNat < lo.toNat ∨ hi.toNat < b.toNat) :
    (decide (lo ≤ b) && decide (b ≤ hi)) = false := by
  rcases h with h | h
  · have : ¬ lo ≤ b := by rw [u8le]; omega
    simp [this]
  · have : ¬ b ≤ hi := by rw [u8le]; omega
    simp [this]

theorem decodeRune_two (b0 b1 : UInt8) (t : Bytes) (h : In2 b0 b1) :
    decodeRune (b0 :: b1 :: t) = (rune2 b0 b1, 2) := by
  obtain ⟨h1, h2, h3⟩ := h
  have a := not_ascii_of_ge b0 (by omega)
  have r := range_true b0 0xC2 0xDF (by simpa using h1) (by simpa using h2)
  simp [decodeRune, a, r, h3, rune2]

theorem utf8Valid_two (b0 b1 : UInt8) (t : Bytes) (h : In2 b0 b1) :
    utf8Valid (b0 :: b1 :: t) = utf8Valid t := by
  obtain ⟨h1, h2, h3⟩ := h
  have a := not_ascii_of_ge b0 (by omega)
  have r := range_true b0 0xC2 0xDF (by simpa using h1) (by simpa using h2)
  conv => lhs; unfold utf8Valid
  simp [a, r, h3]

theorem decodeRune_three (b0 b1 b2 : UInt8) (t : Bytes) (h : In3 b0 b1 b2) :
    decodeRune (b0 :: b1 :: b2 :: t) = (rune3 b0 b1 b2, 3) := by
  obtain ⟨h1, h2, h3, h4⟩ := h
  have a := not_ascii_of_ge b0 (by omega)
  have r1 := range_false b0 0xC2 0xDF (Or.inr (by simp; omega))
  have r2 := range_true b0 0xE0 0xEF (by simpa using h1) (by simpa using h2)
  unfold second3 at h3
  simp [decodeRune, a, r1, r2, h4, rune3]
  simpa using h3

theorem utf8Valid_three (b0 b1 b2 : UInt8) (t : Bytes) (h : In3 b0 b1 b2) :
    utf8Valid (b0 :: b1 :: b2 :: t) = utf8Valid t := by
  obtain ⟨h1, h2, h3, h4⟩ := h
  have a := not_ascii_of_ge b0 (by omega)
  have r1 := range_false b0 0xC2 0xDF (Or.inr (by simp; omega))
  have r2 := range_true b0 0xE0 0xEF (by simpa using h1) (by simpa using h2)
  unfold second3 at h3
  conv => lhs; unfold utf8Valid
  simp [a, r1, r2, h4]
  intro _; simpa using h3

theorem decodeRune_four (b0 b1 b2 b3 : UInt8) (t : Bytes) (h : In4 b0 b1 b2 b3) :
    decodeRune (b0 :: b1 :: b2 :: b3 :: t) = (rune4 b0 b1 b2 b3, 4) := by
  obtain ⟨h1, h2, h3, h4, h5⟩ := h
  have a := not_ascii_of_ge b0 (by omega)
  have r1 := range_false b0 0xC2 0xDF (Or.inr (by simp; omega))
  have r2 := range_false b0 0xE0 0xEF (Or.inr (by simp; omega))
  have r3 := range_true b0 0xF0 0xF4 (by simpa using h1) (by simpa using h2)
  unfold second4 at h3
  simp [decodeRune, a, r1, r2, r3, h4, h5, rune4]
  simpa using h3

theorem utf8Valid_four (b0 b1 b2 b3 : UInt8) (t : Bytes) (h : In4 b0 b1 b2 b3) :
    utf8Valid (b0 :: b1 :: b2 :: b3 :: t) = utf8Valid t := by
  obtain ⟨h1, h2, h3, h4, h5⟩ := h
  have a := not_ascii_of_ge b0 (by omega)
  have r1 := range_false b0 0xC2 0xDF (Or.inr (by simp; omega))
  have r2 := range_false b0 0xE0 0xEF (Or.inr (by simp; omega))
  have r3 := range_true b0 0xF0 0xF4 (by simpa using h1) (by simpa using h2)
  unfold second4 at h3
  conv => lhs; unfold utf8Valid
  simp [a, r1, r2, r3, h4, h5]
  intro _; simpa using h3

/-- How a string that starts with a non-ASCII byte decodes. -/
inductive Head (b0 : UInt8) (rest : Bytes) : Prop
  | bad : decodeRune (b0 :: rest) = (runeError, 1) → utf8Valid (b0 :: rest) = false → Head b0 rest
  | two (b1 : UInt8) (r : Bytes) : rest = b1 :: r → In2 b0 b1 → Head b0 rest
  | three (b1 b2 : UInt8) (r : Bytes) : rest = b1 :: b2 :: r → In3 b0 b1 b2 → Head b0 rest
  | four (b1 b2 b3 : UInt8) (r : Bytes) : rest = b1 :: b2 :: b3 :: r → In4 b0 b1 b2 b3 → Head b0 rest

theorem head_cases (b0 : UInt8) (rest : Bytes) (ha : ¬ b0 < 0x80) : Head b0 rest := by
  have hge : 128 ≤ b0.toNat := by rw [u8lt] at ha; simpa using ha
  by_cases c2 : 194 ≤ b0.toNat ∧ b0.toNat ≤ 223
  · have r := range_true b0 0xC2 0xDF (by simpa using c2.1) (by simpa using c2.2)
    match rest with
    | [] =>
      refine .bad ?_ ?_
      · simp [decodeRune, ha, r]
      · conv => lhs; unfold utf8Valid
        simp [ha, r]
    | b1 :: t =>
      by_cases h1 : isCont b1 = true
      · exact .two b1 t rfl ⟨c2.1, c2.2, h1⟩
      · refine .bad ?_ ?_
        · simp [decodeRune, ha, r, h1]
        · conv => lhs; unfold utf8Valid
          simp [ha, r, h1]
  · have r1 := range_false b0 0xC2 0xDF (by simp; omega)
    by_cases c3 : 224 ≤ b0.toNat ∧ b0.toNat ≤ 239
    · have r2 := range_true b0 0xE0 0xEF (by simpa using c3.1) (by simpa using c3.2)
      match rest with
      | [] =>
        refine .bad ?_ ?_
        · simp [decodeRune, ha, r1, r2]
        · conv => lhs; unfold utf8Valid
          simp [ha, r1, r2]
      | [b1] =>
        refine .bad ?_ ?_
        · simp [decodeRune, ha, r1, r2]
        · conv => lhs; unfold utf8Valid
          simp [ha, r1, r2]
      | b1 :: b2 :: t =>
        by_cases h1 : second3 b0 b1 = true ∧ isCont b2 = true
        · exact .three b1 b2 t rfl ⟨c3.1, c3.2, h1.1, h1.2⟩
        · have h1' : (second3 b0 b1 && isCont b2) = false := by
            cases hs : second3 b0 b1 <;> cases hc : isCont b2 <;> simp_all
          unfold second3 at h1'
          refine .bad ?_ ?_
          · simp only [decodeRune, ha, r1, r2, if_false, if_true, h1']
            simp
          · conv => lhs; unfold utf8Valid
            simp only [ha, r1, r2, if_false, if_true]
            simp only [Bool.false_eq_true, if_false, h1', Bool.false_and]
    · have r2 := range_false b0 0xE0 0xEF (by simp; omega)
      by_cases c4 : 240 ≤ b0.toNat ∧ b0.toNat ≤ 244
      · have r3 := range_true b0 0xF0 0xF4 (by simpa using c4.1) (by simpa using c4.2)
        match rest with
        | [] =>
          refine .bad ?_ ?_
          · simp [decodeRune, ha, r1, r2, r3]
          · conv => lhs; unfold utf8Valid
            simp [ha, r1, r2, r3]
        | [b1] =>
          refine .bad ?_ ?_
          · simp [decodeRune, ha, r1, r2, r3]
          · conv => lhs; unfold utf8Valid
            simp [ha, r1, r2, r3]
        | [b1, b2] =>
          refine .bad ?_ ?_
          · simp [decodeRune, ha, r1, r2, r3]
          · conv => lhs; unfold utf8Valid
            simp [ha, r1, r2, r3]
        | b1 :: b2 :: b3 :: t =>
          by_cases h1 : second4 b0 b1 = true ∧ isCont b2 = true ∧ isCont b3 = true
          · exact .four b1 b2 b3 t rfl ⟨c4.1, c4.2, h1.1, h1.2.1, h1.2.2⟩
          · have h1' : (second4 b0 b1 && isCont b2 && isCont b3) = false := by
              cases hs : second4 b0 b1 <;> cases hc : isCont b2 <;> cases hd : isCont b3 <;> simp_all
            unfold second4 at h1'
            refine .bad ?_ ?_
            · simp only [decodeRune, ha, r1, r2, r3, if_false, if_true, h1']
              simp
            · conv => lhs; unfold utf8Valid
              simp only [ha, r1, r2, r3, if_false, if_true]
              simp only [Bool.false_eq_true, if_false, h1', Bool.false_and]
      · have r3 := range_false b0 0xF0 0xF4 (by simp; omega)
        refine .bad ?_ ?_
        · simp [decodeRune, ha, r1, r2, r3]
        · conv => lhs; unfold utf8Valid
          simp [ha, r1, r2, r3]

/-! ### `EncodeRune (DecodeRune s) = s` on well-formed sequences -/

theorem rune2_range (b0 b1 : UInt8) (h : In2 b0 b1) : 128 ≤ rune2 b0 b1 ∧ rune2 b0 b1 ≤ 2047 := by
  obtain ⟨h1, h2, h3⟩ := h
  have := (isCont_iff b1).1 h3
  unfold rune2; omega

theorem encodeRune_rune2 (b0 b1 : UInt8) (h : In2 b0 b1) : encodeRune (rune2 b0 b1) = [b0, b1] := by
  have hr := rune2_range b0 b1 h
  obtain ⟨h1, h2, h3⟩ := h
  have hc := (isCont_iff b1).1 h3
  have n1 : ¬ rune2 b0 b1 ≤ 127 := by omega
  have n2 : rune2 b0 b1 ≤ 2047 := by omega
  simp only [encodeRune, n1, n2, if_false, if_true]
  rw [ofNat_eq b0 _ (by unfold rune2; omega), ofNat_eq b1 _ (by unfold rune2; omega)]

theorem rune3_range (b0 b1 b2 : UInt8) (h : In3 b0 b1 b2) :
    2048 ≤ rune3 b0 b1 b2 ∧ rune3 b0 b1 b2 ≤ 65535 ∧ ¬ (55296 ≤ rune3 b0 b1 b2 ∧ rune3 b0 b1 b2 ≤ 57343) := by
  obtain ⟨h1, h2, h3, h4⟩ := h
  have hs := (second3_iff b0 b1).1 h3
  have hc := (isCont_iff b2).1 h4
  unfold rune3; omega

theorem encodeRune_rune3 (b0 b1 b2 : UInt8) (h : In3 b0 b1 b2) :
    encodeRune (rune3 b0 b1 b2) = [b0, b1, b2] := by
  have hr := rune3_range b0 b1 b2 h
  obtain ⟨h1, h2, h3, h4⟩ := h
  have hs := (second3_iff b0 b1).1 h3
  have hc := (isCont_iff b2).1 h4
  have n1 : ¬ rune3 b0 b1 b2 ≤ 127 := by omega
  have n2 : ¬ rune3 b0 b1 b2 ≤ 2047 := by omega
  have n3 : (decide (1114111 < rune3 b0 b1 b2) || (decide (55296 ≤ rune3 b0 b1 b2) && decide (rune3 b0 b1 b2 ≤ 57343))) = false := by
    have a : ¬ 1114111 < rune3 b0 b1 b2 := by omega
    by_cases b : 55296 ≤ rune3 b0 b1 b2
    · have c : ¬ rune3 b0 b1 b2 ≤ 57343 := by omega
      simp [a, b, c]
    · simp [a, b]
  have n4 : rune3 b0 b1 b2 ≤ 65535 := by omega
  simp only [encodeRune, n1, n2, n3, n4, if_false, if_true, Bool.false_eq_true]
  rw [ofNat_eq b0 _ (by unfold rune3; omega), ofNat_eq b1 _ (by unfold rune3; omega),
    ofNat_eq b2 _ (by unfold rune3; omega)]

theorem rune4_range (b0 b1 b2 b3 : UInt8) (h : In4 b0 b1 b2 b3) :
    65536 ≤ rune4 b0 b1 b2 b3 ∧ rune4 b0 b1 b2 b3 ≤ 1114111 := by
  obtain ⟨h1, h2, h3, h4, h5⟩ := h
  have hs := (second4_iff b0 b1).1 h3
  have hc := (isCont_iff b2).1 h4
  have hd := (isCont_iff b3).1 h5
  unfold rune4; omega

theorem encodeRune_rune4 (b0 b1 b2 b3 : UInt8) (h : In4 b0 b1 b2 b3) :
    encodeRune (rune4 b0 b1 b2 b3) = [b0, b1, b2, b3] := by
  have hr := rune4_range b0 b1 b2 b3 h
  obtain ⟨h1, h2, h3, h4, h5⟩ := h
  have hs := (second4_iff b0 b1).1 h3
  have hc := (isCont_iff b2).1 h4
  have hd := (isCont_iff b3).1 h5
  have n1 : ¬ rune4 b0 b1 b2 b3 ≤ 127 := by omega
  have n2 : ¬ rune4 b0 b1 b2 b3 ≤ 2047 := by omega
  have n3 : (decide (1114111 < rune4 b0 b1 b2 b3) || (decide (55296 ≤ rune4 b0 b1 b2 b3) && decide (rune4 b0 b1 b2 b3 ≤ 57343))) = false := by
    have a : ¬ 1114111 < rune4 b0 b1 b2 b3 := by omega
    have c : ¬ rune4 b0 b1 b2 b3 ≤ 57343 := by omega
    simp [a, c]
  have n4 : ¬ rune4 b0 b1 b2 b3 ≤ 65535 := by omega
  simp only [encodeRune, n1, n2, n3, n4, if_false, Bool.false_eq_true]
  rw [ofNat_eq b0 _ (by unfold rune4; omega), ofNat_eq b1 _ (by unfold rune4; omega),
    ofNat_eq b2 _ (by unfold rune4; omega), ofNat_eq b3 _ (by unfold rune4; omega)]

/-! ### one step of `unquote` on what one step of `quote` wrote -/

theorem unquote_safe (c : UInt8) (hc : c < 0x80) (hs : htmlSafe c = true) (f : Nat) (q acc : Bytes) :
    unquoteAux (f + 1) (c :: q) acc = unquoteAux f q (acc ++ [c]) := by
  simp only [htmlSafe, Bool.and_eq_true, decide_eq_true_eq, bne_iff_ne, ne_eq] at hs
  obtain ⟨⟨⟨⟨⟨h20, h22⟩, h5c⟩, _⟩, _⟩, _⟩ := hs
  have n20 : ¬ c < 0x20 := by rw [u8lt]; rw [u8le] at h20; omega
  simp [unquoteAux, h5c, h22, n20, hc]

theorem hexValB_zero : hexValB 0x30 = some 0 := by decide

theorem unquote_escAscii (c : UInt8) (hc : c < 0x80) (f : Nat) (q acc : Bytes) :
    unquoteAux (f + 1) (escAscii c ++ q) acc = unquoteAux f q (acc ++ [c]) := by
  by_cases e1 : c = 0x5C
  · subst e1; simp [escAscii, unquoteAux]
  by_cases e2 : c = 0x22
  · subst e2; simp [escAscii, unquoteAux]
  by_cases e3 : c = 0x08
  · subst e3; simp [escAscii, unquoteAux]
  by_cases e4 : c = 0x0C
  · subst e4; simp [escAscii, unquoteAux]
  by_cases e5 : c = 0x0A
  · subst e5; simp [escAscii, unquoteAux]
  by_cases e6 : c = 0x0D
  · subst e6; simp [escAscii, unquoteAux]
  by_cases e7 : c = 0x09
  · subst e7; simp [escAscii, unquoteAux]
  have hlt : c.toNat < 128 := by rw [u8lt] at hc; simpa using hc
  have d1 : c.toNat / 16 < 16 := by omega
  have d2 : c.toNat % 16 < 16 := by omega
  have hx : hex4 (0x30 :: 0x30 :: hexDigitB (c.toNat / 16) :: hexDigitB (c.toNat % 16) :: q) = some c.toNat := by
    simp only [hex4, hexValB_zero, hexValB_hexDigitB _ d1, hexValB_hexDigitB _ d2]
    congr 1; omega
  have hsur : isSurrogate c.toNat = false := by
    simp [isSurrogate]; omega
  have henc : encodeRune c.toNat = [c] := by
    have : c.toNat ≤ 127 := by omega
    simp [encodeRune, this]
  simp [escAscii, e1, e2, e3, e4, e5, e6, e7, unquoteAux, hx, hsur, henc]

theorem unquote_escReplacement (f : Nat) (q acc : Bytes) :
    unquoteAux (f + 1) (escReplacement ++ q) acc = unquoteAux f q (acc ++ replacement) := by
  have hx : hex4 (0x66 :: 0x66 :: 0x66 :: 0x64 :: q) = some runeError := by
    simp [hex4, hexValB, runeError]
  have hsur : isSurrogate runeError = false := by decide
  have henc : encodeRune runeError = replacement := by decide
  simp [escReplacement, unquoteAux, hx, hsur, henc]

theorem unquote_escLineSep (c : Nat) (hc : c = 0x2028 ∨ c = 0x2029) (f : Nat) (q acc : Bytes) :
    unquoteAux (f + 1) (escLineSep c ++ q) acc = unquoteAux f q (acc ++ encodeRune c) := by
  rcases hc with rfl | rfl
  · have hx : hex4 (0x32 :: 0x30 :: 0x32 :: hexDigitB (0x2028 % 16) :: q) = some 0x2028 := by
      simp [hex4, hexValB, hexDigitB]
    have hsur : isSurrogate 0x2028 = false := by decide
    simp [escLineSep, unquoteAux, hx, hsur]
  · have hx : hex4 (0x32 :: 0x30 :: 0x32 :: hexDigitB (0x2029 % 16) :: q) = some 0x2029 := by
      simp [hex4, hexValB, hexDigitB]
    have hsur : isSurrogate 0x2029 = false := by decide
    simp [escLineSep, unquoteAux, hx, hsur]

theorem unquote_nonascii (c : UInt8) (hc : ¬ c < 0x80) (f : Nat) (rest acc : Bytes) :
    unquoteAux (f + 1) (c :: rest) acc =
      unquoteAux f (rest.drop ((decodeRune (c :: rest)).2 - 1)) (acc ++ encodeRune (decodeRune (c :: rest)).1) := by
  have hge : 128 ≤ c.toNat := by rw [u8lt] at hc; simpa using hc
  have n1 : ¬ c = 0x5C := by intro h; subst h; simp at hge
  have n2 : ¬ c = 0x22 := by intro h; subst h; simp at hge
  have n3 : ¬ c < 0x20 := by rw [u8lt]; simp; omega
  simp [unquoteAux, n1, n2, n3, hc]

theorem unquote_two (b0 b1 : UInt8) (h : In2 b0 b1) (f : Nat) (q acc : Bytes) :
    unquoteAux (f + 1) (b0 :: b1 :: q) acc = unquoteAux f q (acc ++ [b0, b1]) := by
  rw [unquote_nonascii b0 (not_ascii_of_ge b0 (by have := h.1; omega)), decodeRune_two b0 b1 q h,
    encodeRune_rune2 b0 b1 h]
  simp

theorem unquote_three (b0 b1 b2 : UInt8) (h : In3 b0 b1 b2) (f : Nat) (q acc : Bytes) :
    unquoteAux (f + 1) (b0 :: b1 :: b2 :: q) acc = unquoteAux f q (acc ++ [b0, b1, b2]) := by
  rw [unquote_nonascii b0 (not_ascii_of_ge b0 (by have := h.1; omega)), decodeRune_three b0 b1 b2 q h,
    encodeRune_rune3 b0 b1 b2 h]
  simp

theorem unquote_four (b0 b1 b2 b3 : UInt8) (h : In4 b0 b1 b2 b3) (f : Nat) (q acc : Bytes) :
    unquoteAux (f + 1) (b0 :: b1 :: b2 :: b3 :: q) acc = unquoteAux f q (acc ++ [b0, b1, b2, b3]) := by
  rw [unquote_nonascii b0 (not_ascii_of_ge b0 (by have := h.1; omega)), decodeRune_four b0 b1 b2 b3 q h,
    encodeRune_rune4 b0 b1 b2 b3 h]
  simp

/-! ### the round trip -/

theorem quoteAux_ascii (f : Nat) (b : UInt8) (rest : Bytes) (h : b < 0x80) :
    quoteAux (f + 1) (b :: rest) = (if htmlSafe b then [b] else escAscii b) ++ quoteAux f rest := by
  simp [quoteAux, h]

theorem quoteAux_bad (f : Nat) (b : UInt8) (rest : Bytes) (h : ¬ b < 0x80)
    (hd : decodeRune (b :: rest) = (runeError, 1)) :
    quoteAux (f + 1) (b :: rest) = escReplacement ++ quoteAux f rest := by
  simp [quoteAux, h, hd]

theorem quoteAux_two (f : Nat) (b0 b1 : UInt8) (r : Bytes) (h : In2 b0 b1) :
    quoteAux (f + 1) (b0 :: b1 :: r) = [b0, b1] ++ quoteAux f r := by
  have ha := not_ascii_of_ge b0 (by have := h.1; omega)
  have hr := rune2_range b0 b1 h
  have n1 : ¬ rune2 b0 b1 = 0x2028 := by omega
  have n2 : ¬ rune2 b0 b1 = 0x2029 := by omega
  simp [quoteAux, ha, decodeRune_two b0 b1 r h, n1, n2]

theorem quoteAux_three (f : Nat) (b0 b1 b2 : UInt8) (r : Bytes) (h : In3 b0 b1 b2) :
    quoteAux (f + 1) (b0 :: b1 :: b2 :: r) =
      (if rune3 b0 b1 b2 = 0x2028 ∨ rune3 b0 b1 b2 = 0x2029 then escLineSep (rune3 b0 b1 b2) else [b0, b1, b2])
        ++ quoteAux f r := by
  have ha := not_ascii_of_ge b0 (by have := h.1; omega)
  simp only [quoteAux, ha, if_false, decodeRune_three b0 b1 b2 r h]
  by_cases hc : rune3 b0 b1 b2 = 0x2028 ∨ rune3 b0 b1 b2 = 0x2029
  · simp [hc]
  · have h1 : ¬ rune3 b0 b1 b2 = 0x2028 := fun e => hc (Or.inl e)
    have h2 : ¬ rune3 b0 b1 b2 = 0x2029 := fun e => hc (Or.inr e)
    simp [h1, h2]

theorem quoteAux_four (f : Nat) (b0 b1 b2 b3 : UInt8) (r : Bytes) (h : In4 b0 b1 b2 b3) :
    quoteAux (f + 1) (b0 :: b1 :: b2 :: b3 :: r) = [b0, b1, b2, b3] ++ quoteAux f r := by
  have ha := not_ascii_of_ge b0 (by have := h.1; omega)
  have hr := rune4_range b0 b1 b2 b3 h
  have n1 : ¬ rune4 b0 b1 b2 b3 = 0x2028 := by omega
  have n2 : ¬ rune4 b0 b1 b2 b3 = 0x2029 := by omega
  simp [quoteAux, ha, decodeRune_four b0 b1 b2 b3 r h, n1, n2]

theorem sanitizeAux_ascii (f : Nat) (b : UInt8) (rest : Bytes) (h : b < 0x80) :
    sanitizeAux (f + 1) (b :: rest) = b :: sanitizeAux f rest := by
  simp [sanitizeAux, h]

theorem sanitizeAux_bad (f : Nat) (b : UInt8) (rest : Bytes) (h : ¬ b < 0x80)
    (hd : decodeRune (b :: rest) = (runeError, 1)) :
    sanitizeAux (f + 1) (b :: rest) = replacement ++ sanitizeAux f rest := by
  simp [sanitizeAux, h, hd]

theorem sanitizeAux_two (f : Nat) (b0 b1 : UInt8) (r : Bytes) (h : In2 b0 b1) :
    sanitizeAux (f + 1) (b0 :: b1 :: r) = [b0, b1] ++ sanitizeAux f r := by
  have ha := not_ascii_of_ge b0 (by have := h.1; omega)
  simp [sanitizeAux, ha, decodeRune_two b0 b1 r h]

theorem sanitizeAux_three (f : Nat) (b0 b1 b2 : UInt8) (r : Bytes) (h : In3 b0 b1 b2) :
    sanitizeAux (f + 1) (b0 :: b1 :: b2 :: r) = [b0, b1, b2] ++ sanitizeAux f r := by
  have ha := not_ascii_of_ge b0 (by have := h.1; omega)
  simp [sanitizeAux, ha, decodeRune_three b0 b1 b2 r h]

theorem sanitizeAux_four (f : Nat) (b0 b1 b2 b3 : UInt8) (r : Bytes) (h : In4 b0 b1 b2 b3) :
    sanitizeAux (f + 1) (b0 :: b1 :: b2 :: b3 :: r) = [b0, b1, b2, b3] ++ sanitizeAux f r := by
  have ha := not_ascii_of_ge b0 (by have := h.1; omega)
  simp [sanitizeAux, ha, decodeRune_four b0 b1 b2 b3 r h]

theorem escAscii_length_pos (b : UInt8) : 0 < (escAscii b).length := by
  unfold escAscii; (repeat' split) <;> simp

theorem unquote_quoteAux (f1 : Nat) : ∀ (s : Bytes) (f2 : Nat) (acc : Bytes), s.length ≤ f1 →
    (quoteAux f1 s).length ≤ f2 → unquoteAux f2 (quoteAux f1 s) acc = some (acc ++ sanitizeAux f1 s) := by
  induction f1 with
  | zero =>
    intro s f2 acc hs _
    have : s = [] := by cases s <;> simp_all
    subst this
    cases f2 <;> simp [quoteAux, unquoteAux, sanitizeAux]
  | succ f ih =>
    intro s f2 acc hs hq
    match s with
    | [] => cases f2 <;> simp [quoteAux, unquoteAux, sanitizeAux]
    | b :: rest =>
      have hrest : rest.length ≤ f := by simpa using hs
      by_cases ha : b < 0x80
      · rw [quoteAux_ascii f b rest ha] at hq ⊢
        rw [sanitizeAux_ascii f b rest ha]
        by_cases hsafe : htmlSafe b = true
        · simp only [hsafe, if_true, List.length_append, List.length_cons, List.length_nil] at hq ⊢
          obtain ⟨f2', rfl⟩ : ∃ k, f2 = k + 1 := ⟨f2 - 1, by omega⟩
          rw [List.singleton_append, unquote_safe b ha hsafe, ih rest f2' _ hrest (by omega)]
          simp
        · have hsafe' : htmlSafe b = false := by simpa using hsafe
          simp only [hsafe', Bool.false_eq_true, if_false, List.length_append] at hq ⊢
          have hp := escAscii_length_pos b
          obtain ⟨f2', rfl⟩ : ∃ k, f2 = k + 1 := ⟨f2 - 1, by omega⟩
          rw [unquote_escAscii b ha, ih rest f2' _ hrest (by omega)]
          simp
      · cases head_cases b rest ha with
        | bad hd _ =>
          rw [quoteAux_bad f b rest ha hd] at hq ⊢
          rw [sanitizeAux_bad f b rest ha hd]
          simp only [List.length_append, escReplacement, List.length_cons, List.length_nil] at hq
          obtain ⟨f2', rfl⟩ : ∃ k, f2 = k + 1 := ⟨f2 - 1, by omega⟩
          rw [unquote_escReplacement, ih rest f2' _ hrest (by omega)]
          simp
        | two b1 r hr h2 =>
          subst hr
          have hr' : r.length ≤ f := by simp at hrest; omega
          rw [quoteAux_two f b b1 r h2] at hq ⊢
          rw [sanitizeAux_two f b b1 r h2]
          simp only [List.length_append, List.length_cons, List.length_nil] at hq
          obtain ⟨f2', rfl⟩ : ∃ k, f2 = k + 1 := ⟨f2 - 1, by omega⟩
          rw [show [b, b1] ++ quoteAux f r = b :: b1 :: quoteAux f r from rfl, unquote_two b b1 h2,
            ih r f2' _ hr' (by omega)]
          simp
        | three b1 b2 r hr h3 =>
          subst hr
          have hr' : r.length ≤ f := by simp at hrest; omega
          rw [quoteAux_three f b b1 b2 r h3] at hq ⊢
          rw [sanitizeAux_three f b b1 b2 r h3]
          by_cases hc : rune3 b b1 b2 = 0x2028 ∨ rune3 b b1 b2 = 0x2029
          · simp only [hc, if_true, List.length_append, escLineSep, List.length_cons, List.length_nil] at hq
            simp only [hc, if_true]
            obtain ⟨f2', rfl⟩ : ∃ k, f2 = k + 1 := ⟨f2 - 1, by omega⟩
            rw [unquote_escLineSep _ hc, encodeRune_rune3 b b1 b2 h3, ih r f2' _ hr' (by omega)]
            simp
          · simp only [hc, if_false, List.length_append, List.length_cons, List.length_nil] at hq
            simp only [hc, if_false]
            obtain ⟨f2', rfl⟩ : ∃ k, f2 = k + 1 := ⟨f2 - 1, by omega⟩
            rw [show [b, b1, b2] ++ quoteAux f r = b :: b1 :: b2 :: quoteAux f r from rfl,
              unquote_three b b1 b2 h3, ih r f2' _ hr' (by omega)]
            simp
        | four b1 b2 b3 r hr h4 =>
          subst hr
          have hr' : r.length ≤ f := by simp at hrest; omega
          rw [quoteAux_four f b b1 b2 b3 r h4] at hq ⊢
          rw [sanitizeAux_four f b b1 b2 b3 r h4]
          simp only [List.length_append, List.length_cons, List.length_nil] at hq
          obtain ⟨f2', rfl⟩ : ∃ k, f2 = k + 1 := ⟨f2 - 1, by omega⟩
          rw [show [b, b1, b2, b3] ++ quoteAux f r = b :: b1 :: b2 :: b3 :: quoteAux f r from rfl,
            unquote_four b b1 b2 b3 h4, ih r f2' _ hr' (by omega)]
          simp

theorem unquote_quote (s : Bytes) : unquote (quote s) = some (sanitize s) := by
  have h := unquote_quoteAux s.length s ((quoteAux s.length s).length + 1) [] (Nat.le_refl _) (by omega)
  simp only [quote, unquote, List.getLast?_append, List.getLast?_singleton, Option.some_or,
    List.dropLast_concat, List.length_append, List.length_cons, List.length_nil]
  simpa [sanitize] using h

/-! ### the scanner accepts what `quote` writes -/

theorem scan_plain (c : UInt8) (h1 : ¬ c = 0x22) (h2 : ¬ c = 0x5C) (h3 : ¬ c < 0x20) (f : Nat) (q : Bytes) :
    scanAux (f + 1) (c :: q) = scanAux f q := by
  simp [scanAux, h1, h2, h3]

theorem scan_nonascii (c : UInt8) (h : 128 ≤ c.toNat) (f : Nat) (q : Bytes) :
    scanAux (f + 1) (c :: q) = scanAux f q := by
  apply scan_plain
  · intro e; subst e; simp at h
  · intro e; subst e; simp at h
  · rw [u8lt]; simp; omega

theorem scan_safe (c : UInt8) (hs : htmlSafe c = true) (f : Nat) (q : Bytes) :
    scanAux (f + 1) (c :: q) = scanAux f q := by
  simp only [htmlSafe, Bool.and_eq_true, decide_eq_true_eq, bne_iff_ne, ne_eq] at hs
  obtain ⟨⟨⟨⟨⟨h20, h22⟩, h5c⟩, _⟩, _⟩, _⟩ := hs
  exact scan_plain c h22 h5c (by rw [u8lt]; rw [u8le] at h20; omega) f q

theorem hexValB_isSome (d : Nat) (h : d < 16) : ∃ v, hexValB (hexDigitB d) = some v :=
  ⟨d, hexValB_hexDigitB d h⟩

theorem scan_escAscii (c : UInt8) (hc : c < 0x80) (f : Nat) (q : Bytes) :
    scanAux (f + 1) (escAscii c ++ q) = scanAux f q := by
  by_cases e1 : c = 0x5C
  · subst e1; simp [escAscii, scanAux]
  by_cases e2 : c = 0x22
  · subst e2; simp [escAscii, scanAux]
  by_cases e3 : c = 0x08
  · subst e3; simp [escAscii, scanAux]
  by_cases e4 : c = 0x0C
  · subst e4; simp [escAscii, scanAux]
  by_cases e5 : c = 0x0A
  · subst e5; simp [escAscii, scanAux]
  by_cases e6 : c = 0x0D
  · subst e6; simp [escAscii, scanAux]
  by_cases e7 : c = 0x09
  · subst e7; simp [escAscii, scanAux]
  have hlt : c.toNat < 128 := by rw [u8lt] at hc; simpa using hc
  have d1 : c.toNat / 16 < 16 := by omega
  have d2 : c.toNat % 16 < 16 := by omega
  have hx : hex4 (0x30 :: 0x30 :: hexDigitB (c.toNat / 16) :: hexDigitB (c.toNat % 16) :: q) =
      some (((0 * 16 + 0) * 16 + c.toNat / 16) * 16 + c.toNat % 16) := by
    simp only [hex4, hexValB_zero, hexValB_hexDigitB _ d1, hexValB_hexDigitB _ d2]
  simp [escAscii, e1, e2, e3, e4, e5, e6, e7, scanAux, hx]

theorem scan_escReplacement (f : Nat) (q : Bytes) :
    scanAux (f + 1) (escReplacement ++ q) = scanAux f q := by
  have hx : hex4 (0x66 :: 0x66 :: 0x66 :: 0x64 :: q) = some runeError := by
    simp [hex4, hexValB, runeError]
  simp [escReplacement, scanAux, hx]

theorem scan_escLineSep (c : Nat) (hc : c = 0x2028 ∨ c = 0x2029) (f : Nat) (q : Bytes) :
    scanAux (f + 1) (escLineSep c ++ q) = scanAux f q := by
  rcases hc with rfl | rfl
  · have hx : hex4 (0x32 :: 0x30 :: 0x32 :: hexDigitB (0x2028 % 16) :: q) = some 0x2028 := by
      simp [hex4, hexValB, hexDigitB]
    simp [escLineSep, scanAux, hx]
  · have hx : hex4 (0x32 :: 0x30 :: 0x32 :: hexDigitB (0x2029 % 16) :: q) = some 0x2029 := by
      simp [hex4, hexValB, hexDigitB]
    simp [escLineSep, scanAux, hx]

theorem scan_quoteAux (f1 : Nat) : ∀ (s : Bytes) (f2 : Nat), s.length ≤ f1 →
    (quoteAux f1 s).length + 1 ≤ f2 → scanAux f2 (quoteAux f1 s ++ [0x22]) = true := by
  induction f1 with
  | zero =>
    intro s f2 hs hq
    have : s = [] := by cases s <;> simp_all
    subst this
    obtain ⟨k, rfl⟩ : ∃ k, f2 = k + 1 := ⟨f2 - 1, by omega⟩
    simp [quoteAux, scanAux]
  | succ f ih =>
    intro s f2 hs hq
    match s with
    | [] =>
      obtain ⟨k, rfl⟩ : ∃ k, f2 = k + 1 := ⟨f2 - 1, by omega⟩
      simp [quoteAux, scanAux]
    | b :: rest =>
      have hrest : rest.length ≤ f := by simpa using hs
      by_cases ha : b < 0x80
      · rw [quoteAux_ascii f b rest ha] at hq ⊢
        by_cases hsafe : htmlSafe b = true
        · simp only [hsafe, if_true, List.length_append, List.length_cons, List.length_nil] at hq ⊢
          obtain ⟨f2', rfl⟩ : ∃ k, f2 = k + 1 := ⟨f2 - 1, by omega⟩
          rw [List.singleton_append, List.cons_append, scan_safe b hsafe]
          exact ih rest f2' hrest (by omega)
        · have hsafe' : htmlSafe b = false := by simpa using hsafe
          simp only [hsafe', Bool.false_eq_true, if_false, List.length_append] at hq ⊢
          have hp := escAscii_length_pos b
          obtain ⟨f2', rfl⟩ : ∃ k, f2 = k + 1 := ⟨f2 - 1, by omega⟩
          rw [List.append_assoc, scan_escAscii b ha]
          exact ih rest f2' hrest (by omega)
      · cases head_cases b rest ha with
        | bad hd _ =>
          rw [quoteAux_bad f b rest ha hd] at hq ⊢
          simp only [List.length_append, escReplacement, List.length_cons, List.length_nil] at hq
          obtain ⟨f2', rfl⟩ : ∃ k, f2 = k + 1 := ⟨f2 - 1, by omega⟩
          rw [List.append_assoc, scan_escReplacement]
          exact ih rest f2' hrest (by omega)
        | two b1 r hr h2 =>
          subst hr
          have hr' : r.length ≤ f := by simp at hrest; omega
          rw [quoteAux_two f b b1 r h2] at hq ⊢
          simp only [List.length_append, List.length_cons, List.length_nil] at hq
          obtain ⟨k, rfl⟩ : ∃ k, f2 = k + 2 := ⟨f2 - 2, by omega⟩
          have c1 := (isCont_iff b1).1 h2.2.2
          simp only [List.cons_append, List.nil_append]
          rw [scan_nonascii b (by have := h2.1; omega), scan_nonascii b1 c1.1]
          exact ih r k hr' (by omega)
        | three b1 b2 r hr h3 =>
          subst hr
          have hr' : r.length ≤ f := by simp at hrest; omega
          rw [quoteAux_three f b b1 b2 r h3] at hq ⊢
          by_cases hc : rune3 b b1 b2 = 0x2028 ∨ rune3 b b1 b2 = 0x2029
          · simp only [hc, if_true, List.length_append, escLineSep, List.length_cons, List.length_nil] at hq
            simp only [hc, if_true]
            obtain ⟨f2', rfl⟩ : ∃ k, f2 = k + 1 := ⟨f2 - 1, by omega⟩
            rw [List.append_assoc, scan_escLineSep _ hc]
            exact ih r f2' hr' (by omega)
          · simp only [hc, if_false, List.length_append, List.length_cons, List.length_nil] at hq
            simp only [hc, if_false]
            obtain ⟨k, rfl⟩ : ∃ k, f2 = k + 3 := ⟨f2 - 3, by omega⟩
            have c1 := (second3_iff b b1).1 h3.2.2.1
            have c2 := (isCont_iff b2).1 h3.2.2.2
            simp only [List.cons_append, List.nil_append]
            rw [scan_nonascii b (by have := h3.1; omega), scan_nonascii b1 c1.1, scan_nonascii b2 c2.1]
            exact ih r k hr' (by omega)
        | four b1 b2 b3 r hr h4 =>
          subst hr
          have hr' : r.length ≤ f := by simp at hrest; omega
          rw [quoteAux_four f b b1 b2 b3 r h4] at hq ⊢
          simp only [List.length_append, List.length_cons, List.length_nil] at hq
          obtain ⟨k, rfl⟩ : ∃ k, f2 = k + 4 := ⟨f2 - 4, by omega⟩
          have c1 := (second4_iff b b1).1 h4.2.2.1
          have c2 := (isCont_iff b2).1 h4.2.2.2.1
          have c3 := (isCont_iff b3).1 h4.2.2.2.2
          simp only [List.cons_append, List.nil_append]
          rw [scan_nonascii b (by have := h4.1; omega), scan_nonascii b1 c1.1, scan_nonascii b2 c2.1,
            scan_nonascii b3 c3.1]
          exact ih r k hr' (by omega)

theorem scanString_quote (s : Bytes) : scanString (quote s) = true := by
  simp only [quote, scanString]
  exact scan_quoteAux s.length s _ (Nat.le_refl _) (by simp)

/-- `json.Unmarshal(json.Marshal(s))` for every Go string: the bytes of `string([]rune(s))`. -/
theorem jsonDecode_jsonEncode (s : Bytes) : jsonDecodeString (jsonEncodeString s) = some (sanitize s) := by
  simp [jsonDecodeString, jsonEncodeString, scanString_quote, unquote_quote]

/-! ### `sanitize`: identity exactly on valid UTF-8 -/

theorem sanitizeAux_valid (f : Nat) : ∀ (s : Bytes), s.length ≤ f → utf8Valid s = true → sanitizeAux f s = s := by
  induction f with
  | zero => intro s hs _; cases s <;> simp_all [sanitizeAux]
  | succ f ih =>
    intro s hs hv
    match s with
    | [] => simp [sanitizeAux]
    | b :: rest =>
      have hrest : rest.length ≤ f := by simpa using hs
      by_cases ha : b < 0x80
      · rw [sanitizeAux_ascii f b rest ha, ih rest hrest (by rwa [utf8Valid_cons_ascii b rest ha] at hv)]
      · cases head_cases b rest ha with
        | bad _ hb => rw [hb] at hv; simp at hv
        | two b1 r hr h2 =>
          subst hr
          rw [utf8Valid_two b b1 r h2] at hv
          rw [sanitizeAux_two f b b1 r h2, ih r (by simp at hrest; omega) hv]; rfl
        | three b1 b2 r hr h3 =>
          subst hr
          rw [utf8Valid_three b b1 b2 r h3] at hv
          rw [sanitizeAux_three f b b1 b2 r h3, ih r (by simp at hrest; omega) hv]; rfl
        | four b1 b2 b3 r hr h4 =>
          subst hr
          rw [utf8Valid_four b b1 b2 b3 r h4] at hv
          rw [sanitizeAux_four f b b1 b2 b3 r h4, ih r (by simp at hrest; omega) hv]; rfl

theorem sanitize_of_valid (s : Bytes) (h : utf8Valid s = true) : sanitize s = s :=
  sanitizeAux_valid s.length s (Nat.le_refl _) h

/-- Each ill-formed byte becomes three: the image of a string that is not valid UTF-8 is longer. -/
theorem sanitizeAux_length (f : Nat) : ∀ (s : Bytes), s.length ≤ f →
    s.length ≤ (sanitizeAux f s).length ∧ (utf8Valid s = false → s.length < (sanitizeAux f s).length) := by
  induction f with
  | zero => intro s hs; cases s <;> simp_all [sanitizeAux, utf8Valid]
  | succ f ih =>
    intro s hs
    match s with
    | [] => simp [sanitizeAux, utf8Valid]
    | b :: rest =>
      have hrest : rest.length ≤ f := by simpa using hs
      by_cases ha : b < 0x80
      · obtain ⟨i1, i2⟩ := ih rest hrest
        rw [sanitizeAux_ascii f b rest ha, utf8Valid_cons_ascii b rest ha]
        simp only [List.length_cons]
        exact ⟨by omega, fun h => by have := i2 h; omega⟩
      · cases head_cases b rest ha with
        | bad hd _ =>
          obtain ⟨i1, _⟩ := ih rest hrest
          rw [sanitizeAux_bad f b rest ha hd]
          simp only [List.length_cons, List.length_append, replacement, List.length_nil]
          exact ⟨by omega, fun _ => by omega⟩
        | two b1 r hr h2 =>
          subst hr
          obtain ⟨i1, i2⟩ := ih r (by simp at hrest; omega)
          rw [sanitizeAux_two f b b1 r h2, utf8Valid_two b b1 r h2]
          simp only [List.length_cons, List.length_append, List.length_nil]
          exact ⟨by omega, fun h => by have := i2 h; omega⟩
        | three b1 b2 r hr h3 =>
          subst hr
          obtain ⟨i1, i2⟩ := ih r (by simp at hrest; omega)
          rw [sanitizeAux_three f b b1 b2 r h3, utf8Valid_three b b1 b2 r h3]
          simp only [List.length_cons, List.length_append, List.length_nil]
          exact ⟨by omega, fun h => by have := i2 h; omega⟩
        | four b1 b2 b3 r hr h4 =>
          subst hr
          obtain ⟨i1, i2⟩ := ih r (by simp at hrest; omega)
          rw [sanitizeAux_four f b b1 b2 b3 r h4, utf8Valid_four b b1 b2 b3 r h4]
          simp only [List.length_cons, List.length_append, List.length_nil]
          exact ⟨by omega, fun h => by have := i2 h; omega⟩

theorem sanitize_eq_iff (s : Bytes) : sanitize s = s ↔ utf8Valid s = true := by
  constructor
  · intro h
    cases hv : utf8Valid s with
    | true => rfl
    | false =>
      have := (sanitizeAux_length s.length s (Nat.le_refl _)).2 hv
      unfold sanitize at h
      rw [h] at this
      omega
  · exact sanitize_of_valid s

theorem in3_replacement : In3 0xEF 0xBF 0xBD := by
  refine ⟨by decide, by decide, by decide, by decide⟩

/-- The image is always valid UTF-8. -/
theorem sanitizeAux_is_valid (f : Nat) : ∀ (s : Bytes), s.length ≤ f → utf8Valid (sanitizeAux f s) = true := by
  induction f with
  | zero => intro s _; simp [sanitizeAux, utf8Valid]
  | succ f ih =>
    intro s hs
    match s with
    | [] => simp [sanitizeAux, utf8Valid]
    | b :: rest =>
      have hrest : rest.length ≤ f := by simpa using hs
      by_cases ha : b < 0x80
      · rw [sanitizeAux_ascii f b rest ha, utf8Valid_cons_ascii b _ ha]
        exact ih rest hrest
      · cases head_cases b rest ha with
        | bad hd _ =>
          rw [sanitizeAux_bad f b rest ha hd]
          show utf8Valid (0xEF :: 0xBF :: 0xBD :: sanitizeAux f rest) = true
          rw [utf8Valid_three _ _ _ _ in3_replacement]
          exact ih rest hrest
        | two b1 r hr h2 =>
          subst hr
          rw [sanitizeAux_two f b b1 r h2]
          show utf8Valid (b :: b1 :: sanitizeAux f r) = true
          rw [utf8Valid_two b b1 _ h2]
          exact ih r (by simp at hrest; omega)
        | three b1 b2 r hr h3 =>
          subst hr
          rw [sanitizeAux_three f b b1 b2 r h3]
          show utf8Valid (b :: b1 :: b2 :: sanitizeAux f r) = true
          rw [utf8Valid_three b b1 b2 _ h3]
          exact ih r (by simp at hrest; omega)
        | four b1 b2 b3 r hr h4 =>
          subst hr
          rw [sanitizeAux_four f b b1 b2 b3 r h4]
          show utf8Valid (b :: b1 :: b2 :: b3 :: sanitizeAux f r) = true
          rw [utf8Valid_four b b1 b2 b3 _ h4]
          exact ih r (by simp at hrest; omega)

theorem sanitize_is_valid (s : Bytes) : utf8Valid (sanitize s) = true :=
  sanitizeAux_is_valid s.length s (Nat.le_refl _)

end Martian.Har
