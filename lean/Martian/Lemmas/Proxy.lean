import Martian.Model.Proxy
/-! Helper lemmas about the exchange machine: localisation of per-exchange counts, trace checkers. -/
namespace Martian.Proxy

/-- Which state and item the request with index `k` is handled with, if it is read at all. -/
def at? (sd : Bool) (base : Nat) : St → Nat → List Item → Nat → Option (St × Item)
  | _, _, [], _ => none
  | s, i, it :: rest, k =>
    if k = i then some (s, it) else
    match (handleItem sd s i (base + i) it).2 with
    | .again s' => at? sd base s' (i + 1) rest k
    | _ => none

theorem countP_append (p : Ev → Bool) (a b : List Ev) : countP p (a ++ b) = countP p a + countP p b := by
  simp [countP, List.filter_append]

theorem countP_nil (p : Ev → Bool) : countP p [] = 0 := rfl

/-- A family of event predicates indexed by exchange number that ignores bookkeeping events and
events of other exchanges. -/
structure Local (p : Nat → Ev → Bool) : Prop where
  unlink : ∀ k c, p k (.unlink c) = false
  closeConn : ∀ k, p k .closeConn = false
  foreign : ∀ k sd s i c it, k ≠ i → countP (p k) (handleItem sd s i c it).1 = 0

theorem countP_unlinks {p : Nat → Ev → Bool} (hp : Local p) (k : Nat) (opn : List Nat) :
    countP (p k) (opn.map Ev.unlink ++ [Ev.closeConn]) = 0 := by
  induction opn with
  | nil => simp [countP, hp.closeConn]
  | cons c r ih =>
    simp only [List.map_cons, List.cons_append, countP, List.filter_cons, hp.unlink] at *
    simpa using ih

theorem at?_lt (sd : Bool) (base : Nat) (s : St) (i : Nat) (items : List Item) (k : Nat) (h : k < i) :
    at? sd base s i items k = none := by
  induction items generalizing s i with
  | nil => rfl
  | cons it rest ih =>
    simp only [at?]
    have : k ≠ i := by omega
    simp only [this, if_false]
    split
    · exact ih _ _ (by omega)
    · rfl

/-- Localisation: the number of `p k` events of a whole connection is that of exchange `k` alone. -/
theorem count_run {p : Nat → Ev → Bool} (hp : Local p) (sd : Bool) (base : Nat) (k : Nat)
    (s : St) (i : Nat) (opn : List Nat) (items : List Item) :
    countP (p k) (run sd base s i opn items) =
      match at? sd base s i items k with
      | some (s', it) => countP (p k) (handleItem sd s' k (base + k) it).1
      | none => 0 := by
  induction items generalizing s i opn with
  | nil => simp only [run, at?]; exact countP_unlinks hp k opn
  | cons it rest ih =>
    simp only [run, at?]
    by_cases hk : k = i
    · subst hk
      simp only [if_true]
      cases hn : (handleItem sd s k (base + k) it).2 with
      | again s' =>
        simp only [hn, countP_append]
        rw [ih]
        rw [at?_lt sd base s' (k + 1) rest k (by omega)]
        simp
      | close => simp only [hn, countP_append, countP_unlinks hp, List.append_assoc]; simp
      | hijack => simp only [hn, countP_append, countP_unlinks hp, List.append_assoc]; simp
    · simp only [hk, if_false]
      have hf := hp.foreign k sd s i (base + i) it hk
      cases hn : (handleItem sd s i (base + i) it).2 with
      | again s' =>
        simp only [hn, countP_append, hf, Nat.zero_add]
        exact ih _ _ _
      | close => simp only [hn, countP_append, hf, countP_unlinks hp, List.append_assoc]
      | hijack => simp only [hn, countP_append, hf, countP_unlinks hp, List.append_assoc]

theorem at?_item (sd : Bool) (base : Nat) (s : St) (i : Nat) (items : List Item) (k : Nat) (s' : St) (it : Item)
    (h : at? sd base s i items k = some (s', it)) : i ≤ k ∧ items[k - i]? = some it := by
  induction items generalizing s i with
  | nil => simp [at?] at h
  | cons x rest ih =>
    simp only [at?] at h
    by_cases hk : k = i
    · subst hk; simp at h; simp [h.2]
    · simp only [hk, if_false] at h
      split at h
      · have := ih _ _ h
        refine ⟨by omega, ?_⟩
        have h1 : k - i = (k - (i + 1)) + 1 := by omega
        rw [h1]; simpa using this.2
      · simp at h

end Martian.Proxy

namespace Martian.Proxy

def isRead (i : Nat) : Ev → Bool | .read j => j == i | _ => false

def Item.rq : Item → ReqB | .x _ rq _ _ => rq | .connectMitm _ rq _ => rq | .connectBlind _ rq _ => rq | .connectMitmFail rq _ => rq
def Item.rs : Item → ResB | .x _ _ rs _ => rs | .connectMitm _ _ rs => rs | .connectBlind _ _ rs => rs | .connectMitmFail _ rs => rs
def Item.hij (it : Item) : Bool := it.rq == .hijack || it.rs == .hijack

/-- Brute-force evaluation of one `handleItem` call over every behaviour combination; `tac`
finishes whatever the simp set leaves. -/
macro "item_cases " it:ident " then " tac:tactic : tactic => `(tactic|
      cases $it:ident with
      | x rc rq rs org =>
        cases rq <;> cases rs <;> cases org <;>
          (simp [handleItem, handleX, pre, stAfter, afterReq, rqErr, rqSkip, rsErr, countP, Item.rq, Item.rs, Item.hij,
            isRead, isReqmod, isResmod, isUpstream, isWrite, isWarnReq, isWarnRes, isWarnRt, isHijacked, *] <;> $tac)
      | connectMitm tls rq rs =>
        cases rq <;> cases rs <;> cases tls <;>
          (simp [handleItem, handleMitm, pre, stAfter, afterReq, rqErr, rqSkip, rsErr, countP, Item.rq, Item.rs, Item.hij,
            isRead, isReqmod, isResmod, isUpstream, isWrite, isWarnReq, isWarnRes, isWarnRt, isHijacked, *] <;> $tac)
      | connectBlind ok rq rs =>
        cases rq <;> cases rs <;> cases ok <;>
          (simp [handleItem, handleBlind, pre, stAfter, afterReq, rqErr, rqSkip, rsErr, countP, Item.rq, Item.rs, Item.hij,
            isRead, isReqmod, isResmod, isUpstream, isWrite, isWarnReq, isWarnRes, isWarnRt, isHijacked, *] <;> $tac)
      | connectMitmFail rq rs =>
        cases rq <;> cases rs <;>
          (simp [handleItem, handleMitmFail, pre, stAfter, afterReq, rqErr, rqSkip, rsErr, countP, Item.rq, Item.rs, Item.hij,
            isRead, isReqmod, isResmod, isUpstream, isWrite, isWarnReq, isWarnRes, isWarnRt, isHijacked, *] <;> $tac))

macro "item_cases " it:ident : tactic => `(tactic| item_cases $it then skip)

section locals
variable (sd : Bool) (s : St) (i c : Nat) (it : Item) (k : Nat)

theorem foreign_read (hk : k ≠ i) : countP (isRead k) (handleItem sd s i c it).1 = 0 := by
  have hik : (i == k) = false := by simp; omega
  item_cases it
theorem foreign_reqmod (hk : k ≠ i) : countP (isReqmod k) (handleItem sd s i c it).1 = 0 := by
  have hik : (i == k) = false := by simp; omega
  item_cases it
theorem foreign_resmod (hk : k ≠ i) : countP (isResmod k) (handleItem sd s i c it).1 = 0 := by
  have hik : (i == k) = false := by simp; omega
  item_cases it
theorem foreign_upstream (hk : k ≠ i) : countP (isUpstream k) (handleItem sd s i c it).1 = 0 := by
  have hik : (i == k) = false := by simp; omega
  item_cases it
theorem foreign_write (hk : k ≠ i) : countP (isWrite k) (handleItem sd s i c it).1 = 0 := by
  have hik : (i == k) = false := by simp; omega
  item_cases it
theorem foreign_warnReq (hk : k ≠ i) : countP (isWarnReq k) (handleItem sd s i c it).1 = 0 := by
  have hik : (i == k) = false := by simp; omega
  item_cases it
theorem foreign_warnRes (hk : k ≠ i) : countP (isWarnRes k) (handleItem sd s i c it).1 = 0 := by
  have hik : (i == k) = false := by simp; omega
  item_cases it
theorem foreign_warnRt (hk : k ≠ i) : countP (isWarnRt k) (handleItem sd s i c it).1 = 0 := by
  have hik : (i == k) = false := by simp; omega
  item_cases it
theorem foreign_hijacked (hk : k ≠ i) : countP (isHijacked k) (handleItem sd s i c it).1 = 0 := by
  have hik : (i == k) = false := by simp; omega
  item_cases it

theorem own_read : countP (isRead i) (handleItem sd s i c it).1 = 1 := by
  item_cases it
theorem own_reqmod : countP (isReqmod i) (handleItem sd s i c it).1 = 1 := by
  item_cases it
theorem own_resmod : countP (isResmod i) (handleItem sd s i c it).1 = if it.rq = .hijack then 0 else 1 := by
  item_cases it
theorem own_write : countP (isWrite i) (handleItem sd s i c it).1 = if it.hij then 0 else 1 := by
  item_cases it
theorem own_hijacked : countP (isHijacked i) (handleItem sd s i c it).1 = if it.hij then 1 else 0 := by
  item_cases it
theorem own_warnReq : countP (isWarnReq i) (handleItem sd s i c it).1 = if rqErr it.rq then 1 else 0 := by
  item_cases it
theorem own_warnRes : countP (isWarnRes i) (handleItem sd s i c it).1 =
    if it.rq ≠ .hijack ∧ rsErr it.rs = true then 1 else 0 := by
  item_cases it
end locals

theorem local_read : Local isRead := ⟨fun _ _ => rfl, fun _ => rfl, fun k sd s i c it h => foreign_read sd s i c it k h⟩
theorem local_reqmod : Local isReqmod := ⟨fun _ _ => rfl, fun _ => rfl, fun k sd s i c it h => foreign_reqmod sd s i c it k h⟩
theorem local_resmod : Local isResmod := ⟨fun _ _ => rfl, fun _ => rfl, fun k sd s i c it h => foreign_resmod sd s i c it k h⟩
theorem local_upstream : Local isUpstream := ⟨fun _ _ => rfl, fun _ => rfl, fun k sd s i c it h => foreign_upstream sd s i c it k h⟩
theorem local_write : Local isWrite := ⟨fun _ _ => rfl, fun _ => rfl, fun k sd s i c it h => foreign_write sd s i c it k h⟩
theorem local_warnReq : Local isWarnReq := ⟨fun _ _ => rfl, fun _ => rfl, fun k sd s i c it h => foreign_warnReq sd s i c it k h⟩
theorem local_warnRes : Local isWarnRes := ⟨fun _ _ => rfl, fun _ => rfl, fun k sd s i c it h => foreign_warnRes sd s i c it k h⟩
theorem local_warnRt : Local isWarnRt := ⟨fun _ _ => rfl, fun _ => rfl, fun k sd s i c it h => foreign_warnRt sd s i c it k h⟩
theorem local_hijacked : Local isHijacked := ⟨fun _ _ => rfl, fun _ => rfl, fun k sd s i c it h => foreign_hijacked sd s i c it k h⟩

end Martian.Proxy

namespace Martian.Proxy

/-! ### Lifting "every event satisfies P" and membership -/

theorem forall_run (P : Ev → Prop) (sd : Bool) (base : Nat)
    (hitem : ∀ s i it, ∀ e ∈ (handleItem sd s i (base + i) it).1, P e)
    (hun : ∀ c, P (.unlink c)) (hcl : P .closeConn)
    (s : St) (i : Nat) (opn : List Nat) (items : List Item) :
    ∀ e ∈ run sd base s i opn items, P e := by
  have tail : ∀ opn : List Nat, ∀ e ∈ opn.map Ev.unlink ++ [Ev.closeConn], P e := by
    intro opn e he
    rcases List.mem_append.mp he with h | h
    · obtain ⟨c, _, rfl⟩ := List.mem_map.mp h; exact hun c
    · simp at h; subst h; exact hcl
  induction items generalizing s i opn with
  | nil => simpa [run] using tail opn
  | cons it rest ih =>
    intro e he
    simp only [run] at he
    cases hn : (handleItem sd s i (base + i) it).2 with
    | again s' =>
      simp only [hn] at he
      rcases List.mem_append.mp he with h | h
      · exact hitem s i it e h
      · exact ih _ _ _ e h
    | close =>
      simp only [hn, List.append_assoc] at he
      rcases List.mem_append.mp he with h | h
      · exact hitem s i it e h
      · exact tail opn e h
    | hijack =>
      simp only [hn, List.append_assoc] at he
      rcases List.mem_append.mp he with h | h
      · exact hitem s i it e h
      · exact tail opn e h

theorem mem_run_of_at? (sd : Bool) (base : Nat) (s : St) (i : Nat) (opn : List Nat) (items : List Item)
    (k : Nat) (s' : St) (it : Item) (h : at? sd base s i items k = some (s', it)) :
    ∀ e ∈ (handleItem sd s' k (base + k) it).1, e ∈ run sd base s i opn items := by
  induction items generalizing s i opn with
  | nil => simp [at?] at h
  | cons x rest ih =>
    intro e he
    simp only [at?] at h
    simp only [run]
    by_cases hk : k = i
    · subst hk
      simp only [if_true, Option.some.injEq, Prod.mk.injEq] at h
      obtain ⟨rfl, rfl⟩ := h
      cases hn : (handleItem sd s k (base + k) x).2 <;> simp [he]
    · simp only [hk, if_false] at h
      cases hn : (handleItem sd s i (base + i) x).2 with
      | again s2 =>
        simp only [hn] at h
        have := ih _ _ (nextOpen (base + i) opn x) h e he
        simp [this]
      | close => simp [hn] at h
      | hijack => simp [hn] at h

/-! ### Context ids -/

def links (evs : List Ev) : List Nat := evs.filterMap fun | .link c => some c | _ => none
def unlinks (evs : List Ev) : List Nat := evs.filterMap fun | .unlink c => some c | _ => none

theorem links_append (a b : List Ev) : links (a ++ b) = links a ++ links b := by simp [links]
theorem unlinks_append (a b : List Ev) : unlinks (a ++ b) = unlinks a ++ unlinks b := by simp [unlinks]

theorem links_item (sd : Bool) (s : St) (i c : Nat) (it : Item) : links (handleItem sd s i c it).1 = [c] := by
  simp only [links]; item_cases it

theorem links_tail (opn : List Nat) : links (opn.map Ev.unlink ++ [Ev.closeConn]) = [] := by
  induction opn with
  | nil => simp [links]
  | cons c r ih => simpa [links] using ih

theorem unlinks_tail (opn : List Nat) : unlinks (opn.map Ev.unlink ++ [Ev.closeConn]) = opn := by
  induction opn with
  | nil => simp [unlinks]
  | cons c r ih => simp only [unlinks, List.map_cons, List.cons_append, List.filterMap_cons] at *; rw [ih]

theorem links_run_tail (a : List Ev) (opn : List Nat) :
    links (a ++ opn.map Ev.unlink ++ [Ev.closeConn]) = links a := by
  rw [List.append_assoc, links_append, links_tail, List.append_nil]

theorem unlinks_run_tail (a : List Ev) (opn : List Nat) :
    unlinks (a ++ opn.map Ev.unlink ++ [Ev.closeConn]) = unlinks a ++ opn := by
  rw [List.append_assoc, unlinks_append, unlinks_tail]

theorem links_run_tail' (a : List Ev) (opn : List Nat) :
    links (a ++ (opn.map Ev.unlink ++ [Ev.closeConn])) = links a := by
  rw [links_append, links_tail, List.append_nil]

theorem unlinks_run_tail' (a : List Ev) (opn : List Nat) :
    unlinks (a ++ (opn.map Ev.unlink ++ [Ev.closeConn])) = unlinks a ++ opn := by
  rw [unlinks_append, unlinks_tail]

theorem links_ge (sd : Bool) (base : Nat) (s : St) (i : Nat) (opn : List Nat) (items : List Item) :
    ∀ c ∈ links (run sd base s i opn items), base + i ≤ c := by
  induction items generalizing s i opn with
  | nil => simp [run, links_tail]
  | cons it rest ih =>
    intro c hc
    simp only [run] at hc
    cases hn : (handleItem sd s i (base + i) it).2 with
    | again s' =>
      simp only [hn, links_append, links_item] at hc
      rcases List.mem_append.mp hc with h | h
      · simp at h; omega
      · have := ih _ _ _ c h; omega
    | close =>
      simp only [hn, links_run_tail, links_item] at hc
      have : c = base + i := by simpa using hc
      omega
    | hijack =>
      simp only [hn, links_run_tail, links_item] at hc
      have : c = base + i := by simpa using hc
      omega

theorem links_nodup (sd : Bool) (base : Nat) (s : St) (i : Nat) (opn : List Nat) (items : List Item) :
    (links (run sd base s i opn items)).Nodup := by
  induction items generalizing s i opn with
  | nil => simp [run, links_tail]
  | cons it rest ih =>
    simp only [run]
    cases hn : (handleItem sd s i (base + i) it).2 with
    | again s' =>
      simp only [hn, links_append, links_item]
      refine List.nodup_cons.mpr ⟨?_, by simpa using ih _ _ _⟩
      intro hm
      have := links_ge sd base s' (i + 1) _ rest _ (by simpa using hm)
      omega
    | close => simp [hn, links_run_tail', links_item]
    | hijack => simp [hn, links_run_tail', links_item]

/-- Is this the one kind of item whose context stays linked when `handle` comes back to the loop? -/
def keepsLinked (sd : Bool) (s : St) (i c : Nat) (it : Item) : Bool :=
  match it, (handleItem sd s i c it).2 with
  | .connectMitm _ _ _, .again _ => true
  | _, _ => false

theorem unlinks_item (sd : Bool) (s : St) (i c : Nat) (it : Item) :
    unlinks (handleItem sd s i c it).1 = if keepsLinked sd s i c it then [] else [c] := by
  simp only [unlinks, keepsLinked]; item_cases it

theorem keepsLinked_again (sd : Bool) (s : St) (i c : Nat) (it : Item) (h : keepsLinked sd s i c it = true) :
    ∃ s', (handleItem sd s i c it).2 = .again s' ∧ ∃ t rq rs, it = .connectMitm t rq rs := by
  unfold keepsLinked at h
  split at h
  · rename_i t rq rs s' heq; exact ⟨s', heq, t, rq, rs, rfl⟩
  · simp at h

theorem not_again_not_keeps (sd : Bool) (s : St) (i c : Nat) (it : Item)
    (h : ∀ s', (handleItem sd s i c it).2 ≠ .again s') : keepsLinked sd s i c it = false := by
  cases hk : keepsLinked sd s i c it with
  | false => rfl
  | true => obtain ⟨s', hs, _⟩ := keepsLinked_again sd s i c it hk; exact absurd hs (h s')

/-- Every context linked during a connection is unlinked by the time the connection is closed:
as multisets, unlinks = links + the contexts that were still pending at the start. -/
theorem unlinks_count (sd : Bool) (base : Nat) (s : St) (i : Nat) (opn : List Nat) (items : List Item) (c : Nat) :
    (unlinks (run sd base s i opn items)).count c = (links (run sd base s i opn items)).count c + opn.count c := by
  induction items generalizing s i opn with
  | nil => simp [run, links_tail, unlinks_tail]
  | cons it rest ih =>
    simp only [run]
    cases hn : (handleItem sd s i (base + i) it).2 with
    | again s' =>
      simp only [hn, links_append, unlinks_append, links_item, unlinks_item, List.count_append]
      rw [ih]
      cases hk : keepsLinked sd s i (base + i) it with
      | true =>
        obtain ⟨_, _, t, rq, rs, rfl⟩ := keepsLinked_again sd s i (base + i) _ hk
        simp [nextOpen, List.count_cons]; omega
      | false =>
        have : nextOpen (base + i) opn it = opn := by
          cases it with
          | connectMitm t rq rs => simp [keepsLinked, hn] at hk
          | x _ _ _ _ => rfl
          | connectBlind _ _ _ => rfl
          | connectMitmFail _ _ => rfl
        rw [this]; simp; omega
    | close =>
      have hk := not_again_not_keeps sd s i (base + i) it (by intro s' h; rw [hn] at h; cases h)
      simp [hn, links_run_tail', unlinks_run_tail', links_item, unlinks_item, hk, List.count_append]
      simp [List.count_cons]; omega
    | hijack =>
      have hk := not_again_not_keeps sd s i (base + i) it (by intro s' h; rw [hn] at h; cases h)
      simp [hn, links_run_tail', unlinks_run_tail', links_item, unlinks_item, hk, List.count_append]
      simp [List.count_cons]; omega

end Martian.Proxy
