import Martian.Model.ConfigCond
/-!
Lemmas about the concrete matchers of C12 (`Model/ConfigCond.lean`): `MatchHost`, `ParseQuery`.
Core Lean only.
-/
namespace Martian.Config
open Martian Martian.Go

/-! ### MatchHost -/

theorem hostLoop_nostar : ∀ (mr hr : Bytes), star ∉ mr → hr ≠ [] → (hostLoop hr mr = true ↔ hr = mr) := by
  intro mr
  induction mr with
  | nil => intro hr _ hne; simp [hostLoop, hne]
  | cons m mr ih =>
    intro hr hs hne
    have hm : (m == star) = false := by
      have : m ≠ star := fun h => hs (by simp [h])
      simpa using this
    have hs' : star ∉ mr := fun h => hs (List.mem_cons_of_mem _ h)
    cases hr with
    | nil => exact absurd rfl hne
    | cons h hr' =>
      simp only [hostLoop, hm, Bool.false_eq_true, if_false]
      by_cases hhm : h = m
      · subst hhm
        cases hr' with
        | nil => cases mr <;> simp
        | cons a as =>
          have := ih (a :: as) hs' (by simp)
          simp [this]
      · simp [hhm]

theorem skipLabel_nodot : ∀ r : Bytes, r ≠ [] → dotB ∉ r → (skipLabel r).length = 1 := by
  intro r
  induction r with
  | nil => intro h; exact absurd rfl h
  | cons c r ih =>
    intro _ hd
    cases r with
    | nil => simp [skipLabel]
    | cons d r' =>
      have hc : (c == dotB) = false := by
        have : c ≠ dotB := fun h => hd (by simp [h])
        simpa using this
      simp only [skipLabel, hc, Bool.false_eq_true, if_false]
      exact ih (by simp) (fun h => hd (List.mem_cons_of_mem _ h))

theorem hostLoop_common : ∀ (x hr mr : Bytes), star ∉ x → hr ≠ [] → hostLoop (x ++ hr) (x ++ mr) = hostLoop hr mr := by
  intro x
  induction x with
  | nil => intros; rfl
  | cons c x ih =>
    intro hr mr hs hne
    have hc : (c == star) = false := by
      have : c ≠ star := fun h => hs (by simp [h])
      simpa using this
    have hne' : (x ++ hr).isEmpty = false := by cases x <;> cases hr <;> simp_all
    simp only [List.cons_append, hostLoop, hc, Bool.false_eq_true, if_false, bne_self_eq_false, hne']
    exact ih hr mr (fun h => hs (List.mem_cons_of_mem _ h)) hne

/-! ### ParseQuery -/

theorem queryUnescape_plain : ∀ s : Bytes, (∀ c ∈ s, c ≠ 37 ∧ c ≠ 43) → queryUnescape s = some s := by
  intro s
  induction s with
  | nil => intro _; rfl
  | cons c r ih =>
    intro h
    have hc := h c (by simp)
    have h1 : (c == 37) = false := by simpa using hc.1
    have h2 : (c == 43) = false := by simpa using hc.2
    have ihr := ih (fun d hd => h d (List.mem_cons_of_mem _ hd))
    unfold queryUnescape
    simp [h1, h2, ihr]

theorem splitAux_nosep (sep : UInt8) : ∀ (s cur : Bytes), sep ∉ s → splitAux sep s cur = [cur.reverse ++ s] := by
  intro s
  induction s with
  | nil => intro cur _; simp [splitAux]
  | cons c r ih =>
    intro cur h
    have hc : (c == sep) = false := by
      have : c ≠ sep := fun e => h (by simp [e])
      simpa using this
    simp [splitAux, hc, ih (c :: cur) (fun e => h (List.mem_cons_of_mem _ e))]

theorem split_nosep (sep : UInt8) (s : Bytes) (h : sep ∉ s) : split s sep = [s] := by
  simp [split, splitAux_nosep sep s [] h]

theorem splitAux_append (sep : UInt8) : ∀ (a b cur : Bytes),
    splitAux sep (a ++ sep :: b) cur = splitAux sep a cur ++ splitAux sep b [] := by
  intro a
  induction a with
  | nil => intro b cur; simp [splitAux]
  | cons c r ih =>
    intro b cur
    by_cases hc : c = sep
    · subst hc; simp [splitAux, ih]
    · have : (c == sep) = false := by simpa using hc
      simp [splitAux, this, ih]

theorem split_append (sep : UInt8) (a b : Bytes) : split (a ++ sep :: b) sep = split a sep ++ split b sep := by
  simp [split, splitAux_append]

theorem parseQuery_append (a b : Bytes) : parseQuery (a ++ 38 :: b) = parseQuery a ++ parseQuery b := by
  simp [parseQuery, split_append, List.filterMap_append]

theorem parseQuery_nil : parseQuery [] = [] := by decide

theorem takeWhile_ne_append (sep : UInt8) : ∀ (k v : Bytes), sep ∉ k → (k ++ sep :: v).takeWhile (· != sep) = k := by
  intro k
  induction k with
  | nil => intro v _; simp
  | cons c r ih =>
    intro v h
    have hc : c ≠ sep := fun e => h (by simp [e])
    simp [hc, ih v (fun e => h (List.mem_cons_of_mem _ e))]

theorem dropWhile_ne_append (sep : UInt8) : ∀ (k v : Bytes), sep ∉ k → (k ++ sep :: v).dropWhile (· != sep) = sep :: v := by
  intro k
  induction k with
  | nil => intro v _; simp
  | cons c r ih =>
    intro v h
    have hc : c ≠ sep := fun e => h (by simp [e])
    simp [hc, ih v (fun e => h (List.mem_cons_of_mem _ e))]

theorem cut_append (sep : UInt8) (k v : Bytes) (h : sep ∉ k) : cut (k ++ sep :: v) sep = (k, v) := by
  simp [cut, takeWhile_ne_append sep k v h, dropWhile_ne_append sep k v h]

/-- bytes that mean themselves in a query string -/
def plainQ (s : Bytes) : Prop := ∀ c ∈ s, c ≠ 37 ∧ c ≠ 43 ∧ c ≠ 38 ∧ c ≠ 59 ∧ c ≠ 61

theorem queryPiece_plain (k v : Bytes) (hk : plainQ k) (hv : plainQ v) (hne : k ≠ []) :
    queryPiece (k ++ 61 :: v) = some (k, v) := by
  have h59 : (k ++ 61 :: v).contains 59 = false := by
    have : (59 : UInt8) ∉ k ++ 61 :: v := by
      intro h
      rcases List.mem_append.mp h with h | h
      · exact (hk 59 h).2.2.2.1 rfl
      · rcases List.mem_cons.mp h with h | h
        · exact absurd h (by decide)
        · exact (hv 59 h).2.2.2.1 rfl
    simpa using this
  have hemp : (k ++ 61 :: v).isEmpty = false := by cases k <;> simp
  have h61 : (61 : UInt8) ∉ k := fun h => (hk 61 h).2.2.2.2 rfl
  simp only [queryPiece, h59, hemp, Bool.false_eq_true, if_false, cut_append 61 k v h61]
  rw [queryUnescape_plain k (fun c hc => ⟨(hk c hc).1, (hk c hc).2.1⟩),
      queryUnescape_plain v (fun c hc => ⟨(hv c hc).1, (hv c hc).2.1⟩)]

theorem parseQuery_piece_plain (k v : Bytes) (hk : plainQ k) (hv : plainQ v) (hne : k ≠ []) :
    parseQuery (k ++ 61 :: v) = [(k, v)] := by
  have h38 : (38 : UInt8) ∉ k ++ 61 :: v := by
    intro h
    rcases List.mem_append.mp h with h | h
    · exact (hk 38 h).2.2.1 rfl
    · rcases List.mem_cons.mp h with h | h
      · exact absurd h (by decide)
      · exact (hv 38 h).2.2.1 rfl
  simp [parseQuery, split_nosep 38 _ h38, queryPiece_plain k v hk hv hne]

/-- `k1=v1&k2=v2&…` -/
def renderQuery : List (Bytes × Bytes) → Bytes
  | [] => []
  | [p] => p.1 ++ 61 :: p.2
  | p :: q :: r => (p.1 ++ 61 :: p.2) ++ 38 :: renderQuery (q :: r)

theorem parseQuery_render : ∀ ps : List (Bytes × Bytes), (∀ p ∈ ps, plainQ p.1 ∧ plainQ p.2 ∧ p.1 ≠ []) →
    parseQuery (renderQuery ps) = ps := by
  intro ps
  induction ps with
  | nil => intro _; exact parseQuery_nil
  | cons p r ih =>
    intro h
    have hp := h p (by simp)
    cases r with
    | nil => simpa [renderQuery] using parseQuery_piece_plain p.1 p.2 hp.1 hp.2.1 hp.2.2
    | cons q r' =>
      simp only [renderQuery]
      rw [parseQuery_append, parseQuery_piece_plain p.1 p.2 hp.1 hp.2.1 hp.2.2,
          ih (fun x hx => h x (List.mem_cons_of_mem _ hx))]
      rfl

/-! ### `CanonicalHeaderKey` (byte tables by `decide` over the 256 bytes; the same facts C14 proves for its own model) -/

theorem byte_forall {p : UInt8 → Prop} (h : ∀ n : Fin 256, p (UInt8.ofNat n.val)) : ∀ c : UInt8, p c := by
  intro c
  have := h ⟨c.toNat, c.toNat_lt⟩
  simpa using this

set_option maxRecDepth 100000 in
theorem toUpperB_idem : ∀ c : UInt8, toUpperB (toUpperB c) = toUpperB c := by
  apply byte_forall; decide
set_option maxRecDepth 100000 in
theorem toLowerB_idem : ∀ c : UInt8, toLowerB (toLowerB c) = toLowerB c := by
  apply byte_forall; decide
set_option maxRecDepth 100000 in
theorem toUpperB_toLowerB : ∀ c : UInt8, toUpperB (toLowerB c) = toUpperB c := by
  apply byte_forall; decide
set_option maxRecDepth 100000 in
theorem toLowerB_toUpperB : ∀ c : UInt8, toLowerB (toUpperB c) = toLowerB c := by
  apply byte_forall; decide
set_option maxRecDepth 100000 in
theorem valid_toUpperB : ∀ c : UInt8, validHeaderFieldByte (toUpperB c) = validHeaderFieldByte c := by
  apply byte_forall; decide
set_option maxRecDepth 100000 in
theorem valid_toLowerB : ∀ c : UInt8, validHeaderFieldByte (toLowerB c) = validHeaderFieldByte c := by
  apply byte_forall; decide

theorem canonLoop_all_valid (s : Bytes) : ∀ up, (canonLoop up s).all validHeaderFieldByte = s.all validHeaderFieldByte := by
  induction s with
  | nil => intro up; simp [canonLoop]
  | cons c r ih =>
    intro up
    simp only [canonLoop, List.all_cons, ih]
    cases up <;> simp [valid_toUpperB, valid_toLowerB]

theorem canonLoop_idem (s : Bytes) : ∀ up, canonLoop up (canonLoop up s) = canonLoop up s := by
  induction s with
  | nil => intro up; simp [canonLoop]
  | cons c r ih =>
    intro up
    cases up <;> simp [canonLoop, toUpperB_idem, toLowerB_idem, ih]

theorem canonKey_idem (s : Bytes) : canonKey (canonKey s) = canonKey s := by
  unfold canonKey
  by_cases h : s.all validHeaderFieldByte = true
  · simp [h, canonLoop_all_valid, canonLoop_idem]
  · simp [h]

theorem canonLoop_toLower (s : Bytes) : ∀ up, canonLoop up (s.map toLowerB) = canonLoop up s := by
  induction s with
  | nil => intro up; simp [canonLoop]
  | cons c r ih =>
    intro up
    cases up <;> simp [canonLoop, toUpperB_toLowerB, toLowerB_idem, ih]

theorem canonLoop_toUpper (s : Bytes) : ∀ up, canonLoop up (s.map toUpperB) = canonLoop up s := by
  induction s with
  | nil => intro up; simp [canonLoop]
  | cons c r ih =>
    intro up
    cases up <;> simp [canonLoop, toUpperB_idem, toLowerB_toUpperB, ih]

theorem canonKey_toLower (s : Bytes) (hs : s.all validHeaderFieldByte = true) : canonKey (toLower s) = canonKey s := by
  have : (s.map toLowerB).all validHeaderFieldByte = true := by
    rw [List.all_map]
    rw [List.all_eq_true] at hs ⊢
    intro c hc
    simpa [valid_toLowerB] using hs c hc
  simp [canonKey, toLower, hs, this, canonLoop_toLower]

theorem canonKey_toUpper (s : Bytes) (hs : s.all validHeaderFieldByte = true) : canonKey (toUpper s) = canonKey s := by
  have : (s.map toUpperB).all validHeaderFieldByte = true := by
    rw [List.all_map]
    rw [List.all_eq_true] at hs ⊢
    intro c hc
    simpa [valid_toUpperB] using hs c hc
  simp [canonKey, toUpper, hs, this, canonLoop_toUpper]

end Martian.Config
