import Martian.Model.HarLog
/-!
Refinement of the pointer-level HAR log (`HarLog.Heap`) to the list specification (`HarLog.Spec`).

`Rep h ns` : the heap `h` represents the address list `ns` (arrival order): the ring reached from
`tail` is exactly `ns`, the map indexes exactly `ns` by ID, `len(entries) = |ns|`.
For every operation: `Rep` is preserved and the observation equals the specification's.
-/
namespace Martian.HarLog

theorem upd_same {β : Type} (f : Nat → β) (a : Nat) (v : β) : upd f a v a = v := by simp [upd]
theorem upd_other {β : Type} (f : Nat → β) (a : Nat) (v : β) (x : Nat) (h : x ≠ a) :
    upd f a v x = f x := by simp [upd, h]

def lastOr (a : Nat) (l : List Nat) : Nat := (l.getLast?).getD a
@[simp] theorem lastOr_nil (a : Nat) : lastOr a [] = a := rfl
@[simp] theorem lastOr_snoc (a : Nat) (l : List Nat) (c : Nat) : lastOr a (l ++ [c]) = c := by
  simp [lastOr]
theorem lastOr_cons (a b : Nat) (l : List Nat) : lastOr a (b :: l) = lastOr b l := by
  simp [lastOr, List.getLast?_cons]
theorem lastOr_mem (a : Nat) (l : List Nat) (h : l ≠ []) : lastOr a l ∈ l := by
  unfold lastOr
  cases hl : l.getLast? with
  | none => simp_all
  | some x => simpa using List.mem_of_getLast? hl
theorem lastOr_irrel (a b : Nat) (l : List Nat) (h : l ≠ []) : lastOr a l = lastOr b l := by
  cases l with
  | nil => exact absurd rfl h
  | cons c l => simp [lastOr_cons]

/-- `Link nx a k`: `nx a = k[0]`, `nx k[i] = k[i+1]` (nothing about the last element). -/
def Link (nx : Nat → Nat) : Nat → List Nat → Prop
  | _, [] => True
  | a, b :: k => nx a = b ∧ Link nx b k

theorem Link_append (nx : Nat → Nat) (a : Nat) (k1 k2 : List Nat) :
    Link nx a (k1 ++ k2) ↔ Link nx a k1 ∧ Link nx (lastOr a k1) k2 := by
  induction k1 generalizing a with
  | nil => simp [Link]
  | cons b k ih => simp only [List.cons_append, Link, ih b, and_assoc, lastOr_cons]

theorem Link_snoc (nx : Nat → Nat) (a : Nat) (k : List Nat) (c : Nat) :
    Link nx a (k ++ [c]) ↔ Link nx a k ∧ nx (lastOr a k) = c := by
  rw [Link_append]; simp [Link]

/-- `Link` only depends on `nx` at `a` and at all but the last element of `k`. -/
theorem Link_congr (nx nx' : Nat → Nat) (a : Nat) (k : List Nat)
    (h : ∀ x, (x = a ∨ x ∈ k) → x ≠ lastOr a k → nx' x = nx x) (hnd : (a :: k).Nodup) :
    Link nx a k → Link nx' a k := by
  induction k generalizing a with
  | nil => simp [Link]
  | cons b k ih =>
    intro ⟨h1, h2⟩
    have hnd' : (b :: k).Nodup := (List.nodup_cons.mp hnd).2
    have hab : a ∉ b :: k := (List.nodup_cons.mp hnd).1
    refine ⟨?_, ih b ?_ hnd' h2⟩
    · rw [h a (Or.inl rfl) ?_]; exact h1
      intro he
      rw [lastOr_cons] at he
      by_cases hk : k = []
      · subst hk; simp at he; simp [he] at hab
      · have := lastOr_mem b k hk; rw [← he] at this; exact hab (List.mem_cons_of_mem _ this)
    · intro x hx hne
      apply h x
      · rcases hx with rfl | hx
        · right; simp
        · right; exact List.mem_cons_of_mem _ hx
      · rw [lastOr_cons]; exact hne

/-- Simple congruence: `nx'` agrees with `nx` on `a` and on `k`. -/
theorem Link_congr' (nx nx' : Nat → Nat) (a : Nat) (k : List Nat)
    (h : ∀ x, (x = a ∨ x ∈ k) → nx' x = nx x) : Link nx a k → Link nx' a k := by
  induction k generalizing a with
  | nil => simp [Link]
  | cons b k ih =>
    intro ⟨h1, h2⟩
    refine ⟨by rw [h a (Or.inl rfl)]; exact h1, ih b ?_ h2⟩
    intro x hx
    apply h x
    rcases hx with rfl | hx
    · right; simp
    · right; exact List.mem_cons_of_mem _ hx

/-! ## The representation relation -/

structure Rep (h : Heap) (ns : List Nat) : Prop where
  nd : ns.Nodup
  apos : 0 < h.alloc
  pos : ∀ a ∈ ns, 0 < a ∧ a < h.alloc
  tl : h.tail = lastOr 0 ns
  link : Link h.nx h.tail ns
  idx : ∀ id a, h.entries.get id = some a ↔ (a ∈ ns ∧ h.ident a = id)
  cnt : h.entries.len = ns.length

def absOf (h : Heap) (ns : List Nat) : Log := ns.map (entOf h)

theorem Rep_init : Rep init [] := by
  constructor <;> simp [init, Link, GoMap.empty]

theorem absOf_congr (h h' : Heap) (ns : List Nat)
    (hf : ∀ a ∈ ns, h'.ident a = h.ident a ∧ h'.rq a = h.rq a ∧ h'.rs a = h.rs a) :
    absOf h' ns = absOf h ns := by
  unfold absOf
  apply List.map_congr_left
  intro a ha
  obtain ⟨h1, h2, h3⟩ := hf a ha
  simp [entOf, h1, h2, h3]

theorem Rep.tail_mem {h : Heap} {ns : List Nat} (r : Rep h ns) (hne : ns ≠ []) : h.tail ∈ ns := by
  rw [r.tl]; exact lastOr_mem 0 ns hne

theorem Rep.tail_zero_iff {h : Heap} {ns : List Nat} (r : Rep h ns) : h.tail = 0 ↔ ns = [] := by
  constructor
  · intro ht
    by_cases hne : ns = []
    · exact hne
    · have := (r.pos _ (r.tail_mem hne)).1; omega
  · intro hn; rw [r.tl, hn]; rfl

/-- IDs of the represented entries are pairwise different. -/
theorem Rep.ident_inj {h : Heap} {ns : List Nat} (r : Rep h ns) {a b : Nat}
    (ha : a ∈ ns) (hb : b ∈ ns) (he : h.ident a = h.ident b) : a = b := by
  have h1 := (r.idx (h.ident b) a).mpr ⟨ha, he⟩
  have h2 := (r.idx (h.ident b) b).mpr ⟨hb, rfl⟩
  rw [h1] at h2; exact Option.some.inj h2

theorem Rep.hasId {h : Heap} {ns : List Nat} (r : Rep h ns) (id : String) :
    Spec.hasId (absOf h ns) id = (h.entries.get id).isSome := by
  unfold Spec.hasId absOf
  cases hg : h.entries.get id with
  | some a =>
    have := (r.idx id a).mp hg
    simp only [Option.isSome_some, List.any_map, List.any_eq_true, Function.comp]
    exact ⟨a, this.1, by simp [entOf, this.2]⟩
  | none =>
    simp only [Option.isSome_none, List.any_map]
    rw [Bool.eq_false_iff]
    intro hc
    rw [List.any_eq_true] at hc
    obtain ⟨a, ha, he⟩ := hc
    have := (r.idx id a).mpr ⟨ha, by simpa [entOf] using he⟩
    rw [hg] at this; cases this

/-! ## RecordRequest -/

theorem recordRequest_dup (h : Heap) (ns : List Nat) (id : String) (t : Nat) (r : Rep h ns)
    (hd : (h.entries.get id).isSome = true) :
    (recordRequest h id t).2 = .dup ∧ Rep (recordRequest h id t).1 ns ∧
      absOf (recordRequest h id t).1 ns = absOf h ns := by
  have hne : ∀ a ∈ ns, a ≠ h.alloc := fun a ha => Nat.ne_of_lt (r.pos a ha).2
  simp only [recordRequest, hd, if_true, true_and]
  refine ⟨⟨r.nd, Nat.succ_pos _, ?_, r.tl, ?_, ?_, r.cnt⟩, ?_⟩
  · intro a ha; have := r.pos a ha; exact ⟨this.1, Nat.lt_succ_of_lt this.2⟩
  · show Link (upd h.nx h.alloc 0) h.tail ns
    by_cases hn : ns = []
    · subst hn; simp [Link]
    · apply Link_congr' h.nx _ _ _ _ r.link
      intro x hx
      apply upd_other
      rcases hx with rfl | hx
      · exact hne _ (r.tail_mem hn)
      · exact hne _ hx
  · intro id' a
    show h.entries.get id' = some a ↔ a ∈ ns ∧ upd h.ident h.alloc id a = id'
    rw [r.idx]
    constructor
    · intro ⟨h1, h2⟩; exact ⟨h1, by rw [upd_other _ _ _ _ (hne a h1)]; exact h2⟩
    · intro ⟨h1, h2⟩; exact ⟨h1, by rw [upd_other _ _ _ _ (hne a h1)] at h2; exact h2⟩
  · apply absOf_congr
    intro a ha
    exact ⟨upd_other _ _ _ _ (hne a ha), upd_other _ _ _ _ (hne a ha), upd_other _ _ _ _ (hne a ha)⟩

theorem recordRequest_fresh (h : Heap) (ns : List Nat) (id : String) (t : Nat) (r : Rep h ns)
    (hd : (h.entries.get id).isSome = false) :
    (recordRequest h id t).2 = .ok ∧ Rep (recordRequest h id t).1 (ns ++ [h.alloc]) ∧
      absOf (recordRequest h id t).1 (ns ++ [h.alloc]) = absOf h ns ++ [⟨id, t, none⟩] := by
  have hne : ∀ a ∈ ns, a ≠ h.alloc := fun a ha => Nat.ne_of_lt (r.pos a ha).2
  have hfresh : h.alloc ∉ ns := fun hm => hne _ hm rfl
  have hpos : 0 < h.alloc := r.apos
  have hget : h.entries.get id = none := by
    cases hg : h.entries.get id with
    | none => rfl
    | some a => rw [hg] at hd; cases hd
  have hident : ∀ a ∈ ns, upd h.ident h.alloc id a = h.ident a := fun a ha => upd_other _ _ _ _ (hne a ha)
  have habs : ∀ (h' : Heap), h'.ident = upd h.ident h.alloc id → h'.rq = upd h.rq h.alloc t →
      h'.rs = upd h.rs h.alloc none →
      absOf h' (ns ++ [h.alloc]) = absOf h ns ++ [⟨id, t, none⟩] := by
    intro h' e1 e2 e3
    unfold absOf
    rw [List.map_append]
    congr 1
    · apply List.map_congr_left
      intro a ha
      simp [entOf, e1, e2, e3, upd_other _ _ _ _ (hne a ha)]
    · simp [entOf, e1, e2, e3, upd_same]
  have hidx : ∀ id' a, (h.entries.insert id h.alloc).get id' = some a ↔
      (a ∈ ns ++ [h.alloc] ∧ upd h.ident h.alloc id a = id') := by
    intro id' a
    simp only [GoMap.insert, List.mem_append, List.mem_singleton]
    by_cases hi : id' = id
    · subst hi
      simp only [if_true]
      constructor
      · intro he; cases he; exact ⟨Or.inr rfl, upd_same _ _ _⟩
      · intro ⟨hm, he⟩
        rcases hm with hm | rfl
        · rw [hident a hm] at he
          have := (r.idx id' a).mpr ⟨hm, he⟩
          rw [hget] at this; cases this
        · rfl
    · simp only [hi, if_false]
      rw [r.idx]
      constructor
      · intro ⟨hm, he⟩; exact ⟨Or.inl hm, by rw [hident a hm]; exact he⟩
      · intro ⟨hm, he⟩
        rcases hm with hm | rfl
        · exact ⟨hm, by rw [hident a hm] at he; exact he⟩
        · rw [upd_same] at he; exact absurd he.symm hi
  have hcnt : (h.entries.insert id h.alloc).len = (ns ++ [h.alloc]).length := by
    simp [GoMap.insert, hget, r.cnt]
  have hnd : (ns ++ [h.alloc]).Nodup := by
    rw [List.nodup_append]
    refine ⟨r.nd, by simp, ?_⟩
    intro a ha b hb
    simp at hb; subst hb; exact hne a ha
  have hposs : ∀ a ∈ ns ++ [h.alloc], 0 < a ∧ a < h.alloc + 1 := by
    intro a ha
    simp at ha
    rcases ha with ha | rfl
    · have := r.pos a ha; omega
    · omega
  simp only [recordRequest, hd, Bool.false_eq_true, if_false, true_and]
  by_cases hn : ns = []
  · have ht : h.tail = 0 := r.tail_zero_iff.mpr hn
    simp only [ht, if_true]
    refine ⟨⟨hnd, Nat.succ_pos _, hposs, by simp, ?_, hidx, hcnt⟩, habs _ rfl rfl rfl⟩
    subst hn
    simp [Link, upd_same]
  · have htm := r.tail_mem hn
    have ht : h.tail ≠ 0 := fun h0 => hn (r.tail_zero_iff.mp h0)
    have hta : h.tail ≠ h.alloc := hne _ htm
    simp only [ht, if_false]
    refine ⟨⟨hnd, Nat.succ_pos _, hposs, by simp, ?_, hidx, hcnt⟩, habs _ rfl rfl rfl⟩
    show Link (upd (upd (upd h.nx h.alloc 0) h.alloc (upd h.nx h.alloc 0 h.tail)) h.tail h.alloc) h.alloc (ns ++ [h.alloc])
    rw [Link_snoc]
    have hl : lastOr h.alloc ns = h.tail := by rw [r.tl]; exact lastOr_irrel _ _ _ hn
    refine ⟨?_, by rw [hl, upd_same]⟩
    have hlink := r.link
    cases ns with
    | nil => exact absurd rfl hn
    | cons b k =>
      obtain ⟨h1, h2⟩ := hlink
      refine ⟨?_, ?_⟩
      · rw [upd_other _ _ _ _ (Ne.symm hta), upd_same, upd_other _ _ _ _ hta]; exact h1
      · have hlb : lastOr b k = h.tail := by rw [← lastOr_cons h.alloc]; exact hl
        apply Link_congr h.nx _ b k _ r.nd h2
        intro x hx hxl
        have hxm : x ∈ b :: k := by
          rcases hx with rfl | hx
          · simp
          · exact List.mem_cons_of_mem _ hx
        rw [hlb] at hxl
        rw [upd_other _ _ _ _ hxl, upd_other _ _ _ _ (hne x hxm), upd_other _ _ _ _ (hne x hxm)]

/-! ## RecordResponse -/

theorem recordResponse_sim (h : Heap) (ns : List Nat) (id : String) (t : Nat) (r : Rep h ns) :
    Rep (recordResponse h id t) ns ∧
      absOf (recordResponse h id t) ns = Spec.res (absOf h ns) id t := by
  unfold recordResponse
  cases hg : h.entries.get id with
  | none =>
    refine ⟨r, ?_⟩
    unfold Spec.res absOf
    rw [List.map_map]
    apply List.map_congr_left
    intro b hb
    have : h.ident b ≠ id := by
      intro he
      have := (r.idx id b).mpr ⟨hb, he⟩
      rw [hg] at this; cases this
    simp [entOf, this]
  | some a =>
    obtain ⟨ha, hia⟩ := (r.idx id a).mp hg
    refine ⟨⟨r.nd, r.apos, r.pos, r.tl, r.link, r.idx, r.cnt⟩, ?_⟩
    unfold Spec.res absOf
    rw [List.map_map]
    apply List.map_congr_left
    intro b hb
    by_cases hba : b = a
    · subst hba; simp [entOf, hia, upd_same]
    · have : h.ident b ≠ id := by
        intro he
        exact hba (r.ident_inj hb ha (he.trans hia.symm))
      simp [entOf, this, upd_other _ _ _ _ hba]

/-! ## Export -/

theorem walk_spec (nx : Nat → Nat) (tail : Nat) : ∀ (q : List Nat) (c : Nat) (es : List Nat) (f : Nat),
    Link nx c (q ++ [tail]) → tail ∉ q → (∀ x ∈ q, x ≠ 0) → q.length < f →
    walk nx tail f c es = some (es ++ q ++ [tail]) := by
  intro q
  induction q with
  | nil =>
    intro c es f hl _ _ hf
    cases f with
    | zero => omega
    | succ f => simp [Link] at hl; simp [walk, hl]
  | cons b q ih =>
    intro c es f hl ht hz hf
    cases f with
    | zero => omega
    | succ f =>
      obtain ⟨h1, h2⟩ := hl
      have hbt : b ≠ tail := fun he => ht (by simp [he])
      have hb0 : b ≠ 0 := hz b (by simp)
      simp only [walk, h1, hbt, hb0, if_false]
      rw [ih b (es ++ [b]) f h2 (fun hm => ht (List.mem_cons_of_mem _ hm))
        (fun x hx => hz x (List.mem_cons_of_mem _ hx)) (by simp at hf; omega)]
      simp

theorem snoc_of_ne_nil {ns : List Nat} (hne : ns ≠ []) : ∃ q, ns = q ++ [lastOr 0 ns] := by
  rcases List.eq_nil_or_concat ns with rfl | ⟨q, d, hp⟩
  · exact absurd rfl hne
  · rw [List.concat_eq_append] at hp; subst hp
    exact ⟨q, by simp⟩

theorem exportLog_sim (h : Heap) (ns : List Nat) (r : Rep h ns) :
    exportLog h = .log (absOf h ns) := by
  unfold exportLog
  by_cases hn : ns = []
  · simp [r.tail_zero_iff.mpr hn, hn, absOf]
  · have ht : h.tail ≠ 0 := fun h0 => hn (r.tail_zero_iff.mp h0)
    obtain ⟨q, hq⟩ := snoc_of_ne_nil hn
    rw [← r.tl] at hq
    have hnd := r.nd
    rw [hq, List.nodup_append] at hnd
    have htq : h.tail ∉ q := fun hm => hnd.2.2 _ hm _ (by simp) rfl
    have hw := walk_spec h.nx h.tail q h.tail [] h.entries.len (by rw [← hq]; exact r.link) htq
      (fun x hx => Nat.ne_of_gt (r.pos x (by rw [hq]; simp [hx])).1) (by rw [r.cnt, hq]; simp)
    simp only [ht, if_false, hw, List.nil_append, ← hq, absOf]

/-! ## Reset -/

theorem reset_sim (h : Heap) (ns : List Nat) (r : Rep h ns) : Rep (reset h) [] := by
  constructor <;> simp [reset, Link, GoMap.empty, r.apos]

/-! ## ExportAndReset: the loop invariant -/

def dn (h0 : Heap) (a : Nat) : Bool := (h0.rs a).isSome
def pend (h0 : Heap) (p : List Nat) : List Nat := p.filter (fun c => !dn h0 c)
def fin (h0 : Heap) (p : List Nat) : List Nat := p.filter (fun c => dn h0 c)

theorem pend_snoc (h0 : Heap) (p : List Nat) (c : Nat) :
    pend h0 (p ++ [c]) = if dn h0 c then pend h0 p else pend h0 p ++ [c] := by
  by_cases h : dn h0 c <;> simp [pend, List.filter_append, h]
theorem fin_snoc (h0 : Heap) (p : List Nat) (c : Nat) :
    fin h0 (p ++ [c]) = if dn h0 c then fin h0 p ++ [c] else fin h0 p := by
  by_cases h : dn h0 c <;> simp [fin, List.filter_append, h]
theorem mem_pend {h0 : Heap} {p : List Nat} {x : Nat} : x ∈ pend h0 p → x ∈ p := by
  simp only [pend, List.mem_filter]; exact fun h => h.1
theorem mem_fin {h0 : Heap} {p : List Nat} {x : Nat} : x ∈ fin h0 p → x ∈ p := by
  simp only [fin, List.mem_filter]; exact fun h => h.1
theorem pend_nodup {h0 : Heap} {p : List Nat} (h : p.Nodup) : (pend h0 p).Nodup :=
  List.Nodup.sublist List.filter_sublist h
theorem fin_pend_length (h0 : Heap) (p : List Nat) :
    (fin h0 p).length + (pend h0 p).length = p.length := by
  induction p with
  | nil => rfl
  | cons a p ih =>
    by_cases h : dn h0 a <;> simp [fin, pend, h] at ih ⊢ <;> omega

/-- Invariant of the `ExportAndReset` loop after the prefix `p` of the ring has been visited. -/
structure XInv (h0 : Heap) (p : List Nat) (s : XS) : Prop where
  curr : s.curr = lastOr h0.tail p
  prev : s.prev = lastOr h0.tail (pend h0 p)
  first : s.first = (pend h0 p).head?.getD 0
  es : s.es = fin h0 p
  link : Link s.h.nx h0.tail (pend h0 p)
  frame : ∀ x, x ≠ h0.tail → x ∉ pend h0 p → s.h.nx x = h0.nx x
  last : h0.tail ∉ p → s.h.nx s.prev = h0.nx s.prev
  hrs : s.h.rs = h0.rs
  hid : s.h.ident = h0.ident
  hrq : s.h.rq = h0.rq
  hal : s.h.alloc = h0.alloc
  get : ∀ id, s.h.entries.get id =
    if (fin h0 p).any (fun c => h0.ident c == id) then none else h0.entries.get id
  len : s.h.entries.len = h0.entries.len - (fin h0 p).length

theorem XInv_init (h0 : Heap) : XInv h0 [] ⟨h0, h0.tail, h0.tail, 0, []⟩ := by
  constructor <;> simp [pend, fin, Link]

/-- The read `curr.next` sees the original pointer although `tail.next` may have been overwritten. -/
theorem XInv_read (h0 : Heap) (p : List Nat) (c : Nat) (s : XS)
    (hinv : XInv h0 p s) (hnext : h0.nx (lastOr h0.tail p) = c)
    (htp : h0.tail ∉ p) (hnd : p.Nodup) : s.h.nx s.curr = c := by
  rw [← hnext, hinv.curr]
  rcases List.eq_nil_or_concat p with rfl | ⟨p', d, hp⟩
  · have := hinv.last htp
    rw [hinv.prev] at this
    simpa [pend] using this
  · rw [List.concat_eq_append] at hp; subst hp
    simp only [lastOr_snoc]
    have hd_ne : d ≠ h0.tail := by
      intro h; apply htp; simp [h]
    by_cases hd : dn h0 d
    · apply hinv.frame d hd_ne
      rw [pend_snoc]; simp only [hd, if_true]
      intro hm
      have hdp : d ∈ p' := mem_pend hm
      have := List.nodup_append.mp hnd
      exact this.2.2 d hdp d (by simp) rfl
    · have hl := hinv.last htp
      rw [hinv.prev, pend_snoc] at hl
      simpa [hd] using hl

theorem xbody_curr (s : XS) : (xbody s).curr = s.h.nx s.curr := by
  by_cases h : (s.h.rs (s.h.nx s.curr)).isSome <;> simp [xbody, h]

theorem XInv_step (h0 : Heap) (ns p : List Nat) (c : Nat) (s : XS) (r : Rep h0 ns)
    (hinv : XInv h0 p s) (hnext : h0.nx (lastOr h0.tail p) = c)
    (hp : ∀ x ∈ p, x ∈ ns) (hc : c ∈ ns)
    (htp : h0.tail ∉ p) (hcp : c ∉ p) (hnd : p.Nodup) :
    XInv h0 (p ++ [c]) (xbody s) := by
  have hread := XInv_read h0 p c s hinv hnext htp hnd
  have hck : c ∉ pend h0 p := fun h => hcp (mem_pend h)
  have htk : h0.tail ∉ pend h0 p := fun h => htp (mem_pend h)
  have hprev_ne : ∀ x, x ≠ h0.tail → x ∉ pend h0 p → x ≠ s.prev := by
    intro x hx hxp he
    rw [hinv.prev] at he
    by_cases hk : pend h0 p = []
    · rw [hk] at he; simp at he; exact hx he
    · exact hxp (he ▸ lastOr_mem h0.tail _ hk)
  have hrsc : (s.h.rs c).isSome = dn h0 c := by rw [hinv.hrs]; rfl
  unfold xbody
  simp only [hread, hrsc]
  by_cases hcd : dn h0 c
  · simp only [hcd, if_true]
    -- the entry is present in the map under its ID
    have hgetc : s.h.entries.get (h0.ident c) = some c := by
      rw [hinv.get]
      have hany : (fin h0 p).any (fun c' => h0.ident c' == h0.ident c) = false := by
        rw [Bool.eq_false_iff]
        intro ha
        rw [List.any_eq_true] at ha
        obtain ⟨c', hc', he⟩ := ha
        have hc'p := mem_fin hc'
        have := r.ident_inj (hp c' hc'p) hc (by simpa using he)
        exact hcp (this ▸ hc'p)
      rw [hany]
      simpa using (r.idx (h0.ident c) c).mpr ⟨hc, rfl⟩
    constructor
    · simp
    · simp [pend_snoc, hcd, hinv.prev]
    · simp [pend_snoc, hcd, hinv.first]
    · simp [fin_snoc, hcd, hinv.es]
    · simpa [pend_snoc, hcd] using hinv.link
    · intro x hx hxp; apply hinv.frame x hx; simpa [pend_snoc, hcd] using hxp
    · intro ht; exact hinv.last (fun h => ht (by simp [h]))
    · exact hinv.hrs
    · exact hinv.hid
    · exact hinv.hrq
    · exact hinv.hal
    · intro id
      simp only [GoMap.delete, hinv.hid, fin_snoc, hcd, if_true, List.any_append, List.any_cons,
        List.any_nil, Bool.or_false]
      by_cases hi : id = h0.ident c
      · subst hi; simp
      · have : (h0.ident c == id) = false := by simpa using fun h => hi h.symm
        simp [hi, this, hinv.get]
    · simp only [GoMap.delete, hinv.hid, hgetc, fin_snoc, hcd, if_true, List.length_append,
        List.length_singleton, Option.isSome_some, hinv.len]
      omega
  · simp only [hcd, Bool.false_eq_true, if_false]
    constructor
    · simp
    · simp [pend_snoc, hcd]
    · simp only [pend_snoc, hcd, Bool.false_eq_true, if_false, hinv.first]
      cases hk : pend h0 p with
      | nil => simp
      | cons b k =>
        have hb : b ∈ pend h0 p := by rw [hk]; simp
        have := (r.pos b (hp b (mem_pend hb))).1
        have hb0 : b ≠ 0 := by omega
        simp [hb0]
    · simp [fin_snoc, hcd, hinv.es]
    · simp only [pend_snoc, hcd, Bool.false_eq_true, if_false]
      rw [Link_snoc]
      refine ⟨?_, ?_⟩
      · apply Link_congr s.h.nx _ h0.tail (pend h0 p) _ _ hinv.link
        · intro x _ hne
          apply upd_other
          rw [hinv.prev]; exact hne
        · exact List.nodup_cons.mpr ⟨htk, pend_nodup hnd⟩
      · rw [← hinv.prev]; exact upd_same _ _ _
    · intro x hx hxp
      simp only [pend_snoc, hcd, Bool.false_eq_true, if_false, List.mem_append, List.mem_singleton, not_or] at hxp
      show upd s.h.nx s.prev c x = h0.nx x
      rw [upd_other _ _ _ _ (hprev_ne x hx hxp.1)]
      exact hinv.frame x hx hxp.1
    · intro ht
      show upd s.h.nx s.prev c c = h0.nx c
      have hct : c ≠ h0.tail := fun h => ht (by simp [h])
      rw [upd_other _ _ _ _ (hprev_ne c hct hck)]
      exact hinv.frame c hct hck
    · exact hinv.hrs
    · exact hinv.hid
    · exact hinv.hrq
    · exact hinv.hal
    · intro id; simp only [fin_snoc, hcd, Bool.false_eq_true, if_false]; exact hinv.get id
    · simp only [fin_snoc, hcd, Bool.false_eq_true, if_false]; exact hinv.len

/-- The whole loop: from the initial state it terminates (within `len(entries)` iterations, without
    a nil dereference) in a state satisfying the invariant for the complete ring. -/
theorem xloop_spec (h0 : Heap) (ns q : List Nat) (r : Rep h0 ns) (hq : ns = q ++ [h0.tail]) :
    ∀ (rest p : List Nat) (s : XS) (f : Nat), p ++ rest = q → XInv h0 p s → rest.length < f →
      ∃ s', xloop h0.tail f s = .fin s' ∧ XInv h0 ns s' := by
  have hnd := r.nd
  rw [hq, List.nodup_append] at hnd
  have htq : h0.tail ∉ q := fun hm => hnd.2.2 _ hm _ (by simp) rfl
  have htn : h0.tail ∈ ns := by rw [hq]; simp
  have ht0 : h0.tail ≠ 0 := Nat.ne_of_gt (r.pos _ htn).1
  intro rest
  induction rest with
  | nil =>
    intro p s f hpq hinv hf
    simp at hpq; subst hpq
    cases f with
    | zero => omega
    | succ f =>
      have hnext : h0.nx (lastOr h0.tail p) = h0.tail := by
        have := r.link; rw [hq, Link_snoc] at this; exact this.2
      have hsub : ∀ x ∈ p, x ∈ ns := fun x hx => by rw [hq]; simp [hx]
      have hstep := XInv_step h0 ns p h0.tail s r hinv hnext hsub htn htq htq hnd.1
      have hread := XInv_read h0 p h0.tail s hinv hnext htq hnd.1
      refine ⟨xbody s, ?_, by rw [hq]; exact hstep⟩
      simp [xloop, hread, xbody_curr, ht0]
  | cons c rest ih =>
    intro p s f hpq hinv hf
    cases f with
    | zero => simp at hf
    | succ f =>
      have hcq : c ∈ q := by rw [← hpq]; simp
      have hcn : c ∈ ns := by rw [hq]; simp [hcq]
      have hc0 : c ≠ 0 := Nat.ne_of_gt (r.pos _ hcn).1
      have hct : c ≠ h0.tail := fun he => htq (he ▸ hcq)
      have hnext : h0.nx (lastOr h0.tail p) = c := by
        have := r.link
        rw [hq, ← hpq, List.append_assoc, Link_append] at this
        exact this.2.1
      have hsub : ∀ x ∈ p, x ∈ ns := fun x hx => by rw [hq, ← hpq]; simp [hx]
      have hndq := hnd.1
      rw [← hpq, List.nodup_append] at hndq
      have htp : h0.tail ∉ p := fun hm => htq (by rw [← hpq]; simp [hm])
      have hcp : c ∉ p := fun hm => hndq.2.2 _ hm _ (by simp) rfl
      have hstep := XInv_step h0 ns p c s r hinv hnext hsub hcn htp hcp hndq.1
      have hread := XInv_read h0 p c s hinv hnext htp hndq.1
      have := ih (p ++ [c]) (xbody s) f (by simp [← hpq]) hstep (by simp at hf; omega)
      simpa [xloop, hread, xbody_curr, hc0, hct] using this

theorem filter_done_absOf (h : Heap) (ns : List Nat) :
    (absOf h ns).filter (fun e => e.done) = absOf h (fin h ns) := by
  unfold absOf fin
  rw [List.filter_map]
  rfl

theorem filter_pend_absOf (h : Heap) (ns : List Nat) :
    (absOf h ns).filter (fun e => !e.done) = absOf h (pend h ns) := by
  unfold absOf pend
  rw [List.filter_map]
  rfl

theorem exportAndReset_sim (h : Heap) (ns : List Nat) (r : Rep h ns) :
    (exportAndReset h).2 = .log ((absOf h ns).filter (fun e => e.done)) ∧
    Rep (exportAndReset h).1 (pend h ns) ∧
    absOf (exportAndReset h).1 (pend h ns) = (absOf h ns).filter (fun e => !e.done) := by
  rw [filter_done_absOf, filter_pend_absOf]
  unfold exportAndReset
  by_cases hn : ns = []
  · have ht : h.tail = 0 := r.tail_zero_iff.mpr hn
    have hl : h.entries.len = 0 := by rw [r.cnt, hn]; rfl
    subst hn
    simp only [ht, hl, if_true]
    exact ⟨rfl, r, trivial⟩
  · have ht : h.tail ≠ 0 := fun h0 => hn (r.tail_zero_iff.mp h0)
    obtain ⟨q, hq⟩ := snoc_of_ne_nil hn
    rw [← r.tl] at hq
    obtain ⟨s, hs, hinv⟩ := xloop_spec h ns q r hq q [] ⟨h, h.tail, h.tail, 0, []⟩ h.entries.len
      (by simp) (XInv_init h) (by rw [r.cnt, hq]; simp)
    simp only [ht, if_false, hs]
    have hlen : s.h.entries.len = (pend h ns).length := by
      rw [hinv.len, r.cnt]; have := fin_pend_length h ns; omega
    have hcong : ∀ (h' : Heap), h'.ident = h.ident → h'.rq = h.rq → h'.rs = h.rs →
        absOf h' (pend h ns) = absOf h (pend h ns) := by
      intro h' e1 e2 e3
      apply absOf_congr; intro a _; simp [e1, e2, e3]
    have hidx : ∀ id a, s.h.entries.get id = some a ↔ (a ∈ pend h ns ∧ s.h.ident a = id) := by
      intro id a
      rw [hinv.get, hinv.hid]
      constructor
      · intro hg
        by_cases hany : (fin h ns).any (fun c => h.ident c == id) = true
        · rw [hany] at hg; simp at hg
        · simp only [hany] at hg
          obtain ⟨ha, hi⟩ := (r.idx id a).mp hg
          refine ⟨?_, hi⟩
          simp only [pend, List.mem_filter, ha, true_and]
          cases hd : dn h a with
          | false => rfl
          | true =>
            exfalso; apply hany
            rw [List.any_eq_true]
            exact ⟨a, by simp [fin, ha, hd], by simp [hi]⟩
      · intro ⟨ha, hi⟩
        have han := mem_pend ha
        have hany : (fin h ns).any (fun c => h.ident c == id) = false := by
          rw [Bool.eq_false_iff]
          intro hc
          rw [List.any_eq_true] at hc
          obtain ⟨c, hc, he⟩ := hc
          have hca := r.ident_inj (mem_fin hc) han (by rw [hi]; simpa using he)
          subst hca
          simp [fin, List.mem_filter] at hc
          simp [pend, List.mem_filter] at ha
          rw [hc.2] at ha; simp at ha
        rw [hany]
        simpa using (r.idx id a).mpr ⟨han, hi⟩
    have hpos : ∀ a ∈ pend h ns, 0 < a ∧ a < s.h.alloc := by
      intro a ha; rw [hinv.hal]; exact r.pos a (mem_pend ha)
    by_cases hk : pend h ns = []
    · have hl0 : s.h.entries.len = 0 := by rw [hlen, hk]; rfl
      simp only [hl0, if_true, hinv.es]
      refine ⟨rfl, ⟨pend_nodup r.nd, by rw [hinv.hal]; exact r.apos, hpos, by simp [hk], by simp [hk, Link], hidx, hlen⟩,
        hcong _ hinv.hid hinv.hrq hinv.hrs⟩
    · have hl0 : s.h.entries.len ≠ 0 := by
        rw [hlen]; intro h0; exact hk (List.length_eq_zero_iff.mp h0)
      simp only [hl0, if_false, hinv.es]
      refine ⟨rfl, ⟨pend_nodup r.nd, by rw [hinv.hal]; exact r.apos, hpos, ?_, ?_, hidx, hlen⟩,
        hcong _ hinv.hid hinv.hrq hinv.hrs⟩
      · show s.prev = lastOr 0 (pend h ns)
        rw [hinv.prev]; exact lastOr_irrel _ _ _ hk
      · show Link (upd s.h.nx s.prev s.first) s.prev (pend h ns)
        have hlink := hinv.link
        have hfirst := hinv.first
        have hprev := hinv.prev
        have hndk : (pend h ns).Nodup := pend_nodup r.nd
        cases hkk : pend h ns with
        | nil => exact absurd hkk hk
        | cons b k =>
          rw [hkk] at hlink hfirst hprev hndk
          simp at hfirst
          rw [lastOr_cons] at hprev
          refine ⟨by rw [upd_same]; exact hfirst, ?_⟩
          apply Link_congr s.h.nx _ b k _ hndk hlink.2
          intro x _ hne
          apply upd_other
          rw [hprev]; exact hne

/-! ## Forward simulation of whole histories -/

/-- `Reach h l`: the heap `h` is a well-formed ring + index representing the abstract log `l`. -/
def Reach (h : Heap) (l : Log) : Prop := ∃ ns, Rep h ns ∧ absOf h ns = l

theorem Reach_init : Reach init [] := ⟨[], Rep_init, rfl⟩

theorem step_sim (h : Heap) (l : Log) (t : Nat) (o : Op) (hr : Reach h l) :
    Reach (step h t o).1 (Spec.step l t o).1 ∧ (step h t o).2 = (Spec.step l t o).2 := by
  obtain ⟨ns, r, rfl⟩ := hr
  cases o with
  | req id =>
    simp only [step, Spec.step, Spec.req, r.hasId]
    by_cases hd : (h.entries.get id).isSome = true
    · obtain ⟨h1, h2, h3⟩ := recordRequest_dup h ns id t r hd
      simp only [hd, if_true]
      exact ⟨⟨ns, h2, h3⟩, h1⟩
    · have hd' : (h.entries.get id).isSome = false := by simpa using hd
      obtain ⟨h1, h2, h3⟩ := recordRequest_fresh h ns id t r hd'
      simp only [hd', Bool.false_eq_true, if_false]
      exact ⟨⟨_, h2, h3⟩, h1⟩
  | res id =>
    obtain ⟨h1, h2⟩ := recordResponse_sim h ns id t r
    exact ⟨⟨ns, h1, h2⟩, rfl⟩
  | exp =>
    exact ⟨⟨ns, r, rfl⟩, exportLog_sim h ns r⟩
  | xreset =>
    obtain ⟨h1, h2, h3⟩ := exportAndReset_sim h ns r
    exact ⟨⟨_, h2, h3⟩, h1⟩
  | reset =>
    exact ⟨⟨[], reset_sim h ns r, rfl⟩, rfl⟩
  | idle f =>
    exact ⟨⟨ns, r, rfl⟩, rfl⟩

theorem run_refines (ops : List Op) : ∀ (h : Heap) (l : Log) (t : Nat), Reach h l →
    run h t ops = Spec.run l t ops := by
  induction ops with
  | nil => intros; rfl
  | cons o os ih =>
    intro h l t hr
    obtain ⟨h1, h2⟩ := step_sim h l t o hr
    simp only [run, Spec.run, h2, ih _ _ _ h1]

theorem after_reach (ops : List Op) : ∀ (h : Heap) (l : Log) (t : Nat), Reach h l →
    Reach (after h t ops) (Spec.after l t ops) := by
  induction ops with
  | nil => intro h l t hr; exact hr
  | cons o os ih =>
    intro h l t hr
    exact ih _ _ _ (step_sim h l t o hr).1

/-! ## History reasoning on the specification -/
set_option linter.unusedSimpArgs false

def rqs (l : Log) : List Nat := l.map (·.rq)
def idsOf (l : Log) : List String := l.map (·.id)

/-- Well-formed abstract log at clock `t`: request tags strictly increasing (arrival order) and
    below the clock, IDs pairwise different. -/
structure WF (l : Log) (t : Nat) : Prop where
  sorted : (rqs l).Pairwise (· < ·)
  bound : ∀ x ∈ rqs l, x < t
  uniq : (idsOf l).Nodup

theorem WF_nil (t : Nat) : WF [] t := ⟨by simp [rqs], by simp [rqs], by simp [idsOf]⟩

theorem WF.mono {l : Log} {t t' : Nat} (w : WF l t) (h : t ≤ t') : WF l t' :=
  ⟨w.sorted, fun x hx => Nat.lt_of_lt_of_le (w.bound x hx) h, w.uniq⟩

theorem WF.filter {l : Log} {t : Nat} (w : WF l t) (p : Ent → Bool) : WF (l.filter p) t := by
  have hs : (l.filter p).Sublist l := List.filter_sublist
  refine ⟨w.sorted.sublist (hs.map _), ?_, w.uniq.sublist (hs.map _)⟩
  intro x hx
  exact w.bound x ((hs.map _).subset hx)

theorem WF.nodup_rqs {l : Log} {t : Nat} (w : WF l t) : (rqs l).Nodup :=
  w.sorted.imp (fun h => Nat.ne_of_lt h)

theorem hasId_iff (l : Log) (id : String) : Spec.hasId l id = true ↔ id ∈ idsOf l := by
  simp only [Spec.hasId, idsOf, List.any_eq_true, List.mem_map, beq_iff_eq]

theorem rqs_res (l : Log) (id : String) (t : Nat) : rqs (Spec.res l id t) = rqs l := by
  unfold rqs Spec.res
  rw [List.map_map]
  apply List.map_congr_left
  intro e _; by_cases h : e.id = id <;> simp [h]

theorem idsOf_res (l : Log) (id : String) (t : Nat) : idsOf (Spec.res l id t) = idsOf l := by
  unfold idsOf Spec.res
  rw [List.map_map]
  apply List.map_congr_left
  intro e _; by_cases h : e.id = id <;> simp [h]

theorem WF_step (l : Log) (t : Nat) (o : Op) (w : WF l t) : WF (Spec.step l t o).1 (t + 1) := by
  cases o with
  | req id =>
    simp only [Spec.step, Spec.req]
    by_cases hd : Spec.hasId l id = true
    · simp only [hd, if_true]; exact w.mono (Nat.le_succ t)
    · have hd' : Spec.hasId l id = false := by simpa using hd
      simp only [hd', Bool.false_eq_true, if_false]
      refine ⟨?_, ?_, ?_⟩
      · simp only [rqs, List.map_append, List.map_cons, List.map_nil]
        rw [List.pairwise_append]
        refine ⟨w.sorted, by simp, ?_⟩
        intro a ha b hb
        simp at hb; subst hb
        exact w.bound a ha
      · intro x hx
        simp only [rqs, List.map_append, List.map_cons, List.map_nil, List.mem_append,
          List.mem_singleton] at hx
        rcases hx with hx | rfl
        · exact Nat.lt_succ_of_lt (w.bound x hx)
        · exact Nat.lt_succ_self _
      · simp only [idsOf, List.map_append, List.map_cons, List.map_nil]
        rw [List.nodup_append]
        refine ⟨w.uniq, by simp, ?_⟩
        intro a ha b hb
        simp at hb; subst hb
        intro he; subst he
        exact hd ((hasId_iff l a).mpr ha)
  | res id =>
    exact ⟨by rw [Spec.step, rqs_res]; exact w.sorted,
      by rw [Spec.step, rqs_res]; exact fun x hx => Nat.lt_succ_of_lt (w.bound x hx),
      by rw [Spec.step, idsOf_res]; exact w.uniq⟩
  | exp => exact w.mono (Nat.le_succ t)
  | xreset => exact (w.filter _).mono (Nat.le_succ t)
  | reset => exact WF_nil _
  | idle f => exact w.mono (Nat.le_succ t)

theorem WF_after (ops : List Op) : ∀ (l : Log) (t : Nat), WF l t →
    WF (Spec.after l t ops) (t + ops.length) := by
  induction ops with
  | nil => intro l t w; exact w
  | cons o os ih =>
    intro l t w
    have := ih _ _ (WF_step l t o w)
    simp only [Spec.after, List.length_cons]
    rw [show t + (os.length + 1) = t + 1 + os.length by omega]
    exact this

theorem Spec.run_append (a b : List Op) : ∀ (l : Log) (t : Nat),
    Spec.run l t (a ++ b) = Spec.run l t a ++ Spec.run (Spec.after l t a) (t + a.length) b := by
  induction a with
  | nil => intro l t; simp [Spec.run, Spec.after]
  | cons o os ih =>
    intro l t
    simp only [List.cons_append, Spec.run, Spec.after, ih, List.length_cons]
    rw [show t + 1 + os.length = t + (os.length + 1) by omega]

theorem Spec.after_append (a b : List Op) : ∀ (l : Log) (t : Nat),
    Spec.after l t (a ++ b) = Spec.after (Spec.after l t a) (t + a.length) b := by
  induction a with
  | nil => intro l t; simp [Spec.after]
  | cons o os ih =>
    intro l t
    simp only [List.cons_append, Spec.after, ih, List.length_cons]
    rw [show t + 1 + os.length = t + (os.length + 1) by omega]

/-- Every export / export-and-reset output is in arrival order. -/
theorem sorted_outputs (ops : List Op) : ∀ (l : Log) (t : Nat), WF l t →
    ∀ es, Obs.log es ∈ Spec.run l t ops → (rqs es).Pairwise (· < ·) := by
  induction ops with
  | nil => intro l t _ es h; simp [Spec.run] at h
  | cons o os ih =>
    intro l t w es h
    simp only [Spec.run, List.mem_cons] at h
    rcases h with h | h
    · cases o with
      | req id =>
        simp only [Spec.step, Spec.req] at h
        split at h <;> cases h
      | res id => cases h
      | exp => simp only [Spec.step] at h; cases h; exact w.sorted
      | xreset => simp only [Spec.step] at h; cases h; exact (w.filter _).sorted
      | reset => cases h
      | idle f => simp only [Spec.step] at h; split at h <;> cases h
    · exact ih _ _ (WF_step l t o w) es h

/-- What one operation hands to the caller of export-and-reset. -/
def returnedOf (o : Op) (b : Obs) : List Ent :=
  match o, b with
  | .xreset, .log es => es
  | _, _ => []

/-- All entries returned by the export-and-reset calls of a history, in order. -/
def returned : List Op → List Obs → List Ent
  | o :: os, b :: bs => returnedOf o b ++ returned os bs
  | _, _ => []

theorem rqs_filter_disjoint (l : Log) (p : Ent → Bool) (hn : (rqs l).Nodup) :
    ∀ x, x ∈ rqs (l.filter p) → x ∉ rqs (l.filter (fun e => !p e)) := by
  induction l with
  | nil => intro x hx; simp [rqs] at hx
  | cons e l ih =>
    intro x hx
    simp only [rqs, List.map_cons, List.nodup_cons] at hn
    have hsub : ∀ (q : Ent → Bool) y, y ∈ rqs (l.filter q) → y ∈ rqs l := fun q y hy =>
      ((List.filter_sublist (p := q) (l := l)).map _).subset hy
    by_cases hp : p e = true
    · simp only [List.filter_cons, hp, if_true, rqs, List.map_cons, List.mem_cons, Bool.not_true,
        Bool.false_eq_true, if_false] at hx ⊢
      rcases hx with rfl | hx
      · intro hm; exact hn.1 (hsub _ _ hm)
      · exact ih hn.2 x hx
    · have hp' : p e = false := by simpa using hp
      simp only [List.filter_cons, hp', if_false, rqs, List.map_cons, List.mem_cons, Bool.not_false,
        if_true, Bool.false_eq_true, not_or] at hx ⊢
      refine ⟨?_, ih hn.2 x hx⟩
      intro he; subst he; exact hn.1 (hsub _ _ hx)

theorem step_rqs_sub (l : Log) (t : Nat) (o : Op) :
    ∀ x ∈ rqs (Spec.step l t o).1, x ∈ rqs l ∨ x = t := by
  intro x hx
  cases o with
  | req id =>
    simp only [Spec.step, Spec.req] at hx
    split at hx
    · exact Or.inl hx
    · simp only [rqs, List.map_append, List.map_cons, List.map_nil, List.mem_append,
        List.mem_singleton] at hx
      exact hx
  | res id => rw [Spec.step, rqs_res] at hx; exact Or.inl hx
  | exp => exact Or.inl hx
  | xreset => exact Or.inl (((List.filter_sublist (l := l)).map _).subset hx)
  | reset => simp [Spec.step, rqs] at hx
  | idle f => exact Or.inl hx

/-- No request is handed out twice by export-and-reset over the whole life of the log. -/
theorem returned_inv (ops : List Op) : ∀ (l : Log) (t : Nat), WF l t →
    (rqs (returned ops (Spec.run l t ops))).Nodup ∧
    ∀ x ∈ rqs (returned ops (Spec.run l t ops)), x ∈ rqs l ∨ t ≤ x := by
  induction ops with
  | nil => intro l t _; simp [returned, Spec.run, rqs]
  | cons o os ih =>
    intro l t w
    obtain ⟨ihn, ihm⟩ := ih _ _ (WF_step l t o w)
    have hrest : ∀ x ∈ rqs (returned os (Spec.run (Spec.step l t o).1 (t + 1) os)), x ∈ rqs l ∨ t ≤ x := by
      intro x hx
      rcases ihm x hx with h | h
      · rcases step_rqs_sub l t o x h with h | h
        · exact Or.inl h
        · exact Or.inr (Nat.le_of_eq h.symm)
      · exact Or.inr (by omega)
    by_cases hx : o = .xreset
    · subst hx
      simp only [Spec.run, returned, Spec.step, returnedOf, rqs, List.map_append]
      simp only [Spec.step, rqs] at ihn ihm
      refine ⟨?_, ?_⟩
      · rw [List.nodup_append]
        refine ⟨(w.filter _).nodup_rqs, ihn, ?_⟩
        intro a ha b hb hab
        subst hab
        rcases ihm a hb with h | h
        · exact rqs_filter_disjoint l (fun e => e.done) w.nodup_rqs a ha h
        · have := (w.filter (fun e => e.done)).bound a ha; omega
      · intro x hx
        rw [List.mem_append] at hx
        rcases hx with hx | hx
        · exact Or.inl (((List.filter_sublist (l := l)).map _).subset hx)
        · exact hrest x hx
    · have hnil : returnedOf o (Spec.step l t o).2 = [] := by
        cases o with
        | xreset => exact absurd rfl hx
        | req id => simp only [Spec.step, Spec.req]; split <;> rfl
        | res id => rfl
        | exp => rfl
        | reset => rfl
        | idle f => rfl
      simp only [Spec.run, returned, hnil, List.nil_append]
      exact ⟨ihn, hrest⟩

/-- Export-and-reset only returns completed entries. -/
theorem returned_done (ops : List Op) : ∀ (l : Log) (t : Nat),
    ∀ e ∈ returned ops (Spec.run l t ops), e.done = true := by
  induction ops with
  | nil => intro l t e h; simp [returned, Spec.run] at h
  | cons o os ih =>
    intro l t e h
    simp only [Spec.run, returned, List.mem_append] at h
    rcases h with h | h
    · cases o with
      | xreset =>
        simp only [Spec.step, returnedOf, List.mem_filter] at h
        exact h.2
      | req id => simp only [Spec.step, Spec.req] at h; split at h <;> simp [returnedOf] at h
      | res id => simp [Spec.step, returnedOf] at h
      | exp => simp [Spec.step, returnedOf] at h
      | reset => simp [Spec.step, returnedOf] at h
      | idle f => simp [Spec.step, returnedOf] at h
    · exact ih _ _ e h

/-- Operations that do not remove entries. -/
def quiet : Op → Bool
  | .reset => false
  | .xreset => false
  | _ => true

/-- Across operations other than reset / export-and-reset an entry stays in the log, keeps its
    request, and is complete afterwards iff it was complete or a response for its ID arrived. -/
theorem after_quiet (mid : List Op) : ∀ (l : Log) (t : Nat) (e : Ent), e ∈ l →
    (∀ o ∈ mid, quiet o = true) →
    ∃ e' ∈ Spec.after l t mid, e'.id = e.id ∧ e'.rq = e.rq ∧
      e'.done = (e.done || mid.any (fun o => o == .res e.id)) := by
  induction mid with
  | nil => intro l t e he _; exact ⟨e, he, rfl, rfl, by simp⟩
  | cons o os ih =>
    intro l t e he hq
    have hqo := hq o (by simp)
    have hqs : ∀ o ∈ os, quiet o = true := fun o ho => hq o (List.mem_cons_of_mem _ ho)
    cases o with
    | reset => simp [quiet] at hqo
    | xreset => simp [quiet] at hqo
    | exp =>
      obtain ⟨e', h1, h2, h3, h4⟩ := ih l (t + 1) e he hqs
      have : (Op.exp == Op.res e.id) = false := by
        simp only [beq_eq_false_iff_ne, ne_eq]; intro h; cases h
      exact ⟨e', h1, h2, h3, by simp [h4, this]⟩
    | idle f =>
      obtain ⟨e', h1, h2, h3, h4⟩ := ih l (t + 1) e he hqs
      have : (Op.idle f == Op.res e.id) = false := by
        simp only [beq_eq_false_iff_ne, ne_eq]; intro h; cases h
      exact ⟨e', h1, h2, h3, by simp [h4, this]⟩
    | req id =>
      have he' : e ∈ (Spec.step l t (.req id)).1 := by
        simp only [Spec.step, Spec.req]; split
        · exact he
        · exact List.mem_append_left _ he
      obtain ⟨e', h1, h2, h3, h4⟩ := ih _ (t + 1) e he' hqs
      have : (Op.req id == Op.res e.id) = false := by
        simp only [beq_eq_false_iff_ne, ne_eq]; intro h; cases h
      exact ⟨e', h1, h2, h3, by simp [h4, this]⟩
    | res id =>
      by_cases hid : e.id = id
      · have he' : ({ e with rs := some t } : Ent) ∈ (Spec.step l t (.res id)).1 := by
          simp only [Spec.step, Spec.res, List.mem_map]
          exact ⟨e, he, by simp [hid]⟩
        obtain ⟨e', h1, h2, h3, h4⟩ := ih _ (t + 1) _ he' hqs
        refine ⟨e', h1, h2, h3, ?_⟩
        rw [h4]; simp [Ent.done, hid]
      · have he' : e ∈ (Spec.step l t (.res id)).1 := by
          simp only [Spec.step, Spec.res, List.mem_map]
          exact ⟨e, he, by simp [hid]⟩
        obtain ⟨e', h1, h2, h3, h4⟩ := ih _ (t + 1) e he' hqs
        refine ⟨e', h1, h2, h3, ?_⟩
        have : (Op.res id == Op.res e.id) = false := by
          simp only [beq_eq_false_iff_ne, ne_eq, Op.res.injEq]; exact fun h => hid h.symm
        rw [h4]; simp [this]

/-- The abstract log after a history that starts with the empty log. -/
abbrev logAfter (ops : List Op) : Log := Spec.after [] 0 ops

theorem WF_logAfter (ops : List Op) : WF (logAfter ops) ops.length := by
  have := WF_after ops [] 0 (WF_nil 0); simpa using this

theorem Spec.run_safe (ops : List Op) : ∀ (l : Log) (t : Nat),
    Obs.panic ∉ Spec.run l t ops ∧ Obs.diverge ∉ Spec.run l t ops := by
  induction ops with
  | nil => intro l t; simp [Spec.run]
  | cons o os ih =>
    intro l t
    have h := ih (Spec.step l t o).1 (t + 1)
    have ho : (Spec.step l t o).2 ≠ .panic ∧ (Spec.step l t o).2 ≠ .diverge := by
      cases o with
      | req id => simp only [Spec.step, Spec.req]; split <;> simp
      | res id => simp [Spec.step]
      | exp => simp [Spec.step]
      | xreset => simp [Spec.step]
      | reset => simp [Spec.step]
      | idle f => simp only [Spec.step]; split <;> simp
    simp only [Spec.run, List.mem_cons, not_or]
    exact ⟨⟨fun e => ho.1 e.symm, h.1⟩, ⟨fun e => ho.2 e.symm, h.2⟩⟩

/-- `Own hist e`: the entry's request tag points at a `req` of its ID in the history and its
    response tag (if any) at a later `res` of the same ID. -/
def Own (hist : List Op) (e : Ent) : Prop :=
  hist[e.rq]? = some (.req e.id) ∧ ∀ j, e.rs = some j → hist[j]? = some (.res e.id) ∧ e.rq < j

theorem own_step (hist : List Op) (l : Log) (t : Nat) (o : Op) (ht : hist[t]? = some o)
    (hl : ∀ e ∈ l, Own hist e ∧ e.rq < t) :
    ∀ e ∈ (Spec.step l t o).1, Own hist e ∧ e.rq < t + 1 := by
  intro e he
  cases o with
  | req id =>
    simp only [Spec.step, Spec.req] at he
    split at he
    · have := hl e he; exact ⟨this.1, by omega⟩
    · rw [List.mem_append] at he
      rcases he with he | he
      · have := hl e he; exact ⟨this.1, by omega⟩
      · simp at he; subst he
        exact ⟨⟨ht, by simp⟩, by simp⟩
  | res id =>
    simp only [Spec.step, Spec.res, List.mem_map] at he
    obtain ⟨e0, he0, rfl⟩ := he
    have h0 := hl e0 he0
    by_cases hid : e0.id = id
    · subst hid
      simp only [if_true]
      refine ⟨⟨h0.1.1, ?_⟩, by simpa using Nat.lt_succ_of_lt h0.2⟩
      intro j hj
      simp at hj; subst hj
      exact ⟨ht, h0.2⟩
    · simp only [hid, if_false]; exact ⟨h0.1, by omega⟩
  | exp => have := hl e he; exact ⟨this.1, by omega⟩
  | xreset =>
    simp only [Spec.step, List.mem_filter] at he
    have := hl e he.1; exact ⟨this.1, by omega⟩
  | reset => simp [Spec.step] at he
  | idle f => have := hl e he; exact ⟨this.1, by omega⟩

theorem own_outputs (ops : List Op) : ∀ (pre : List Op) (l : Log),
    (∀ e ∈ l, Own (pre ++ ops) e ∧ e.rq < pre.length) →
    ∀ es, Obs.log es ∈ Spec.run l pre.length ops → ∀ e ∈ es, Own (pre ++ ops) e := by
  induction ops with
  | nil => intro pre l _ es h; simp [Spec.run] at h
  | cons o os ih =>
    intro pre l hl es h e he
    simp only [Spec.run, List.mem_cons] at h
    rcases h with h | h
    · cases o with
      | req id => simp only [Spec.step, Spec.req] at h; split at h <;> cases h
      | res id => cases h
      | exp => simp only [Spec.step] at h; cases h; exact (hl e he).1
      | xreset =>
        simp only [Spec.step] at h; cases h
        exact (hl e (List.mem_filter.mp he).1).1
      | reset => cases h
      | idle f => simp only [Spec.step] at h; split at h <;> cases h
    · have hidx : (pre ++ o :: os)[pre.length]? = some o := by simp
      have hstep := own_step (pre ++ o :: os) l pre.length o hidx hl
      have := ih (pre ++ [o]) (Spec.step l pre.length o).1
        (by simpa [List.append_assoc] using hstep) es (by simpa using h) e he
      simpa [List.append_assoc] using this

end Martian.HarLog
