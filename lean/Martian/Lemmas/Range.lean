import Martian.Model.Range
namespace Martian.Range
open Martian Martian.Go

theorem splitAux_no_sep (sep : UInt8) (s cur : Bytes) (hc : sep ∉ cur) :
    ∀ p ∈ splitAux sep s cur, sep ∉ p := by
  induction s generalizing cur with
  | nil => intro p hp; simp [splitAux] at hp; subst hp; simpa using hc
  | cons c r ih =>
    intro p hp
    simp only [splitAux] at hp
    split at hp
    · rcases List.mem_cons.mp hp with h | h
      · subst h; simpa using hc
      · exact ih [] (by simp) p h
    · rename_i hne
      apply ih (c :: cur) _ p hp
      intro hm
      rcases List.mem_cons.mp hm with h | h
      · apply hne; simp [h]
      · exact hc h

theorem split_no_sep (s : Bytes) (sep : UInt8) : ∀ p ∈ split s sep, sep ∉ p :=
  splitAux_no_sep sep s [] (by simp)

theorem mem_trimSpace {c : UInt8} {s : Bytes} (h : c ∈ trimSpace s) : c ∈ s := by
  unfold trimSpace at h
  have h1 := List.mem_reverse.mp h
  have h2 := (List.dropWhile_sublist _).subset h1
  have h3 := List.mem_reverse.mp h2
  exact (List.dropWhile_sublist _).subset h3

theorem atoi_nonneg {s : Bytes} {v : Int} (hm : minus ∉ s) (h : atoi s = some v) : 0 ≤ v := by
  unfold atoi at h
  cases s with
  | nil => simp at h
  | cons c r =>
    simp only at h
    have hc : c ≠ 45 := by intro hc; apply hm; simp [minus, hc]
    by_cases h43 : c = 43
    · simp [h43] at h
      cases hu : atoiUnsigned r with
      | none => simp [hu] at h
      | some n =>
        simp [hu] at h
        obtain ⟨_, rfl⟩ := h; omega
    · have h45 : (c == 45) = false := by simp [hc]
      have h43' : (c == 43) = false := by simp [h43]
      simp only [h43', h45] at h
      cases hu : atoiUnsigned (c :: r) with
      | none => simp [hu] at h
      | some n =>
        simp [hu] at h
        obtain ⟨_, rfl⟩ := h; omega

/-- What an accepted range looks like: inside the content, ordered, last position clamped. -/
theorem parseOne_ok {size : Nat} {rng : Bytes} {s e : Int} (h : parseOne size rng = .ok s e) :
    0 ≤ s ∧ s ≤ e ∧ e < (size : Int) := by
  unfold parseOne at h
  simp only at h
  split at h
  · rename_i a b hsp
    have ha : minus ∉ a := split_no_sep _ _ a (by rw [hsp]; simp)
    have ha' : minus ∉ trimSpace a := fun hm => ha (mem_trimSpace hm)
    cases hs : atoi (trimSpace a) with
    | none => simp [hs] at h
    | some sv =>
      simp only [hs] at h
      cases he : atoi (trimSpace b) with
      | none => simp [he] at h
      | some ev =>
        simp only [he] at h
        have hnn := atoi_nonneg ha' hs
        split at h
        · simp at h
        · rename_i hcond
          injection h with h1 h2
          subst h1
          split at h2 <;> omega
  · simp at h

theorem parseAll_ok (size : Nat) (l : List Bytes) (acc rs : List (Int × Int))
    (hacc : ∀ p ∈ acc, 0 ≤ p.1 ∧ p.1 ≤ p.2 ∧ p.2 < (size : Int))
    (h : parseAll size l acc = .ok rs) :
    ∀ p ∈ rs, 0 ≤ p.1 ∧ p.1 ≤ p.2 ∧ p.2 < (size : Int) := by
  induction l generalizing acc with
  | nil =>
    simp [parseAll] at h; subst h
    intro p hp; exact hacc p (List.mem_reverse.mp hp)
  | cons r rest ih =>
    simp only [parseAll] at h
    cases ho : parseOne size r with
    | ok s e =>
      simp only [ho] at h
      apply ih ((s, e) :: acc) _ h
      intro p hp
      rcases List.mem_cons.mp hp with hp | hp
      · subst hp; exact parseOne_ok ho
      · exact hacc p hp
    | unsat => simp [ho] at h
    | err => simp [ho] at h

theorem goSlice_ok {content : Bytes} {s e : Int} (h0 : 0 ≤ s) (h1 : s ≤ e) (h2 : e < (content.length : Int)) :
    goSlice content s (e + 1) = some ((content.drop s.toNat).take (e.toNat + 1 - s.toNat)) := by
  unfold goSlice
  have : 0 ≤ s ∧ s ≤ e + 1 ∧ e + 1 ≤ (content.length : Int) := by omega
  simp only [this, and_self, if_true]
  have : (e + 1).toNat = e.toNat + 1 := by omega
  rw [this]

theorem sliceParts_ok (content : Bytes) (rs : List (Int × Int))
    (h : ∀ p ∈ rs, 0 ≤ p.1 ∧ p.1 ≤ p.2 ∧ p.2 < (content.length : Int)) :
    sliceParts content rs =
      some (rs.map fun p => (p.1, p.2, (content.drop p.1.toNat).take (p.2.toNat + 1 - p.1.toNat))) := by
  induction rs with
  | nil => simp [sliceParts]
  | cons p rest ih =>
    obtain ⟨s, e⟩ := p
    have hp := h (s, e) (by simp)
    simp only [sliceParts, goSlice_ok hp.1 hp.2.1 hp.2.2]
    rw [ih (fun q hq => h q (List.mem_cons_of_mem _ hq))]
    simp

end Martian.Range
