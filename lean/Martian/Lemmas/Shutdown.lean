import Martian.Model.Shutdown
/-!
Invariants of the C07 shutdown model and their preservation by every step (helper lemmas for
`Props/C07.lean`). Core-only.
-/
namespace Martian.Shutdown

/-- Program counters a handler can be at if it never passed the `Closing()` check with "not closing". -/
def Pc.afterClosing : Pc → Bool
  | .accepted | .spawned | .added | .closingConn | .closed | .done => true
  | _ => false

/-- The handler is on its way out (`handleLoop` returning). -/
def Pc.winding : Pc → Bool
  | .closingConn | .closed | .done | .drainBody true => true
  | _ => false

def ClosePc.chanIsClosed : ClosePc → Bool
  | .idle | .called => false
  | _ => true

/-- Every recorded response is marked close iff close was asked for or shutdown was observable. -/
def MarksOk (ms : List (Bool × Bool × Bool)) : Prop := ∀ m ∈ ms, m.2.2 = (m.2.1 || m.1)

theorem MarksOk_snoc {ms : List (Bool × Bool × Bool)} {o a b : Bool} (h : MarksOk ms) (hb : b = (a || o)) :
    MarksOk (ms ++ [(o, a, b)]) := by
  intro m hm
  rcases List.mem_append.mp hm with hm | hm
  · exact h m hm
  · simp at hm; subst hm; exact hb

theorem anyMarked_snoc (ms : List (Bool × Bool × Bool)) (o a b : Bool) :
    anyMarked (ms ++ [(o, a, b)]) = (anyMarked ms || b) := by
  simp [anyMarked]

/-- Per-handler invariant relative to the shared state. -/
structure HOk (closing : Bool) (cpc : ClosePc) (h : Handler) : Prop where
  exch : h.started = h.completed + h.hijacked + h.aborted + (if h.pc.inExchange then 1 else 0)
  mlen : h.marks.length + h.cresps = h.completed
  mark : MarksOk h.marks
  dec : ∀ b, (h.pc = .decided b ∨ h.pc = .writing b) → b = (h.reqClose || h.resClose || h.obsAtDecision)
  obs : h.obsAtDecision = true → closing = true
  afterMark : anyMarked h.marks = true → h.pc.winding = true
  sam : h.servedAfterMark = false
  sar : h.startedAfterReturn = false
  late : h.late = true → closing = true ∧ h.entered = false
  ent : h.entered = false → h.pc.afterClosing = true ∧ h.started = 0
  pre : (h.pc = .accepted ∨ h.pc = .spawned ∨ h.pc = .added) → h.entered = false
  zero : cpc = .zeroSeen → h.pc.counted = false
  ret : cpc = .returned → h.pc.afterClosing = true


macro "hok_tac" : tactic => `(tactic|
  (constructor <;> simp_all [Pc.inExchange, Pc.winding, Pc.afterClosing, Pc.counted, Pc.readable, ClosePc.holdsMu,
      anyMarked_snoc, MarksOk_snoc] <;> (try omega)))

theorem hstep_ok_spawn {closing : Bool} {cpc : ClosePc} {h h' : Handler}
    (hg : cpc = .returned → closing = true) (ok : HOk closing cpc h)
    (hs : hstep closing cpc.holdsMu (decide (cpc = .returned)) h (.spawn) = some h') : HOk closing cpc h' := by
  obtain ⟨e1, e2, e3, e4, e5, e6, e7, e8, e9, e9', e9'', e10, e11⟩ := ok
  cases hpc : h.pc <;> simp [hstep, hpc, Pc.readable] at hs
  all_goals (first | (obtain ⟨hc, hs⟩ := hs; subst hs; hok_tac) | (subst hs; hok_tac))

theorem hstep_ok_add {closing : Bool} {cpc : ClosePc} {h h' : Handler}
    (hg : cpc = .returned → closing = true) (ok : HOk closing cpc h)
    (hs : hstep closing cpc.holdsMu (decide (cpc = .returned)) h (.add) = some h') : HOk closing cpc h' := by
  obtain ⟨e1, e2, e3, e4, e5, e6, e7, e8, e9, e9', e9'', e10, e11⟩ := ok
  cases hpc : h.pc <;> simp [hstep, hpc, Pc.readable] at hs
  all_goals (obtain ⟨hc, hs⟩ := hs; subst hs; hok_tac)
  all_goals (cases cpc <;> simp_all)

theorem hstep_ok_checkClosing {closing : Bool} {cpc : ClosePc} {h h' : Handler}
    (hg : cpc = .returned → closing = true) (ok : HOk closing cpc h)
    (hs : hstep closing cpc.holdsMu (decide (cpc = .returned)) h (.checkClosing) = some h') : HOk closing cpc h' := by
  obtain ⟨e1, e2, e3, e4, e5, e6, e7, e8, e9, e9', e9'', e10, e11⟩ := ok
  cases closing
  all_goals cases hpc : h.pc <;> simp [hstep, hpc, Pc.readable] at hs
  all_goals (first | (obtain ⟨hc, hs⟩ := hs; subst hs; hok_tac) | (subst hs; hok_tac))

theorem hstep_ok_firstByte {closing : Bool} {cpc : ClosePc} {h h' : Handler}
    (hg : cpc = .returned → closing = true) (ok : HOk closing cpc h)
    (hs : hstep closing cpc.holdsMu (decide (cpc = .returned)) h (.firstByte) = some h') : HOk closing cpc h' := by
  obtain ⟨e1, e2, e3, e4, e5, e6, e7, e8, e9, e9', e9'', e10, e11⟩ := ok
  cases hpc : h.pc <;> simp [hstep, hpc, Pc.readable] at hs
  all_goals (first | (obtain ⟨hc, hs⟩ := hs; subst hs; hok_tac) | (subst hs; hok_tac))

theorem hstep_ok_gotReq {closing : Bool} {cpc : ClosePc} {h h' : Handler} {rc : Bool}
    (hg : cpc = .returned → closing = true) (ok : HOk closing cpc h)
    (hs : hstep closing cpc.holdsMu (decide (cpc = .returned)) h (.gotReq rc) = some h') : HOk closing cpc h' := by
  obtain ⟨e1, e2, e3, e4, e5, e6, e7, e8, e9, e9', e9'', e10, e11⟩ := ok
  cases hpc : h.pc <;> simp [hstep, hpc, Pc.readable] at hs
  all_goals (first | (obtain ⟨hc, hs⟩ := hs; subst hs; hok_tac) | (subst hs; hok_tac))

theorem hstep_ok_closingSeen {closing : Bool} {cpc : ClosePc} {h h' : Handler}
    (hg : cpc = .returned → closing = true) (ok : HOk closing cpc h)
    (hs : hstep closing cpc.holdsMu (decide (cpc = .returned)) h (.closingSeen) = some h') : HOk closing cpc h' := by
  obtain ⟨e1, e2, e3, e4, e5, e6, e7, e8, e9, e9', e9'', e10, e11⟩ := ok
  cases hpc : h.pc <;> simp [hstep, hpc, Pc.readable] at hs
  all_goals (first | (obtain ⟨hc, hs⟩ := hs; subst hs; hok_tac) | (subst hs; hok_tac))

theorem hstep_ok_readErr {closing : Bool} {cpc : ClosePc} {h h' : Handler}
    (hg : cpc = .returned → closing = true) (ok : HOk closing cpc h)
    (hs : hstep closing cpc.holdsMu (decide (cpc = .returned)) h (.readErr) = some h') : HOk closing cpc h' := by
  obtain ⟨e1, e2, e3, e4, e5, e6, e7, e8, e9, e9', e9'', e10, e11⟩ := ok
  cases hpc : h.pc <;> simp [hstep, hpc, Pc.readable] at hs
  all_goals (first | (obtain ⟨hc, hs⟩ := hs; subst hs; hok_tac) | (subst hs; hok_tac))

theorem hstep_ok_reqmodStart {closing : Bool} {cpc : ClosePc} {h h' : Handler}
    (hg : cpc = .returned → closing = true) (ok : HOk closing cpc h)
    (hs : hstep closing cpc.holdsMu (decide (cpc = .returned)) h (.reqmodStart) = some h') : HOk closing cpc h' := by
  obtain ⟨e1, e2, e3, e4, e5, e6, e7, e8, e9, e9', e9'', e10, e11⟩ := ok
  cases hpc : h.pc <;> simp [hstep, hpc, Pc.readable] at hs
  all_goals (first | (obtain ⟨hc, hs⟩ := hs; subst hs; hok_tac) | (subst hs; hok_tac))

theorem hstep_ok_reqmodEnd {closing : Bool} {cpc : ClosePc} {h h' : Handler}
    (hg : cpc = .returned → closing = true) (ok : HOk closing cpc h)
    (hs : hstep closing cpc.holdsMu (decide (cpc = .returned)) h (.reqmodEnd) = some h') : HOk closing cpc h' := by
  obtain ⟨e1, e2, e3, e4, e5, e6, e7, e8, e9, e9', e9'', e10, e11⟩ := ok
  cases hpc : h.pc <;> simp [hstep, hpc, Pc.readable] at hs
  all_goals (first | (obtain ⟨hc, hs⟩ := hs; subst hs; hok_tac) | (subst hs; hok_tac))

theorem hstep_ok_rtStart {closing : Bool} {cpc : ClosePc} {h h' : Handler}
    (hg : cpc = .returned → closing = true) (ok : HOk closing cpc h)
    (hs : hstep closing cpc.holdsMu (decide (cpc = .returned)) h (.rtStart) = some h') : HOk closing cpc h' := by
  obtain ⟨e1, e2, e3, e4, e5, e6, e7, e8, e9, e9', e9'', e10, e11⟩ := ok
  cases hpc : h.pc <;> simp [hstep, hpc, Pc.readable] at hs
  all_goals (first | (obtain ⟨hc, hs⟩ := hs; subst hs; hok_tac) | (subst hs; hok_tac))

theorem hstep_ok_rtEnd {closing : Bool} {cpc : ClosePc} {h h' : Handler} {rc : Bool}
    (hg : cpc = .returned → closing = true) (ok : HOk closing cpc h)
    (hs : hstep closing cpc.holdsMu (decide (cpc = .returned)) h (.rtEnd rc) = some h') : HOk closing cpc h' := by
  obtain ⟨e1, e2, e3, e4, e5, e6, e7, e8, e9, e9', e9'', e10, e11⟩ := ok
  cases hpc : h.pc <;> simp [hstep, hpc, Pc.readable] at hs
  all_goals (first | (obtain ⟨hc, hs⟩ := hs; subst hs; hok_tac) | (subst hs; hok_tac))

theorem hstep_ok_resmodStart {closing : Bool} {cpc : ClosePc} {h h' : Handler}
    (hg : cpc = .returned → closing = true) (ok : HOk closing cpc h)
    (hs : hstep closing cpc.holdsMu (decide (cpc = .returned)) h (.resmodStart) = some h') : HOk closing cpc h' := by
  obtain ⟨e1, e2, e3, e4, e5, e6, e7, e8, e9, e9', e9'', e10, e11⟩ := ok
  cases hpc : h.pc <;> simp [hstep, hpc, Pc.readable] at hs
  all_goals (first | (obtain ⟨hc, hs⟩ := hs; subst hs; hok_tac) | (subst hs; hok_tac))

theorem hstep_ok_resmodEnd {closing : Bool} {cpc : ClosePc} {h h' : Handler}
    (hg : cpc = .returned → closing = true) (ok : HOk closing cpc h)
    (hs : hstep closing cpc.holdsMu (decide (cpc = .returned)) h (.resmodEnd) = some h') : HOk closing cpc h' := by
  obtain ⟨e1, e2, e3, e4, e5, e6, e7, e8, e9, e9', e9'', e10, e11⟩ := ok
  cases hpc : h.pc <;> simp [hstep, hpc, Pc.readable] at hs
  all_goals (first | (obtain ⟨hc, hs⟩ := hs; subst hs; hok_tac) | (subst hs; hok_tac))

theorem hstep_ok_decide {closing : Bool} {cpc : ClosePc} {h h' : Handler}
    (hg : cpc = .returned → closing = true) (ok : HOk closing cpc h)
    (hs : hstep closing cpc.holdsMu (decide (cpc = .returned)) h (.decide) = some h') : HOk closing cpc h' := by
  obtain ⟨e1, e2, e3, e4, e5, e6, e7, e8, e9, e9', e9'', e10, e11⟩ := ok
  cases hpc : h.pc <;> simp [hstep, hpc, Pc.readable] at hs
  all_goals (first | (obtain ⟨hc, hs⟩ := hs; subst hs; hok_tac) | (subst hs; hok_tac))

theorem hstep_ok_writeStart {closing : Bool} {cpc : ClosePc} {h h' : Handler}
    (hg : cpc = .returned → closing = true) (ok : HOk closing cpc h)
    (hs : hstep closing cpc.holdsMu (decide (cpc = .returned)) h (.writeStart) = some h') : HOk closing cpc h' := by
  obtain ⟨e1, e2, e3, e4, e5, e6, e7, e8, e9, e9', e9'', e10, e11⟩ := ok
  cases hpc : h.pc <;> simp [hstep, hpc, Pc.readable] at hs
  all_goals (first | (obtain ⟨hc, hs⟩ := hs; subst hs; hok_tac) | (subst hs; hok_tac))

theorem hstep_ok_writeEnd {closing : Bool} {cpc : ClosePc} {h h' : Handler}
    (hg : cpc = .returned → closing = true) (ok : HOk closing cpc h)
    (hs : hstep closing cpc.holdsMu (decide (cpc = .returned)) h (.writeEnd) = some h') : HOk closing cpc h' := by
  obtain ⟨e1, e2, e3, e4, e5, e6, e7, e8, e9, e9', e9'', e10, e11⟩ := ok
  cases hpc : h.pc <;> simp [hstep, hpc, Pc.readable] at hs
  rename_i b
  have e4' := e4 b (Or.inr hpc)
  clear e4
  subst hs
  cases hbo : h.bodyOpen <;> cases b
  all_goals first
   | (have hm := MarksOk_snoc (o := h.obsAtDecision) (a := h.reqClose || h.resClose) (b := false) e3 (by simp [e4'])
      clear e4'
      constructor <;> simp_all [Pc.inExchange, Pc.winding, Pc.afterClosing, Pc.counted, anyMarked_snoc] <;> (try omega)
      done)
   | (have hm := MarksOk_snoc (o := h.obsAtDecision) (a := h.reqClose || h.resClose) (b := true) e3 (by simp [e4'])
      clear e4'
      constructor <;> simp_all [Pc.inExchange, Pc.winding, Pc.afterClosing, Pc.counted, anyMarked_snoc] <;> (try omega)
      done)

theorem hstep_ok_closeConn {closing : Bool} {cpc : ClosePc} {h h' : Handler}
    (hg : cpc = .returned → closing = true) (ok : HOk closing cpc h)
    (hs : hstep closing cpc.holdsMu (decide (cpc = .returned)) h (.closeConn) = some h') : HOk closing cpc h' := by
  obtain ⟨e1, e2, e3, e4, e5, e6, e7, e8, e9, e9', e9'', e10, e11⟩ := ok
  cases hpc : h.pc <;> simp [hstep, hpc, Pc.readable] at hs
  all_goals (first | (obtain ⟨hc, hs⟩ := hs; subst hs; hok_tac) | (subst hs; hok_tac))

theorem hstep_ok_finish {closing : Bool} {cpc : ClosePc} {h h' : Handler}
    (hg : cpc = .returned → closing = true) (ok : HOk closing cpc h)
    (hs : hstep closing cpc.holdsMu (decide (cpc = .returned)) h (.finish) = some h') : HOk closing cpc h' := by
  obtain ⟨e1, e2, e3, e4, e5, e6, e7, e8, e9, e9', e9'', e10, e11⟩ := ok
  cases hpc : h.pc <;> simp [hstep, hpc, Pc.readable] at hs
  all_goals (first | (obtain ⟨hc, hs⟩ := hs; subst hs; hok_tac) | (subst hs; hok_tac))

theorem hstep_ok_gotConnect {closing : Bool} {cpc : ClosePc} {h h' : Handler}
    (hg : cpc = .returned → closing = true) (ok : HOk closing cpc h)
    (hs : hstep closing cpc.holdsMu (decide (cpc = .returned)) h (.gotConnect) = some h') : HOk closing cpc h' := by
  obtain ⟨e1, e2, e3, e4, e5, e6, e7, e8, e9, e9', e9'', e10, e11⟩ := ok
  cases hpc : h.pc <;> simp [hstep, hpc, Pc.readable] at hs
  all_goals (first | (obtain ⟨hc, hs⟩ := hs; subst hs; hok_tac) | (subst hs; hok_tac))

theorem hstep_ok_hijack {closing : Bool} {cpc : ClosePc} {h h' : Handler}
    (hg : cpc = .returned → closing = true) (ok : HOk closing cpc h)
    (hs : hstep closing cpc.holdsMu (decide (cpc = .returned)) h (.hijack) = some h') : HOk closing cpc h' := by
  obtain ⟨e1, e2, e3, e4, e5, e6, e7, e8, e9, e9', e9'', e10, e11⟩ := ok
  cases hpc : h.pc <;> simp [hstep, hpc, Pc.readable] at hs
  all_goals (first | (obtain ⟨hc, hs⟩ := hs; subst hs; hok_tac) | (subst hs; hok_tac))

theorem hstep_ok_dialStart {closing : Bool} {cpc : ClosePc} {h h' : Handler}
    (hg : cpc = .returned → closing = true) (ok : HOk closing cpc h)
    (hs : hstep closing cpc.holdsMu (decide (cpc = .returned)) h (.dialStart) = some h') : HOk closing cpc h' := by
  obtain ⟨e1, e2, e3, e4, e5, e6, e7, e8, e9, e9', e9'', e10, e11⟩ := ok
  cases hpc : h.pc <;> simp [hstep, hpc, Pc.readable] at hs
  all_goals (first | (obtain ⟨hc, hs⟩ := hs; subst hs; hok_tac) | (subst hs; hok_tac))

theorem hstep_ok_dialEnd {closing : Bool} {cpc : ClosePc} {h h' : Handler} {dk : Bool}
    (hg : cpc = .returned → closing = true) (ok : HOk closing cpc h)
    (hs : hstep closing cpc.holdsMu (decide (cpc = .returned)) h (.dialEnd dk) = some h') : HOk closing cpc h' := by
  obtain ⟨e1, e2, e3, e4, e5, e6, e7, e8, e9, e9', e9'', e10, e11⟩ := ok
  cases hpc : h.pc <;> simp [hstep, hpc, Pc.readable] at hs
  all_goals (first | (obtain ⟨hc, hs⟩ := hs; subst hs; hok_tac) | (subst hs; hok_tac))

theorem hstep_ok_mitmAccept {closing : Bool} {cpc : ClosePc} {h h' : Handler}
    (hg : cpc = .returned → closing = true) (ok : HOk closing cpc h)
    (hs : hstep closing cpc.holdsMu (decide (cpc = .returned)) h (.mitmAccept) = some h') : HOk closing cpc h' := by
  obtain ⟨e1, e2, e3, e4, e5, e6, e7, e8, e9, e9', e9'', e10, e11⟩ := ok
  cases hpc : h.pc <;> simp [hstep, hpc, Pc.readable] at hs
  all_goals (first | (obtain ⟨hc, hs⟩ := hs; subst hs; hok_tac) | (subst hs; hok_tac))

theorem hstep_ok_cwriteStart {closing : Bool} {cpc : ClosePc} {h h' : Handler}
    (hg : cpc = .returned → closing = true) (ok : HOk closing cpc h)
    (hs : hstep closing cpc.holdsMu (decide (cpc = .returned)) h (.cwriteStart) = some h') : HOk closing cpc h' := by
  obtain ⟨e1, e2, e3, e4, e5, e6, e7, e8, e9, e9', e9'', e10, e11⟩ := ok
  cases hpc : h.pc <;> simp [hstep, hpc, Pc.readable] at hs
  all_goals (first | (obtain ⟨hc, hs⟩ := hs; subst hs; hok_tac) | (subst hs; hok_tac))

theorem hstep_ok_writeErr {closing : Bool} {cpc : ClosePc} {h h' : Handler}
    (hg : cpc = .returned → closing = true) (ok : HOk closing cpc h)
    (hs : hstep closing cpc.holdsMu (decide (cpc = .returned)) h (.writeErr) = some h') : HOk closing cpc h' := by
  obtain ⟨e1, e2, e3, e4, e5, e6, e7, e8, e9, e9', e9'', e10, e11⟩ := ok
  cases hpc : h.pc <;> simp [hstep, hpc, Pc.readable] at hs
  all_goals (first | (obtain ⟨hc, hs⟩ := hs; subst hs; hok_tac) | (subst hs; hok_tac))

theorem hstep_ok_tunnelEnd {closing : Bool} {cpc : ClosePc} {h h' : Handler}
    (hg : cpc = .returned → closing = true) (ok : HOk closing cpc h)
    (hs : hstep closing cpc.holdsMu (decide (cpc = .returned)) h (.tunnelEnd) = some h') : HOk closing cpc h' := by
  obtain ⟨e1, e2, e3, e4, e5, e6, e7, e8, e9, e9', e9'', e10, e11⟩ := ok
  cases hpc : h.pc <;> simp [hstep, hpc, Pc.readable] at hs
  all_goals (first | (obtain ⟨hc, hs⟩ := hs; subst hs; hok_tac) | (subst hs; hok_tac))

theorem hstep_ok_h2Stop {closing : Bool} {cpc : ClosePc} {h h' : Handler}
    (hg : cpc = .returned → closing = true) (ok : HOk closing cpc h)
    (hs : hstep closing cpc.holdsMu (decide (cpc = .returned)) h (.h2Stop) = some h') : HOk closing cpc h' := by
  obtain ⟨e1, e2, e3, e4, e5, e6, e7, e8, e9, e9', e9'', e10, e11⟩ := ok
  cases hpc : h.pc <;> simp [hstep, hpc, Pc.readable] at hs
  all_goals (first | (obtain ⟨hc, hs⟩ := hs; subst hs; hok_tac) | (subst hs; hok_tac))

theorem hstep_ok_h2PeerEnd {closing : Bool} {cpc : ClosePc} {h h' : Handler}
    (hg : cpc = .returned → closing = true) (ok : HOk closing cpc h)
    (hs : hstep closing cpc.holdsMu (decide (cpc = .returned)) h (.h2PeerEnd) = some h') : HOk closing cpc h' := by
  obtain ⟨e1, e2, e3, e4, e5, e6, e7, e8, e9, e9', e9'', e10, e11⟩ := ok
  cases hpc : h.pc <;> simp [hstep, hpc, Pc.readable] at hs
  all_goals (first | (obtain ⟨hc, hs⟩ := hs; subst hs; hok_tac) | (subst hs; hok_tac))

theorem hstep_ok_gotReqOpen {closing : Bool} {cpc : ClosePc} {h h' : Handler} {rc : Bool}
    (hg : cpc = .returned → closing = true) (ok : HOk closing cpc h)
    (hs : hstep closing cpc.holdsMu (decide (cpc = .returned)) h (.gotReqOpen rc) = some h') : HOk closing cpc h' := by
  obtain ⟨e1, e2, e3, e4, e5, e6, e7, e8, e9, e9', e9'', e10, e11⟩ := ok
  cases hpc : h.pc <;> simp [hstep, hpc, Pc.readable] at hs
  all_goals (first | (obtain ⟨hc, hs⟩ := hs; subst hs; hok_tac) | (subst hs; hok_tac))

theorem hstep_ok_bodyDone {closing : Bool} {cpc : ClosePc} {h h' : Handler}
    (hg : cpc = .returned → closing = true) (ok : HOk closing cpc h)
    (hs : hstep closing cpc.holdsMu (decide (cpc = .returned)) h (.bodyDone) = some h') : HOk closing cpc h' := by
  obtain ⟨e1, e2, e3, e4, e5, e6, e7, e8, e9, e9', e9'', e10, e11⟩ := ok
  cases hpc : h.pc <;> simp [hstep, hpc, Pc.readable] at hs
  rename_i b
  subst hs
  cases b <;> hok_tac

theorem hstep_ok_rtFail {closing : Bool} {cpc : ClosePc} {h h' : Handler}
    (hg : cpc = .returned → closing = true) (ok : HOk closing cpc h)
    (hs : hstep closing cpc.holdsMu (decide (cpc = .returned)) h (.rtFail) = some h') : HOk closing cpc h' := by
  obtain ⟨e1, e2, e3, e4, e5, e6, e7, e8, e9, e9', e9'', e10, e11⟩ := ok
  cases hpc : h.pc <;> simp [hstep, hpc, Pc.readable] at hs
  all_goals (first | (obtain ⟨hc, hs⟩ := hs; subst hs; hok_tac) | (subst hs; hok_tac))

theorem hstep_ok_cwriteEnd {closing : Bool} {cpc : ClosePc} {h h' : Handler}
    (hg : cpc = .returned → closing = true) (ok : HOk closing cpc h)
    (hs : hstep closing cpc.holdsMu (decide (cpc = .returned)) h (.cwriteEnd) = some h') : HOk closing cpc h' := by
  obtain ⟨e1, e2, e3, e4, e5, e6, e7, e8, e9, e9', e9'', e10, e11⟩ := ok
  cases hpc : h.pc <;> simp [hstep, hpc, Pc.readable] at hs
  subst hs
  cases hcn : h.conn <;> hok_tac <;> omega

theorem hstep_ok_peeked {closing : Bool} {cpc : ClosePc} {h h' : Handler} {tls : Bool}
    (hg : cpc = .returned → closing = true) (ok : HOk closing cpc h)
    (hs : hstep closing cpc.holdsMu (decide (cpc = .returned)) h (.peeked tls) = some h') : HOk closing cpc h' := by
  obtain ⟨e1, e2, e3, e4, e5, e6, e7, e8, e9, e9', e9'', e10, e11⟩ := ok
  cases hpc : h.pc <;> simp [hstep, hpc, Pc.readable] at hs
  subst hs
  cases tls <;> hok_tac

theorem hstep_ok_handshakeEnd {closing : Bool} {cpc : ClosePc} {h h' : Handler} {r : Hs}
    (hg : cpc = .returned → closing = true) (ok : HOk closing cpc h)
    (hs : hstep closing cpc.holdsMu (decide (cpc = .returned)) h (.handshakeEnd r) = some h') : HOk closing cpc h' := by
  obtain ⟨e1, e2, e3, e4, e5, e6, e7, e8, e9, e9', e9'', e10, e11⟩ := ok
  cases hpc : h.pc <;> simp [hstep, hpc, Pc.readable] at hs
  subst hs
  cases r <;> hok_tac

theorem hstep_ok {closing : Bool} {cpc : ClosePc} {h h' : Handler} {l : HL}
    (hg : cpc = .returned → closing = true) (ok : HOk closing cpc h)
    (hs : hstep closing cpc.holdsMu (decide (cpc = .returned)) h l = some h') : HOk closing cpc h' := by
  cases l with
  | spawn => exact hstep_ok_spawn hg ok hs
  | add => exact hstep_ok_add hg ok hs
  | checkClosing => exact hstep_ok_checkClosing hg ok hs
  | firstByte => exact hstep_ok_firstByte hg ok hs
  | gotReq rc => exact hstep_ok_gotReq hg ok hs
  | closingSeen => exact hstep_ok_closingSeen hg ok hs
  | readErr => exact hstep_ok_readErr hg ok hs
  | reqmodStart => exact hstep_ok_reqmodStart hg ok hs
  | reqmodEnd => exact hstep_ok_reqmodEnd hg ok hs
  | rtStart => exact hstep_ok_rtStart hg ok hs
  | rtEnd rc => exact hstep_ok_rtEnd hg ok hs
  | resmodStart => exact hstep_ok_resmodStart hg ok hs
  | resmodEnd => exact hstep_ok_resmodEnd hg ok hs
  | decide => exact hstep_ok_decide hg ok hs
  | writeStart => exact hstep_ok_writeStart hg ok hs
  | writeEnd => exact hstep_ok_writeEnd hg ok hs
  | closeConn => exact hstep_ok_closeConn hg ok hs
  | finish => exact hstep_ok_finish hg ok hs
  | gotConnect => exact hstep_ok_gotConnect hg ok hs
  | hijack => exact hstep_ok_hijack hg ok hs
  | dialStart => exact hstep_ok_dialStart hg ok hs
  | dialEnd ok' => exact hstep_ok_dialEnd hg ok hs
  | mitmAccept => exact hstep_ok_mitmAccept hg ok hs
  | cwriteStart => exact hstep_ok_cwriteStart hg ok hs
  | cwriteEnd => exact hstep_ok_cwriteEnd hg ok hs
  | writeErr => exact hstep_ok_writeErr hg ok hs
  | tunnelEnd => exact hstep_ok_tunnelEnd hg ok hs
  | peeked tls => exact hstep_ok_peeked hg ok hs
  | handshakeEnd r => exact hstep_ok_handshakeEnd hg ok hs
  | h2Stop => exact hstep_ok_h2Stop hg ok hs
  | h2PeerEnd => exact hstep_ok_h2PeerEnd hg ok hs
  | rtFail => exact hstep_ok_rtFail hg ok hs
  | gotReqOpen rc => exact hstep_ok_gotReqOpen hg ok hs
  | bodyDone => exact hstep_ok_bodyDone hg ok hs

/-! ### facts about the control part of `hstep` -/

theorem hstep_pc_ne_accepted {c mu r : Bool} {h h' : Handler} {l : HL}
    (hs : hstep c mu r h l = some h') : h'.pc ≠ .accepted := by
  cases l <;> cases hpc : h.pc <;> simp [hstep, hpc, Pc.readable] at hs
  all_goals (first | (obtain ⟨_, hs⟩ := hs; subst hs; simp) | (subst hs; simp) | skip)
  all_goals (first | (cases c <;> simp; done) | (split <;> simp; done) | (rename_i b; cases b <;> simp <;> (try (cases hbo : h.bodyOpen <;> simp [hbo]))))

theorem hstep_from_accepted {c mu r : Bool} {h h' : Handler} {l : HL}
    (hs : hstep c mu r h l = some h') (hp : h.pc = .accepted) : l = .spawn := by
  cases l <;> simp [hstep, hp, Pc.readable] at hs ⊢

theorem hstep_spawn_pc {c mu r : Bool} {h h' : Handler}
    (hs : hstep c mu r h .spawn = some h') : h.pc = .accepted ∧ h'.pc = .spawned := by
  cases hpc : h.pc <;> simp [hstep, hpc] at hs
  subst hs; simp

/-- Number of handlers counted in the wait group. -/
def cnt (hs : List Handler) : Nat := hs.countP (·.pc.counted)

theorem hstep_counted {c mu r : Bool} {h h' : Handler} {l : HL}
    (hs : hstep c mu r h l = some h') :
    (l = .add → h.pc.counted = false ∧ h'.pc.counted = true) ∧
    (l = .finish → h.pc.counted = true ∧ h'.pc.counted = false) ∧
    (l ≠ .add → l ≠ .finish → h'.pc.counted = h.pc.counted) := by
  cases l <;> cases hpc : h.pc <;> simp [hstep, hpc, Pc.readable] at hs
  all_goals (first | (obtain ⟨_, hs⟩ := hs; subst hs; simp [Pc.counted]) | (subst hs; simp [Pc.counted]) | skip)
  all_goals (first | (cases c <;> simp [Pc.counted]; done) | (split <;> simp [Pc.counted]; done) | (cases hcn : h.conn <;> simp [Pc.counted]; done) | (rename_i b; cases b <;> simp [Pc.counted] <;> (try (cases hbo : h.bodyOpen <;> simp [hbo, Pc.counted]))))

theorem cnt_set {hs : List Handler} {k : Nat} {h h' : Handler} (hk : hs[k]? = some h) :
    cnt (hs.set k h') + (if h.pc.counted then 1 else 0) = cnt hs + (if h'.pc.counted then 1 else 0) := by
  induction hs generalizing k with
  | nil => simp at hk
  | cons a t ih =>
    cases k with
    | zero =>
      simp at hk; subst hk
      simp only [List.set_cons_zero, cnt, List.countP_cons]
      split <;> split <;> omega
    | succ k =>
      simp at hk
      have := ih hk
      simp only [List.set_cons_succ, cnt, List.countP_cons] at this ⊢
      omega

theorem cnt_pos {hs : List Handler} {k : Nat} {h : Handler} (hk : hs[k]? = some h) (hc : h.pc.counted = true) :
    0 < cnt hs := by
  have hm : h ∈ hs := List.mem_of_getElem? hk
  exact List.countP_pos_iff.mpr ⟨h, hm, hc⟩

theorem cnt_zero {hs : List Handler} (hz : cnt hs = 0) : ∀ h ∈ hs, h.pc.counted = false := by
  intro h hm
  have := List.countP_eq_zero.mp hz h hm
  simpa using this

/-! ### the global invariant -/

structure Good (s : Sys) : Prop where
  chan : s.closing = s.cpc.chanIsClosed
  wg : s.wg = cnt s.hs
  hok : ∀ h ∈ s.hs, HOk s.closing s.cpc h
  acc : ∀ k h, s.hs[k]? = some h → (h.pc = .accepted ↔ s.acc = .holding k)

theorem good_init : Good init := by
  constructor <;> simp [init, ClosePc.chanIsClosed, cnt]

theorem HOk.mono {c c' : Bool} {cpc cpc' : ClosePc} {h : Handler} (ok : HOk c cpc h)
    (hc : c = true → c' = true)
    (hz : cpc' = .zeroSeen → h.pc.counted = false)
    (hr : cpc' = .returned → h.pc.afterClosing = true) : HOk c' cpc' h :=
  { ok with obs := fun x => hc (ok.obs x), late := fun x => ⟨hc (ok.late x).1, (ok.late x).2⟩, zero := hz, ret := hr }

theorem afterClosing_of_not_counted {p : Pc} (h : p.counted = false) : p.afterClosing = true := by
  cases p <;> simp_all [Pc.counted, Pc.afterClosing]

theorem step_good_h {s s' : Sys} {k : Nat} {l : HL} (g : Good s) (hs : step s (.h k l) = some s') : Good s' := by
  simp only [step] at hs
  split at hs
  · cases hs
  · rename_i h hk
    split at hs
    · cases hs
    · rename_i hsp
      split at hs
      · cases hs
      · rename_i h' hh
        cases hs
        have hg : s.cpc = .returned → s.closing = true := by
          intro e; rw [g.chan, e]; rfl
        have hmem : h ∈ s.hs := List.mem_of_getElem? hk
        have hok' : HOk s.closing s.cpc h' := hstep_ok hg (g.hok h hmem) hh
        have hcnt := hstep_counted hh
        have hset := cnt_set (h' := h') hk
        refine ⟨g.chan, ?_, ?_, ?_⟩
        · -- wait-group counter
          show l.wgAfter s.wg = cnt (s.hs.set k h')
          by_cases ha : l = .add
          · subst ha
            have := hcnt.1 rfl
            simp [this.1, this.2] at hset
            simp [HL.wgAfter, g.wg]; omega
          · by_cases hf : l = .finish
            · subst hf
              have := hcnt.2.1 rfl
              have hp := cnt_pos hk this.1
              simp [this.1, this.2] at hset
              simp [HL.wgAfter, g.wg]; omega
            · have := hcnt.2.2 ha hf
              rw [this] at hset
              have : l.wgAfter s.wg = s.wg := by cases l <;> simp_all [HL.wgAfter]
              rw [this, g.wg]; omega
        · intro x hx
          rcases List.mem_or_eq_of_mem_set hx with hx | hx
          · exact g.hok x hx
          · subst hx; exact hok'
        · intro j x hj
          show x.pc = .accepted ↔ (if l = .spawn then AccPc.top else s.acc) = .holding j
          by_cases hjk : j = k
          · subst hjk
            have hlt : j < s.hs.length := by
              rcases List.getElem?_eq_some_iff.mp hk with ⟨hlt, _⟩; exact hlt
            simp [List.getElem?_set, hlt] at hj
            subst hj
            have hne := hstep_pc_ne_accepted hh
            by_cases hl : l = .spawn
            · simp [hl, hne]
            · simp only [hl, if_false]
              constructor
              · intro e; exact absurd e hne
              · intro e
                have := (g.acc j h hk).mpr e
                exact absurd (hstep_from_accepted hh this) hl
          · have hj' : s.hs[j]? = some x := by
              rw [List.getElem?_set_ne (Ne.symm hjk)] at hj; exact hj
            have hacc := g.acc j x hj'
            by_cases hl : l = .spawn
            · simp only [hl, if_true]
              have hsp' : s.acc = .holding k := by
                by_cases e : s.acc = .holding k
                · exact e
                · exact absurd ⟨hl, e⟩ hsp
              constructor
              · intro e
                have := hacc.mp e
                rw [hsp'] at this
                injection this with this
                exact absurd this.symm hjk
              · intro e; cases e
            · simp only [hl, if_false]; exact hacc

theorem step_good {s s' : Sys} {l : Label} (g : Good s) (hs : step s l = some s') : Good s' := by
  cases l with
  | h k l => exact step_good_h g hs
  | serveCheck =>
    simp only [step] at hs
    split at hs <;> cases hs
    rename_i ha
    refine ⟨g.chan, g.wg, g.hok, ?_⟩
    intro k h hk
    have := g.acc k h hk
    rw [ha] at this
    show h.pc = .accepted ↔ (if s.closing = true then AccPc.stopped else AccPc.accepting) = .holding k
    constructor
    · intro e; exact absurd (this.mp e) (by simp)
    · intro e; split at e <;> cases e
  | accept =>
    simp only [step] at hs
    split at hs <;> cases hs
    rename_i ha
    refine ⟨g.chan, ?_, ?_, ?_⟩
    · show s.wg = cnt (s.hs ++ [_])
      simp [cnt, List.countP_append, Pc.counted, g.wg]
    · intro h hm
      rcases List.mem_append.mp hm with hm | hm
      · exact g.hok h hm
      · simp at hm; subst hm
        constructor <;> simp [Pc.inExchange, Pc.winding, Pc.afterClosing, Pc.counted, anyMarked, MarksOk]
    · intro k h hk
      show h.pc = .accepted ↔ AccPc.holding s.hs.length = .holding k
      by_cases hlt : k < s.hs.length
      · rw [List.getElem?_append_left hlt] at hk
        have := g.acc k h hk
        rw [ha] at this
        constructor
        · intro e; exact absurd (this.mp e) (by simp)
        · intro e; injection e with e; omega
      · have hge : s.hs.length ≤ k := Nat.le_of_not_lt hlt
        rw [List.getElem?_append_right hge] at hk
        have hk0 : k - s.hs.length = 0 := by
          cases hd : k - s.hs.length with
          | zero => rfl
          | succ n => rw [hd] at hk; simp at hk
        rw [hk0] at hk
        simp at hk; subst hk
        have : k = s.hs.length := by omega
        simp [this]
  | closeCall =>
    simp only [step] at hs
    split at hs <;> cases hs
    rename_i hc
    refine ⟨?_, g.wg, ?_, g.acc⟩
    · show s.closing = ClosePc.chanIsClosed .called
      rw [g.chan, hc]; rfl
    · intro h hm
      exact (g.hok h hm).mono id (by intro e; cases e) (by intro e; cases e)
  | closeChan =>
    simp only [step] at hs
    split at hs <;> cases hs
    refine ⟨rfl, g.wg, ?_, g.acc⟩
    intro h hm
    exact (g.hok h hm).mono (fun _ => rfl) (by intro e; cases e) (by intro e; cases e)
  | lock =>
    simp only [step] at hs
    split at hs <;> cases hs
    rename_i hc
    refine ⟨?_, g.wg, ?_, g.acc⟩
    · show s.closing = ClosePc.chanIsClosed .locked
      rw [g.chan, hc]; rfl
    · intro h hm
      exact (g.hok h hm).mono id (by intro e; cases e) (by intro e; cases e)
  | waitZero =>
    simp only [step] at hs
    split at hs <;> cases hs
    rename_i hc
    refine ⟨?_, g.wg, ?_, g.acc⟩
    · show s.closing = ClosePc.chanIsClosed .zeroSeen
      rw [g.chan, hc.1]; rfl
    · intro h hm
      have hz := cnt_zero (by rw [← g.wg]; exact hc.2) h hm
      exact (g.hok h hm).mono id (fun _ => hz) (by intro e; cases e)
  | ret =>
    simp only [step] at hs
    split at hs <;> cases hs
    rename_i hc
    refine ⟨?_, g.wg, ?_, g.acc⟩
    · show s.closing = ClosePc.chanIsClosed .returned
      rw [g.chan, hc]; rfl
    · intro h hm
      have hz := (g.hok h hm).zero hc
      exact (g.hok h hm).mono id (by intro e; cases e) (fun _ => afterClosing_of_not_counted hz)
  | closeCall2 =>
    simp only [step] at hs
    cases hs
    exact ⟨g.chan, g.wg, g.hok, g.acc⟩
  | closeChan2 =>
    simp only [step] at hs
    split at hs <;> cases hs
    exact ⟨g.chan, g.wg, g.hok, g.acc⟩

theorem run_good {sched : List Label} {s s' : Sys} (g : Good s) (hr : run s sched = some s') : Good s' := by
  induction sched generalizing s with
  | nil => simp [run] at hr; subst hr; exact g
  | cons l ls ih =>
    simp only [run] at hr
    split at hr
    · cases hr
    · rename_i s1 h1
      exact ih (step_good g h1) hr

theorem reachable_good {s : Sys} (h : Reachable s) : Good s := by
  obtain ⟨sched, hr⟩ := h
  exact run_good good_init hr

theorem run_append {s : Sys} {a b : List Label} :
    run s (a ++ b) = (run s a).bind (fun s1 => run s1 b) := by
  induction a generalizing s with
  | nil => simp [run]
  | cons l ls ih =>
    simp only [List.cons_append, run]
    split <;> simp [ih]

theorem reachable_step {s s' : Sys} {l : Label} (h : Reachable s) (hs : step s l = some s') : Reachable s' := by
  obtain ⟨sched, hr⟩ := h
  refine ⟨sched ++ [l], ?_⟩
  rw [run_append, hr]
  simp [run, hs]

/-! ### progress and termination of shutdown -/

def Pc.rank : Pc → Nat
  | .accepted => 20 | .spawned => 19 | .added => 18 | .haveReq => 17 | .inReqmod => 16 | .postReqmod => 15
  | .inRoundTrip => 14 | .dialing => 14 | .postRoundTrip => 13 | .inResmod => 12 | .postResmod => 11
  | .decided _ => 10 | .cwriting => 10 | .writing _ => 9
  | .tunnel => 8 | .mitmPeek => 8 | .mitmHandshake => 7 | .h2session => 6 | .drainBody _ => 5
  | .idleRead => 4 | .midHead => 3
  | .closingConn => 2 | .closed => 1 | .done => 0

def ClosePc.rank : ClosePc → Nat
  | .idle => 5 | .called => 4 | .chanClosed => 3 | .locked => 2 | .zeroSeen => 1 | .returned => 0

def AccPc.rank : AccPc → Nat
  | .holding _ => 2 | .top => 1 | .accepting => 0 | .stopped => 0

def hsum (hs : List Handler) : Nat := (hs.map (·.pc.rank)).sum

/-- Termination measure: strictly decreased by every move of the proxy itself and by every move of a
peer that ends the wait of a peer-blocked handler. -/
def measure (s : Sys) : Nat := hsum s.hs + s.cpc.rank + s.acc.rank + s.extra

/-- Shutdown is complete: `Close` has returned and every accepted connection's handler is done. -/
def Final (s : Sys) : Prop := s.cpc = .returned ∧ ∀ h ∈ s.hs, h.pc = .done

/-- Moves that drain the proxy: its own moves and the peer moves that end an open tunnel / a pending
MITM handshake. -/
def Label.drain (l : Label) : Bool := l.internal || l.peerMove

theorem hsum_set {hs : List Handler} {k : Nat} {h h' : Handler} (hk : hs[k]? = some h) :
    hsum (hs.set k h') + h.pc.rank = hsum hs + h'.pc.rank := by
  induction hs generalizing k with
  | nil => simp at hk
  | cons a t ih =>
    cases k with
    | zero =>
      simp at hk; subst hk
      simp only [List.set_cons_zero, hsum, List.map_cons, List.sum_cons]; omega
    | succ k =>
      simp at hk
      have := ih hk
      simp only [List.set_cons_succ, hsum, List.map_cons, List.sum_cons] at this ⊢
      omega

/-- Every handler step except the arrival of a new request decreases the rank. -/
theorem hstep_rank {c mu r : Bool} {h h' : Handler} {l : HL}
    (hs : hstep c mu r h l = some h') (hl : ∀ rc, l ≠ .gotReq rc) (hl2 : l ≠ .gotConnect)
    (hl3 : ∀ rc, l ≠ .gotReqOpen rc) :
    h'.pc.rank < h.pc.rank := by
  cases l <;> cases hpc : h.pc <;> simp [hstep, hpc, Pc.readable] at hs
  all_goals (first | (obtain ⟨_, hs⟩ := hs; subst hs; simp [Pc.rank]; done) | (subst hs; simp [Pc.rank]; done) | skip)
  all_goals (first
    | (subst hs; cases c <;> simp [Pc.rank]; done)
    | (subst hs; split <;> simp [Pc.rank]; done)
    | (subst hs; cases hcn : h.conn <;> simp [Pc.rank]; done)
    | (subst hs; rename_i b; cases b <;> simp [Pc.rank] <;> (try (cases hbo : h.bodyOpen <;> simp [hbo, Pc.rank])); done)
    | (exact absurd rfl (hl _))
    | (exact absurd rfl hl2)
    | (exact absurd rfl (hl3 _)))

theorem drain_step_decreases {s s' : Sys} {l : Label} (hs : step s l = some s') (hi : l.drain = true) :
    measure s' < measure s := by
  cases l with
  | accept => simp [Label.drain, Label.internal, Label.peerMove] at hi
  | closeCall => simp [Label.drain, Label.internal, Label.peerMove] at hi
  | closeCall2 => simp [Label.drain, Label.internal, Label.peerMove] at hi
  | closeChan2 =>
    simp only [step] at hs
    split at hs <;> cases hs
    rename_i hc
    simp only [measure]
    omega
  | serveCheck =>
    simp only [step] at hs
    split at hs <;> cases hs
    rename_i ha
    simp only [measure, ha]
    split <;> simp [AccPc.rank]
  | closeChan =>
    simp only [step] at hs
    split at hs <;> cases hs
    rename_i hc
    simp [measure, hc, ClosePc.rank]
  | lock =>
    simp only [step] at hs
    split at hs <;> cases hs
    rename_i hc
    simp [measure, hc, ClosePc.rank]
  | waitZero =>
    simp only [step] at hs
    split at hs <;> cases hs
    rename_i hc
    simp [measure, hc.1, ClosePc.rank]
  | ret =>
    simp only [step] at hs
    split at hs <;> cases hs
    rename_i hc
    simp [measure, hc, ClosePc.rank]
  | h k l =>
    have hl : ∀ rc, l ≠ .gotReq rc := by
      intro rc e; subst e; simp [Label.drain, Label.internal, Label.peerMove] at hi
    have hl2 : l ≠ .gotConnect := by
      intro e; subst e; simp [Label.drain, Label.internal, Label.peerMove] at hi
    have hl3 : ∀ rc, l ≠ .gotReqOpen rc := by
      intro rc e; subst e; simp [Label.drain, Label.internal, Label.peerMove] at hi
    simp only [step] at hs
    split at hs
    · cases hs
    · rename_i h hk
      split at hs
      · cases hs
      · rename_i hsp
        split at hs
        · cases hs
        · rename_i h' hh
          cases hs
          have hr := hstep_rank hh hl hl2 hl3
          have hset := hsum_set (h' := h') hk
          simp only [measure]
          have hacc : (if l = .spawn then AccPc.top else s.acc).rank ≤ s.acc.rank := by
            by_cases e : l = .spawn
            · simp only [e, if_true]
              have : s.acc = .holding k := by
                by_cases e2 : s.acc = .holding k
                · exact e2
                · exact absurd ⟨e, e2⟩ hsp
              simp [this, AccPc.rank]
            · simp [e]
          omega

theorem internal_step_decreases {s s' : Sys} {l : Label} (hs : step s l = some s') (hi : l.internal = true) :
    measure s' < measure s :=
  drain_step_decreases hs (by simp [Label.drain, hi])

theorem step_cpc_ne_idle {s s' : Sys} {l : Label} (hs : step s l = some s') (hc : s.cpc ≠ .idle) :
    s'.cpc ≠ .idle := by
  cases l <;> simp only [step] at hs
  case h k l =>
    split at hs
    · cases hs
    · split at hs
      · cases hs
      · split at hs <;> cases hs
        exact hc
  case closeCall2 => cases hs; exact hc
  all_goals (split at hs <;> cases hs) <;> first | exact hc | simp

/-- The next move of a counted handler once shutdown has been signalled. For a peer-blocked handler it
is the move of the peer that ends the wait. -/
def Handler.next (h : Handler) : HL :=
  match h.pc with
  | .added => .checkClosing
  | .idleRead | .midHead => .closingSeen
  | .haveReq => .reqmodStart
  | .inReqmod => .reqmodEnd
  | .postReqmod => if h.conn = .no then .rtStart else .dialStart
  | .inRoundTrip => .rtEnd false
  | .dialing => .dialEnd false
  | .postRoundTrip => .resmodStart
  | .inResmod => .resmodEnd
  | .postResmod => if h.conn = .no then .decide else .cwriteStart
  | .decided _ => .writeStart
  | .writing _ => .writeEnd
  | .cwriting => .cwriteEnd
  | .h2session => .h2Stop
  | .tunnel => .tunnelEnd
  | .mitmPeek => .peeked false
  | .mitmHandshake => .handshakeEnd .fail
  | .drainBody _ => .bodyDone
  | .closingConn => .closeConn
  | _ => .finish

theorem next_enabled {mu r : Bool} {h : Handler} (hc : h.pc.counted = true) :
    (hstep true mu r h h.next).isSome = true ∧ h.next ≠ .spawn ∧
    ((Label.h 0 h.next).internal = true ∨
      (h.pc.peerBlocked = true ∧ (Label.h 0 h.next).peerMove = true)) := by
  cases hp : h.pc <;> cases hcn : h.conn <;>
    simp_all [Pc.counted, Handler.next, hstep, Pc.readable, Label.internal, Label.peerMove, Pc.peerBlocked]

theorem internal_h_irrel (k : Nat) (l : HL) : (Label.h k l).internal = (Label.h 0 l).internal := by
  cases l <;> rfl

theorem peerMove_h_irrel (k : Nat) (l : HL) : (Label.h k l).peerMove = (Label.h 0 l).peerMove := by
  cases l <;> rfl

/-- Progress: after `Close` was called and before shutdown is complete some move is enabled that is
either a move of the proxy itself or the peer move that ends the wait of a peer-blocked handler. -/
theorem progress_gen {s : Sys} (hr : Reachable s) (hc : s.cpc ≠ .idle) (hnf : ¬ Final s) :
    ∃ l, (step s l).isSome = true ∧
      (l.internal = true ∨ (l.peerMove = true ∧ ∃ h ∈ s.hs, h.pc.peerBlocked = true)) := by
  have g := reachable_good hr
  by_cases hcalled : s.cpc = .called
  · exact ⟨.closeChan, by simp [step, hcalled], Or.inl rfl⟩
  have hclosing : s.closing = true := by
    rw [g.chan]; cases hcp : s.cpc <;> simp_all [ClosePc.chanIsClosed]
  by_cases hex : ∃ h ∈ s.hs, h.pc.counted = true
  · obtain ⟨h, hm, hcnt⟩ := hex
    obtain ⟨k, hk⟩ := List.getElem?_of_mem hm
    have hn := next_enabled (mu := s.cpc.holdsMu) (r := decide (s.cpc = .returned)) hcnt
    refine ⟨.h k h.next, ?_, ?_⟩
    · simp only [step, hk, hclosing]
      have : ¬(h.next = .spawn ∧ s.acc ≠ .holding k) := fun e => hn.2.1 e.1
      simp only [this, if_false]
      cases hh : hstep true s.cpc.holdsMu (decide (s.cpc = .returned)) h h.next with
      | none => rw [hh] at hn; simp at hn
      | some h' => simp
    · rcases hn.2.2 with h1 | ⟨h1, h2⟩
      · left; rw [internal_h_irrel]; exact h1
      · right; rw [peerMove_h_irrel]; exact ⟨h2, h, hm, h1⟩
  · have hunc : ∀ h ∈ s.hs, h.pc.counted = false := by
      intro h hm
      cases hcn : h.pc.counted with
      | false => rfl
      | true => exact absurd ⟨h, hm, hcn⟩ hex
    have hwg : s.wg = 0 := by
      rw [g.wg]; exact List.countP_eq_zero.mpr (fun h hm => by simp [hunc h hm])
    cases hcp : s.cpc with
    | idle => exact absurd hcp hc
    | called => exact absurd hcp hcalled
    | chanClosed => exact ⟨.lock, by simp [step, hcp], Or.inl rfl⟩
    | locked => exact ⟨.waitZero, by simp [step, hcp, hwg], Or.inl rfl⟩
    | zeroSeen => exact ⟨.ret, by simp [step, hcp], Or.inl rfl⟩
    | returned =>
      have : ∃ h ∈ s.hs, h.pc ≠ .done := by
        apply Classical.byContradiction
        intro hno
        apply hnf
        refine ⟨hcp, fun h hm => ?_⟩
        apply Classical.byContradiction
        intro hne
        exact hno ⟨h, hm, hne⟩
      obtain ⟨h, hm, hnd⟩ := this
      obtain ⟨k, hk⟩ := List.getElem?_of_mem hm
      have hu := hunc h hm
      cases hp : h.pc <;> simp_all [Pc.counted]
      · -- accepted: `Serve` holds it, the `go` statement is enabled
        have hacc := (g.acc k h hk).mp hp
        exact ⟨.h k .spawn, by simp [step, hk, hacc, hstep, hp], Or.inl rfl⟩
      · -- spawned: `connsMu` is free again, `conns.Add(1)` is enabled
        exact ⟨.h k .add, by simp [step, hk, hstep, hp, hcp, ClosePc.holdsMu], Or.inl rfl⟩

/-- Progress by drain moves. -/
theorem progress {s : Sys} (hr : Reachable s) (hc : s.cpc ≠ .idle) (hnf : ¬ Final s) :
    ∃ l, l.drain = true ∧ (step s l).isSome = true := by
  obtain ⟨l, h1, h2⟩ := progress_gen hr hc hnf
  refine ⟨l, ?_, h1⟩
  rcases h2 with h2 | ⟨h2, _⟩ <;> simp [Label.drain, h2]

/-- Progress by moves of the proxy alone when no handler waits for a peer. -/
theorem progress_internal {s : Sys} (hr : Reachable s) (hc : s.cpc ≠ .idle) (hnf : ¬ Final s)
    (hnb : ∀ h ∈ s.hs, h.pc.peerBlocked = false) :
    ∃ l, l.internal = true ∧ (step s l).isSome = true := by
  obtain ⟨l, h1, h2⟩ := progress_gen hr hc hnf
  refine ⟨l, ?_, h1⟩
  rcases h2 with h2 | ⟨_, h, hm, hb⟩
  · exact h2
  · rw [hnb h hm] at hb; cases hb

/-! ### shutdown observable before the close decision ⇒ that response is marked -/

/-- The exchange is started and its close decision is still ahead. -/
def Pc.beforeDecision : Pc → Bool
  | .inReqmod | .postReqmod | .inRoundTrip | .postRoundTrip | .inResmod | .postResmod => true
  | _ => false

/-- Tracking the (non-CONNECT) exchange that will produce recorded response number `i` of a handler:
either it is still in flight and can only be decided "close", or it is complete and recorded as marked,
or it was dropped (hijacked by a modifier, or its write failed because the client went away) and the
handler is on its way out, so that no further response is ever recorded. -/
def Track (i : Nat) (h : Handler) : Prop :=
  (h.marks.length = i ∧ h.conn = .no ∧
    (h.pc.beforeDecision = true ∨ h.pc = .decided true ∨ h.pc = .writing true)) ∨
  (i < h.marks.length ∧ ∃ o a, h.marks[i]? = some (o, a, true)) ∨
  (h.marks.length = i ∧ h.pc.winding = true)

theorem hstep_track {i : Nat} {mu r : Bool} {h h' : Handler} {l : HL}
    (ht : Track i h) (hs : hstep true mu r h l = some h') : Track i h' := by
  rcases ht with ⟨h2, hcn, h3⟩ | ⟨hlt, o, a, h2⟩ | ⟨h2, hw⟩
  · rcases h3 with h3 | h3 | h3
    · cases l <;> cases hpc : h.pc <;> simp [hstep, hpc, hcn, Pc.readable, Pc.beforeDecision] at hs h3
      all_goals (subst hs; simp [Track, h2, hcn, Pc.beforeDecision, Pc.winding])
    · cases l <;> simp [hstep, h3, hcn, Pc.readable] at hs
      subst hs; left; simp [h2, hcn]
    · cases l <;> simp [hstep, h3, hcn, Pc.readable] at hs
      · subst hs; right; left
        refine ⟨by simp [h2], h.obsAtDecision, h.reqClose || h.resClose, ?_⟩
        simp [← h2]
      · subst hs; right; right; simp [h2, Pc.winding]
  · cases l <;> cases hpc : h.pc <;> simp [hstep, hpc, Pc.readable] at hs
    all_goals (first | (obtain ⟨_, hs⟩ := hs; subst hs) | subst hs)
    all_goals (right; left)
    all_goals first
      | exact ⟨hlt, o, a, h2⟩
      | (refine ⟨by simp; omega, o, a, ?_⟩
         simp [List.getElem?_append_left hlt, h2])
  · cases l <;> cases hpc : h.pc <;> simp [hstep, hpc, Pc.readable, Pc.winding] at hs hw
    all_goals first
      | (subst hs; right; right; simp_all [Pc.winding]; done)
      | (rename_i b; cases b <;> simp [Pc.winding] at hw; subst hs; right; right; simp [h2, Pc.winding])

theorem step_track {s s' : Sys} {l : Label} {k c : Nat} {h : Handler}
    (hc : s.closing = true) (hk : s.hs[k]? = some h) (ht : Track c h) (hs : step s l = some s') :
    s'.closing = true ∧ ∃ h', s'.hs[k]? = some h' ∧ Track c h' := by
  cases l with
  | h j l =>
    simp only [step] at hs
    split at hs
    · cases hs
    · rename_i hj hjk
      split at hs
      · cases hs
      · split at hs
        · cases hs
        · rename_i h' hh
          cases hs
          refine ⟨hc, ?_⟩
          by_cases e : j = k
          · subst e
            rw [hk] at hjk; cases hjk
            have hlt : j < s.hs.length := by
              rcases List.getElem?_eq_some_iff.mp hk with ⟨hlt, _⟩; exact hlt
            rw [hc] at hh
            exact ⟨h', by simp [List.getElem?_set, hlt], hstep_track ht hh⟩
          · exact ⟨h, by simp [List.getElem?_set_ne e, hk], ht⟩
  | accept =>
    simp only [step] at hs
    split at hs <;> cases hs
    have hlt : k < s.hs.length := by
      rcases List.getElem?_eq_some_iff.mp hk with ⟨hlt, _⟩; exact hlt
    exact ⟨hc, h, by simp [List.getElem?_append_left hlt, hk], ht⟩
  | serveCheck => simp only [step] at hs; split at hs <;> cases hs; exact ⟨hc, h, hk, ht⟩
  | closeCall => simp only [step] at hs; split at hs <;> cases hs; exact ⟨hc, h, hk, ht⟩
  | closeChan => simp only [step] at hs; split at hs <;> cases hs; exact ⟨rfl, h, hk, ht⟩
  | lock => simp only [step] at hs; split at hs <;> cases hs; exact ⟨hc, h, hk, ht⟩
  | waitZero => simp only [step] at hs; split at hs <;> cases hs; exact ⟨hc, h, hk, ht⟩
  | ret => simp only [step] at hs; split at hs <;> cases hs; exact ⟨hc, h, hk, ht⟩
  | closeCall2 => simp only [step] at hs; cases hs; exact ⟨hc, h, hk, ht⟩
  | closeChan2 => simp only [step] at hs; split at hs <;> cases hs; exact ⟨hc, h, hk, ht⟩

theorem run_track {sched : List Label} {s s' : Sys} {k c : Nat} {h : Handler}
    (hc : s.closing = true) (hk : s.hs[k]? = some h) (ht : Track c h) (hr : run s sched = some s') :
    ∃ h', s'.hs[k]? = some h' ∧ Track c h' := by
  induction sched generalizing s h with
  | nil => simp [run] at hr; subst hr; exact ⟨h, hk, ht⟩
  | cons l ls ih =>
    simp only [run] at hr
    split at hr
    · cases hr
    · rename_i s1 h1
      obtain ⟨hc1, h1', hk1, ht1⟩ := step_track hc hk ht h1
      exact ih hc1 hk1 ht1 hr

/-! ### round 3: faults, plain handlers, further `Close` callers -/

/-- The fault counters change only by their own labels. -/
theorem hstep_faults {c mu r : Bool} {h h' : Handler} {l : HL} (hs : hstep c mu r h l = some h') :
    (l ≠ .writeErr → h'.aborted = h.aborted) ∧ (l ≠ .hijack → h'.hijacked = h.hijacked) ∧
    (l = .writeErr → h'.aborted = h.aborted + 1) ∧ (l = .hijack → h'.hijacked = h.hijacked + 1) := by
  cases l <;> cases hpc : h.pc <;> simp [hstep, hpc, Pc.readable] at hs
  all_goals (first | (obtain ⟨_, hs⟩ := hs; subst hs; simp) | (subst hs; simp))

/-- No response write has failed and no modifier has hijacked on any connection. -/
def NoFaults (s : Sys) : Prop := ∀ h ∈ s.hs, h.aborted = 0 ∧ h.hijacked = 0

def Label.isFault : Label → Bool
  | .h _ .writeErr | .h _ .hijack => true
  | _ => false

theorem step_noFaults {s s' : Sys} {l : Label} (hn : NoFaults s) (hl : l.isFault = false)
    (hs : step s l = some s') : NoFaults s' := by
  cases l with
  | h k l =>
    simp only [step] at hs
    split at hs
    · cases hs
    · rename_i h hk
      split at hs
      · cases hs
      · split at hs
        · cases hs
        · rename_i h' hh
          cases hs
          intro x hx
          rcases List.mem_or_eq_of_mem_set hx with hx | hx
          · exact hn x hx
          · subst hx
            have hf := hstep_faults hh
            have h0 := hn h (List.mem_of_getElem? hk)
            have h1 : l ≠ .writeErr := by intro e; subst e; simp [Label.isFault] at hl
            have h2 : l ≠ .hijack := by intro e; subst e; simp [Label.isFault] at hl
            exact ⟨by rw [hf.1 h1]; exact h0.1, by rw [hf.2.1 h2]; exact h0.2⟩
  | accept =>
    simp only [step] at hs
    split at hs <;> cases hs
    intro x hx
    rcases List.mem_append.mp hx with hx | hx
    · exact hn x hx
    · simp at hx; subst hx; exact ⟨rfl, rfl⟩
  | closeCall2 => simp only [step] at hs; cases hs; exact hn
  | serveCheck => simp only [step] at hs; split at hs <;> cases hs; exact hn
  | closeCall => simp only [step] at hs; split at hs <;> cases hs; exact hn
  | closeChan => simp only [step] at hs; split at hs <;> cases hs; exact hn
  | lock => simp only [step] at hs; split at hs <;> cases hs; exact hn
  | waitZero => simp only [step] at hs; split at hs <;> cases hs; exact hn
  | ret => simp only [step] at hs; split at hs <;> cases hs; exact hn
  | closeChan2 => simp only [step] at hs; split at hs <;> cases hs; exact hn

theorem run_noFaults {sched : List Label} {s s' : Sys} (hn : NoFaults s)
    (hl : ∀ l ∈ sched, l.isFault = false) (hr : run s sched = some s') : NoFaults s' := by
  induction sched generalizing s with
  | nil => simp [run] at hr; subst hr; exact hn
  | cons l ls ih =>
    simp only [run] at hr
    split at hr
    · cases hr
    · rename_i s1 h1
      exact ih (step_noFaults hn (hl l (by simp)) h1) (fun x hx => hl x (by simp [hx])) hr

/-- A handler from which no tunnel can arise without a new request: it is not waiting for a peer, not
inside the CONNECT-only steps, and the exchange it is in (if any) is not a CONNECT. -/
def Handler.plain (h : Handler) : Bool :=
  !h.pc.peerBlocked && h.pc != .dialing && h.pc != .cwriting && !h.bodyOpen &&
    (!(h.pc.inExchange || h.pc == .haveReq) || h.conn == .no)

theorem hstep_plain {c mu r : Bool} {h h' : Handler} {l : HL} (hs : hstep c mu r h l = some h')
    (hp : h.plain = true) (hl : l ≠ .gotConnect) (hl2 : ∀ rc, l ≠ .gotReqOpen rc) : h'.plain = true := by
  cases l <;> cases hpc : h.pc <;> simp [hstep, hpc, Pc.readable] at hs
  all_goals (first | (exact absurd rfl hl) | (exact absurd rfl (hl2 _)) | skip)
  all_goals (first | (obtain ⟨hc, hs⟩ := hs; subst hs) | (subst hs))
  all_goals (simp [Handler.plain, hpc, Pc.peerBlocked, Pc.inExchange] at hp ⊢)
  all_goals (first
    | done
    | (simp_all; done)
    | (cases c <;> simp_all [Pc.peerBlocked, Pc.inExchange]; done)
    | (split <;> simp_all [Pc.peerBlocked, Pc.inExchange]; done)
    | (rename_i b; cases b <;> simp_all [Pc.peerBlocked, Pc.inExchange] <;> (try (cases hbo : h.bodyOpen <;> simp_all [Pc.peerBlocked, Pc.inExchange]))))

def AllPlain (s : Sys) : Prop := ∀ h ∈ s.hs, h.plain = true

theorem step_allPlain {s s' : Sys} {l : Label} (hp : AllPlain s) (hl : ∀ k, l ≠ .h k .gotConnect)
    (hl2 : ∀ k rc, l ≠ .h k (.gotReqOpen rc)) (hs : step s l = some s') : AllPlain s' := by
  cases l with
  | h k l =>
    simp only [step] at hs
    split at hs
    · cases hs
    · rename_i h hk
      split at hs
      · cases hs
      · split at hs
        · cases hs
        · rename_i h' hh
          cases hs
          intro x hx
          rcases List.mem_or_eq_of_mem_set hx with hx | hx
          · exact hp x hx
          · subst hx
            exact hstep_plain hh (hp h (List.mem_of_getElem? hk)) (by intro e; subst e; exact hl k rfl)
              (by intro rc e; subst e; exact hl2 k rc rfl)
  | accept =>
    simp only [step] at hs
    split at hs <;> cases hs
    intro x hx
    rcases List.mem_append.mp hx with hx | hx
    · exact hp x hx
    · simp at hx; subst hx; rfl
  | closeCall2 => simp only [step] at hs; cases hs; exact hp
  | serveCheck => simp only [step] at hs; split at hs <;> cases hs; exact hp
  | closeCall => simp only [step] at hs; split at hs <;> cases hs; exact hp
  | closeChan => simp only [step] at hs; split at hs <;> cases hs; exact hp
  | lock => simp only [step] at hs; split at hs <;> cases hs; exact hp
  | waitZero => simp only [step] at hs; split at hs <;> cases hs; exact hp
  | ret => simp only [step] at hs; split at hs <;> cases hs; exact hp
  | closeChan2 => simp only [step] at hs; split at hs <;> cases hs; exact hp

theorem plain_not_blocked {h : Handler} (hp : h.plain = true) : h.pc.peerBlocked = false := by
  simp [Handler.plain] at hp
  exact hp.1.1.1.1

/-- Bookkeeping of the further `Close` callers: every such call is still pending or has panicked. -/
def CallsOk (s : Sys) : Prop := s.calls2 = s.extra + s.panics

theorem step_callsOk {s s' : Sys} {l : Label} (hc : CallsOk s) (hs : step s l = some s') : CallsOk s' := by
  cases l with
  | h k l =>
    simp only [step] at hs
    split at hs
    · cases hs
    · split at hs
      · cases hs
      · split at hs <;> cases hs
        exact hc
  | closeCall2 => simp only [step] at hs; cases hs; simp only [CallsOk] at hc ⊢; omega
  | closeChan2 =>
    simp only [step] at hs
    split at hs <;> cases hs
    rename_i hx
    simp only [CallsOk] at hc ⊢
    omega
  | accept => simp only [step] at hs; split at hs <;> cases hs; exact hc
  | serveCheck => simp only [step] at hs; split at hs <;> cases hs; exact hc
  | closeCall => simp only [step] at hs; split at hs <;> cases hs; exact hc
  | closeChan => simp only [step] at hs; split at hs <;> cases hs; exact hc
  | lock => simp only [step] at hs; split at hs <;> cases hs; exact hc
  | waitZero => simp only [step] at hs; split at hs <;> cases hs; exact hc
  | ret => simp only [step] at hs; split at hs <;> cases hs; exact hc

theorem run_callsOk {sched : List Label} {s s' : Sys} (hc : CallsOk s) (hr : run s sched = some s') : CallsOk s' := by
  induction sched generalizing s with
  | nil => simp [run] at hr; subst hr; exact hc
  | cons l ls ih =>
    simp only [run] at hr
    split at hr
    · cases hr
    · rename_i s1 h1
      exact ih (step_callsOk hc h1) hr

end Martian.Shutdown
